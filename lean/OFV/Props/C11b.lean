/-
  C11b — outbound stream over a connection that may fail: the wire is always whole messages followed by at most one
  partial message (and then nothing, ever); nothing is written twice; per-producer order; the wire is a prefix of an
  order-respecting concatenation of whole submitted encodings; re-framing by header lengths; OutFault without failures
  is OutSys; connections are independent.

  Model: OFV/Model/Stream/OutFault.lean (OutSys + `writeFail k` / `deadline`).  Helper lemmas: OFV/Lemmas/OutFault.lean.
  Every theorem is quantified over the channel capacity, the submissions (any number of producers, any messages) and
  every reachable state of every schedule, including every failure point and every number k of bytes let through.
-/
import OFV.Model.Stream.OutSys
import OFV.Model.Stream.OutFault
import OFV.Model.Stream.Deframer
import OFV.Lemmas.OutFault
import OFV.Props.C10
import OFV.Props.C11
namespace OFV.Props.C11b
open OFV OFV.Model OFV.Model.OutFault OFV.OutF

/-! ## the example run used for non-vacuity (two producers, capacity 2, the second Write fails after 3 bytes) -/

def m1 : Bytes := [4, 0, 0, 8, 0, 0, 0, 1]
def m2 : Bytes := [4, 0, 0, 8, 0, 0, 0, 2]
def m3 : Bytes := [4, 0, 0, 9, 0, 0, 0, 3, 7]
def m4 : Bytes := [4, 0, 0, 8, 0, 0, 0, 4]
/-- producer 0 submits m1 then m2, producer 1 submits m3 then m4 -/
def exSubm : List (List Bytes) := [[m1, m2], [m3, m4]]
/-- m1 written, the writer holds m3, m2 queued, m4 not yet submitted -/
def exOK : St := ⟨[[], [m4]], [(0, m2)], some (1, m3), [(0, m1)], none⟩
/-- … and the Write of m3 failed after 3 bytes -/
def exFail : St := ⟨[[], [m4]], [(0, m2)], none, [(0, m1)], some ((1, m3), 3)⟩
/-- … and afterwards producer 1 still got m4 into the channel -/
def exLate : St := ⟨[[], []], [(0, m2), (1, m4)], none, [(0, m1)], some ((1, m3), 3)⟩
/-- instead: SetWriteDeadline failed before the Write of m3 -/
def exDeadline : St := ⟨[[], [m4]], [(0, m2)], none, [(0, m1)], some ((1, m3), 0)⟩

theorem exRunOK : Reach 2 (initSt exSubm) exOK := by
  have h1 : Reach 2 (initSt exSubm) ⟨[[m2], [m3, m4]], [(0, m1)], none, [], none⟩ :=
    .step _ _ .refl (.submit _ 0 m1 [m2] (by decide) rfl (by decide))
  have h2 : Reach 2 (initSt exSubm) ⟨[[m2], [m3, m4]], [], some (0, m1), [], none⟩ :=
    .step _ _ h1 (.recv _ (0, m1) [] rfl rfl rfl)
  have h3 : Reach 2 (initSt exSubm) ⟨[[m2], [m4]], [(1, m3)], some (0, m1), [], none⟩ :=
    .step _ _ h2 (.submit _ 1 m3 [m4] (by decide) rfl (by decide))
  have h4 : Reach 2 (initSt exSubm) ⟨[[m2], [m4]], [(1, m3)], none, [(0, m1)], none⟩ :=
    .step _ _ h3 (.write _ (0, m1) rfl rfl)
  have h5 : Reach 2 (initSt exSubm) ⟨[[m2], [m4]], [], some (1, m3), [(0, m1)], none⟩ :=
    .step _ _ h4 (.recv _ (1, m3) [] rfl rfl rfl)
  exact .step _ _ h5 (.submit _ 0 m2 [] (by decide) rfl (by decide))

theorem exRunFail : Reach 2 (initSt exSubm) exFail :=
  .step _ _ exRunOK (.writeFail _ (1, m3) 3 rfl rfl (by decide))

theorem exRunLate : Reach 2 exFail exLate :=
  .step _ _ .refl (.submit _ 1 m4 [] (by decide) rfl (by decide))

theorem exRunDeadline : Reach 2 (initSt exSubm) exDeadline :=
  .step _ _ exRunOK (.deadline _ (1, m3) rfl rfl)

example : exFail.wireBytes = m1 ++ [4, 0, 0] ∧ exLate.wireBytes = m1 ++ [4, 0, 0] ∧ exDeadline.wireBytes = m1 := by
  decide

/-! ## 1. shape of the wire -/

/-- per-producer sequence invariant: (written ++ lost to the failure ++ held by the writer ++ queued ++ not yet
    submitted) is exactly what the producer submits, in its order -/
def Inv (subm : List (List Bytes)) (s : St) : Prop :=
  s.pending.length = subm.length ∧ ∀ p, (hp : p < subm.length) → s.sent p ++ s.pending[p]?.getD [] = subm[p]

/-- C11b "exactly once", every schedule and every failure: each submitted message is, as an occurrence in its
    producer's sequence, in exactly one place — written whole, lost to the failure (at most one message in all),
    held by the writer, queued, or not yet submitted.  Obtained from C11_inv through the simulation `sim`. -/
theorem C11b_inv (cap : Nat) (subm : List (List Bytes)) (s : St) (h : Reach cap (initSt subm) s) : Inv subm s := by
  have hs := reach_safe cap _ s h (init_safe subm)
  have h1 : C11.Inv subm (absF s) := C11.C11_inv cap subm (absF s) (sim cap _ s h)
  refine ⟨h1.1, fun p hp => ?_⟩
  have h2 := h1.2 p hp
  rw [absF_sent s hs p] at h2
  exact h2

example : Inv exSubm exFail := C11b_inv 2 exSubm exFail exRunFail

/-- C11b wire shape: in every reachable state the byte stream is the concatenation of the whole messages written so
    far, followed by `partialBytes`;  while the writer is alive `partialBytes = []`;  after a failure it is the first
    k ≤ length bytes of ONE further message x, the writer holds nothing, and x is exactly the message of its producer
    that was due next (so the partial message is a submitted one, and nothing of any other message follows).
    (The first conjunct is the definition of `wireBytes`, repeated to make the statement self-contained.) -/
theorem C11b_wire_shape (cap : Nat) (subm : List (List Bytes)) (s : St) (h : Reach cap (initSt subm) s) :
    s.wireBytes = (s.wire.map (·.2)).flatten ++ s.partialBytes ∧
    (s.failed = none → s.partialBytes = []) ∧
    (∀ x k, s.failed = some (x, k) →
      s.partialBytes = x.2.take k ∧ k ≤ x.2.length ∧ s.partialBytes <+: x.2 ∧ s.writer = none ∧
      ∃ hp : x.1 < subm.length, (s.wire.filter (fun y => y.1 = x.1)).map (·.2) ++ [x.2] <+: subm[x.1]) := by
  refine ⟨rfl, fun hf => by simp [St.partialBytes, hf], ?_⟩
  intro x k hf
  have hs := reach_safe cap _ s h (init_safe subm) x k hf
  have hp : x.1 < subm.length :=
    (reach_tagged cap subm s h).2 x (by simp [St.left, St.lost, hf])
  have hpb : s.partialBytes = x.2.take k := by simp [St.partialBytes, hf]
  refine ⟨hpb, hs.2, hpb ▸ List.take_prefix _ _, hs.1, hp, ?_⟩
  have hi := (C11b_inv cap subm s h).2 x.1 hp
  simp only [St.sent, St.lost, hf, hs.1, List.filter_append, List.map_append, List.append_assoc, Option.map,
    Option.toList, List.filter_cons, List.filter_nil, decide_true, if_true, List.map_cons, List.map_nil,
    List.nil_append] at hi
  exact ⟨_, by simpa [List.append_assoc] using hi⟩

example : ∃ x k, exFail.failed = some (x, k) := ⟨_, _, rfl⟩

/-- bytes of a message that was not written whole are on the wire only after a failure -/
theorem C11b_partial_only_dead (s : St) (h : s.partialBytes ≠ []) : s.failed ≠ none := by
  intro hf; exact h (by simp [St.partialBytes, hf])

/-! ## 2. exactly once, never twice -/

/-- C11b counting form of `C11b_inv`: for every producer p and every byte string m, the number of times p submits m =
    times written whole + times lost + times held by the writer + times queued + times not yet submitted -/
theorem C11b_count (cap : Nat) (subm : List (List Bytes)) (s : St) (h : Reach cap (initSt subm) s)
    (p : Prod) (hp : p < subm.length) (m : Bytes) :
    ((s.wire.filter (fun x => x.1 = p)).map (·.2)).count m + ((s.lost.filter (fun x => x.1 = p)).map (·.2)).count m +
      ((s.writer.toList.filter (fun x => x.1 = p)).map (·.2)).count m +
      ((s.chan.filter (fun x => x.1 = p)).map (·.2)).count m + (s.pending[p]?.getD []).count m
      = subm[p].count m := by
  have hi := (C11b_inv cap subm s h).2 p hp
  rw [← hi]
  simp only [St.sent, List.filter_append, List.map_append, List.count_append]

example : ((exFail.wire.filter (fun x => x.1 = 1)).map (·.2)).count m3 = 0 ∧
    ((exFail.lost.filter (fun x => x.1 = 1)).map (·.2)).count m3 = 1 := by decide

/-- C11b never twice: a message is written whole at most as often as its producer submitted it (every state, with or
    without failure) -/
theorem C11b_at_most_once (cap : Nat) (subm : List (List Bytes)) (s : St) (h : Reach cap (initSt subm) s)
    (p : Prod) (hp : p < subm.length) (m : Bytes) :
    ((s.wire.filter (fun x => x.1 = p)).map (·.2)).count m ≤ subm[p].count m := by
  have := C11b_count cap subm s h p hp m
  omega

/-- C11b the message whose Write failed is never written whole: of the occurrences of its bytes in its producer's
    submissions, at least one (this one) is missing from the whole messages on the wire -/
theorem C11b_lost_not_written (cap : Nat) (subm : List (List Bytes)) (s : St) (h : Reach cap (initSt subm) s)
    (x : Prod × Bytes) (k : Nat) (hf : s.failed = some (x, k)) (hp : x.1 < subm.length) :
    ((s.wire.filter (fun y => y.1 = x.1)).map (·.2)).count x.2 + 1 ≤ subm[x.1].count x.2 := by
  have := C11b_count cap subm s h x.1 hp x.2
  have e : ((s.lost.filter (fun y => y.1 = x.1)).map (·.2)).count x.2 = 1 := by simp [St.lost, hf]
  omega

example : exFail.failed = some ((1, m3), 3) := rfl

/-- C11b after a failure nothing is ever written again: in every continuation of the run the failure record, the
    successful Writes, the (empty) hand of the writer and hence the byte stream stay what they were; in particular
    the lost message is not re-sent and the partial message is never completed. -/
theorem C11b_dead_forever (cap : Nat) (s s' : St) (h : Reach cap s s') (f : (Prod × Bytes) × Nat)
    (hf : s.failed = some f) :
    s'.failed = some f ∧ s'.wire = s.wire ∧ s'.writer = s.writer ∧ s'.wireBytes = s.wireBytes := by
  obtain ⟨h1, h2, h3⟩ := reach_frozen cap s s' h f hf
  exact ⟨h1, h2, h3, by simp [St.wireBytes, St.partialBytes, h1, h2, hf]⟩

/-- a continuation after the failure: producer 1 still submits m4; the wire does not move -/
example : Reach 2 exFail exLate ∧ exFail.failed = some ((1, m3), 3) := ⟨exRunLate, rfl⟩

/-- C11b a dead writer blocks its producers: after a failure the only steps left are submits (while the channel has
    room); once the channel is full no step is enabled at all — every producer that still has something to submit
    stays blocked for good (this is the state the Go process is in between the failed Write and the exit in
    log.Fatalf, or for ever if the logger's exit function is overridden). -/
theorem C11b_dead_steps (cap : Nat) (s s' : St) (f : (Prod × Bytes) × Nat) (hf : s.failed = some f)
    (h : Step cap s s') :
    s.chan.length < cap ∧ ∃ p m, s'.chan = s.chan ++ [(p, m)] ∧ s'.wire = s.wire ∧ s'.failed = s.failed := by
  cases h with
  | submit p m r hp hpm hc => exact ⟨hc, p, m, rfl, rfl, rfl⟩
  | recv x r hf' hc hw => rw [hf] at hf'; exact absurd hf' (by simp)
  | write x hf' hw => rw [hf] at hf'; exact absurd hf' (by simp)
  | writeFail x k hf' hw hk => rw [hf] at hf'; exact absurd hf' (by simp)
  | deadline x hf' hw => rw [hf] at hf'; exact absurd hf' (by simp)

example : exLate.failed = some ((1, m3), 3) ∧ ¬ exLate.chan.length < 2 := by decide

/-- C11b what the failure costs (the behaviour of the Go code, `log.Fatalf` instead of a retry): "every submitted
    message is written exactly once" does NOT survive a failure — from the failure on, in every continuation, the
    producer of the message whose Write failed has strictly fewer whole messages on the wire than it submitted
    (that message, and whatever that producer submits after it, is never delivered). -/
theorem C11b_failure_loses (cap : Nat) (subm : List (List Bytes)) (s s' : St) (h : Reach cap (initSt subm) s)
    (x : Prod × Bytes) (k : Nat) (hf : s.failed = some (x, k)) (h' : Reach cap s s') (hp : x.1 < subm.length) :
    ((s'.wire.filter (fun y => y.1 = x.1)).map (·.2)).length < subm[x.1].length := by
  have hw := (C11b_dead_forever cap s s' h' (x, k) hf).2.1
  obtain ⟨_, _, _, _, _, t, ht⟩ := (C11b_wire_shape cap subm s h).2.2 x k hf
  rw [hw, ← ht]
  simp

/-- C11b the wire only grows: what was written whole stays, in place (every schedule, any start state) -/
theorem C11b_wire_monotone (cap : Nat) (s s' : St) (h : Reach cap s s') : s.wire <+: s'.wire :=
  reach_wire_prefix cap s s' h

/-- C11b exactly once at quiescence: when nothing is in flight and producer p has submitted everything, its whole
    messages on the wire, followed by the lost one if the failure hit a message of p, are exactly p's submissions.
    (Failure-free: `s.lost = []`, every message of p is on the wire exactly once, in order.) -/
theorem C11b_once (cap : Nat) (subm : List (List Bytes)) (s : St) (h : Reach cap (initSt subm) s)
    (p : Prod) (hp : p < subm.length) (hq : s.writer = none ∧ s.chan = [] ∧ s.pending[p]?.getD [] = []) :
    (s.wire.filter (fun x => x.1 = p)).map (·.2) ++ (s.lost.filter (fun x => x.1 = p)).map (·.2) = subm[p] := by
  have := (C11b_inv cap subm s h).2 p hp
  simpa [St.sent, hq.1, hq.2.1, hq.2.2, List.filter_append] using this

/-! ## 3. per-producer order -/

/-- C11b order: the whole messages of producer p on the wire — even extended by the lost message if it is p's — are
    a prefix of p's submissions: nothing reordered, duplicated or invented, and the partially written message is the
    one that was due next -/
theorem C11b_order (cap : Nat) (subm : List (List Bytes)) (s : St) (h : Reach cap (initSt subm) s)
    (p : Prod) (hp : p < subm.length) :
    (s.wire.filter (fun x => x.1 = p)).map (·.2) <+: subm[p] ∧
    (s.wire.filter (fun x => x.1 = p)).map (·.2) ++ (s.lost.filter (fun x => x.1 = p)).map (·.2) <+: subm[p] := by
  have := (C11b_inv cap subm s h).2 p hp
  simp only [St.sent, List.filter_append, List.map_append, List.append_assoc] at this
  exact ⟨⟨_, this⟩, ⟨_, by simpa [List.append_assoc] using this⟩⟩

example : (exFail.wire.filter (fun x => x.1 = 0)).map (·.2) = [m1] ∧ [m1] <+: exSubm[0] := by decide

/-! ## 4. the byte stream is a prefix of an order-respecting concatenation of whole submitted encodings -/

/-- the canonical completion of a state: written, lost, held, queued, then everything not yet submitted -/
def completion (s : St) : List (Prod × Bytes) := St.left s ++ tagAll 0 s.pending

/-- C11b (what the harness op `outfault` checks on the real code): in every reachable state there is a list `fs` of
    (producer, message) pairs that is a complete interleaving of the submissions — for every producer p the messages
    of p in `fs` are exactly `subm[p]`, in order, and `fs` has no other entries — such that the successful Writes are
    an initial segment of `fs` and the byte stream is a prefix of the concatenation of `fs`.  Hence the wire never
    carries bytes that are not the beginning of whole submitted frames in an order every producer agrees with. -/
theorem C11b_prefix_of_interleaving (cap : Nat) (subm : List (List Bytes)) (s : St) (h : Reach cap (initSt subm) s) :
    ∃ fs : List (Prod × Bytes),
      (∀ p, (hp : p < subm.length) → (fs.filter (fun x => x.1 = p)).map (·.2) = subm[p]) ∧
      (∀ x ∈ fs, x.1 < subm.length) ∧
      s.wire <+: fs ∧
      s.wireBytes <+: (fs.map (·.2)).flatten := by
  have hinv := C11b_inv cap subm s h
  have htag := reach_tagged cap subm s h
  refine ⟨completion s, ?_, ?_, ?_, ?_⟩
  · intro p hp
    have := hinv.2 p hp
    simp only [completion, St.left, List.filter_append, List.map_append, tagAll_filter, Nat.zero_le, if_true,
      Nat.sub_zero]
    simpa [St.sent, List.filter_append, List.append_assoc] using this
  · intro x hx
    simp only [completion, List.mem_append] at hx
    rcases hx with hx | hx
    · exact htag.2 x hx
    · have := tagAll_tags s.pending 0 x hx
      rw [hinv.1] at this; simpa using this
  · exact ⟨s.lost ++ s.writer.toList ++ s.chan ++ tagAll 0 s.pending, by simp [completion, St.left]⟩
  · have hp : s.partialBytes <+: (s.lost.map (·.2)).flatten := by
      cases hf : s.failed with
      | none => simp [St.partialBytes, hf]
      | some f =>
        obtain ⟨x, k⟩ := f
        simp only [St.partialBytes, St.lost, hf, Option.map, Option.toList, List.map_cons, List.map_nil,
          List.flatten_cons, List.flatten_nil, List.append_nil]
        exact List.take_prefix _ _
    obtain ⟨t, ht⟩ := hp
    refine ⟨t ++ ((s.writer.toList ++ s.chan ++ tagAll 0 s.pending).map (·.2)).flatten, ?_⟩
    simp only [St.wireBytes, completion, St.left, List.map_append, List.flatten_append, List.append_assoc]
    rw [← ht]; simp [List.append_assoc]

example : exFail.wireBytes <+: ((completion exFail).map (·.2)).flatten := by decide

/-- the weaker, literal form: the wire is a prefix of the concatenation of SOME list of whole submitted encodings in
    which every producer's messages appear in that producer's order (a prefix of its submissions) -/
theorem C11b_prefix_of_frames (cap : Nat) (subm : List (List Bytes)) (s : St) (h : Reach cap (initSt subm) s) :
    ∃ fs : List (Prod × Bytes),
      (∀ p, (hp : p < subm.length) → (fs.filter (fun x => x.1 = p)).map (·.2) <+: subm[p]) ∧
      s.wireBytes <+: (fs.map (·.2)).flatten := by
  obtain ⟨fs, h1, _, _, h4⟩ := C11b_prefix_of_interleaving cap subm s h
  exact ⟨fs, fun p hp => by rw [h1 p hp]; exact List.prefix_refl _, h4⟩

/-! ## 5. re-framing by header lengths -/

open OFV.Model.Deframer in
/-- every submitted message is a well-formed frame: at least 8 bytes, bytes 2–3 (big-endian) = its length -/
def AllWF (subm : List (List Bytes)) : Prop := ∀ l ∈ subm, ∀ m ∈ l, WFFrame m

/-- whatever left a producer is one of that producer's submissions -/
theorem left_mem_subm (cap : Nat) (subm : List (List Bytes)) (s : St) (h : Reach cap (initSt subm) s)
    (x : Prod × Bytes) (hx : x ∈ St.left s) : ∃ hp : x.1 < subm.length, x.2 ∈ subm[x.1] := by
  have hp := (reach_tagged cap subm s h).2 x hx
  refine ⟨hp, ?_⟩
  have hi := (C11b_inv cap subm s h).2 x.1 hp
  rw [← hi]
  apply List.mem_append_left
  simp only [St.sent, List.mem_map, List.mem_filter, decide_eq_true_eq]
  exact ⟨x, ⟨hx, rfl⟩, rfl⟩

open OFV.Model.Deframer in
/-- C11b re-framing: if every submitted message is a well-formed frame, then a receiver that splits the byte stream
    by header lengths alone (the de-framer of C10, fed the stream in ANY chunking) obtains exactly the messages
    written whole, each intact, in wire order;  while the writer is alive nothing is left over;  after a failure
    that let through k < length bytes, exactly those k bytes wait in the receiver's buffer and are never handed over
    as a message;  if the failing Write had let through the whole message, the receiver gets that message too. -/
theorem C11b_reframe (cap : Nat) (subm : List (List Bytes)) (hwf : AllWF subm) (s : OutFault.St)
    (h : Reach cap (initSt subm) s) (cs : List Bytes) (hcs : cs.flatten = s.wireBytes) :
    (s.failed = none → (feedAll init cs).out = s.wire.map (·.2) ∧ (feedAll init cs).buf = []) ∧
    (∀ x k, s.failed = some (x, k) → k < x.2.length →
      (feedAll init cs).out = s.wire.map (·.2) ∧ (feedAll init cs).buf = x.2.take k) ∧
    (∀ x k, s.failed = some (x, k) → k = x.2.length →
      (feedAll init cs).out = s.wire.map (·.2) ++ [x.2] ∧ (feedAll init cs).buf = []) := by
  have hmem : ∀ x ∈ St.left s, WFFrame x.2 := by
    intro x hx
    obtain ⟨hp, hm⟩ := left_mem_subm cap subm s h x hx
    exact hwf _ (List.getElem_mem hp) _ hm
  have hw : ∀ f ∈ s.wire.map (·.2), WFFrame f := by
    intro f hf
    obtain ⟨x, hx, rfl⟩ := List.mem_map.mp hf
    exact hmem x (by simp [St.left, hx])
  refine ⟨?_, ?_, ?_⟩
  · intro hf
    apply C10.C10_frames_exact _ hw cs
    rw [hcs]; simp [St.wireBytes, St.partialBytes, hf]
  · intro x k hf hk
    have hx : WFFrame x.2 := hmem x (by simp [St.left, St.lost, hf])
    apply C10.C10_frames _ hw (x.2.take k) (x.2.drop k) x.2 hx (List.take_append_drop _ _).symm
    · intro h0
      have := congrArg List.length h0
      simp at this; omega
    · rw [hcs]; simp [St.wireBytes, St.partialBytes, hf]
  · intro x k hf hk
    have hx : WFFrame x.2 := hmem x (by simp [St.left, St.lost, hf])
    have hw' : ∀ f ∈ s.wire.map (·.2) ++ [x.2], WFFrame f := by
      intro f hf'
      rcases List.mem_append.mp hf' with h1 | h1
      · exact hw f h1
      · rw [List.mem_singleton.mp h1]; exact hx
    apply C10.C10_frames_exact _ hw' cs
    rw [hcs]; simp [St.wireBytes, St.partialBytes, hf, hk]

example : AllWF exSubm := by
  intro l hl m hm
  simp only [exSubm, List.mem_cons, List.mem_nil_iff, or_false] at hl
  rcases hl with rfl | rfl <;> simp only [List.mem_cons, List.mem_nil_iff, or_false] at hm <;>
    rcases hm with rfl | rfl <;> decide

open OFV.Model.Deframer in
/-- the example run, received in three odd chunks: the whole message is handed over, the 3 bytes wait -/
example : (feedAll init [[4, 0], [0, 8, 0, 0, 0], [1, 4, 0, 0]]).out = [m1] ∧
    (feedAll init [[4, 0], [0, 8, 0, 0, 0], [1, 4, 0, 0]]).buf = [4, 0, 0] ∧
    [[4, 0], [0, 8, 0, 0, 0], [1, 4, 0, 0]].flatten = exFail.wireBytes := by decide

/-! ## 6. refinement: OutFault without failures is OutSys -/

/-- C11b simulation, all runs: mapping a state to OutSys by `absF` (forget the failure; the lost message counts as
    held by a writer that never gets to write it) turns every run of OutFault into a run of OutSys — the two
    failure steps are stutter steps.  So every safety property of OutSys states carries over to OutFault. -/
theorem C11b_sim (cap : Nat) (subm : List (List Bytes)) (s : St) (h : Reach cap (initSt subm) s) :
    OutSys.Reach cap (OutSys.initSt subm) (absF s) := sim cap _ s h

/-- C11b refinement: every failure-free run of OutFault (a run that ends in a state with a living writer — the
    failure flag is never reset, so no step of it failed) is, under the plain projection `abs`, a run of OutSys -/
theorem C11b_refines (cap : Nat) (subm : List (List Bytes)) (s : St) (h : Reach cap (initSt subm) s)
    (hf : s.failed = none) : OutSys.Reach cap (OutSys.initSt subm) (abs s) := by
  have := sim cap _ s h
  rw [absF_eq_abs s hf] at this
  exact this

/-- every step of a failure-free run is one of the three OutSys steps (step-wise form of `C11b_refines`) -/
theorem C11b_refines_step (cap : Nat) (s s' : St) (h : Step cap s s') (hf : s'.failed = none) :
    s.failed = none ∧ OutSys.Step cap (abs s) (abs s') :=
  ⟨step_failed_mono cap s s' h hf, step_ok_sim cap s s' h hf⟩

/-- C11b conversely every run of OutSys is a (failure-free) run of OutFault: OutFault adds behaviour, removes none -/
theorem C11b_embeds (cap : Nat) (subm : List (List Bytes)) (t : OutSys.St)
    (h : OutSys.Reach cap (OutSys.initSt subm) t) :
    Reach cap (initSt subm) (emb t) ∧ (emb t).failed = none ∧ abs (emb t) = t := by
  refine ⟨?_, rfl, rfl⟩
  induction h with
  | refl => exact .refl
  | step t t' _ hs ih => exact .step _ _ ih (embed_step cap t t' hs)

example : exOK.failed = none ∧ Reach 2 (initSt exSubm) exOK := ⟨rfl, exRunOK⟩

/-- the C11 theorems transferred to failure-free states of OutFault (here C11_prefix and C11_once) -/
theorem C11b_transfer (cap : Nat) (subm : List (List Bytes)) (s : St) (h : Reach cap (initSt subm) s)
    (hf : s.failed = none) (p : Prod) (hp : p < subm.length) :
    (s.wire.filter (fun x => x.1 = p)).map (·.2) <+: subm[p] ∧
    (s.writer = none ∧ s.chan = [] ∧ s.pending[p]?.getD [] = [] →
      (s.wire.filter (fun x => x.1 = p)).map (·.2) = subm[p]) := by
  have hr := C11b_refines cap subm s h hf
  exact ⟨C11.C11_prefix cap subm (abs s) hr p hp, fun hq => C11.C11_once cap subm (abs s) hr p hp hq⟩

/-! ## 7. independence of connections -/

/-- C11b independence (projection): in the product of any number of connections, each with its own capacity, its own
    producers and its own failures, the state of connection i in any reachable product state is reachable in the
    single system started from i's own submissions — so every theorem above holds for every connection, and the wire
    of a connection depends only on what was submitted to it. -/
theorem C11b_conn_proj (cap : Nat → Nat) (subms : List (List (List Bytes))) (S : List St)
    (h : PReach cap (initP subms) S) :
    S.length = subms.length ∧
    ∀ i, (hi : i < subms.length) → ∃ s, S[i]? = some s ∧ Reach (cap i) (initSt subms[i]) s := by
  obtain ⟨hl, hc⟩ := preach_proj cap _ S h
  refine ⟨by simpa [initP] using hl, fun i hi => ?_⟩
  exact hc i (initSt subms[i]) (by simp [initP, hi])

/-- C11b independence (completeness): conversely any combination of individually reachable connection states is
    reachable in the product — no connection constrains another -/
theorem C11b_conn_product (cap : Nat → Nat) (subms : List (List (List Bytes))) (S : List St)
    (hl : S.length = subms.length)
    (hc : ∀ i (hi : i < subms.length) (h : i < S.length), Reach (cap i) (initSt subms[i]) S[i]) :
    PReach cap (initP subms) S := by
  apply preach_all (initP subms) cap S (by simpa [initP] using hl)
  intro i h0 h
  have hi : i < subms.length := by simpa [initP] using h0
  have e : (initP subms)[i] = initSt subms[i] := by simp [initP]
  rw [e]; exact hc i hi h

/-- C11b independence, stated on two worlds: if connection i is given the same submissions in two products (the other
    connections may differ in number of producers, messages, capacities), every state connection i reaches in one
    it also reaches in the other -/
theorem C11b_conn_only_own (cap cap' : Nat → Nat) (subms subms' : List (List (List Bytes))) (i : Nat)
    (hi : i < subms.length) (hi' : i < subms'.length) (he : subms[i] = subms'[i]) (hcap : cap i = cap' i)
    (S : List St) (h : PReach cap (initP subms) S) (s : St) (hs : S[i]? = some s) :
    ∃ S', PReach cap' (initP subms') S' ∧ S'[i]? = some s := by
  obtain ⟨_, hc⟩ := C11b_conn_proj cap subms S h
  obtain ⟨s1, h1, h2⟩ := hc i hi
  rw [hs] at h1
  have e1 : s1 = s := (Option.some.inj h1).symm
  subst e1
  have hlen : i < (initP subms').length := by simpa [initP] using hi'
  have e : (initP subms')[i] = initSt subms[i] := by simp [initP, he]
  refine ⟨(initP subms').set i s1, ?_, by simp [hlen]⟩
  apply preach_lift cap' (initP subms') i hlen s1
  rw [e, ← hcap]; exact h2

/-- two connections: connection 0 runs the example (its second Write fails after 3 bytes) while connection 1, with
    other submissions and another capacity, has not moved -/
example : PReach (fun i => i + 2) (initP [exSubm, [[m2]]]) [exFail, initSt [[m2]]] :=
  preach_lift (fun i => i + 2) (initP [exSubm, [[m2]]]) 0 (by decide) exFail exRunFail

/-! ### when `log.Fatalf` really exits: a failure on one connection stops all of them

  `XStep` is the product in which no step is enabled once any writer has failed (logrus' default exit function ends
  the process).  Safety is unaffected — every XReach run is a PReach run, so `C11b_conn_proj` and with it every
  theorem above holds for every connection — but connections are no longer independent in what they can still
  achieve: -/

/-- every run of the exiting product is a run of the product; the projection theorem applies -/
theorem C11b_exit_proj (cap : Nat → Nat) (subms : List (List (List Bytes))) (S : List St)
    (h : XReach cap (initP subms) S) :
    S.length = subms.length ∧
    ∀ i, (hi : i < subms.length) → ∃ s, S[i]? = some s ∧ Reach (cap i) (initSt subms[i]) s :=
  C11b_conn_proj cap subms S (xreach_preach cap _ S h)

/-- in the exiting product at most one connection ever fails, and after that failure no connection writes, receives
    or accepts a submission any more: the messages queued on the OTHER connections are lost too -/
theorem C11b_exit_global (cap : Nat → Nat) (subms : List (List (List Bytes))) (S : List St)
    (h : XReach cap (initP subms) S) :
    (∀ (i j : Nat) (si sj : St), S[i]? = some si → S[j]? = some sj → si.failed ≠ none → sj.failed ≠ none → i = j) ∧
    (∀ t ∈ S, t.failed ≠ none → ∀ S', ¬ XStep cap S S') := by
  refine ⟨xreach_one_failure cap _ S h ?_, fun t ht hf S' => xstep_dead cap S S' t ht hf⟩
  intro t ht
  simp only [initP, List.mem_map] at ht
  obtain ⟨_, _, rfl⟩ := ht
  rfl

/-- a run of the exiting product of two connections in which connection 0 fails (deadline) -/
example : XReach (fun _ => 1) (initP [[[m1]], [[m1]]])
    [⟨[[]], [], none, [], some ((0, m1), 0)⟩, initSt [[m1]]] := by
  have alive : ∀ (a : St), a.failed = none → ∀ t ∈ [a, initSt [[m1]]], t.failed = none := by
    intro a ha t ht
    simp only [List.mem_cons, List.mem_nil_iff, or_false] at ht
    rcases ht with rfl | rfl
    · exact ha
    · rfl
  have h1 : XReach (fun _ => 1) (initP [[[m1]], [[m1]]]) [⟨[[]], [(0, m1)], none, [], none⟩, initSt [[m1]]] :=
    .step _ _ .refl (.at _ 0 _ (by decide) (alive _ rfl) (.submit _ 0 m1 [] (by decide) rfl (by decide)))
  have h2 : XReach (fun _ => 1) (initP [[[m1]], [[m1]]]) [⟨[[]], [], some (0, m1), [], none⟩, initSt [[m1]]] :=
    .step _ _ h1 (.at _ 0 _ (by decide) (alive _ rfl) (.recv _ (0, m1) [] rfl rfl rfl))
  exact .step _ _ h2 (.at _ 0 _ (by decide) (alive _ rfl) (.deadline _ (0, m1) rfl rfl))

/-- COUNTEREXAMPLE to full independence under process exit (reflects the Go code, not the modelling): two connections
    that can each reach a failed state on their own (`C11b_conn_product` combines them in the product without exit)
    cannot both be in it when the first failure ends the process. -/
theorem C11b_exit_not_independent :
    let sub : List (List Bytes) := [[m1]]
    let dead : St := ⟨[[]], [], none, [], some ((0, m1), 0)⟩
    Reach 1 (initSt sub) dead ∧ PReach (fun _ => 1) (initP [sub, sub]) [dead, dead] ∧
      ¬ XReach (fun _ => 1) (initP [sub, sub]) [dead, dead] := by
  intro sub dead
  have hr : Reach 1 (initSt sub) dead := by
    have h1 : Reach 1 (initSt sub) ⟨[[]], [(0, m1)], none, [], none⟩ :=
      .step _ _ .refl (.submit _ 0 m1 [] (by decide) rfl (by decide))
    have h2 : Reach 1 (initSt sub) ⟨[[]], [], some (0, m1), [], none⟩ :=
      .step _ _ h1 (.recv _ (0, m1) [] rfl rfl rfl)
    exact .step _ _ h2 (.deadline _ (0, m1) rfl rfl)
  refine ⟨hr, ?_, ?_⟩
  · apply C11b_conn_product (fun _ => 1) [sub, sub] [dead, dead] rfl
    intro i hi _
    have : i = 0 ∨ i = 1 := by simp at hi; omega
    rcases this with rfl | rfl <;> exact hr
  · intro hx
    have := (C11b_exit_global (fun _ => 1) [sub, sub] [dead, dead] hx).1 0 1 dead dead rfl rfl
      (by simp [dead]) (by simp [dead])
    exact absurd this (by decide)

end OFV.Props.C11b
