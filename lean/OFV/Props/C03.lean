/-
  C03 — encoded fields sit at their specified offsets with the supplied values.
  Model-level theorems for the fixed parts (the positions come from Spec.layouts, the table the check also applies
  to the implementation's bytes); nested elements are compared by the oracle on every generated API history.
-/
import OFV.Model.All
import OFV.Lemmas.Size
import OFV.Lemmas.BeAt
namespace OFV.Props.C03
open OFV OFV.Go OFV.Model OFV.Spec

/-- the 8-byte OpenFlow header: version, type, length, xid at offsets 0, 1, 2, 4 -/
theorem header_layout (ver ty ln xid : Nat) (rest : Bytes) (hb : Bytes)
    (h : Header.bytes (.obj "Header" [.num ver, .num ty, .num ln, .num xid]) = .ok hb) :
    hb.length = 8 ∧ beAt (hb ++ rest) 0 1 = (n8 ver).toNat ∧ beAt (hb ++ rest) 1 1 = (n8 ty).toNat ∧
    beAt (hb ++ rest) 2 2 = (n16 ln).toNat ∧ beAt (hb ++ rest) 4 4 = (n32 xid).toNat := by
  simp only [Header.bytes, Res.ok.injEq] at h
  subst h
  refine ⟨by simp, by simp [beAt], by simp [beAt], ?_, ?_⟩
  · have := beAt_append_right [n8 ver, n8 ty] (be16 (n16 ln) ++ (be32 (n32 xid) ++ rest)) 0 2
    simp only [List.length_cons, List.length_nil] at this
    simp only [List.cons_append, List.nil_append, List.append_assoc] at this ⊢
    rw [show (2 : Nat) = 0 + 1 + 1 + 0 from rfl]
    rw [this, beAt_be16]
  · have := beAt_append_right ([n8 ver, n8 ty] ++ be16 (n16 ln)) (be32 (n32 xid) ++ rest) 0 4
    simp only [List.length_append, List.length_cons, List.length_nil, be16_length] at this
    simp only [List.cons_append, List.nil_append, List.append_assoc] at this ⊢
    rw [show (4 : Nat) = 0 + 1 + 1 + 2 + 0 from rfl]
    rw [this, beAt_be32]

/-- reading the 40 fixed bytes of a flow-mod that follow an 8-byte header -/
theorem flowmod_fixed_bytes (hb tail : Bytes) (hl : hb.length = 8) (ck cm : UInt64) (tid cmd : UInt8) (it ht pr : UInt16)
    (bid op og : UInt32) (fl : UInt16) :
    let bs := hb ++ (be64 ck ++ be64 cm ++ [tid, cmd] ++ be16 it ++ be16 ht ++ be16 pr ++ be32 bid ++ be32 op ++ be32 og
      ++ be16 fl ++ zeros 2) ++ tail
    beAt bs 8 8 = ck.toNat ∧ beAt bs 16 8 = cm.toNat ∧ beAt bs 24 1 = tid.toNat ∧
    beAt bs 25 1 = cmd.toNat ∧ beAt bs 26 2 = it.toNat ∧ beAt bs 28 2 = ht.toNat ∧
    beAt bs 30 2 = pr.toNat ∧ beAt bs 32 4 = bid.toNat ∧ beAt bs 36 4 = op.toNat ∧
    beAt bs 40 4 = og.toNat ∧ beAt bs 44 2 = fl.toNat := by
  intro bs
  have hbs : bs = [hb, be64 ck, be64 cm, [tid], [cmd], be16 it, be16 ht, be16 pr, be32 bid, be32 op, be32 og,
      be16 fl].flatten ++ (zeros 2 ++ tail) := by
    simp [bs, List.flatten, List.append_assoc]
  rw [hbs]
  refine ⟨?_, ?_, ?_, ?_, ?_, ?_, ?_, ?_, ?_, ?_, ?_⟩
  · rw [beAt_nth _ _ 1 (be64 ck) rfl 8 (by simp [hl])]; exact beAt_be64 _ _
  · rw [beAt_nth _ _ 2 (be64 cm) rfl 16 (by simp [hl])]; exact beAt_be64 _ _
  · rw [beAt_nth _ _ 3 [tid] rfl 24 (by simp [hl])]; simp [beAt]
  · rw [beAt_nth _ _ 4 [cmd] rfl 25 (by simp [hl])]; simp [beAt]
  · rw [beAt_nth _ _ 5 (be16 it) rfl 26 (by simp [hl])]; exact beAt_be16 _ _
  · rw [beAt_nth _ _ 6 (be16 ht) rfl 28 (by simp [hl])]; exact beAt_be16 _ _
  · rw [beAt_nth _ _ 7 (be16 pr) rfl 30 (by simp [hl])]; exact beAt_be16 _ _
  · rw [beAt_nth _ _ 8 (be32 bid) rfl 32 (by simp [hl])]; exact beAt_be32 _ _
  · rw [beAt_nth _ _ 9 (be32 op) rfl 36 (by simp [hl])]; exact beAt_be32 _ _
  · rw [beAt_nth _ _ 10 (be32 og) rfl 40 (by simp [hl])]; exact beAt_be32 _ _
  · rw [beAt_nth _ _ 11 (be16 fl) rfl 44 (by simp [hl])]; exact beAt_be16 _ _

/-- FlowMod.Len() keeps every scalar field (only the match / the instructions can be touched) -/
theorem flowmod_lenM_shape (h ck cm tid : V) (cmd : Nat) (it ht pr bid op og fl pad m : V) (is : List V) (l : UInt16) (v1 : V)
    (hl : FlowMod.lenM (.obj "FlowMod" [h, ck, cm, tid, .num cmd, it, ht, pr, bid, op, og, fl, pad, m, .list is]) = .ok (l, v1)) :
    ∃ m' is', v1 = .obj "FlowMod" [h, ck, cm, tid, .num cmd, it, ht, pr, bid, op, og, fl, pad, m', .list is'] := by
  simp only [FlowMod.lenM] at hl
  obtain ⟨⟨ml, m'⟩, _, h2⟩ := bind_ok_inv _ _ _ hl
  simp only at h2
  split at h2
  · simp at h2; exact ⟨m', is, h2.2.symm⟩
  · obtain ⟨⟨ls, is'⟩, _, h3⟩ := bind_ok_inv _ _ _ h2
    simp at h3; exact ⟨m', is', h3.2.symm⟩

/-- flow-mod: every fixed field sits at the offset OpenFlow 1.3 assigns to it (cookie 8, cookie_mask 16, table_id 24,
    command 25, idle 26, hard 28, priority 30, buffer_id 32, out_port 36, out_group 40, flags 44) -/
theorem C03_flowmod_fixed (h : V) (ck cm tid cmd it ht pr bid op og fl : Nat) (pad m : V) (is : List V)
    (bs : Bytes) (v' : V)
    (hm : FlowMod.marshalM (.obj "FlowMod" [h, .num ck, .num cm, .num tid, .num cmd, .num it, .num ht, .num pr,
      .num bid, .num op, .num og, .num fl, pad, m, .list is]) = .ok (bs, v')) :
    beAt bs 8 8 = (n64 ck).toNat ∧ beAt bs 16 8 = (n64 cm).toNat ∧ beAt bs 24 1 = (n8 tid).toNat ∧
    beAt bs 25 1 = (n8 cmd).toNat ∧ beAt bs 26 2 = (n16 it).toNat ∧ beAt bs 28 2 = (n16 ht).toNat ∧
    beAt bs 30 2 = (n16 pr).toNat ∧ beAt bs 32 4 = (n32 bid).toNat ∧ beAt bs 36 4 = (n32 op).toNat ∧
    beAt bs 40 4 = (n32 og).toNat ∧ beAt bs 44 2 = (n16 fl).toNat := by
  unfold FlowMod.marshalM at hm
  obtain ⟨⟨l, v1⟩, hl, h2⟩ := bind_ok_inv _ _ _ hm
  obtain ⟨m', is', rfl⟩ := flowmod_lenM_shape _ _ _ _ _ _ _ _ _ _ _ _ _ _ _ _ _ hl
  simp only at h2
  obtain ⟨hb, hhb, h3⟩ := bind_ok_inv _ _ _ h2
  obtain ⟨⟨⟨mb, m''⟩, e0⟩, _, h4⟩ := bind_ok_inv _ _ _ h3
  obtain ⟨⟨ib, is'', e⟩, _, h5⟩ := bind_ok_inv _ _ _ h4
  simp only at h5
  split at h5
  · exact absurd h5 (by simp)
  · simp only [Res.ok.injEq, Prod.mk.injEq] at h5
    obtain ⟨hbs, _⟩ := h5
    have hl8 : hb.length = 8 := by
      unfold Header.bytes at hhb
      split at hhb
      · simp at hhb; rw [← hhb]; simp
      · exact absurd hhb (by simp)
    have := flowmod_fixed_bytes hb (mb ++ ib) hl8 (n64 ck) (n64 cm) (n8 tid) (n8 cmd) (n16 it) (n16 ht) (n16 pr)
      (n32 bid) (n32 op) (n32 og) (n16 fl)
    simp only [List.append_assoc] at this hbs
    rw [← hbs]
    exact this

end OFV.Props.C03
