/-
  C04 — parsed messages expose exactly what a conforming switch put on the wire.

  For every message kind a switch sends, the theorem of that name says: take ANY field values in range and any
  transaction id, write the frame the OpenFlow 1.3.5 specification assigns to the message (the frame is spelled out in
  the statement with `be16/be32/be64`, explicit pad bytes and the header `hdr type length xid`: version 4, type code,
  length = length of the whole frame, xid — this is the "independent encoder", it shares nothing with the library's
  MarshalBinary), hand `openflow13.Parse` any well-formed slice `s` whose visible bytes are that frame
  (`s.WF`, `s.bytes = frame`; hence `s.len = frame.length`, and the backing array may continue with arbitrary spare
  bytes up to its capacity) — then Parse succeeds with a message of the corresponding kind whose fields are exactly
  those values (`.ok (…)` with every field written out).  `depth` is the nesting bound the caller passes; any value works.

  Field values are quantified as `UInt8/16/32/64` (exactly the numbers below 2^width; the decoded field is `.num x.toNat`)
  and as byte strings with their specified length as an explicit hypothesis.

  Proved (all universally quantified, no `_partial`):
    echoRequest, echoReply, barrierReply        header-only messages (types 2, 3, 21)
    getConfigReply                              type 8
    featuresReply                               type 6 (32 bytes, no ports)
    error, experimenterError                    type 1 with arbitrary data; error type 0xffff → VendorError
    hello                                       type 0 with one version-bitmap element
    portStatus                                  type 12 with the full 64-byte ofp_port
    flowRemoved_gen / flowRemoved / flowRemoved_inPort      type 11: any correctly decoded match; empty; in_port
    packetIn_gen / packetIn / packetIn_inPort / packetIn_inPort_arp
                                                type 10: any correctly decoded match and Ethernet frame; empty match or
                                                in_port match with a frame of opaque ethertype and ANY payload; in_port
                                                match with an ARP packet decoded down to its addresses
    aggregateReply, descReply                   multipart replies (type 19) of multipart types 2 and 0
    flowStatsReply_gen / flowStatsReply / flowStatsReply_inPort_gotoTable   multipart type 1, one record
    bundleControlReply                          experimenter (type 4), ONF bundle control
    tlvTableReply                               experimenter (type 4), Nicira TLV-table reply with ANY list of mappings

  Counterexamples (the model, like the Go code, does NOT return the specification's values; all were known):
    echo_payload_dropped        echo data is not exposed (the result is the bare header)
    tableStatsReply_rejected    OpenFlow 1.3 table-stats record (24 bytes): Parse returns an error
    portStatsReply_rejected     OpenFlow 1.3 port-stats record (112 bytes): Parse returns an error
    queueStatsReply_rejected    OpenFlow 1.3 queue-stats record (40 bytes): Parse returns an error
    portDescReply_rejected      port-description reply: Parse returns an error
  Remarks on shapes that are not defects: pad fields come back as the pad bytes of the wire or as empty slices
  (`.bytes []`) when the receiver Parse allocates has a nil pad; the features-reply `reserved` word is stored in the
  field the library calls `Actions`; the datapath id is a byte string.

  Helper lemmas (reads on a slice with known bytes, Parse dispatch, match / Ethernet / TLV-map / stats-record decoders):
  OFV/Lemmas/SwBasic.lean, SwMatch.lean, SwTlv.lean, SwStats.lean.
-/
import OFV.Model.All
import OFV.Lemmas.SwBasic
import OFV.Lemmas.SwMatch
import OFV.Lemmas.SwTlv
import OFV.Lemmas.SwStats
namespace OFV.Props.C04
open OFV OFV.Go OFV.Model

/-! ### the header, and the header-only messages -/

/-- the 8-byte OpenFlow header: version 4, type code, total length of the frame, transaction id -/
def hdr (ty : UInt8) (len : UInt16) (xid : UInt32) : Bytes := [4, ty] ++ be16 len ++ be32 xid

/-- the decoded header (`Header(Version,Type,Length,Xid)`) -/
def hdrV (ty : Nat) (len : Nat) (xid : UInt32) : V := .obj "Header" [.num 4, .num ty, .num len, .num xid.toNat]

/-- echo request without payload (type 2): the header comes back field by field -/
theorem echoRequest (xid : UInt32) (depth : Nat) (s : Slice) (hwf : s.WF) (hb : s.bytes = hdr 2 8 xid) :
    parse depth s = .ok (hdrV 2 8 xid) := by
  obtain ⟨k, hk⟩ := Sw.parse_step depth s
  rw [hk, Sw.step_echoRequest _ s (Sw.byteAt_at s 1 2 _ (by rw [hb]; rfl)),
    Sw.header_at _ s hwf 4 2 8 xid [] (by rw [hb]; rfl)]
  rfl

example : parse 9 (Slice.exact (hdr 2 8 0x01020304)) = .ok (hdrV 2 8 0x01020304) :=
  echoRequest 0x01020304 9 _ (Slice.exact_wf _) rfl

/-- echo reply without payload (type 3) -/
theorem echoReply (xid : UInt32) (depth : Nat) (s : Slice) (hwf : s.WF) (hb : s.bytes = hdr 3 8 xid) :
    parse depth s = .ok (hdrV 3 8 xid) := by
  obtain ⟨k, hk⟩ := Sw.parse_step depth s
  rw [hk, Sw.step_echoReply _ s (Sw.byteAt_at s 1 3 _ (by rw [hb]; rfl)),
    Sw.header_at _ s hwf 4 3 8 xid [] (by rw [hb]; rfl)]
  rfl

example : parse 0 ⟨hdr 3 8 0xdeadbeef ++ [0xaa, 0xbb], 8⟩ = .ok (hdrV 3 8 0xdeadbeef) :=
  echoReply 0xdeadbeef 0 _ (Sw.spare_wf (hdr 3 8 0xdeadbeef) _) rfl

/-- barrier reply (type 21) -/
theorem barrierReply (xid : UInt32) (depth : Nat) (s : Slice) (hwf : s.WF) (hb : s.bytes = hdr 21 8 xid) :
    parse depth s = .ok (hdrV 21 8 xid) := by
  obtain ⟨k, hk⟩ := Sw.parse_step depth s
  rw [hk, Sw.step_barrierReply _ s (Sw.byteAt_at s 1 21 _ (by rw [hb]; rfl)),
    Sw.header_at _ s hwf 4 21 8 xid [] (by rw [hb]; rfl)]
  rfl

example : parse 0 (Slice.exact (hdr 21 8 7)) = .ok (.obj "Header" [.num 4, .num 21, .num 8, .num 7]) :=
  barrierReply 7 0 _ (Slice.exact_wf _) rfl

/-! ### get-config reply, features reply -/

/-- get-config reply (type 8): header, flags(2), miss_send_len(2) -/
theorem getConfigReply (xid : UInt32) (flags missSendLen : UInt16) (depth : Nat) (s : Slice) (hwf : s.WF)
    (hb : s.bytes = hdr 8 12 xid ++ be16 flags ++ be16 missSendLen) :
    parse depth s = .ok (.obj "SwitchConfig" [hdrV 8 12 xid, .num flags.toNat, .num missSendLen.toNat]) := by
  obtain ⟨k, hk⟩ := Sw.parse_step depth s
  rw [hk, Sw.step_getConfigReply _ s (Sw.byteAt_at s 1 8 _ (by rw [hb]; rfl))]
  unfold SwitchConfig.unmarshal SwitchConfig.zero msgTryU
  simp only [Sw.header_at _ s hwf 4 8 12 xid _ hb,
    Sw.u16From_at s 8 flags _ (by rw [hb]; rfl),
    Sw.u16From_at s 10 missSendLen _ (by rw [hb]; rfl), Res.bind_ok]
  rfl

/-- with spare capacity holding other bytes behind the frame -/
example : parse 0 ⟨hdr 8 12 0x01020304 ++ be16 1 ++ be16 0xffe5 ++ [0xde, 0xad, 0xbe, 0xef], 12⟩
    = .ok (.obj "SwitchConfig" [hdrV 8 12 0x01020304, .num 1, .num 65509]) :=
  getConfigReply 0x01020304 1 0xffe5 0 _ (Sw.spare_wf (hdr 8 12 0x01020304 ++ be16 1 ++ be16 0xffe5) _) rfl

/-- features reply (type 6), 32 bytes: header, datapath_id(8), n_buffers(4), n_tables(1), auxiliary_id(1), pad(2),
    capabilities(4), reserved(4).  The datapath id is exposed as its 8 bytes (`DPID net.HardwareAddr`), the reserved
    word in the field the library still calls `Actions`; no ports follow in OpenFlow 1.3 -/
theorem featuresReply (xid : UInt32) (datapathId : UInt64) (nBuffers : UInt32) (nTables auxiliaryId : UInt8)
    (capabilities reserved : UInt32) (depth : Nat) (s : Slice) (hwf : s.WF)
    (hb : s.bytes = hdr 6 32 xid ++ be64 datapathId ++ be32 nBuffers ++ [nTables, auxiliaryId] ++ [0, 0]
      ++ be32 capabilities ++ be32 reserved) :
    parse depth s = .ok (.obj "SwitchFeatures" [hdrV 6 32 xid, .bytes (be64 datapathId), .num nBuffers.toNat,
      .num nTables.toNat, .num auxiliaryId.toNat, .bytes [0, 0], .num capabilities.toNat, .num reserved.toNat,
      .list []]) := by
  obtain ⟨k, hk⟩ := Sw.parse_step depth s
  have hl : s.len = 32 := by rw [← Sw.bytes_length s hwf, hb]; rfl
  obtain ⟨s1, h1, _, _, hs1⟩ := Sw.fromR_at s hwf 8 (by omega)
  obtain ⟨s2, h2, _, _, hs2⟩ := Sw.fromR_at s hwf 22 (by omega)
  rw [hk, Sw.step_featuresReply _ s (Sw.byteAt_at s 1 6 _ (by rw [hb]; rfl))]
  unfold SwitchFeatures.unmarshal SwitchFeatures.new msgTryU
  simp only [Sw.header_at _ s hwf 4 6 32 xid _ hb, Res.bind_ok, zeros_length, h1,
    Sw.u32From_at s 16 nBuffers _ (by rw [hb]; rfl),
    Sw.byteAt_at s 20 nTables _ (by rw [hb]; rfl),
    Sw.byteAt_at s 21 auxiliaryId _ (by rw [hb]; rfl), h2,
    Sw.u32From_at s 24 capabilities _ (by rw [hb]; rfl),
    Sw.u32From_at s 28 reserved _ (by rw [hb]; rfl), hl]
  rw [Sw.goLoop_stop _ _ _ _ _ (by simp)]
  simp only [Res.bind_ok, hs1, hs2, hb]
  rfl

example : parse 0 (Slice.exact (hdr 6 32 5 ++ be64 0x0000aabbccddeeff ++ be32 256 ++ [254, 1] ++ [0, 0] ++ be32 0x4f ++ be32 0))
    = .ok (.obj "SwitchFeatures" [hdrV 6 32 5, .bytes [0, 0, 0xaa, 0xbb, 0xcc, 0xdd, 0xee, 0xff], .num 256, .num 254,
        .num 1, .bytes [0, 0], .num 79, .num 0, .list []]) :=
  featuresReply 5 0x0000aabbccddeeff 256 254 1 0x4f 0 0 _ (Slice.exact_wf _) rfl

/-! ### error, experimenter error -/

/-- error message (type 1) of any error type but experimenter: header, type(2), code(2), data.  Every data byte is kept -/
theorem error (xid : UInt32) (errType code : UInt16) (data : Bytes) (hty : errType ≠ 0xffff)
    (hlen : 12 + data.length < 65536) (depth : Nat) (s : Slice) (hwf : s.WF)
    (hb : s.bytes = hdr 1 (UInt16.ofNat (12 + data.length)) xid ++ be16 errType ++ be16 code ++ data) :
    parse depth s = .ok (.obj "ErrorMsg" [hdrV 1 (12 + data.length) xid, .num errType.toNat, .num code.toNat,
      .obj "u.Buffer" [.bytes data]]) := by
  obtain ⟨k, hk⟩ := Sw.parse_step depth s
  have hl : s.len = 12 + data.length := by rw [← Sw.bytes_length s hwf, hb]; simp [hdr]; omega
  obtain ⟨s1, h1, _, _, hs1⟩ := Sw.fromR_at s hwf 12 (by omega)
  have hne : errType.toNat ≠ 65535 := fun h => hty (UInt16.toNat_inj.mp h)
  rw [hk, Sw.step_error _ s (Sw.byteAt_at s 1 1 _ (by rw [hb]; rfl))]
  unfold ErrorMsg.unmarshal ErrorMsg.zero msgTryU UBuffer.unmarshal UBuffer.mk
  simp only [Sw.header_at _ s hwf 4 1 _ xid _ (by rw [hb]; rfl), Res.bind_ok,
    Sw.u16From_at s 8 errType _ (by rw [hb]; rfl),
    Sw.u16From_at s 10 code _ (by rw [hb]; rfl), h1, Sw.ofNat16_toNat _ hlen, hs1, hb, Res.pure_eq,
    ErrorMsg.errType, V.u16, if_neg hne]
  rfl

example : parse 0 (Slice.exact (hdr 1 16 9 ++ be16 1 ++ be16 6 ++ [4, 14, 0, 8]))
    = .ok (.obj "ErrorMsg" [hdrV 1 16 9, .num 1, .num 6, .obj "u.Buffer" [.bytes [4, 14, 0, 8]]]) :=
  error 9 1 6 [4, 14, 0, 8] (by decide) (by decide) 0 _ (Slice.exact_wf _) rfl

/-- experimenter error (error type 0xffff): header, 0xffff, exp_type(2), experimenter(4), data.  Parse notices the type
    and decodes again as a VendorError: exp_type lands in `Code`, the experimenter id in `ExperimenterID` -/
theorem experimenterError (xid : UInt32) (expType : UInt16) (experimenter : UInt32) (data : Bytes)
    (hlen : 16 + data.length < 65536) (depth : Nat) (s : Slice) (hwf : s.WF)
    (hb : s.bytes = hdr 1 (UInt16.ofNat (16 + data.length)) xid ++ be16 0xffff ++ be16 expType ++ be32 experimenter
      ++ data) :
    parse depth s = .ok (.obj "VendorError" [.obj "ErrorMsg" [hdrV 1 (16 + data.length) xid, .num 65535,
      .num expType.toNat, .obj "u.Buffer" [.bytes data]], .num experimenter.toNat]) := by
  obtain ⟨k, hk⟩ := Sw.parse_step depth s
  have hl : s.len = 16 + data.length := by rw [← Sw.bytes_length s hwf, hb]; simp [hdr]; omega
  obtain ⟨s1, h1, _, _, hs1⟩ := Sw.fromR_at s hwf 12 (by omega)
  obtain ⟨s2, h2, _, _, hs2⟩ := Sw.fromR_at s hwf 16 (by omega)
  rw [hk, Sw.step_error _ s (Sw.byteAt_at s 1 1 _ (by rw [hb]; rfl))]
  unfold ErrorMsg.unmarshal ErrorMsg.zero VendorError.unmarshal VendorError.zero msgTryU UBuffer.unmarshal UBuffer.mk
  simp only [Sw.header_at _ s hwf 4 1 _ xid _ (by rw [hb]; rfl), Res.bind_ok,
    Sw.u16From_at s 8 0xffff _ (by rw [hb]; rfl),
    Sw.u16From_at s 10 expType _ (by rw [hb]; rfl),
    Sw.u32From_at s 12 experimenter _ (by rw [hb]; rfl), h1, h2, Sw.ofNat16_toNat _ hlen, hs2, hb, Res.pure_eq,
    ErrorMsg.errType, V.u16]
  rfl

example : parse 0 (Slice.exact (hdr 1 18 9 ++ be16 0xffff ++ be16 2302 ++ be32 0x4f4e4600 ++ [1, 2]))
    = .ok (.obj "VendorError" [.obj "ErrorMsg" [hdrV 1 18 9, .num 65535, .num 2302, .obj "u.Buffer" [.bytes [1, 2]]],
        .num 0x4f4e4600]) :=
  experimenterError 9 2302 0x4f4e4600 [1, 2] (by decide) 0 _ (Slice.exact_wf _) rfl

/-! ### hello -/

/-- hello (type 0) with one version-bitmap element (element type 1, length 8, one 32-bit bitmap) -/
theorem hello (xid : UInt32) (bitmap : UInt32) (depth : Nat) (s : Slice) (hwf : s.WF)
    (hb : s.bytes = hdr 0 16 xid ++ be16 1 ++ be16 8 ++ be32 bitmap) :
    parse depth s = .ok (.obj "Hello" [hdrV 0 16 xid, .list [.obj "HelloElemVersionBitmap"
      [.obj "HelloElemHeader" [.num 1, .num 8], .list [.num bitmap.toNat]]]]) := by
  simp only [hdr, List.append_assoc] at hb
  obtain ⟨k, hk⟩ := Sw.parse_step depth s
  have hl : s.len = 16 := by rw [← Sw.bytes_length s hwf, hb]; rfl
  obtain ⟨d0, h0, hd0wf, _, hd0⟩ := Sw.fromR_at s hwf 0 (by omega)
  obtain ⟨d, h1, hdwf, hdl, hd⟩ := Sw.fromR_at s hwf 8 (by omega)
  rw [hb] at hd
  have hdl8 : d.len = 8 := by omega
  obtain ⟨d4, h2, hd4wf, _, hd4⟩ := Sw.uptoR_at d hdwf 4 (by omega)
  rw [hd] at hd4
  have helem : HelloElemVersionBitmap.unmarshal HelloElemVersionBitmap.new d = .ok (.obj "HelloElemVersionBitmap"
      [.obj "HelloElemHeader" [.num 1, .num 8], .list [.num bitmap.toNat]]) := by
    unfold HelloElemVersionBitmap.unmarshal HelloElemVersionBitmap.new
    simp only [h2, Res.bind_ok, Sw.helloElemHeader_at _ d4 hd4wf 1 8 [] (by rw [hd4]; rfl), hdl8]
    rw [if_neg (by decide)]
    rw [Sw.goLoop_step _ _ _ _ _ ⟨8, [.num bitmap.toNat]⟩ (by rfl)
        (by simp only [Sw.u32In_at d hdwf 4 8 bitmap [] (by omega) (by omega) (by rw [hd]; rfl), Res.bind_ok]; rfl)
        (by show 4 < 8; omega),
      Sw.goLoop_stop _ _ _ _ _ (by rfl)]
    rfl
  rw [hk, Sw.step_hello _ s (Sw.byteAt_at s 1 0 _ (by rw [hb]; rfl))]
  unfold Hello.unmarshal
  simp only [h0, Res.bind_ok, Sw.header_at _ d0 hd0wf 4 0 16 xid _ (by rw [hd0, hb]; rfl), hl]
  rw [Sw.goLoop_step _ _ _ _ _ ⟨16, [.obj "HelloElemVersionBitmap"
        [.obj "HelloElemHeader" [.num 1, .num 8], .list [.num bitmap.toNat]]], false⟩ (by rfl)
      (by simp only [h1, Res.bind_ok, Sw.helloElemHeader_at _ d hdwf 1 8 _ (by rw [hd]; rfl), helem]; rfl)
      (by show 8 < 16; omega),
    Sw.goLoop_stop _ _ _ _ _ (by rfl)]
  rfl

example : parse 0 (Slice.exact (hdr 0 16 1 ++ be16 1 ++ be16 8 ++ be32 0x12))
    = .ok (.obj "Hello" [hdrV 0 16 1, .list [.obj "HelloElemVersionBitmap" [.obj "HelloElemHeader" [.num 1, .num 8],
        .list [.num 18]]]]) :=
  hello 1 0x12 0 _ (Slice.exact_wf _) rfl

/-! ### port-status -/

/-- `ofp_port`, 64 bytes: port_no(4), pad(4), hw_addr(6), pad(2), name(16), config, state, curr, advertised, supported,
    peer, curr_speed, max_speed (4 each) -/
def portBytes (portNo : UInt32) (hwAddr name : Bytes) (config state curr advertised supported peer currSpeed
    maxSpeed : UInt32) : Bytes :=
  be32 portNo ++ zeros 4 ++ hwAddr ++ zeros 2 ++ name ++ be32 config ++ be32 state ++ be32 curr ++ be32 advertised
    ++ be32 supported ++ be32 peer ++ be32 currSpeed ++ be32 maxSpeed

/-- port-status (type 12): header, reason(1), pad(7), ofp_port(64).  (The two pad fields inside PhyPort are nil slices
    in `NewPhyPort()` and stay empty.) -/
theorem portStatus (xid : UInt32) (reason : UInt8) (portNo : UInt32) (hwAddr name : Bytes)
    (config state curr advertised supported peer currSpeed maxSpeed : UInt32)
    (hhw : hwAddr.length = 6) (hname : name.length = 16) (depth : Nat) (s : Slice) (hwf : s.WF)
    (hb : s.bytes = hdr 12 80 xid ++ [reason] ++ zeros 7
      ++ portBytes portNo hwAddr name config state curr advertised supported peer currSpeed maxSpeed) :
    parse depth s = .ok (.obj "PortStatus" [hdrV 12 80 xid, .num reason.toNat, .bytes (zeros 7),
      .obj "PhyPort" [.num portNo.toNat, .bytes [], .bytes hwAddr, .bytes [], .bytes name, .num config.toNat,
        .num state.toNat, .num curr.toNat, .num advertised.toNat, .num supported.toNat, .num peer.toNat,
        .num currSpeed.toNat, .num maxSpeed.toNat]]) := by
  obtain ⟨a0, a1, a2, a3, a4, a5, rfl⟩ := Sw.len6 hwAddr hhw
  obtain ⟨n0, n1, n2, n3, n4, n5, n6, n7, n8, n9, n10, n11, n12, n13, n14, n15, rfl⟩ := Sw.len16 name hname
  simp only [hdr, portBytes, List.append_assoc] at hb
  obtain ⟨k, hk⟩ := Sw.parse_step depth s
  have hl : s.len = 80 := by rw [← Sw.bytes_length s hwf, hb]; rfl
  obtain ⟨p, h1, _, _, hp⟩ := Sw.fromR_at s hwf 9 (by omega)
  obtain ⟨d, h2, hdwf, hdl, hd⟩ := Sw.fromR_at s hwf 16 (by omega)
  rw [hb] at hd hp
  obtain ⟨s1, e1, _, _, hs1⟩ := Sw.sliceR_at d hdwf 4 8 (by omega) (by omega)
  obtain ⟨s2, e2, _, _, hs2⟩ := Sw.sliceR_at d hdwf 8 14 (by omega) (by omega)
  obtain ⟨s3, e3, _, _, hs3⟩ := Sw.sliceR_at d hdwf 14 16 (by omega) (by omega)
  obtain ⟨s4, e4, _, _, hs4⟩ := Sw.sliceR_at d hdwf 16 32 (by omega) (by omega)
  rw [hk, Sw.step_portStatus _ s (Sw.byteAt_at s 1 12 _ (by rw [hb]; rfl))]
  unfold PortStatus.unmarshal PortStatus.new PhyPort.unmarshal PhyPort.new msgTryU
  simp only [Sw.header_at _ s hwf 4 12 80 xid _ hb, Res.bind_ok,
    Sw.byteAt_at s 8 reason _ (by rw [hb]; rfl), h1, h2, e1, e2, e3, e4,
    Sw.u32From_at d 0 portNo _ (by rw [hd]; rfl),
    Sw.u32From_at d 32 config _ (by rw [hd]; rfl),
    Sw.u32From_at d 36 state _ (by rw [hd]; rfl),
    Sw.u32From_at d 40 curr _ (by rw [hd]; rfl),
    Sw.u32From_at d 44 advertised _ (by rw [hd]; rfl),
    Sw.u32From_at d 48 supported _ (by rw [hd]; rfl),
    Sw.u32From_at d 52 peer _ (by rw [hd]; rfl),
    Sw.u32From_at d 56 currSpeed _ (by rw [hd]; rfl),
    Sw.u32From_at d 60 maxSpeed _ (by rw [hd]; rfl), hp, hs1, hs2, hs3, hs4, hd]
  rfl

example : parse 0 (Slice.exact (hdr 12 80 3 ++ [2] ++ zeros 7 ++ portBytes 0xfffffffe [2, 0, 0, 0, 0, 9]
      [101, 116, 104, 48, 0, 0, 0, 0, 0, 0, 0, 0, 0, 0, 0, 0] 1 4 0x840 0 0 0 10000000 40000000))
    = .ok (.obj "PortStatus" [hdrV 12 80 3, .num 2, .bytes (zeros 7), .obj "PhyPort" [.num 0xfffffffe, .bytes [],
        .bytes [2, 0, 0, 0, 0, 9], .bytes [], .bytes [101, 116, 104, 48, 0, 0, 0, 0, 0, 0, 0, 0, 0, 0, 0, 0], .num 1,
        .num 4, .num 0x840, .num 0, .num 0, .num 0, .num 10000000, .num 40000000]]) :=
  portStatus 3 2 0xfffffffe [2, 0, 0, 0, 0, 9] [101, 116, 104, 48, 0, 0, 0, 0, 0, 0, 0, 0, 0, 0, 0, 0] 1 4 0x840 0 0 0
    10000000 40000000 rfl rfl 0 _ (Slice.exact_wf _) rfl

/-! ### flow-removed -/

/-- `ofp_match` without fields: type 1 (OXM), length 4, padded to 8 bytes -/
def matchEmpty : Bytes := be16 1 ++ be16 4 ++ zeros 4

/-- `ofp_match` with one in_port field: type 1, length 12, OXM header (class 0x8000, field 0, no mask, length 4),
    the port, padded to 16 bytes -/
def matchInPort (port : UInt32) : Bytes := be16 1 ++ be16 12 ++ (be16 0x8000 ++ [0, 4] ++ be32 port) ++ zeros 4

/-- the fixed 40 bytes of flow-removed after the header: cookie(8), priority(2), reason(1), table_id(1),
    duration_sec(4), duration_nsec(4), idle_timeout(2), hard_timeout(2), packet_count(8), byte_count(8) -/
def flowRemovedFixed (cookie : UInt64) (priority : UInt16) (reason tableId : UInt8) (durationSec durationNsec : UInt32)
    (idleTimeout hardTimeout : UInt16) (packetCount byteCount : UInt64) : Bytes :=
  be64 cookie ++ be16 priority ++ [reason, tableId] ++ be32 durationSec ++ be32 durationNsec ++ be16 idleTimeout
    ++ be16 hardTimeout ++ be64 packetCount ++ be64 byteCount

/-- the decoded flow-removed message -/
def flowRemovedV (h : V) (cookie : UInt64) (priority : UInt16) (reason tableId : UInt8) (durationSec durationNsec : UInt32)
    (idleTimeout hardTimeout : UInt16) (packetCount byteCount : UInt64) (m : V) : V :=
  .obj "FlowRemoved" [h, .num cookie.toNat, .num priority.toNat, .num reason.toNat, .num tableId.toNat,
    .num durationSec.toNat, .num durationNsec.toNat, .num idleTimeout.toNat, .num hardTimeout.toNat,
    .num packetCount.toNat, .num byteCount.toNat, m]

/-- flow-removed (type 11) for ANY match that the match decoder reads back correctly: `mb` are the bytes of the padded
    `ofp_match`, `mv` its value.  The eleven fixed fields are read from their own places and the match follows -/
theorem flowRemoved_gen (xid : UInt32) (len : UInt16) (cookie : UInt64) (priority : UInt16) (reason tableId : UInt8)
    (durationSec durationNsec : UInt32) (idleTimeout hardTimeout : UInt16) (packetCount byteCount : UInt64)
    (mb : Bytes) (mv : V) (ml : UInt16)
    (hm : ∀ dm : Slice, dm.WF → dm.bytes = mb → Match.unmarshalP Match.new dm = .ok (mv, false))
    (hml : Match.lenM mv = .ok (ml, mv))
    (depth : Nat) (s : Slice) (hwf : s.WF)
    (hb : s.bytes = hdr 11 len xid ++ (flowRemovedFixed cookie priority reason tableId durationSec durationNsec
      idleTimeout hardTimeout packetCount byteCount ++ mb)) :
    parse depth s = .ok (flowRemovedV (hdrV 11 len.toNat xid) cookie priority reason tableId durationSec durationNsec
      idleTimeout hardTimeout packetCount byteCount mv) := by
  simp only [hdr, flowRemovedFixed, List.append_assoc] at hb
  obtain ⟨k, hk⟩ := Sw.parse_step depth s
  have hl : 48 + mb.length = s.len := by rw [← Sw.bytes_length s hwf, hb]; simp; omega
  obtain ⟨d0, h0, hd0wf, _, hd0⟩ := Sw.fromR_at s hwf 0 (by omega)
  obtain ⟨dm, h1, hdmwf, _, hdm⟩ := Sw.fromR_at s hwf 48 (by omega)
  rw [hb] at hdm
  rw [hk, Sw.step_flowRemoved _ s (Sw.byteAt_at s 1 11 _ (by rw [hb]; rfl))]
  unfold FlowRemoved.unmarshal flowRemovedRecv InstrAux.catchErr InstrAux.matchUnmarshalP
  simp only [h0, Res.bind_ok, Sw.header_at _ d0 hd0wf 4 11 len xid _ (by rw [hd0, hb]; rfl),
    Sw.u64From_at s 8 cookie _ (by rw [hb]; rfl),
    Sw.u16From_at s 16 priority _ (by rw [hb]; rfl),
    Sw.byteAt_at s 18 reason _ (by rw [hb]; rfl),
    Sw.byteAt_at s 19 tableId _ (by rw [hb]; rfl),
    Sw.u32From_at s 20 durationSec _ (by rw [hb]; rfl),
    Sw.u32From_at s 24 durationNsec _ (by rw [hb]; rfl),
    Sw.u16From_at s 28 idleTimeout _ (by rw [hb]; rfl),
    Sw.u16From_at s 30 hardTimeout _ (by rw [hb]; rfl),
    Sw.u64From_at s 32 packetCount _ (by rw [hb]; rfl),
    Sw.u64From_at s 40 byteCount _ (by rw [hb]; rfl), h1, hm dm hdmwf (by rw [hdm]; rfl), hml]
  rfl

/-- flow-removed with the empty match -/
theorem flowRemoved (xid : UInt32) (cookie : UInt64) (priority : UInt16) (reason tableId : UInt8)
    (durationSec durationNsec : UInt32) (idleTimeout hardTimeout : UInt16) (packetCount byteCount : UInt64)
    (depth : Nat) (s : Slice) (hwf : s.WF)
    (hb : s.bytes = hdr 11 56 xid ++ flowRemovedFixed cookie priority reason tableId durationSec durationNsec
      idleTimeout hardTimeout packetCount byteCount ++ matchEmpty) :
    parse depth s = .ok (flowRemovedV (hdrV 11 56 xid) cookie priority reason tableId durationSec durationNsec
      idleTimeout hardTimeout packetCount byteCount (.obj "Match" [.num 1, .num 4, .list []])) :=
  flowRemoved_gen xid 56 cookie priority reason tableId durationSec durationNsec idleTimeout hardTimeout packetCount
    byteCount matchEmpty _ 8 (fun dm _ h => Sw.match_empty _ _ dm (zeros 4) (by rw [h]; rfl)) Sw.matchEmpty_len
    depth s hwf (by rw [hb, List.append_assoc])

example : parse 0 (Slice.exact (hdr 11 56 3 ++ flowRemovedFixed 0xc00c1e 100 1 7 60 999 30 0 12 3400 ++ matchEmpty))
    = .ok (flowRemovedV (hdrV 11 56 3) 0xc00c1e 100 1 7 60 999 30 0 12 3400 (.obj "Match" [.num 1, .num 4, .list []])) :=
  flowRemoved 3 0xc00c1e 100 1 7 60 999 30 0 12 3400 0 _ (Slice.exact_wf _) rfl

/-- flow-removed with a match on in_port -/
theorem flowRemoved_inPort (xid : UInt32) (cookie : UInt64) (priority : UInt16) (reason tableId : UInt8)
    (durationSec durationNsec : UInt32) (idleTimeout hardTimeout : UInt16) (packetCount byteCount : UInt64)
    (inPort : UInt32) (depth : Nat) (s : Slice) (hwf : s.WF)
    (hb : s.bytes = hdr 11 64 xid ++ flowRemovedFixed cookie priority reason tableId durationSec durationNsec
      idleTimeout hardTimeout packetCount byteCount ++ matchInPort inPort) :
    parse depth s = .ok (flowRemovedV (hdrV 11 64 xid) cookie priority reason tableId durationSec durationNsec
      idleTimeout hardTimeout packetCount byteCount
      (.obj "Match" [.num 1, .num 12, .list [.obj "MatchField" [.num 0x8000, .num 0, .num 0, .num 4, .num 0,
        .obj "InPortField" [.num inPort.toNat], .nil]]])) :=
  flowRemoved_gen xid 64 cookie priority reason tableId durationSec durationNsec idleTimeout hardTimeout packetCount
    byteCount (matchInPort inPort) _ 16
    (fun dm hdwf h => Sw.match_inPort _ _ dm hdwf inPort (zeros 4) (by rw [h]; rfl)) (Sw.matchInPort_len inPort)
    depth s hwf (by rw [hb, List.append_assoc])

example : ∃ v, parse 0 (Slice.exact (hdr 11 64 3 ++ flowRemovedFixed 0xc00c1e 100 1 7 60 999 30 0 12 3400
      ++ matchInPort 0x01020304)) = .ok v :=
  ⟨_, flowRemoved_inPort 3 0xc00c1e 100 1 7 60 999 30 0 12 3400 0x01020304 0 _ (Slice.exact_wf _) rfl⟩

/-! ### packet-in -/

/-- the fixed 16 bytes of packet-in after the header: buffer_id(4), total_len(2), reason(1), table_id(1), cookie(8) -/
def packetInFixed (bufferId : UInt32) (totalLen : UInt16) (reason tableId : UInt8) (cookie : UInt64) : Bytes :=
  be32 bufferId ++ be16 totalLen ++ [reason, tableId] ++ be64 cookie

/-- an untagged Ethernet frame: destination(6), source(6), ethertype(2), payload -/
def ethBytes (dst src : Bytes) (etherType : UInt16) (payload : Bytes) : Bytes := dst ++ src ++ be16 etherType ++ payload

/-- ethertypes the library does not decode further (not a VLAN tag, IPv4, IPv6, ARP): the payload stays a byte buffer -/
def OpaqueEtherType (et : UInt16) : Prop :=
  et.toNat ≠ 0x8100 ∧ et.toNat ≠ 0x0800 ∧ et.toNat ≠ 0x86dd ∧ et.toNat ≠ 0x0806

instance (et : UInt16) : Decidable (OpaqueEtherType et) := by unfold OpaqueEtherType; infer_instance

/-- the decoded Ethernet frame (`p.Ethernet(Delimiter,HWDst,HWSrc,VLANID,Ethertype,Data)`), payload in a `u.Buffer` -/
def ethV (dst src : Bytes) (etherType : UInt16) (payload : Bytes) : V :=
  .obj "p.Ethernet" [.num 0, .bytes dst, .bytes src, .obj "p.VLAN" [.num 0, .num 0, .num 0, .num 0],
    .num etherType.toNat, .obj "u.Buffer" [.bytes payload]]

/-- the decoded packet-in (`PacketIn(Header,BufferId,TotalLen,Reason,TableId,Cookie,Match,pad,Data)`; pad is a nil slice
    in `new(PacketIn)` and stays empty) -/
def packetInV (h : V) (bufferId : UInt32) (totalLen : UInt16) (reason tableId : UInt8) (cookie : UInt64) (m eth : V) : V :=
  .obj "PacketIn" [h, .num bufferId.toNat, .num totalLen.toNat, .num reason.toNat, .num tableId.toNat,
    .num cookie.toNat, m, .bytes [], eth]

/-- packet-in (type 10) for ANY match and ANY Ethernet frame that their decoders read back correctly (`mb` bytes of the
    padded `ofp_match`, `mv` its value, `ml` its `Len()`; `eb` bytes of the frame, `ev` its value):
    header, buffer_id, total_len, reason, table_id, cookie, match, pad(2), frame — every fixed field is read from its
    own place, the match starts at byte 24 and the frame right after the two pad bytes -/
theorem packetIn_gen (xid : UInt32) (len : UInt16) (bufferId : UInt32) (totalLen : UInt16) (reason tableId : UInt8)
    (cookie : UInt64) (mb : Bytes) (mv : V) (ml : UInt16)
    (hm : ∀ dm : Slice, dm.WF → ∀ rest, dm.bytes = mb ++ rest → Match.unmarshalP msgMatchZero dm = .ok (mv, false))
    (hml : Match.lenM mv = .ok (ml, mv)) (hmlen : ml.toNat = mb.length) (hmb : mb.length < 60000)
    (eb : Bytes) (ev : V)
    (he : ∀ de : Slice, de.WF → de.bytes = eb → PEthernet.unmarshal PEthernet.zero de = .ok ev)
    (depth : Nat) (s : Slice) (hwf : s.WF)
    (hb : s.bytes = hdr 10 len xid ++ (packetInFixed bufferId totalLen reason tableId cookie ++ (mb ++ (zeros 2 ++ eb)))) :
    parse depth s = .ok (packetInV (hdrV 10 len.toNat xid) bufferId totalLen reason tableId cookie mv ev) := by
  simp only [hdr, packetInFixed, List.append_assoc] at hb
  obtain ⟨k, hk⟩ := Sw.parse_step depth s
  have hl : 26 + mb.length + eb.length = s.len := by
    rw [← Sw.bytes_length s hwf, hb]; simp; omega
  obtain ⟨dm, h1, hdmwf, _, hdm⟩ := Sw.fromR_at s hwf 24 (by omega)
  rw [hb] at hdm
  have hn1 : ((24 : UInt16) + ml).toNat = 24 + mb.length := by
    rw [UInt16.toNat_add, hmlen]; show (24 + mb.length) % 65536 = _; omega
  have hn2 : ((24 : UInt16) + ml + 2).toNat = 26 + mb.length := by
    rw [UInt16.toNat_add, hn1]; show (24 + mb.length + 2) % 65536 = _; omega
  obtain ⟨sp, h2, _, _, hsp⟩ := Sw.fromR_at s hwf (24 + mb.length) (by omega)
  obtain ⟨de, h3, hdewf, _, hde⟩ := Sw.fromR_at s hwf (26 + mb.length) (by omega)
  have hde' : de.bytes = eb := by
    rw [hde, hb]
    have : [4, 10] ++ (be16 len ++ (be32 xid ++ (be32 bufferId ++ (be16 totalLen ++ ([reason, tableId] ++ (be64 cookie
        ++ (mb ++ (zeros 2 ++ eb))))))))
        = ([4, 10] ++ be16 len ++ be32 xid ++ be32 bufferId ++ be16 totalLen ++ [reason, tableId] ++ be64 cookie
        ++ mb ++ zeros 2) ++ eb := by
      simp only [List.append_assoc]
    rw [this]
    exact Sw.drop_pre _ _ _ (by simp; omega)
  rw [hk, Sw.step_packetIn _ s (Sw.byteAt_at s 1 10 _ (by rw [hb]; rfl))]
  unfold PacketIn.unmarshal PacketIn.zero msgTryU Match.unmarshal
  simp only [Res.bind_ok, Sw.header_at _ s hwf 4 10 len xid _ hb,
    Sw.u32From_at s 8 bufferId _ (by rw [hb]; rfl),
    Sw.u16From_at s 12 totalLen _ (by rw [hb]; rfl),
    Sw.byteAt_at s 14 reason _ (by rw [hb]; rfl),
    Sw.byteAt_at s 15 tableId _ (by rw [hb]; rfl),
    Sw.u64From_at s 16 cookie _ (by rw [hb]; rfl), h1, hm dm hdmwf _ (by rw [hdm]; rfl), hml, hn1, hn2, h2, h3,
    he de hdewf hde', Sw.copyInto_nil]
  rfl

/-- packet-in with the empty match and an Ethernet frame of opaque ethertype: both addresses, the ethertype and every
    payload byte are exposed -/
theorem packetIn (xid : UInt32) (bufferId : UInt32) (totalLen : UInt16) (reason tableId : UInt8) (cookie : UInt64)
    (dst src : Bytes) (etherType : UInt16) (payload : Bytes) (hdst : dst.length = 6) (hsrc : src.length = 6)
    (het : OpaqueEtherType etherType) (hlen : 48 + payload.length < 65536) (depth : Nat) (s : Slice) (hwf : s.WF)
    (hb : s.bytes = hdr 10 (UInt16.ofNat (48 + payload.length)) xid ++ packetInFixed bufferId totalLen reason tableId cookie
      ++ matchEmpty ++ zeros 2 ++ ethBytes dst src etherType payload) :
    parse depth s = .ok (packetInV (hdrV 10 (48 + payload.length) xid) bufferId totalLen reason tableId cookie
      (.obj "Match" [.num 1, .num 4, .list []]) (ethV dst src etherType payload)) := by
  have := packetIn_gen xid (UInt16.ofNat (48 + payload.length)) bufferId totalLen reason tableId cookie matchEmpty
    Sw.matchEmptyV 8
    (fun dm _ rest h => Sw.match_empty _ _ dm (zeros 4 ++ rest) (by rw [h]; simp only [matchEmpty, List.append_assoc]))
    Sw.matchEmpty_len rfl (by decide) (ethBytes dst src etherType payload) (ethV dst src etherType payload)
    (fun de hdewf h => Sw.ethernet_opaque de hdewf dst src etherType payload hdst hsrc het
      (by rw [h]; simp only [ethBytes, List.append_assoc]))
    depth s hwf (by rw [hb]; simp only [List.append_assoc])
  rw [Sw.ofNat16_toNat _ hlen] at this
  exact this

example : parse 0 (Slice.exact (hdr 10 56 3 ++ packetInFixed 0xffffffff 22 1 5 0xabcdef ++ matchEmpty ++ zeros 2
      ++ ethBytes [1, 2, 3, 4, 5, 6] [7, 8, 9, 10, 11, 12] 0x88cc [1, 2, 3, 4, 5, 6, 7, 8]))
    = .ok (packetInV (hdrV 10 56 3) 0xffffffff 22 1 5 0xabcdef (.obj "Match" [.num 1, .num 4, .list []])
        (ethV [1, 2, 3, 4, 5, 6] [7, 8, 9, 10, 11, 12] 0x88cc [1, 2, 3, 4, 5, 6, 7, 8])) :=
  packetIn 3 0xffffffff 22 1 5 0xabcdef [1, 2, 3, 4, 5, 6] [7, 8, 9, 10, 11, 12] 0x88cc [1, 2, 3, 4, 5, 6, 7, 8] rfl rfl
    (by decide) (by decide) 0 _ (Slice.exact_wf _) rfl

/-- packet-in with a match on in_port (what Open vSwitch sends) -/
theorem packetIn_inPort (xid : UInt32) (bufferId : UInt32) (totalLen : UInt16) (reason tableId : UInt8) (cookie : UInt64)
    (inPort : UInt32) (dst src : Bytes) (etherType : UInt16) (payload : Bytes) (hdst : dst.length = 6)
    (hsrc : src.length = 6) (het : OpaqueEtherType etherType) (hlen : 56 + payload.length < 65536) (depth : Nat)
    (s : Slice) (hwf : s.WF)
    (hb : s.bytes = hdr 10 (UInt16.ofNat (56 + payload.length)) xid ++ packetInFixed bufferId totalLen reason tableId cookie
      ++ matchInPort inPort ++ zeros 2 ++ ethBytes dst src etherType payload) :
    parse depth s = .ok (packetInV (hdrV 10 (56 + payload.length) xid) bufferId totalLen reason tableId cookie
      (.obj "Match" [.num 1, .num 12, .list [.obj "MatchField" [.num 0x8000, .num 0, .num 0, .num 4, .num 0,
        .obj "InPortField" [.num inPort.toNat], .nil]]]) (ethV dst src etherType payload)) := by
  have := packetIn_gen xid (UInt16.ofNat (56 + payload.length)) bufferId totalLen reason tableId cookie
    (matchInPort inPort) (Sw.matchInPortV inPort) 16
    (fun dm hdmwf rest h => Sw.match_inPort _ _ dm hdmwf inPort (zeros 4 ++ rest)
      (by rw [h]; simp only [matchInPort, List.append_assoc]))
    (Sw.matchInPort_len inPort) rfl (by show 16 < 60000; omega) (ethBytes dst src etherType payload)
    (ethV dst src etherType payload)
    (fun de hdewf h => Sw.ethernet_opaque de hdewf dst src etherType payload hdst hsrc het
      (by rw [h]; simp only [ethBytes, List.append_assoc]))
    depth s hwf (by rw [hb]; simp only [List.append_assoc])
  rw [Sw.ofNat16_toNat _ hlen] at this
  exact this

example : ∃ v, parse 0 (Slice.exact (hdr 10 64 3 ++ packetInFixed 0xffffffff 22 0 5 0xabcdef ++ matchInPort 3 ++ zeros 2
      ++ ethBytes [1, 2, 3, 4, 5, 6] [7, 8, 9, 10, 11, 12] 0x88cc [1, 2, 3, 4, 5, 6, 7, 8])) = .ok v :=
  ⟨_, packetIn_inPort 3 0xffffffff 22 0 5 0xabcdef 3 [1, 2, 3, 4, 5, 6] [7, 8, 9, 10, 11, 12] 0x88cc [1, 2, 3, 4, 5, 6, 7, 8]
    rfl rfl (by decide) (by decide) 0 _ (Slice.exact_wf _) rfl⟩

/-- an Ethernet/IPv4 ARP packet (28 bytes): htype 1, ptype 0x0800, hlen 6, plen 4, operation, sender hardware address(6),
    sender protocol address(4), target hardware address(6), target protocol address(4) -/
def arpBytes (oper : UInt16) (sha spa tha tpa : Bytes) : Bytes :=
  be16 1 ++ be16 0x0800 ++ [6, 4] ++ be16 oper ++ sha ++ spa ++ tha ++ tpa

/-- packet-in with a match on in_port carrying an ARP packet: the frame is decoded down to the four ARP addresses -/
theorem packetIn_inPort_arp (xid : UInt32) (bufferId : UInt32) (totalLen : UInt16) (reason tableId : UInt8)
    (cookie : UInt64) (inPort : UInt32) (dst src : Bytes) (oper : UInt16) (sha spa tha tpa : Bytes)
    (hdst : dst.length = 6) (hsrc : src.length = 6) (hsha : sha.length = 6) (hspa : spa.length = 4)
    (htha : tha.length = 6) (htpa : tpa.length = 4) (depth : Nat) (s : Slice) (hwf : s.WF)
    (hb : s.bytes = hdr 10 84 xid ++ packetInFixed bufferId totalLen reason tableId cookie
      ++ matchInPort inPort ++ zeros 2 ++ (dst ++ src ++ be16 0x0806 ++ arpBytes oper sha spa tha tpa)) :
    parse depth s = .ok (packetInV (hdrV 10 84 xid) bufferId totalLen reason tableId cookie
      (.obj "Match" [.num 1, .num 12, .list [.obj "MatchField" [.num 0x8000, .num 0, .num 0, .num 4, .num 0,
        .obj "InPortField" [.num inPort.toNat], .nil]]])
      (.obj "p.Ethernet" [.num 0, .bytes dst, .bytes src, .obj "p.VLAN" [.num 0, .num 0, .num 0, .num 0], .num 0x0806,
        .obj "p.ARP" [.num 1, .num 0x0800, .num 6, .num 4, .num oper.toNat, .bytes sha, .bytes spa, .bytes tha,
          .bytes tpa]])) :=
  packetIn_gen xid 84 bufferId totalLen reason tableId cookie (matchInPort inPort) (Sw.matchInPortV inPort) 16
    (fun dm hdmwf rest h => Sw.match_inPort _ _ dm hdmwf inPort (zeros 4 ++ rest)
      (by rw [h]; simp only [matchInPort, List.append_assoc]))
    (Sw.matchInPort_len inPort) rfl (by show 16 < 60000; omega)
    (dst ++ src ++ be16 0x0806 ++ arpBytes oper sha spa tha tpa) _
    (fun de hdewf h => Sw.ethernet_arp de hdewf dst src oper sha spa tha tpa hdst hsrc hsha hspa htha htpa
      (by rw [h]; simp only [arpBytes, List.append_assoc]))
    depth s hwf (by rw [hb]; simp only [List.append_assoc])

example : ∃ v, parse 0 (Slice.exact (hdr 10 84 3 ++ packetInFixed 0xffffffff 42 0 0 0 ++ matchInPort 2 ++ zeros 2
      ++ ([0xff, 0xff, 0xff, 0xff, 0xff, 0xff] ++ [2, 0, 0, 0, 0, 1] ++ be16 0x0806
        ++ arpBytes 1 [2, 0, 0, 0, 0, 1] [10, 0, 0, 1] [0, 0, 0, 0, 0, 0] [10, 0, 0, 2]))) = .ok v :=
  ⟨_, packetIn_inPort_arp 3 0xffffffff 42 0 0 0 2 [0xff, 0xff, 0xff, 0xff, 0xff, 0xff] [2, 0, 0, 0, 0, 1] 1 [2, 0, 0, 0, 0, 1]
    [10, 0, 0, 1] [0, 0, 0, 0, 0, 0] [10, 0, 0, 2] rfl rfl rfl rfl rfl rfl 0 _ (Slice.exact_wf _) rfl⟩

/-! ### multipart replies: aggregate, description, flow statistics -/

/-- multipart reply (type 19) carrying aggregate statistics (multipart type 2): header, type(2), flags(2), pad(4),
    packet_count(8), byte_count(8), flow_count(4), pad(4) -/
theorem aggregateReply (xid : UInt32) (flags : UInt16) (packetCount byteCount : UInt64) (flowCount : UInt32)
    (depth : Nat) (s : Slice) (hwf : s.WF)
    (hb : s.bytes = hdr 19 40 xid ++ be16 2 ++ be16 flags ++ zeros 4
      ++ be64 packetCount ++ be64 byteCount ++ be32 flowCount ++ zeros 4) :
    parse depth s = .ok (.obj "MultipartReply" [hdrV 19 40 xid, .num 2, .num flags.toNat, .bytes [],
      .list [.obj "AggregateStats" [.num packetCount.toNat, .num byteCount.toNat, .num flowCount.toNat,
        .bytes (zeros 4)]]]) := by
  obtain ⟨k, hk⟩ := Sw.parse_step depth s
  have hl : s.len = 40 := by rw [← Sw.bytes_length s hwf, hb]; rfl
  obtain ⟨d, h1, hdwf, hdl, hd⟩ := Sw.fromR_at s hwf 16 (by omega)
  rw [hb] at hd
  obtain ⟨p, h2, _, _, hp⟩ := Sw.fromR_at d hdwf 20 (by omega)
  rw [hk, Sw.step_multipartReply _ s (Sw.byteAt_at s 1 19 _ (by rw [hb]; rfl))]
  unfold MultipartReply.unmarshalWith MultipartReply.zero msgTryU
  simp only [Sw.header_at _ s hwf 4 19 40 xid _ hb, Res.bind_ok,
    Sw.u16From_at s 8 2 _ (by rw [hb]; rfl),
    Sw.u16From_at s 10 flags _ (by rw [hb]; rfl)]
  have hrec : MultipartReply.decodeRecord (2 : UInt16).toNat d = .ok (.obj "AggregateStats" [.num packetCount.toNat,
      .num byteCount.toNat, .num flowCount.toNat, .bytes (zeros 4)], false) := by
    unfold MultipartReply.decodeRecord msgTryU AggregateStats.unmarshal AggregateStats.new
    simp only [Sw.u64From_at d 0 packetCount _ (by rw [hd]; rfl),
      Sw.u64From_at d 8 byteCount _ (by rw [hd]; rfl),
      Sw.u32From_at d 16 flowCount _ (by rw [hd]; rfl), h2, Res.bind_ok, hp, hd]
    rfl
  rw [Sw.msgLoopW_step _ _ _ _ _ ⟨40, [.obj "AggregateStats" [.num packetCount.toNat,
      .num byteCount.toNat, .num flowCount.toNat, .bytes (zeros 4)]], false⟩ rfl
      (by simp only [h1, Res.bind_ok, hrec]; rfl) (by show 16 < 40; omega),
    Sw.msgLoopW_stop _ _ _ _ _ rfl]
  rfl

example : parse 0 (Slice.exact (hdr 19 40 3 ++ be16 2 ++ be16 0 ++ zeros 4 ++ be64 1000 ++ be64 0x0102030405060708
      ++ be32 17 ++ zeros 4))
    = .ok (.obj "MultipartReply" [hdrV 19 40 3, .num 2, .num 0, .bytes [], .list [.obj "AggregateStats" [.num 1000,
        .num 0x0102030405060708, .num 17, .bytes [0, 0, 0, 0]]]]) :=
  aggregateReply 3 0 1000 0x0102030405060708 17 0 _ (Slice.exact_wf _) rfl

/-- multipart reply carrying the switch description (multipart type 0): mfr_desc, hw_desc, sw_desc (256 bytes each),
    serial_num (32), dp_desc (256).  Every byte of the five strings is kept, in its own field -/
theorem descReply (xid : UInt32) (flags : UInt16) (mfr hw sw serial dp : Bytes)
    (hmfr : mfr.length = 256) (hhw : hw.length = 256) (hsw : sw.length = 256) (hserial : serial.length = 32)
    (hdp : dp.length = 256) (depth : Nat) (s : Slice) (hwf : s.WF)
    (hb : s.bytes = hdr 19 1072 xid ++ be16 0 ++ be16 flags ++ zeros 4 ++ mfr ++ hw ++ sw ++ serial ++ dp) :
    parse depth s = .ok (.obj "MultipartReply" [hdrV 19 1072 xid, .num 0, .num flags.toNat, .bytes [],
      .list [.obj "DescStats" [.bytes mfr, .bytes hw, .bytes sw, .bytes serial, .bytes dp]]]) := by
  simp only [hdr, List.append_assoc] at hb
  obtain ⟨k, hk⟩ := Sw.parse_step depth s
  have hl : s.len = 1072 := by rw [← Sw.bytes_length s hwf, hb]; simp [hmfr, hhw, hsw, hserial, hdp]
  obtain ⟨d, h1, hdwf, hdl, hd⟩ := Sw.fromR_at s hwf 16 (by omega)
  rw [hb] at hd
  have hd' : d.bytes = mfr ++ (hw ++ (sw ++ (serial ++ dp))) := by rw [hd]; rfl
  obtain ⟨p0, e0, _, _, hp0⟩ := Sw.fromR_at d hdwf 0 (by omega)
  obtain ⟨p1, e1, _, _, hp1⟩ := Sw.fromR_at d hdwf 256 (by omega)
  obtain ⟨p2, e2, _, _, hp2⟩ := Sw.fromR_at d hdwf 512 (by omega)
  obtain ⟨p3, e3, _, _, hp3⟩ := Sw.fromR_at d hdwf 768 (by omega)
  obtain ⟨p4, e4, _, _, hp4⟩ := Sw.fromR_at d hdwf 800 (by omega)
  have c0 : copyInto (zeros 256) p0.bytes = mfr := by
    rw [hp0, hd']; exact Sw.copy_field 256 [] mfr _ 0 rfl hmfr
  have c1 : copyInto (zeros 256) p1.bytes = hw := by
    rw [hp1, hd']; exact Sw.copy_field 256 mfr hw _ 256 hmfr hhw
  have c2 : copyInto (zeros 256) p2.bytes = sw := by
    rw [hp2, hd']
    have := Sw.copy_field 256 (mfr ++ hw) sw (serial ++ dp) 512 (by simp [hmfr, hhw]) hsw
    simpa only [List.append_assoc] using this
  have c3 : copyInto (zeros 32) p3.bytes = serial := by
    rw [hp3, hd']
    have := Sw.copy_field 32 (mfr ++ (hw ++ sw)) serial dp 768 (by simp [hmfr, hhw, hsw]) hserial
    simpa only [List.append_assoc] using this
  have c4 : copyInto (zeros 256) p4.bytes = dp := by
    rw [hp4, hd']
    have := Sw.copy_field 256 (mfr ++ (hw ++ (sw ++ serial))) dp [] 800 (by simp [hmfr, hhw, hsw, hserial]) hdp
    simpa only [List.append_assoc, List.append_nil] using this
  have hrec : MultipartReply.decodeRecord (0 : UInt16).toNat d = .ok (.obj "DescStats" [.bytes mfr, .bytes hw,
      .bytes sw, .bytes serial, .bytes dp], false) := by
    show msgTryU DescStats.unmarshal DescStats.new d = _
    unfold msgTryU DescStats.unmarshal DescStats.new
    simp only [zeros_length, Gen.openflow13.DESC_STR_LEN, Gen.openflow13.SERIAL_NUM_LEN, Nat.reduceAdd,
      e0, e1, e2, e3, e4, Res.bind_ok, Res.pure_eq, c0, c1, c2, c3, c4]
  rw [hk, Sw.step_multipartReply _ s (Sw.byteAt_at s 1 19 _ (by rw [hb]; rfl))]
  unfold MultipartReply.unmarshalWith MultipartReply.zero msgTryU
  simp only [Sw.header_at _ s hwf 4 19 1072 xid _ hb, Res.bind_ok,
    Sw.u16From_at s 8 0 _ (by rw [hb]; rfl),
    Sw.u16From_at s 10 flags _ (by rw [hb]; rfl)]
  rw [Sw.msgLoopW_step _ _ _ _ _ ⟨1072, [.obj "DescStats" [.bytes mfr, .bytes hw, .bytes sw, .bytes serial,
      .bytes dp]], false⟩ rfl
      (by simp only [h1, Res.bind_ok, hrec]; rfl) (by show 16 < 1072; omega),
    Sw.msgLoopW_stop _ _ _ _ _ rfl]
  rfl

example : ∃ v, parse 0 (Slice.exact (hdr 19 1072 3 ++ be16 0 ++ be16 0 ++ zeros 4 ++ List.replicate 256 77
      ++ List.replicate 256 72 ++ List.replicate 256 83 ++ List.replicate 32 49 ++ List.replicate 256 68)) = .ok v :=
  ⟨_, descReply 3 0 (List.replicate 256 77) (List.replicate 256 72) (List.replicate 256 83) (List.replicate 32 49)
    (List.replicate 256 68) List.length_replicate List.length_replicate List.length_replicate List.length_replicate List.length_replicate
    0 _ (Slice.exact_wf _) (Sw.exact_bytes _)⟩

/-- the fixed 48 bytes of an `ofp_flow_stats` record: length(2), table_id(1), pad(1), duration_sec(4), duration_nsec(4),
    priority(2), idle_timeout(2), hard_timeout(2), flags(2), pad(4), cookie(8), packet_count(8), byte_count(8) -/
def flowStatsFixed (length : UInt16) (tableId : UInt8) (durationSec durationNsec : UInt32)
    (priority idleTimeout hardTimeout flags : UInt16) (cookie packetCount byteCount : UInt64) : Bytes :=
  be16 length ++ [tableId, 0] ++ be32 durationSec ++ be32 durationNsec ++ be16 priority ++ be16 idleTimeout
    ++ be16 hardTimeout ++ be16 flags ++ zeros 4 ++ be64 cookie ++ be64 packetCount ++ be64 byteCount

/-- the decoded flow-stats record -/
def flowStatsV (length : Nat) (tableId : UInt8) (durationSec durationNsec : UInt32)
    (priority idleTimeout hardTimeout flags : UInt16) (cookie packetCount byteCount : UInt64) (m : V) (is : List V) : V :=
  .obj "FlowStats" [.num length, .num tableId.toNat, .num 0, .num durationSec.toNat, .num durationNsec.toNat,
    .num priority.toNat, .num idleTimeout.toNat, .num hardTimeout.toNat, .num flags.toNat, .bytes (zeros 4),
    .num cookie.toNat, .num packetCount.toNat, .num byteCount.toNat, m, .list is]

/-- multipart reply carrying ONE flow-stats record (multipart type 1), for ANY match and ANY instruction list that their
    decoders read back correctly (`mb`/`mv` match bytes and value, `ib`/`iv` instruction bytes and values) -/
theorem flowStatsReply_gen (xid : UInt32) (mpFlags : UInt16) (tableId : UInt8) (durationSec durationNsec : UInt32)
    (priority idleTimeout hardTimeout flags : UInt16) (cookie packetCount byteCount : UInt64)
    (mb : Bytes) (mv : V) (ml : UInt16) (ib : Bytes) (iv : List V)
    (hm : ∀ dm : Slice, dm.WF → dm.bytes = mb ++ ib → Match.unmarshalP Match.new dm = .ok (mv, false))
    (hml : Match.lenM mv = .ok (ml, mv)) (hmlen : ml.toNat = mb.length)
    (hi : ∀ d : Slice, d.WF → d.len = 48 + mb.length + ib.length → d.bytes.drop (48 + mb.length) = ib →
      FlowStats.decodeInstrs d (48 + mb.length + ib.length) (48 + mb.length) [] = .ok iv)
    (hil : ∃ ls, mapM2 Instruction.lenM iv = .ok (ls, iv) ∧ (sum16 ls).toNat = ib.length)
    (hsize : 64 + mb.length + ib.length < 65536) (depth : Nat) (s : Slice) (hwf : s.WF)
    (hb : s.bytes = hdr 19 (UInt16.ofNat (64 + mb.length + ib.length)) xid ++ (be16 1 ++ (be16 mpFlags ++ (zeros 4
      ++ (flowStatsFixed (UInt16.ofNat (48 + mb.length + ib.length)) tableId durationSec durationNsec priority
        idleTimeout hardTimeout flags cookie packetCount byteCount ++ (mb ++ ib)))))) :
    parse depth s = .ok (.obj "MultipartReply" [hdrV 19 (64 + mb.length + ib.length) xid, .num 1, .num mpFlags.toNat,
      .bytes [], .list [flowStatsV (48 + mb.length + ib.length) tableId durationSec durationNsec priority
        idleTimeout hardTimeout flags cookie packetCount byteCount mv iv]]) := by
  simp only [hdr, flowStatsFixed, List.append_assoc] at hb
  obtain ⟨ls, hls, hsum⟩ := hil
  obtain ⟨k, hk⟩ := Sw.parse_step depth s
  have hl : s.len = 64 + mb.length + ib.length := by
    rw [← Sw.bytes_length s hwf, hb]; simp; omega
  obtain ⟨d, h1, hdwf, hdl, hd⟩ := Sw.fromR_at s hwf 16 (by omega)
  rw [hb] at hd
  have hd' : d.bytes = be16 (UInt16.ofNat (48 + mb.length + ib.length)) ++ ([tableId, 0] ++ (be32 durationSec ++
      (be32 durationNsec ++ (be16 priority ++ (be16 idleTimeout ++ (be16 hardTimeout ++ (be16 flags ++ (zeros 4 ++
      (be64 cookie ++ (be64 packetCount ++ (be64 byteCount ++ (mb ++ ib)))))))))))) := by rw [hd]; rfl
  obtain ⟨p, e1, _, _, hp⟩ := Sw.sliceR_at d hdwf 20 24 (by omega) (by omega)
  obtain ⟨dm, e2, hdmwf, _, hdm⟩ := Sw.fromR_at d hdwf 48 (by omega)
  have hdrop : d.bytes.drop (48 + mb.length) = ib := by
    have : d.bytes.drop (48 + mb.length) = (d.bytes.drop 48).drop mb.length := by rw [List.drop_drop]
    rw [this, hd']
    exact Sw.drop_pre mb ib _ rfl
  have hlen48 : (UInt16.ofNat (48 + mb.length + ib.length)).toNat = 48 + mb.length + ib.length :=
    Sw.ofNat16_toNat _ (by omega)
  have hrec : MultipartReply.decodeRecord (1 : UInt16).toNat d = .ok (flowStatsV (48 + mb.length + ib.length) tableId
      durationSec durationNsec priority idleTimeout hardTimeout flags cookie packetCount byteCount mv iv, false) := by
    show FlowStats.unmarshalP FlowStats.new d = _
    unfold FlowStats.unmarshalP FlowStats.new
    simp only [Sw.u16From_at d 0 _ _ hd',
      Sw.byteAt_at d 2 tableId _ (by rw [hd']; rfl),
      Sw.byteAt_at d 3 0 _ (by rw [hd']; rfl),
      Sw.u32From_at d 4 durationSec _ (by rw [hd']; rfl),
      Sw.u32From_at d 8 durationNsec _ (by rw [hd']; rfl),
      Sw.u16From_at d 12 priority _ (by rw [hd']; rfl),
      Sw.u16From_at d 14 idleTimeout _ (by rw [hd']; rfl),
      Sw.u16From_at d 16 hardTimeout _ (by rw [hd']; rfl),
      Sw.u16From_at d 18 flags _ (by rw [hd']; rfl), e1,
      Sw.u64From_at d 24 cookie _ (by rw [hd']; rfl),
      Sw.u64From_at d 32 packetCount _ (by rw [hd']; rfl),
      Sw.u64From_at d 40 byteCount _ (by rw [hd']; rfl), e2, Res.bind_ok,
      hm dm hdmwf (by rw [hdm, hd']; rfl), hml, hmlen, V.u16, hlen48, hi d hdwf (by omega) hdrop, hp, hd']
    rfl
  have hrlen : anyLenM (flowStatsV (48 + mb.length + ib.length) tableId durationSec durationNsec priority idleTimeout
      hardTimeout flags cookie packetCount byteCount mv iv) = .ok (48 + ml + sum16 ls, flowStatsV (48 + mb.length +
      ib.length) tableId durationSec durationNsec priority idleTimeout hardTimeout flags cookie packetCount byteCount
      mv iv) := by
    unfold flowStatsV
    rw [Sw.anyLenM_flowStats]
    unfold FlowStats.lenM
    simp only [hml, hls, Res.bind_ok]
    rfl
  have hltot : ((48 : UInt16) + ml + sum16 ls).toNat = 48 + mb.length + ib.length := by
    rw [UInt16.toNat_add, UInt16.toNat_add, hmlen, hsum]
    show ((48 + mb.length) % 65536 + ib.length) % 65536 = _
    omega
  have hne : ¬ ((48 : UInt16) + ml + sum16 ls = 0) := by
    intro h0
    have := congrArg UInt16.toNat h0
    rw [hltot] at this
    have h00 : (0 : UInt16).toNat = 0 := rfl
    omega
  rw [hk, Sw.step_multipartReply _ s (Sw.byteAt_at s 1 19 _ (by rw [hb]; rfl))]
  unfold MultipartReply.unmarshalWith MultipartReply.zero msgTryU
  simp only [Sw.header_at _ s hwf 4 19 _ xid _ hb, Res.bind_ok,
    Sw.u16From_at s 8 1 _ (by rw [hb]; rfl),
    Sw.u16From_at s 10 mpFlags _ (by rw [hb]; rfl), Header.length, Sw.ofNat16_toNat _ hsize]
  rw [Sw.msgLoopW_step _ _ _ _ _ ⟨64 + mb.length + ib.length, [flowStatsV (48 + mb.length + ib.length) tableId
      durationSec durationNsec priority idleTimeout hardTimeout flags cookie packetCount byteCount mv iv], false⟩
      (by simp; omega)
      (by
        simp only [h1, Res.bind_ok, hrec, hrlen, if_neg hne, hltot, Res.pure_eq, List.nil_append]
        rw [if_neg (by decide)]
        congr 2
        omega)
      (by show 16 < 64 + mb.length + ib.length; omega),
    Sw.msgLoopW_stop _ _ _ _ _ (by simp)]
  rfl

/-- flow-stats reply: one record with the empty match and no instructions -/
theorem flowStatsReply (xid : UInt32) (mpFlags : UInt16) (tableId : UInt8) (durationSec durationNsec : UInt32)
    (priority idleTimeout hardTimeout flags : UInt16) (cookie packetCount byteCount : UInt64)
    (depth : Nat) (s : Slice) (hwf : s.WF)
    (hb : s.bytes = hdr 19 72 xid ++ be16 1 ++ be16 mpFlags ++ zeros 4
      ++ flowStatsFixed 56 tableId durationSec durationNsec priority idleTimeout hardTimeout flags cookie packetCount
        byteCount ++ matchEmpty) :
    parse depth s = .ok (.obj "MultipartReply" [hdrV 19 72 xid, .num 1, .num mpFlags.toNat, .bytes [],
      .list [flowStatsV 56 tableId durationSec durationNsec priority idleTimeout hardTimeout flags cookie packetCount
        byteCount (.obj "Match" [.num 1, .num 4, .list []]) []]]) :=
  flowStatsReply_gen xid mpFlags tableId durationSec durationNsec priority idleTimeout hardTimeout flags cookie
    packetCount byteCount matchEmpty Sw.matchEmptyV 8 [] []
    (fun dm _ h => Sw.match_empty _ _ dm (zeros 4) (by rw [h]; rfl)) Sw.matchEmpty_len rfl
    (fun d _ _ _ => by
      unfold FlowStats.decodeInstrs
      rw [Sw.goLoop_stop _ _ _ _ _ (by simp)]
      rfl)
    ⟨[], rfl, rfl⟩ (by decide) depth s hwf
    (by rw [hb]; simp only [List.append_assoc, List.append_nil]; rfl)

example : ∃ v, parse 0 (Slice.exact (hdr 19 72 3 ++ be16 1 ++ be16 0 ++ zeros 4
      ++ flowStatsFixed 56 2 10 500 0x8000 0 0 1 0xc00c1e 5 320 ++ matchEmpty)) = .ok v :=
  ⟨_, flowStatsReply 3 0 2 10 500 0x8000 0 0 1 0xc00c1e 5 320 0 _ (Slice.exact_wf _) rfl⟩

/-- flow-stats reply: one record with a match on in_port and a goto-table instruction (type 1, length 8, table, pad 3) -/
theorem flowStatsReply_inPort_gotoTable (xid : UInt32) (mpFlags : UInt16) (tableId : UInt8)
    (durationSec durationNsec : UInt32) (priority idleTimeout hardTimeout flags : UInt16)
    (cookie packetCount byteCount : UInt64) (inPort : UInt32) (nextTable : UInt8)
    (depth : Nat) (s : Slice) (hwf : s.WF)
    (hb : s.bytes = hdr 19 88 xid ++ be16 1 ++ be16 mpFlags ++ zeros 4
      ++ flowStatsFixed 72 tableId durationSec durationNsec priority idleTimeout hardTimeout flags cookie packetCount
        byteCount ++ matchInPort inPort ++ (be16 1 ++ be16 8 ++ [nextTable, 0, 0, 0])) :
    parse depth s = .ok (.obj "MultipartReply" [hdrV 19 88 xid, .num 1, .num mpFlags.toNat, .bytes [],
      .list [flowStatsV 72 tableId durationSec durationNsec priority idleTimeout hardTimeout flags cookie packetCount
        byteCount
        (.obj "Match" [.num 1, .num 12, .list [.obj "MatchField" [.num 0x8000, .num 0, .num 0, .num 4, .num 0,
          .obj "InPortField" [.num inPort.toNat], .nil]]])
        [.obj "InstrGotoTable" [.obj "InstrHeader" [.num 1, .num 8], .num nextTable.toNat, .bytes []]]]]) :=
  flowStatsReply_gen xid mpFlags tableId durationSec durationNsec priority idleTimeout hardTimeout flags cookie
    packetCount byteCount (matchInPort inPort) (Sw.matchInPortV inPort) 16 (be16 1 ++ be16 8 ++ [nextTable, 0, 0, 0])
    [Sw.gotoTableV nextTable]
    (fun dm hdmwf h => Sw.match_inPort _ _ dm hdmwf inPort _ (by rw [h]; rfl)) (Sw.matchInPort_len inPort) rfl
    (fun d hdwf hdl hdrop => by
      obtain ⟨di, h1, hdiwf, _, hdi⟩ := Sw.fromR_at d hdwf 64 (by rw [hdl]; show 64 ≤ 48 + 16 + 8; omega)
      unfold FlowStats.decodeInstrs
      rw [Sw.goLoop_step _ _ _ _ _ ⟨72, [Sw.gotoTableV nextTable]⟩ (by rfl)
        (by
          show (d.fromR 64 >>= _) = _
          simp only [h1, Res.bind_ok, Sw.instr_gotoTable di hdiwf nextTable [] (by rw [hdi]; exact hdrop),
            Sw.gotoTable_len]
          rfl)
        (by show 64 < 72; omega),
        Sw.goLoop_stop _ _ _ _ _ (by rfl)]
      rfl)
    ⟨[8], rfl, rfl⟩ (by show 64 + 16 + 8 < 65536; omega) depth s hwf
    (by rw [hb]; simp only [List.append_assoc]; rfl)

example : ∃ v, parse 0 (Slice.exact (hdr 19 88 3 ++ be16 1 ++ be16 0 ++ zeros 4
      ++ flowStatsFixed 72 2 10 500 0x8000 0 0 1 0xc00c1e 5 320 ++ matchInPort 9 ++ (be16 1 ++ be16 8 ++ [4, 0, 0, 0]))) = .ok v :=
  ⟨_, flowStatsReply_inPort_gotoTable 3 0 2 10 500 0x8000 0 0 1 0xc00c1e 5 320 9 4 0 _ (Slice.exact_wf _) rfl⟩

/-! ### vendor replies inside the experimenter message -/

/-- ONF bundle-control reply inside the experimenter message (type 4): header, experimenter 0x4f4e4600, exp_type 2300,
    bundle_id(4), type(2), flags(2) -/
theorem bundleControlReply (xid : UInt32) (bundleId : UInt32) (ctrlType flags : UInt16) (depth : Nat) (s : Slice)
    (hwf : s.WF)
    (hb : s.bytes = hdr 4 24 xid ++ be32 0x4f4e4600 ++ be32 2300 ++ be32 bundleId ++ be16 ctrlType ++ be16 flags) :
    parse depth s = .ok (.obj "VendorHeader" [hdrV 4 24 xid, .num 0x4f4e4600, .num 2300,
      .obj "BundleControl" [.num bundleId.toNat, .num ctrlType.toNat, .num flags.toNat]]) := by
  simp only [hdr, List.append_assoc] at hb
  obtain ⟨k, hk⟩ := Sw.parse_step depth s
  have hl : s.len = 24 := by rw [← Sw.bytes_length s hwf, hb]; rfl
  obtain ⟨d, h1, hdwf, hdl, hd⟩ := Sw.sliceR_at s hwf 16 24 (by omega) (by omega)
  rw [hb] at hd
  rw [hk, Sw.step_experimenter _ s (Sw.byteAt_at s 1 4 _ (by rw [hb]; rfl))]
  unfold VendorHeader.unmarshalWith VendorHeader.zero msgTryU
  simp only [hl, Sw.header_at _ s hwf 4 4 24 xid _ hb, Res.bind_ok,
    Sw.u32From_at s 8 0x4f4e4600 _ (by rw [hb]; rfl),
    Sw.u32From_at s 12 2300 _ (by rw [hb]; rfl)]
  rw [if_neg (by decide), if_pos (by show 16 < 24; omega)]
  have hlen : Header.length (.obj "Header" [.num (4 : UInt8).toNat, .num (4 : UInt8).toNat, .num (24 : UInt16).toNat,
      .num xid.toNat]) = 24 := rfl
  rw [hlen, h1]
  have hdec : decodeVendorDataWith (parseD k) anyLenM (2300 : UInt32).toNat d = .ok (.obj "BundleControl"
      [.num bundleId.toNat, .num ctrlType.toNat, .num flags.toNat]) := by
    show BundleControl.unmarshal BundleControl.zero d = _
    unfold BundleControl.unmarshal
    rw [if_neg (by omega), Sw.u32From_at d 0 bundleId _ (by rw [hd]; rfl),
      Sw.u16From_at d 4 ctrlType _ (by rw [hd]; rfl), Sw.u16From_at d 6 flags _ (by rw [hd]; rfl)]
    rfl
  simp only [Res.bind_ok, hdec]
  rfl

example : parse 0 (Slice.exact (hdr 4 24 3 ++ be32 0x4f4e4600 ++ be32 2300 ++ be32 77 ++ be16 1 ++ be16 2))
    = .ok (.obj "VendorHeader" [hdrV 4 24 3, .num 0x4f4e4600, .num 2300, .obj "BundleControl" [.num 77, .num 1, .num 2]]) :=
  bundleControlReply 3 77 1 2 0 _ (Slice.exact_wf _) rfl

/-- Nicira TLV-table reply inside the experimenter message: header, experimenter 0x2320, subtype 26, max_option_space(4),
    max_fields(2), reserved(10), then ANY number of 8-byte mappings (`Sw.TlvMap.bytes`: option class(2), type(1),
    length(1), index(2), pad(2)).  Every mapping comes back, in order -/
theorem tlvTableReply (xid : UInt32) (maxSpace : UInt32) (maxFields : UInt16) (ms : List Sw.TlvMap)
    (hlen : 32 + 8 * ms.length < 65536) (depth : Nat) (s : Slice) (hwf : s.WF)
    (hb : s.bytes = hdr 4 (UInt16.ofNat (32 + 8 * ms.length)) xid ++ be32 0x2320 ++ be32 26
      ++ be32 maxSpace ++ be16 maxFields ++ zeros 10 ++ Sw.tlvBytes ms) :
    parse depth s = .ok (.obj "VendorHeader" [hdrV 4 (32 + 8 * ms.length) xid, .num 0x2320, .num 26,
      .obj "TLVTableReply" [.num maxSpace.toNat, .num maxFields.toNat, .bytes (zeros 10),
        .list (ms.map Sw.TlvMap.val)]]) := by
  simp only [hdr, List.append_assoc] at hb
  obtain ⟨k, hk⟩ := Sw.parse_step depth s
  have hl : s.len = 32 + 8 * ms.length := by
    rw [← Sw.bytes_length s hwf, hb]; simp [Sw.tlvBytes_length]; omega
  obtain ⟨d, h1, hdwf, hdl, hd⟩ := Sw.sliceR_at s hwf 16 (32 + 8 * ms.length) (by omega) (by omega)
  have hd' : d.bytes = be32 maxSpace ++ (be16 maxFields ++ (zeros 10 ++ Sw.tlvBytes ms)) := by
    rw [hd, hb]
    show List.take _ (be32 maxSpace ++ (be16 maxFields ++ (zeros 10 ++ Sw.tlvBytes ms))) = _
    apply List.take_of_length_le
    simp [Sw.tlvBytes_length]; omega
  obtain ⟨p, e1, _, _, hp⟩ := Sw.sliceR_at d hdwf 6 16 (by omega) (by omega)
  have hdec : decodeVendorDataWith (parseD k) anyLenM (26 : UInt32).toNat d = .ok (.obj "TLVTableReply"
      [.num maxSpace.toNat, .num maxFields.toNat, .bytes (zeros 10), .list (ms.map Sw.TlvMap.val)]) := by
    show TLVTableReply.unmarshal TLVTableReply.zero d = _
    unfold TLVTableReply.unmarshal TLVTableReply.zero
    simp only [Sw.u32From_at d 0 maxSpace _ hd', Sw.u16From_at d 4 maxFields _ (by rw [hd']; rfl), e1, Res.bind_ok,
      Sw.tlv_decodeList d hdwf ms 16 (by omega) (by rw [hd']; rfl), hp, hd']
    rfl
  rw [hk, Sw.step_experimenter _ s (Sw.byteAt_at s 1 4 _ (by rw [hb]; rfl))]
  unfold VendorHeader.unmarshalWith VendorHeader.zero msgTryU
  simp only [hl, Sw.header_at _ s hwf 4 4 _ xid _ hb, Res.bind_ok,
    Sw.u32From_at s 8 0x2320 _ (by rw [hb]; rfl),
    Sw.u32From_at s 12 26 _ (by rw [hb]; rfl), Header.length, Sw.ofNat16_toNat _ hlen]
  rw [if_neg (by omega), if_pos (by omega), h1]
  simp only [Res.bind_ok, hdec]
  rfl

example : ∃ v, parse 0 (Slice.exact (hdr 4 48 3 ++ be32 0x2320 ++ be32 26 ++ be32 256 ++ be16 64 ++ zeros 10
      ++ Sw.tlvBytes [⟨0xffff, 1, 4, 0⟩, ⟨0x0102, 0x80, 8, 1⟩])) = .ok v :=
  ⟨_, tlvTableReply 3 256 64 [⟨0xffff, 1, 4, 0⟩, ⟨0x0102, 0x80, 8, 1⟩] (by decide) 0 _ (Slice.exact_wf _) rfl⟩

/-! ### counterexamples: what a conforming switch sends and Parse does not hand over -/

/-- COUNTEREXAMPLE (known): an echo request that carries a payload (the specification allows arbitrary data, which
    the peer must echo) parses to the bare header — the payload bytes are not exposed anywhere in the result.
    (Same code path for echo reply.) -/
theorem echo_payload_dropped (xid : UInt32) (payload : Bytes) (hlen : 8 + payload.length < 65536)
    (depth : Nat) (s : Slice) (hwf : s.WF)
    (hb : s.bytes = hdr 2 (UInt16.ofNat (8 + payload.length)) xid ++ payload) :
    parse depth s = .ok (hdrV 2 (8 + payload.length) xid) := by
  obtain ⟨k, hk⟩ := Sw.parse_step depth s
  rw [hk, Sw.step_echoRequest _ s (Sw.byteAt_at s 1 2 _ (by rw [hb]; rfl)),
    Sw.header_at _ s hwf 4 2 _ xid payload (by rw [hb]; rfl), Sw.ofNat16_toNat _ hlen]
  rfl

example : parse 0 (Slice.exact (hdr 2 12 3 ++ [0xca, 0xfe, 0xba, 0xbe])) = .ok (.obj "Header" [.num 4, .num 2, .num 12, .num 3]) :=
  echo_payload_dropped 3 [0xca, 0xfe, 0xba, 0xbe] (by decide) 0 _ (Slice.exact_wf _) rfl

/-- COUNTEREXAMPLE (known): a table-stats reply (multipart type 3) with one OpenFlow 1.3 record (24 bytes: table_id,
    pad 3, active_count 4, lookup_count 8, matched_count 8) is REJECTED whatever the record holds: the decoder uses
    the OpenFlow 1.0 layout (64 bytes with a 32-byte name) and indexes beyond the frame; Parse turns the panic into an error -/
theorem tableStatsReply_rejected (xid : UInt32) (flags : UInt16) (record : Bytes) (hrec : record.length = 24)
    (depth : Nat) (s : Slice) (hwf : s.WF)
    (hb : s.bytes = hdr 19 40 xid ++ be16 3 ++ be16 flags ++ zeros 4 ++ record) :
    parse depth s = .err := by
  simp only [hdr, List.append_assoc] at hb
  obtain ⟨k, hk⟩ := Sw.parse_step depth s
  have hl : s.len = 40 := by rw [← Sw.bytes_length s hwf, hb]; simp [hrec]
  obtain ⟨d, h1, hdwf, hdl, _⟩ := Sw.fromR_at s hwf 16 (by omega)
  rw [hk, Sw.step_multipartReply _ s (Sw.byteAt_at s 1 19 _ (by rw [hb]; rfl))]
  unfold MultipartReply.unmarshalWith MultipartReply.zero msgTryU
  simp only [Sw.header_at _ s hwf 4 19 40 xid _ hb, Res.bind_ok,
    Sw.u16From_at s 8 3 _ (by rw [hb]; rfl),
    Sw.u16From_at s 10 flags _ (by rw [hb]; rfl)]
  have hrec' : MultipartReply.decodeRecord (3 : UInt16).toNat d = .panic := by
    show msgTryU TableStats.unmarshal TableStats.new d = _
    unfold msgTryU
    rw [Sw.tableStats_short d hdwf (by omega) (by omega)]
  rw [Sw.msgLoopW_panic _ _ _ _ _ rfl (by simp only [h1, Res.bind_ok, hrec']; rfl)]
  rfl

/-- table 0 with 5 active entries, 1000 lookups, 900 matches -/
example : parse 0 (Slice.exact (hdr 19 40 3 ++ be16 3 ++ be16 0 ++ zeros 4 ++ ([0] ++ zeros 3 ++ be32 5 ++ be64 1000 ++ be64 900)))
    = .err :=
  tableStatsReply_rejected 3 0 _ (by simp) 0 _ (Slice.exact_wf _) (Sw.exact_bytes _)

/-- COUNTEREXAMPLE (known): a port-stats reply (multipart type 4) with one OpenFlow 1.3 record (112 bytes: port_no 4,
    pad 4, twelve counters, duration_sec, duration_nsec) is REJECTED: the decoder consumes 104 bytes per record
    (OpenFlow 1.0: 16-bit port number, 6 pad bytes) and then tries to decode the remaining 8 bytes as another record -/
theorem portStatsReply_rejected (xid : UInt32) (flags : UInt16) (record : Bytes) (hrec : record.length = 112)
    (depth : Nat) (s : Slice) (hwf : s.WF)
    (hb : s.bytes = hdr 19 128 xid ++ be16 4 ++ be16 flags ++ zeros 4 ++ record) :
    parse depth s = .err := by
  simp only [hdr, List.append_assoc] at hb
  obtain ⟨k, hk⟩ := Sw.parse_step depth s
  have hl : s.len = 128 := by rw [← Sw.bytes_length s hwf, hb]; simp [hrec]
  obtain ⟨d, h1, hdwf, hdl, _⟩ := Sw.fromR_at s hwf 16 (by omega)
  obtain ⟨d2, h2, hd2wf, hd2l, _⟩ := Sw.fromR_at s hwf 120 (by omega)
  obtain ⟨p, pad, cs, hr⟩ := Sw.portStats_ok d hdwf (by omega)
  rw [hk, Sw.step_multipartReply _ s (Sw.byteAt_at s 1 19 _ (by rw [hb]; rfl))]
  unfold MultipartReply.unmarshalWith MultipartReply.zero msgTryU
  simp only [Sw.header_at _ s hwf 4 19 128 xid _ hb, Res.bind_ok,
    Sw.u16From_at s 8 4 _ (by rw [hb]; rfl),
    Sw.u16From_at s 10 flags _ (by rw [hb]; rfl)]
  have hrec1 : MultipartReply.decodeRecord (4 : UInt16).toNat d = .ok (.obj "PortStats" (p :: .bytes pad :: cs), false) := by
    show msgTryU PortStats.unmarshal PortStats.new d = _
    unfold msgTryU; rw [hr]
  have hrec2 : MultipartReply.decodeRecord (4 : UInt16).toNat d2 = .panic := by
    show msgTryU PortStats.unmarshal PortStats.new d2 = _
    unfold msgTryU; rw [Sw.portStats_short d2 hd2wf (by omega) (by omega)]
  rw [Sw.msgLoopW_step _ _ _ _ _ ⟨120, [.obj "PortStats" (p :: .bytes pad :: cs)], false⟩ rfl
      (by simp only [h1, Res.bind_ok, hrec1, Sw.portStats_len]; rfl) (by show 16 < 120; omega),
    Sw.msgLoopW_panic _ _ _ _ _ rfl (by simp only [h2, Res.bind_ok, hrec2]; rfl)]
  rfl

/-- port 1 with counters 1..12 and a duration -/
example : parse 0 (Slice.exact (hdr 19 128 3 ++ be16 4 ++ be16 0 ++ zeros 4 ++ (be32 1 ++ zeros 4 ++ be64 1 ++ be64 2 ++ be64 3
      ++ be64 4 ++ be64 5 ++ be64 6 ++ be64 7 ++ be64 8 ++ be64 9 ++ be64 10 ++ be64 11 ++ be64 12 ++ be32 60 ++ be32 0)))
    = .err :=
  portStatsReply_rejected 3 0 _ (by simp) 0 _ (Slice.exact_wf _) (Sw.exact_bytes _)

/-- COUNTEREXAMPLE (known): a queue-stats reply (multipart type 5) with one OpenFlow 1.3 record (40 bytes: port_no 4,
    queue_id 4, tx_bytes, tx_packets, tx_errors, duration_sec, duration_nsec) is REJECTED: the decoder reads the
    OpenFlow 1.0 layout (16-bit port, 2 pad bytes, queue id at offset 4, three counters at 8, 16, 24), reports 32 bytes
    and then decodes the remaining 8 bytes as another record, whose first counter lies beyond the frame -/
theorem queueStatsReply_rejected (xid : UInt32) (flags : UInt16) (record : Bytes) (hrec : record.length = 40)
    (depth : Nat) (s : Slice) (hwf : s.WF)
    (hb : s.bytes = hdr 19 56 xid ++ be16 5 ++ be16 flags ++ zeros 4 ++ record) :
    parse depth s = .err := by
  simp only [hdr, List.append_assoc] at hb
  obtain ⟨k, hk⟩ := Sw.parse_step depth s
  have hl : s.len = 56 := by rw [← Sw.bytes_length s hwf, hb]; simp [hrec]
  obtain ⟨d, h1, hdwf, hdl, _⟩ := Sw.fromR_at s hwf 16 (by omega)
  obtain ⟨d2, h2, hd2wf, hd2l, _⟩ := Sw.fromR_at s hwf 48 (by omega)
  obtain ⟨p, q, tb, tp, te, hr⟩ := Sw.queueStats_ok d hdwf (by omega)
  rw [hk, Sw.step_multipartReply _ s (Sw.byteAt_at s 1 19 _ (by rw [hb]; rfl))]
  unfold MultipartReply.unmarshalWith MultipartReply.zero msgTryU
  simp only [Sw.header_at _ s hwf 4 19 56 xid _ hb, Res.bind_ok,
    Sw.u16From_at s 8 5 _ (by rw [hb]; rfl),
    Sw.u16From_at s 10 flags _ (by rw [hb]; rfl)]
  have hrec1 : MultipartReply.decodeRecord (5 : UInt16).toNat d = .ok (.obj "QueueStats" [p, .bytes [], q, tb, tp, te], false) := by
    show msgTryU QueueStats.unmarshal QueueStats.zero d = _
    unfold msgTryU; rw [hr]
  have hrec2 : MultipartReply.decodeRecord (5 : UInt16).toNat d2 = .panic := by
    show msgTryU QueueStats.unmarshal QueueStats.zero d2 = _
    unfold msgTryU; rw [Sw.queueStats_short d2 hd2wf (by omega) (by omega)]
  rw [Sw.msgLoopW_step _ _ _ _ _ ⟨48, [.obj "QueueStats" [p, .bytes [], q, tb, tp, te]], false⟩ rfl
      (by simp only [h1, Res.bind_ok, hrec1, Sw.queueStats_len]; rfl) (by show 16 < 48; omega),
    Sw.msgLoopW_panic _ _ _ _ _ rfl (by simp only [h2, Res.bind_ok, hrec2]; rfl)]
  rfl

example : parse 0 (Slice.exact (hdr 19 56 3 ++ be16 5 ++ be16 0 ++ zeros 4 ++ (be32 1 ++ be32 7 ++ be64 1000 ++ be64 10
      ++ be64 0 ++ be32 60 ++ be32 0))) = .err :=
  queueStatsReply_rejected 3 0 _ (by simp) 0 _ (Slice.exact_wf _) (Sw.exact_bytes _)

/-- COUNTEREXAMPLE (known): a port-description reply (multipart type 13) with at least one port is REJECTED: there is
    no decoder for the type (`repl` stays nil, the call panics, Parse reports an error) -/
theorem portDescReply_rejected (xid : UInt32) (flags : UInt16) (ports : Bytes) (hne : 0 < ports.length)
    (hlen : 16 + ports.length < 65536) (depth : Nat) (s : Slice) (hwf : s.WF)
    (hb : s.bytes = hdr 19 (UInt16.ofNat (16 + ports.length)) xid ++ be16 13 ++ be16 flags ++ zeros 4 ++ ports) :
    parse depth s = .err := by
  simp only [hdr, List.append_assoc] at hb
  obtain ⟨k, hk⟩ := Sw.parse_step depth s
  have hl : s.len = 16 + ports.length := by rw [← Sw.bytes_length s hwf, hb]; simp; omega
  obtain ⟨d, h1, hdwf, hdl, _⟩ := Sw.fromR_at s hwf 16 (by omega)
  rw [hk, Sw.step_multipartReply _ s (Sw.byteAt_at s 1 19 _ (by rw [hb]; rfl))]
  unfold MultipartReply.unmarshalWith MultipartReply.zero msgTryU
  simp only [Sw.header_at _ s hwf 4 19 _ xid _ hb, Res.bind_ok,
    Sw.u16From_at s 8 13 _ (by rw [hb]; rfl),
    Sw.u16From_at s 10 flags _ (by rw [hb]; rfl), Header.length, Sw.ofNat16_toNat _ hlen]
  rw [Sw.msgLoopW_panic _ _ _ _ _ (by simp; omega) (by simp only [h1, Res.bind_ok]; rfl)]
  rfl

example : parse 0 (Slice.exact (hdr 19 80 3 ++ be16 13 ++ be16 0 ++ zeros 4 ++ portBytes 1 [2, 0, 0, 0, 0, 9]
      [101, 116, 104, 48, 0, 0, 0, 0, 0, 0, 0, 0, 0, 0, 0, 0] 0 0 0x840 0 0 0 10000000 40000000)) = .err :=
  portDescReply_rejected 3 0 (portBytes 1 [2, 0, 0, 0, 0, 9] [101, 116, 104, 48, 0, 0, 0, 0, 0, 0, 0, 0, 0, 0, 0, 0] 0 0
    0x840 0 0 0 10000000 40000000) (by decide) (by decide) 0 _ (Slice.exact_wf _) rfl

end OFV.Props.C04
