/-
  C01 (part c) — messages built by API HISTORIES are sent framed.

  Props/C01b.lean proves framing (`Framed 4 type xid bs v'`: byte 0 = 4, byte 1 = the kind's type code, bytes 2–3 = the
  number of bytes produced, bytes 4–7 = xid; the same length stored back and reported by Len()) for VALUES that carry the
  constructor's stamp and whose encoder returned normally.  This file closes the two gaps for histories:
    (a) the value a HISTORY builds (constructor, assignments of the exported scalar fields, adders in any number, nested
        builders with their own adders) has that stamp — by the fold lemmas of OFV/Lemmas/Hist.lean / Hist2.lean;
    (b) its encoder DOES return normally when the parts encode (`Hist.Encodes lenM marM x`: Len() returns without
        modifying x, MarshalBinary() returns) — `flowMod_encodes`, `groupMod_encodes`, `instrActions_encodes`,
        `bucket_encodes` — and the constructors / adder histories of the parts satisfy `Encodes`
        (`encodes_*` below, `instrActions_history_encodes`, `bucket_history_encodes`).
  Well-formedness in the sense of C02b (`ActionWF`, `InstrWF`) does NOT imply that an encoder returns (e.g.
  `NXActionRegLoad.new ofs nil v` is `ActionWF` and its MarshalBinary() dereferences the nil field), hence the separate
  predicate; the constructors are shown to satisfy both.

    flowMod_history_sent          NewFlowMod(), any scalar fields / command, a match that encodes (e.g. NewMatch + AddField*),
                                  AddInstruction* of instructions that encode: encodes, and is framed when < 64 KiB
    groupMod_history_sent         NewGroupMod(), any command / type / id, AddBucket* of buckets built by NewBucket + AddAction*
    packetOut_history_sent        NewPacketOut(), AddAction*, SetData(bytes)
    hello_history_sent            NewHello(4) with any element list; `hello_history_encodes_sent`: unconditional (the encoder
                                  SUCCEEDS when the elements encode and 8 + Σ Len() does not wrap)
    bundleAdd_flowMod_history_sent NewBundleAdd around a flow-mod built by such a history
  No history yielding an unframed message was found.
-/
import OFV.Model.All
import OFV.Lemmas.Hist
import OFV.Lemmas.Hist2
import OFV.Props.C01b
import OFV.Props.C02b
namespace OFV.Props.C01c
open OFV OFV.Go OFV.Model OFV.Spec OFV.Frame OFV.Model.Hist

/-! ### the parts: constructors and adder histories encode (and are well-formed in the sense of C02b) -/

/-- NewActionOutput / NewActionGroup / NewActionSetQueue / NewActionPushVlan,Mpls / NewActionPopVlan / NewActionPopMpls /
    NewActionDecNwTtl / NewActionNwTtl / NewActionMplsTtl, any argument: Len() leaves them alone, MarshalBinary() returns -/
theorem encodes_output (p : Nat) : Encodes Action.lenM Action.marshalM (ActionOutput.new p) := ⟨⟨_, rfl⟩, _, _, rfl⟩
theorem encodes_group (g : Nat) : Encodes Action.lenM Action.marshalM (ActionGroup.new g) := ⟨⟨_, rfl⟩, _, _, rfl⟩
theorem encodes_setqueue (q : Nat) : Encodes Action.lenM Action.marshalM (ActionSetqueue.new q) := ⟨⟨_, rfl⟩, _, _, rfl⟩
theorem encodes_push (ty et : Nat) : Encodes Action.lenM Action.marshalM (ActionPush.new ty et) := ⟨⟨_, rfl⟩, _, _, rfl⟩
theorem encodes_popVlan : Encodes Action.lenM Action.marshalM ActionPopVlan.new := ⟨⟨_, rfl⟩, _, _, rfl⟩
theorem encodes_popMpls (et : Nat) : Encodes Action.lenM Action.marshalM (ActionPopMpls.new et) := ⟨⟨_, rfl⟩, _, _, rfl⟩
theorem encodes_decNwTtl : Encodes Action.lenM Action.marshalM ActionDecNwTtl.new := ⟨⟨_, rfl⟩, _, _, rfl⟩
theorem encodes_nwTtl (t : Nat) : Encodes Action.lenM Action.marshalM (ActionNwTtl.new t) := ⟨⟨_, rfl⟩, _, _, rfl⟩
theorem encodes_mplsTtl (t : Nat) : Encodes Action.lenM Action.marshalM (ActionMplsTtl.new t) := ⟨⟨_, rfl⟩, _, _, rfl⟩
/-- Nicira actions without pointer arguments -/
theorem encodes_conjunction (c nc id : Nat) : Encodes Action.lenM Action.marshalM (NXActionConjunction.new c nc id) := ⟨⟨_, rfl⟩, _, _, rfl⟩
theorem encodes_resubmitTable (sub ip t ct : Nat) : Encodes Action.lenM Action.marshalM (NXActionResubmitTable.new sub ip t ct) := ⟨⟨_, rfl⟩, _, _, rfl⟩
theorem encodes_ctClear : Encodes Action.lenM Action.marshalM NXActionCTClear.new := ⟨⟨_, rfl⟩, _, _, rfl⟩
theorem encodes_decTTL : Encodes Action.lenM Action.marshalM NXActionDecTTL.new := ⟨⟨_, rfl⟩, _, _, rfl⟩
theorem encodes_controller (id : Nat) : Encodes Action.lenM Action.marshalM (NXActionController.new id) := ⟨⟨_, rfl⟩, _, _, rfl⟩

/-- … and they are the well-formed actions of C02b -/
example (p g : Nat) : C02b.ActionWF (ActionOutput.new p) ∧ C02b.ActionWF (ActionGroup.new g) ∧ C02b.ActionWF NXActionCTClear.new :=
  ⟨C02b.actionWF_output p, C02b.actionWF_group g, C02b.actionWF_ctClear⟩

/-- NewInstrGotoTable / NewInstrWriteMetadata / NewInstrMeter, any argument -/
theorem encodes_gotoTable (t : Nat) : Encodes Instruction.lenM Instruction.marshalM (InstrGotoTable.new t) := ⟨⟨_, rfl⟩, _, _, rfl⟩
theorem encodes_writeMetadata (md mk : Nat) : Encodes Instruction.lenM Instruction.marshalM (InstrWriteMetadata.new md mk) :=
  ⟨⟨_, rfl⟩, _, _, rfl⟩
theorem encodes_meter (m : Nat) : Encodes Instruction.lenM Instruction.marshalM (InstrMeter.new m) := ⟨⟨_, rfl⟩, _, _, rfl⟩

/-- NewInstrApplyActions / NewInstrWriteActions (`InstrActions.new ty`) followed by ANY list of AddAction(a, false) of
    actions that encode: every call succeeds, the actions are there in call order, and the instruction encodes -/
theorem instrActions_history_encodes (ty : Nat) (as : List V) (h : ∀ a ∈ as, Encodes Action.lenM Action.marshalM a) :
    ∃ x, foldAdd (fun v a => InstrActions.addAction v a false) (InstrActions.new ty) as =
        .ok (.obj "InstrActions" [.obj "InstrHeader" [.num ty, x], .bytes (zeros 4), .list as]) ∧
      Encodes Instruction.lenM Instruction.marshalM
        (.obj "InstrActions" [.obj "InstrHeader" [.num ty, x], .bytes (zeros 4), .list as]) := by
  obtain ⟨x, hx⟩ := instrActions_fold as ty (.num 8) (zeros 4) [] (by simpa using h)
  exact ⟨x, by simpa [InstrActions.new] using hx, instrActions_encodes ty x _ as h⟩

/-- NewBucket(), any weight / watch port / watch group assigned, ANY list of AddAction of actions that encode -/
theorem bucket_history_encodes (w wp wg : Nat) (as : List V) (h : ∀ a ∈ as, Encodes Action.lenM Action.marshalM a) :
    foldAdd Bucket.addAction (.obj "Bucket" [.num 16, .num w, .num wp, .num wg, .bytes (zeros 4), .list []]) as =
        .ok (.obj "Bucket" [.num 16, .num w, .num wp, .num wg, .bytes (zeros 4), .list as]) ∧
      Encodes Bucket.lenM Bucket.marshalCopyM (.obj "Bucket" [.num 16, .num w, .num wp, .num wg, .bytes (zeros 4), .list as]) := by
  refine ⟨by simpa using bucket_fold as (.num 16) (.num w) (.num wp) (.num wg) (.bytes (zeros 4)) [], bucket_encodes _ w wp wg _ as h⟩

example : Bucket.new = .obj "Bucket" [.num 16, .num 0, .num Gen.openflow13.P_ANY, .num Gen.openflow13.OFPG_ANY, .bytes (zeros 4), .list []] := rfl

/-! ### flow-mod -/

/-- NewFlowMod() is the value the history below starts from, with the defaults in the scalar fields -/
theorem flowMod_new_eq (xid : Nat) : FlowMod.new xid =
    .obj "FlowMod" [.obj "Header" [.num Gen.openflow13.VERSION, .num Gen.openflow13.Type_FlowMod, .num 8, .num (n32 xid).toNat],
      .num 0, .num 0, .num 0, .num Gen.openflow13.FC_ADD, .num 0, .num 0, .num 1000, .num 4294967295,
      .num Gen.openflow13.P_ANY, .num Gen.openflow13.OFPG_ANY, .num 0, .bytes [], Match.new, .list []] := rfl

/-- FLOW-MOD HISTORY: NewFlowMod() with ANY transaction id; ANY values assigned to cookie, cookie mask, table, COMMAND,
    timeouts, priority, buffer, out port, out group, flags; a match `m` that encodes (any NewMatch + AddField history does,
    when its fields encode); then AddInstruction of ANY list of instructions that encode (constructors, and
    apply/write-actions with any AddAction history: `encodes_gotoTable`, …, `instrActions_history_encodes`).
    Every adder call succeeds, MarshalBinary() SUCCEEDS, produces 48 bytes + match + instructions (none for the two delete
    commands), and — whenever that is less than 64 KiB — the message is framed: version 4, OFPT_FLOW_MOD, length field =
    bytes produced = what Len() reports, the transaction id. -/
theorem flowMod_history_sent (xid ck cm tid cmd it ht pr bid op og fl : Nat) (m : V) (is : List V)
    (hm : Encodes Match.lenM Match.marshalM m) (his : ∀ i ∈ is, Encodes Instruction.lenM Instruction.marshalM i) :
    ∃ fm bs v', foldAdd FlowMod.addInstruction
        (.obj "FlowMod" [.obj "Header" [.num Gen.openflow13.VERSION, .num Gen.openflow13.Type_FlowMod, .num 8, .num (n32 xid).toNat],
          .num ck, .num cm, .num tid, .num cmd, .num it, .num ht, .num pr, .num bid, .num op, .num og, .num fl, .bytes [], m,
          .list []]) is = .ok fm ∧
      FlowMod.marshalM fm = .ok (bs, v') ∧
      (bs.length < 65536 →
        Framed Gen.openflow13.VERSION Gen.openflow13.Type_FlowMod (n32 xid).toNat bs v' ∧
        ∀ l v1, FlowMod.lenM fm = .ok (l, v1) → l.toNat = bs.length) := by
  obtain ⟨⟨ml, hml⟩, mb, m2, hmb⟩ := hm
  obtain ⟨ls, bss, is2, hls, hbs⟩ := encodes_list _ _ is his
  have hfold := flowMod_fold is (.obj "Header" [.num Gen.openflow13.VERSION, .num Gen.openflow13.Type_FlowMod, .num 8, .num (n32 xid).toNat])
    (.num ck) (.num cm) (.num tid) (.num cmd) (.num it) (.num ht) (.num pr) (.num bid) (.num op) (.num og) (.num fl) (.bytes []) m []
  simp only [List.nil_append] at hfold
  obtain ⟨bs, v', hmar, _⟩ := flowMod_encodes Gen.openflow13.VERSION Gen.openflow13.Type_FlowMod (n32 xid).toNat (.num 8)
    ck cm tid cmd it ht pr bid op og fl (.bytes []) m is ml m mb m2 ls is bss is2 hml hmb hls hbs
  refine ⟨_, bs, v', hfold, hmar, fun hlt => ?_⟩
  exact C01b.flowMod_sent _ _ ⟨.num 8, rfl⟩ bs v' hmar hlt

/-- the size of that encoding -/
theorem flowMod_history_size (xid ck cm tid cmd it ht pr bid op og fl : Nat) (m : V) (is : List V)
    (ml : UInt16) (mb : Bytes) (m2 : V) (ls : List UInt16) (bss : List Bytes) (is2 : List V)
    (hml : Match.lenM m = .ok (ml, m)) (hmb : Match.marshalM m = .ok (mb, m2))
    (hls : mapM2 Instruction.lenM is = .ok (ls, is)) (hbs : mapM2 Instruction.marshalM is = .ok (bss, is2)) :
    ∃ bs v', FlowMod.marshalM (.obj "FlowMod" [.obj "Header" [.num Gen.openflow13.VERSION, .num Gen.openflow13.Type_FlowMod, .num 8,
        .num (n32 xid).toNat], .num ck, .num cm, .num tid, .num cmd, .num it, .num ht, .num pr, .num bid, .num op, .num og, .num fl,
        .bytes [], m, .list is]) = .ok (bs, v') ∧
      bs.length = 48 + mb.length +
        (if cmd = Gen.openflow13.FC_DELETE ∨ cmd = Gen.openflow13.FC_DELETE_STRICT then 0 else bss.flatten.length) :=
  flowMod_encodes _ _ _ _ ck cm tid cmd it ht pr bid op og fl _ m is ml m mb m2 ls is bss is2 hml hmb hls hbs

/-- a match built by NewMatch() + three AddField calls (in_port 3, eth_type 0x0800, ip_proto 6) encodes, and is a
    well-formed match of C02 -/
def exMatchFields : List V :=
  [MatchField.mk Gen.openflow13.OXM_CLASS_OPENFLOW_BASIC Gen.openflow13.OXM_FIELD_IN_PORT false 4 (.obj "InPortField" [V.u32 (n32 3)]) .nil,
   MatchField.mk Gen.openflow13.OXM_CLASS_OPENFLOW_BASIC Gen.openflow13.OXM_FIELD_ETH_TYPE false 2 (.obj "EthTypeField" [V.u16 (n16 0x0800)]) .nil,
   MatchField.mk Gen.openflow13.OXM_CLASS_OPENFLOW_BASIC Gen.openflow13.OXM_FIELD_IP_PROTO false 1 (.obj "IpProtoField" [V.u8 (n8 6)]) .nil]

example : ∃ m, foldAdd Match.addField Match.new exMatchFields = .ok m ∧ Encodes Match.lenM Match.marshalM m :=
  ⟨_, rfl, ⟨_, rfl⟩, _, _, rfl⟩

/-- the values of the example history, computed by the model's own builder functions -/
def exMatch : V := match foldAdd Match.addField Match.new exMatchFields with | .ok m => m | _ => .nil
def exSetField : V :=
  match ActionSetField.new (MatchField.mk Gen.openflow13.OXM_CLASS_OPENFLOW_BASIC Gen.openflow13.OXM_FIELD_IN_PORT false 4
    (.obj "InPortField" [V.u32 (n32 9)]) .nil) with | .ok a => a | _ => .nil
def exApply : V :=
  match foldAdd (fun v a => InstrActions.addAction v a false) (InstrActions.new Gen.openflow13.InstrType_APPLY_ACTIONS)
    [ActionOutput.new 5, exSetField] with | .ok i => i | _ => .nil
def exStart : V :=
  .obj "FlowMod" [.obj "Header" [.num 4, .num Gen.openflow13.Type_FlowMod, .num 8, .num (n32 7).toNat],
    .num 0, .num 0, .num 0, .num Gen.openflow13.FC_ADD, .num 0, .num 0, .num 100, .num 4294967295,
    .num Gen.openflow13.P_ANY, .num Gen.openflow13.OFPG_ANY, .num 0, .bytes [], exMatch, .list []]

/-- THE EXAMPLE: NewFlowMod(); Xid = 7; Priority = 100; Match = NewMatch + AddField(in_port 3, eth_type 0x0800, ip_proto 6);
    AddInstruction(goto-table 2); AddInstruction(apply-actions built by NewInstrApplyActions + AddAction(output 5) +
    AddAction(set-field in_port 9)).  Every step of the history returns normally, the hypotheses of `flowMod_history_sent`
    hold, and its conclusion gives the framed encoding: 120 bytes starting 4, 14, 0, 120, 0, 0, 0, 7. -/
example :
    foldAdd Match.addField Match.new exMatchFields = .ok exMatch ∧
    ActionSetField.new (MatchField.mk Gen.openflow13.OXM_CLASS_OPENFLOW_BASIC Gen.openflow13.OXM_FIELD_IN_PORT false 4
      (.obj "InPortField" [V.u32 (n32 9)]) .nil) = .ok exSetField ∧
    foldAdd (fun v a => InstrActions.addAction v a false) (InstrActions.new Gen.openflow13.InstrType_APPLY_ACTIONS)
      [ActionOutput.new 5, exSetField] = .ok exApply ∧
    Encodes Match.lenM Match.marshalM exMatch ∧
    (∀ i ∈ [InstrGotoTable.new 2, exApply], Encodes Instruction.lenM Instruction.marshalM i) ∧
    (∀ i ∈ [InstrGotoTable.new 2, exApply], C02b.InstrWF i) ∧ C02.MatchWF exMatch ∧
    ∃ fm bs v', foldAdd FlowMod.addInstruction exStart [InstrGotoTable.new 2, exApply] = .ok fm ∧
      FlowMod.marshalM fm = .ok (bs, v') ∧ bs.take 8 = [4, 14, 0, 120, 0, 0, 0, 7] ∧ bs.length = 120 ∧
      Framed 4 Gen.openflow13.Type_FlowMod 7 bs v' ∧ ∀ l v1, FlowMod.lenM fm = .ok (l, v1) → l.toNat = bs.length := by
  have hm : Encodes Match.lenM Match.marshalM exMatch := ⟨⟨_, rfl⟩, _, _, rfl⟩
  have his : ∀ i ∈ [InstrGotoTable.new 2, exApply], Encodes Instruction.lenM Instruction.marshalM i := by
    intro i hi
    simp only [List.mem_cons, List.mem_nil_iff, or_false] at hi
    rcases hi with rfl | rfl
    · exact encodes_gotoTable 2
    · exact ⟨⟨_, rfl⟩, _, _, rfl⟩
  refine ⟨rfl, rfl, rfl, hm, his, ?_, ?_, ?_⟩
  · intro i hi
    simp only [List.mem_cons, List.mem_nil_iff, or_false] at hi
    rcases hi with rfl | rfl
    · exact C02b.instrWF_gotoTable 2
    · refine Or.inr (Or.inr (Or.inl ⟨_, _, _, _, _, _, rfl, rfl, ?_⟩))
      intro a ha
      simp only [List.mem_cons, List.mem_nil_iff, or_false] at ha
      rcases ha with rfl | rfl
      · exact C02b.actionWF_output 5
      · exact C02b.actionWF_setField (MatchField.mk Gen.openflow13.OXM_CLASS_OPENFLOW_BASIC Gen.openflow13.OXM_FIELD_IN_PORT false 4
          (.obj "InPortField" [V.u32 (n32 9)]) .nil) _ rfl
  · exact C02.C02_match_history exMatchFields exMatch rfl
  · obtain ⟨fm, bs, v', h1, h2, h3⟩ := flowMod_history_sent 7 0 0 0 Gen.openflow13.FC_ADD 0 0 100 4294967295
      Gen.openflow13.P_ANY Gen.openflow13.OFPG_ANY 0 exMatch [InstrGotoTable.new 2, exApply] hm his
    have e1 : foldAdd FlowMod.addInstruction exStart [InstrGotoTable.new 2, exApply] = .ok fm := h1
    have e2 := h1
    rw [flowMod_fold] at e2
    have e3 := Res.ok.inj e2
    subst e3
    have hc : (FlowMod.marshalM _).map (fun r => (r.1.take 8, r.1.length)) = .ok ([4, 14, 0, 120, 0, 0, 0, 7], 120) :=
      (by decide +kernel : (FlowMod.marshalM (.obj "FlowMod" [.obj "Header" [.num Gen.openflow13.VERSION, .num Gen.openflow13.Type_FlowMod, .num 8,
        .num (n32 7).toNat], .num 0, .num 0, .num 0, .num Gen.openflow13.FC_ADD, .num 0, .num 0, .num 100, .num 4294967295,
        .num Gen.openflow13.P_ANY, .num Gen.openflow13.OFPG_ANY, .num 0, .bytes [], exMatch,
        .list ([] ++ [InstrGotoTable.new 2, exApply])])).map (fun r => (r.1.take 8, r.1.length)) = .ok ([4, 14, 0, 120, 0, 0, 0, 7], 120))
    rw [h2] at hc
    simp only [Res.map, Res.ok.injEq, Prod.mk.injEq] at hc
    have hlt : bs.length < 65536 := by rw [hc.2]; decide
    exact ⟨_, bs, v', e1, h2, hc.1, hc.2, (h3 hlt).1, (h3 hlt).2⟩

/-! ### group-mod -/

/-- GROUP-MOD HISTORY: NewGroupMod() with any transaction id, ANY command / type / group id assigned, AddBucket of ANY
    list of buckets that encode (each NewBucket + assignments + AddAction*: `bucket_history_encodes`): every call
    succeeds, MarshalBinary() SUCCEEDS, and below 64 KiB the message is framed: version 4, OFPT_GROUP_MOD, length field =
    bytes produced = Len(), the transaction id -/
theorem groupMod_history_sent (xid cmd t g : Nat) (bks : List V)
    (hb : ∀ b ∈ bks, Encodes Bucket.lenM Bucket.marshalCopyM b) :
    ∃ gm bs v', foldAdd GroupMod.addBucket
        (.obj "GroupMod" [.obj "Header" [.num Gen.openflow13.VERSION, .num Gen.openflow13.Type_GroupMod, .num 8, .num (n32 xid).toNat],
          .num cmd, .num t, .num 0, .num g, .list []]) bks = .ok gm ∧
      GroupMod.marshalM gm = .ok (bs, v') ∧
      (bs.length < 65536 →
        Framed Gen.openflow13.VERSION Gen.openflow13.Type_GroupMod (n32 xid).toNat bs v' ∧
        ∀ l v1, GroupMod.lenM gm = .ok (l, v1) → l.toNat = bs.length) := by
  obtain ⟨ls, bss, bks2, hls, hbs⟩ := encodes_list _ _ bks hb
  have hfold := groupMod_fold bks (.obj "Header" [.num Gen.openflow13.VERSION, .num Gen.openflow13.Type_GroupMod, .num 8, .num (n32 xid).toNat])
    (.num cmd) (.num t) (.num 0) (.num g) []
  simp only [List.nil_append] at hfold
  obtain ⟨bs, v', hmar, _⟩ := groupMod_encodes Gen.openflow13.VERSION Gen.openflow13.Type_GroupMod (n32 xid).toNat (.num 8)
    cmd t 0 g bks ls bks bss bks2 hls hbs
  exact ⟨_, bs, v', hfold, hmar, fun hlt => C01b.groupMod_sent _ _ ⟨.num 8, rfl⟩ bs v' hmar hlt⟩

example (xid : Nat) : GroupMod.new xid =
    .obj "GroupMod" [.obj "Header" [.num Gen.openflow13.VERSION, .num Gen.openflow13.Type_GroupMod, .num 8, .num (n32 xid).toNat],
      .num Gen.openflow13.OFPGC_ADD, .num Gen.openflow13.OFPGT_ALL, .num 0, .num 0, .list []] := rfl

/-- non-vacuity: two buckets, one with output + group actions, one empty -/
example : ∀ b ∈ [V.obj "Bucket" [.num 16, .num 1, .num 2, .num 3, .bytes (zeros 4), .list [ActionOutput.new 1, ActionGroup.new 2]],
      Bucket.new], Encodes Bucket.lenM Bucket.marshalCopyM b := by
  intro b hb
  simp only [List.mem_cons, List.mem_nil_iff, or_false] at hb
  rcases hb with rfl | rfl
  · exact (bucket_history_encodes 1 2 3 _ (by
      intro a ha; simp only [List.mem_cons, List.mem_nil_iff, or_false] at ha
      rcases ha with rfl | rfl
      · exact encodes_output 1
      · exact encodes_group 2)).2
  · exact (bucket_history_encodes 0 _ _ [] (by intro a ha; cases ha)).2

/-! ### packet-out, hello, bundle-add -/

/-- PACKET-OUT HISTORY: NewPacketOut(), Xid / BufferId / InPort assigned, AddAction of ANY list of actions, then
    SetData(payload): the value keeps the constructor's stamp and, when MarshalBinary() returns, the message is framed
    (version 4, OFPT_PACKET_OUT, length = bytes produced < 64 KiB, the transaction id) -/
theorem packetOut_history_sent (xid bid ip : Nat) (as : List V) (payload : Bytes) (p p' : V)
    (hp : foldAdd PacketOut.addAction (.obj "PacketOut" [.obj "Header" [.num Gen.openflow13.VERSION,
      .num Gen.openflow13.Type_PacketOut, .num 8, .num xid], .num bid, .num ip, .num 0, .bytes (zeros 6), .list [], .nil]) as = .ok p)
    (hd : PacketOut.setData p payload = .ok p') (bs : Bytes) (v' : V) (hm : PacketOut.marshalM p' = .ok (bs, v')) :
    Framed Gen.openflow13.VERSION Gen.openflow13.Type_PacketOut xid bs v' ∧ bs.length < 65536 := by
  obtain ⟨ls, as', _, rfl⟩ := packetOut_fold as _ _ _ 0 _ [] _ p (by decide) hp
  simp only [PacketOut.setData, Res.pure_eq, Res.ok.injEq] at hd
  subst hd
  exact C01b.packetOut_sent _ _ _ _ _ _ payload xid ⟨.num 8, rfl⟩ bs v' hm

example : PacketOut.new = .obj "PacketOut" [.obj "Header" [.num Gen.openflow13.VERSION, .num Gen.openflow13.Type_PacketOut, .num 8,
    .num 0], .num 4294967295, .num Gen.openflow13.P_ANY, .num 0, .bytes (zeros 6), .list [], .nil] := rfl

/-- HELLO: NewHello(4) with any transaction id and ANY list of elements: when MarshalBinary() returns, framed -/
theorem hello_history_sent (xid : Nat) (elems : List V) (bs : Bytes) (v' : V)
    (hm : Hello.marshalM (.obj "Hello" [newHeader Gen.openflow13.VERSION xid, .list elems]) = .ok (bs, v')) :
    Framed Gen.openflow13.VERSION Gen.openflow13.Type_Hello (n32 xid).toNat bs v' ∧ bs.length < 65536 :=
  C01b.hello_sent _ _ ⟨.num 8, rfl⟩ bs v' hm

/-- HELLO, unconditional: NewHello(4) with any transaction id and ANY list of elements that encode (Len() stable) and
    whose uint16 total 8 + Σ Len() covers their encodings (no wrap-around): MarshalBinary() SUCCEEDS and the message is
    framed — version 4, OFPT_HELLO, length = bytes produced < 64 KiB, the transaction id -/
theorem hello_history_encodes_sent (xid : Nat) (elems : List V) (ls : List UInt16) (ebs : List Bytes) (es' : List V)
    (hl : mapM2 HelloElem.lenM elems = .ok (ls, elems)) (hm : mapM2 HelloElem.marshalM elems = .ok (ebs, es'))
    (hfit : 8 + ebs.flatten.length ≤ (8 + sum16 ls).toNat) :
    ∃ bs v', Hello.marshalM (.obj "Hello" [newHeader Gen.openflow13.VERSION xid, .list elems]) = .ok (bs, v') ∧
      Framed Gen.openflow13.VERSION Gen.openflow13.Type_Hello (n32 xid).toNat bs v' ∧ bs.length < 65536 := by
  obtain ⟨bs, v', h⟩ := hello_encodes (n8 Gen.openflow13.VERSION).toNat 0 (n32 xid).toNat (.num 8) elems ls ebs es' hl hm hfit
  have h' : Hello.marshalM (.obj "Hello" [newHeader Gen.openflow13.VERSION xid, .list elems]) = .ok (bs, v') := h
  exact ⟨bs, v', h', hello_history_sent xid elems bs v' h'⟩

/-- the hypotheses hold for what NewHello() itself puts in: one version-bitmap element (8 bytes) — and for two of them -/
example : mapM2 HelloElem.lenM [HelloElemVersionBitmap.new, HelloElemVersionBitmap.new] =
      .ok ([8, 8], [HelloElemVersionBitmap.new, HelloElemVersionBitmap.new]) ∧
    (∃ ebs es', mapM2 HelloElem.marshalM [HelloElemVersionBitmap.new, HelloElemVersionBitmap.new] = .ok (ebs, es') ∧
      8 + ebs.flatten.length ≤ (8 + sum16 [8, 8]).toNat) :=
  ⟨rfl, _, _, rfl, by decide⟩

/-- BUNDLE-ADD around a flow-mod built by ANY history (`flowMod_history_sent`: the result is a FlowMod value): when
    MarshalBinary() of the experimenter message returns, it is framed (version 4, OFPT_EXPERIMENTER, length = bytes
    produced < 64 KiB, the transaction id) -/
theorem bundleAdd_flowMod_history_sent (xid bundle flags : Nat) (fmFields : List V) (props : List V) (bs : Bytes) (v' : V)
    (hm : VendorHeader.marshalM (setXid xid (VendorHeader.mk Gen.openflow13.ONF_EXPERIMENTER_ID Gen.openflow13.Type_BundleAdd
      (.obj "BundleAdd" [.num bundle, .bytes (zeros 2), .num flags, .obj "FlowMod" fmFields, .list props]))) = .ok (bs, v')) :
    Framed Gen.openflow13.VERSION Gen.openflow13.Type_Experimenter xid bs v' ∧ bs.length < 65536 :=
  C01b.vendorHeader_sent _ _ _ _ xid (C01b.bundleAdd_flowMod_payloadOK _ _ _ _ _) ⟨.num 8, rfl⟩ bs v' hm

end OFV.Props.C01c
