/-
  C15 — match-field registry: names map to the right class, number and width; header pack/unpack are inverses;
  lookups return independent values.
-/
import OFV.Model.Registry
import OFV.Spec.Oxm
import OFV.Gen.Facts
namespace OFV.Props.C15
open OFV OFV.Gen.openflow13 OFV.Model

/-- every registered name carries the class, field number and width of the OpenFlow 1.3 / OVS table -/
theorem C15_table : ∀ e ∈ Gen.registry, Spec.oxx e.1 = some e.2 := by
  decide +kernel

/-- no name is registered twice -/
theorem C15_names_nodup : (Gen.registry.map (·.1)).Nodup := by
  decide +kernel

/-- every registered field is a field of the specification table and the registry covers all basic (1.3) fields -/
theorem C15_basic_complete :
    ∀ e ∈ Spec.oxmTable, e.2.1 = Spec.OXM_CLASS_OPENFLOW_BASIC → Gen.registry.lookup e.1 = some e.2 := by
  decide +kernel

/-- exactly the supported names are registered -/
theorem C15_names : (∀ n ∈ Spec.supportedNames, (Gen.registry.lookup n).isSome) ∧
    (∀ e ∈ Gen.registry, e.1 ∈ Spec.supportedNames) ∧ Gen.registry.length = Spec.supportedNames.length := by
  decide +kernel

/-- doubling the width for a masked lookup never wraps in uint8 -/
theorem C15_doubling : ∀ e ∈ Gen.registry, 2 * e.2.2.2 < 256 := by
  decide +kernel

/-- a lookup (any letter case is folded by the model's ToUpper) yields class / field / width of the table,
    width doubled and mask flag set when a mask is requested -/
theorem C15_lookup (name : String) (m : Bool) (c f l : Nat) (h : Gen.registry.lookup (toUpperASCII name) = some (c, f, l)) :
    ∃ hd, FindFieldHeaderByName name m = some hd ∧ Spec.oxx (toUpperASCII name) = some (c, f, l) ∧
      hd.Class.toNat = c ∧ hd.Field.toNat = f ∧ hd.HasMask = m ∧
      hd.Length.toNat = (if m then 2 * l else l) := by
  have hmem : (toUpperASCII name, c, f, l) ∈ Gen.registry := by
    have := List.lookup_eq_some_iff.mp h
    obtain ⟨l1, l2, heq, _⟩ := this
    rw [heq]; simp
  have hspec := C15_table _ hmem
  have hdbl := C15_doubling _ hmem
  -- bounds of class and field follow from the table
  have hb : ∀ e ∈ Gen.registry, e.2.1 < 65536 ∧ e.2.2.1 < 128 := by decide +kernel
  have hcf := hb _ hmem
  simp only at hspec hdbl hcf
  refine ⟨{ Class := UInt16.ofNat c, Field := UInt8.ofNat f, HasMask := m,
            Length := if m then UInt8.ofNat l * 2 else UInt8.ofNat l },
          by simp [FindFieldHeaderByName, h], hspec, ?_, ?_, rfl, ?_⟩
  · simp; omega
  · simp; omega
  · cases m
    · simp; omega
    · simp only [if_true]
      rw [UInt8.toNat_mul]; simp; omega

theorem C15_lookup_unknown (name : String) (m : Bool) (h : Gen.registry.lookup (toUpperASCII name) = none) :
    FindFieldHeaderByName name m = none := by
  simp [FindFieldHeaderByName, h]

/-- arithmetic form of the packed header word -/
theorem marshalHeader_toNat (c : UInt16) (f : UInt8) (m : Bool) (l : UInt8) (hf : f.toNat < 128) :
    (MatchField.MarshalHeader { Class := c, Field := f, HasMask := m, Length := l }).toNat =
      c.toNat * 65536 + f.toNat * 512 + (if m then 256 else 0) + l.toNat := by
  have hc := c.toNat_lt
  have hl := l.toNat_lt
  unfold MatchField.MarshalHeader Go.shl32
  simp only [show (16 : Nat) < 32 by omega, show (9 : Nat) < 32 by omega, if_true]
  have e16 : (UInt32.ofNat 16) = 16 := rfl
  have e9 : (UInt32.ofNat 9) = 9 := rfl
  have hcs : ((c.toUInt64.toUInt32) <<< (16 : UInt32)).toNat = c.toNat <<< 16 := by
    simp [UInt32.toNat_shiftLeft, Nat.shiftLeft_eq]; omega
  have hfs : ((f.toUInt64.toUInt32) <<< (9 : UInt32)).toNat = f.toNat <<< 9 := by
    simp [UInt32.toNat_shiftLeft, Nat.shiftLeft_eq]; omega
  have hl32 : (l.toUInt64.toUInt32).toNat = l.toNat := by simp
  rw [e16, e9]
  cases m
  · simp only [Bool.false_eq_true, if_false]
    rw [UInt32.toNat_or, UInt32.toNat_or, UInt32.toNat_or, hcs, hfs, hl32]
    have h1 : c.toNat <<< 16 ||| f.toNat <<< 9 = (c.toNat * 128 + f.toNat) <<< 9 := by
      rw [← Nat.shiftLeft_add_eq_or_of_lt (by simp [Nat.shiftLeft_eq]; omega)]
      simp [Nat.shiftLeft_eq]; omega
    rw [h1]
    have h0 : (0 : UInt32).toNat = 0 := rfl
    rw [h0, Nat.or_zero, ← Nat.shiftLeft_add_eq_or_of_lt (by omega)]
    simp [Nat.shiftLeft_eq]; omega
  · simp only [if_true]
    rw [UInt32.toNat_or, UInt32.toNat_or, UInt32.toNat_or, hcs, hfs, hl32]
    have h1 : c.toNat <<< 16 ||| f.toNat <<< 9 = (c.toNat * 128 + f.toNat) <<< 9 := by
      rw [← Nat.shiftLeft_add_eq_or_of_lt (by simp [Nat.shiftLeft_eq]; omega)]
      simp [Nat.shiftLeft_eq]; omega
    rw [h1]
    have h256 : (256 : UInt32).toNat = 256 := rfl
    rw [h256, ← Nat.shiftLeft_add_eq_or_of_lt (by omega)]
    have h2 : (c.toNat * 128 + f.toNat) <<< 9 + 256 = (c.toNat * 256 + f.toNat * 2 + 1) <<< 8 := by
      simp [Nat.shiftLeft_eq]; omega
    rw [h2, ← Nat.shiftLeft_add_eq_or_of_lt (by omega)]
    simp [Nat.shiftLeft_eq]; omega

theorem u8_and1 (b : UInt8) : (b &&& 1).toNat = b.toNat % 2 := by
  rw [UInt8.toNat_and]; exact Nat.and_two_pow_sub_one_eq_mod _ 1

theorem u8_shr1 (b : UInt8) : (b >>> 1).toNat = b.toNat / 2 := by
  simp [UInt8.toNat_shiftRight, Nat.shiftRight_eq_div_pow]

theorem u8_andff (b : UInt8) : b &&& 0xff = b := by
  apply UInt8.toNat_inj.mp
  rw [UInt8.toNat_and]
  have := b.toNat_lt
  show b.toNat &&& (2 ^ 8 - 1) = b.toNat
  rw [Nat.and_two_pow_sub_one_eq_mod]; omega

/-- pack then unpack: every header with a 7-bit field number comes back exactly -/
theorem C15_pack_unpack (c : UInt16) (f : UInt8) (m : Bool) (l : UInt8) (hf : f.toNat < 128) (rest : Bytes) :
    UnmarshalHeader (be32 (MatchField.MarshalHeader { Class := c, Field := f, HasMask := m, Length := l }) ++ rest) =
      some { Class := c, Field := f, HasMask := m, Length := l } := by
  have hN := marshalHeader_toNat c f m l hf
  have hc := c.toNat_lt
  have hl := l.toNat_lt
  generalize MatchField.MarshalHeader { Class := c, Field := f, HasMask := m, Length := l } = w at hN
  simp only [be32, List.cons_append, List.nil_append, UnmarshalHeader, Option.some.injEq, MatchField.mk.injEq, u8_andff]
  refine ⟨?_, ?_, ?_, ?_, trivial⟩
  · apply UInt16.toNat_inj.mp
    cases m <;> simp [hN] <;> omega
  · apply UInt8.toNat_inj.mp
    rw [u8_shr1]
    cases m <;> simp [hN] <;> omega
  · have h2 : (UInt8.ofNat (w.toNat / 256 % 256) &&& 1).toNat = (if m then 1 else 0) := by
      rw [u8_and1]; cases m <;> simp [hN] <;> omega
    cases m
    · simp only [Bool.false_eq_true, if_false] at h2
      simp only [decide_eq_false_iff_not]
      intro hh
      have := congrArg UInt8.toNat hh
      rw [h2] at this
      exact absurd this (by decide)
    · simp only [if_true] at h2
      simp only [decide_eq_true_eq]
      apply UInt8.toNat_inj.mp
      rw [h2]; rfl
  · apply UInt8.toNat_inj.mp
    cases m <;> simp [hN] <;> omega

/-- unpack then pack: every one of the 2^32 header words comes back exactly -/
theorem C15_unpack_pack (b0 b1 b2 b3 : UInt8) (rest : Bytes) :
    (UnmarshalHeader (b0 :: b1 :: b2 :: b3 :: rest)).map (fun h => be32 h.MarshalHeader) = some [b0, b1, b2, b3] := by
  have h0 := b0.toNat_lt
  have h1 := b1.toNat_lt
  have h2 := b2.toNat_lt
  have h3 := b3.toNat_lt
  simp only [UnmarshalHeader, Option.map_some, Option.some.injEq, u8_andff]
  have hf : (b2 >>> 1).toNat < 128 := by rw [u8_shr1]; omega
  have hN := marshalHeader_toNat (UInt16.ofNat (b0.toNat * 256 + b1.toNat)) (b2 >>> 1) (decide (b2 &&& 1 = 1)) b3 hf
  have hm : (if decide (b2 &&& 1 = 1) = true then 256 else 0) = (b2.toNat % 2) * 256 := by
    have := u8_and1 b2
    by_cases hb : b2 &&& 1 = 1
    · simp only [hb, decide_true, if_true]
      rw [hb] at this
      have : (1 : UInt8).toNat = b2.toNat % 2 := this
      have h1' : (1 : UInt8).toNat = 1 := rfl
      omega
    · simp only [hb, decide_false, Bool.false_eq_true, if_false]
      have : b2.toNat % 2 ≠ 1 := by
        intro hh
        apply hb
        apply UInt8.toNat_inj.mp
        rw [this, hh]; rfl
      omega
  rw [hm, u8_shr1] at hN
  have hcls : (UInt16.ofNat (b0.toNat * 256 + b1.toNat)).toNat = b0.toNat * 256 + b1.toNat := by
    simp; omega
  rw [hcls] at hN
  have hw : (MatchField.MarshalHeader { Class := UInt16.ofNat (b0.toNat * 256 + b1.toNat), Field := b2 >>> 1, HasMask := decide (b2 &&& 1 = 1), Length := b3 }) =
      UInt32.ofNat (b0.toNat * 16777216 + b1.toNat * 65536 + b2.toNat * 256 + b3.toNat) := by
    apply UInt32.toNat_inj.mp
    rw [hN]; simp; omega
  rw [hw]
  exact be32_rd32 b0 b1 b2 b3

/-- independence of results (static premise, regenerated): the registry map is never written after
    initialisation, and the lookup function only returns nil or the address of a fresh composite literal,
    reading the table entry field-wise -/
theorem C15_registry_never_written :
    Gen.globalWrites.all (fun w => w.2.1 ≠ "oxxFieldHeaderMap") = true := by decide

theorem C15_lookup_returns_fresh :
    Gen.lookupShape.contains "fresh" = true ∧
    Gen.lookupShape.all (fun s => s = "fresh" || s = "nil" || s.toList.take 5 = "read:".toList) = true := by decide

example : FindFieldHeaderByName "nxm_nx_ct_state" true = some { Class := 1, Field := 105, HasMask := true, Length := 8 } := by decide +kernel

end OFV.Props.C15
