/-
  C14 — concurrent use: unique transaction ids, no cross-talk, no shared mutable state.
-/
import OFV.Model.Xid
import OFV.Gen.Facts
namespace OFV.Props.C14
open OFV OFV.Model.Xid

/-- from any state: after `sched` the counter has advanced by the number of draws and the k-th draw got ctr+k -/
theorem fold_log (sched : List Nat) (s : St) :
    (sched.foldl draw s).ctr = s.ctr + UInt32.ofNat sched.length ∧
    (sched.foldl draw s).log.map (·.2) =
      s.log.map (·.2) ++ (List.range sched.length).map (fun k => s.ctr + UInt32.ofNat (k + 1)) := by
  induction sched generalizing s with
  | nil => simp
  | cons g rest ih =>
    have := ih (draw s g)
    simp only [List.foldl_cons, List.length_cons]
    constructor
    · rw [this.1]
      simp only [draw]
      apply UInt32.toNat_inj.mp
      simp [UInt32.toNat_add]; omega
    · rw [this.2]
      simp only [draw, List.map_append, List.map_cons, List.map_nil, List.append_assoc, List.range_succ_eq_map,
        List.map_cons, List.map_map]
      congr 1
      simp only [List.cons_append, List.nil_append]
      congr 1
      apply List.map_congr_left
      intro k _
      simp only [Function.comp]
      apply UInt32.toNat_inj.mp
      simp [UInt32.toNat_add]; omega

theorem run_log (sched : List Nat) :
    (run sched).log.map (·.2) = (List.range sched.length).map (fun k => 1 + UInt32.ofNat (k + 1)) := by
  have := (fold_log sched init).2
  simpa [run, init] using this

/-- C14/F1: for every number of goroutines and every interleaving of their draws, the ids issued are pairwise
    distinct as long as fewer than 2^32 ids have been drawn (until the 32-bit counter wraps) -/
theorem C14_unique (sched : List Nat) (h : sched.length < 2 ^ 32) : ((run sched).log.map (·.2)).Nodup := by
  rw [run_log sched, List.Nodup, List.pairwise_map]
  apply List.Pairwise.imp_of_mem _ (List.pairwise_lt_range (n := sched.length))
  intro a b ha hb hab heq
  simp only [List.mem_range] at ha hb
  have := congrArg UInt32.toNat heq
  simp [UInt32.toNat_add] at this
  omega

theorem snd_inj_of_nodup (l : List (Nat × UInt32)) (hnd : (l.map (·.2)).Nodup) (g1 g2 : Nat) (x : UInt32)
    (h1 : (g1, x) ∈ l) (h2 : (g2, x) ∈ l) : g1 = g2 := by
  induction l with
  | nil => simp at h1
  | cons a l ih =>
    simp only [List.map_cons, List.nodup_cons] at hnd
    rcases List.mem_cons.mp h1 with e1 | m1 <;> rcases List.mem_cons.mp h2 with e2 | m2
    · rw [← e1] at e2; exact ((Prod.mk.inj e2).1).symm
    · exfalso; apply hnd.1; rw [← e1]; exact List.mem_map.mpr ⟨(g2, x), m2, rfl⟩
    · exfalso; apply hnd.1; rw [← e2]; exact List.mem_map.mpr ⟨(g1, x), m1, rfl⟩
    · exact ih hnd.2 m1 m2

/-- no goroutine ever receives an id that another one received -/
theorem C14_no_shared_id (sched : List Nat) (h : sched.length < 2 ^ 32) (g1 g2 : Nat) (x : UInt32)
    (h1 : (g1, x) ∈ (run sched).log) (h2 : (g2, x) ∈ (run sched).log) : g1 = g2 :=
  snd_inj_of_nodup _ (C14_unique sched h) g1 g2 x h1 h2

/-- why the atomic add matters: with a separate load and store two goroutines can receive the same id -/
theorem C14_nonatomic_duplicates :
    ¬ ((NonAtomic.run [.load 0, .load 1, .store 0, .store 1]).log.map (·.2)).Nodup := by decide

/-! ### no cross-talk: an abstract commutation argument

  A thread is a list of steps; a step reads the read-only globals `G` and reads/writes the thread's OWN store `S`
  (the values it built: every encoder/decoder allocates its own buffers).  Under ANY interleaving each thread ends
  with exactly the store it has when run alone.  The premise "no step writes shared state" is instantiated below from
  the regenerated facts. -/

structure Sys (G S : Type) where
  globals : G
  stores : List S
  progs : List (List (G → S → S))   -- remaining steps of each thread

def Sys.stepThread {G S : Type} (s : Sys G S) (i : Nat) : Sys G S :=
  match s.progs[i]?, s.stores[i]? with
  | some (f :: rest), some st =>
    { s with stores := s.stores.set i (f s.globals st), progs := s.progs.set i rest }
  | _, _ => s

def Sys.run {G S : Type} (s : Sys G S) (sched : List Nat) : Sys G S := sched.foldl Sys.stepThread s

/-- thread i run alone from its initial store -/
def alone {G S : Type} (g : G) (steps : List (G → S → S)) (st : S) : S := steps.foldl (fun s f => f g s) st

/-- invariant: finishing thread i alone from the current state gives the same store as running it alone from the
    start — whatever the other threads did in between -/
theorem noninterference_step {G S : Type} (s : Sys G S) (j i : Nat) (hl : s.stores.length = s.progs.length) :
    ((s.stepThread j).stores.length = (s.stepThread j).progs.length) ∧
    (s.stepThread j).globals = s.globals ∧
    (∀ st ps, s.stores[i]? = some st → s.progs[i]? = some ps →
      ∃ st' ps', (s.stepThread j).stores[i]? = some st' ∧ (s.stepThread j).progs[i]? = some ps' ∧
        alone s.globals ps' st' = alone s.globals ps st) := by
  unfold Sys.stepThread
  split
  · next f rest st0 hp hs =>
    refine ⟨by simp [hl], rfl, ?_⟩
    intro st ps hst hps
    by_cases hij : j = i
    · subst hij
      rw [hs] at hst; rw [hp] at hps
      cases hst; cases hps
      have hj1 : j < s.stores.length := by
        have := List.getElem?_eq_some_iff.mp hs; exact this.1
      have hj2 : j < s.progs.length := by omega
      exact ⟨f s.globals st0, rest, by simp [hj1], by simp [hj2], by simp [alone]⟩
    · exact ⟨st, ps, by simp [List.getElem?_set, hij, hst], by simp [List.getElem?_set, hij, hps], rfl⟩
  · exact ⟨hl, rfl, fun st ps hst hps => ⟨st, ps, hst, hps, rfl⟩⟩

/-- C14/F2: under EVERY schedule, thread i's eventual result equals its result when run alone -/
theorem C14_noninterference {G S : Type} (s0 : Sys G S) (hl : s0.stores.length = s0.progs.length) (sched : List Nat) (i : Nat)
    (st : S) (ps : List (G → S → S)) (hst : s0.stores[i]? = some st) (hps : s0.progs[i]? = some ps) :
    ∃ st' ps', (s0.run sched).stores[i]? = some st' ∧ (s0.run sched).progs[i]? = some ps' ∧
      alone s0.globals ps' st' = alone s0.globals ps st := by
  induction sched generalizing s0 st ps with
  | nil => exact ⟨st, ps, hst, hps, rfl⟩
  | cons j sched ih =>
    obtain ⟨hl', hg, hstep⟩ := noninterference_step s0 j i hl
    obtain ⟨st1, ps1, h1, h2, h3⟩ := hstep st ps hst hps
    obtain ⟨st2, ps2, h4, h5, h6⟩ := ih (s0.stepThread j) hl' st1 ps1 h1 h2
    refine ⟨st2, ps2, by simpa [Sys.run] using h4, by simpa [Sys.run] using h5, ?_⟩
    rw [hg] at h6
    exact h6.trans h3

/-- when thread i has finished (no steps left) its store is exactly the sequential result -/
theorem C14_same_as_sequential {G S : Type} (s0 : Sys G S) (hl : s0.stores.length = s0.progs.length) (sched : List Nat) (i : Nat)
    (st : S) (ps : List (G → S → S)) (hst : s0.stores[i]? = some st) (hps : s0.progs[i]? = some ps)
    (hdone : (s0.run sched).progs[i]? = some []) :
    (s0.run sched).stores[i]? = some (alone s0.globals ps st) := by
  obtain ⟨st', ps', h1, h2, h3⟩ := C14_noninterference s0 hl sched i st ps hst hps
  rw [hdone] at h2
  cases h2
  have h4 : st' = alone s0.globals ps st := by simpa [alone] using h3
  rw [← h4]; exact h1

/-! ### the premise, regenerated from the source on every run -/

/-- the five packages have exactly these package-level variables … -/
theorem C14_globals : Gen.globalVars =
    [("common", "messageXid"), ("openflow13", "NewOfp13Header"), ("openflow13", "oxxFieldHeaderMap"),
     ("protocol", "DHCPOptionTypeStrings"), ("protocol", "dhcpMagic")] := by decide

/-- … and EVERY write / address-of / delete on any of them outside its declaration is the address of the xid counter
    handed to atomic.AddUint32 (in whichever function that call sits; there is at least one such site) -/
theorem C14_only_atomic_write :
    Gen.globalWrites ≠ [] ∧
    Gen.globalWrites.all (fun w => w.1 = "common" && w.2.1 = "messageXid" && w.2.2.2 = "addr:atomic.AddUint32") = true := by
  decide

end OFV.Props.C14
