/-
  C11 — outbound stream: every submitted message is written once, whole, in order.
-/
import OFV.Model.Stream.OutSys
import OFV.Gen.Facts
namespace OFV.Props.C11
open OFV OFV.Model.OutSys

/-- per-producer sequence invariant: (already written ++ held by the writer ++ queued in the channel ++ not yet
    submitted) is exactly what the producer submits, in its order -/
def Inv (subm : List (List Bytes)) (s : St) : Prop :=
  s.pending.length = subm.length ∧ ∀ p, (hp : p < subm.length) → s.sent p ++ s.pending[p]?.getD [] = subm[p]

theorem filter_append_single (l : List (Prod × Bytes)) (x : Prod × Bytes) (p : Prod) :
    ((l ++ [x]).filter (fun y => y.1 = p)).map (·.2) =
      (l.filter (fun y => y.1 = p)).map (·.2) ++ (if x.1 = p then [x.2] else []) := by
  by_cases h : x.1 = p <;> simp [List.filter_append, h]

theorem step_inv (cap : Nat) (subm : List (List Bytes)) (s s' : St) (h : Step cap s s') (hi : Inv subm s) :
    Inv subm s' := by
  obtain ⟨hl, hs⟩ := hi
  cases h with
  | submit p m r hp hpm hc =>
    refine ⟨by simp [hl], ?_⟩
    intro q hq
    have hq0 := hs q hq
    by_cases hqp : q = p
    · subst hqp
      have h1 : s.pending[q]?.getD [] = m :: r := by simp [hp, hpm]
      rw [h1] at hq0
      simp only [St.sent] at hq0 ⊢
      have : (s.wire ++ s.writer.toList ++ (s.chan ++ [(q, m)])) = (s.wire ++ s.writer.toList ++ s.chan) ++ [(q, m)] := by
        simp [List.append_assoc]
      rw [this, filter_append_single]
      simp only [if_true, List.append_assoc]
      have h2 : (s.pending.set q r)[q]?.getD [] = r := by simp [hp]
      rw [h2]
      simpa using hq0
    · have h1 : (s.pending.set p r)[q]?.getD [] = s.pending[q]?.getD [] := by
        simp [List.getElem?_set, Ne.symm hqp]
      simp only [St.sent] at hq0 ⊢
      have : (s.wire ++ s.writer.toList ++ (s.chan ++ [(p, m)])) = (s.wire ++ s.writer.toList ++ s.chan) ++ [(p, m)] := by
        simp [List.append_assoc]
      rw [this, filter_append_single, h1]
      have : ¬ ((p, m) : Prod × Bytes).1 = q := fun e => hqp e.symm
      simp only [this, if_false, List.append_nil]
      exact hq0
  | recv x r hc hw =>
    refine ⟨hl, ?_⟩
    intro q hq
    have hq0 := hs q hq
    simp only [St.sent, hc, hw, Option.toList] at hq0 ⊢
    simpa using hq0
  | write x hw =>
    refine ⟨hl, ?_⟩
    intro q hq
    have hq0 := hs q hq
    simp only [St.sent, hw, Option.toList] at hq0 ⊢
    simpa [List.append_assoc] using hq0

/-- C11 for every number of producers, every message mix, every schedule, any channel capacity -/
theorem C11_inv (cap : Nat) (subm : List (List Bytes)) (s : St) (h : Reach cap (initSt subm) s) : Inv subm s := by
  induction h with
  | refl =>
    refine ⟨rfl, ?_⟩
    intro p hp
    simp [St.sent, initSt, hp]
  | step s s' _ hs ih => exact step_inv cap subm s s' hs ih

/-- what is on the wire for producer p is a prefix of what it submitted, in its order: nothing reordered,
    nothing duplicated, nothing invented -/
theorem C11_prefix (cap : Nat) (subm : List (List Bytes)) (s : St) (h : Reach cap (initSt subm) s)
    (p : Prod) (hp : p < subm.length) :
    ((s.wire.filter (fun x => x.1 = p)).map (·.2)) <+: subm[p] := by
  have := (C11_inv cap subm s h).2 p hp
  simp only [St.sent, List.filter_append, List.map_append, List.append_assoc] at this
  exact ⟨_, this⟩

/-- when nothing is in flight and producer p has submitted everything, each of its messages is on the wire
    exactly once and in order -/
theorem C11_once (cap : Nat) (subm : List (List Bytes)) (s : St) (h : Reach cap (initSt subm) s)
    (p : Prod) (hp : p < subm.length) (hq : s.writer = none ∧ s.chan = [] ∧ s.pending[p]?.getD [] = []) :
    (s.wire.filter (fun x => x.1 = p)).map (·.2) = subm[p] := by
  have := (C11_inv cap subm s h).2 p hp
  simpa [St.sent, hq.1, hq.2.1, hq.2.2] using this

/-- the byte stream is the concatenation of whole encodings: frames are contiguous, never interleaved -/
theorem C11_whole (s : St) : s.wireBytes = (s.wire.map (·.2)).flatten := rfl

/-- the premises of the model, regenerated from util/stream.go: exactly one call of conn.Write in package util, inside
    MessageStream.outbound; exactly one `go m.outbound()`; m.Outbound is received from only in outbound's `range`
    (compiled as a receive that the AST shows as a RangeStmt, hence no "recv" site) and in the post-shutdown drain -/
theorem C11_single_writer :
    (Gen.utilSites.filter (fun x => x.2.1 = "connwrite")) = [("MessageStream.outbound", "connwrite", "m.conn")] ∧
    (Gen.utilSites.filter (fun x => x.2.1 = "go" ∧ x.2.2 = "m.outbound")).length = 1 ∧
    -- besides outbound's own `range`, the queue is received from at exactly one site (the post-shutdown drain,
    -- in whichever function it lives)
    (Gen.utilSites.filter (fun x => x.2.1 = "recv" ∧ x.2.2 = "m.Outbound")).length = 1 ∧
    (Gen.utilSites.filter (fun x => x.2.1 = "recv" ∧ x.2.2 = "m.Outbound" ∧ x.1 = "MessageStream.outbound")) = [] := by
  decide

/-- "a message is represented by its encoding": the bytes MarshalBinary returned stay what they were while the writer
    holds them. In the model this is value semantics; in the source it needs that the encoders share no storage across
    calls: the codec packages have NO package-level variable an encoder could keep a buffer (or a pool of buffers) in —
    the only package-level variables are the xid counter, the 1.3 header generator, the match-field registry and two
    DHCP tables (regenerated on every run; the C14 facts theorem pins every write to them). -/
theorem C11_no_shared_encoder_storage :
    Gen.globalVars.all (fun v => v ∈ [("common", "messageXid"), ("openflow13", "NewOfp13Header"),
      ("openflow13", "oxxFieldHeaderMap"), ("protocol", "DHCPOptionTypeStrings"), ("protocol", "dhcpMagic")]) = true := by
  decide

end OFV.Props.C11
