/-
  C17b — the generic match-field builder and the dedicated constructors produce the same bytes.

  C17 (OFV/Props/C17.lean) describes the FIELD VALUE the generic builder `NewMatchField` returns.  This file follows that
  value through the model's match-field encoder `MatchField.marshalM` (= Go `(*MatchField).MarshalBinary`) and compares the
  bytes with those of the fields built by the dedicated constructors, which hold their payloads in a different
  representation (`Uint32Message` instead of `ByteArrayField`):

    * `C17b_window_encoding` / `C17b_plain_encoding`: for EVERY registered field (class c, field f, width l bytes) the
      encoding of the generic builder's result is  class(2) ‖ f·2+hasmask ‖ length ‖ value(l) [‖ mask(l)],  with
      length = 2·l when masked; `Len()` agrees; the driver's `marshalField` (used by the differential handlers `nmf`
      and `regcmp`) computes exactly these bytes.
    * `C17b_header_word_masked` / `_plain`: the first four bytes are the big-endian header word of
      `MatchField.MarshalHeader`, which is  class<<16 | field<<9 | hasmask<<8 | length.
    * `C17b_reg_window` (main statement): for every register i < 16, window 1 ≤ w, s + w ≤ 32 and value v < 2^w
         NewMatchField("NXM_NX_REG<i>", v, s, w)   and   NewRegMatchField(i, v<<s, NewNXRange(s, s+w-1))
      encode to the same bytes.   `C17b_reg_plain`: no window, v < 2^32: same bytes as NewRegMatchField(i, v, nil).
    * the same for the other 32-bit fields that have a dedicated constructor: NXM_NX_CT_MARK (masked and plain),
      NXM_NX_CT_STATE, NXM_NX_CONJ_ID.

  The dedicated constructors are the entries of the model's function table `Model.funcs` (the table the harness driver
  calls), reached through `callFn`; both sides are encoded by the same function `encoded` (build, then `MatchField.marshalM`).
  The mask of the register constructor is the regenerated `NXRange.ToUint32Mask` (lemma `range_mask`, all 528 ranges by
  kernel evaluation, as in C16).  Helper lemmas: OFV/Lemmas/RegEnc.lean.
  No in-range input was found on which the two sides differ: the equalities hold on the whole stated domain.
-/
import OFV.Lemmas.RegEnc
import OFV.Props.C17
import OFV.Driver.OpsC17
namespace OFV.Props.C17b
open OFV OFV.Go OFV.Model OFV.Model.MFG OFV.Lemmas.RegEnc

/-- `regName i` (OFV/Lemmas/RegEnc.lean) is the name the register constructor looks up, `fmt.Sprintf("NXM_NX_REG%d", i)`;
    the differential handler `regcmp` (OFV/Driver/OpsC17.lean) builds the same names -/
theorem regName_driver : ∀ i : Fin 16, s!"NXM_NX_REG{i.val}" = regName i.val := by decide +kernel

/-! ### every registered field: the bytes of the generic builder's result -/

/-- Window case, every registered field (class `c`, field number `f`, `l` bytes wide): the generic builder succeeds and its
    result encodes to  class ‖ (f·2+1) ‖ 2·l ‖ v·2^s in `l` bytes ‖ the window mask in `l` bytes;  `Len()` is 4 + 2·l;
    the driver's `marshalField` yields the same bytes; the encoder leaves the field unmodified. -/
theorem C17b_window_encoding (name : String) (c f l s w v : Nat)
    (hreg : Gen.registry.lookup (toUpperASCII name) = some (c, f, l))
    (hw : 0 < w) (hwin : s + w ≤ 8 * l) (hv : v < 2 ^ w) :
    ∃ fld, NewMatchField name (v : Int) [(s : Int), (w : Int)] = .ok fld ∧
      MatchField.marshalM fld =
        .ok (be16 (n16 c) ++ [n8 (f * 2 + 1), n8 (2 * l)] ++ beN l (v * 2 ^ s) ++ beN l ((2 ^ w - 1) * 2 ^ s), fld) ∧
      MatchField.lenM fld = .ok (UInt16.ofNat (4 + l + l), fld) ∧
      Driver.C17.marshalField fld =
        some (be16 (n16 c) ++ [n8 (f * 2 + 1), n8 (2 * l)] ++ beN l (v * 2 ^ s) ++ beN l ((2 ^ w - 1) * 2 ^ s)) := by
  obtain ⟨hc, hf, hl1, hl⟩ := registry_bounds _ c f l hreg
  have hfind := find_header name c f l true hreg
  simp only [if_true] at hfind
  have hlen : (UInt8.ofNat (2 * l)).toNat = 2 * l := by simp [UInt8.toNat_ofNat']; omega
  have hcn : (UInt16.ofNat c).toNat = c := by simp [UInt16.toNat_ofNat']; omega
  have hfn : (UInt8.ofNat f).toNat = f := by simp [UInt8.toNat_ofNat']; omega
  have hwin' := (C17.C17_window name _ l s w v hfind hlen hwin hw hv).1
  simp only at hwin'
  have hfb := (fld_byte ⟨f, hf⟩).2
  simp only at hfb
  have henc := enc_bytes_masked (UInt16.ofNat c) (UInt8.ofNat f) (UInt8.ofNat (2 * l)) l
    (beN l (v * 2 ^ s)) (beN l ((2 ^ w - 1) * 2 ^ s)) (by omega) (by omega) (beN_length _ _) (beN_length _ _)
  have hlenM := len_bytes_masked (UInt16.ofNat c) (UInt8.ofNat f) (UInt8.ofNat (2 * l)) l
    (beN l (v * 2 ^ s)) (beN l ((2 ^ w - 1) * 2 ^ s)) (by omega) (by omega) (beN_length _ _) (beN_length _ _)
  rw [hfb] at henc
  refine ⟨_, hwin', henc, hlenM, ?_⟩
  simp only [Driver.C17.marshalField, V.u16, V.u8, V.bool, if_true, hcn, hfn, hlen]

/-- No window, every registered field: the value right-aligned in `l` bytes after the 4-byte header (length byte = l). -/
theorem C17b_plain_encoding (name : String) (c f l v : Nat)
    (hreg : Gen.registry.lookup (toUpperASCII name) = some (c, f, l)) (hv : v < 2 ^ (8 * l)) :
    ∃ fld, NewMatchField name (v : Int) [] = .ok fld ∧
      MatchField.marshalM fld = .ok (be16 (n16 c) ++ [n8 (f * 2), n8 l] ++ beN l v, fld) ∧
      MatchField.lenM fld = .ok (UInt16.ofNat (4 + l), fld) ∧
      Driver.C17.marshalField fld = some (be16 (n16 c) ++ [n8 (f * 2), n8 l] ++ beN l v) := by
  obtain ⟨hc, hf, hl1, hl⟩ := registry_bounds _ c f l hreg
  have hfind := find_header name c f l false hreg
  simp only [Bool.false_eq_true, if_false] at hfind
  have hlen : (UInt8.ofNat l).toNat = l := by simp [UInt8.toNat_ofNat']; omega
  have hcn : (UInt16.ofNat c).toNat = c := by simp [UInt16.toNat_ofNat']; omega
  have hfn : (UInt8.ofNat f).toNat = f := by simp [UInt8.toNat_ofNat']; omega
  have hpl := C17.C17_nomask name _ v hfind (by simpa [hlen] using hv)
  simp only [hlen] at hpl
  have hfb := (fld_byte ⟨f, hf⟩).1
  simp only at hfb
  have henc := enc_bytes_plain (UInt16.ofNat c) (UInt8.ofNat f) (UInt8.ofNat l) l (beN l v) .nil
    (by omega) (by omega) (beN_length _ _)
  have hlenM := len_bytes_plain (UInt16.ofNat c) (UInt8.ofNat f) (UInt8.ofNat l) l (beN l v) .nil
    (by omega) (by omega) (beN_length _ _)
  rw [hfb] at henc
  refine ⟨_, hpl, henc, hlenM, ?_⟩
  simp only [Driver.C17.marshalField, V.u16, V.u8, V.bool, Bool.false_eq_true, if_false, hcn, hfn, hlen, Nat.add_zero,
    List.append_nil]

/-! ### the header word -/

/-- Window case: the first four bytes of the encoding are the big-endian header word `MarshalHeader()` of the built field,
    and that word is  class<<16 | field<<9 | 1<<8 | 2·l  (written as a sum: the four parts do not overlap). -/
theorem C17b_header_word_masked (name : String) (c f l s w v : Nat)
    (hreg : Gen.registry.lookup (toUpperASCII name) = some (c, f, l))
    (hw : 0 < w) (hwin : s + w ≤ 8 * l) (hv : v < 2 ^ w) :
    ∃ fld bs, NewMatchField name (v : Int) [(s : Int), (w : Int)] = .ok fld ∧ MatchField.marshalM fld = .ok (bs, fld) ∧
      bs.take 4 = be32 (MatchField.headerWord fld) ∧
      (MatchField.headerWord fld).toNat = c * 65536 + f * 512 + 256 + 2 * l := by
  obtain ⟨hc, hf, hl1, hl⟩ := registry_bounds _ c f l hreg
  obtain ⟨fld, hb, hm, _, _⟩ := C17b_window_encoding name c f l s w v hreg hw hwin hv
  have hfind := find_header name c f l true hreg
  simp only [if_true] at hfind
  have hlen : (UInt8.ofNat (2 * l)).toNat = 2 * l := by simp [UInt8.toNat_ofNat']; omega
  have hcn : (UInt16.ofNat c).toNat = c := by simp [UInt16.toNat_ofNat']; omega
  have hfn : (UInt8.ofNat f).toNat = f := by simp [UInt8.toNat_ofNat']; omega
  have hwin' := (C17.C17_window name _ l s w v hfind hlen hwin hw hv).1
  simp only at hwin'
  rw [hwin'] at hb
  cases hb
  refine ⟨_, _, hwin', hm, ?_, ?_⟩
  · rw [headerWord_built, hdrOf, ← header_bytes _ _ _ (by omega) true 0]
    simp only [if_true, (fld_byte ⟨f, hf⟩).2]
    rfl
  · rw [headerWord_built, hdrOf, word_toNat _ _ _ (by omega) true 0, hcn, hfn, hlen]
    rfl

/-- No window: the first four bytes are the header word  class<<16 | field<<9 | 0<<8 | l. -/
theorem C17b_header_word_plain (name : String) (c f l v : Nat)
    (hreg : Gen.registry.lookup (toUpperASCII name) = some (c, f, l)) (hv : v < 2 ^ (8 * l)) :
    ∃ fld bs, NewMatchField name (v : Int) [] = .ok fld ∧ MatchField.marshalM fld = .ok (bs, fld) ∧
      bs.take 4 = be32 (MatchField.headerWord fld) ∧
      (MatchField.headerWord fld).toNat = c * 65536 + f * 512 + l := by
  obtain ⟨hc, hf, hl1, hl⟩ := registry_bounds _ c f l hreg
  obtain ⟨fld, hb, hm, _, _⟩ := C17b_plain_encoding name c f l v hreg hv
  have hfind := find_header name c f l false hreg
  simp only [Bool.false_eq_true, if_false] at hfind
  have hlen : (UInt8.ofNat l).toNat = l := by simp [UInt8.toNat_ofNat']; omega
  have hcn : (UInt16.ofNat c).toNat = c := by simp [UInt16.toNat_ofNat']; omega
  have hfn : (UInt8.ofNat f).toNat = f := by simp [UInt8.toNat_ofNat']; omega
  have hpl := C17.C17_nomask name _ v hfind (by simpa [hlen] using hv)
  simp only [hlen] at hpl
  rw [hpl] at hb
  cases hb
  refine ⟨_, _, hpl, hm, ?_, ?_⟩
  · rw [headerWord_built, hdrOf, ← header_bytes _ _ _ (by omega) false 0]
    simp only [Bool.false_eq_true, if_false, (fld_byte ⟨f, hf⟩).1]
    rfl
  · rw [headerWord_built, hdrOf, word_toNat _ _ _ (by omega) false 0, hcn, hfn, hlen]
    simp only [Bool.false_eq_true, if_false, Nat.add_zero]

/-! ### 32-bit registers: generic builder = dedicated constructor -/

theorem reg_registered_aux : ∀ i : Fin 16,
    (Gen.registry.lookup (toUpperASCII ("NXM_NX_REG" ++ toString i.val)) == some (1, i.val, 4)) = true := by
  decide +kernel

/-- the sixteen registers are registered with class 1 (NXM_1), field number = index, 4 bytes -/
theorem reg_registered (i : Fin 16) : Gen.registry.lookup (toUpperASCII (regName i.val)) = some (1, i.val, 4) :=
  eq_of_beq (reg_registered_aux i)

/-- MAIN STATEMENT.  Register i < 16, window (offset s, width w) inside the 32 bits, value v < 2^w:
    the field built by the generic builder  NewMatchField("NXM_NX_REG<i>", v, s, w)  and the field built by the dedicated
    constructor  NewRegMatchField(i, v<<s, NewNXRange(s, s+w-1))  (both constructors taken from the model's function table)
    encode to the same bytes; and these bytes are  00 01 ‖ i·2+1 ‖ 08 ‖ v<<s (4 bytes) ‖ bits s..s+w-1 (4 bytes). -/
theorem C17b_reg_window (i s w v : Nat) (hi : i < 16) (hw : 1 ≤ w) (hsw : s + w ≤ 32) (hv : v < 2 ^ w) :
    encoded (NewMatchField (regName i) (v : Int) [(s : Int), (w : Int)]) =
      encoded (callFn "NewNXRange" [.num s, .num (s + w - 1)] >>= fun r =>
        callFn "NewRegMatchField" [.num i, .num (v <<< s), r]) ∧
    encoded (NewMatchField (regName i) (v : Int) [(s : Int), (w : Int)]) =
      .ok (be16 1 ++ [n8 (i * 2 + 1), 8] ++ be32 (UInt32.ofNat (v <<< s)) ++ be32 (Spec.bits s (s + w - 1))) := by
  obtain ⟨fld, hb, hm, _, _⟩ := C17b_window_encoding (regName i) 1 i 4 s w v (reg_registered ⟨i, hi⟩) (by omega) (by omega) hv
  have hL := encoded_ok _ _ _ _ hb hm
  have hmask := range_mask ⟨s, by omega⟩ ⟨s + w - 1, by omega⟩ (by simp only [Fin.le_def]; omega)
  simp only at hmask
  have hbits : Spec.bits s (s + w - 1) = UInt32.ofNat ((2 ^ w - 1) * 2 ^ s) := by
    unfold Spec.bits
    have : s + w - 1 - s + 1 = w := by omega
    rw [this]
  have hR : encoded (callFn "NewNXRange" [.num s, .num (s + w - 1)] >>= fun r =>
        callFn "NewRegMatchField" [.num i, .num (v <<< s), r]) =
      .ok (be16 1 ++ [shl8 (UInt8.ofNat i) 1 ||| 1, 8] ++ be32 (n32 (v <<< s)) ++ be32 (Spec.bits s (s + w - 1))) := by
    rw [call_range s (s + w - 1) (by omega) (by omega), Res.bind_ok,
      call_reg_masked i (v <<< s) hi (rangeV s (s + w - 1)) (by simp [rangeV]), hmask]
    exact encoded_ok _ _ _ _ rfl (enc_u32_masked 1 (UInt8.ofNat i) 8 _ _ (by decide))
  have hbytes : be16 (n16 1) ++ [n8 (i * 2 + 1), n8 (2 * 4)] ++ beN 4 (v * 2 ^ s) ++ beN 4 ((2 ^ w - 1) * 2 ^ s) =
      be16 1 ++ [n8 (i * 2 + 1), 8] ++ be32 (UInt32.ofNat (v <<< s)) ++ be32 (Spec.bits s (s + w - 1)) := by
    rw [beN_four, beN_four, hbits, Nat.shiftLeft_eq]
    rfl
  rw [hL, hR, hbytes, (fld_byte ⟨i, by omega⟩).2]
  exact ⟨rfl, rfl⟩

/-- Register i < 16 without window, v < 2^32: the generic builder and  NewRegMatchField(i, v, nil)  encode to the same
    bytes  00 01 ‖ i·2 ‖ 04 ‖ v (4 bytes). -/
theorem C17b_reg_plain (i v : Nat) (hi : i < 16) (hv : v < 2 ^ 32) :
    encoded (NewMatchField (regName i) (v : Int) []) = encoded (callFn "NewRegMatchField" [.num i, .num v, .nil]) ∧
    encoded (NewMatchField (regName i) (v : Int) []) = .ok (be16 1 ++ [n8 (i * 2), 4] ++ be32 (UInt32.ofNat v)) := by
  obtain ⟨fld, hb, hm, _, _⟩ := C17b_plain_encoding (regName i) 1 i 4 v (reg_registered ⟨i, hi⟩) (by simpa using hv)
  have hL := encoded_ok _ _ _ _ hb hm
  have hR : encoded (callFn "NewRegMatchField" [.num i, .num v, .nil]) =
      .ok (be16 1 ++ [shl8 (UInt8.ofNat i) 1, 4] ++ be32 (n32 v)) := by
    rw [call_reg_plain i v hi]
    exact encoded_ok _ _ _ _ rfl (enc_u32_plain 1 (UInt8.ofNat i) 4 _ .nil (by decide))
  rw [hL, hR, beN_four, (fld_byte ⟨i, by omega⟩).1]
  exact ⟨rfl, rfl⟩

/-- The same statement in the form the differential handler `regcmp` observes it: the bytes the driver computes from the
    generic builder's result with its own `marshalField` (and prints after "same ") are the bytes of the field built by the
    dedicated register constructor. -/
theorem C17b_reg_window_driver (i s w v : Nat) (hi : i < 16) (hw : 1 ≤ w) (hsw : s + w ≤ 32) (hv : v < 2 ^ w) :
    ∃ fld bs, NewMatchField (regName i) (v : Int) [(s : Int), (w : Int)] = .ok fld ∧
      Driver.C17.marshalField fld = some bs ∧
      encoded (callFn "NewNXRange" [.num s, .num (s + w - 1)] >>= fun r =>
        callFn "NewRegMatchField" [.num i, .num (v <<< s), r]) = .ok bs := by
  obtain ⟨fld, hb, hm, _, hd⟩ := C17b_window_encoding (regName i) 1 i 4 s w v (reg_registered ⟨i, hi⟩) (by omega) (by omega) hv
  refine ⟨fld, _, hb, hd, ?_⟩
  rw [← (C17b_reg_window i s w v hi hw hsw hv).1]
  exact encoded_ok _ _ _ _ hb hm

/-! ### the other 32-bit fields with a dedicated constructor -/

theorem ct_registered :
    Gen.registry.lookup (toUpperASCII "NXM_NX_CT_MARK") = some (1, 107, 4) ∧
    Gen.registry.lookup (toUpperASCII "NXM_NX_CT_STATE") = some (1, 105, 4) ∧
    Gen.registry.lookup (toUpperASCII "NXM_NX_CONJ_ID") = some (1, 37, 4) := by
  refine ⟨eq_of_beq ?_, eq_of_beq ?_, eq_of_beq ?_⟩ <;> decide +kernel

/-- any registered 4-byte field, window case: the bytes of the generic builder's result with the payloads written as
    32-bit words -/
theorem window_bytes_u32 (name : String) (c f s w v : Nat)
    (hreg : Gen.registry.lookup (toUpperASCII name) = some (c, f, 4))
    (hw : 1 ≤ w) (hsw : s + w ≤ 32) (hv : v < 2 ^ w) :
    encoded (NewMatchField name (v : Int) [(s : Int), (w : Int)]) =
      .ok (be16 (n16 c) ++ [n8 (f * 2 + 1), 8] ++ be32 (n32 (v <<< s)) ++ be32 (n32 ((2 ^ w - 1) <<< s))) := by
  obtain ⟨fld, hb, hm, _, _⟩ := C17b_window_encoding name c f 4 s w v hreg (by omega) (by omega) hv
  rw [encoded_ok _ _ _ _ hb hm, beN_four, beN_four, Nat.shiftLeft_eq, Nat.shiftLeft_eq]
  rfl

/-- any registered 4-byte field, no window -/
theorem plain_bytes_u32 (name : String) (c f v : Nat)
    (hreg : Gen.registry.lookup (toUpperASCII name) = some (c, f, 4)) (hv : v < 2 ^ 32) :
    encoded (NewMatchField name (v : Int) []) = .ok (be16 (n16 c) ++ [n8 (f * 2), 4] ++ be32 (n32 v)) := by
  obtain ⟨fld, hb, hm, _, _⟩ := C17b_plain_encoding name c f 4 v hreg (by simpa using hv)
  rw [encoded_ok _ _ _ _ hb hm, beN_four]
  rfl

/-- connection-tracking mark with a window: generic builder = NewCTMarkMatchField(v<<s, &mask) with mask = bits s..s+w-1 -/
theorem C17b_ctmark_window (s w v : Nat) (hw : 1 ≤ w) (hsw : s + w ≤ 32) (hv : v < 2 ^ w) :
    encoded (NewMatchField "NXM_NX_CT_MARK" (v : Int) [(s : Int), (w : Int)]) =
      encoded (callFn "NewCTMarkMatchField" [.num (v <<< s), .num ((2 ^ w - 1) <<< s)]) := by
  rw [window_bytes_u32 _ _ _ s w v ct_registered.1 hw hsw hv, call_ctMark_masked]
  exact (encoded_ok _ _ _ _ rfl (enc_u32_masked 1 107 8 _ _ (by decide))).symm

/-- connection-tracking mark without mask: generic builder = NewCTMarkMatchField(v, nil) -/
theorem C17b_ctmark_plain (v : Nat) (hv : v < 2 ^ 32) :
    encoded (NewMatchField "NXM_NX_CT_MARK" (v : Int) []) = encoded (callFn "NewCTMarkMatchField" [.num v, .nil]) := by
  rw [plain_bytes_u32 _ _ _ v ct_registered.1 hv, call_ctMark_plain]
  exact (encoded_ok _ _ _ _ rfl (enc_u32_plain 1 107 4 _ .nil (by decide))).symm

/-- connection-tracking state (always masked): generic builder = NewCTStateMatchField(&CTStates{data: v<<s, mask: bits}) -/
theorem C17b_ctstate_window (s w v : Nat) (hw : 1 ≤ w) (hsw : s + w ≤ 32) (hv : v < 2 ^ w) :
    encoded (NewMatchField "NXM_NX_CT_STATE" (v : Int) [(s : Int), (w : Int)]) =
      encoded (callFn "NewCTStateMatchField" [.obj "CTStates" [.num (v <<< s), .num ((2 ^ w - 1) <<< s)]]) := by
  rw [window_bytes_u32 _ _ _ s w v ct_registered.2.1 hw hsw hv, call_ctState]
  exact (encoded_ok _ _ _ _ rfl (enc_u32_masked 1 105 8 _ _ (by decide))).symm

/-- conjunction id (never masked): generic builder = NewConjIDMatchField(v) -/
theorem C17b_conjid_plain (v : Nat) (hv : v < 2 ^ 32) :
    encoded (NewMatchField "NXM_NX_CONJ_ID" (v : Int) []) = encoded (callFn "NewConjIDMatchField" [.num v]) := by
  rw [plain_bytes_u32 _ _ _ v ct_registered.2.2 hv, call_conjID]
  exact (encoded_ok _ _ _ _ rfl (enc_u32_plain 1 37 4 _ .nil (by decide))).symm

/-! ### concrete values -/

-- register 3, window (4, 8), value 0xab: both sides evaluated by the kernel, and through the theorem
example : encoded (NewMatchField "NXM_NX_REG3" 171 [4, 8]) =
    .ok [0, 1, 7, 8, 0, 0, 0x0a, 0xb0, 0, 0, 0x0f, 0xf0] := by decide +kernel
example : encoded (callFn "NewNXRange" [.num 4, .num 11] >>= fun r =>
      callFn "NewRegMatchField" [.num 3, .num (171 <<< 4), r]) =
    .ok [0, 1, 7, 8, 0, 0, 0x0a, 0xb0, 0, 0, 0x0f, 0xf0] := by decide +kernel
example : encoded (NewMatchField (regName 3) 171 [4, 8]) =
    encoded (callFn "NewNXRange" [.num 4, .num 11] >>= fun r => callFn "NewRegMatchField" [.num 3, .num (171 <<< 4), r]) :=
  (C17b_reg_window 3 4 8 171 (by omega) (by omega) (by omega) (by omega)).1
-- the whole register: window (0, 32), value 0xdeadbeef; and no window
example : encoded (NewMatchField "NXM_NX_REG15" 3735928559 [0, 32]) =
    .ok [0, 1, 31, 8, 0xde, 0xad, 0xbe, 0xef, 0xff, 0xff, 0xff, 0xff] := by decide +kernel
example : encoded (NewMatchField "NXM_NX_REG15" 3735928559 []) = .ok [0, 1, 30, 4, 0xde, 0xad, 0xbe, 0xef] ∧
    encoded (callFn "NewRegMatchField" [.num 15, .num 3735928559, .nil]) = .ok [0, 1, 30, 4, 0xde, 0xad, 0xbe, 0xef] := by
  decide +kernel
-- the top bit alone: window (31, 1), value 1
example : encoded (NewMatchField "NXM_NX_REG0" 1 [31, 1]) = .ok [0, 1, 1, 8, 0x80, 0, 0, 0, 0x80, 0, 0, 0] := by
  decide +kernel
-- a 16-byte field (xxreg0), window (64, 8), value 0xab: header word 0x0001df20 = 1<<16 | 111<<9 | 1<<8 | 32
example : ∃ fld bs, NewMatchField "NXM_NX_XXREG0" 171 [64, 8] = .ok fld ∧ MatchField.marshalM fld = .ok (bs, fld) ∧
    bs.take 4 = [0x00, 0x01, 0xdf, 0x20] ∧ (MatchField.headerWord fld).toNat = 1 * 65536 + 111 * 512 + 256 + 2 * 16 := by
  obtain ⟨fld, bs, h1, h2, h3, h4⟩ := C17b_header_word_masked "NXM_NX_XXREG0" 1 111 16 64 8 171
    (eq_of_beq (by decide +kernel)) (by omega) (by omega) (by omega)
  refine ⟨fld, bs, h1, h2, ?_, h4⟩
  rw [h3]
  have : MatchField.headerWord fld = 0x0001df20 := UInt32.toNat_inj.mp h4
  rw [this]; rfl
-- outside the domain the generic builder reports an error (C17_reject_window): value wider than its window
example : encoded (NewMatchField "NXM_NX_REG0" 256 [4, 8]) = .err := by decide +kernel
-- … whereas the dedicated constructor does not check: it builds a field whose value (0x1000) has a bit outside its mask
-- (0x0ff0).  Not part of C17 (which is about the generic builder); recorded as an observation.
example : encoded (callFn "NewNXRange" [.num 4, .num 11] >>= fun r =>
      callFn "NewRegMatchField" [.num 0, .num (256 <<< 4), r]) =
    .ok [0, 1, 1, 8, 0, 0, 0x10, 0x00, 0, 0, 0x0f, 0xf0] := by decide +kernel

end OFV.Props.C17b
