/-
  C04c — parsed messages expose exactly what a conforming switch put on the wire: the contents C04b left open.

  Same style as OFV/Props/C04b.lean: the byte layout is spelled out from the specifications (RFC 791, RFC 8200, the
  Nicira extensions of Open vSwitch: nicira-ext.h / meta-flow.h) with `be16/be32`, explicit pads and bit arithmetic,
  and the conclusion is the exact decoded value (`Sw2.Dec f bytes value`, `FrameDec`, `Sw2.Chain`, `Sw2.FieldDec`,
  `parse … = .ok …`).

  1. IPv4 WITH OPTIONS (IHL 5..15):
       ipv4_options_packet                header of IHL·4 bytes: the option bytes are kept as the opaque options buffer,
                                          the payload starts right behind them; any decodable payload
       ipv4_options_icmp / _udp / _other  … carrying ICMP / UDP / an opaque protocol
       frame_ipv4_options, frame_vlan_ipv4_options, packetIn_ipv4_options, packetIn_vlan_ipv4_options
                                          inside an untagged / 802.1Q-tagged Ethernet frame, inside a packet-in
  2. IPv6 ROUTING HEADER, chains in ANY order:
       chain_routing                      routing header alone: any HEL, type, segments-left, data of 8·(HEL+1) − 4 bytes
       chain_any                          ANY linked sequence (`Sw3.Ext`, `Sw3.Linked`) of hop-by-hop, routing and
                                          fragment headers in ANY order — the decoder walks the next-header chain
       chain_hbh_routing_frag, chain_routing_frag, chain_frag_routing_hbh
                                          three such sequences with their values written out
       ipv6_exts_packet, frame_ipv6_exts, frame_vlan_ipv6_exts, packetIn_ipv6_exts, packetIn_vlan_ipv6_exts
                                          IPv6 packet / frame / packet-in with any such chain and any decodable payload
       packetIn_ipv6_routing_icmpv6, packetIn_ipv6_hbh_routing_frag_udp, packetIn_ipv6_routing_other
                                          … followed by ICMPv6 / UDP / an opaque protocol
  3. HOP-BY-HOP headers with HEL > 0: `C04b.chain_hbh_options` already holds for every HEL (hypothesis
     `2 + options = 8·(HEL+1)`); here:
       chain_hbh_allPad1                  for EVERY HEL 0..255 a header filled with Pad1 options decodes (8·(HEL+1) bytes)
       chain_hbh_padN                     for every HEL ≤ 31 a header holding ONE PadN option that fills it
       (examples: HEL 2 with router alert, PadN, Pad1, an unknown option of 12 bytes)
  4. NICIRA (class 1) match fields:
       oxm_nxm                            every TLV of class 1 whose field has a `case` in `DecodeMatchField` — each of them
                                          has a payload decoder (`Sw3.nxmKind`: 66 fields — registers, tun_id, arp_sha/tha,
                                          ipv6 src/dst, icmpv6 type/code, nd_target/sll/tll, ip_frag, ipv6_label, ip_ecn,
                                          ip_ttl, mpls_ttl, tun_ipv4_src/dst, pkt_mark, tcp_flags, dp_hash, recirc_id, conj_id,
                                          tun_gbp_id/flags, tun_metadata0..7, tun_flags, ct_state/zone/mark/label,
                                          tun_ipv6_src/dst, xxreg0..3, ct_nw_proto/src/dst, ct_ipv6_src/dst, ct_tp_src/dst),
                                          with or without mask
       oxm_nxm_ctState(_masked), oxm_nxm_ctZone, oxm_nxm_ctMark(_masked), oxm_nxm_ctLabel(_masked), oxm_nxm_tunIpv4Src/Dst,
       oxm_nxm_tunMetadata(_masked), oxm_nxm_conjId, oxm_nxm_pktMark(_masked), oxm_nxm_xxreg(_masked), oxm_nxm_ipv6Label
                                          … with the bytes written out
       oxm_nxm_raw, oxm_nxm_raw_masked    the ELEVEN class-1 fields the library has no Go type for — tun_id 16, ip_frag 26,
                                          ip_ecn 28, ip_ttl 29, mpls_ttl 30, tcp_flags 34, dp_hash 35, recirc_id 36,
                                          tun_gbp_id 38, tun_gbp_flags 39, tun_flags 104 (`Sw3.NxmRaw`): ANY payload of the
                                          length given in the OXM header comes back, byte for byte, in a `ByteArrayField` —
                                          value, mask and `Len()`.  (Until `DecodeMatchField` was repaired these `case`s had
                                          no body, the decoder panicked and the whole message was rejected: the former
                                          counterexamples `nxmNil_field_panics`, `match_nxmNil_panics`,
                                          `packetIn/flowRemoved/flowStatsReply_nxmNilField_rejected` of this file.)
       oxm_nxm_tunId(_masked), oxm_nxm_recircId, oxm_nxm_ipFrag_masked, oxm_nxm_tcpFlags_masked
                                          … with the bytes written out
       match_nxm, packetIn_nxm_match, flowRemoved_nxm_match
                                          a match holding ANY mixed list of basic-class and class-1 TLVs
       match_nxmRaw, packetIn_nxmRawField, flowRemoved_nxmRawField, flowStatsReply_nxmRawField
                                          a match holding one of the eleven fields between ANY decodable TLVs — in a packet-in
                                          (any decodable frame), a flow-removed, a flow-stats reply (between any decodable
                                          records, with any decodable instructions): everything is handed over
  5. MULTIPART replies of the types without a decoder (group 6, group-desc 7, group-features 8, meter 9, meter-config 10,
     meter-features 11, table-features 12, port-desc 13, experimenter 0xffff, …):
       multipartReply_noDecoder_empty     with an EMPTY body (no groups / no meters configured) the reply parses
       multipartReply_noDecoder_rejected  with ANY non-empty body it is rejected (see below)

  COUNTEREXAMPLES — contents that Parse does NOT hand over:
       nxmUnknown_field_rejected, packetIn_nxmUnknownField_rejected
                                          class-1 field numbers without a `case` (48..103, 115..118, 126, 127): an error
       otherClass_field_panics            a TLV of a class other than 0x8000 / 1 / 0xffff (NXM_0 = 0, …): `DecodeMatchField`
                                          calls `log.Panicf` — the field decoder PANICS
       packetIn_badField_rejected, flowRemoved_badField_rejected, flowStatsReply_panicField_rejected
                                          general forms: a TLV header on which the field decoder returns an error or panics,
                                          after any decodable TLVs (records), makes Parse (which recovers the panic) reject
                                          the whole packet-in / flow-removed / flow-stats reply, whatever follows
       multipartReply_noDecoder_rejected  group / group-desc / group-features / meter / meter-config / meter-features /
                                          table-features (and any other multipart type ≥ 6) with a non-empty body: `repl` stays
                                          nil, the call panics, Parse reports an error — generalises `C04.portDescReply_rejected`
  Remarks (shapes, not defects of C04): the decoder keeps ONE header of each kind, so in a chain that repeats a kind
  the later header replaces the earlier one (`repeated_kind_last_wins`; RFC 8200 lets each of the three kinds occur
  once); nd_sll (24) comes back in an `EthDstField` and nd_tll (25) in an `EthSrcField`; tunnel / ct IPv4 addresses
  come back in the 16-byte `net.IP` form; the eleven fields of `Sw3.NxmRaw` come back as raw bytes (tun_id as 8 bytes,
  not as a number); a destination-options header (60) is not walked — it and everything behind it are the opaque payload.

  Helper lemmas: OFV/Lemmas/Sw3Ip4.lean, Sw3Ip6.lean, Sw3Match.lean, Sw3Flow.lean.
-/
import OFV.Model.All
import OFV.Props.C04
import OFV.Props.C04b
import OFV.Lemmas.Sw3Ip4
import OFV.Lemmas.Sw3Ip6
import OFV.Lemmas.Sw3Match
import OFV.Lemmas.Sw3Flow
namespace OFV.Props.C04c
open OFV OFV.Go OFV.Model OFV.Props.C04 OFV.Props.C04b

/-! ## 1. IPv4 with options -/

/-- the header length in 32-bit words of an IPv4 header carrying the option bytes `opts` -/
def ihlOf (opts : Bytes) : Nat := 5 + opts.length / 4

/-- the option bytes fill whole 32-bit words and fit the 4-bit IHL (at most 40 bytes) -/
def OptsOK (opts : Bytes) : Prop := opts.length % 4 = 0 ∧ opts.length ≤ 40
instance (opts : Bytes) : Decidable (OptsOK opts) := by unfold OptsOK; infer_instance

/-- RFC 791 header with options: version 4 and IHL = 5 + words of options in the first byte, the fixed fields as in
    `C04b.Ipv4Hdr.bytes`, then the options -/
def ipv4OptBytes (h : Ipv4Hdr) (opts : Bytes) : Bytes :=
  [UInt8.ofNat (64 + ihlOf opts), UInt8.ofNat (h.dscp * 4 + h.ecn)] ++ be16 h.totalLen ++ be16 h.ident
    ++ be16 (UInt16.ofNat (h.flags * 8192 + h.fragOff)) ++ [h.ttl, h.proto] ++ be16 h.checksum ++ h.src ++ h.dst ++ opts

/-- `p.IPv4(Version,IHL,DSCP,ECN,Length,Id,Flags,FragmentOffset,TTL,Protocol,Checksum,NWSrc,NWDst,Options,Data)` with the
    IHL of the wire and the option bytes in the options buffer -/
def ipv4OptV (h : Ipv4Hdr) (opts : Bytes) (payload : V) : V :=
  .obj "p.IPv4" [.num 4, .num (ihlOf opts), .num h.dscp, .num h.ecn, .num h.totalLen.toNat, .num h.ident.toNat, .num h.flags,
    .num h.fragOff, .num h.ttl.toNat, .num h.proto.toNat, .num h.checksum.toNat, .bytes h.src, .bytes h.dst,
    .obj "u.Buffer" [.bytes opts], payload]

/-- an IPv4 packet whose header carries options (IHL 5..15): every header field comes back from its own bits, the IHL
    as written, the option bytes — all of them, untouched — as the options buffer, and the payload is decoded from the
    byte that follows the last option (offset IHL·4), not from offset 20 -/
theorem ipv4_options_packet (h : Ipv4Hdr) (hok : h.OK) (opts : Bytes) (ho : OptsOK opts) (pb : Bytes) (pv : V)
    (hp : Sw2.Dec (Sw2.ip4Data h.proto) pb pv) :
    Sw2.Dec (PIPv4.unmarshal PIPv4.zero) (ipv4OptBytes h opts ++ pb) (ipv4OptV h opts pv) := by
  obtain ⟨h1, h2, h3, h4, h5, h6⟩ := hok
  obtain ⟨o1, o2⟩ := ho
  have hi : ihlOf opts < 16 := by unfold ihlOf; omega
  have hb0 : (UInt8.ofNat (64 + ihlOf opts)).toNat = 64 + ihlOf opts := ofNat8_toNat _ (by omega)
  have hb1 : (UInt8.ofNat (h.dscp * 4 + h.ecn)).toNat = h.dscp * 4 + h.ecn := ofNat8_toNat _ (by omega)
  have hw : (UInt16.ofNat (h.flags * 8192 + h.fragOff)).toNat = h.flags * 8192 + h.fragOff := Sw.ofNat16_toNat _ (by omega)
  have := Sw3.ipv4_opts_dec (UInt8.ofNat (64 + ihlOf opts)) (UInt8.ofNat (h.dscp * 4 + h.ecn)) h.totalLen h.ident
    (UInt16.ofNat (h.flags * 8192 + h.fragOff)) h.ttl h.proto h.checksum h.src h.dst opts pb pv (ihlOf opts)
    (by rw [hb0]; omega) (by unfold ihlOf; omega) h5 h6 (by unfold ihlOf; omega) hp
  rw [hb0, hb1, hw] at this
  have e0 : (64 + ihlOf opts) / 16 = 4 := by omega
  have e1 : (h.dscp * 4 + h.ecn) / 4 = h.dscp := by omega
  have e2 : (h.dscp * 4 + h.ecn) % 4 = h.ecn := by omega
  have e3 : (h.flags * 8192 + h.fragOff) / 8192 = h.flags := by omega
  have e4 : (h.flags * 8192 + h.fragOff) % 8192 = h.fragOff := by omega
  rw [e0, e1, e2, e3, e4] at this
  exact dec_congr (by simp only [ipv4OptBytes, List.append_assoc]) this

/-- … carrying ICMP -/
theorem ipv4_options_icmp (h : Ipv4Hdr) (hok : h.OK) (hproto : h.proto = 1) (opts : Bytes) (ho : OptsOK opts)
    (ty code : UInt8) (checksum : UInt16) (data : Bytes) :
    Sw2.Dec (PIPv4.unmarshal PIPv4.zero) (ipv4OptBytes h opts ++ icmpBytes ty code checksum data)
      (ipv4OptV h opts (icmpV ty code checksum data)) :=
  ipv4_options_packet h hok opts ho _ _ (by rw [hproto]; exact l4_icmp ty code checksum data)

/-- … carrying UDP -/
theorem ipv4_options_udp (h : Ipv4Hdr) (hok : h.OK) (hproto : h.proto = 17) (opts : Bytes) (ho : OptsOK opts)
    (sport dport len checksum : UInt16) (data : Bytes) :
    Sw2.Dec (PIPv4.unmarshal PIPv4.zero) (ipv4OptBytes h opts ++ udpBytes sport dport len checksum data)
      (ipv4OptV h opts (udpV sport dport len checksum data)) :=
  ipv4_options_packet h hok opts ho _ _ (by rw [hproto]; exact l4_udp sport dport len checksum data)

/-- … carrying any other protocol: the bytes behind the options, untouched -/
theorem ipv4_options_other (h : Ipv4Hdr) (hok : h.OK) (h1 : h.proto.toNat ≠ 1) (h17 : h.proto.toNat ≠ 17) (opts : Bytes)
    (ho : OptsOK opts) (payload : Bytes) :
    Sw2.Dec (PIPv4.unmarshal PIPv4.zero) (ipv4OptBytes h opts ++ payload)
      (ipv4OptV h opts (.obj "u.Buffer" [.bytes payload])) :=
  ipv4_options_packet h hok opts ho _ _ (l4_other h.proto h1 h17 payload)

/-- without options this is `C04b.ipv4_packet` -/
theorem ipv4OptBytes_nil (h : Ipv4Hdr) : ipv4OptBytes h [] = h.bytes := by
  simp [ipv4OptBytes, Ipv4Hdr.bytes, ihlOf]

/-- untagged Ethernet frame carrying an IPv4 packet with options and any decodable payload -/
theorem frame_ipv4_options (dst src : Bytes) (ip : Ipv4Hdr) (opts pb : Bytes) (pv : V) (hdst : dst.length = 6)
    (hsrc : src.length = 6) (hip : ip.OK) (ho : OptsOK opts) (hp : Sw2.Dec (Sw2.ip4Data ip.proto) pb pv) :
    FrameDec (ethBytes dst src 0x0800 (ipv4OptBytes ip opts ++ pb)) (ethFrameV dst src noVlanV 0x0800 (ipv4OptV ip opts pv)) :=
  eth_untagged dst src 0x0800 _ _ hdst hsrc (by decide) (l3_ipv4 _ _ (ipv4_options_packet ip hip opts ho pb pv hp))

/-- 802.1Q-tagged Ethernet frame carrying an IPv4 packet with options and any decodable payload -/
theorem frame_vlan_ipv4_options (dst src : Bytes) (pcp dei vid : Nat) (ip : Ipv4Hdr) (opts pb : Bytes) (pv : V)
    (hdst : dst.length = 6) (hsrc : src.length = 6) (hpcp : pcp < 8) (hdei : dei < 2) (hvid : vid < 4096) (hip : ip.OK)
    (ho : OptsOK opts) (hp : Sw2.Dec (Sw2.ip4Data ip.proto) pb pv) :
    FrameDec (ethTaggedBytes dst src pcp dei vid 0x0800 (ipv4OptBytes ip opts ++ pb))
      (ethFrameV dst src (.obj "p.VLAN" [.num 0x8100, .num pcp, .num dei, .num vid]) 0x0800 (ipv4OptV ip opts pv)) :=
  eth_tagged dst src pcp dei vid 0x0800 _ _ hdst hsrc hpcp hdei hvid
    (l3_ipv4 _ _ (ipv4_options_packet ip hip opts ho pb pv hp))

/-- packet-in (any decodable match) carrying an untagged IPv4 packet with options and any decodable payload -/
theorem packetIn_ipv4_options (xid : UInt32) (len : UInt16) (bufferId : UInt32) (totalLen : UInt16) (reason tableId : UInt8)
    (cookie : UInt64) (mb : Bytes) (mv : V) (hm : Sw2.MatchDec mb mv) (dst src : Bytes) (ip : Ipv4Hdr) (opts pb : Bytes)
    (pv : V) (hdst : dst.length = 6) (hsrc : src.length = 6) (hip : ip.OK) (ho : OptsOK opts)
    (hp : Sw2.Dec (Sw2.ip4Data ip.proto) pb pv) (depth : Nat) (s : Slice) (hwf : s.WF)
    (hb : s.bytes = hdr 10 len xid ++ packetInFixed bufferId totalLen reason tableId cookie ++ mb ++ zeros 2
      ++ ethBytes dst src 0x0800 (ipv4OptBytes ip opts ++ pb)) :
    parse depth s = .ok (packetInV (hdrV 10 len.toNat xid) bufferId totalLen reason tableId cookie mv
      (ethFrameV dst src noVlanV 0x0800 (ipv4OptV ip opts pv))) :=
  packetIn_of xid len bufferId totalLen reason tableId cookie mb mv hm _ _
    (frame_ipv4_options dst src ip opts pb pv hdst hsrc hip ho hp) depth s hwf hb

/-- packet-in carrying a tagged IPv4 packet with options and any decodable payload -/
theorem packetIn_vlan_ipv4_options (xid : UInt32) (len : UInt16) (bufferId : UInt32) (totalLen : UInt16)
    (reason tableId : UInt8) (cookie : UInt64) (mb : Bytes) (mv : V) (hm : Sw2.MatchDec mb mv) (dst src : Bytes)
    (pcp dei vid : Nat) (ip : Ipv4Hdr) (opts pb : Bytes) (pv : V) (hdst : dst.length = 6) (hsrc : src.length = 6)
    (hpcp : pcp < 8) (hdei : dei < 2) (hvid : vid < 4096) (hip : ip.OK) (ho : OptsOK opts)
    (hp : Sw2.Dec (Sw2.ip4Data ip.proto) pb pv) (depth : Nat) (s : Slice) (hwf : s.WF)
    (hb : s.bytes = hdr 10 len xid ++ packetInFixed bufferId totalLen reason tableId cookie ++ mb ++ zeros 2
      ++ ethTaggedBytes dst src pcp dei vid 0x0800 (ipv4OptBytes ip opts ++ pb)) :
    parse depth s = .ok (packetInV (hdrV 10 len.toNat xid) bufferId totalLen reason tableId cookie mv
      (ethFrameV dst src (.obj "p.VLAN" [.num 0x8100, .num pcp, .num dei, .num vid]) 0x0800 (ipv4OptV ip opts pv))) :=
  packetIn_of xid len bufferId totalLen reason tableId cookie mb mv hm _ _
    (frame_vlan_ipv4_options dst src pcp dei vid ip opts pb pv hdst hsrc hpcp hdei hvid hip ho hp) depth s hwf hb

/-! ## 2. The IPv6 routing header; extension headers in any order -/

/-- routing header (next header 43): next header(1), hdr ext len(1), routing type(1), segments left(1), type-specific
    data -/
def routingBytes (nh hel ty segLeft : UInt8) (data : Bytes) : Bytes := [nh, hel, ty, segLeft] ++ data

/-- `p.RoutingHeader(NextHeader,HEL,RoutingType,SegmentsLeft,Data)`, the data as an opaque buffer -/
def routingV (nh hel ty segLeft : UInt8) (data : Bytes) : V :=
  .obj "p.RoutingHeader" [.num nh.toNat, .num hel.toNat, .num ty.toNat, .num segLeft.toNat, .obj "u.Buffer" [.bytes data]]

/-- a routing header alone in front of an upper-layer protocol: ANY hdr ext len, routing type and segments-left value,
    type-specific data of `8·(HEL+1) − 4` bytes (a type-0/type-2 address list, an SRH with its segment list and TLVs …) —
    all four fields and every data byte come back -/
theorem chain_routing (nh hel ty segLeft : UInt8) (data : Bytes) (hdl : 4 + data.length = 8 * (hel.toNat + 1))
    (h : Sw2.Upper nh) :
    Sw2.Chain 43 (routingBytes nh hel ty segLeft data) nh .nil (routingV nh hel ty segLeft data) .nil := by
  have := Sw3.chain_exts 43 [.rt nh hel ty segLeft data] (by
    intro e he
    simp only [List.mem_cons, List.not_mem_nil, or_false] at he
    subst he
    exact hdl) nh h ⟨rfl, rfl⟩
  simpa [Sw3.extsBytes, Sw3.Ext.bytes, Sw3.stored, Sw3.Ext.store, Sw3.Ext.val, routingBytes, routingV, Sw3.rtV] using this

/-- ANY sequence of hop-by-hop, routing and fragment headers (`Sw3.Ext`; wire form `Sw3.Ext.bytes`, value `Sw3.Ext.val`) in
    ANY order that is linked (`Sw3.Linked nh es nxt`: the fixed header's next-header field `nh` announces the first
    header, each header's next-header field announces its successor, the last one announces the upper-layer protocol
    `nxt`) and whose members are well-formed (`Sw3.Ext.OK`: options / routing data fill the header, offset < 2^13) is
    walked completely: the walk ends exactly behind the last header at `nxt`, and each header is stored in the field of
    its kind (`Sw3.stored es (nil, nil, nil)` = (HbhHeader, RoutingHeader, FragmentHeader)) -/
theorem chain_any (nh : UInt8) (es : List Sw3.Ext) (hok : ∀ e ∈ es, e.OK) (nxt : UInt8) (hup : Sw2.Upper nxt)
    (hlink : Sw3.Linked nh es nxt) :
    Sw2.Chain nh (Sw3.extsBytes es) nxt (Sw3.stored es (.nil, .nil, .nil)).1 (Sw3.stored es (.nil, .nil, .nil)).2.1
      (Sw3.stored es (.nil, .nil, .nil)).2.2 :=
  Sw3.chain_exts nh es hok nxt hup hlink

/-- the wire form of the fragment header in `Sw3.Ext` is `C04b.fragBytes`, its value `C04b.fragV`; that of the hop-by-hop
    header is `C04b.hbhOptsBytes` / `Sw2.hbhOptsV`; that of the routing header `routingBytes` / `routingV` -/
theorem ext_frag_eq (nh : UInt8) (offset : Nat) (more : Bool) (ident : UInt32) :
    (Sw3.Ext.frag nh offset more ident).bytes = fragBytes nh offset more ident
      ∧ (Sw3.Ext.frag nh offset more ident).val = fragV nh offset more ident := ⟨rfl, rfl⟩

theorem ext_hbh_eq (nh hel : UInt8) (os : List Sw2.Opt) :
    (Sw3.Ext.hbh nh hel os).bytes = hbhOptsBytes nh hel os ∧ (Sw3.Ext.hbh nh hel os).val = Sw2.hbhOptsV nh hel os := ⟨rfl, rfl⟩

theorem ext_rt_eq (nh hel ty segLeft : UInt8) (data : Bytes) :
    (Sw3.Ext.rt nh hel ty segLeft data).bytes = routingBytes nh hel ty segLeft data
      ∧ (Sw3.Ext.rt nh hel ty segLeft data).val = routingV nh hel ty segLeft data := ⟨rfl, rfl⟩

/-- the order RFC 8200 recommends: hop-by-hop, routing, fragment -/
theorem chain_hbh_routing_frag (hel : UInt8) (os : List Sw2.Opt) (hos : ∀ o ∈ os, o.OK)
    (hlen : 2 + (Sw2.optsBytes os).length = 8 * (hel.toNat + 1)) (rhel ty segLeft : UInt8) (data : Bytes)
    (hdl : 4 + data.length = 8 * (rhel.toNat + 1)) (nh : UInt8) (offset : Nat) (more : Bool) (ident : UInt32)
    (hoff : offset < 8192) (h : Sw2.Upper nh) :
    Sw2.Chain 0 (hbhOptsBytes 43 hel os ++ routingBytes 44 rhel ty segLeft data ++ fragBytes nh offset more ident) nh
      (Sw2.hbhOptsV 43 hel os) (routingV 44 rhel ty segLeft data) (fragV nh offset more ident) := by
  have := chain_any 0 [.hbh 43 hel os, .rt 44 rhel ty segLeft data, .frag nh offset more ident] (by
    intro e he
    simp only [List.mem_cons, List.not_mem_nil, or_false] at he
    rcases he with rfl | rfl | rfl
    · exact ⟨hos, hlen⟩
    · exact hdl
    · exact hoff) nh h ⟨rfl, rfl, rfl, rfl⟩
  have eb : Sw3.extsBytes [.hbh 43 hel os, .rt 44 rhel ty segLeft data, .frag nh offset more ident]
      = hbhOptsBytes 43 hel os ++ routingBytes 44 rhel ty segLeft data ++ fragBytes nh offset more ident := by
    simp [Sw3.extsBytes, Sw3.Ext.bytes, hbhOptsBytes, routingBytes, fragBytes]
  rw [eb] at this
  exact this

/-- routing header followed by a fragment header -/
theorem chain_routing_frag (rhel ty segLeft : UInt8) (data : Bytes) (hdl : 4 + data.length = 8 * (rhel.toNat + 1))
    (nh : UInt8) (offset : Nat) (more : Bool) (ident : UInt32) (hoff : offset < 8192) (h : Sw2.Upper nh) :
    Sw2.Chain 43 (routingBytes 44 rhel ty segLeft data ++ fragBytes nh offset more ident) nh .nil
      (routingV 44 rhel ty segLeft data) (fragV nh offset more ident) := by
  have := chain_any 43 [.rt 44 rhel ty segLeft data, .frag nh offset more ident] (by
    intro e he
    simp only [List.mem_cons, List.not_mem_nil, or_false] at he
    rcases he with rfl | rfl
    · exact hdl
    · exact hoff) nh h ⟨rfl, rfl, rfl⟩
  have eb : Sw3.extsBytes [.rt 44 rhel ty segLeft data, .frag nh offset more ident]
      = routingBytes 44 rhel ty segLeft data ++ fragBytes nh offset more ident := by
    simp [Sw3.extsBytes, Sw3.Ext.bytes, routingBytes, fragBytes]
  rw [eb] at this
  exact this

/-- an order no sender should use — fragment, routing, hop-by-hop — is walked all the same: the decoder follows the
    next-header values, not a fixed order -/
theorem chain_frag_routing_hbh (offset : Nat) (more : Bool) (ident : UInt32) (hoff : offset < 8192) (rhel ty segLeft : UInt8)
    (data : Bytes) (hdl : 4 + data.length = 8 * (rhel.toNat + 1)) (nh hel : UInt8) (os : List Sw2.Opt)
    (hos : ∀ o ∈ os, o.OK) (hlen : 2 + (Sw2.optsBytes os).length = 8 * (hel.toNat + 1)) (h : Sw2.Upper nh) :
    Sw2.Chain 44 (fragBytes 43 offset more ident ++ routingBytes 0 rhel ty segLeft data ++ hbhOptsBytes nh hel os) nh
      (Sw2.hbhOptsV nh hel os) (routingV 0 rhel ty segLeft data) (fragV 43 offset more ident) := by
  have := chain_any 44 [.frag 43 offset more ident, .rt 0 rhel ty segLeft data, .hbh nh hel os] (by
    intro e he
    simp only [List.mem_cons, List.not_mem_nil, or_false] at he
    rcases he with rfl | rfl | rfl
    · exact hoff
    · exact hdl
    · exact ⟨hos, hlen⟩) nh h ⟨rfl, rfl, rfl, rfl⟩
  have eb : Sw3.extsBytes [.frag 43 offset more ident, .rt 0 rhel ty segLeft data, .hbh nh hel os]
      = fragBytes 43 offset more ident ++ routingBytes 0 rhel ty segLeft data ++ hbhOptsBytes nh hel os := by
    simp [Sw3.extsBytes, Sw3.Ext.bytes, hbhOptsBytes, routingBytes, fragBytes]
  rw [eb] at this
  exact this

/-- REMARK: the decoded packet has ONE field per kind of extension header.  In a chain that repeats a kind (two routing
    headers) the walk succeeds, and the later header REPLACES the earlier one in the decoded value: the first routing
    header's fields are not in the result.  (RFC 8200 §4.1: each extension header should occur at most once, except the
    destination-options header, which this decoder does not walk.) -/
theorem repeated_kind_last_wins (hel1 ty1 sl1 : UInt8) (data1 : Bytes) (hd1 : 4 + data1.length = 8 * (hel1.toNat + 1))
    (nh hel2 ty2 sl2 : UInt8) (data2 : Bytes) (hd2 : 4 + data2.length = 8 * (hel2.toNat + 1)) (h : Sw2.Upper nh) :
    Sw2.Chain 43 (routingBytes 43 hel1 ty1 sl1 data1 ++ routingBytes nh hel2 ty2 sl2 data2) nh .nil
      (routingV nh hel2 ty2 sl2 data2) .nil := by
  have := chain_any 43 [.rt 43 hel1 ty1 sl1 data1, .rt nh hel2 ty2 sl2 data2] (by
    intro e he
    simp only [List.mem_cons, List.not_mem_nil, or_false] at he
    rcases he with rfl | rfl
    · exact hd1
    · exact hd2) nh h ⟨rfl, rfl, rfl⟩
  have eb : Sw3.extsBytes [.rt 43 hel1 ty1 sl1 data1, .rt nh hel2 ty2 sl2 data2]
      = routingBytes 43 hel1 ty1 sl1 data1 ++ routingBytes nh hel2 ty2 sl2 data2 := by
    simp [Sw3.extsBytes, Sw3.Ext.bytes, routingBytes]
  rw [eb] at this
  exact this

/-- the decoded IPv6 packet that carries the extension headers `es` -/
def ipv6ExtsV (h : Ipv6Hdr) (es : List Sw3.Ext) (payload : V) : V :=
  h.val (Sw3.stored es (.nil, .nil, .nil)).1 (Sw3.stored es (.nil, .nil, .nil)).2.1 (Sw3.stored es (.nil, .nil, .nil)).2.2 payload

/-- an IPv6 packet: fixed header, ANY linked sequence of well-formed extension headers, any decodable upper-layer
    payload — the payload is decoded from the byte behind the last extension header -/
theorem ipv6_exts_packet (h : Ipv6Hdr) (hok : h.OK) (es : List Sw3.Ext) (hes : ∀ e ∈ es, e.OK) (nxt : UInt8)
    (hup : Sw2.Upper nxt) (hlink : Sw3.Linked h.nextHeader es nxt) (pb : Bytes) (pv : V)
    (hp : Sw2.Dec (Sw2.ip6Data nxt) pb pv) :
    Sw2.Dec (PIPv6.unmarshal PIPv6.zero) (h.bytes ++ Sw3.extsBytes es ++ pb) (ipv6ExtsV h es pv) :=
  ipv6_packet h hok _ pb nxt _ _ _ pv (chain_any h.nextHeader es hes nxt hup hlink) hp

/-- untagged Ethernet frame carrying such a packet -/
theorem frame_ipv6_exts (dst src : Bytes) (ip : Ipv6Hdr) (es : List Sw3.Ext) (nxt : UInt8) (pb : Bytes) (pv : V)
    (hdst : dst.length = 6) (hsrc : src.length = 6) (hip : ip.OK) (hes : ∀ e ∈ es, e.OK) (hup : Sw2.Upper nxt)
    (hlink : Sw3.Linked ip.nextHeader es nxt) (hp : Sw2.Dec (Sw2.ip6Data nxt) pb pv) :
    FrameDec (ethBytes dst src 0x86dd (ip.bytes ++ Sw3.extsBytes es ++ pb))
      (ethFrameV dst src noVlanV 0x86dd (ipv6ExtsV ip es pv)) :=
  eth_untagged dst src 0x86dd _ _ hdst hsrc (by decide)
    (l3_ipv6 _ _ (ipv6_exts_packet ip hip es hes nxt hup hlink pb pv hp))

/-- 802.1Q-tagged Ethernet frame carrying such a packet -/
theorem frame_vlan_ipv6_exts (dst src : Bytes) (pcp dei vid : Nat) (ip : Ipv6Hdr) (es : List Sw3.Ext) (nxt : UInt8)
    (pb : Bytes) (pv : V) (hdst : dst.length = 6) (hsrc : src.length = 6) (hpcp : pcp < 8) (hdei : dei < 2)
    (hvid : vid < 4096) (hip : ip.OK) (hes : ∀ e ∈ es, e.OK) (hup : Sw2.Upper nxt)
    (hlink : Sw3.Linked ip.nextHeader es nxt) (hp : Sw2.Dec (Sw2.ip6Data nxt) pb pv) :
    FrameDec (ethTaggedBytes dst src pcp dei vid 0x86dd (ip.bytes ++ Sw3.extsBytes es ++ pb))
      (ethFrameV dst src (.obj "p.VLAN" [.num 0x8100, .num pcp, .num dei, .num vid]) 0x86dd (ipv6ExtsV ip es pv)) :=
  eth_tagged dst src pcp dei vid 0x86dd _ _ hdst hsrc hpcp hdei hvid
    (l3_ipv6 _ _ (ipv6_exts_packet ip hip es hes nxt hup hlink pb pv hp))

/-- packet-in (any decodable match) carrying an untagged IPv6 packet with ANY linked chain of extension headers and any
    decodable upper-layer payload -/
theorem packetIn_ipv6_exts (xid : UInt32) (len : UInt16) (bufferId : UInt32) (totalLen : UInt16) (reason tableId : UInt8)
    (cookie : UInt64) (mb : Bytes) (mv : V) (hm : Sw2.MatchDec mb mv) (dst src : Bytes) (ip : Ipv6Hdr) (es : List Sw3.Ext)
    (nxt : UInt8) (pb : Bytes) (pv : V) (hdst : dst.length = 6) (hsrc : src.length = 6) (hip : ip.OK)
    (hes : ∀ e ∈ es, e.OK) (hup : Sw2.Upper nxt) (hlink : Sw3.Linked ip.nextHeader es nxt)
    (hp : Sw2.Dec (Sw2.ip6Data nxt) pb pv) (depth : Nat) (s : Slice) (hwf : s.WF)
    (hb : s.bytes = hdr 10 len xid ++ packetInFixed bufferId totalLen reason tableId cookie ++ mb ++ zeros 2
      ++ ethBytes dst src 0x86dd (ip.bytes ++ Sw3.extsBytes es ++ pb)) :
    parse depth s = .ok (packetInV (hdrV 10 len.toNat xid) bufferId totalLen reason tableId cookie mv
      (ethFrameV dst src noVlanV 0x86dd (ipv6ExtsV ip es pv))) :=
  packetIn_of xid len bufferId totalLen reason tableId cookie mb mv hm _ _
    (frame_ipv6_exts dst src ip es nxt pb pv hdst hsrc hip hes hup hlink hp) depth s hwf hb

/-- the same with an 802.1Q tag -/
theorem packetIn_vlan_ipv6_exts (xid : UInt32) (len : UInt16) (bufferId : UInt32) (totalLen : UInt16) (reason tableId : UInt8)
    (cookie : UInt64) (mb : Bytes) (mv : V) (hm : Sw2.MatchDec mb mv) (dst src : Bytes) (pcp dei vid : Nat) (ip : Ipv6Hdr)
    (es : List Sw3.Ext) (nxt : UInt8) (pb : Bytes) (pv : V) (hdst : dst.length = 6) (hsrc : src.length = 6)
    (hpcp : pcp < 8) (hdei : dei < 2) (hvid : vid < 4096) (hip : ip.OK) (hes : ∀ e ∈ es, e.OK) (hup : Sw2.Upper nxt)
    (hlink : Sw3.Linked ip.nextHeader es nxt) (hp : Sw2.Dec (Sw2.ip6Data nxt) pb pv) (depth : Nat) (s : Slice)
    (hwf : s.WF)
    (hb : s.bytes = hdr 10 len xid ++ packetInFixed bufferId totalLen reason tableId cookie ++ mb ++ zeros 2
      ++ ethTaggedBytes dst src pcp dei vid 0x86dd (ip.bytes ++ Sw3.extsBytes es ++ pb)) :
    parse depth s = .ok (packetInV (hdrV 10 len.toNat xid) bufferId totalLen reason tableId cookie mv
      (ethFrameV dst src (.obj "p.VLAN" [.num 0x8100, .num pcp, .num dei, .num vid]) 0x86dd (ipv6ExtsV ip es pv))) :=
  packetIn_of xid len bufferId totalLen reason tableId cookie mb mv hm _ _
    (frame_vlan_ipv6_exts dst src pcp dei vid ip es nxt pb pv hdst hsrc hpcp hdei hvid hip hes hup hlink hp) depth s hwf hb

/-- packet-in carrying IPv6 / routing header / ICMPv6 -/
theorem packetIn_ipv6_routing_icmpv6 (xid : UInt32) (len : UInt16) (bufferId : UInt32) (totalLen : UInt16)
    (reason tableId : UInt8) (cookie : UInt64) (mb : Bytes) (mv : V) (hm : Sw2.MatchDec mb mv) (dst src : Bytes) (ip : Ipv6Hdr)
    (hel rty segLeft : UInt8) (rdata : Bytes) (ty code : UInt8) (checksum : UInt16) (data : Bytes) (hdst : dst.length = 6)
    (hsrc : src.length = 6) (hip : ip.OK) (hnh : ip.nextHeader = 43) (hdl : 4 + rdata.length = 8 * (hel.toNat + 1))
    (depth : Nat) (s : Slice) (hwf : s.WF)
    (hb : s.bytes = hdr 10 len xid ++ packetInFixed bufferId totalLen reason tableId cookie ++ mb ++ zeros 2
      ++ ethBytes dst src 0x86dd (ip.bytes ++ routingBytes 58 hel rty segLeft rdata ++ icmpBytes ty code checksum data)) :
    parse depth s = .ok (packetInV (hdrV 10 len.toNat xid) bufferId totalLen reason tableId cookie mv
      (ethFrameV dst src noVlanV 0x86dd (ip.val .nil (routingV 58 hel rty segLeft rdata) .nil (icmpV ty code checksum data)))) :=
  packetIn_of xid len bufferId totalLen reason tableId cookie mb mv hm _ _
    (eth_untagged dst src 0x86dd _ _ hdst hsrc (by decide)
      (l3_ipv6 _ _ (ipv6_packet ip hip _ _ 58 _ _ _ _
        (by rw [hnh]; exact chain_routing 58 hel rty segLeft rdata hdl (by decide)) (u6_icmpv6 ty code checksum data))))
    depth s hwf hb

/-- packet-in carrying IPv6 / hop-by-hop (any options) / routing / fragment / UDP -/
theorem packetIn_ipv6_hbh_routing_frag_udp (xid : UInt32) (len : UInt16) (bufferId : UInt32) (totalLen : UInt16)
    (reason tableId : UInt8) (cookie : UInt64) (mb : Bytes) (mv : V) (hm : Sw2.MatchDec mb mv) (dst src : Bytes) (ip : Ipv6Hdr)
    (hel : UInt8) (os : List Sw2.Opt) (rhel rty segLeft : UInt8) (rdata : Bytes) (offset : Nat) (more : Bool) (ident : UInt32)
    (sport dport ulen checksum : UInt16) (data : Bytes) (hdst : dst.length = 6) (hsrc : src.length = 6) (hip : ip.OK)
    (hnh : ip.nextHeader = 0) (hos : ∀ o ∈ os, o.OK) (hlen : 2 + (Sw2.optsBytes os).length = 8 * (hel.toNat + 1))
    (hdl : 4 + rdata.length = 8 * (rhel.toNat + 1)) (hoff : offset < 8192) (depth : Nat) (s : Slice) (hwf : s.WF)
    (hb : s.bytes = hdr 10 len xid ++ packetInFixed bufferId totalLen reason tableId cookie ++ mb ++ zeros 2
      ++ ethBytes dst src 0x86dd (ip.bytes ++ (hbhOptsBytes 43 hel os ++ routingBytes 44 rhel rty segLeft rdata
          ++ fragBytes 17 offset more ident) ++ udpBytes sport dport ulen checksum data)) :
    parse depth s = .ok (packetInV (hdrV 10 len.toNat xid) bufferId totalLen reason tableId cookie mv
      (ethFrameV dst src noVlanV 0x86dd (ip.val (Sw2.hbhOptsV 43 hel os) (routingV 44 rhel rty segLeft rdata)
        (fragV 17 offset more ident) (udpV sport dport ulen checksum data)))) :=
  packetIn_of xid len bufferId totalLen reason tableId cookie mb mv hm _ _
    (eth_untagged dst src 0x86dd _ _ hdst hsrc (by decide)
      (l3_ipv6 _ _ (ipv6_packet ip hip _ _ 17 _ _ _ _
        (by rw [hnh]; exact chain_hbh_routing_frag hel os hos hlen rhel rty segLeft rdata hdl 17 offset more ident hoff (by decide))
        (u6_udp sport dport ulen checksum data))))
    depth s hwf hb

/-- packet-in carrying IPv6 / routing header / a protocol the library does not look into (TCP, ESP, destination options …) -/
theorem packetIn_ipv6_routing_other (xid : UInt32) (len : UInt16) (bufferId : UInt32) (totalLen : UInt16)
    (reason tableId : UInt8) (cookie : UInt64) (mb : Bytes) (mv : V) (hm : Sw2.MatchDec mb mv) (dst src : Bytes) (ip : Ipv6Hdr)
    (nxt hel rty segLeft : UInt8) (rdata payload : Bytes) (hdst : dst.length = 6) (hsrc : src.length = 6) (hip : ip.OK)
    (hnh : ip.nextHeader = 43) (hdl : 4 + rdata.length = 8 * (hel.toNat + 1)) (hup : Sw2.Upper nxt)
    (h58 : nxt.toNat ≠ 58) (h17 : nxt.toNat ≠ 17) (depth : Nat) (s : Slice) (hwf : s.WF)
    (hb : s.bytes = hdr 10 len xid ++ packetInFixed bufferId totalLen reason tableId cookie ++ mb ++ zeros 2
      ++ ethBytes dst src 0x86dd (ip.bytes ++ routingBytes nxt hel rty segLeft rdata ++ payload)) :
    parse depth s = .ok (packetInV (hdrV 10 len.toNat xid) bufferId totalLen reason tableId cookie mv
      (ethFrameV dst src noVlanV 0x86dd (ip.val .nil (routingV nxt hel rty segLeft rdata) .nil
        (.obj "u.Buffer" [.bytes payload])))) :=
  packetIn_of xid len bufferId totalLen reason tableId cookie mb mv hm _ _
    (eth_untagged dst src 0x86dd _ _ hdst hsrc (by decide)
      (l3_ipv6 _ _ (ipv6_packet ip hip _ _ nxt _ _ _ _
        (by rw [hnh]; exact chain_routing nxt hel rty segLeft rdata hdl hup) (u6_other nxt h58 h17 payload))))
    depth s hwf hb

/-! ## 3. Hop-by-hop headers of every length -/

theorem optsBytes_pad1s (n : Nat) : Sw2.optsBytes (List.replicate n .pad1) = zeros n := by
  induction n with
  | zero => rfl
  | succ n ih =>
    rw [List.replicate_succ, Sw2.optsBytes_cons, ih]
    show [0] ++ zeros n = zeros (n + 1)
    simp [zeros, List.replicate_succ]

/-- for EVERY hdr ext len 0..255 the hop-by-hop header of `8·(HEL+1)` bytes filled with Pad1 options decodes: one
    `p.Option(0,0,[])` per byte, the walk ends `8·(HEL+1)` bytes further (general statement with any options:
    `C04b.chain_hbh_options`, which holds for every HEL) -/
theorem chain_hbh_allPad1 (nh hel : UInt8) (h : Sw2.Upper nh) :
    Sw2.Chain 0 ([nh, hel] ++ zeros (8 * (hel.toNat + 1) - 2)) nh
      (Sw2.hbhOptsV nh hel (List.replicate (8 * (hel.toNat + 1) - 2) .pad1)) .nil .nil := by
  have := chain_hbh_options nh hel (List.replicate (8 * (hel.toNat + 1) - 2) .pad1)
    (by intro o ho; rw [List.eq_of_mem_replicate ho]; trivial)
    (by rw [optsBytes_pad1s, zeros, List.length_replicate]; omega) h
  rw [hbhOptsBytes, optsBytes_pad1s] at this
  exact this

/-- for every hdr ext len up to 31 the header holding ONE PadN option (type 1, length `8·(HEL+1) − 4`, zeros) that fills
    it exactly -/
theorem chain_hbh_padN (nh hel : UInt8) (hhel : hel.toNat ≤ 31) (h : Sw2.Upper nh) :
    Sw2.Chain 0 ([nh, hel] ++ ([1, UInt8.ofNat (8 * (hel.toNat + 1) - 4)] ++ zeros (8 * (hel.toNat + 1) - 4))) nh
      (.obj "p.HopByHopHeader" [.num nh.toNat, .num hel.toNat, .list [.obj "p.Option" [.num 1, .num (8 * (hel.toNat + 1) - 4),
        .bytes (zeros (8 * (hel.toNat + 1) - 4))]]]) .nil .nil := by
  have hz : (zeros (8 * (hel.toNat + 1) - 4)).length = 8 * (hel.toNat + 1) - 4 := by simp [zeros]
  have := chain_hbh_options nh hel [.tlv 1 (zeros (8 * (hel.toNat + 1) - 4))]
    (by
      intro o ho
      simp only [List.mem_cons, List.not_mem_nil, or_false] at ho
      subst ho
      exact ⟨by decide, by rw [hz]; omega⟩)
    (by simp [Sw2.optsBytes, Sw2.Opt.bytes, zeros]; omega) h
  simp only [hbhOptsBytes, Sw2.optsBytes, Sw2.Opt.bytes, List.map_cons, List.map_nil, List.flatten_cons, List.flatten_nil,
    List.append_nil, hz, Sw2.hbhOptsV, Sw2.Opt.val] at this
  exact this

/-! ## 4. Nicira (class 1) match fields -/

/-- every well-formed OXM TLV of class NXM_1 (`Sw3.Nxm`: field number of the table `Sw3.nxmKind`, value and optional mask
    of the field's shape; wire form `Sw3.Nxm.bytes`: class 1, field<<1|hasmask, payload length, value, mask) is read back
    as exactly that field, value and mask, and its `Len()` is its size -/
theorem oxm_nxm (o : Sw3.Nxm) (h : o.WF) : Sw2.FieldDec o.bytes o.toV := Sw3.nxm_fieldDec o h

/-- a 32-bit field of class 1 whose value the library holds in a `Uint32Message` (registers 0..15, pkt_mark 33,
    conj_id 37, ct_state 105, ct_mark 107): class 1, field<<1, length 4, value -/
theorem oxm_nxm_u32 (f : Nat) (hf : Sw3.nxmKind f = some ("Uint32Message", .m32)) (value : UInt32) :
    Sw2.FieldDec (be16 1 ++ ([UInt8.ofNat (2 * f), 4] ++ be32 value))
      (.obj "MatchField" [.num 1, .num f, .num 0, .num 4, .num 0, .obj "Uint32Message" [.num value.toNat], .nil]) := by
  have := oxm_nxm ⟨f, .m32 value, none⟩ ⟨"Uint32Message", hf, trivial, by simp⟩
  simp only [Sw3.Nxm.bytes, Sw3.Nxm.toV, Sw3.Nxm.kind, hf] at this
  exact this

/-- … with a mask: field<<1|1, length 8, value(4), mask(4) -/
theorem oxm_nxm_u32_masked (f : Nat) (hf : Sw3.nxmKind f = some ("Uint32Message", .m32)) (value mask : UInt32) :
    Sw2.FieldDec (be16 1 ++ ([UInt8.ofNat (2 * f + 1), 8] ++ (be32 value ++ be32 mask)))
      (.obj "MatchField" [.num 1, .num f, .num 1, .num 8, .num 0, .obj "Uint32Message" [.num value.toNat],
        .obj "Uint32Message" [.num mask.toNat]]) := by
  have := oxm_nxm ⟨f, .m32 value, some (.m32 mask)⟩
    ⟨"Uint32Message", hf, trivial, by intro m hm; cases hm; exact ⟨rfl, trivial, rfl⟩⟩
  simp only [Sw3.Nxm.bytes, Sw3.Nxm.toV, Sw3.Nxm.kind, hf] at this
  exact this

/-- NXM_NX_CT_STATE (105): the connection-tracking state bits, as Open vSwitch puts them into packet-in and flow-stats
    matches — header 00 01 d2 04 -/
theorem oxm_nxm_ctState (state : UInt32) :
    Sw2.FieldDec (be16 1 ++ ([210, 4] ++ be32 state))
      (.obj "MatchField" [.num 1, .num 105, .num 0, .num 4, .num 0, .obj "Uint32Message" [.num state.toNat], .nil]) :=
  oxm_nxm_u32 105 rfl state

/-- ct_state with a mask (the usual form: `ct_state=+trk+est` is value/mask) — header 00 01 d3 08 -/
theorem oxm_nxm_ctState_masked (state mask : UInt32) :
    Sw2.FieldDec (be16 1 ++ ([211, 8] ++ (be32 state ++ be32 mask)))
      (.obj "MatchField" [.num 1, .num 105, .num 1, .num 8, .num 0, .obj "Uint32Message" [.num state.toNat],
        .obj "Uint32Message" [.num mask.toNat]]) :=
  oxm_nxm_u32_masked 105 rfl state mask

/-- NXM_NX_CT_MARK (107) -/
theorem oxm_nxm_ctMark (mark : UInt32) :
    Sw2.FieldDec (be16 1 ++ ([214, 4] ++ be32 mark))
      (.obj "MatchField" [.num 1, .num 107, .num 0, .num 4, .num 0, .obj "Uint32Message" [.num mark.toNat], .nil]) :=
  oxm_nxm_u32 107 rfl mark

theorem oxm_nxm_ctMark_masked (mark mask : UInt32) :
    Sw2.FieldDec (be16 1 ++ ([215, 8] ++ (be32 mark ++ be32 mask)))
      (.obj "MatchField" [.num 1, .num 107, .num 1, .num 8, .num 0, .obj "Uint32Message" [.num mark.toNat],
        .obj "Uint32Message" [.num mask.toNat]]) :=
  oxm_nxm_u32_masked 107 rfl mark mask

/-- NXM_NX_PKT_MARK (33) -/
theorem oxm_nxm_pktMark (mark : UInt32) :
    Sw2.FieldDec (be16 1 ++ ([66, 4] ++ be32 mark))
      (.obj "MatchField" [.num 1, .num 33, .num 0, .num 4, .num 0, .obj "Uint32Message" [.num mark.toNat], .nil]) :=
  oxm_nxm_u32 33 rfl mark

theorem oxm_nxm_pktMark_masked (mark mask : UInt32) :
    Sw2.FieldDec (be16 1 ++ ([67, 8] ++ (be32 mark ++ be32 mask)))
      (.obj "MatchField" [.num 1, .num 33, .num 1, .num 8, .num 0, .obj "Uint32Message" [.num mark.toNat],
        .obj "Uint32Message" [.num mask.toNat]]) :=
  oxm_nxm_u32_masked 33 rfl mark mask

/-- NXM_NX_CONJ_ID (37) -/
theorem oxm_nxm_conjId (id : UInt32) :
    Sw2.FieldDec (be16 1 ++ ([74, 4] ++ be32 id))
      (.obj "MatchField" [.num 1, .num 37, .num 0, .num 4, .num 0, .obj "Uint32Message" [.num id.toNat], .nil]) :=
  oxm_nxm_u32 37 rfl id

/-- NXM_NX_CT_ZONE (106): 16 bits — header 00 01 d4 02 -/
theorem oxm_nxm_ctZone (zone : UInt16) :
    Sw2.FieldDec (be16 1 ++ ([212, 2] ++ be16 zone))
      (.obj "MatchField" [.num 1, .num 106, .num 0, .num 2, .num 0, .obj "Uint16Message" [.num zone.toNat], .nil]) :=
  oxm_nxm ⟨106, .m16 zone, none⟩ ⟨"Uint16Message", rfl, trivial, by simp⟩

/-- NXM_NX_CT_LABEL (108): 128 bits — header 00 01 d8 10 -/
theorem oxm_nxm_ctLabel (label : Bytes) (hl : label.length = 16) :
    Sw2.FieldDec (be16 1 ++ ([216, 16] ++ label))
      (.obj "MatchField" [.num 1, .num 108, .num 0, .num 16, .num 0, .obj "CTLabel" [.bytes label], .nil]) := by
  have := oxm_nxm ⟨108, .label label, none⟩ ⟨"CTLabel", rfl, hl, by simp⟩
  simp only [Sw3.Nxm.bytes, Sw3.Nxm.toV, Sw3.NxmVal.bytes, Sw3.NxmVal.toV, hl] at this
  exact this

/-- ct_label with a mask: header 00 01 d9 20, label(16), mask(16) -/
theorem oxm_nxm_ctLabel_masked (label mask : Bytes) (hl : label.length = 16) (hm : mask.length = 16) :
    Sw2.FieldDec (be16 1 ++ ([217, 32] ++ (label ++ mask)))
      (.obj "MatchField" [.num 1, .num 108, .num 1, .num 32, .num 0, .obj "CTLabel" [.bytes label],
        .obj "CTLabel" [.bytes mask]]) := by
  have := oxm_nxm ⟨108, .label label, some (.label mask)⟩
    ⟨"CTLabel", rfl, hl, by intro m h; cases h; exact ⟨rfl, hm, by simp only [Sw3.NxmVal.bytes]; omega⟩⟩
  simp only [Sw3.Nxm.bytes, Sw3.Nxm.toV, Sw3.NxmVal.bytes, Sw3.NxmVal.toV, hl, hm] at this
  exact this

/-- NXM_NX_TUN_IPV4_SRC (31): the tunnel endpoint address; it comes back in the 16-byte `net.IP` form -/
theorem oxm_nxm_tunIpv4Src (a b c d : UInt8) :
    Sw2.FieldDec (be16 1 ++ ([62, 4] ++ [a, b, c, d]))
      (.obj "MatchField" [.num 1, .num 31, .num 0, .num 4, .num 0, .obj "TunnelIpv4SrcField" [.bytes (ipv4 a b c d)], .nil]) :=
  oxm_nxm ⟨31, .tun4 a b c d, none⟩ ⟨"TunnelIpv4SrcField", rfl, trivial, by simp⟩

/-- NXM_NX_TUN_IPV4_DST (32) -/
theorem oxm_nxm_tunIpv4Dst (a b c d : UInt8) :
    Sw2.FieldDec (be16 1 ++ ([64, 4] ++ [a, b, c, d]))
      (.obj "MatchField" [.num 1, .num 32, .num 0, .num 4, .num 0, .obj "TunnelIpv4DstField" [.bytes (ipv4 a b c d)], .nil]) :=
  oxm_nxm ⟨32, .tun4 a b c d, none⟩ ⟨"TunnelIpv4DstField", rfl, trivial, by simp⟩

/-- tun_ipv4_dst with a mask (a prefix match on the tunnel endpoint) -/
theorem oxm_nxm_tunIpv4Dst_masked (a b c d m0 m1 m2 m3 : UInt8) :
    Sw2.FieldDec (be16 1 ++ ([65, 8] ++ ([a, b, c, d] ++ [m0, m1, m2, m3])))
      (.obj "MatchField" [.num 1, .num 32, .num 1, .num 8, .num 0, .obj "TunnelIpv4DstField" [.bytes (ipv4 a b c d)],
        .obj "TunnelIpv4DstField" [.bytes (ipv4 m0 m1 m2 m3)]]) :=
  oxm_nxm ⟨32, .tun4 a b c d, some (.tun4 m0 m1 m2 m3)⟩
    ⟨"TunnelIpv4DstField", rfl, trivial, by intro m h; cases h; exact ⟨rfl, trivial, rfl⟩⟩

/-- NXM_NX_IPV6_LABEL (27): the flow label -/
theorem oxm_nxm_ipv6Label (label : UInt32) :
    Sw2.FieldDec (be16 1 ++ ([54, 4] ++ be32 label))
      (.obj "MatchField" [.num 1, .num 27, .num 0, .num 4, .num 0, .obj "IPv6FlowLabelField" [.num label.toNat], .nil]) :=
  oxm_nxm ⟨27, .std (.u32 label), none⟩ ⟨"IPv6FlowLabelField", rfl, trivial, by simp⟩

/-- NXM_NX_TUN_METADATAn (40 + n, n < 8): a byte string whose length — any length below 128 — is the TLV's length byte
    (Geneve option data): every byte comes back, with that length -/
theorem oxm_nxm_tunMetadata (n : Nat) (hn : n < 8) (data : Bytes) (hl : data.length < 128) :
    Sw2.FieldDec (be16 1 ++ ([UInt8.ofNat (2 * (40 + n)), UInt8.ofNat data.length] ++ data))
      (.obj "MatchField" [.num 1, .num (40 + n), .num 0, .num data.length, .num 0,
        .obj "ByteArrayField" [.bytes data, .num data.length], .nil]) := by
  have hk : Sw3.nxmKind (40 + n) = some ("ByteArrayField", .arr) := by
    have : n = 0 ∨ n = 1 ∨ n = 2 ∨ n = 3 ∨ n = 4 ∨ n = 5 ∨ n = 6 ∨ n = 7 := by omega
    rcases this with h | h | h | h | h | h | h | h <;> subst h <;> rfl
  have := oxm_nxm ⟨40 + n, .arr data, none⟩ ⟨"ByteArrayField", hk, hl, by simp⟩
  simp only [Sw3.Nxm.bytes, Sw3.Nxm.toV, Sw3.Nxm.kind, hk, Sw3.NxmVal.bytes, Sw3.NxmVal.toV] at this
  exact this

/-- tun_metadata with a mask of the same length: length byte = 2·|data|; value and mask are split in the middle -/
theorem oxm_nxm_tunMetadata_masked (n : Nat) (hn : n < 8) (data mask : Bytes) (hl : data.length < 128)
    (hm : mask.length = data.length) :
    Sw2.FieldDec (be16 1 ++ ([UInt8.ofNat (2 * (40 + n) + 1), UInt8.ofNat (data.length + mask.length)] ++ (data ++ mask)))
      (.obj "MatchField" [.num 1, .num (40 + n), .num 1, .num (data.length + mask.length), .num 0,
        .obj "ByteArrayField" [.bytes data, .num data.length], .obj "ByteArrayField" [.bytes mask, .num mask.length]]) := by
  have hk : Sw3.nxmKind (40 + n) = some ("ByteArrayField", .arr) := by
    have : n = 0 ∨ n = 1 ∨ n = 2 ∨ n = 3 ∨ n = 4 ∨ n = 5 ∨ n = 6 ∨ n = 7 := by omega
    rcases this with h | h | h | h | h | h | h | h <;> subst h <;> rfl
  have := oxm_nxm ⟨40 + n, .arr data, some (.arr mask)⟩
    ⟨"ByteArrayField", hk, hl, by intro m h; cases h; exact ⟨rfl, by show mask.length < 128; omega, hm⟩⟩
  simp only [Sw3.Nxm.bytes, Sw3.Nxm.toV, Sw3.Nxm.kind, hk, Sw3.NxmVal.bytes, Sw3.NxmVal.toV] at this
  exact this

/-- NXM_NX_XXREGn (111 + n, n < 4): a 128-bit register -/
theorem oxm_nxm_xxreg (n : Nat) (hn : n < 4) (value : Bytes) (hl : value.length = 16) :
    Sw2.FieldDec (be16 1 ++ ([UInt8.ofNat (2 * (111 + n)), 16] ++ value))
      (.obj "MatchField" [.num 1, .num (111 + n), .num 0, .num 16, .num 0, .obj "ByteArrayField" [.bytes value, .num 16], .nil]) := by
  have hk : Sw3.nxmKind (111 + n) = some ("ByteArrayField", .arr) := by
    have : n = 0 ∨ n = 1 ∨ n = 2 ∨ n = 3 := by omega
    rcases this with h | h | h | h <;> subst h <;> rfl
  have := oxm_nxm ⟨111 + n, .arr value, none⟩ ⟨"ByteArrayField", hk, by show value.length < 128; omega, by simp⟩
  simp only [Sw3.Nxm.bytes, Sw3.Nxm.toV, Sw3.Nxm.kind, hk, Sw3.NxmVal.bytes, Sw3.NxmVal.toV, hl] at this
  exact this

/-- xxreg with a mask: length 32, value(16), mask(16) -/
theorem oxm_nxm_xxreg_masked (n : Nat) (hn : n < 4) (value mask : Bytes) (hl : value.length = 16) (hm : mask.length = 16) :
    Sw2.FieldDec (be16 1 ++ ([UInt8.ofNat (2 * (111 + n) + 1), 32] ++ (value ++ mask)))
      (.obj "MatchField" [.num 1, .num (111 + n), .num 1, .num 32, .num 0, .obj "ByteArrayField" [.bytes value, .num 16],
        .obj "ByteArrayField" [.bytes mask, .num 16]]) := by
  have hk : Sw3.nxmKind (111 + n) = some ("ByteArrayField", .arr) := by
    have : n = 0 ∨ n = 1 ∨ n = 2 ∨ n = 3 := by omega
    rcases this with h | h | h | h <;> subst h <;> rfl
  have := oxm_nxm ⟨111 + n, .arr value, some (.arr mask)⟩
    ⟨"ByteArrayField", hk, by show value.length < 128; omega,
      by intro m h; cases h; exact ⟨rfl, by show mask.length < 128; omega, by show mask.length = value.length; omega⟩⟩
  simp only [Sw3.Nxm.bytes, Sw3.Nxm.toV, Sw3.Nxm.kind, hk, Sw3.NxmVal.bytes, Sw3.NxmVal.toV, hl, hm] at this
  exact this

/-- the ELEVEN class-1 fields the library has no Go type for — NXM_NX_TUN_ID 16, IP_FRAG 26, IP_ECN 28, IP_TTL 29,
    MPLS_TTL 30, TCP_FLAGS 34, DP_HASH 35, RECIRC_ID 36, TUN_GBP_ID 38, TUN_GBP_FLAGS 39, TUN_FLAGS 104 (`Sw3.NxmRaw`) —
    without mask: the payload, ANY bytes of the length the TLV's length byte gives (below 128), comes back untouched in a
    `ByteArrayField` of that length, and `Len()` is the size of the TLV.  (Until `DecodeMatchField` was repaired the
    field decoder panicked on every one of these TLVs.) -/
theorem oxm_nxm_raw (f : Nat) (hf : Sw3.NxmRaw f) (data : Bytes) (hl : data.length < 128) :
    Sw2.FieldDec (be16 1 ++ ([UInt8.ofNat (2 * f), UInt8.ofNat data.length] ++ data))
      (.obj "MatchField" [.num 1, .num f, .num 0, .num data.length, .num 0,
        .obj "ByteArrayField" [.bytes data, .num data.length], .nil]) := by
  have hk := Sw3.nxmKind_raw f hf
  have := oxm_nxm (Sw3.rawNxm f data none) (Sw3.rawNxm_wf f hk data hl none (by simp))
  simp only [Sw3.rawNxm, Option.map_none, Sw3.Nxm.bytes, Sw3.Nxm.toV, Sw3.Nxm.kind, hk, Sw3.NxmVal.bytes, Sw3.NxmVal.toV] at this
  exact this

/-- … with a mask of the same length: mask bit set, length byte = 2·|data|; value and mask are split in the middle and
    both come back untouched -/
theorem oxm_nxm_raw_masked (f : Nat) (hf : Sw3.NxmRaw f) (data mask : Bytes) (hl : data.length < 128)
    (hm : mask.length = data.length) :
    Sw2.FieldDec (be16 1 ++ ([UInt8.ofNat (2 * f + 1), UInt8.ofNat (data.length + mask.length)] ++ (data ++ mask)))
      (.obj "MatchField" [.num 1, .num f, .num 1, .num (data.length + mask.length), .num 0,
        .obj "ByteArrayField" [.bytes data, .num data.length], .obj "ByteArrayField" [.bytes mask, .num mask.length]]) := by
  have hk := Sw3.nxmKind_raw f hf
  have := oxm_nxm (Sw3.rawNxm f data (some mask))
    (Sw3.rawNxm_wf f hk data hl (some mask) (by intro m h; cases h; exact hm))
  simp only [Sw3.rawNxm, Option.map_some, Sw3.Nxm.bytes, Sw3.Nxm.toV, Sw3.Nxm.kind, hk, Sw3.NxmVal.bytes, Sw3.NxmVal.toV] at this
  exact this

/-- NXM_NX_TUN_ID (16): the 64-bit tunnel key (VNI, GRE key), which Open vSwitch adds to the packet-in of every packet
    received through a tunnel — header 00 01 20 08; the eight bytes come back as they are -/
theorem oxm_nxm_tunId (id : UInt64) :
    Sw2.FieldDec (be16 1 ++ ([32, 8] ++ be64 id))
      (.obj "MatchField" [.num 1, .num 16, .num 0, .num 8, .num 0, .obj "ByteArrayField" [.bytes (be64 id), .num 8], .nil]) :=
  oxm_nxm_raw 16 (by decide) (be64 id) (by show 8 < 128; decide)

/-- tun_id with a mask — header 00 01 21 10, id(8), mask(8) -/
theorem oxm_nxm_tunId_masked (id mask : UInt64) :
    Sw2.FieldDec (be16 1 ++ ([33, 16] ++ (be64 id ++ be64 mask)))
      (.obj "MatchField" [.num 1, .num 16, .num 1, .num 16, .num 0, .obj "ByteArrayField" [.bytes (be64 id), .num 8],
        .obj "ByteArrayField" [.bytes (be64 mask), .num 8]]) :=
  oxm_nxm_raw_masked 16 (by decide) (be64 id) (be64 mask) (by show 8 < 128; decide) rfl

/-- NXM_NX_RECIRC_ID (36): 32 bits — header 00 01 48 04 -/
theorem oxm_nxm_recircId (id : UInt32) :
    Sw2.FieldDec (be16 1 ++ ([72, 4] ++ be32 id))
      (.obj "MatchField" [.num 1, .num 36, .num 0, .num 4, .num 0, .obj "ByteArrayField" [.bytes (be32 id), .num 4], .nil]) :=
  oxm_nxm_raw 36 (by decide) (be32 id) (by show 4 < 128; decide)

/-- NXM_NX_IP_FRAG (26) with its mask (`ip_frag=no` is 0/3, `ip_frag=later` 3/3 …): one byte each — header 00 01 35 02 -/
theorem oxm_nxm_ipFrag_masked (frag mask : UInt8) :
    Sw2.FieldDec (be16 1 ++ ([53, 2] ++ ([frag] ++ [mask])))
      (.obj "MatchField" [.num 1, .num 26, .num 1, .num 2, .num 0, .obj "ByteArrayField" [.bytes [frag], .num 1],
        .obj "ByteArrayField" [.bytes [mask], .num 1]]) :=
  oxm_nxm_raw_masked 26 (by decide) [frag] [mask] (by show 1 < 128; decide) rfl

/-- NXM_NX_TCP_FLAGS (34) with a mask (`tcp_flags=+syn-ack` is 0x002/0x012): 16 bits each — header 00 01 45 04 -/
theorem oxm_nxm_tcpFlags_masked (flags mask : UInt16) :
    Sw2.FieldDec (be16 1 ++ ([69, 4] ++ (be16 flags ++ be16 mask)))
      (.obj "MatchField" [.num 1, .num 34, .num 1, .num 4, .num 0, .obj "ByteArrayField" [.bytes (be16 flags), .num 2],
        .obj "ByteArrayField" [.bytes (be16 mask), .num 2]]) :=
  oxm_nxm_raw_masked 34 (by decide) (be16 flags) (be16 mask) (by show 2 < 128; decide) rfl

/-- wire form and value of a list of class-1 fields -/
def nxmPairs (os : List Sw3.Nxm) : List (Bytes × V) := os.map (fun o => (o.bytes, o.toV))

/-- a match holding ANY list of basic-class fields followed by ANY list of class-1 fields (each well-formed); any other
    interleaving is an instance of `C04b.match_of_tlvs` -/
theorem match_nxm (bs : List Sw2.Oxm) (hbs : ∀ o ∈ bs, o.WF) (ns : List Sw3.Nxm) (hns : ∀ o ∈ ns, o.WF)
    (hlen : 4 + (Sw2.tlvCat (oxmPairs bs ++ nxmPairs ns)).length + 7 < 60000) :
    Sw2.MatchDec (Sw2.matchBytes (oxmPairs bs ++ nxmPairs ns)) (Sw2.matchV (oxmPairs bs ++ nxmPairs ns)) :=
  match_of_tlvs _ (by
    intro p hp
    rcases List.mem_append.mp hp with hp | hp
    · obtain ⟨o, ho, rfl⟩ := List.mem_map.mp hp
      exact oxm_basic o (hbs o ho)
    · obtain ⟨o, ho, rfl⟩ := List.mem_map.mp hp
      exact oxm_nxm o (hns o ho)) hlen

/-- packet-in whose match holds such fields, with an opaque Ethernet frame -/
theorem packetIn_nxm_match (xid : UInt32) (len : UInt16) (bufferId : UInt32) (totalLen : UInt16) (reason tableId : UInt8)
    (cookie : UInt64) (bs : List Sw2.Oxm) (hbs : ∀ o ∈ bs, o.WF) (ns : List Sw3.Nxm) (hns : ∀ o ∈ ns, o.WF)
    (hlen : 4 + (Sw2.tlvCat (oxmPairs bs ++ nxmPairs ns)).length + 7 < 60000)
    (dst src : Bytes) (etherType : UInt16) (payload : Bytes) (hdst : dst.length = 6) (hsrc : src.length = 6)
    (het : OpaqueEtherType etherType) (depth : Nat) (s : Slice) (hwf : s.WF)
    (hb : s.bytes = hdr 10 len xid ++ packetInFixed bufferId totalLen reason tableId cookie
      ++ Sw2.matchBytes (oxmPairs bs ++ nxmPairs ns) ++ zeros 2 ++ ethBytes dst src etherType payload) :
    parse depth s = .ok (packetInV (hdrV 10 len.toNat xid) bufferId totalLen reason tableId cookie
      (Sw2.matchV (oxmPairs bs ++ nxmPairs ns)) (ethV dst src etherType payload)) :=
  packetIn_of xid len bufferId totalLen reason tableId cookie _ _ (match_nxm bs hbs ns hns hlen) _ _
    (eth_untagged dst src etherType payload _ hdst hsrc het.1 (l3_other etherType het.2.1 het.2.2.1 het.2.2.2 payload))
    depth s hwf hb

/-- flow-removed whose match holds such fields -/
theorem flowRemoved_nxm_match (xid : UInt32) (len : UInt16) (cookie : UInt64) (priority : UInt16) (reason tableId : UInt8)
    (durationSec durationNsec : UInt32) (idleTimeout hardTimeout : UInt16) (packetCount byteCount : UInt64)
    (bs : List Sw2.Oxm) (hbs : ∀ o ∈ bs, o.WF) (ns : List Sw3.Nxm) (hns : ∀ o ∈ ns, o.WF)
    (hlen : 4 + (Sw2.tlvCat (oxmPairs bs ++ nxmPairs ns)).length + 7 < 60000) (depth : Nat) (s : Slice) (hwf : s.WF)
    (hb : s.bytes = hdr 11 len xid ++ flowRemovedFixed cookie priority reason tableId durationSec durationNsec
      idleTimeout hardTimeout packetCount byteCount ++ Sw2.matchBytes (oxmPairs bs ++ nxmPairs ns)) :
    parse depth s = .ok (flowRemovedV (hdrV 11 len.toNat xid) cookie priority reason tableId durationSec durationNsec
      idleTimeout hardTimeout packetCount byteCount (Sw2.matchV (oxmPairs bs ++ nxmPairs ns))) :=
  flowRemoved_match xid len cookie priority reason tableId durationSec durationNsec idleTimeout hardTimeout packetCount
    byteCount _ _ (match_nxm bs hbs ns hns hlen) depth s hwf hb

/-- wire form and value of the TLV of one of the eleven fields of `Sw3.NxmRaw` holding `data`, with an optional mask -/
def rawPair (f : Nat) (data : Bytes) (mask : Option Bytes) : Bytes × V :=
  ((Sw3.rawNxm f data mask).bytes, (Sw3.rawNxm f data mask).toV)

/-- … spelled out, without mask (the TLV and value of `oxm_nxm_raw`) -/
theorem rawPair_unmasked (f : Nat) (hf : Sw3.NxmRaw f) (data : Bytes) :
    rawPair f data none = (be16 1 ++ ([UInt8.ofNat (2 * f), UInt8.ofNat data.length] ++ data),
      .obj "MatchField" [.num 1, .num f, .num 0, .num data.length, .num 0,
        .obj "ByteArrayField" [.bytes data, .num data.length], .nil]) := by
  simp only [rawPair, Sw3.rawNxm, Option.map_none, Sw3.Nxm.bytes, Sw3.Nxm.toV, Sw3.Nxm.kind, Sw3.nxmKind_raw f hf,
    Sw3.NxmVal.bytes, Sw3.NxmVal.toV]

/-- … and with a mask (the TLV and value of `oxm_nxm_raw_masked`) -/
theorem rawPair_masked (f : Nat) (hf : Sw3.NxmRaw f) (data mask : Bytes) :
    rawPair f data (some mask)
      = (be16 1 ++ ([UInt8.ofNat (2 * f + 1), UInt8.ofNat (data.length + mask.length)] ++ (data ++ mask)),
        .obj "MatchField" [.num 1, .num f, .num 1, .num (data.length + mask.length), .num 0,
          .obj "ByteArrayField" [.bytes data, .num data.length], .obj "ByteArrayField" [.bytes mask, .num mask.length]]) := by
  simp only [rawPair, Sw3.rawNxm, Option.map_some, Sw3.Nxm.bytes, Sw3.Nxm.toV, Sw3.Nxm.kind, Sw3.nxmKind_raw f hf,
    Sw3.NxmVal.bytes, Sw3.NxmVal.toV]

/-- the payload is shorter than 128 bytes and a mask is as long as the value -/
def RawOK (data : Bytes) (mask : Option Bytes) : Prop := data.length < 128 ∧ ∀ m, mask = some m → m.length = data.length

theorem rawOK_unmasked (data : Bytes) (h : data.length < 128) : RawOK data none := ⟨h, by simp⟩
theorem rawOK_masked (data mask : Bytes) (h : data.length < 128) (hm : mask.length = data.length) : RawOK data (some mask) :=
  ⟨h, by intro m e; cases e; exact hm⟩

theorem rawPair_dec (f : Nat) (hf : Sw3.NxmRaw f) (data : Bytes) (mask : Option Bytes) (hok : RawOK data mask) :
    Sw2.FieldDec (rawPair f data mask).1 (rawPair f data mask).2 :=
  oxm_nxm _ (Sw3.rawNxm_wf f (Sw3.nxmKind_raw f hf) data hok.1 mask hok.2)

/-- the TLVs of a match that holds a TLV of one of the eleven fields behind the TLVs `fs` and in front of the TLVs `gs` -/
def rawTlvs (fs : List (Bytes × V)) (f : Nat) (data : Bytes) (mask : Option Bytes) (gs : List (Bytes × V)) : List (Bytes × V) :=
  fs ++ rawPair f data mask :: gs

/-- a match that holds — after ANY list of decodable TLVs and in front of ANY list of decodable TLVs — a TLV of one of the
    eleven class-1 fields of `Sw3.NxmRaw` (masked or not, any payload of the announced length) decodes: every field comes
    back, in order.  (Before the repair `Match.UnmarshalBinary` panicked on every such match.) -/
theorem match_nxmRaw (fs gs : List (Bytes × V)) (hfs : ∀ p ∈ fs, Sw2.FieldDec p.1 p.2) (hgs : ∀ p ∈ gs, Sw2.FieldDec p.1 p.2)
    (f : Nat) (hf : Sw3.NxmRaw f) (data : Bytes) (mask : Option Bytes) (hok : RawOK data mask)
    (hlen : 4 + (Sw2.tlvCat (rawTlvs fs f data mask gs)).length + 7 < 60000) :
    Sw2.MatchDec (Sw2.matchBytes (rawTlvs fs f data mask gs)) (Sw2.matchV (rawTlvs fs f data mask gs)) :=
  match_of_tlvs _ (by
    intro p hp
    rcases List.mem_append.mp hp with hp | hp
    · exact hfs p hp
    · rcases List.mem_cons.mp hp with rfl | hp
      · exact rawPair_dec f hf data mask hok
      · exact hgs p hp) hlen

/-- a packet-in whose match contains one of the eleven fields (Open vSwitch adds tun_id / tun_flags to the packet-in of a
    packet that arrived through a tunnel, and recirc_id / dp_hash / ip_frag appear in its NXM matches) between any
    decodable TLVs, with ANY decodable Ethernet frame: fixed fields, the whole match and the frame are handed over.
    (Before the repair Parse rejected the whole message.) -/
theorem packetIn_nxmRawField (xid : UInt32) (len : UInt16) (bufferId : UInt32) (totalLen : UInt16) (reason tableId : UInt8)
    (cookie : UInt64) (fs gs : List (Bytes × V)) (hfs : ∀ p ∈ fs, Sw2.FieldDec p.1 p.2) (hgs : ∀ p ∈ gs, Sw2.FieldDec p.1 p.2)
    (f : Nat) (hf : Sw3.NxmRaw f) (data : Bytes) (mask : Option Bytes) (hok : RawOK data mask)
    (hlen : 4 + (Sw2.tlvCat (rawTlvs fs f data mask gs)).length + 7 < 60000) (eb : Bytes) (ev : V) (he : FrameDec eb ev)
    (depth : Nat) (s : Slice) (hwf : s.WF)
    (hb : s.bytes = hdr 10 len xid ++ packetInFixed bufferId totalLen reason tableId cookie
      ++ Sw2.matchBytes (rawTlvs fs f data mask gs) ++ zeros 2 ++ eb) :
    parse depth s = .ok (packetInV (hdrV 10 len.toNat xid) bufferId totalLen reason tableId cookie
      (Sw2.matchV (rawTlvs fs f data mask gs)) ev) :=
  packetIn_of xid len bufferId totalLen reason tableId cookie _ _ (match_nxmRaw fs gs hfs hgs f hf data mask hok hlen) eb ev he
    depth s hwf hb

/-- a flow-removed whose match contains one of the eleven fields (a flow that matched on recirc_id, ip_frag, nw_ttl,
    tun_id …) between any decodable TLVs is handed over complete -/
theorem flowRemoved_nxmRawField (xid : UInt32) (len : UInt16) (cookie : UInt64) (priority : UInt16) (reason tableId : UInt8)
    (durationSec durationNsec : UInt32) (idleTimeout hardTimeout : UInt16) (packetCount byteCount : UInt64)
    (fs gs : List (Bytes × V)) (hfs : ∀ p ∈ fs, Sw2.FieldDec p.1 p.2) (hgs : ∀ p ∈ gs, Sw2.FieldDec p.1 p.2)
    (f : Nat) (hf : Sw3.NxmRaw f) (data : Bytes) (mask : Option Bytes) (hok : RawOK data mask)
    (hlen : 4 + (Sw2.tlvCat (rawTlvs fs f data mask gs)).length + 7 < 60000) (depth : Nat) (s : Slice) (hwf : s.WF)
    (hb : s.bytes = hdr 11 len xid ++ flowRemovedFixed cookie priority reason tableId durationSec durationNsec
      idleTimeout hardTimeout packetCount byteCount ++ Sw2.matchBytes (rawTlvs fs f data mask gs)) :
    parse depth s = .ok (flowRemovedV (hdrV 11 len.toNat xid) cookie priority reason tableId durationSec durationNsec
      idleTimeout hardTimeout packetCount byteCount (Sw2.matchV (rawTlvs fs f data mask gs))) :=
  flowRemoved_match xid len cookie priority reason tableId durationSec durationNsec idleTimeout hardTimeout packetCount
    byteCount _ _ (match_nxmRaw fs gs hfs hgs f hf data mask hok hlen) depth s hwf hb

theorem recsBytes_insert (rs rs2 : List Sw2.FsRec) (r : Sw2.FsRec) :
    Sw2.recsBytes (rs ++ r :: rs2) = Sw2.recsBytes rs ++ (r.bytes ++ Sw2.recsBytes rs2) := by
  simp [Sw2.recsBytes]

/-- a multipart flow-stats reply in which — between ANY lists of decodable records `rs`, `rs2` — a record's match holds one
    of the eleven fields between any decodable TLVs (`fx`: the ten fixed fields of that record; `is`: its instructions,
    any decodable list): EVERY record of the reply is handed over, in order, that one with its complete match.
    (`ovs-ofctl dump-flows` shows such matches for every flow that uses recirculation, fragment handling, ttl or
    tunnel-id matching through the Nicira fields; before the repair not one flow of such a reply reached the controller.) -/
theorem flowStatsReply_nxmRawField (xid : UInt32) (mpFlags : UInt16) (rs rs2 : List Sw2.FsRec) (hrs : ∀ r ∈ rs, r.OK)
    (hrs2 : ∀ r ∈ rs2, r.OK) (fx : Sw2.FsRec) (fs gs : List (Bytes × V)) (hfs : ∀ p ∈ fs, Sw2.FieldDec p.1 p.2)
    (hgs : ∀ p ∈ gs, Sw2.FieldDec p.1 p.2) (f : Nat) (hf : Sw3.NxmRaw f) (data : Bytes) (mask : Option Bytes)
    (hok : RawOK data mask) (hlen : 4 + (Sw2.tlvCat (rawTlvs fs f data mask gs)).length + 7 < 60000)
    (is : List (Bytes × V)) (his : ∀ p ∈ is, Sw2.InstrDec p.1 p.2) (recLen total : Nat)
    (hrec : recLen = 48 + (Sw2.matchBytes (rawTlvs fs f data mask gs)).length + (Sw2.wireCat is).length)
    (htotal : total = 16 + ((Sw2.recsBytes rs).length + (recLen + (Sw2.recsBytes rs2).length)))
    (hsize : total < 65536) (depth : Nat) (s : Slice) (hwf : s.WF)
    (hb : s.bytes = hdr 19 (UInt16.ofNat total) xid ++ be16 1 ++ be16 mpFlags ++ zeros 4 ++ Sw2.recsBytes rs
      ++ (flowStatsFixed (UInt16.ofNat recLen) fx.tableId fx.durationSec fx.durationNsec fx.priority fx.idleTimeout
            fx.hardTimeout fx.flags fx.cookie fx.packetCount fx.byteCount
          ++ Sw2.matchBytes (rawTlvs fs f data mask gs) ++ Sw2.wireCat is)
      ++ Sw2.recsBytes rs2) :
    parse depth s = .ok (.obj "MultipartReply" [hdrV 19 total xid, .num 1, .num mpFlags.toNat, .bytes [],
      .list (rs.map Sw2.FsRec.val
        ++ flowStatsV recLen fx.tableId fx.durationSec fx.durationNsec fx.priority fx.idleTimeout fx.hardTimeout fx.flags
            fx.cookie fx.packetCount fx.byteCount (Sw2.matchV (rawTlvs fs f data mask gs)) (is.map Prod.snd)
          :: rs2.map Sw2.FsRec.val)]) := by
  subst hrec
  have hr : (mkRec fx (Sw2.matchBytes (rawTlvs fs f data mask gs)) (Sw2.matchV (rawTlvs fs f data mask gs)) (Sw2.wireCat is)
      (is.map Prod.snd)).OK :=
    ⟨match_nxmRaw fs gs hfs hgs f hf data mask hok hlen, instructions_of_list is his (by omega),
      by show 48 + (Sw2.matchBytes (rawTlvs fs f data mask gs)).length + (Sw2.wireCat is).length < 65536; omega⟩
  have hlen' : (Sw2.recsBytes (rs ++ mkRec fx (Sw2.matchBytes (rawTlvs fs f data mask gs))
      (Sw2.matchV (rawTlvs fs f data mask gs)) (Sw2.wireCat is) (is.map Prod.snd) :: rs2)).length
      = (Sw2.recsBytes rs).length + (48 + (Sw2.matchBytes (rawTlvs fs f data mask gs)).length + (Sw2.wireCat is).length
          + (Sw2.recsBytes rs2).length) := by
    rw [recsBytes_insert, List.length_append, List.length_append, Sw2.FsRec.bytes_length]
    rfl
  have := flowStatsReply_records xid mpFlags (rs ++ mkRec fx (Sw2.matchBytes (rawTlvs fs f data mask gs))
      (Sw2.matchV (rawTlvs fs f data mask gs)) (Sw2.wireCat is) (is.map Prod.snd) :: rs2)
    (by
      intro r hr'
      rcases List.mem_append.mp hr' with hr' | hr'
      · exact hrs r hr'
      · rcases List.mem_cons.mp hr' with rfl | hr'
        · exact hr
        · exact hrs2 r hr')
    (by rw [hlen']; omega) depth s hwf
    (by
      rw [hb, hlen', ← htotal, recsBytes_insert]
      simp only [hdr, flowStatsFixed, Sw2.FsRec.bytes, Sw2.FsRec.size, mkRec, List.append_assoc])
  rw [hlen', ← htotal] at this
  rw [this]
  simp only [List.map_append, List.map_cons]
  rfl

/-! ## 5. Multipart replies of the types without a decoder -/

/-- the multipart types `MultipartReply.UnmarshalBinary` has a record decoder for: desc 0, flow 1, aggregate 2, table 3,
    port 4, queue 5.  Every other type — group 6, group-desc 7, group-features 8, meter 9, meter-config 10,
    meter-features 11, table-features 12, port-desc 13, experimenter 0xffff — has none -/
def NoRecordDecoder (mpType : UInt16) : Prop := 6 ≤ mpType.toNat
instance (t : UInt16) : Decidable (NoRecordDecoder t) := by unfold NoRecordDecoder; infer_instance

/-- a multipart reply of such a type with an EMPTY body (a group-desc reply of a switch without groups, a meter-config
    reply without meters) parses: header, type, flags, no records -/
theorem multipartReply_noDecoder_empty (xid : UInt32) (mpType flags : UInt16) (depth : Nat) (s : Slice) (hwf : s.WF)
    (hb : s.bytes = hdr 19 16 xid ++ be16 mpType ++ be16 flags ++ zeros 4) :
    parse depth s = .ok (.obj "MultipartReply" [hdrV 19 16 xid, .num mpType.toNat, .num flags.toNat, .bytes [], .list []]) := by
  simp only [hdr, List.append_assoc] at hb
  obtain ⟨k, hk⟩ := Sw.parse_step depth s
  rw [hk, Sw.step_multipartReply _ s (Sw.byteAt_at s 1 19 _ (by rw [hb]; rfl))]
  unfold MultipartReply.unmarshalWith MultipartReply.zero msgTryU
  simp only [Sw.header_at _ s hwf 4 19 _ xid _ hb, Res.bind_ok,
    Sw.u16From_at s 8 mpType _ (by rw [hb]; rfl),
    Sw.u16From_at s 10 flags _ (by rw [hb]; rfl), Header.length]
  rw [Sw.msgLoopW_stop _ _ _ _ _ (by rfl)]
  rfl

/-- COUNTEREXAMPLE: a multipart reply of a type without a record decoder — group (6), group-desc (7), group-features (8),
    meter (9), meter-config (10), meter-features (11), table-features (12), port-desc (13), experimenter (0xffff) — with
    ANY non-empty body is REJECTED: `repl` stays nil, `repl.UnmarshalBinary` panics, Parse recovers and reports an error.
    (Generalises `C04.portDescReply_rejected`.)  A controller can therefore not learn the groups, meters or table
    features of a switch through this library. -/
theorem multipartReply_noDecoder_rejected (xid : UInt32) (mpType flags : UInt16) (hty : NoRecordDecoder mpType)
    (body : Bytes) (hne : 0 < body.length) (hlen : 16 + body.length < 65536) (depth : Nat) (s : Slice) (hwf : s.WF)
    (hb : s.bytes = hdr 19 (UInt16.ofNat (16 + body.length)) xid ++ be16 mpType ++ be16 flags ++ zeros 4 ++ body) :
    parse depth s = .err := by
  simp only [hdr, List.append_assoc] at hb
  obtain ⟨k, hk⟩ := Sw.parse_step depth s
  have hl : s.len = 16 + body.length := by rw [← Sw.bytes_length s hwf, hb]; simp; omega
  obtain ⟨d, h1, hdwf, hdl, _⟩ := Sw.fromR_at s hwf 16 (by omega)
  have hrec : MultipartReply.decodeRecord mpType.toNat d = .panic := by
    unfold NoRecordDecoder at hty
    unfold MultipartReply.decodeRecord
    have e : ∀ c, c < 6 → ¬ mpType.toNat = c := by intro c hc; omega
    rw [if_neg (e _ (by decide)), if_neg (e _ (by decide)), if_neg (e _ (by decide)), if_neg (e _ (by decide)),
      if_neg (e _ (by decide)), if_neg (e _ (by decide))]
  rw [hk, Sw.step_multipartReply _ s (Sw.byteAt_at s 1 19 _ (by rw [hb]; rfl))]
  unfold MultipartReply.unmarshalWith MultipartReply.zero msgTryU
  simp only [Sw.header_at _ s hwf 4 19 _ xid _ hb, Res.bind_ok,
    Sw.u16From_at s 8 mpType _ (by rw [hb]; rfl),
    Sw.u16From_at s 10 flags _ (by rw [hb]; rfl), Header.length, Sw.ofNat16_toNat _ hlen]
  rw [Sw.msgLoopW_panic _ _ _ _ _ (by simp; omega) (by simp only [h1, Res.bind_ok, hrec]; rfl)]
  rfl

/-! ## Counterexamples: TLVs the field decoder fails on -/

/-- a class-1 field number without any `case` (48..103, 115..118, 126, 127): the field decoder returns an error -/
theorem nxmUnknown_field_rejected (f : Nat) (hf : Sw3.NxmUnknown f) (hasMask : Bool) (fieldLen : UInt8) (d : Slice)
    (hwf : d.WF) (rest : Bytes)
    (hb : d.bytes = be16 1 ++ [UInt8.ofNat (2 * f + (if hasMask then 1 else 0)), fieldLen] ++ rest) :
    MatchField.unmarshal MatchField.zero d = .err :=
  Sw3.fieldErr_nxmUnknown f hf (if hasMask then 1 else 0) (by cases hasMask <;> simp) fieldLen d hwf rest hb

/-- COUNTEREXAMPLE: a TLV of a class `DecodeMatchField` does not know — any class but OPENFLOW_BASIC 0x8000, NXM_1 1,
    EXPERIMENTER 0xffff; e.g. NXM_0 = 0, the class of the original Nicira fields — makes the field decoder PANIC
    (`log.Panicf("Unsupported match field …")`), whatever the field byte, the length byte and the payload -/
theorem otherClass_field_panics (cls : UInt16) (h0 : cls.toNat ≠ 0x8000) (h1 : cls.toNat ≠ 1) (h2 : cls.toNat ≠ 0xffff)
    (fld fieldLen : UInt8) (d : Slice) (hwf : d.WF) (rest : Bytes) (hb : d.bytes = be16 cls ++ [fld, fieldLen] ++ rest) :
    MatchField.unmarshal MatchField.zero d = .panic :=
  Sw3.fieldPanic_otherClass cls h0 h1 h2 fld fieldLen d hwf rest hb

/-- a packet-in whose match holds — after any list of decodable TLVs — a TLV header `bad` on which the field decoder
    returns an error or panics is REJECTED as a whole (Parse recovers a panic into an error) -/
theorem packetIn_badField_rejected (xid : UInt32) (len : UInt16) (bufferId : UInt32) (totalLen : UInt16)
    (reason tableId : UInt8) (cookie : UInt64) (fs : List (Bytes × V)) (hfs : ∀ p ∈ fs, Sw2.FieldDec p.1 p.2) (bad : Bytes)
    (hbad : Sw3.FieldErr bad ∨ Sw3.FieldPanic bad) (mlen : UInt16) (tail : Bytes)
    (hmlen : 4 + (Sw2.tlvCat fs).length < mlen.toNat) (depth : Nat) (s : Slice) (hwf : s.WF)
    (hb : s.bytes = hdr 10 len xid ++ packetInFixed bufferId totalLen reason tableId cookie
      ++ (be16 1 ++ be16 mlen ++ Sw2.tlvCat fs ++ bad ++ tail)) :
    parse depth s = .err := by
  simp only [hdr, packetInFixed, List.append_assoc] at hb
  obtain ⟨k, hk⟩ := Sw.parse_step depth s
  have hl : 24 + (4 + (Sw2.tlvCat fs).length + (bad.length + tail.length)) = s.len := by
    rw [← Sw.bytes_length s hwf, hb]; simp; omega
  obtain ⟨dm, h1, hdmwf, _, hdm⟩ := Sw.fromR_at s hwf 24 (by omega)
  rw [hb] at hdm
  have hdm' : dm.bytes = be16 1 ++ (be16 mlen ++ (Sw2.tlvCat fs ++ (bad ++ tail))) := by rw [hdm]; rfl
  rw [hk, Sw.step_packetIn _ s (Sw.byteAt_at s 1 10 _ (by rw [hb]; rfl))]
  unfold PacketIn.unmarshal PacketIn.zero msgTryU
  rcases hbad with hbad | hbad
  · have hmatch : Match.unmarshal msgMatchZero dm = .err := Sw3.match_fieldErr _ _ fs hfs bad hbad mlen tail dm hdmwf hmlen hdm'
    simp only [Res.bind_ok, Sw.header_at _ s hwf 4 10 len xid _ hb,
      Sw.u32From_at s 8 bufferId _ (by rw [hb]; rfl),
      Sw.u16From_at s 12 totalLen _ (by rw [hb]; rfl),
      Sw.byteAt_at s 14 reason _ (by rw [hb]; rfl),
      Sw.byteAt_at s 15 tableId _ (by rw [hb]; rfl),
      Sw.u64From_at s 16 cookie _ (by rw [hb]; rfl), h1, hmatch]
    rfl
  · have hmatch : Match.unmarshal msgMatchZero dm = .panic := Sw3.match_fieldPanic _ _ fs hfs bad hbad mlen tail dm hdmwf hmlen hdm'
    simp only [Res.bind_ok, Sw.header_at _ s hwf 4 10 len xid _ hb,
      Sw.u32From_at s 8 bufferId _ (by rw [hb]; rfl),
      Sw.u16From_at s 12 totalLen _ (by rw [hb]; rfl),
      Sw.byteAt_at s 14 reason _ (by rw [hb]; rfl),
      Sw.byteAt_at s 15 tableId _ (by rw [hb]; rfl),
      Sw.u64From_at s 16 cookie _ (by rw [hb]; rfl), h1, hmatch]
    rfl

/-- a packet-in whose match contains a class-1 field number the library has no `case` for is rejected with an error -/
theorem packetIn_nxmUnknownField_rejected (xid : UInt32) (len : UInt16) (bufferId : UInt32) (totalLen : UInt16)
    (reason tableId : UInt8) (cookie : UInt64) (fs : List (Bytes × V)) (hfs : ∀ p ∈ fs, Sw2.FieldDec p.1 p.2) (f : Nat)
    (hf : Sw3.NxmUnknown f) (hasMask : Bool) (fieldLen : UInt8) (mlen : UInt16) (tail : Bytes)
    (hmlen : 4 + (Sw2.tlvCat fs).length < mlen.toNat) (depth : Nat) (s : Slice) (hwf : s.WF)
    (hb : s.bytes = hdr 10 len xid ++ packetInFixed bufferId totalLen reason tableId cookie
      ++ (be16 1 ++ be16 mlen ++ Sw2.tlvCat fs
        ++ (be16 1 ++ [UInt8.ofNat (2 * f + (if hasMask then 1 else 0)), fieldLen]) ++ tail)) :
    parse depth s = .err :=
  packetIn_badField_rejected xid len bufferId totalLen reason tableId cookie fs hfs _
    (.inl (Sw3.fieldErr_nxmUnknown f hf (if hasMask then 1 else 0) (by cases hasMask <;> simp) fieldLen)) mlen tail hmlen depth s hwf hb

/-- a flow-removed whose match holds — after any list of decodable TLVs — a TLV header on which the field decoder returns
    an error or panics is REJECTED -/
theorem flowRemoved_badField_rejected (xid : UInt32) (len : UInt16) (cookie : UInt64) (priority : UInt16)
    (reason tableId : UInt8) (durationSec durationNsec : UInt32) (idleTimeout hardTimeout : UInt16)
    (packetCount byteCount : UInt64) (fs : List (Bytes × V)) (hfs : ∀ p ∈ fs, Sw2.FieldDec p.1 p.2) (bad : Bytes)
    (hbad : Sw3.FieldErr bad ∨ Sw3.FieldPanic bad) (mlen : UInt16) (tail : Bytes)
    (hmlen : 4 + (Sw2.tlvCat fs).length < mlen.toNat) (hsz : 4 + (Sw2.tlvCat fs).length + 7 < 65536)
    (depth : Nat) (s : Slice) (hwf : s.WF)
    (hb : s.bytes = hdr 11 len xid ++ flowRemovedFixed cookie priority reason tableId durationSec durationNsec
      idleTimeout hardTimeout packetCount byteCount ++ (be16 1 ++ be16 mlen ++ Sw2.tlvCat fs ++ bad ++ tail)) :
    parse depth s = .err := by
  simp only [hdr, flowRemovedFixed, List.append_assoc] at hb
  obtain ⟨k, hk⟩ := Sw.parse_step depth s
  have hl : 48 + (4 + (Sw2.tlvCat fs).length + (bad.length + tail.length)) = s.len := by
    rw [← Sw.bytes_length s hwf, hb]; simp; omega
  obtain ⟨d0, h0, hd0wf, _, hd0⟩ := Sw.fromR_at s hwf 0 (by omega)
  obtain ⟨dm, h1, hdmwf, _, hdm⟩ := Sw.fromR_at s hwf 48 (by omega)
  rw [hb] at hdm
  have hdm' : dm.bytes = be16 1 ++ (be16 mlen ++ (Sw2.tlvCat fs ++ (bad ++ tail))) := by rw [hdm]; rfl
  obtain ⟨ml, hml, _⟩ := Sw2.match_len_any (.num 1) (.num mlen.toNat) fs hfs hsz
  rw [hk, Sw.step_flowRemoved _ s (Sw.byteAt_at s 1 11 _ (by rw [hb]; rfl))]
  unfold FlowRemoved.unmarshal flowRemovedRecv InstrAux.catchErr InstrAux.matchUnmarshalP
  rcases hbad with hbad | hbad
  · have hmatch := Sw3.match_fieldErrP (.num Gen.openflow13.MatchType_OXM) (.num 4) fs hfs bad hbad mlen tail dm hdmwf hmlen hdm'
    simp only [h0, Res.bind_ok, Sw.header_at _ d0 hd0wf 4 11 len xid _ (by rw [hd0, hb]; rfl),
      Sw.u64From_at s 8 cookie _ (by rw [hb]; rfl),
      Sw.u16From_at s 16 priority _ (by rw [hb]; rfl),
      Sw.byteAt_at s 18 reason _ (by rw [hb]; rfl),
      Sw.byteAt_at s 19 tableId _ (by rw [hb]; rfl),
      Sw.u32From_at s 20 durationSec _ (by rw [hb]; rfl),
      Sw.u32From_at s 24 durationNsec _ (by rw [hb]; rfl),
      Sw.u16From_at s 28 idleTimeout _ (by rw [hb]; rfl),
      Sw.u16From_at s 30 hardTimeout _ (by rw [hb]; rfl),
      Sw.u64From_at s 32 packetCount _ (by rw [hb]; rfl),
      Sw.u64From_at s 40 byteCount _ (by rw [hb]; rfl), h1, Match.new, hmatch, hml]
    rfl
  · have hmatch := Sw3.match_fieldPanicP (.num Gen.openflow13.MatchType_OXM) (.num 4) fs hfs bad hbad mlen tail dm hdmwf hmlen hdm'
    simp only [h0, Res.bind_ok, Sw.header_at _ d0 hd0wf 4 11 len xid _ (by rw [hd0, hb]; rfl),
      Sw.u64From_at s 8 cookie _ (by rw [hb]; rfl),
      Sw.u16From_at s 16 priority _ (by rw [hb]; rfl),
      Sw.byteAt_at s 18 reason _ (by rw [hb]; rfl),
      Sw.byteAt_at s 19 tableId _ (by rw [hb]; rfl),
      Sw.u32From_at s 20 durationSec _ (by rw [hb]; rfl),
      Sw.u32From_at s 24 durationNsec _ (by rw [hb]; rfl),
      Sw.u16From_at s 28 idleTimeout _ (by rw [hb]; rfl),
      Sw.u16From_at s 30 hardTimeout _ (by rw [hb]; rfl),
      Sw.u64From_at s 32 packetCount _ (by rw [hb]; rfl),
      Sw.u64From_at s 40 byteCount _ (by rw [hb]; rfl), h1, Match.new, hmatch]
    rfl

/-- a multipart flow-stats reply in which — after ANY list of decodable records — comes a record whose match holds, after any
    list of decodable TLVs, a TLV header `bad` on which the field decoder PANICS (`mtail`: its payload, further TLVs and
    the padding of the match; `ib`: the record's instructions, any bytes) is REJECTED, whatever follows that record
    (`tail`): Parse recovers the panic and returns an error — not one of the flows of the reply reaches the controller.
    (The counterpart for a TLV the field decoder returns an error on: `C04b.flowStatsReply_unsupportedField_rejected`.) -/
theorem flowStatsReply_panicField_rejected (xid : UInt32) (mpFlags len : UInt16) (rs : List Sw2.FsRec)
    (hrs : ∀ r ∈ rs, r.OK) (fx : Sw2.FsRec) (fs : List (Bytes × V)) (hfs : ∀ p ∈ fs, Sw2.FieldDec p.1 p.2) (bad : Bytes)
    (hbad : Sw3.FieldPanic bad) (mlen : UInt16) (mtail ib : Bytes)
    (hmlen : 4 + (Sw2.tlvCat fs).length < mlen.toNat)
    (hsize : 48 + (4 + (Sw2.tlvCat fs).length + bad.length + mtail.length) + ib.length < 65536)
    (tail : Bytes) (hlen : 16 + (Sw2.recsBytes rs).length < len.toNat) (depth : Nat) (s : Slice) (hwf : s.WF)
    (hb : s.bytes = hdr 19 len xid ++ be16 1 ++ be16 mpFlags ++ zeros 4 ++ Sw2.recsBytes rs
      ++ (flowStatsFixed (UInt16.ofNat (48 + (4 + (Sw2.tlvCat fs).length + bad.length + mtail.length) + ib.length))
            fx.tableId fx.durationSec fx.durationNsec fx.priority fx.idleTimeout fx.hardTimeout fx.flags fx.cookie fx.packetCount
            fx.byteCount
          ++ (be16 1 ++ be16 mlen ++ Sw2.tlvCat fs ++ bad ++ mtail)
          ++ ib)
      ++ tail) :
    parse depth s = .err := by
  have hmbl : (be16 1 ++ (be16 mlen ++ (Sw2.tlvCat fs ++ (bad ++ mtail)))).length
      = 4 + (Sw2.tlvCat fs).length + bad.length + mtail.length := by simp; omega
  exact Sw3.flowStats_reply_matchPanic xid mpFlags len rs hrs
    (mkRec fx (be16 1 ++ (be16 mlen ++ (Sw2.tlvCat fs ++ (bad ++ mtail)))) .nil ib [])
    (by
      intro a b dm hdmwf rest h
      exact Sw3.match_fieldPanicP a b fs hfs bad hbad mlen (mtail ++ rest) dm
        hdmwf hmlen (by rw [h]; simp only [mkRec, List.append_assoc]))
    (by simp only [Sw2.FsRec.size, mkRec, hmbl]; omega)
    tail hlen depth s hwf
    (by
      rw [hb]
      simp only [hdr, flowStatsFixed, Sw2.FsRec.bytes, Sw2.FsRec.size, mkRec, hmbl, List.append_assoc])

/-! ## Examples: every theorem instantiated with concrete values -/

section Examples

/-- IPv4 router-alert option (RFC 2113): 94 04 00 00 — IHL 6 -/
def optRouterAlert : Bytes := [0x94, 4, 0, 0]

/-- the 24 header bytes, literally: 0x46 = version 4, IHL 6 -/
example : ipv4OptBytes (ip4h 17) optRouterAlert
    = [0x46, 0xb9, 0, 40, 0x12, 0x34, 0x40, 0, 64, 17, 0xbe, 0xef, 10, 0, 0, 1, 10, 0, 0, 2, 0x94, 4, 0, 0] := by decide

example : Sw2.Dec (PIPv4.unmarshal PIPv4.zero) (ipv4OptBytes (ip4h 1) optRouterAlert ++ icmpBytes 8 0 0x1234 [1, 2])
    (ipv4OptV (ip4h 1) optRouterAlert (icmpV 8 0 0x1234 [1, 2])) :=
  ipv4_options_icmp (ip4h 1) (by decide) rfl _ (by decide) 8 0 0x1234 [1, 2]

/-- the longest header: IHL 15, forty option bytes (a record-route option 07 27 04 + 36 bytes, end-of-list) -/
def optRecordRoute : Bytes := [7, 39, 4] ++ zeros 36 ++ [0]

example : ihlOf optRecordRoute = 15 := by decide

example : Sw2.Dec (PIPv4.unmarshal PIPv4.zero) (ipv4OptBytes (ip4h 17) optRecordRoute ++ udpBytes 53 5353 12 0 [1, 2, 3, 4])
    (ipv4OptV (ip4h 17) optRecordRoute (udpV 53 5353 12 0 [1, 2, 3, 4])) :=
  ipv4_options_udp (ip4h 17) (by decide) rfl _ (by decide) 53 5353 12 0 [1, 2, 3, 4]

/-- IGMP (protocol 2) behind a router-alert option: an opaque payload -/
example : Sw2.Dec (PIPv4.unmarshal PIPv4.zero) (ipv4OptBytes (ip4h 2) optRouterAlert ++ [0x11, 100, 0xee, 0x9b, 0, 0, 0, 0])
    (ipv4OptV (ip4h 2) optRouterAlert (.obj "u.Buffer" [.bytes [0x11, 100, 0xee, 0x9b, 0, 0, 0, 0]])) :=
  ipv4_options_other (ip4h 2) (by decide) (by decide) (by decide) _ (by decide) _

example : FrameDec (ethTaggedBytes macA macB 5 0 100 0x0800 (ipv4OptBytes (ip4h 1) optRouterAlert ++ icmpBytes 8 0 0x1234 [1, 2]))
    (ethFrameV macA macB (.obj "p.VLAN" [.num 0x8100, .num 5, .num 0, .num 100]) 0x0800
      (ipv4OptV (ip4h 1) optRouterAlert (icmpV 8 0 0x1234 [1, 2]))) :=
  frame_vlan_ipv4_options macA macB 5 0 100 (ip4h 1) optRouterAlert _ _ rfl rfl (by decide) (by decide) (by decide) (by decide)
    (by decide) (l4_icmp 8 0 0x1234 [1, 2])

/-- packet-in, in_port match, IPv4 with a router-alert option, ICMP echo request (88 bytes) -/
example : parse 0 (Slice.exact (hdr 10 88 3 ++ packetInFixed 0xffffffff 46 0 0 0 ++ matchInPort 1 ++ zeros 2
      ++ ethBytes macA macB 0x0800 (ipv4OptBytes (ip4h 1) optRouterAlert ++ icmpBytes 8 0 0x1234 [1, 2, 3, 4])))
    = .ok (packetInV (hdrV 10 88 3) 0xffffffff 46 0 0 0 (Sw.matchInPortV 1)
        (ethFrameV macA macB noVlanV 0x0800 (ipv4OptV (ip4h 1) optRouterAlert (icmpV 8 0 0x1234 [1, 2, 3, 4])))) :=
  packetIn_ipv4_options 3 88 0xffffffff 46 0 0 0 _ _ (matchInPort_dec 1) macA macB (ip4h 1) optRouterAlert _ _ rfl rfl
    (by decide) (by decide) (l4_icmp 8 0 0x1234 [1, 2, 3, 4]) 0 _ (Slice.exact_wf _) (Sw.exact_bytes _)

/-- packet-in carrying a tagged IPv4 packet with forty option bytes and UDP behind them -/
example : ∃ v, parse 0 (Slice.exact (hdr 10 132 3 ++ packetInFixed 7 90 1 2 0xabc ++ matchInPort 1 ++ zeros 2
      ++ ethTaggedBytes macA macB 3 0 100 0x0800 (ipv4OptBytes (ip4h 17) optRecordRoute ++ udpBytes 53 5353 12 0 [1, 2, 3, 4])))
    = .ok v :=
  ⟨_, packetIn_vlan_ipv4_options 3 132 7 90 1 2 0xabc _ _ (matchInPort_dec 1) macA macB 3 0 100 (ip4h 17) optRecordRoute _ _
    rfl rfl (by decide) (by decide) (by decide) (by decide) (by decide) (l4_udp 53 5353 12 0 [1, 2, 3, 4]) 0 _
    (Slice.exact_wf _) (Sw.exact_bytes _)⟩

/-- a type-2 routing header (Mobile IPv6, RFC 6275): HEL 2, segments left 1, reserved(4), home address(16) -/
def rt2Data : Bytes := zeros 4 ++ [0x20, 1, 0xd, 0xb8, 0, 0, 0, 0, 0, 0, 0, 0, 0, 0, 0, 5]

example : Sw2.Chain 43 (routingBytes 58 2 2 1 rt2Data) 58 .nil (routingV 58 2 2 1 rt2Data) .nil :=
  chain_routing 58 2 2 1 rt2Data (by decide) (by decide)

/-- a segment-routing header (RFC 8754, type 4): HEL 4, segments left 1, last entry 1, flags 0, tag 7, two segments -/
def srhData : Bytes :=
  [1, 0, 0, 7] ++ [0xfc, 0, 0, 0, 0, 0, 0, 0, 0, 0, 0, 0, 0, 0, 0, 1] ++ [0xfc, 0, 0, 0, 0, 0, 0, 0, 0, 0, 0, 0, 0, 0, 0, 2]

example : Sw2.Chain 43 (routingBytes 17 4 4 1 srhData) 17 .nil (routingV 17 4 4 1 srhData) .nil :=
  chain_routing 17 4 4 1 srhData (by decide) (by decide)

/-- hop-by-hop header of 24 bytes (HEL 2): router alert, PadN with 6 data bytes, an unknown option (type 0x3e) with 6 data
    bytes, two Pad1 -/
def hbhOpts2 : List Sw2.Opt :=
  [.tlv 5 [0, 0], .tlv 1 (zeros 6), .tlv 0x3e [1, 2, 3, 4, 5, 6], .pad1, .pad1]

example : (hbhOptsBytes 43 2 hbhOpts2).length = 24 := by decide

example : Sw2.Chain 0 (hbhOptsBytes 58 2 hbhOpts2) 58 (Sw2.hbhOptsV 58 2 hbhOpts2) .nil .nil :=
  chain_hbh_options 58 2 hbhOpts2 (by decide) (by decide) (by decide)

/-- HEL 255: a hop-by-hop header of 2048 bytes -/
example : Sw2.Chain 0 ([58, 255] ++ zeros 2046) 58 (Sw2.hbhOptsV 58 255 (List.replicate 2046 .pad1)) .nil .nil :=
  chain_hbh_allPad1 58 255 (by decide)

/-- HEL 3: one PadN option with 28 data bytes -/
example : ∃ hv, Sw2.Chain 0 ([58, 3] ++ ([1, UInt8.ofNat (8 * ((3 : UInt8).toNat + 1) - 4)] ++ zeros (8 * ((3 : UInt8).toNat + 1) - 4)))
    58 hv .nil .nil := ⟨_, chain_hbh_padN 58 3 (by decide) (by decide)⟩

/-- hop-by-hop (HEL 2), routing (type 2), fragment — the recommended order -/
def extsA : List Sw3.Ext := [.hbh 43 2 hbhOpts2, .rt 44 2 2 1 rt2Data, .frag 17 185 true 0xdeadbeef]

/-- fragment, segment-routing header, hop-by-hop — an order the decoder walks all the same -/
def extsB : List Sw3.Ext := [.frag 43 0 false 9, .rt 0 4 4 1 srhData, .hbh 6 2 hbhOpts2]

example : (Sw3.extsBytes extsA).length = 56 := by decide

example : Sw2.Chain 0 (Sw3.extsBytes extsA) 17 (Sw2.hbhOptsV 43 2 hbhOpts2) (routingV 44 2 2 1 rt2Data) (fragV 17 185 true 0xdeadbeef) :=
  chain_any 0 extsA (by decide) 17 (by decide) (by decide)

example : Sw2.Chain 44 (Sw3.extsBytes extsB) 6 (Sw2.hbhOptsV 6 2 hbhOpts2) (routingV 0 4 4 1 srhData) (fragV 43 0 false 9) :=
  chain_any 44 extsB (by decide) 6 (by decide) (by decide)

example : Sw2.Chain 0 (hbhOptsBytes 43 2 hbhOpts2 ++ routingBytes 44 2 2 1 rt2Data ++ fragBytes 17 185 true 0xdeadbeef) 17
    (Sw2.hbhOptsV 43 2 hbhOpts2) (routingV 44 2 2 1 rt2Data) (fragV 17 185 true 0xdeadbeef) :=
  chain_hbh_routing_frag 2 hbhOpts2 (by decide) (by decide) 2 2 1 rt2Data (by decide) 17 185 true 0xdeadbeef (by decide) (by decide)

example : Sw2.Chain 43 (routingBytes 44 4 4 1 srhData ++ fragBytes 6 100 false 9) 6 .nil (routingV 44 4 4 1 srhData)
    (fragV 6 100 false 9) :=
  chain_routing_frag 4 4 1 srhData (by decide) 6 100 false 9 (by decide) (by decide)

example : Sw2.Chain 44 (fragBytes 43 0 false 9 ++ routingBytes 0 4 4 1 srhData ++ hbhOptsBytes 6 2 hbhOpts2) 6
    (Sw2.hbhOptsV 6 2 hbhOpts2) (routingV 0 4 4 1 srhData) (fragV 43 0 false 9) :=
  chain_frag_routing_hbh 0 false 9 (by decide) 4 4 1 srhData (by decide) 6 2 hbhOpts2 (by decide) (by decide) (by decide)

/-- two routing headers: only the second is in the decoded packet -/
example : Sw2.Chain 43 (routingBytes 43 2 2 1 rt2Data ++ routingBytes 58 4 4 1 srhData) 58 .nil (routingV 58 4 4 1 srhData) .nil :=
  repeated_kind_last_wins 2 2 1 rt2Data (by decide) 58 4 4 1 srhData (by decide) (by decide)

example : Sw2.Dec (PIPv6.unmarshal PIPv6.zero) ((ip6h 0).bytes ++ Sw3.extsBytes extsA ++ udpBytes 546 547 12 0 [1, 2, 3, 4])
    (ipv6ExtsV (ip6h 0) extsA (udpV 546 547 12 0 [1, 2, 3, 4])) :=
  ipv6_exts_packet (ip6h 0) (by decide) extsA (by decide) 17 (by decide) (by decide) _ _ (u6_udp 546 547 12 0 [1, 2, 3, 4])

example : FrameDec (ethTaggedBytes macA macB 7 1 4095 0x86dd ((ip6h 44).bytes ++ Sw3.extsBytes extsB ++ [1, 2, 3, 4]))
    (ethFrameV macA macB (.obj "p.VLAN" [.num 0x8100, .num 7, .num 1, .num 4095]) 0x86dd
      (ipv6ExtsV (ip6h 44) extsB (.obj "u.Buffer" [.bytes [1, 2, 3, 4]]))) :=
  frame_vlan_ipv6_exts macA macB 7 1 4095 (ip6h 44) extsB 6 _ _ rfl rfl (by decide) (by decide) (by decide) (by decide)
    (by decide) (by decide) (by decide) (u6_other 6 (by decide) (by decide) [1, 2, 3, 4])

/-- packet-in: IPv6, type-2 routing header, ICMPv6 echo request (128 bytes) -/
example : parse 0 (Slice.exact (hdr 10 128 3 ++ packetInFixed 0xffffffff 86 0 0 0 ++ matchInPort 1 ++ zeros 2
      ++ ethBytes macA macB 0x86dd ((ip6h 43).bytes ++ routingBytes 58 2 2 1 rt2Data ++ icmpBytes 128 0 0x1234 [1, 2, 3, 4])))
    = .ok (packetInV (hdrV 10 128 3) 0xffffffff 86 0 0 0 (Sw.matchInPortV 1)
        (ethFrameV macA macB noVlanV 0x86dd ((ip6h 43).val .nil (routingV 58 2 2 1 rt2Data) .nil (icmpV 128 0 0x1234 [1, 2, 3, 4])))) :=
  packetIn_ipv6_routing_icmpv6 3 128 0xffffffff 86 0 0 0 _ _ (matchInPort_dec 1) macA macB (ip6h 43) 2 2 1 rt2Data 128 0 0x1234
    [1, 2, 3, 4] rfl rfl (by decide) rfl (by decide) 0 _ (Slice.exact_wf _) (Sw.exact_bytes _)

/-- packet-in: IPv6, hop-by-hop (HEL 2), routing, fragment, UDP -/
example : ∃ v, parse 0 (Slice.exact (hdr 10 164 3 ++ packetInFixed 7 122 1 2 0xabc ++ matchInPort 1 ++ zeros 2
      ++ ethBytes macA macB 0x86dd ((ip6h 0).bytes ++ (hbhOptsBytes 43 2 hbhOpts2 ++ routingBytes 44 2 2 1 rt2Data
          ++ fragBytes 17 185 true 0xdeadbeef) ++ udpBytes 546 547 12 0 [1, 2, 3, 4]))) = .ok v :=
  ⟨_, packetIn_ipv6_hbh_routing_frag_udp 3 164 7 122 1 2 0xabc _ _ (matchInPort_dec 1) macA macB (ip6h 0) 2 hbhOpts2 2 2 1 rt2Data
    185 true 0xdeadbeef 546 547 12 0 [1, 2, 3, 4] rfl rfl (by decide) rfl (by decide) (by decide) (by decide) (by decide) 0 _
    (Slice.exact_wf _) (Sw.exact_bytes _)⟩

/-- packet-in: IPv6, segment-routing header, TCP (opaque) -/
example : ∃ v, parse 0 (Slice.exact (hdr 10 140 3 ++ packetInFixed 7 98 1 2 0xabc ++ matchInPort 1 ++ zeros 2
      ++ ethBytes macA macB 0x86dd ((ip6h 43).bytes ++ routingBytes 6 4 4 1 srhData ++ [1, 2, 3, 4]))) = .ok v :=
  ⟨_, packetIn_ipv6_routing_other 3 140 7 98 1 2 0xabc _ _ (matchInPort_dec 1) macA macB (ip6h 43) 6 4 4 1 srhData [1, 2, 3, 4]
    rfl rfl (by decide) rfl (by decide) (by decide) (by decide) (by decide) 0 _ (Slice.exact_wf _) (Sw.exact_bytes _)⟩

/-- packet-in: tagged IPv6 with the chain fragment, routing, hop-by-hop in front of an opaque payload -/
example : ∃ v, parse 0 (Slice.exact (hdr 10 176 3 ++ packetInFixed 7 130 1 2 0xabc ++ matchInPort 1 ++ zeros 2
      ++ ethTaggedBytes macA macB 0 0 7 0x86dd ((ip6h 44).bytes ++ Sw3.extsBytes extsB ++ [1, 2, 3, 4]))) = .ok v :=
  ⟨_, packetIn_vlan_ipv6_exts 3 176 7 130 1 2 0xabc _ _ (matchInPort_dec 1) macA macB 0 0 7 (ip6h 44) extsB 6 _ _ rfl rfl
    (by decide) (by decide) (by decide) (by decide) (by decide) (by decide) (by decide) (u6_other 6 (by decide) (by decide) [1, 2, 3, 4])
    0 _ (Slice.exact_wf _) (Sw.exact_bytes _)⟩

example : ∃ v, parse 0 (Slice.exact (hdr 10 164 3 ++ packetInFixed 7 122 1 2 0xabc ++ matchInPort 1 ++ zeros 2
      ++ ethBytes macA macB 0x86dd ((ip6h 0).bytes ++ Sw3.extsBytes extsA ++ udpBytes 546 547 12 0 [1, 2, 3, 4]))) = .ok v :=
  ⟨_, packetIn_ipv6_exts 3 164 7 122 1 2 0xabc _ _ (matchInPort_dec 1) macA macB (ip6h 0) extsA 17 _ _ rfl rfl
    (by decide) (by decide) (by decide) (by decide) (u6_udp 546 547 12 0 [1, 2, 3, 4]) 0 _ (Slice.exact_wf _) (Sw.exact_bytes _)⟩

/-! ### Nicira fields -/

example : ∃ fv, Sw2.FieldDec (be16 1 ++ ([211, 8] ++ (be32 0x21 ++ be32 0x23))) fv := ⟨_, oxm_nxm_ctState_masked 0x21 0x23⟩
example : ∃ fv, Sw2.FieldDec (be16 1 ++ ([210, 4] ++ be32 0x21)) fv := ⟨_, oxm_nxm_ctState 0x21⟩
example : ∃ fv, Sw2.FieldDec (be16 1 ++ ([212, 2] ++ be16 4096)) fv := ⟨_, oxm_nxm_ctZone 4096⟩
example : ∃ fv, Sw2.FieldDec (be16 1 ++ ([214, 4] ++ be32 0xcafe)) fv := ⟨_, oxm_nxm_ctMark 0xcafe⟩
example : ∃ fv, Sw2.FieldDec (be16 1 ++ ([215, 8] ++ (be32 0xcafe ++ be32 0xffff))) fv := ⟨_, oxm_nxm_ctMark_masked 0xcafe 0xffff⟩
example : ∃ fv, Sw2.FieldDec (be16 1 ++ ([66, 4] ++ be32 7)) fv := ⟨_, oxm_nxm_pktMark 7⟩
example : ∃ fv, Sw2.FieldDec (be16 1 ++ ([67, 8] ++ (be32 7 ++ be32 15))) fv := ⟨_, oxm_nxm_pktMark_masked 7 15⟩
example : ∃ fv, Sw2.FieldDec (be16 1 ++ ([74, 4] ++ be32 1234)) fv := ⟨_, oxm_nxm_conjId 1234⟩
example : ∃ fv, Sw2.FieldDec (be16 1 ++ ([54, 4] ++ be32 0x12345)) fv := ⟨_, oxm_nxm_ipv6Label 0x12345⟩
example : ∃ fv, Sw2.FieldDec (be16 1 ++ ([62, 4] ++ [192, 168, 0, 1])) fv := ⟨_, oxm_nxm_tunIpv4Src 192 168 0 1⟩
example : ∃ fv, Sw2.FieldDec (be16 1 ++ ([64, 4] ++ [192, 168, 0, 2])) fv := ⟨_, oxm_nxm_tunIpv4Dst 192 168 0 2⟩
example : ∃ fv, Sw2.FieldDec (be16 1 ++ ([65, 8] ++ ([192, 168, 0, 0] ++ [255, 255, 0, 0]))) fv :=
  ⟨_, oxm_nxm_tunIpv4Dst_masked 192 168 0 0 255 255 0 0⟩

/-- a connection-tracking label and its mask -/
def ctLabelA : Bytes := [0, 0, 0, 0, 0, 0, 0, 0, 0, 0, 0, 0, 0xde, 0xad, 0xbe, 0xef]
def ctLabelM : Bytes := zeros 12 ++ [0xff, 0xff, 0xff, 0xff]

example : Sw2.FieldDec (be16 1 ++ ([216, 16] ++ ctLabelA))
    (.obj "MatchField" [.num 1, .num 108, .num 0, .num 16, .num 0, .obj "CTLabel" [.bytes ctLabelA], .nil]) :=
  oxm_nxm_ctLabel ctLabelA rfl
example : ∃ fv, Sw2.FieldDec (be16 1 ++ ([217, 32] ++ (ctLabelA ++ ctLabelM))) fv := ⟨_, oxm_nxm_ctLabel_masked ctLabelA ctLabelM rfl rfl⟩

/-- tun_metadata0 with 12 bytes of Geneve option data: header 00 01 50 0c -/
example : Sw2.FieldDec (be16 1 ++ ([UInt8.ofNat (2 * (40 + 0)), UInt8.ofNat 12] ++ [1, 2, 3, 4, 5, 6, 7, 8, 9, 10, 11, 12]))
    (.obj "MatchField" [.num 1, .num 40, .num 0, .num 12, .num 0,
      .obj "ByteArrayField" [.bytes [1, 2, 3, 4, 5, 6, 7, 8, 9, 10, 11, 12], .num 12], .nil]) :=
  oxm_nxm_tunMetadata 0 (by decide) [1, 2, 3, 4, 5, 6, 7, 8, 9, 10, 11, 12] (by decide)
example : ∃ fv, Sw2.FieldDec (be16 1 ++ ([UInt8.ofNat (2 * (40 + 7) + 1), UInt8.ofNat (4 + 4)] ++ ([1, 2, 3, 4] ++ [255, 255, 0, 0]))) fv :=
  ⟨_, oxm_nxm_tunMetadata_masked 7 (by decide) [1, 2, 3, 4] [255, 255, 0, 0] (by decide) rfl⟩
example : ∃ fv, Sw2.FieldDec (be16 1 ++ ([UInt8.ofNat (2 * (111 + 0)), 16] ++ ctLabelA)) fv := ⟨_, oxm_nxm_xxreg 0 (by decide) ctLabelA rfl⟩
example : ∃ fv, Sw2.FieldDec (be16 1 ++ ([UInt8.ofNat (2 * (111 + 3) + 1), 32] ++ (ctLabelA ++ ctLabelM))) fv :=
  ⟨_, oxm_nxm_xxreg_masked 3 (by decide) ctLabelA ctLabelM rfl rfl⟩

/-- class-1 fields of a packet that went through conntrack and a tunnel: ct_state/mask, ct_zone, ct_mark, ct_label,
    tun_ipv4_dst, tun_metadata0, reg3/mask, ct_nw_src/mask, ct_tp_dst, nd_target -/
def sampleNxms : List Sw3.Nxm :=
  [⟨105, .m32 0x21, some (.m32 0x23)⟩, ⟨106, .m16 4096, none⟩, ⟨107, .m32 0xcafe, none⟩, ⟨108, .label ctLabelA, none⟩,
   ⟨32, .tun4 192 168 0 2, none⟩, ⟨40, .arr [1, 2, 3, 4, 5, 6, 7, 8], none⟩, ⟨3, .m32 7, some (.m32 0xff)⟩,
   ⟨120, .std (.ip4 10 1 0 0), some (.std (.ip4 255 255 0 0))⟩, ⟨125, .std (.u16 443), none⟩,
   ⟨23, .std (.ip6 ctLabelA), none⟩]

theorem sampleNxms_wf : ∀ o ∈ sampleNxms, o.WF := by
  intro o ho
  simp only [sampleNxms, List.mem_cons, List.not_mem_nil, or_false] at ho
  rcases ho with rfl | rfl | rfl | rfl | rfl | rfl | rfl | rfl | rfl | rfl
  · exact ⟨"Uint32Message", rfl, trivial, by intro m hm; cases hm; exact ⟨rfl, trivial, rfl⟩⟩
  · exact ⟨"Uint16Message", rfl, trivial, by simp⟩
  · exact ⟨"Uint32Message", rfl, trivial, by simp⟩
  · exact ⟨"CTLabel", rfl, rfl, by simp⟩
  · exact ⟨"TunnelIpv4DstField", rfl, trivial, by simp⟩
  · exact ⟨"ByteArrayField", rfl, by show ([1, 2, 3, 4, 5, 6, 7, 8] : Bytes).length < 128; decide, by simp⟩
  · exact ⟨"Uint32Message", rfl, trivial, by intro m hm; cases hm; exact ⟨rfl, trivial, rfl⟩⟩
  · exact ⟨"Ipv4SrcField", rfl, trivial, by intro m hm; cases hm; exact ⟨rfl, trivial, rfl⟩⟩
  · exact ⟨"PortField", rfl, trivial, by simp⟩
  · exact ⟨"Ipv6DstField", rfl, rfl, by simp⟩

/-- the wire form of that list: 116 bytes -/
example : (Sw2.tlvCat (nxmPairs sampleNxms)).length = 116 := by decide

example : Sw2.FieldDec (be16 1 ++ ([UInt8.ofNat (2 * 120 + 1), UInt8.ofNat (4 + 4)] ++ ([10, 1, 0, 0] ++ [255, 255, 0, 0])))
    (.obj "MatchField" [.num 1, .num 120, .num 1, .num 8, .num 0, .obj "Ipv4SrcField" [.bytes (ipv4 10 1 0 0)],
      .obj "Ipv4SrcField" [.bytes (ipv4 255 255 0 0)]]) :=
  oxm_nxm ⟨120, .std (.ip4 10 1 0 0), some (.std (.ip4 255 255 0 0))⟩ (sampleNxms_wf _ (by simp [sampleNxms]))

set_option maxRecDepth 10000 in
theorem sampleNxmMatch_len : 4 + (Sw2.tlvCat (oxmPairs sampleOxms ++ nxmPairs sampleNxms)).length + 7 < 60000 := by decide

example : Sw2.MatchDec (Sw2.matchBytes (oxmPairs sampleOxms ++ nxmPairs sampleNxms))
    (Sw2.matchV (oxmPairs sampleOxms ++ nxmPairs sampleNxms)) :=
  match_nxm sampleOxms sampleOxms_wf sampleNxms sampleNxms_wf sampleNxmMatch_len

/-- packet-in whose match holds the five basic-class and the ten class-1 fields, with an LLDP frame -/
example : ∃ v, parse 0 (Slice.exact (hdr 10 220 3 ++ packetInFixed 7 18 1 2 0xabc
      ++ Sw2.matchBytes (oxmPairs sampleOxms ++ nxmPairs sampleNxms) ++ zeros 2 ++ ethBytes macA macB 0x88cc [1, 2, 3, 4])) = .ok v :=
  ⟨_, packetIn_nxm_match 3 220 7 18 1 2 0xabc sampleOxms sampleOxms_wf sampleNxms sampleNxms_wf sampleNxmMatch_len macA macB
    0x88cc [1, 2, 3, 4] rfl rfl (by decide) 0 _ (Slice.exact_wf _) (Sw.exact_bytes _)⟩

example : ∃ v, parse 0 (Slice.exact (hdr 11 224 3 ++ flowRemovedFixed 0xc00c1e 100 1 7 60 999 30 0 12 3400
      ++ Sw2.matchBytes (oxmPairs sampleOxms ++ nxmPairs sampleNxms))) = .ok v :=
  ⟨_, flowRemoved_nxm_match 3 224 0xc00c1e 100 1 7 60 999 30 0 12 3400 sampleOxms sampleOxms_wf sampleNxms sampleNxms_wf
    sampleNxmMatch_len 0 _ (Slice.exact_wf _) (Sw.exact_bytes _)⟩

/-! ### multipart replies without a record decoder -/

/-- group-desc reply of a switch without groups -/
example : parse 0 (Slice.exact (hdr 19 16 3 ++ be16 7 ++ be16 0 ++ zeros 4))
    = .ok (.obj "MultipartReply" [hdrV 19 16 3, .num 7, .num 0, .bytes [], .list []]) :=
  multipartReply_noDecoder_empty 3 7 0 0 _ (Slice.exact_wf _) (Sw.exact_bytes _)

/-- one `ofp_group_desc`: length 24, type all, group 1, one bucket (length 16, weight 0, watch port/group any, no action) -/
def groupDescEntry : Bytes :=
  be16 24 ++ [0, 0] ++ be32 1 ++ (be16 16 ++ be16 0 ++ be32 0xffffffff ++ be32 0xffffffff ++ zeros 4)

/-- COUNTEREXAMPLE instance: group-desc reply with that group -/
example : parse 0 (Slice.exact (hdr 19 (UInt16.ofNat (16 + groupDescEntry.length)) 3 ++ be16 7 ++ be16 0 ++ zeros 4 ++ groupDescEntry))
    = .err :=
  multipartReply_noDecoder_rejected 3 7 0 (by decide) groupDescEntry (by decide) (by decide) 0 _ (Slice.exact_wf _)
    (Sw.exact_bytes _)

/-- `ofp_meter_features`: max_meter, band_types, capabilities, max_bands, max_color, pad(2) -/
def meterFeatures : Bytes := be32 1024 ++ be32 6 ++ be32 15 ++ [8, 3] ++ zeros 2

/-- COUNTEREXAMPLE instance: meter-features reply (multipart type 11) -/
example : parse 0 (Slice.exact (hdr 19 (UInt16.ofNat (16 + meterFeatures.length)) 3 ++ be16 11 ++ be16 0 ++ zeros 4 ++ meterFeatures))
    = .err :=
  multipartReply_noDecoder_rejected 3 11 0 (by decide) meterFeatures (by decide) (by decide) 0 _ (Slice.exact_wf _)
    (Sw.exact_bytes _)

/-- COUNTEREXAMPLE instance: table-features reply (type 12) with one 64-byte `ofp_table_features` without properties -/
example : parse 0 (Slice.exact (hdr 19 (UInt16.ofNat (16 + (be16 64 ++ zeros 62).length)) 3 ++ be16 12 ++ be16 0 ++ zeros 4
      ++ (be16 64 ++ zeros 62))) = .err :=
  multipartReply_noDecoder_rejected 3 12 0 (by decide) (be16 64 ++ zeros 62) (by decide) (by decide) 0 _ (Slice.exact_wf _)
    (Sw.exact_bytes _)

/-! ### the eleven class-1 fields held in a byte array (the former counterexample frames) -/

example : ∃ fv, Sw2.FieldDec (be16 1 ++ ([UInt8.ofNat (2 * 29), UInt8.ofNat 1] ++ [64])) fv :=
  ⟨_, oxm_nxm_raw 29 (by decide) [64] (by decide)⟩                                   -- nw_ttl = 64
example : ∃ fv, Sw2.FieldDec (be16 1 ++ ([UInt8.ofNat (2 * 104 + 1), UInt8.ofNat (2 + 2)] ++ ([0, 1] ++ [0, 1]))) fv :=
  ⟨_, oxm_nxm_raw_masked 104 (by decide) [0, 1] [0, 1] (by decide) rfl⟩              -- tun_flags = +oam
example : ∃ fv, Sw2.FieldDec (be16 1 ++ ([33, 16] ++ (be64 0x2a ++ be64 0xffffff))) fv := ⟨_, oxm_nxm_tunId_masked 0x2a 0xffffff⟩
example : ∃ fv, Sw2.FieldDec (be16 1 ++ ([72, 4] ++ be32 5)) fv := ⟨_, oxm_nxm_recircId 5⟩
example : ∃ fv, Sw2.FieldDec (be16 1 ++ ([53, 2] ++ ([0] ++ [3]))) fv := ⟨_, oxm_nxm_ipFrag_masked 0 3⟩
example : ∃ fv, Sw2.FieldDec (be16 1 ++ ([69, 4] ++ (be16 0x002 ++ be16 0x012))) fv := ⟨_, oxm_nxm_tcpFlags_masked 0x002 0x012⟩

/-- the field decoder on NXM_NX_TUN_ID = 0x2a (00 01 20 08 | 00 00 00 00 00 00 00 2a): the eight bytes (it used to panic) -/
example : MatchField.unmarshal MatchField.zero (Slice.exact (be16 1 ++ ([32, 8] ++ be64 0x2a)))
    = .ok (.obj "MatchField" [.num 1, .num 16, .num 0, .num 8, .num 0,
        .obj "ByteArrayField" [.bytes [0, 0, 0, 0, 0, 0, 0, 0x2a], .num 8], .nil]) :=
  (oxm_nxm_tunId 0x2a).1 _ (Slice.exact_wf _) [] (by rw [Sw.exact_bytes, List.append_nil])

/-- … the same by evaluation -/
example : MatchField.unmarshal MatchField.zero (Slice.exact [0, 1, 0x20, 8, 0, 0, 0, 0, 0, 0, 0, 0x2a])
    = .ok (.obj "MatchField" [.num 1, .num 16, .num 0, .num 8, .num 0,
        .obj "ByteArrayField" [.bytes [0, 0, 0, 0, 0, 0, 0, 0x2a], .num 8], .nil]) := rfl

/-- the in_port = 7 TLV -/
def inPort7 : List (Bytes × V) := oxmPairs [⟨0, .u32 7, none⟩]

theorem inPort7_dec : ∀ p ∈ inPort7, Sw2.FieldDec p.1 p.2 := by
  intro p hp
  obtain ⟨o, ho, rfl⟩ := List.mem_map.mp hp
  simp only [List.mem_cons, List.not_mem_nil, or_false] at ho
  subst ho
  exact oxm_basic ⟨0, .u32 7, none⟩ ⟨"InPortField", rfl, trivial, by simp⟩

/-- the ct_state = 0x21/0x23 TLV -/
def ctState21 : List (Bytes × V) := nxmPairs [⟨105, .m32 0x21, some (.m32 0x23)⟩]

theorem ctState21_dec : ∀ p ∈ ctState21, Sw2.FieldDec p.1 p.2 := by
  intro p hp
  obtain ⟨o, ho, rfl⟩ := List.mem_map.mp hp
  simp only [List.mem_cons, List.not_mem_nil, or_false] at ho
  subst ho
  exact oxm_nxm ⟨105, .m32 0x21, some (.m32 0x23)⟩ (sampleNxms_wf _ (by simp [sampleNxms]))

/-- the LLDP frame of these examples -/
theorem lldpFrame_dec : FrameDec (ethBytes macA macB 0x88cc [1, 2, 3, 4]) (ethV macA macB 0x88cc [1, 2, 3, 4]) :=
  eth_untagged macA macB 0x88cc [1, 2, 3, 4] _ rfl rfl (by decide) (l3_other 0x88cc (by decide) (by decide) (by decide) [1, 2, 3, 4])

/-- packet-in of a packet received through a tunnel: in_port 7, tun_id 0x2a (NXM_NX_TUN_ID) — match length 24 — with an
    LLDP frame; 68 bytes -/
def pktInTunId : Bytes :=
  hdr 10 68 3 ++ packetInFixed 0xffffffff 18 0 0 0
    ++ (be16 1 ++ be16 24 ++ (be16 0x8000 ++ [0, 4] ++ be32 7) ++ (be16 1 ++ [0x20, 8] ++ be64 0x2a))
    ++ zeros 2 ++ ethBytes macA macB 0x88cc [1, 2, 3, 4]

/-- … parses (it used to be rejected): both fields of the match, the tunnel id as its eight bytes -/
example : parse 0 (Slice.exact pktInTunId)
    = .ok (packetInV (hdrV 10 68 3) 0xffffffff 18 0 0 0
        (.obj "Match" [.num 1, .num 24, .list [
          .obj "MatchField" [.num 0x8000, .num 0, .num 0, .num 4, .num 0, .obj "InPortField" [.num 7], .nil],
          .obj "MatchField" [.num 1, .num 16, .num 0, .num 8, .num 0,
            .obj "ByteArrayField" [.bytes [0, 0, 0, 0, 0, 0, 0, 0x2a], .num 8], .nil]]])
        (ethV macA macB 0x88cc [1, 2, 3, 4])) :=
  packetIn_nxmRawField 3 68 0xffffffff 18 0 0 0 inPort7 [] inPort7_dec (by simp) 16 (by decide) (be64 0x2a) none
    (rawOK_unmasked _ (by decide)) (by decide) _ _ lldpFrame_dec 0 _ (Slice.exact_wf _) (by rw [Sw.exact_bytes]; rfl)

/-- packet-in whose match holds ct_state 0x21/0x23 and then recirc_id 5 (NXM_NX_RECIRC_ID, 36) — match length 24 -/
def pktInRecirc : Bytes :=
  hdr 10 68 3 ++ packetInFixed 0xffffffff 18 0 0 0
    ++ (be16 1 ++ be16 24 ++ (be16 1 ++ [211, 8] ++ be32 0x21 ++ be32 0x23) ++ (be16 1 ++ [72, 4] ++ be32 5))
    ++ zeros 2 ++ ethBytes macA macB 0x88cc [1, 2, 3, 4]

example : parse 0 (Slice.exact pktInRecirc)
    = .ok (packetInV (hdrV 10 68 3) 0xffffffff 18 0 0 0
        (.obj "Match" [.num 1, .num 24, .list [
          .obj "MatchField" [.num 1, .num 105, .num 1, .num 8, .num 0, .obj "Uint32Message" [.num 0x21],
            .obj "Uint32Message" [.num 0x23]],
          .obj "MatchField" [.num 1, .num 36, .num 0, .num 4, .num 0, .obj "ByteArrayField" [.bytes [0, 0, 0, 5], .num 4], .nil]]])
        (ethV macA macB 0x88cc [1, 2, 3, 4])) :=
  packetIn_nxmRawField 3 68 0xffffffff 18 0 0 0 ctState21 [] ctState21_dec (by simp) 36 (by decide) (be32 5) none
    (rawOK_unmasked _ (by decide)) (by decide) _ _ lldpFrame_dec 0 _ (Slice.exact_wf _) (by rw [Sw.exact_bytes]; rfl)

/-- the match `ip_frag = no` (NXM_NX_IP_FRAG 26, value 0, mask 3): length 10, padded to 16 bytes -/
def matchIpFragNo : Bytes := be16 1 ++ be16 10 ++ (be16 1 ++ [53, 2] ++ [0, 3]) ++ zeros 6

/-- its value -/
def matchIpFragNoV : V :=
  .obj "Match" [.num 1, .num 10, .list [.obj "MatchField" [.num 1, .num 26, .num 1, .num 2, .num 0,
    .obj "ByteArrayField" [.bytes [0], .num 1], .obj "ByteArrayField" [.bytes [3], .num 1]]]]

example : Sw2.MatchDec matchIpFragNo matchIpFragNoV :=
  match_nxmRaw [] [] (by simp) (by simp) 26 (by decide) [0] (some [3]) (rawOK_masked _ _ (by decide) rfl) (by decide)

/-- flow-removed of a flow that matched `ip_frag = no`: handed over (it used to be rejected) -/
example : parse 0 (Slice.exact (hdr 11 64 3 ++ flowRemovedFixed 0xc00c1e 100 1 7 60 999 30 0 12 3400 ++ matchIpFragNo))
    = .ok (flowRemovedV (hdrV 11 64 3) 0xc00c1e 100 1 7 60 999 30 0 12 3400 matchIpFragNoV) :=
  flowRemoved_nxmRawField 3 64 0xc00c1e 100 1 7 60 999 30 0 12 3400 [] [] (by simp) (by simp) 26 (by decide) [0] (some [3])
    (rawOK_masked _ _ (by decide) rfl) (by decide) 0 _ (Slice.exact_wf _) (by rw [Sw.exact_bytes]; rfl)

/-- a flow-stats reply with two flows, the first matching `ip_frag = no`, the second everything: both records are handed
    over (the whole reply used to be rejected) -/
example : parse 0 (Slice.exact (hdr 19 136 3 ++ be16 1 ++ be16 0 ++ zeros 4
      ++ (flowStatsFixed 64 3 100 5000 0x8000 60 0 1 0xc00c1e 12 3400 ++ matchIpFragNo)
      ++ (flowStatsFixed 56 3 100 5000 0x8000 60 0 1 0xc00c1e 12 3400 ++ matchEmpty)))
    = .ok (.obj "MultipartReply" [hdrV 19 136 3, .num 1, .num 0, .bytes [], .list [
        flowStatsV 64 3 100 5000 0x8000 60 0 1 0xc00c1e 12 3400 matchIpFragNoV [],
        flowStatsV 56 3 100 5000 0x8000 60 0 1 0xc00c1e 12 3400 Sw.matchEmptyV []]]) :=
  flowStatsReply_nxmRawField 3 0 [] [mkRec fxA matchEmpty Sw.matchEmptyV [] []] (by simp)
    (by intro r hr; simp only [List.mem_cons, List.not_mem_nil, or_false] at hr; subst hr; exact emptyRec_ok fxA)
    fxA [] [] (by simp) (by simp) 26 (by decide) [0] (some [3]) (rawOK_masked _ _ (by decide) rfl) (by decide)
    [] (by simp) 64 136 (by decide) (by decide) (by decide) 0 _ (Slice.exact_wf _) (by rw [Sw.exact_bytes]; rfl)

/-! ### TLVs the field decoder fails on -/

/-- field number 50 of class 1 has no `case` -/
example : MatchField.unmarshal MatchField.zero (Slice.exact (be16 1 ++ [UInt8.ofNat (2 * 50 + (if false then 1 else 0)), 4] ++ be32 1))
    = .err :=
  nxmUnknown_field_rejected 50 (by decide) false 4 _ (Slice.exact_wf _) _ (Sw.exact_bytes _)

/-- packet-in whose match holds class-1 field 50 -/
example : parse 0 (Slice.exact (hdr 10 60 3 ++ packetInFixed 0xffffffff 18 0 0 0
      ++ (be16 1 ++ be16 12 ++ Sw2.tlvCat [] ++ (be16 1 ++ [UInt8.ofNat (2 * 50 + (if false then 1 else 0)), 4])
        ++ (be32 5 ++ zeros 4 ++ zeros 2 ++ ethBytes macA macB 0x88cc [1, 2, 3, 4])))) = .err :=
  packetIn_nxmUnknownField_rejected 3 60 0xffffffff 18 0 0 0 [] (by simp) 50 (by decide) false 4 12 _ (by decide) 0 _
    (Slice.exact_wf _) (Sw.exact_bytes _)

/-- COUNTEREXAMPLE instance: the same tunnel id in the ORIGINAL Nicira class NXM_0 (class 0; 00 00 20 08 | …) — a class
    `DecodeMatchField` does not know: the field decoder panics -/
example : MatchField.unmarshal MatchField.zero (Slice.exact (be16 0 ++ [0x20, 8] ++ be64 0x2a)) = .panic :=
  otherClass_field_panics 0 (by decide) (by decide) (by decide) 0x20 8 _ (Slice.exact_wf _) _ (Sw.exact_bytes _)

/-- … the same by evaluation -/
example : MatchField.unmarshal MatchField.zero (Slice.exact [0, 0, 0x20, 8, 0, 0, 0, 0, 0, 0, 0, 0x2a]) = .panic := rfl

/-- COUNTEREXAMPLE instance: a packet-in whose match holds in_port 7 and then a TLV of class 0: REJECTED -/
example : parse 0 (Slice.exact (hdr 10 68 3 ++ packetInFixed 0xffffffff 18 0 0 0
      ++ (be16 1 ++ be16 24 ++ Sw2.tlvCat inPort7 ++ (be16 0 ++ [0x20, 8])
        ++ (be64 0x2a ++ zeros 2 ++ ethBytes macA macB 0x88cc [1, 2, 3, 4])))) = .err :=
  packetIn_badField_rejected 3 68 0xffffffff 18 0 0 0 inPort7 inPort7_dec _
    (.inr (Sw3.fieldPanic_otherClass 0 (by decide) (by decide) (by decide) 0x20 8)) 24 _ (by decide) 0 _ (Slice.exact_wf _)
    (Sw.exact_bytes _)

/-- COUNTEREXAMPLE instance: a flow-stats reply with two flows, the first matching on a TLV of class 0, the second
    everything: the whole reply is rejected -/
example : parse 0 (Slice.exact (hdr 19 136 3 ++ be16 1 ++ be16 0 ++ zeros 4 ++ Sw2.recsBytes []
      ++ (flowStatsFixed (UInt16.ofNat (48 + (4 + (Sw2.tlvCat []).length + (be16 0 ++ [53, 2]).length + ([0, 3] ++ zeros 6).length)
              + ([] : Bytes).length))
            3 100 5000 0x8000 60 0 1 0xc00c1e 12 3400
          ++ (be16 1 ++ be16 10 ++ Sw2.tlvCat [] ++ (be16 0 ++ [53, 2]) ++ ([0, 3] ++ zeros 6))
          ++ [])
      ++ (flowStatsFixed 56 3 100 5000 0x8000 60 0 1 0xc00c1e 12 3400 ++ matchEmpty))) = .err :=
  flowStatsReply_panicField_rejected 3 0 136 [] (by simp) fxA [] (by simp) _
    (Sw3.fieldPanic_otherClass 0 (by decide) (by decide) (by decide) 53 2) 10 ([0, 3] ++ zeros 6) []
    (by decide) (by decide) _ (by decide) 0 _ (Slice.exact_wf _) (Sw.exact_bytes _)

end Examples

end OFV.Props.C04c
