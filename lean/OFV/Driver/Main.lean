import OFV.Driver.Core
import OFV.Driver.OpsC16
import OFV.Driver.OpsC15
import OFV.Driver.OpsC19
import OFV.Driver.OpsOF
import OFV.Driver.OpsStream
import OFV.Driver.OpsC17
namespace OFV.Driver
open OFV

def families : List (String × List (String × Handler)) :=
  [("C16", C16.handlers), ("C15", C15.handlers), ("C18", C18.handlers), ("C19", C19.handlers), ("OF", OF.handlers),
   ("C10", Stream.handlersC10), ("C11", Stream.handlersC11), ("C14", Stream.handlersC14), ("C17", C17.handlers)]

structure Stats where
  lines : Nat := 0
  diffs : Nat := 0
  oracleFails : Nat := 0
  unmodelledN : Nat := 0

def splitArrow (line : String) : String × String :=
  match line.splitOn " => " with
  | [a] => (a, "")
  | a :: rest => (a, " => ".intercalate rest)
  | [] => ("", "")

partial def loop (h : IO.FS.Stream) (prop : String) (hs : List (String × Handler)) (st : Stats) : IO Stats := do
  let line ← h.getLine
  if line.isEmpty then return st
  let line := line.trimAsciiEnd.toString
  if line.isEmpty || line.startsWith "#" then
    loop h prop hs st
  else
    let (cs, impl) := splitArrow line
    let toks := (cs.splitOn " ").filter (· ≠ "")
    match toks with
    | [] => loop h prop hs st
    | op :: args =>
      let v := match hs.lookup op with
        | some f => f args impl
        | none => unmodelled
      let n := st.lines + 1
      let mut st := { st with lines := n }
      if v.model = "unmodelled" then
        IO.println s!"UNMODELLED {n} {cs}"
        st := { st with unmodelledN := st.unmodelledN + 1 }
      else if v.model ≠ impl then
        IO.println s!"DIFF {n} {cs} impl={impl} model={v.model}"
        st := { st with diffs := st.diffs + 1 }
      match v.oracle with
      | some d =>
        let p := if v.prop = "" then prop else v.prop
        IO.println s!"ORACLE-FAIL {p} {n} {cs} :: {d}"
        st := { st with oracleFails := st.oracleFails + 1 }
      | none => pure ()
      for (p, d) in v.more do
        IO.println s!"ORACLE-FAIL {p} {n} {cs} :: {d}"
        st := { st with oracleFails := st.oracleFails + 1 }
      loop h prop hs st

def main (args : List String) : IO UInt32 := do
  match args with
  | [prop] =>
    match families.lookup prop with
    | none => IO.eprintln s!"unknown family {prop}"; return 2
    | some hs =>
      let st ← loop (← IO.getStdin) prop hs {}
      IO.println s!"SUMMARY lines={st.lines} diffs={st.diffs} oraclefails={st.oracleFails} unmodelled={st.unmodelledN}"
      return 0
  | _ => IO.eprintln "usage: ofvdriver <family> < trace"; return 2

end OFV.Driver

def main (args : List String) : IO UInt32 := OFV.Driver.main args
