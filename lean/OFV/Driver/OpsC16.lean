import OFV.Driver.Core
import OFV.Gen.Pure
import OFV.Spec.Bits
namespace OFV.Driver.C16
open OFV OFV.Driver OFV.Gen.openflow13

def i64 (z : Int) : Int64 := Int64.ofInt z

/-- oracle predicate for in-domain ranges -/
def inDom (s e : Int) : Bool := 0 ≤ s && s ≤ e && e ≤ 31

def mask : Handler := fun args impl =>
  match args.map intArg with
  | [some s, some e] =>
    let m := hex32 (NewNXRange (i64 s) (i64 e)).ToUint32Mask
    let o := if inDom s e then
        let want := hex32 (Spec.bits s.toNat e.toNat)
        if impl = want then none else some s!"mask of range {s}..{e}: want {want} got {impl}"
      else none
    { model := m, oracle := o }
  | _ => unmodelled

def maskon : Handler := fun args impl =>
  match args.map intArg with
  | [some s, some n] =>
    let m := hex32 (NewNXRangeByOfsNBits (i64 s) (i64 n)).ToUint32Mask
    let e := s + n - 1
    let o := if inDom s e then
        let want := hex32 (Spec.bits s.toNat e.toNat)
        if impl = want then none else some s!"mask of ofs {s} nbits {n}: want {want} got {impl}"
      else none
    { model := m, oracle := o }
  | _ => unmodelled

def ofsnbits : Handler := fun args impl =>
  match args.map natArg with
  | [some o, some n] =>
    let w := encodeOfsNbits (UInt16.ofNat o) (UInt16.ofNat n)
    let m := s!"{hex16 w} {(decodeOfs w).toNat} {(decodeNbits w).toNat}"
    let orc := if o < 1024 && 1 ≤ n && n ≤ 64 then
        let want := s!"{hex16 (UInt16.ofNat (Spec.ofsNbits o n))} {o} {n}"
        if impl = want then none else some s!"ofs_nbits({o},{n}): want {want} got {impl}"
      else none
    { model := m, oracle := orc }
  | _ => unmodelled

def startend : Handler := fun args impl =>
  match args.map natArg with
  | [some s, some e] =>
    let w := encodeOfsNbitsStartEnd (UInt16.ofNat s) (UInt16.ofNat e)
    let orc := if s < 1024 && s ≤ e && e - s < 64 then
        let want := hex16 (UInt16.ofNat (Spec.ofsNbits s (e - s + 1)))
        if impl = want then none else some s!"startend({s},{e}): want {want} got {impl}"
      else none
    { model := hex16 w, oracle := orc }
  | _ => unmodelled

def range : Handler := fun args impl =>
  match args.map intArg with
  | [some s, some e] =>
    let r := NewNXRange (i64 s) (i64 e)
    let m := s!"{hex16 r.ToOfsBits} {r.GetOfs.toNat} {r.GetNbits.toNat}"
    let orc := if 0 ≤ s && s ≤ e && e < 1024 && e - s < 64 then
        let want := s!"{hex16 (UInt16.ofNat (Spec.ofsNbits s.toNat (e - s + 1).toNat))} {s} {e - s + 1}"
        if impl = want then none else some s!"range({s},{e}): want {want} got {impl}"
      else none
    { model := m, oracle := orc }
  | _ => unmodelled

def handlers : List (String × Handler) :=
  [("mask", mask), ("maskon", maskon), ("ofsnbits", ofsnbits), ("startend", startend), ("range", range)]

end OFV.Driver.C16
