import OFV.Driver.Core
import OFV.Model.OfBase
namespace OFV.Driver.C19
open OFV OFV.Driver OFV.Go OFV.Model.OfBase

/-- write script: tokens `b:<n>` `h:<n>` `w:<n>` `q:<n>` `x:<hi>:<lo>` `r:<hex>` `a`, comma separated -/
def parseW (t : String) : Option W :=
  match t.splitOn ":" with
  | ["a"] => some .align
  | ["b", n] => n.toNat?.map (fun v => .u8 (UInt8.ofNat v))
  | ["h", n] => n.toNat?.map (fun v => .u16 (UInt16.ofNat v))
  | ["w", n] => n.toNat?.map (fun v => .u32 (UInt32.ofNat v))
  | ["q", n] => n.toNat?.map (fun v => .u64 (UInt64.ofNat v))
  | ["x", a, b] => do
    let hi ← a.toNat?
    let lo ← b.toNat?
    pure (.u128 (UInt64.ofNat hi) (UInt64.ofNat lo))
  | ["r", hx] => (ofHex hx).map .raw
  | _ => none

def parseWs (s : String) : Option (List W) :=
  if s = "." then some [] else (s.splitOn ",").mapM parseW

def enc : Handler := fun args _ =>
  match args with
  | [s] => match parseWs s with
    | some ws => { model := hexOrDash (encRun [] ws) }
    | none => unmodelled
  | _ => unmodelled

/-- encode, append a tail, decode with the matching reads -/
def rt : Handler := fun args impl =>
  match args with
  | [s, tl] =>
    match parseWs s, ofHex tl with
    | some ws, some tail =>
      let bs := encRun [] ws
      let m := match decAll (newDecoder (Slice.exact (bs ++ tail))) ws with
        | some (vs, d) => if vs = ws then s!"ok {d.offset}" else "bad"
        | none => "panic"
      let want := s!"ok {bs.length}"
      -- the expected end offset is computed from the widths alone (independent of the model's encoder)
      let wl := ws.foldl (fun n w => match w with
        | .u8 _ => n + 1 | .u16 _ => n + 2 | .u32 _ => n + 4 | .u64 _ => n + 8 | .u128 _ _ => n + 16
        | .raw b => n + b.length | .align => (n + 7) / 8 * 8) 0
      { model := m, oracle := if impl = s!"ok {wl}" ∧ want = impl then none else some s!"round trip of {s}: want ok {wl} got {impl}" }
    | _, _ => unmodelled
  | _ => unmodelled

inductive ROp | b | h | w | q | x | r (n : Nat) | a | s (n : Nat) | sl (len rew : Nat) | up | len | hd

def parseR (t : String) : Option ROp :=
  match t.splitOn ":" with
  | ["b"] => some .b | ["h"] => some .h | ["w"] => some .w | ["q"] => some .q | ["x"] => some .x
  | ["a"] => some .a | ["up"] => some .up | ["len"] => some .len | ["hd"] => some .hd
  | ["r", n] => n.toNat?.map .r
  | ["s", n] => n.toNat?.map .s
  | ["sl", l, r] => do
    let l ← l.toNat?
    let r ← r.toNat?
    pure (.sl l r)
  | _ => none

/-- interpret a read script on a stack of nested decoders (top = innermost) -/
def runR : List ROp → List Dec → List String → List String
  | [], st, out => (match st with | d :: _ => s!"@{d.offset}" | [] => "@?") :: out
  | op :: ops, st, out =>
    match st with
    | [] => "panic" :: out
    | d :: rest =>
      match op with
      | .b => match readByte d with
        | some (v, d) => runR ops (d :: rest) (toString v.toNat :: out)
        | none => "panic" :: out
      | .h => match readU16 d with
        | some (v, d) => runR ops (d :: rest) (toString v.toNat :: out)
        | none => "panic" :: out
      | .w => match readU32 d with
        | some (v, d) => runR ops (d :: rest) (toString v.toNat :: out)
        | none => "panic" :: out
      | .q => match readU64 d with
        | some (v, d) => runR ops (d :: rest) (toString v.toNat :: out)
        | none => "panic" :: out
      | .x => match readU128 d with
        | some ((hi, lo), d) => runR ops (d :: rest) (s!"{hi.toNat}:{lo.toNat}" :: out)
        | none => "panic" :: out
      | .r n => match readN d n with
        | some (v, d) => runR ops (d :: rest) ((if v.isEmpty then "-" else toHex v) :: out)
        | none => "panic" :: out
      | .a => let d := skipAlign d; runR ops (d :: rest) (s!"@{d.offset}" :: out)
      | .s n => let d := skip d n; runR ops (d :: rest) (s!"@{d.offset}" :: out)
      | .sl l r => match sliceDecoder d l r with
        | some (c, d') => runR ops (c :: d' :: rest) (s!"[{c.base}" :: out)
        | none => "panic" :: out
      | .up => match rest with
        | p :: _ => runR ops rest (s!"]@{p.offset}" :: out)
        | [] => "panic" :: out
      -- Length(): bytes left, negative once the position is past the end (after a Skip / SkipAlign)
      | .len => runR ops (d :: rest) (s!"L{length d}" :: out)
      -- Header.Decode: an error (never a panic) when fewer than 8 bytes are left
      | .hd => match headerDecode d with
        | some (h, d) => runR ops (d :: rest) (s!"H{h.version.toNat}.{h.type.toNat}.{h.length.toNat}.{h.xid.toNat}" :: out)
        | none => runR ops (d :: rest) ("err" :: out)

def mkSlice (bs : Bytes) (len : Nat) : Slice := ⟨bs, len⟩

/-- `dec <hex of backing array> <len> <script>` -/
def dec : Handler := fun args impl =>
  match args with
  | [hx, ln, s] =>
    match ofHex hx, ln.toNat?, (if s = "." then some [] else (s.splitOn ",").mapM parseR) with
    | some bs, some len, some ops =>
      if len ≤ bs.length then
        let m := " ".intercalate (runR ops [newDecoder (mkSlice bs len)] []).reverse
        -- a script whose reads all stay inside the data never panics (a header asked for past the end is an error)
        let o := if (m.splitOn "panic").length = 1 ∧ (impl.splitOn "panic").length > 1
          then some s!"decoder script {s} on {len} bytes: {impl} (want {m})" else none
        { model := m, oracle := o }
      else unmodelled
    | _, _, _ => unmodelled
  | _ => unmodelled

/-- `align <base> <offset>`: a decoder sliced at absolute position `base`, advanced by `offset`, then SkipAlign -/
def align : Handler := fun args impl =>
  match args.map natArg with
  | [some base, some off] =>
    let d : Dec := ⟨Slice.exact (zeros 64), off, base⟩
    let d' := skipAlign d
    let o := match impl.splitOn " " with
      | [a, b] => match a.toNat?, b.toNat? with
        | some o', some b' =>
          if b' = base ∧ (base + o') % 8 = 0 ∧ off ≤ o' ∧ o' ≤ off + 7 then none
          else some s!"align base={base} offset={off}: got offset {o'} base {b'}"
        | _, _ => some s!"align: unparsable {impl}"
      | _ => some s!"align: unparsable {impl}"
    { model := s!"{d'.offset} {d'.base}", oracle := o }
  | _ => unmodelled

/-- `alignn <o0> <o1> … <ok>`: a top-level decoder advanced by o0, then a chain of SliceDecoders each advanced by the
    next offset, then SkipAlign on the innermost.  Alignment counts from the start of the enclosing message, i.e. the
    absolute position o0+…+ok; result: innermost offset and base. -/
def alignn : Handler := fun args impl =>
  match args.mapM natArg with
  | some (o0 :: rest) =>
    let total := (o0 :: rest).foldl (· + ·) 0
    let root : Dec := { (newDecoder (Slice.exact (zeros (total + 64)))) with offset := o0 }
    -- chain of children; each child starts at the parent's current position
    let rec chain (d : Dec) (remaining : Nat) : List Nat → Option Dec
      | [] => some d
      | o :: os =>
        match sliceDecoder d (remaining + 32) 0 with
        | some (c, _) => chain { c with offset := o } (remaining - o) os
        | none => none
    match chain root (total - o0) rest with
    | some d =>
      let d' := skipAlign d
      let lastOff := rest.getLast?.getD o0
      let wantBase := total - lastOff
      let o := match impl.splitOn " " with
        | [a, b] => match a.toNat?, b.toNat? with
          | some o', some b' =>
            if b' = wantBase ∧ (wantBase + o') % 8 = 0 ∧ lastOff ≤ o' ∧ o' ≤ lastOff + 7 then none
            else some s!"nested align {args}: position {total} from the message start, got offset {o'} base {b'} (absolute {b' + o'})"
          | _, _ => some s!"alignn: unparsable {impl}"
        | _ => some s!"alignn: unparsable {impl}"
      { model := s!"{d'.offset} {d'.base}", oracle := o }
    | none => unmodelled
  | _ => unmodelled

/-- `hdr <hex backing> <len>`: Header.Decode -/
def hdr : Handler := fun args impl =>
  match args with
  | [hx, ln] =>
    match ofHex hx, ln.toNat? with
    | some bs, some len =>
      if len ≤ bs.length then
        let m := match headerDecode (newDecoder (mkSlice bs len)) with
          | some (h, d) => s!"{h.version.toNat} {h.type.toNat} {h.length.toNat} {h.xid.toNat} @{d.offset}"
          | none => "err"
        let o :=
          if impl = "panic" then some s!"Header.Decode panicked on {len} bytes"
          else if len < 8 then (if impl = "err" then none else some s!"Header.Decode of {len} bytes gave {impl}")
          else
            let b := bs.toArray
            let want := s!"{b[0]!.toNat} {b[1]!.toNat} {b[2]!.toNat * 256 + b[3]!.toNat} {((b[4]!.toNat * 256 + b[5]!.toNat) * 256 + b[6]!.toNat) * 256 + b[7]!.toNat} @8"
            if impl = want then none else some s!"Header.Decode: want {want} got {impl}"
        { model := m, oracle := o }
      else unmodelled
    | _, _ => unmodelled
  | _ => unmodelled

def handlers : List (String × Handler) :=
  [("benc", enc), ("brt", rt), ("brta", rt), ("bdec", dec), ("balign", align), ("balignn", alignn), ("bhdr", hdr)]

end OFV.Driver.C19
