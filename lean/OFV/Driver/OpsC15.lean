import OFV.Driver.Core
import OFV.Model.CTStates
import OFV.Spec.Oxm
namespace OFV.Driver.C15
open OFV OFV.Driver OFV.Gen.openflow13 OFV.Model

def showHdr (h : MatchField) : String :=
  s!"{h.Class.toNat} {h.Field.toNat} {if h.HasMask then 1 else 0} {h.Length.toNat}"

def isAscii (s : String) : Bool := s.toList.all (fun c => decide (c.toNat < 128))

/-- oracle: the implementation's answer against the specification table -/
def findOracle (name : String) (m : Bool) (impl : String) : Option String :=
  let up := toUpperASCII name
  match Spec.oxx up with
  | some (c, f, w) =>
    if Spec.supportedNames.contains up then
      let want := s!"{c} {f} {if m then 1 else 0} {if m then 2 * w else w}"
      if impl = want then none else some s!"lookup {name} mask={m}: want {want} got {impl}"
    else if impl = "err" then none
    else
      let want := s!"{c} {f} {if m then 1 else 0} {if m then 2 * w else w}"
      if impl = want then none else some s!"lookup {name} mask={m}: want {want} or err, got {impl}"
  | none => if impl = "err" then none else some s!"lookup of unknown name {name} gave {impl}"

def find : Handler := fun args impl =>
  match args with
  | [name, m] =>
    if !isAscii name then unmodelled else
    let mb := m = "1"
    let r := match FindFieldHeaderByName name mb with
      | some h => showHdr h
      | none => "err"
    { model := r, oracle := findOracle name mb impl }
  | _ => unmodelled

/-- two lookups after a third result was overwritten: both must still be the table's answer -/
def findmut : Handler := fun args impl =>
  match args with
  | [name, m] =>
    if !isAscii name then unmodelled else
    let mb := m = "1"
    let r := match FindFieldHeaderByName name mb with
      | some h => showHdr h ++ " | " ++ showHdr h
      | none => "err"
    let o := match impl.splitOn " | " with
      | [a, b] => (findOracle name mb a).orElse (fun _ => findOracle name mb b)
      | _ => findOracle name mb impl
    { model := r, oracle := o.map (fun d => "after mutating an earlier result: " ++ d) }
  | _ => unmodelled

/-- unpack a header word and pack it again -/
def hdr : Handler := fun args impl =>
  match args with
  | [hx] =>
    match ofHex hx with
    | some bs =>
      let r := match UnmarshalHeader bs with
        | some h => showHdr h ++ " " ++ hex32 h.MarshalHeader
        | none => "err"
      let o := if bs.length ≥ 4 then
          let want := toHex (bs.take 4)
          match impl.splitOn " " with
          | [c, f, m, l, w] =>
            -- class = first 16 bits, field = next 7, mask = next 1, length = last 8; and the word comes back
            let b := bs.toArray
            let wc := b[0]!.toNat * 256 + b[1]!.toNat
            let wf := b[2]!.toNat / 2
            let wm := b[2]!.toNat % 2
            let wl := b[3]!.toNat
            if w = want ∧ c = toString wc ∧ f = toString wf ∧ m = toString wm ∧ l = toString wl then none
            else some s!"header word {want}: got {impl}"
          | _ => some s!"header word {want}: got {impl}"
        else if impl = "err" then none else some s!"short header {hx} gave {impl}"
      { model := r, oracle := o }
    | none => unmodelled
  | _ => unmodelled

def pack : Handler := fun args impl =>
  match args.map natArg with
  | [some c, some f, some m, some l] =>
    let h : MatchField := { Class := UInt16.ofNat c, Field := UInt8.ofNat f, HasMask := m = 1, Length := UInt8.ofNat l }
    let o := if c < 65536 ∧ f < 128 ∧ m < 2 ∧ l < 256 then
        let want := hex32 (UInt32.ofNat (c * 65536 + f * 512 + m * 256 + l))
        if impl = want then none else some s!"pack {c} {f} {m} {l}: want {want} got {impl}"
      else none
    { model := hex32 h.MarshalHeader, oracle := o }
  | _ => unmodelled

/-- exhaustive Go-side sweep of header words (thorough tier); the model's answer is the theorem C15_unpack_pack -/
def hdrsweep : Handler := fun _ impl =>
  { model := "ok", oracle := if impl = "ok" then none else some s!"header word sweep: {impl}" }

/-- `hdr2 w1 w2`: a receiver that held the header w1 unpacks w2: unpacking sets every field, so the outcome is that of
    unpacking w2 into a fresh value -/
def hdr2 : Handler := fun args impl =>
  match args with
  | [_, w2] => hdr [w2] impl
  | _ => unmodelled

/-- `parsenoise seed`: the implementation parsed a batch of frames (no observable of its own; the registry sweep that
    follows is what is compared) -/
def parsenoise : Handler := fun _ impl => { model := impl }

def handlers : List (String × Handler) :=
  [("find", find), ("findmut", findmut), ("hdr", hdr), ("hdr2", hdr2), ("pack", pack), ("hdrsweep", hdrsweep),
   ("parsenoise", parsenoise)]

end OFV.Driver.C15

namespace OFV.Driver.C18
open OFV OFV.Driver OFV.Gen.openflow13 OFV.Model

/-- "+0-3+5" ↦ ops; "." is the empty history -/
def parseOps : List Char → Option (List CTOp)
  | [] => some []
  | s :: d :: rest =>
    if h : d.toNat - 48 < 8 then
      if d.toNat < 48 then none else
      match s, parseOps rest with
      | '+', some r => some (CTOp.set ⟨d.toNat - 48, h⟩ :: r)
      | '-', some r => some (CTOp.unset ⟨d.toNat - 48, h⟩ :: r)
      | _, _ => none
    else none
  | _ => none

def ct : Handler := fun args impl =>
  match args with
  | [s] =>
    match parseOps (if s = "." then [] else s.toList) with
    | some ops =>
      let m := match ctFieldBytes (ctRun ops) with
        | some bs => toHex bs
        | none => "panic"
      let (d, k) := Spec.ctWords (ops.map (fun o => (o.flag.val, o.isSet)))
      let want := "0001d308" ++ hex32 (UInt32.ofNat d) ++ hex32 (UInt32.ofNat k)
      { model := m, oracle := if impl = want then none else some s!"ct_state after {s}: want {want} got {impl}" }
    | none => unmodelled
  | _ => unmodelled

def handlers : List (String × Handler) := [("ct", ct)]

end OFV.Driver.C18
