/-
  OFV.Driver.OpsOF — the generic ops (enc / dec / decc / fn / parse / prog) evaluated on the model tables.
-/
import OFV.Driver.Core
import OFV.Model.All
import OFV.Gen.Structs
import OFV.Driver.Oracles
namespace OFV.Driver.OF
open OFV OFV.Driver OFV.Go OFV.Model

def showR {α} (f : α → String) : R α → String
  | .ok a => f a
  | .err => "err"
  | .panic => "panic"
  | .spin => "spin"

/-- Len, MarshalBinary, Len, dump — the observation the harness makes on a value -/
def observe (v : V) : String :=
  match kinds.lookup v.kind with
  | none => "unmodelled"
  | some k =>
    match k.lenM v with
    | .ok (l1, v1) =>
      match k.marshalM v1 with
      | .ok (bs, v2) =>
        match k.lenM v2 with
        | .ok (l2, v3) => s!"{l1.toNat} {hexOrDash bs} {l2.toNat} {v3.toText}"
        | r => showR (fun _ => "") r
      | .err => s!"{l1.toNat} err"
      | r => showR (fun _ => "") r
    | r => showR (fun _ => "") r

/-- property oracles on the implementation's observation of a value -/
def valueOracles (impl : String) (wantType : Option Nat) : List (String × String) :=
  match Oracles.parseObs impl with
  | some o => Oracles.c06 o ++ Oracles.c01 o wantType ++ Oracles.c02 o ++ Oracles.c02elem o ++ Oracles.c03 o ++ Oracles.c03elem o
  | none => []

def enc : Handler := fun args impl =>
  match args with
  | [t] => match V.ofText t with
    | some v => { model := observe v }
    | none => unmodelled
  | _ => unmodelled

def mkSlice (hx ln : String) : Option Slice := do
  let bs ← ofHex hx
  let n ← ln.toNat?
  if n ≤ bs.length then some ⟨bs, n⟩ else none

def decodeWith (k : KindOps) (recv : V) (s : Slice) : String :=
  match k.unmarshal recv s with
  | .ok v => (match k.lenM v with
    | .ok (l, _) => s!"{v.toText} {l.toNat}"
    | r => showR (fun _ => "") r)
  | r => showR (fun _ => "") r

def dec : Handler := fun args _ =>
  match args with
  | [kn, hx, ln] =>
    match kinds.lookup kn, mkSlice hx ln with
    | some k, some s => { model := decodeWith k k.zero s }
    | _, _ => unmodelled
  | _ => unmodelled

def decc : Handler := fun args _ =>
  match args with
  | [fnm, hx, ln] =>
    match funcs.lookup fnm, mkSlice hx ln with
    | some f, some s =>
      match f [] with
      | .ok [recv] =>
        match kinds.lookup recv.kind with
        | some k => { model := decodeWith k recv s }
        | none => unmodelled
      | _ => unmodelled
    | _, _ => unmodelled
  | _ => unmodelled

def fn : Handler := fun args impl =>
  match args with
  | fnm :: as =>
    match funcs.lookup fnm, as.mapM V.ofText with
    | some f, some vs =>
      let m := showR (fun rs => " | ".intercalate (rs.map V.toText)) (f vs)
      let o : List (String × String) :=
        if fnm = "p.DHCPParseOptions" ∧ (impl = "panic" ∨ impl = "spin") then [("C08", s!"DHCPParseOptions: {impl}")] else []
      { model := m, more := o }
    | _, _ => unmodelled
  | _ => unmodelled

/-! ### straight-line API programs -/

/-- split at top-level commas -/
def splitTop (s : String) : List String :=
  let rec go (cs : List Char) (depth : Nat) (cur : List Char) (acc : List String) : List String :=
    match cs with
    | [] => if cur.isEmpty && acc.isEmpty then [] else (String.ofList cur.reverse :: acc).reverse
    | c :: r =>
      if c = '(' || c = '[' then go r (depth + 1) (c :: cur) acc
      else if c = ')' || c = ']' then go r (depth - 1) (c :: cur) acc
      else if c = ',' && depth = 0 then go r depth [] (String.ofList cur.reverse :: acc)
      else go r depth (c :: cur) acc
  go s.toList 0 [] []

abbrev Env := List (String × V)

def evalArg (env : Env) (a : String) : Option V :=
  if a.startsWith "*$" then env.lookup (a.drop 2).toString
  else if a.startsWith "$" then env.lookup (a.drop 1).toString
  else V.ofText a

/-- substitute variables occurring inside a term text is not supported: arguments are whole variables or closed terms -/
def evalArgs (env : Env) (s : String) : Option (List V) := (splitTop s).mapM (evalArg env)

def setVar (env : Env) (n : String) (v : V) : Env := (n, v) :: env.filter (·.1 ≠ n)

inductive StepRes | ok (env : Env) | fail (msg : String) | obs (out : String)

/-- set a (possibly promoted) field by name, using the regenerated struct layouts -/
def setFieldN : Nat → V → String → V → Option V
  | 0, _, _, _ => none
  | fuel + 1, .obj k fs, f, x =>
    match Gen.structFields.lookup k with
    | none => none
    | some ns =>
      match ns.findIdx? (· = f) with
      | some i => if i < fs.length then some (.obj k (fs.set i x)) else none
      | none =>
        -- promoted through an embedded struct: first embedded object that has it
        let rec tryEmb (pre rest : List V) : Option V :=
          match rest with
          | [] => none
          | e :: r =>
            match e with
            | .obj _ _ =>
              match setFieldN fuel e f x with
              | some e' => some (.obj k (pre ++ e' :: r))
              | none => tryEmb (pre ++ [e]) r
            | _ => tryEmb (pre ++ [e]) r
        tryEmb [] fs
  | _, _, _, _ => none

def setPath (v : V) (path : List String) (x : V) : Option V :=
  match path with
  | [f] => setFieldN 4 v f x
  | _ => none

def callFunc (name : String) (args : List V) : Option (R (List V)) :=
  (funcs.lookup name).map (· args)

/-- The connection-tracking state builder as the SPECIFICATION has it (OVS ct_state bits new0 est1 rel2 rpl3 inv4 trk5
    snat6 dnat7; "+flag" sets value and mask bit, "-flag" clears the value bit and sets the mask bit). API histories are
    evaluated with these, not with the regenerated setter bodies (those are what C18 is about): a setter that touches a
    wrong bit then shows up as a value the history did not supply (C03). -/
def specCtSet (i : Nat) (set : Bool) : V → List V → R (V × List V) := fun recv _ =>
  match recv with
  | .obj "CTStates" [.num d, .num m] =>
    let bitv := 2 ^ i
    let d' := if set then d ||| bitv else d &&& (0xffffffff - bitv)
    .ok (.obj "CTStates" [.num (d' % 4294967296), .num ((m ||| bitv) % 4294967296)], [])
  | _ => .panic

def specMethods : List (String × (V → List V → R (V × List V))) :=
  (["New", "Est", "Rel", "Rpl", "Inv", "Trk", "SNAT", "DNAT"].zipIdx).flatMap fun (n, i) =>
    [("CTStates.Set" ++ n, specCtSet i true), ("CTStates.Unset" ++ n, specCtSet i false)]

def runStmt (env : Env) (k : Nat) (st : String) : StepRes :=
  if st.startsWith "!" then
    match env.lookup (st.drop 1).toString with
    | some v => .obs (observe v)
    | none => .obs "novar"
  else
    -- lhs "=" rhs when the part before the first '=' is a plain identifier
    let (lhs, rhs) :=
      match st.splitOn "=" with
      | a :: rest@(_ :: _) =>
        if a.toList.all (fun c => c.isAlphanum || c = '_') then (a, "=".intercalate rest) else ("", st)
      | _ => ("", st)
    let bind (r : R (List V)) (env : Env) : StepRes :=
      match r with
      | .ok (v :: _) => .ok (if lhs = "" then env else setVar env lhs v)
      | .ok [] => .ok env
      | .err => .obs s!"err@{k}"
      | .panic => .obs "panic"
      | .spin => .obs "spin"
    if rhs.startsWith "$" then
      -- `$w.Field=arg` when an '=' occurs before any '(' (the argument itself may be a term with parentheses)
      let isSet : Bool := match rhs.splitOn "=" with
        | t :: _ :: _ => !(t.toList.contains '(')
        | _ => false
      match (if isSet then ["set"] else rhs.splitOn "(") with
      | [_] =>
        -- $w.Field=arg
        match (match rhs.splitOn "=" with | t :: rest@(_ :: _) => [t, "=".intercalate rest] | o => o) with
        | [target, a] =>
          match (target.drop 1).toString.splitOn ".", evalArg env a with
          | w :: path, some x =>
            match env.lookup w with
            | some v => match setPath v path x with
              | some v' => .ok (setVar env w v')
              | none => .fail "setfield"
            | none => .fail "novar"
          | _, _ => .fail "setfield-syntax"
        | _ => .fail "stmt"
      | head :: _ =>
        -- $w.Method(args)
        match (head.drop 1).toString.splitOn "." with
        | [w, m] =>
          let argText := ((rhs.drop (head.length + 1)).toString.dropEnd 1).toString
          match env.lookup w, evalArgs env argText with
          | some recv, some as =>
            match (specMethods.lookup (recv.kind ++ "." ++ m)).orElse (fun _ => methods.lookup (recv.kind ++ "." ++ m)) with
            | some f =>
              match f recv as with
              | .ok (recv', rs) => bind (.ok rs) (setVar env w recv')
              | .err => .obs s!"err@{k}"
              | .panic => .obs "panic"
              | .spin => .obs "spin"
            | none =>
              -- `$w.Len()` of any kind with a size function: the receiver becomes what Len() leaves (stored lengths)
              match (if m = "Len" then kinds.lookup recv.kind else none) with
              | some ops =>
                match ops.lenM recv with
                | .ok (l, recv') => bind (.ok [V.u16 l]) (setVar env w recv')
                | .err => .obs s!"err@{k}"
                | .panic => .obs "panic"
                | .spin => .obs "spin"
              | none => .fail s!"unmodelled-method {recv.kind}.{m}"
          | _, _ => .fail "args"
        | _ => .fail "method-syntax"
      | [] => .fail "stmt"
    else
      match rhs.splitOn "(" with
      | name :: _ :: _ =>
        let argText := ((rhs.drop (name.length + 1)).toString.dropEnd 1).toString
        match funcs.lookup name with
        | some f =>
          match evalArgs env argText with
          | some as => bind (f as) env
          | none => .fail "args"
        | none =>
          -- a literal object term
          match V.ofText rhs with
          | some v => bind (.ok [v]) env
          | none => .fail s!"unmodelled-func {name}"
      | _ =>
        -- a plain literal (bytes `x…`, a number): a caller-owned value that later statements pass on by `$name`
        match V.ofText rhs with
        | some v => bind (.ok [v]) env
        | none => .fail "stmt"

def runProg (src : String) : String :=
  let stmts := (src.splitOn ";").filter (· ≠ "")
  let rec go (env : Env) (k : Nat) : List String → String
    | [] => "noobs"
    | st :: rest =>
      match runStmt env k st with
      | .ok env' => go env' (k + 1) rest
      | .fail _ => "unmodelled"
      | .obs out => out
  go [] 0 stmts

/-- message type implied by the constructor that built the observed variable (header-only messages) -/
def ctorType : List (String × Nat) :=
  [("NewEchoRequest", 2), ("NewEchoReply", 3), ("NewConfigRequest", 7), ("NewFeaturesRequest", 5),
   ("NewHello", 0), ("NewFlowMod", 14), ("NewGroupMod", 15), ("NewPacketOut", 13), ("NewPortMod", 16),
   ("NewSetConfig", 9), ("NewSetControllerID", 4), ("NewTLVTableModMessage", 4), ("NewTLVTableRequest", 4),
   ("NewBundleControl", 4), ("NewBundleAdd", 4), ("NewNXTVendorHeader", 4)]

def wantTypeOf (src : String) : Option Nat :=
  let stmts := (src.splitOn ";").filter (· ≠ "")
  match stmts.getLast? with
  | some last =>
    if last.startsWith "!" then
      let v := (last.drop 1).toString
      -- the last assignment `v=Ctor(` to that variable
      (stmts.filterMap (fun st =>
        if st.startsWith (v ++ "=") then
          let rhs := (st.drop (v.length + 1)).toString
          match rhs.splitOn "(" with
          | name :: _ :: _ => ctorType.lookup name
          | _ => none
        else none)).getLast?
    else none
  | none => none

/-- `prog`: model-vs-implementation correspondence only (arguments may be arbitrary) -/
def prog : Handler := fun args impl =>
  let src := "".intercalate args
  -- DHCP / LLDP decoders are methods named Write: totality (C08) is judged on the programs that call them
  let isProtoDec : Bool := (src.splitOn ".Write(").length > 1 && (src.splitOn "p.").length > 1
  let o : List (String × String) :=
    if isProtoDec ∧ (impl = "panic" ∨ impl = "spin") then [("C08", s!"packet decoder called by the program: {impl}")] else []
  { model := runProg src, more := o }

/-- when the implementation's final value differs from what the API history supplied (the model evaluates the history
    with plain value semantics: every constructor / adder / setter stores its arguments), the layout and shape oracles
    are applied again to the SUPPLIED value against the implementation's bytes: "every value put into a message through
    the API appears in the encoding" is about the supplied values, not about whatever the value holds at the end. -/
def suppliedOracles (model impl : String) : List (String × String) :=
  if model = impl then [] else
  match Oracles.parseObs model, Oracles.parseObs impl with
  | some om, some oi =>
    if om.dump.toText = oi.dump.toText then [] else
    let o : Oracles.Obs := { oi with dump := om.dump }
    (Oracles.c02 o ++ Oracles.c02elem o ++ Oracles.c03 o ++ Oracles.c03elem o).map
      (fun (p, d) => (p, "supplied through the API but not what the encoding holds: " ++ d))
  | _, _ => []

/-- `api`: the same program syntax, used by the generators of VALID API histories (in-range arguments, finished
    children, affine use): the property oracles C01/C02/C06 are evaluated on the implementation's observation -/
def api : Handler := fun args impl =>
  let src := "".intercalate args
  let m := runProg src
  { model := m, more := valueOracles impl (wantTypeOf src) ++ suppliedOracles m impl }

/-- evaluate a value source: a closed term, or an API program ending in `;!v` -/
def valueOf (src : String) : Except String V :=
  if (src.splitOn ";!").length > 1 then
    let stmts := (src.splitOn ";").filter (· ≠ "")
    let rec go (env : Env) (k : Nat) : List String → Except String V
      | [] => .error "noobs"
      | st :: rest =>
        if st.startsWith "!" then
          match env.lookup (st.drop 1).toString with
          | some v => .ok v
          | none => .error "novar"
        else match runStmt env k st with
          | .ok env' => go env' (k + 1) rest
          | .fail _ => .error "unmodelled"
          | .obs out => .error out
    go [] 0 stmts
  else match V.ofText src with
    | some v => .ok v
    | none => .error "unmodelled"

def lenStr (k : KindOps) (v : V) : String × V :=
  match k.lenM v with
  | .ok (l, v') => (toString l.toNat, v')
  | .err => ("err", v)
  | .panic => ("panic", v)
  | .spin => ("spin", v)

/-- C13: a script of Len / MarshalBinary queries on one value -/
def rep : Handler := fun args impl =>
  match args with
  | script :: rest =>
    match valueOf ("".intercalate rest) with
    | .error e => { model := e }
    | .ok v0 =>
      match kinds.lookup v0.kind with
      | none => unmodelled
      | some k =>
        let step (acc : List String × V × Bool) (c : Char) : List String × V × Bool :=
          let (outs, v, dead) := acc
          if dead then acc else
          if c = 'L' then
            match k.lenM v with
            | .ok (l, v') => (outs ++ [s!"L{l.toNat}"], v', false)
            | _ => (outs ++ ["panic"], v, true)
          else
            match k.marshalM v with
            | .ok (bs, v') => (outs ++ ["M" ++ hexOrDash bs], v', false)
            | .err => (outs ++ ["Merr"], v, false)
            | _ => (outs ++ ["panic"], v, true)
        let (outs, v, dead) := script.toList.foldl step ([], v0, false)
        let m := if dead then "panic" else ",".intercalate outs ++ " " ++ v.toText
        -- oracle on the implementation: every L answer equal, every M answer equal, |M| = L
        let o : List (String × String) :=
          match (impl.splitOn " ").head? with
          | some seq =>
            let parts := seq.splitOn ","
            let ls := parts.filter (·.startsWith "L")
            let ms := parts.filter (·.startsWith "M")
            let same (xs : List String) : Bool := match xs with | [] => true | x :: r => r.all (· == x)
            let lenOK : Bool := match ls.head?, ms.head? with
              | some l, some m => m == "Merr" || (l.drop 1).toString == toString (((m.drop 1).toString.length) / 2) || m == "M-" && l == "L0"
              | _, _ => true
            if impl = "panic" ∨ impl.startsWith "err" then []
            else (if same ls then [] else [("C13", s!"Len answers differ: {ls}")]) ++
                 (if same ms then [] else [("C13", s!"encodings differ between calls ({ms.length} calls)")]) ++
                 (if lenOK then [] else [("C13", s!"size {ls.head?} vs encoding length")])
          | none => []
        { model := m, more := o }
  | _ => unmodelled

/-- C05 / C09: encode, decode into a fresh value of the same kind (or through Parse), encode again -/
def rtFrom (viaParse : Bool) (src : Except String V) (impl : String) : Verdict :=
  match src with
  | .error e => { model := e }
  | .ok v0 =>
    match kinds.lookup v0.kind with
    | none => unmodelled
    | some k =>
      match k.marshalM v0 with
      | .ok (b1, _) =>
        let back := b1 ++ [0xde, 0xad, 0xbe, 0xef, 0x01, 0x02, 0x03, 0x04]
        let s : Slice := ⟨back, b1.length⟩
        let dec : R V := if viaParse then parse (s.len + 1) s else k.unmarshal k.zero s
        let m := match dec with
          | .ok .nil => hexOrDash b1 ++ " | pnil"
          | .ok q =>
            (match kinds.lookup q.kind with
             | none => "unmodelled"
             | some kq =>
               let (l2, q1) := lenStr kq q
               match kq.marshalM q1 with
               | .ok (b2, q2) => s!"{hexOrDash b1} | {l2} {hexOrDash b2} | {q2.toText}"
               | .err => s!"{hexOrDash b1} | {l2} err2"
               | _ => "panic")
          | .err => hexOrDash b1 ++ (if viaParse then " | perr" else " | derr")
          | .panic => "panic"
          | .spin => "spin"
        -- oracle: decoding succeeds, re-encoding reproduces the bytes, reported size = their number
        let prop := if v0.kind.startsWith "p." then "C09" else "C05"
        let o : List (String × String) :=
          match impl.splitOn " | " with
          | [h1, mid, _] =>
            (match mid.splitOn " " with
             | [l2, h2] =>
               (if h2 = h1 ∧ l2 = toString (if h1 = "-" then 0 else h1.length / 2) then []
                else [(prop, s!"round trip of a {v0.kind}: encoded {h1.take 120}, re-encoded {h2.take 120} (size {l2})")]) ++
               -- C02 on the value the DECODER built (top-level messages through Parse): its encoding follows the grammar
               (if viaParse ∧ h2 ≠ "err2" then
                  (match ofHex h2 with
                   | some bs2 =>
                     (match Spec.walk bs2 with
                      | .error e =>
                        if (e.splitOn "not controller-originated").length > 1 ∨ (e.splitOn "experimenter").length > 1 ∨
                           (e.splitOn "nicira message type").length > 1 ∨ (e.splitOn "onf message type").length > 1 then []
                        else [("C02", s!"a parsed {v0.kind}, encoded again, does not follow the wire grammar: {e} ({h2.take 120})")]
                      | .ok _ => [])
                   | none => [])
                else []) ++
               -- C06 on the value the DECODER built: the size it reports is the number of bytes it encodes to
               (if h2 ≠ "err2" ∧ l2 ≠ toString (if h2 = "-" then 0 else h2.length / 2) then
                  [("C06", s!"a decoded {v0.kind} reports size {l2} and encodes to {if h2 = "-" then 0 else h2.length / 2} bytes ({h2.take 120})")]
                else [])
             | _ => [(prop, s!"round trip of a {v0.kind}: {mid.take 100}")])
          | _ => if impl.startsWith "err1" then [] else [(prop, s!"round trip of a {v0.kind} fails: {impl.take 160}")]
        { model := m, more := o }
      | .err => { model := "err1" }
      | .panic => { model := "panic", more := [("C05", "encoder panics")] }
      | .spin => { model := "spin" }

def rtWith (viaParse : Bool) : Handler := fun args impl => rtFrom viaParse (valueOf ("".intercalate args)) impl

/-- `rtw <hex backing> <len>`: round trip starting from the WIRE — the frame is parsed, and the parsed message must
    then round-trip like any other value (encode, parse again, encode: same bytes, same size) -/
def rtw : Handler := fun args impl =>
  match args with
  | hx :: ln :: rest =>
    match mkSlice hx ln with
    | some s =>
      (match parse (s.len + 1) s with
       | .ok .nil => { model := "pnil0" }
       | .ok v =>
         let r0 := rtFrom true (.ok v) impl
         -- frames of kinds with a known finding (echo payload, priority tag: flag "-") are exempt from the grammar oracle
         let r := if rest = ["w"] then r0 else { r0 with more := r0.more.filter (fun (p, _) => p ≠ "C02") }
         -- the first re-encoding of the parsed frame
         let b1 := (impl.splitOn " | ").head?.getD ""
         let wire := toHex (s.buf.take s.len)
         let extra : List (String × String) :=
           -- (a) a conformant frame parsed and encoded again is the frame itself (flag "w": no known exception applies)
           (if rest = ["w"] ∧ b1 ≠ wire ∧ b1 ≠ "err1" then
              [("C05", s!"parsed {v.kind} re-encodes to {b1.take 120}, the frame was {wire.take 120}")] else []) ++
           -- (a') … and when the re-encoding is SHORTER than the frame, bytes the switch put on the wire are not in the
           -- parsed message at all (C04: nothing present on the wire is dropped)
           (if rest = ["w"] ∧ b1 ≠ "err1" ∧ b1.length < wire.length ∧ b1.length ≥ 16 then
              [("C04", s!"parsed {v.kind} holds fewer bytes than the frame carried: re-encoded {b1.length / 2} of {wire.length / 2} bytes ({wire.take 160})")] else []) ++
           -- (b) whatever the library encodes must follow the wire grammar (kinds the walker knows)
           (match (if rest = ["w"] then ofHex b1 else none) with
            | some bs =>
              (match Spec.walk bs with
               | .error e =>
                 if (e.splitOn "not controller-originated").length > 1 ∨ (e.splitOn "experimenter").length > 1 ∨
                    (e.splitOn "nicira message type").length > 1 ∨ (e.splitOn "onf message type").length > 1 then []
                 else [("C02", s!"re-encoding of a parsed {v.kind} does not follow the wire grammar: {e}")]
               | .ok _ => [])
            | none => [])
         { r with more := r.more ++ extra }
       | .err => { model := "perr0" }
       | .panic => { model := "panic" }
       | .spin => { model := "spin" })
    | none => unmodelled
  | _ => unmodelled

/-- C12: a parsed message does not change when its input buffer (whole backing array) is overwritten -/
def scribble : Handler := fun args impl =>
  match args with
  | [hx, ln] =>
    match mkSlice hx ln with
    | some s =>
      let m := match parse (s.len + 1) s with
        | .ok .nil => "~"
        | .ok v =>
          (match kinds.lookup v.kind with
           | some k => (match k.marshalM v with
             | .ok (bs, v') => s!"same {v'.toText} {hexOrDash bs}"
             | .err => s!"same {v.toText} merr"
             | _ => "panic")
           | none => "unmodelled")
        | .err => "err"
        | .panic => "panic"
        | .spin => "spin"
      -- a message that changes when its input buffer is reused no longer shows what the switch put on the wire (C04:
      -- "read from a neighbouring field" — of the next frame received into the same buffer) and does not own its memory (C12)
      { model := m, more := if impl.startsWith "changed" then
          [("C12", s!"message changed after its input buffer was overwritten: {impl.take 300}"),
           ("C04", s!"parsed message shows other bytes than its frame carried once the receive buffer is reused: {impl.take 300}")] else [] }
    | none => unmodelled
  | _ => unmodelled

def parseH : Handler := fun args impl =>
  match args with
  | [hx, ln] =>
    match mkSlice hx ln with
    | some s => { model := showR V.toText (parse (s.len + 1) s),
                  more := if impl = "panic" ∨ impl = "spin" then [("C07", s!"Parse of a {ln}-byte frame: {impl}")] else [] }
    | none => unmodelled
  | _ => unmodelled

/-! ### C04: what an independent, specification-written encoder put on the wire must be what Parse exposes -/

/-- field of a struct value by Go field name, also through embedded structs (promoted fields) -/
def fieldDeep : Nat → V → String → Option V
  | 0, _, _ => none
  | fuel + 1, v, name =>
    match v with
    | .obj k fs =>
      match Gen.structFields.lookup k with
      | none => none
      | some ns =>
        match ns.findIdx? (· = name) with
        | some i => fs[i]?
        | none =>
          -- an embedded struct is a field whose name equals its type's name
          let embedded := (ns.zip fs).filter (fun (n, f) => match f with
            | .obj k' _ => n = k' ∨ ("p." ++ n) = k' ∨ ("u." ++ n) = k'
            | _ => false)
          embedded.findSome? (fun (_, f) => fieldDeep fuel f name)
    | _ => none

def resolvePath (v : V) (path : List String) : Option V :=
  path.foldlM (fun (cur : V) (seg : String) =>
    match seg.toNat? with
    | some i => (match cur with
      | .list xs => xs[i]?
      | _ => none)
    | none => fieldDeep 4 cur seg) v

/-- bytes a value stands for when the encoder wrote raw bytes there -/
def rawOf : V → Option Bytes
  | .bytes b => some b
  | .obj "u.Buffer" [.bytes b] => some b
  | .nil => some []
  | _ => none

def checkExpect (dump : V) (item : String) : Option String :=
  match item.splitOn "=" with
  | [pathS, want] =>
    let path := pathS.splitOn "."
    match resolvePath dump path with
    | none => some s!"{pathS}: the parsed {dump.kind} has no such field / element (wanted {want.take 60})"
    | some got =>
      if want.startsWith "#" then
        match got, (want.drop 1).toString.toNat? with
        | .list xs, some n => if xs.length = n then none else some s!"{pathS}: {xs.length} elements parsed, {n} on the wire"
        | .nil, some 0 => none
        | _, _ => some s!"{pathS}: not a list"
      else if want.startsWith "kind:" then
        let k := (want.drop 5).toString
        if got.kind = k then none else some s!"{pathS}: parsed as {got.kind}, the wire holds a {k}"
      else if want.startsWith "oxm:" then
        match (want.drop 4).toString.splitOn ":" with
        | [c, f, m, vh, mh] =>
          (match got, c.toNat?, f.toNat?, m.toNat?, ofHex vh, ofHex mh with
          | .obj "MatchField" [.num c', .num f', .num m', _, _, val, mask], some c, some f, some m, some vb, some mb =>
            if c' ≠ c ∨ f' ≠ f ∨ m' ≠ m then some s!"{pathS}: class/field/mask {c'}/{f'}/{m'}, wire {c}/{f}/{m}"
            else
              -- net.IP holds an IPv4 address in 4 or in 16 (v4-mapped) bytes
              let norm (w : Nat) (o : Option Bytes) : Option Bytes :=
                o.map fun b => if w = 4 ∧ b.length = 16 ∧ b.take 12 = zeros 10 ++ [0xff, 0xff] then b.drop 12 else b
              let gv := norm vb.length (Oracles.payloadBytes vb.length val)
              let gm := if m = 1 then norm mb.length (Oracles.payloadBytes mb.length mask) else some []
              if gv = some vb ∧ gm = some mb then none
              else some s!"{pathS}: value/mask parsed as {val.toText}/{mask.toText}, wire {vh}/{mh}"
          | _, _, _, _, _, _ => some s!"{pathS}: not a match field: {got.toText.take 80}")
        | _ => some s!"bad expectation {item}"
      else if want.startsWith "ins:" then
        match ofHex (want.drop 4).toString with
        | some bs =>
          (match Spec.walkInstrs (bs.length + 8) bs with
          | .error e => some s!"generator bug: instruction bytes not walkable: {e}"
          | .ok ts =>
            let es := (ts.map Spec.Tree.flatBytes).flatten
            let vs := Oracles.elemsOf got
            if es.map (·.1) ≠ vs.map (·.1) then
              some s!"{pathS}: wire holds {es.map (·.1)}, parsed {vs.map (·.1)}"
            else
              match ((es.zip vs).map fun ((c, b), (_, v)) => Oracles.checkElem c v b).flatten with
              | [] => none
              | d :: _ => some s!"{pathS}: {d}")
        | none => some s!"bad expectation {item}"
      else if want.startsWith "x" then
        match ofHex (want.drop 1).toString, rawOf got with
        | some wb, some gb => if wb = gb then none else some s!"{pathS} = x{toHex gb}, the wire holds x{toHex wb}"
        | _, _ => some s!"{pathS}: parsed {got.toText.take 60}, the wire holds {want.take 60}"
      else
        match want.toNat?, got with
        | some n, .num g => if n = g then none else some s!"{pathS} = {g}, the wire holds {n}"
        | _, _ => some s!"{pathS}: parsed {got.toText.take 60}, the wire holds {want.take 60}"
  | _ => some s!"bad expectation {item}"

/-- `sw <hex backing> <len> <Kind;path=value;…>`: Parse of bytes written by the independent switch-side encoder -/
def swH : Handler := fun args impl =>
  match args with
  | [hx, ln, exp] =>
    match mkSlice hx ln with
    | some s =>
      let m := showR V.toText (parse (s.len + 1) s)
      let fails : List String :=
        match exp.splitOn ";" with
        | kind :: items =>
          (match V.ofText impl with
          | none => [s!"conformant {kind} frame ({(items.head?.getD "").take 24}) of {ln} bytes: Parse returned {impl.take 40}"]
          | some d =>
            (if kind ≠ "*" ∧ d.kind ≠ kind then [s!"a {kind} frame was parsed as {d.kind}"] else []) ++
            (items.filter (· ≠ "")).filterMap (checkExpect d))
        | [] => []
      { model := m, more := (fails.take 3).map (fun f => ("C04", f)) }
    | none => unmodelled
  | _ => unmodelled

/-- `pk <kind> <hex backing> <len> <Kind;path=value;…>` (C09): a well-formed packet header written by the independent
    encoder is decoded by the kind's own decoder; every field must hold what was written (sub-byte fields in their
    lanes), the reported size must equal the bytes consumed and the re-encoding must reproduce the input -/
def pkH : Handler := fun args impl =>
  match args with
  | [kn, hx, ln, exp] =>
    match kinds.lookup kn, mkSlice hx ln with
    | some k, some s =>
      let m := match k.unmarshal k.zero s with
        | .ok v =>
          (match kinds.lookup v.kind with
           | none => "unmodelled"
           | some kv =>
             let (l, v1) := lenStr kv v
             match kv.marshalM v1 with
             | .ok (b, v2) => s!"{v2.toText} {l} {hexOrDash b}"
             | .err => s!"{v1.toText} {l} err"
             | .panic => "panic"
             | .spin => "spin")
        | r => showR (fun _ => "") r
      let input := toHex (s.buf.take s.len)
      let fails : List String :=
        match impl.splitOn " " with
        | [d, l, h] =>
          (match V.ofText d with
           | none => [s!"{kn}: unreadable result {impl.take 60}"]
           | some dv =>
             ((exp.splitOn ";").drop 1 |>.filter (· ≠ "") |>.filterMap (checkExpect dv)) ++
             (if l = ln then [] else [s!"{kn}: reported size {l}, {ln} bytes were consumed"]) ++
             (if h = input ∨ (h = "-" ∧ input = "") then [] else [s!"{kn}: re-encoding {h.take 100} differs from the input {input.take 100}"]))
        | _ => [s!"well-formed {kn} header of {ln} bytes: decoder returned {impl.take 60}"]
      { model := m, more := (fails.take 3).map (fun f => ("C09", f)) }
    | _, _ => unmodelled
  | _ => unmodelled

/-- `pkrw p.DHCP <hex> <len> <message length> <expectations>` (C09): a BOOTP/DHCP message written by an independent
    encoder, possibly followed by BOOTP padding, is decoded with `Write`; the fixed fields must hold what was written,
    `Len()` must be the message's length and `Read` must reproduce the message -/
def pkrwH : Handler := fun args impl =>
  match args with
  | [kn, hx, ln, mlen, exp] =>
    match ofHex hx, ln.toNat? with
    | some bs0, some n =>
      let bs := bs0.take n
      let m : String :=
        if kn = "p.DHCP" then
          match PDHCP.write PDHCP.zero bs with
          | .ok (v, _) =>
            (match PDHCP.len v, PDHCP.readBuf v with
             | .ok l, .ok b => s!"{v.toText} {l.toNat} {hexOrDash (b.take l.toNat)}"
             | _, _ => "err2")
          | r => showR (fun _ => "") r
        else "unmodelled"
      let input := toHex (bs.take (mlen.toNat?.getD 0))
      let fails : List String :=
        match impl.splitOn " " with
        | [d, l, h] =>
          (match V.ofText d with
           | none => [s!"{kn}: unreadable result {impl.take 60}"]
           | some dv =>
             ((exp.splitOn ";").drop 1 |>.filter (· ≠ "") |>.filterMap (checkExpect dv)) ++
             (if l = mlen then [] else [s!"{kn}: reported size {l}, the message has {mlen} bytes"]) ++
             (if h = input then [] else [s!"{kn}: re-encoding {h.take 100} differs from the message {input.take 100}"]))
        | _ => [s!"well-formed {kn} message of {mlen} bytes: decoder returned {impl.take 60}"]
      { model := m, more := (fails.take 3).map (fun f => ("C09", f)) }
    | _, _ => unmodelled
  | _ => unmodelled

/-- `loc <hex frame>` (C10): frame locality on the implementation — a conformant frame written by the independent
    switch-side encoder is parsed from two buffers holding different bytes behind the frame; the message and its
    re-encoding must be the same (what the recycled pool buffer holds behind a frame must not reach the delivered message).
    The model does the same with its own `parse` (the C10c theorems say when that is guaranteed). -/
def locH : Handler := fun args impl =>
  match args with
  | [hx] =>
    match ofHex hx with
    | some fr =>
      let one (fill : Nat) : String :=
        let tail := (List.range 96).map (fun i => UInt8.ofNat (fill + (fr.length + i) % 7))
        showR V.toText (parse (fr.length + 1) ⟨fr ++ tail, fr.length⟩)
      let m := if one 0 = one 0xf1 then "local" else "nonlocal"
      { model := m, more := if impl = "nonlocal" then [("C10", s!"a conformant frame of {fr.length} bytes parses differently depending on the bytes behind it in the buffer")] else [] }
    | none => unmodelled
  | _ => unmodelled

/-- `dhcpsz <seed>` (C06): a DHCP message built through the API (options appended in any order, pad / end options anywhere,
    padding behind an end option): the model's size and encoding of the value the implementation built must agree with the
    implementation's, and the reported size must be the number of bytes `Read` produces -/
def dhcpszH : Handler := fun _ impl =>
  match impl.splitOn " " with
  | [d, l, h] =>
    match V.ofText d with
    | none => { model := "unreadable" }
    | some dv =>
      let m := match PDHCP.len dv, PDHCP.readBuf dv with
        | .ok ml, .ok b => s!"{d} {ml.toNat} {hexOrDash b}"
        | _, _ => s!"{d} err2"
      let fails := if h = "err" then [] else
        if l.toNat? = some (h.length / 2) then [] else [s!"p.DHCP built through the API: reported size {l}, Read produced {h.length / 2} bytes"]
      { model := m, more := fails.map (fun f => ("C06", f)) }
  | _ => { model := impl }

/-- `dec` with the totality oracle for the packet-header decoders (C08) -/
def decH : Handler := fun args impl =>
  let v := dec args impl
  match args with
  | kn :: _ :: ln :: _ =>
    if (kn.startsWith "p." ∨ kn.startsWith "p.New") ∧ (impl = "panic" ∨ impl = "spin") then
      { v with more := [("C08", s!"{kn} decoder on {ln} bytes: {impl}")] }
    else v
  | _ => v

/-- `apix`: valid API histories the interpreter does not model (a child is completed AFTER it was attached to its
    container; Go pointers make the container see the completed child): no correspondence, property oracles on the
    implementation's observation only -/
def apix : Handler := fun args impl =>
  let src := "".intercalate args
  { model := impl, more := valueOracles impl (wantTypeOf src) }

/-- `embed`: the implementation-side check that a container's bytes contain its children's own encodings, intact and
    in order (C06).  The model side of the statement is the container theorems; here the expected answer is "ok". -/
def embedH : Handler := fun _ impl =>
  if impl.startsWith "ok" ∨ impl = "panic" ∨ impl = "spin" ∨ impl.startsWith "err" then { model := impl }
  else { model := "ok", more := [("C06", s!"child not embedded intact: {impl.take 400}")] }

/-- `repvia`: implementation-side check that encoding a container leaves the later encodings of the children built on
    their own unchanged (C13); the model side is `C13b.embed_again`. The expected answer is "ok". -/
def repviaH : Handler := fun _ impl =>
  if impl.startsWith "ok" ∨ impl = "panic" ∨ impl = "spin" ∨ impl.startsWith "err" then { model := impl }
  else { model := "ok", more := [("C13", s!"encoding the container changed a child's own encoding: {impl.take 400}")] }

def handlers : List (String × Handler) :=
  [("repvia", repviaH), ("enc", enc), ("dec", decH), ("decc", fun a i => let v := decc a i
      match a with
      | kn :: _ :: ln :: _ => if kn.startsWith "p." ∧ (i = "panic" ∨ i = "spin") then { v with more := [("C08", s!"{kn} decoder on {ln} bytes: {i}")] } else v
      | _ => v),
   ("fn", fn), ("prog", prog), ("api", api), ("apix", apix), ("parse", parseH), ("sw", swH), ("pk", pkH), ("pkrw", pkrwH), ("dhcpsz", dhcpszH), ("loc", locH), ("embed", embedH), ("embedw", embedH),
   ("rep", rep), ("rtrip", rtWith false), ("rtparse", rtWith true), ("rtw", rtw), ("scribble", scribble),
   -- literal values: the repeated-call oracle ("same answer every time") applies to any value whatsoever; the
   -- size-vs-bytes part belongs to C06 and is judged on API-built values only
   ("repx", fun a i => let v := rep a i; { v with more := v.more.filter (fun (_, d) => !d.startsWith "size ") }), ("rtx", fun a i => { (rtWith false a i) with more := [] })]

end OFV.Driver.OF
