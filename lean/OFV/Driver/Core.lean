/-
  OFV.Driver.Core — line protocol shared by all op families.
  A trace line is  `<op> <arg>… => <implementation output>`  (written by the Go harness, which ran the
  real library).  A handler computes the model's output for the same case and, where the property has an
  independent oracle, a verdict on the IMPLEMENTATION's output.
-/
import OFV.Go.Bytes
namespace OFV.Driver
open OFV

structure Verdict where
  model  : String                 -- what the Lean model produces for this case
  oracle : Option String := none  -- `some detail` = the property's oracle rejects the implementation output
  prop   : String := ""           -- property the oracle belongs to (default: the family's)
  more   : List (String × String) := []   -- further oracle failures (property id, detail) on the implementation output

abbrev Handler := List String → String → Verdict

def unmodelled : Verdict := { model := "unmodelled" }

def natArg (s : String) : Option Nat := s.toNat?

def intArg (s : String) : Option Int := s.toInt?

/-- hex, with `-` for the empty string (a trace field is never empty) -/
def hexOrDash (bs : Bytes) : String := if bs.isEmpty then "-" else toHex bs

def hex32 (v : UInt32) : String := toHex (be32 v)
def hex16 (v : UInt16) : String := toHex (be16 v)

end OFV.Driver
