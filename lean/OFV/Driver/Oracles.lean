/-
  OFV.Driver.Oracles — property oracles evaluated on the IMPLEMENTATION's observation of a value
  ("<Len> <hex> <Len> <dump>"): C06 (reported size = bytes produced), C01 (framing of top-level messages),
  C02 (independent wire-grammar walk visits exactly the elements the value holds).
-/
import OFV.Driver.Core
import OFV.Model.V
import OFV.Spec.Walk
import OFV.Spec.Layout
import OFV.Gen.Structs
namespace OFV.Driver.Oracles
open OFV OFV.Driver OFV.Model

/-- the observation, parsed -/
structure Obs where
  l1 : Nat
  bytes : Bytes
  l2 : Nat
  dump : V

def parseObs (impl : String) : Option Obs :=
  match impl.splitOn " " with
  | [a, hx, b, d] => do
    let l1 ← a.toNat?
    let bs ← ofHex hx
    let l2 ← b.toNat?
    let v ← V.ofText d
    pure ⟨l1, bs, l2, v⟩
  | _ => none

/-! ### what the value holds, as the element codes the walker uses (generic over the struct shapes) -/

def headerType : V → Option Nat
  | .obj "Header" [_, .num ty, _, _] => some ty
  | _ => none

def code (v : V) : Option String :=
  match v with
  | .obj "Header" [_, .num ty, _, _] => some s!"msg {ty}"
  | .obj "MatchField" (.num c :: .num f :: .num m :: _) => some s!"oxm {c} {f} {m}"
  | .obj "Match" _ => some "match"
  | .obj "Bucket" _ => some "bucket"
  | .obj "TLVTableMap" _ => some "tlvmap"
  | .obj "HelloElemVersionBitmap" (.obj "HelloElemHeader" [.num t, _] :: _) => some s!"helloelem {t}"
  | .obj "HelloElemHeader" [.num t, _] => some s!"helloelem {t}"
  | .obj "BundlePropertyExperimenter" (.num t :: _) => some s!"prop {t}"
  | .obj "NXLearnSpec" (.obj "NXLearnSpecHeader" [.num src, .num dst, .num out, _, _] :: _) =>
    some s!"spec {src} {if out = 1 then 2 else if dst = 1 then 1 else 0}"
  | .obj "ActionHeader" [.num t, _] => some s!"act {t}"
  | .obj _ (.obj "ActionHeader" [.num t, _] :: _) => some s!"act {t}"
  | .obj _ (.obj "NXActionHeader" [_, _, .num sub] :: _) => some s!"nx {sub}"
  | .obj "InstrHeader" [.num t, _] => some s!"ins {t}"
  | .obj _ (.obj "InstrHeader" [.num t, _] :: _) => some s!"ins {t}"
  | _ => none

/-- children to descend into (everything except the header objects already consumed by `code`) -/
def isHeaderObj : V → Bool
  | .obj k _ => k = "Header" || k = "ActionHeader" || k = "NXActionHeader" || k = "InstrHeader" ||
      k = "HelloElemHeader" || k = "NXLearnSpecHeader"
  | _ => false

/-- kinds whose MatchField-typed fields are written as 4-byte header words, not as TLVs -/
def headerOnly : List String := ["NXActionRegLoad", "NXActionRegMove", "NXActionOutputReg", "NXLearnSpecField"]

/-- the fields of a struct that hold nested elements: everything after the embedded header; a delete flow-mod carries
    no instructions and a delete group-mod no buckets on the wire (OpenFlow ignores them; the library omits them) -/
def childFields (k : String) (fs : List V) : List V :=
  let rest := match fs with
    | h :: t => if isHeaderObj h then t else fs
    | [] => []
  match k, fs with
  | "FlowMod", _ :: _ :: _ :: _ :: .num cmd :: _ => if cmd = 3 ∨ cmd = 4 then rest.dropLast else rest
  | "GroupMod", _ :: .num cmd :: _ => if cmd = 2 then rest.dropLast else rest
  | _, _ => rest

partial def shapeOf (v : V) : List String :=
  match v with
  | .list xs => (xs.map shapeOf).flatten
  | .obj k fs =>
    let own := match code v with
      | some c => [c]
      | none =>
        -- a top-level message: its first field is the OpenFlow header
        match fs with
        | h :: _ => (match headerType h with
          | some ty => [s!"msg {ty}"]
          | none => [])
        | [] => []
    let extra :=
      match k, fs with
      | "MultipartRequest", _ :: .num t :: _ => [s!"mp {t}"]
      | "VendorHeader", _ :: .num vendor :: .num et :: _ =>
        [if vendor = 0x2320 then s!"nxt {et}" else if vendor = 0x4f4e4600 then s!"onf {et}" else s!"exp {vendor} {et}"]
      | _, _ => []
    let kids := if k = "MatchField" ∨ k = "Header" ∨ headerOnly.contains k then [] else
      ((childFields k fs).map shapeOf).flatten
    own ++ extra ++ kids
  | _ => []

/-- message type a Go kind must carry (kinds whose type is fixed by the struct) -/
def fixedType : List (String × Nat) :=
  [("Hello", 0), ("SwitchConfig", 9), ("PacketOut", 13), ("FlowMod", 14), ("GroupMod", 15), ("PortMod", 16),
   ("MultipartRequest", 18), ("VendorHeader", 4)]

/-- is this a controller-originated top-level message value? -/
def isCtlMsg (v : V) : Bool :=
  match v with
  | .obj "Header" [_, .num ty, _, _] => [2, 3, 5, 7, 20].contains ty
  | .obj k _ => (fixedType.lookup k).isSome
  | _ => false

/-- C06 on any kind: reported size (before and after encoding) = bytes produced -/
def c06 (o : Obs) : List (String × String) :=
  if o.l1 = o.bytes.length ∧ o.l2 = o.bytes.length then []
  else [("C06", s!"reported size {o.l1}/{o.l2}, encoded size {o.bytes.length}")]

/-- C01 on top-level controller messages: version 4, the kind's type code, header length = bytes = reported size -/
def c01 (o : Obs) (wantType : Option Nat) : List (String × String) :=
  if ¬ isCtlMsg o.dump then [] else
  let bs := o.bytes
  let hl := Spec.u16At bs 2
  let tyOK : Bool := match wantType with
    | some t => Spec.u8At bs 1 == t
    | none => match fixedType.lookup o.dump.kind with
      | some t => Spec.u8At bs 1 == t
      | none => true
  let fits : Bool := bs.length ≤ 65535
  if ¬ fits then [] else
  (if bs.length ≥ 8 ∧ Spec.u8At bs 0 = 4 then [] else [("C01", s!"version byte {Spec.u8At bs 0} in a {o.dump.kind}")]) ++
  (if tyOK then [] else [("C01", s!"type byte {Spec.u8At bs 1} in a {o.dump.kind}")]) ++
  (if hl = bs.length ∧ o.l1 = bs.length ∧ o.l2 = bs.length then []
   else [("C01", s!"header length {hl}, bytes produced {bs.length}, reported size {o.l1}/{o.l2}")])

/-- C02 on top-level controller messages: the grammar walk succeeds, ends exactly at the end, and visits exactly the
    elements the value holds, in order -/
def c02 (o : Obs) : List (String × String) :=
  if ¬ isCtlMsg o.dump ∨ o.bytes.length > 65535 then [] else
  match Spec.walk o.bytes with
  | .error e => [("C02", s!"wire-grammar walk fails: {e}")]
  | .ok t =>
    let got := t.flat
    let want := shapeOf o.dump
    if got = want then [] else [("C02", s!"walk visits {got}, the value holds {want}")]

/-- element-level C02: a single action / instruction / bucket / match / match field observed on its own -/
def c02elem (o : Obs) : List (String × String) :=
  let bs := o.bytes
  let want := shapeOf o.dump
  let chk (r : Spec.W (List Spec.Tree)) : List (String × String) :=
    match r with
    | .error e => [("C02", s!"element walk fails: {e}")]
    | .ok ts =>
      let got := (ts.map Spec.Tree.flat).flatten
      if got = want then [] else [("C02", s!"element walk visits {got}, the value holds {want}")]
  match code o.dump with
  | some c =>
    if c.startsWith "act " ∨ c.startsWith "nx " then chk (Spec.walkActions (bs.length + 8) bs)
    else if c.startsWith "ins " then chk (Spec.walkInstrs (bs.length + 8) bs)
    else if c = "bucket" then chk (Spec.walkBuckets (bs.length + 8) bs)
    else if c = "match" then chk (do
      let (t, n) ← Spec.walkMatch bs
      if n = bs.length then pure [t] else Spec.fail s!"match consumes {n} of {bs.length} bytes")
    else if c.startsWith "oxm " then chk (Spec.walkOxms (bs.length + 8) bs)
    else []
  | none => []

/-! ### C03: every supplied value sits at the offset, width and byte order the specification assigns to its field -/

/-- the elements of a value in the walker's pre-order, as values (same traversal as `shapeOf`) -/
partial def elemsOf (v : V) : List (String × V) :=
  match v with
  | .list xs => (xs.map elemsOf).flatten
  | .obj k fs =>
    let own : List (String × V) := match code v with
      | some c => [(c, v)]
      | none =>
        match fs with
        | h :: _ => (match headerType h with
          | some ty => [(s!"msg {ty}", v)]
          | none => [])
        | [] => []
    let extra : List (String × V) :=
      match k, fs with
      | "MultipartRequest", _ :: .num t :: _ => [(s!"mp {t}", (fs.getLast?.getD .nil))]
      | "VendorHeader", _ :: .num vendor :: .num et :: _ =>
        [(if vendor = 0x2320 then s!"nxt {et}" else if vendor = 0x4f4e4600 then s!"onf {et}" else s!"exp {vendor} {et}",
          fs.getLast?.getD .nil)]
      | _, _ => []
    let kids := if k = "MatchField" ∨ k = "Header" ∨ headerOnly.contains k then [] else
      ((childFields k fs).map elemsOf).flatten
    own ++ extra ++ kids
  | _ => []

/-- field of a struct value by Go field name (also through one level of embedding) -/
def fieldOf (v : V) (name : String) : Option V :=
  match v with
  | .obj k fs =>
    match Gen.structFields.lookup k with
    | some ns => (match ns.findIdx? (· = name) with
      | some i => fs[i]?
      | none => none)
    | none => none
  | _ => none

/-- OXM header word of a MatchField value, per the specification: class<<16 | field<<9 | hasmask<<8 | length -/
def hdrWordOf : V → Option Nat
  | .obj "MatchField" (.num c :: .num f :: .num m :: .num l :: _) => some (c * 65536 + f * 512 + m * 256 + l)
  | _ => none

/-- bytes a match-field payload value stands for (numbers in the field's width) -/
def payloadBytes (w : Nat) : V → Option Bytes
  | .obj _ [.num n] => some ((List.range w).map (fun i => UInt8.ofNat (n / 256 ^ (w - 1 - i) % 256)))
  | .obj _ [.bytes b] => some b
  | .obj "ByteArrayField" [.bytes b, _] => some b
  | _ => none

def checkElem (code : String) (v : V) (bs : Bytes) : List String :=
  let fixed : List String :=
    match Spec.layouts.lookup v.kind with
    | none => []
    | some fls => fls.filterMap fun fl =>
      match fieldOf v fl.name with
      | none => some s!"{v.kind}.{fl.name}: no such field"
      | some fv =>
        let got := Spec.beAt bs fl.off fl.width
        match fl.kind, fv with
        | .num, .num n => if got = n then none else some s!"{v.kind}.{fl.name} = {n} but the {fl.width} bytes at offset {fl.off} hold {got}"
        | .raw, .bytes b => if (bs.drop fl.off).take fl.width = b then none else some s!"{v.kind}.{fl.name} = {toHex b} but offset {fl.off} holds {toHex ((bs.drop fl.off).take fl.width)}"
        | .hdrWord, mf => (match hdrWordOf mf with
          | some w => if got = w then none else some s!"{v.kind}.{fl.name}: header word {w} expected at offset {fl.off}, found {got}"
          | none => none)
        | _, _ => none
  let special : List String :=
    if code.startsWith "oxm " then
      match v with
      | .obj "MatchField" [.num c, _, .num m, .num _, .num _, val, mask] =>
        let start := if c = 0xffff then 8 else 4
        let pl := bs.drop start
        let w := if m = 1 then pl.length / 2 else pl.length
        -- a decoded net.IP holds an IPv4 address in its 16-byte v4-mapped form
        let norm (o : Option Bytes) : Option Bytes :=
          o.map fun b => if w = 4 ∧ b.length = 16 ∧ b.take 12 = zeros 10 ++ [0xff, 0xff] then b.drop 12 else b
        match norm (payloadBytes w val), (if m = 1 then norm (payloadBytes w mask) else some []) with
        | some vb, some mb => if pl = vb ++ mb then [] else [s!"match field payload {toHex pl}, supplied value {toHex vb} mask {toHex mb}"]
        | _, _ => []
      | _ => []
    else if v.kind = "NXActionCTNAT" then
      -- optional parts in OVS order, exactly those whose presence bit is set
      match v with
      | .obj _ [_, _, _, .num present, v4min, v4max, v6min, v6max, pmin, pmax] =>
        let last4 (x : V) : Bytes := let b := x.asBytes; if b.length = 16 then b.drop 12 else b
        let parts : List (Nat × Bytes) :=
          [(1, last4 v4min), (2, last4 v4max), (4, v6min.asBytes), (8, v6max.asBytes),
           (16, be16 (n16 pmin.asNat)), (32, be16 (n16 pmax.asNat))]
        let want := (parts.filter (fun p => present / p.1 % 2 = 1)).foldl (fun acc p => acc ++ p.2) []
        let got := (bs.drop 16).take want.length
        (if got = want then [] else [s!"nat ranges (present={present}): want {toHex want} got {toHex got}"]) ++
        -- a supplied range must be announced by its presence bit
        (parts.filterMap fun p =>
          let supplied : Bool := match p.1 with
            | 1 => !v4min.asBytes.isEmpty | 2 => !v4max.asBytes.isEmpty | 4 => !v6min.asBytes.isEmpty
            | 8 => !v6max.asBytes.isEmpty | 16 => !pmin.isNil | _ => !pmax.isNil
          if supplied && present / p.1 % 2 == 0 then some s!"nat range bit {p.1} supplied but not announced" else none)
      | _ => []
    else if v.kind = "NXActionDecTTLCntIDs" then
      match fieldOf v "cntIDs" with
      | some (.list ids) =>
        let want := ids.foldl (fun acc i => acc ++ be16 (n16 i.asNat)) []
        if (bs.drop 16).take want.length = want then [] else [s!"dec_ttl_cnt_ids ids {toHex ((bs.drop 16).take want.length)} want {toHex want}"]
      | _ => []
    else if v.kind = "NXActionNote" then
      match fieldOf v "Note" with
      | some (.bytes n) => if (bs.drop 10).take n.length = n then [] else ["note bytes differ"]
      | _ => []
    else if v.kind = "NXLearnSpec" then
      match v with
      | .obj _ [.obj _ [.num src, .num dst, .num out, .num nbits, _], sf, df, .bytes sv] =>
        let hdrWant := (if out = 1 then 2 * 2048 else (if src = 1 then 8192 else 0) + (if dst = 1 then 2048 else 0)) + nbits
        let specField (f : V) : Bytes := match f with
          | .obj "NXLearnSpecField" [mf, .num ofs] => be32 (n32 ((hdrWordOf mf).getD 0)) ++ be16 (n16 ofs)
          | _ => []
        let srcB := if src = 1 then sv.take (2 * ((nbits + 15) / 16)) else specField sf
        let dstB := if out = 1 then [] else specField df
        let want := be16 (n16 hdrWant) ++ srcB ++ dstB
        if bs = want then [] else [s!"learn spec {toHex bs}, supplied {toHex want}"]
      | _ => []
    else []
  fixed ++ special

def c03 (o : Obs) : List (String × String) :=
  if ¬ isCtlMsg o.dump ∨ o.bytes.length > 65535 then [] else
  match Spec.walk o.bytes with
  | .error _ => []      -- reported by C02
  | .ok t =>
    let es := t.flatBytes
    let vs := elemsOf o.dump
    if es.map (·.1) ≠ vs.map (·.1) then [] else   -- reported by C02
    let bad := ((es.zip vs).map fun ((c, b), (_, v)) => checkElem c v b).flatten
    bad.map (fun d => ("C03", d))

/-- element-level C03 for a single action / instruction / bucket / match field observed on its own -/
def c03elem (o : Obs) : List (String × String) :=
  let bs := o.bytes
  let r : Spec.W (List Spec.Tree) :=
    match code o.dump with
    | some c =>
      if c.startsWith "act " ∨ c.startsWith "nx " then Spec.walkActions (bs.length + 8) bs
      else if c.startsWith "ins " then Spec.walkInstrs (bs.length + 8) bs
      else if c = "bucket" then Spec.walkBuckets (bs.length + 8) bs
      else if c.startsWith "oxm " then Spec.walkOxms (bs.length + 8) bs
      else if c = "match" then (do let (t, _) ← Spec.walkMatch bs; pure [t])
      else .ok []
    | none => .ok []
  match r with
  | .error _ => []
  | .ok ts =>
    let es := (ts.map Spec.Tree.flatBytes).flatten
    let vs := elemsOf o.dump
    if es.map (·.1) ≠ vs.map (·.1) then [] else
    (((es.zip vs).map fun ((c, b), (_, v)) => checkElem c v b).flatten).map (fun d => ("C03", d))

end OFV.Driver.Oracles
