/-
  OFV.Driver.Oracles — property oracles evaluated on the IMPLEMENTATION's observation of a value
  ("<Len> <hex> <Len> <dump>"): C06 (reported size = bytes produced), C01 (framing of top-level messages),
  C02 (independent wire-grammar walk visits exactly the elements the value holds).
-/
import OFV.Driver.Core
import OFV.Model.V
import OFV.Spec.Walk
namespace OFV.Driver.Oracles
open OFV OFV.Driver OFV.Model

/-- the observation, parsed -/
structure Obs where
  l1 : Nat
  bytes : Bytes
  l2 : Nat
  dump : V

def parseObs (impl : String) : Option Obs :=
  match impl.splitOn " " with
  | [a, hx, b, d] => do
    let l1 ← a.toNat?
    let bs ← ofHex hx
    let l2 ← b.toNat?
    let v ← V.ofText d
    pure ⟨l1, bs, l2, v⟩
  | _ => none

/-! ### what the value holds, as the element codes the walker uses (generic over the struct shapes) -/

def headerType : V → Option Nat
  | .obj "Header" [_, .num ty, _, _] => some ty
  | _ => none

def code (v : V) : Option String :=
  match v with
  | .obj "Header" [_, .num ty, _, _] => some s!"msg {ty}"
  | .obj "MatchField" (.num c :: .num f :: .num m :: _) => some s!"oxm {c} {f} {m}"
  | .obj "Match" _ => some "match"
  | .obj "Bucket" _ => some "bucket"
  | .obj "TLVTableMap" _ => some "tlvmap"
  | .obj "HelloElemVersionBitmap" (.obj "HelloElemHeader" [.num t, _] :: _) => some s!"helloelem {t}"
  | .obj "HelloElemHeader" [.num t, _] => some s!"helloelem {t}"
  | .obj "BundlePropertyExperimenter" (.num t :: _) => some s!"prop {t}"
  | .obj "NXLearnSpec" (.obj "NXLearnSpecHeader" [.num src, .num dst, .num out, _, _] :: _) =>
    some s!"spec {src} {if out = 1 then 2 else if dst = 1 then 1 else 0}"
  | .obj "ActionHeader" [.num t, _] => some s!"act {t}"
  | .obj _ (.obj "ActionHeader" [.num t, _] :: _) => some s!"act {t}"
  | .obj _ (.obj "NXActionHeader" [_, _, .num sub] :: _) => some s!"nx {sub}"
  | .obj "InstrHeader" [.num t, _] => some s!"ins {t}"
  | .obj _ (.obj "InstrHeader" [.num t, _] :: _) => some s!"ins {t}"
  | _ => none

/-- children to descend into (everything except the header objects already consumed by `code`) -/
def isHeaderObj : V → Bool
  | .obj k _ => k = "Header" || k = "ActionHeader" || k = "NXActionHeader" || k = "InstrHeader" ||
      k = "HelloElemHeader" || k = "NXLearnSpecHeader"
  | _ => false

partial def shapeOf (v : V) : List String :=
  match v with
  | .list xs => (xs.map shapeOf).flatten
  | .obj k fs =>
    let own := match code v with
      | some c => [c]
      | none =>
        -- a top-level message: its first field is the OpenFlow header
        match fs with
        | h :: _ => (match headerType h with
          | some ty => [s!"msg {ty}"]
          | none => [])
        | [] => []
    let extra :=
      match k, fs with
      | "MultipartRequest", _ :: .num t :: _ => [s!"mp {t}"]
      | "VendorHeader", _ :: .num vendor :: .num et :: _ =>
        [if vendor = 0x2320 then s!"nxt {et}" else if vendor = 0x4f4e4600 then s!"onf {et}" else s!"exp {vendor} {et}"]
      | _, _ => []
    let kids := if k = "MatchField" ∨ k = "Header" then [] else
      ((fs.filter (fun f => ¬ isHeaderObj f)).map shapeOf).flatten
    own ++ extra ++ kids
  | _ => []

/-- message type a Go kind must carry (kinds whose type is fixed by the struct) -/
def fixedType : List (String × Nat) :=
  [("Hello", 0), ("SwitchConfig", 9), ("PacketOut", 13), ("FlowMod", 14), ("GroupMod", 15), ("PortMod", 16),
   ("MultipartRequest", 18), ("VendorHeader", 4)]

/-- is this a controller-originated top-level message value? -/
def isCtlMsg (v : V) : Bool :=
  match v with
  | .obj "Header" [_, .num ty, _, _] => [2, 3, 5, 7, 20].contains ty
  | .obj k _ => (fixedType.lookup k).isSome
  | _ => false

/-- C06 on any kind: reported size (before and after encoding) = bytes produced -/
def c06 (o : Obs) : List (String × String) :=
  if o.l1 = o.bytes.length ∧ o.l2 = o.bytes.length then []
  else [("C06", s!"reported size {o.l1}/{o.l2}, encoded size {o.bytes.length}")]

/-- C01 on top-level controller messages: version 4, the kind's type code, header length = bytes = reported size -/
def c01 (o : Obs) (wantType : Option Nat) : List (String × String) :=
  if ¬ isCtlMsg o.dump then [] else
  let bs := o.bytes
  let hl := Spec.u16At bs 2
  let tyOK : Bool := match wantType with
    | some t => Spec.u8At bs 1 == t
    | none => match fixedType.lookup o.dump.kind with
      | some t => Spec.u8At bs 1 == t
      | none => true
  let fits : Bool := bs.length ≤ 65535
  if ¬ fits then [] else
  (if bs.length ≥ 8 ∧ Spec.u8At bs 0 = 4 then [] else [("C01", s!"version byte {Spec.u8At bs 0} in a {o.dump.kind}")]) ++
  (if tyOK then [] else [("C01", s!"type byte {Spec.u8At bs 1} in a {o.dump.kind}")]) ++
  (if hl = bs.length ∧ o.l1 = bs.length ∧ o.l2 = bs.length then []
   else [("C01", s!"header length {hl}, bytes produced {bs.length}, reported size {o.l1}/{o.l2}")])

/-- C02 on top-level controller messages: the grammar walk succeeds, ends exactly at the end, and visits exactly the
    elements the value holds, in order -/
def c02 (o : Obs) : List (String × String) :=
  if ¬ isCtlMsg o.dump ∨ o.bytes.length > 65535 then [] else
  match Spec.walk o.bytes with
  | .error e => [("C02", s!"wire-grammar walk fails: {e}")]
  | .ok t =>
    let got := t.flat
    let want := shapeOf o.dump
    if got = want then [] else [("C02", s!"walk visits {got}, the value holds {want}")]

/-- element-level C02: a single action / instruction / bucket / match / match field observed on its own -/
def c02elem (o : Obs) : List (String × String) :=
  let bs := o.bytes
  let want := shapeOf o.dump
  let chk (r : Spec.W (List Spec.Tree)) : List (String × String) :=
    match r with
    | .error e => [("C02", s!"element walk fails: {e}")]
    | .ok ts =>
      let got := (ts.map Spec.Tree.flat).flatten
      if got = want then [] else [("C02", s!"element walk visits {got}, the value holds {want}")]
  match code o.dump with
  | some c =>
    if c.startsWith "act " ∨ c.startsWith "nx " then chk (Spec.walkActions (bs.length + 8) bs)
    else if c.startsWith "ins " then chk (Spec.walkInstrs (bs.length + 8) bs)
    else if c = "bucket" then chk (Spec.walkBuckets (bs.length + 8) bs)
    else if c = "match" then chk (do
      let (t, n) ← Spec.walkMatch bs
      if n = bs.length then pure [t] else Spec.fail s!"match consumes {n} of {bs.length} bytes")
    else if c.startsWith "oxm " then chk (Spec.walkOxms (bs.length + 8) bs)
    else []
  | none => []

end OFV.Driver.Oracles
