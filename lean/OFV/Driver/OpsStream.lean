/-
  OFV.Driver.OpsStream — families C10 (inbound), C11 (outbound), C14 (ids / concurrency).
  For schedule-dependent runs the model cannot predict one output; the handler accepts exactly the outcomes the
  theorems allow (and prints the expectation otherwise).
-/
import OFV.Driver.Core
import OFV.Model.Stream.Deframer
namespace OFV.Driver.Stream
open OFV OFV.Driver OFV.Model

def parseChunks (s : String) : Option (List Bytes) :=
  if s = "-" then some [] else (s.splitOn ",").mapM ofHex

/-- insertion sort on strings (driver only) -/
def sortStrings (xs : List String) : List String :=
  xs.foldl (fun acc x =>
    let (a, b) := acc.span (fun y => y ≤ x)
    a ++ x :: b) []

/-- multiset inclusion of sorted lists -/
def subMultiset : List String → List String → Bool
  | [], _ => true
  | _ :: _, [] => false
  | x :: xs, y :: ys => if x = y then subMultiset xs ys else if y < x then subMultiset (x :: xs) ys else false

def stream : Handler := fun args impl =>
  match args with
  | [chunks, mode, _parser, _seed, _slow] =>
    match parseChunks chunks with
    | some cs =>
      let st := Deframer.feedAll Deframer.init cs
      let frames := sortStrings (st.out.map toHex)
      let fs := if frames.isEmpty then "-" else ",".intercalate frames
      if mode = "ok" then
        let want := s!"frames={fs} errs=0 torn=0 shared=0"
        { model := want, oracle := if impl = want then none else some s!"inbound stream: want {want.take 300}… got {impl.take 300}…" }
      else
        -- connection failure after the last chunk: exactly one error, nothing delivered that is not a complete frame
        -- (frames still queued when the parsers shut down may be missing)
        let ok : Bool := match impl.splitOn " " with
          | [f, e, t, sh] =>
            let got := (f.drop 7).toString
            let gl := if got = "-" then [] else got.splitOn ","
            e == "errs=1" && t == "torn=0" && sh == "shared=0" && f.startsWith "frames=" && subMultiset gl frames
          | _ => false
        let want := s!"frames⊆{fs} errs=1 torn=0 shared=0"
        { model := if ok then impl else want,
          oracle := if ok then none else some s!"inbound stream after failure: want {want.take 300} got {impl.take 300}" }
    | none => unmodelled
  | _ => unmodelled

def out : Handler := fun args impl =>
  match args.map natArg with
  | [some p, some n, some _] =>
    let want := s!"ok {p * n}"
    { model := want, oracle := if impl = want then none else some s!"outbound stream {p} producers x {n}: {impl}" }
  | _ => unmodelled

def xids : Handler := fun args impl =>
  match args.map natArg with
  | [some g, some n] =>
    let want := s!"ok {g * n}"
    { model := want, oracle := if impl = want then none else some s!"transaction ids, {g} goroutines x {n}: {impl}" }
  | _ => unmodelled

def conc : Handler := fun _ impl =>
  let ok : Bool := impl.startsWith "same "
  { model := if ok then impl else "same <n>", oracle := if ok then none else some s!"concurrent vs sequential results: {impl}" }

def handlersC10 : List (String × Handler) := [("stream", stream)]
/-- `outfault n failAt accept seed`: a Write times out after accepting part of a frame; the wire must remain a prefix
    of the submitted frames (the outbound model writes each frame once; after a failed write it writes nothing more) -/
def outfault : Handler := fun _ impl =>
  let ok : Bool := impl = "prefix ok"
  { model := "prefix ok", oracle := if ok then none else some s!"after a timed-out partial write: {impl}" }

/-- `outreal streams n seed`: real library messages on several connections of one process; every connection carries
    exactly the encodings of the messages submitted to it, in order (each connection is its own outbound system) -/
def outreal : Handler := fun args impl =>
  match args.map natArg with
  | [some s, some n, some _] =>
    let want := s!"ok {s * n}"
    { model := want, oracle := if impl = want then none else some s!"{s} connections x {n} real messages: {impl}" }
  | _ => unmodelled

/-- `outloop n seed`: n packet-ins answered by n packet-outs on one stream with a slow writer; each packet-out appears
    on the wire as the encoding it had when it was submitted -/
def outloop : Handler := fun args impl =>
  match args.map natArg with
  | [some n, some _] =>
    let want := s!"ok {n}"
    { model := want, oracle := if impl = want then none else some s!"{n} packet-ins answered by packet-outs: {impl}" }
  | _ => unmodelled

def handlersC11 : List (String × Handler) := [("out", out), ("outfault", outfault), ("outreal", outreal), ("outloop", outloop)]
def handlersC14 : List (String × Handler) := [("xids", xids), ("conc", conc), ("conclookup", conc), ("concdhcp", conc), ("xtalk", conc), ("concparse", conc), ("concenc", conc), ("indep", conc)]

end OFV.Driver.Stream
