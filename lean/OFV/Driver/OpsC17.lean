import OFV.Driver.Core
import OFV.Model.MatchFieldGen
import OFV.Spec.Oxm
namespace OFV.Driver.C17
open OFV OFV.Driver OFV.Go OFV.Model OFV.Model.MFG

/-- the data argument as the integer `conv` produces, with Go's truncation to the argument type done by the harness
    (it parses the decimal into that type) -/
def convArg (kind val : String) : Option Int :=
  match kind with
  | "bytes" => (ofHex val).map convBytes
  | "u8" => val.toNat?.map (fun n => Int.ofNat (n % 256))
  | "u16" => val.toNat?.map (fun n => Int.ofNat (n % 65536))
  | "u32" => val.toNat?.map (fun n => Int.ofNat (n % 4294967296))
  | "i8" => val.toInt?.map (fun z => Int.bmod z 256)
  | "i16" => val.toInt?.map (fun z => Int.bmod z 65536)
  | "i32" => val.toInt?.map (fun z => Int.bmod z 4294967296)
  | _ => val.toInt?

def marshalField : V → Option Bytes
  | .obj "MatchField" [.num c, .num f, .num m, .num l, _, .obj "ByteArrayField" [.bytes v, _], mk] =>
    let mb := match mk with
      | .obj "ByteArrayField" [.bytes b, _] => b
      | _ => []
    some (be16 (n16 c) ++ [n8 (f * 2 + m), n8 l] ++ v ++ mb)
  | _ => none

def suffixFor (kind val : String) : String :=
  match kind with
  | "bytes" => s!" arg={if val = "" then "-" else val} same=true"
  | "big" => s!" arg={val}"
  | _ => ""

/-- independent expectation for the documented calling conventions -/
def expect (name : String) (v : Int) (mask : List Int) : Option (Option (Bytes × Option Bytes)) :=
  -- some none = must be an error; some (some (value, mask)) = must succeed with these payload bytes; none = no oracle
  match Spec.oxx (toUpperASCII name) with
  | none => some none
  | some (_, _, L) =>
    if ¬ Spec.supportedNames.contains (toUpperASCII name) then none else
    let bits := 8 * L
    if mask.any (fun m => decide (m < 0)) then some none else
    match mask with
    | [] => if v < 0 ∨ v ≥ 2 ^ bits then some none else some (some (beN L v.toNat, none))
    | [s, w] =>
      if s < 0 ∨ w < 0 ∨ v < 0 ∨ s + w > bits ∨ v ≥ 2 ^ w.toNat then some none
      else if w = 0 then none
      else some (some (beN L (v.toNat * 2 ^ s.toNat), some (beN L ((2 ^ w.toNat - 1) * 2 ^ s.toNat))))
    | [s, w, 1] =>
      if s < 0 ∨ w < 0 ∨ v < 0 ∨ s + w > bits ∨ v ≥ 2 ^ w.toNat then some none
      else if w = 0 then none
      else some (some (beN L (v.toNat * 2 ^ s.toNat), some (beN L ((2 ^ w.toNat - 1) * 2 ^ s.toNat))))
    | [s, w, _] =>
      -- value already in place: must lie inside the window
      let m := if s < 0 ∨ w < 0 then 0 else (2 ^ w.toNat - 1) * 2 ^ s.toNat
      if s < 0 ∨ w < 0 ∨ v < 0 ∨ s + w > bits ∨ (v.toNat &&& m) ≠ v.toNat then some none
      else if w = 0 then none
      else some (some (beN L v.toNat, some (beN L m)))
    | _ => if mask.length > 3 then some none else none

def nmf : Handler := fun args impl =>
  match args with
  | name :: kind :: val :: ms =>
    match convArg kind val, ms.mapM String.toInt? with
    | some v, some mask =>
      let suf := suffixFor kind val
      let m := match NewMatchField name v mask with
        | .ok f => (match marshalField f with
          | some bs => f.toText ++ " " ++ toHex bs ++ suf
          | none => "unmodelled")
        | .err => "err" ++ suf
        | .panic => "panic"
        | .spin => "spin"
      let o : Option String :=
        if impl = "panic" ∨ impl = "spin" then some s!"NewMatchField {name} {val} {ms}: {impl}"
        else if ¬ impl.endsWith suf then some s!"NewMatchField modified its argument: {impl.take 200}"
        else match expect name v mask with
          | none => none
          | some none => if impl.startsWith "err" then none else some s!"unrepresentable input accepted: {impl.take 200}"
          | some (some (vb, mb)) =>
            let wantHex := toHex vb ++ (match mb with | some b => toHex b | none => "")
            -- the encoded field = 4-byte header ++ value ++ mask
            match (impl.splitOn " ") with
            | _ :: hx :: _ =>
              if (hx.drop 8).toString = wantHex ∧ hx.length = 8 + wantHex.length then none
              else some s!"NewMatchField {name} {val} {ms}: payload want {wantHex} got {hx}"
            | _ => some s!"NewMatchField {name} {val} {ms}: want a field, got {impl.take 100}"
      { model := m, oracle := o }
    | _, _ => unmodelled
  | _ => unmodelled

def regcmp : Handler := fun args impl =>
  match args.map natArg with
  | [some i, some v, some s, some w] =>
    let ok : Bool := impl.startsWith "same "
    -- model: the generic builder's bytes (theorem C17_reg relates them to the register constructor)
    let m := match NewMatchField s!"NXM_NX_REG{i}" (Int.ofNat v) [Int.ofNat s, Int.ofNat w] with
      | .ok f => (match marshalField f with
        | some bs => "same " ++ toHex bs
        | none => "unmodelled")
      | _ => "err"
    let inDom : Bool := decide (s + w ≤ 32 ∧ v < 2 ^ w ∧ 0 < w)
    { model := m, oracle := if inDom ∧ ¬ ok then some s!"register {i} window ({s},{w}) value {v}: {impl}" else none }
  | _ => unmodelled

/-- `nmf2 <name> <v1> <v2> [<ofs> <width>]`: the field built first is encoded, a second field of the same name is built
    with another value, the first is encoded again: each build yields an independent value, so the first field still
    encodes to what it encoded to before -/
def nmf2 : Handler := fun args impl =>
  match args with
  | name :: v1 :: v2 :: mask =>
    match v1.toNat?, v2.toNat?, mask.mapM (fun (x : String) => x.toNat?) with
    | some a, some b, some ms =>
      let enc (v : Nat) : Option String :=
        match NewMatchField name (Int.ofNat v) (ms.map Int.ofNat) with
        | .ok f => (marshalField f).map toHex
        | _ => none
      let m := match enc a, enc b with
        | some x, some y => s!"same {x} {y}"
        | _, _ => "err"
      { model := m, oracle := if impl.startsWith "changed" then some s!"{name}: building a second field changed the first: {impl.take 200}" else none }
    | _, _, _ => unmodelled
  | _ => unmodelled

/-- `nmfseq <name> <value>`: a field is built from a caller-owned big integer (and from the caller-owned bytes of its
    encoding), unrelated fields are built afterwards with arguments of every kind, then the first arguments are read again
    and the first fields encoded again: the builder leaves its arguments unmodified, and nothing it does later reaches them -/
def nmfseq : Handler := fun args impl =>
  match args with
  | [name, v] =>
    match v.toNat? with
    | some a =>
      let m := match NewMatchField name (Int.ofNat a) [] with
        | .ok f => (match (marshalField f).map toHex with | some x => s!"kept {x}" | none => "err")
        | _ => "err"
      { model := m, oracle := if impl.startsWith "changed" then some s!"{name}: a later, unrelated build reached an earlier argument / field: {impl.take 200}" else none }
    | none => unmodelled
  | _ => unmodelled

def handlers : List (String × Handler) := [("nmf", nmf), ("regcmp", regcmp), ("nmf2", nmf2), ("nmfseq", nmfseq)]

end OFV.Driver.C17
