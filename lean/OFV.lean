import OFV.Go.Bytes
import OFV.Go.Ints
import OFV.Gen.Consts
import OFV.Gen.Registry
import OFV.Gen.Pure
import OFV.Gen.Facts
