module ofvh

go 1.23

require (
	github.com/contiv/libOpenflow v0.0.0
	github.com/sirupsen/logrus v1.9.0
	golang.org/x/tools v0.29.0
)

require (
	golang.org/x/exp v0.0.0-20230420155350-5d9e357047b1 // indirect
	golang.org/x/mod v0.22.0 // indirect
	golang.org/x/sync v0.10.0 // indirect
	golang.org/x/sys v0.29.0 // indirect
)

replace github.com/contiv/libOpenflow => /repo
