package main

import (
	"fmt"
	"go/ast"
	"go/constant"
	"go/token"
	"go/types"
	"os"
	"sort"
	"strings"

	"golang.org/x/tools/go/packages"
)

// pureSpec lists the functions translated into Gen/Pure.lean. recv == "" for plain functions.
type pureSpec struct{ pkg, recv, name string }

var pureList = []pureSpec{
	{"openflow13", "", "encodeOfsNbitsStartEnd"},
	{"openflow13", "", "encodeOfsNbits"},
	{"openflow13", "", "decodeOfs"},
	{"openflow13", "", "decodeNbits"},
	{"openflow13", "", "NewNXRange"},
	{"openflow13", "", "NewNXRangeByOfsNBits"},
	{"openflow13", "NXRange", "ToUint32Mask"},
	{"openflow13", "NXRange", "ToOfsBits"},
	{"openflow13", "NXRange", "GetOfs"},
	{"openflow13", "NXRange", "GetNbits"},
	{"openflow13", "", "NewCTStates"},
	{"openflow13", "CTStates", "SetNew"}, {"openflow13", "CTStates", "UnsetNew"},
	{"openflow13", "CTStates", "SetEst"}, {"openflow13", "CTStates", "UnsetEst"},
	{"openflow13", "CTStates", "SetRel"}, {"openflow13", "CTStates", "UnsetRel"},
	{"openflow13", "CTStates", "SetRpl"}, {"openflow13", "CTStates", "UnsetRpl"},
	{"openflow13", "CTStates", "SetInv"}, {"openflow13", "CTStates", "UnsetInv"},
	{"openflow13", "CTStates", "SetTrk"}, {"openflow13", "CTStates", "UnsetTrk"},
	{"openflow13", "CTStates", "SetSNAT"}, {"openflow13", "CTStates", "UnsetSNAT"},
	{"openflow13", "CTStates", "SetDNAT"}, {"openflow13", "CTStates", "UnsetDNAT"},
	{"openflow13", "MatchField", "MarshalHeader"},
	{"ofbase", "Decoder", "SkipAlign"},
	{"ofbase", "Decoder", "Skip"},
	{"ofbase", "Decoder", "Offset"},
	{"ofbase", "Decoder", "BaseOffset"},
	{"protocol", "Option", "Len"},
	{"protocol", "HopByHopHeader", "Len"},
	{"protocol", "RoutingHeader", "Len"},
	{"protocol", "FragmentHeader", "Len"},
	{"protocol", "ARP", "Len"},
	{"protocol", "IGMPv1or2", "Len"},
	{"protocol", "IGMPv3Query", "Len"},
	{"protocol", "IGMPv3GroupRecord", "Len"},
	// widened subset (round T1b): constant / field-sum Len() of the fixed-size kinds, stored-length Len() of the Nicira actions,
	// learn-spec header constructors; struct-valued fields and promoted fields are followed (see fieldPath)
	{"common", "Header", "Len"}, {"common", "HelloElemHeader", "Len"},
	{"openflow13", "ActionHeader", "Len"}, {"openflow13", "ActionOutput", "Len"}, {"openflow13", "ActionSetqueue", "Len"},
	{"openflow13", "ActionGroup", "Len"}, {"openflow13", "ActionMplsTtl", "Len"}, {"openflow13", "ActionDecNwTtl", "Len"},
	{"openflow13", "ActionNwTtl", "Len"}, {"openflow13", "ActionPush", "Len"}, {"openflow13", "ActionPopVlan", "Len"},
	{"openflow13", "ActionPopMpls", "Len"}, {"openflow13", "BundleControl", "Len"}, {"openflow13", "InstrHeader", "Len"},
	{"openflow13", "InstrGotoTable", "Len"}, {"openflow13", "InstrWriteMetadata", "Len"}, {"openflow13", "InstrMeter", "Len"},
	{"openflow13", "InPortField", "Len"}, {"openflow13", "EthDstField", "Len"}, {"openflow13", "EthSrcField", "Len"},
	{"openflow13", "EthTypeField", "Len"}, {"openflow13", "VlanIdField", "Len"}, {"openflow13", "MplsLabelField", "Len"},
	{"openflow13", "MplsBosField", "Len"}, {"openflow13", "Ipv4SrcField", "Len"}, {"openflow13", "Ipv4DstField", "Len"},
	{"openflow13", "Ipv6SrcField", "Len"}, {"openflow13", "Ipv6DstField", "Len"}, {"openflow13", "IPv6FlowLabelField", "Len"},
	{"openflow13", "IpProtoField", "Len"}, {"openflow13", "IpDscpField", "Len"}, {"openflow13", "TunnelIdField", "Len"},
	{"openflow13", "MetadataField", "Len"}, {"openflow13", "PortField", "Len"}, {"openflow13", "TcpFlagsField", "Len"},
	{"openflow13", "ArpOperField", "Len"}, {"openflow13", "TunnelIpv4SrcField", "Len"}, {"openflow13", "TunnelIpv4DstField", "Len"},
	{"openflow13", "ArpXHaField", "Len"}, {"openflow13", "ArpXPaField", "Len"}, {"openflow13", "ActsetOutputField", "Len"},
	{"openflow13", "IcmpTypeField", "Len"}, {"openflow13", "IcmpCodeField", "Len"}, {"openflow13", "DescStats", "Len"},
	{"openflow13", "AggregateStats", "Len"}, {"openflow13", "TableStats", "Len"}, {"openflow13", "PortStatsRequest", "Len"},
	{"openflow13", "PortStats", "Len"}, {"openflow13", "QueueStatsRequest", "Len"}, {"openflow13", "QueueStats", "Len"},
	{"openflow13", "NXActionHeader", "Len"}, {"openflow13", "NXActionConjunction", "Len"}, {"openflow13", "NXActionRegLoad", "Len"},
	{"openflow13", "NXActionRegMove", "Len"}, {"openflow13", "NXActionResubmit", "Len"}, {"openflow13", "NXActionResubmitTable", "Len"},
	{"openflow13", "NXActionCTNAT", "Len"}, {"openflow13", "NXActionOutputReg", "Len"}, {"openflow13", "NXActionCTClear", "Len"},
	{"openflow13", "NXActionDecTTL", "Len"}, {"openflow13", "NXActionDecTTLCntIDs", "Len"}, {"openflow13", "NXLearnSpecHeader", "Len"},
	{"openflow13", "NXLearnSpecField", "Len"}, {"openflow13", "NXLearnSpec", "Len"}, {"openflow13", "NXActionController", "Len"},
	{"openflow13", "Uint16Message", "Len"}, {"openflow13", "Uint32Message", "Len"}, {"openflow13", "ByteArrayField", "Len"},
	{"openflow13", "CTLabel", "Len"}, {"openflow13", "ControllerID", "Len"}, {"openflow13", "TLVTableMap", "Len"},
	{"openflow13", "SwitchConfig", "Len"},
	{"openflow13", "", "NewLearnHeaderMatchFromValue"},
	{"openflow13", "", "NewLearnHeaderMatchFromField"},
	{"openflow13", "", "NewLearnHeaderLoadFromValue"},
	{"openflow13", "", "NewLearnHeaderLoadFromField"},
	{"openflow13", "", "NewLearnHeaderOutputFromField"},
	{"protocol", "VLAN", "Len"},
}

type unsupported struct{ msg string }

func bad(format string, a ...interface{}) { panic(unsupported{fmt.Sprintf(format, a...)}) }

type ptr struct {
	p        *packages.Package
	info     *types.Info
	recvObj  types.Object // receiver variable, if any
	recvName string
	recvType string
	mutates  bool
	results  []*types.Var // named results
	resType  string
	known    map[string]bool // translated function names in this package (plain functions)
	structs  map[string]*types.Struct
	extra    []string // helper definitions translated on demand, to be emitted before the definition in progress
	depth    int
	methods  map[string]*methodInfo // methods already translated: Type.name -> shape
	nested   map[string]map[string]string // struct name -> struct-valued fields that translated code reads -> Lean type
}

// allPtr: translation state of the packages processed so far (pkgNames order), by package name. A struct or method of an
// EARLIER package can be referred to from a later one (common.Header inside the openflow13 messages).
var allPtr = map[string]*ptr{}

// owner returns the translation state that owns the named struct type ty (after dereferencing one pointer) and the
// struct's bare name; ok is false when ty is not a named struct of this package or of an earlier library package.
func (t *ptr) owner(ty types.Type) (*ptr, string, *types.Struct, bool) {
	if p, ok := ty.(*types.Pointer); ok {
		ty = p.Elem()
	}
	n, ok := ty.(*types.Named)
	if !ok {
		return nil, "", nil, false
	}
	st, ok := n.Underlying().(*types.Struct)
	if !ok || n.Obj().Pkg() == nil {
		return nil, "", nil, false
	}
	if n.Obj().Pkg() == t.p.Types {
		return t, n.Obj().Name(), st, true
	}
	if o, ok := allPtr[n.Obj().Pkg().Name()]; ok && o != t && o.p.Types.Path() == n.Obj().Pkg().Path() {
		return o, n.Obj().Name(), st, true
	}
	return nil, "", nil, false
}

// fieldPath follows a selection index path from struct type ty (promoted fields go through embedded structs; a pointer
// on the way is taken to be non-nil) and returns the Lean projection path ".A.B" and the type of the last field. Every
// struct-valued field on the way is recorded so that the projection of its owner carries it.
func (t *ptr) fieldPath(ty types.Type, index []int) (string, types.Type) {
	path := ""
	cur := ty
	for _, ix := range index {
		o, name, st, ok := t.owner(cur)
		if !ok {
			bad("selector through %s", cur)
		}
		o.structs[name] = st
		f := st.Field(ix)
		if _, isInt := leanIntType(f.Type()); !isInt {
			ln, ok := o.structName(f.Type())
			if !ok {
				bad("field %s of non-scalar type %s", f.Name(), f.Type())
			}
			if o.nested[name] == nil {
				o.nested[name] = map[string]string{}
			}
			o.nested[name][f.Name()] = ln
		}
		path += "." + lname(f.Name())
		cur = f.Type()
	}
	return path, cur
}

// rootIdent returns the identifier at the bottom of a chain of field selectors (a.B.C -> a).
func rootIdent(e ast.Expr) (*ast.Ident, bool) {
	for {
		switch x := e.(type) {
		case *ast.Ident:
			return x, true
		case *ast.SelectorExpr:
			e = x.X
		case *ast.ParenExpr:
			e = x.X
		default:
			return nil, false
		}
	}
}

func leanIntType(t types.Type) (string, bool) {
	b, ok := t.Underlying().(*types.Basic)
	if !ok {
		return "", false
	}
	switch b.Kind() {
	case types.Uint8:
		return "UInt8", true
	case types.Uint16:
		return "UInt16", true
	case types.Uint32:
		return "UInt32", true
	case types.Uint64, types.Uint, types.Uintptr:
		return "UInt64", true
	case types.Int, types.Int64:
		return "Int64", true
	case types.Bool:
		return "Bool", true
	case types.UntypedInt:
		return "Int64", true
	case types.UntypedBool:
		return "Bool", true
	}
	return "", false
}

func width(lt string) string {
	switch lt {
	case "UInt8":
		return "8"
	case "UInt16":
		return "16"
	case "UInt32":
		return "32"
	case "UInt64":
		return "64"
	}
	return ""
}

// structName returns the generated structure name for *T or T where T is a named struct of this package.
func (t *ptr) structName(ty types.Type) (string, bool) {
	o, name, st, ok := t.owner(ty)
	if !ok {
		return "", false
	}
	o.structs[name] = st
	if o != t {
		return o.p.Types.Name() + "." + name, true
	}
	return name, true
}

func (t *ptr) leanType(ty types.Type) string {
	if s, ok := leanIntType(ty); ok {
		return s
	}
	if s, ok := t.structName(ty); ok {
		return s
	}
	bad("type %s outside subset", ty)
	return ""
}

func constLit(v constant.Value, lt string) string {
	switch lt {
	case "Bool":
		if constant.BoolVal(v) {
			return "true"
		}
		return "false"
	case "Int64":
		if constant.Sign(v) < 0 {
			return fmt.Sprintf("(%s : Int64)", v.ExactString())
		}
	}
	return fmt.Sprintf("(%s : %s)", v.ExactString(), lt)
}

func (t *ptr) expr(e ast.Expr) string {
	tv := t.info.Types[e]
	if tv.Value != nil && (tv.Value.Kind() == constant.Int || tv.Value.Kind() == constant.Bool) {
		lt, ok := leanIntType(tv.Type)
		if !ok {
			bad("constant of type %s", tv.Type)
		}
		return constLit(tv.Value, lt)
	}
	switch x := e.(type) {
	case *ast.ParenExpr:
		return "(" + t.expr(x.X) + ")"
	case *ast.Ident:
		obj := t.info.Uses[x]
		if obj == nil {
			obj = t.info.Defs[x]
		}
		if _, ok := obj.(*types.Var); !ok {
			bad("identifier %s is not a variable", x.Name)
		}
		if obj.Parent() == t.p.Types.Scope() {
			bad("package-level variable %s", x.Name)
		}
		return lname(x.Name)
	case *ast.SelectorExpr:
		// receiver or struct-valued local . field
		sel := t.info.Selections[x]
		if sel == nil || sel.Kind() != types.FieldVal {
			bad("selector %s", nodeString(t.p.Fset, x))
		}
		if _, ok := t.structName(t.info.TypeOf(x.X)); !ok {
			bad("selector base type %s", t.info.TypeOf(x.X))
		}
		path, ft := t.fieldPath(t.info.TypeOf(x.X), sel.Index())
		if _, ok := leanIntType(ft); !ok {
			if _, ok := t.structName(ft); !ok {
				bad("field %s of non-scalar type %s", x.Sel.Name, sel.Type())
			}
		}
		return t.expr(x.X) + path
	case *ast.UnaryExpr:
		lt := t.leanType(tv.Type)
		switch x.Op {
		case token.XOR:
			return "(~~~ " + t.expr(x.X) + ")"
		case token.SUB:
			return "(0 - " + t.expr(x.X) + ")"
		case token.NOT:
			return "(! " + t.expr(x.X) + ")"
		case token.AND:
			if cl, ok := x.X.(*ast.CompositeLit); ok {
				return t.composite(cl)
			}
		}
		bad("unary %s (%s)", x.Op, lt)
	case *ast.BinaryExpr:
		return t.binary(x, tv.Type)
	case *ast.CallExpr:
		return t.call(x)
	case *ast.CompositeLit:
		return t.composite(x)
	}
	bad("expression %T %s", e, nodeString(t.p.Fset, e))
	return ""
}

func (t *ptr) composite(cl *ast.CompositeLit) string {
	sn, ok := t.structName(t.info.TypeOf(cl))
	if !ok {
		bad("composite literal of %s", t.info.TypeOf(cl))
	}
	var parts []string
	for _, el := range cl.Elts {
		kv, ok := el.(*ast.KeyValueExpr)
		if !ok {
			bad("positional composite literal")
		}
		parts = append(parts, fmt.Sprintf("%s := %s", lname(kv.Key.(*ast.Ident).Name), t.expr(kv.Value)))
	}
	return fmt.Sprintf("({ %s } : %s)", strings.Join(parts, ", "), sn)
}

func (t *ptr) shiftCount(e ast.Expr) string {
	tv := t.info.Types[e]
	if tv.Value != nil {
		if constant.Sign(tv.Value) < 0 {
			bad("negative shift count")
		}
		return tv.Value.ExactString()
	}
	lt := t.leanType(tv.Type)
	if lt == "Int64" {
		return "(Go.cntI64 " + t.expr(e) + ")"
	}
	return "(" + t.expr(e) + ").toNat"
}

func (t *ptr) binary(x *ast.BinaryExpr, ty types.Type) string {
	switch x.Op {
	case token.LAND, token.LOR, token.EQL, token.NEQ, token.LSS, token.LEQ, token.GTR, token.GEQ:
		return "(decide " + t.cond(x) + ")"
	}
	lt := t.leanType(ty)
	a := t.expr(x.X)
	switch x.Op {
	case token.SHL, token.SHR:
		w := width(lt)
		if x.Op == token.SHL {
			if lt == "Int64" {
				return fmt.Sprintf("(Go.shlI64 %s %s)", a, t.shiftCount(x.Y))
			}
			if w == "" {
				bad("shift of %s", lt)
			}
			return fmt.Sprintf("(Go.shl%s %s %s)", w, a, t.shiftCount(x.Y))
		}
		if w == "" {
			bad("right shift of %s", lt)
		}
		return fmt.Sprintf("(Go.shr%s %s %s)", w, a, t.shiftCount(x.Y))
	}
	b := t.expr(x.Y)
	op := ""
	switch x.Op {
	case token.ADD:
		op = "+"
	case token.SUB:
		op = "-"
	case token.MUL:
		op = "*"
	case token.QUO:
		// divisor must be a non-zero constant (Go would panic on zero)
		if tv := t.info.Types[x.Y]; tv.Value == nil || constant.Sign(tv.Value) == 0 {
			bad("division by non-constant")
		}
		op = "/"
	case token.REM:
		if tv := t.info.Types[x.Y]; tv.Value == nil || constant.Sign(tv.Value) == 0 {
			bad("remainder by non-constant")
		}
		op = "%"
	case token.AND:
		op = "&&&"
	case token.OR:
		op = "|||"
	case token.XOR:
		op = "^^^"
	case token.AND_NOT:
		return fmt.Sprintf("(%s &&& ~~~ %s)", a, b)
	default:
		bad("operator %s", x.Op)
	}
	return fmt.Sprintf("(%s %s %s)", a, op, b)
}

// cond translates a boolean expression to a decidable Prop.
func (t *ptr) cond(e ast.Expr) string {
	switch x := e.(type) {
	case *ast.ParenExpr:
		return "(" + t.cond(x.X) + ")"
	case *ast.UnaryExpr:
		if x.Op == token.NOT {
			return "(¬ " + t.cond(x.X) + ")"
		}
	case *ast.BinaryExpr:
		switch x.Op {
		case token.LAND:
			return "(" + t.cond(x.X) + " ∧ " + t.cond(x.Y) + ")"
		case token.LOR:
			return "(" + t.cond(x.X) + " ∨ " + t.cond(x.Y) + ")"
		case token.EQL, token.NEQ, token.LSS, token.LEQ, token.GTR, token.GEQ:
			// both operands have the same type after go/types conversion
			op := map[token.Token]string{token.EQL: "=", token.NEQ: "≠", token.LSS: "<", token.LEQ: "≤", token.GTR: ">", token.GEQ: "≥"}[x.Op]
			return "(" + t.expr(x.X) + " " + op + " " + t.expr(x.Y) + ")"
		}
	}
	return "(" + t.expr(e) + " = true)"
}

func (t *ptr) call(c *ast.CallExpr) string {
	// conversion?
	if tv, ok := t.info.Types[c.Fun]; ok && tv.IsType() {
		if len(c.Args) != 1 {
			bad("conversion arity")
		}
		to, ok := leanIntType(tv.Type)
		if !ok || to == "Bool" {
			bad("conversion to %s", tv.Type)
		}
		from := t.leanType(t.info.TypeOf(c.Args[0]))
		a := t.expr(c.Args[0])
		if from == to {
			return a
		}
		if from == "Bool" {
			bad("conversion from bool")
		}
		// everything goes through 64 bits: truncation and two's-complement reinterpretation as in Go
		via := a
		switch from {
		case "Int64":
			via = a + ".toUInt64"
		case "UInt64":
		default:
			via = a + ".toUInt64"
		}
		switch to {
		case "UInt64":
			return "(" + via + ")"
		case "Int64":
			return "(" + via + ").toInt64"
		default:
			return "(" + via + ").to" + to
		}
	}
	if se, ok := c.Fun.(*ast.SelectorExpr); ok {
		if sel := t.info.Selections[se]; sel != nil && sel.Kind() == types.MethodVal {
			if sn, ok := t.structName(t.info.TypeOf(se.X)); ok && len(sel.Index()) == 1 {
				o, bare, _, _ := t.owner(t.info.TypeOf(se.X))
				var m *methodInfo
				if o == t {
					m = t.methodOnDemand(bare, se.Sel.Name)
				} else {
					m = o.methods[bare+"."+se.Sel.Name] // a method of an earlier package: only if already translated
				}
				if m != nil && !m.mutates && m.nres == 1 {
					var args []string
					for _, a := range c.Args {
						args = append(args, t.expr(a))
					}
					return "(" + sn + "." + lname(se.Sel.Name) + " " + t.expr(se.X) + " " + strings.Join(args, " ") + ")"
				}
			}
		}
	}
	switch f := c.Fun.(type) {
	case *ast.Ident:
		if f.Name == "new" && len(c.Args) == 1 {
			if sn, ok := t.structName(t.info.TypeOf(c.Args[0])); ok {
				return "({} : " + sn + ")"
			}
		}
		if obj, ok := t.info.Uses[f].(*types.Func); ok && obj.Pkg() == t.p.Types && !t.known[f.Name] {
			// a helper of the same package that is not in pureList (e.g. one introduced by a refactoring): translate
			// it on demand, ahead of its caller
			t.onDemand(f.Name)
		}
		if obj, ok := t.info.Uses[f].(*types.Func); ok && obj.Pkg() == t.p.Types && t.known[f.Name] {
			var args []string
			for _, a := range c.Args {
				args = append(args, t.expr(a))
			}
			return "(" + lname(f.Name) + " " + strings.Join(args, " ") + ")"
		}
	}
	bad("call %s", nodeString(t.p.Fset, c.Fun))
	return ""
}

// ---- statements, continuation style ------------------------------------------------------------

func (t *ptr) result(vals []string) string {
	var parts []string
	parts = append(parts, vals...)
	if t.mutates {
		parts = append(parts, t.recvName)
	}
	switch len(parts) {
	case 0:
		return "()"
	case 1:
		return parts[0]
	}
	return "(" + strings.Join(parts, ", ") + ")"
}

func (t *ptr) ret(r *ast.ReturnStmt) string {
	if len(r.Results) == 0 {
		var vals []string
		for _, v := range t.results {
			vals = append(vals, lname(v.Name()))
		}
		return t.result(vals)
	}
	var vals []string
	for _, e := range r.Results {
		vals = append(vals, t.expr(e))
	}
	return t.result(vals)
}

func endsInReturn(stmts []ast.Stmt) bool {
	if len(stmts) == 0 {
		return false
	}
	switch s := stmts[len(stmts)-1].(type) {
	case *ast.ReturnStmt:
		return true
	case *ast.IfStmt:
		if s.Else == nil {
			return false
		}
		eb, ok := s.Else.(*ast.BlockStmt)
		return ok && endsInReturn(s.Body.List) && endsInReturn(eb.List)
	}
	return false
}

func containsReturn(n ast.Node) bool {
	found := false
	ast.Inspect(n, func(m ast.Node) bool {
		if _, ok := m.(*ast.ReturnStmt); ok {
			found = true
		}
		return !found
	})
	return found
}

// assigned collects names (in Lean form) assigned (not declared) in stmts; receiver-field writes yield the receiver.
func (t *ptr) assigned(stmts []ast.Stmt, out map[string]bool) {
	declared := map[string]bool{}
	var walk func(list []ast.Stmt)
	walk = func(list []ast.Stmt) {
		for _, s := range list {
			switch x := s.(type) {
			case *ast.AssignStmt:
				for _, l := range x.Lhs {
					switch lh := l.(type) {
					case *ast.Ident:
						if x.Tok == token.DEFINE {
							declared[lh.Name] = true
						} else if !declared[lh.Name] {
							out[lname(lh.Name)] = true
						}
					case *ast.SelectorExpr:
						if id, ok := rootIdent(lh.X); ok {
							out[lname(id.Name)] = true
						}
					}
				}
			case *ast.IncDecStmt:
				if id, ok := x.X.(*ast.Ident); ok && !declared[id.Name] {
					out[lname(id.Name)] = true
				}
				if se, ok := x.X.(*ast.SelectorExpr); ok {
					if id, ok := rootIdent(se.X); ok {
						out[lname(id.Name)] = true
					}
				}
			case *ast.DeclStmt:
				if gd, ok := x.Decl.(*ast.GenDecl); ok {
					for _, sp := range gd.Specs {
						if vs, ok := sp.(*ast.ValueSpec); ok {
							for _, n := range vs.Names {
								declared[n.Name] = true
							}
						}
					}
				}
			case *ast.IfStmt:
				walk(x.Body.List)
				if eb, ok := x.Else.(*ast.BlockStmt); ok {
					walk(eb.List)
				}
			}
		}
	}
	walk(stmts)
}

func (t *ptr) assignTo(lhs ast.Expr, rhs string) string {
	switch l := lhs.(type) {
	case *ast.Ident:
		if obj := t.info.ObjectOf(l); obj != nil && obj.Parent() == t.p.Types.Scope() {
			bad("assignment to package-level %s", l.Name)
		}
		return fmt.Sprintf("let %s := %s\n", lname(l.Name), rhs)
	case *ast.SelectorExpr:
		id, ok := rootIdent(l.X)
		if !ok || t.recvObj == nil || t.info.ObjectOf(id) != t.recvObj {
			bad("assignment through %s", nodeString(t.p.Fset, l))
		}
		// the whole path from the receiver: a.B.C = v  /  a promoted field  ->  { a with B.C := v }
		path := ""
		var walk func(e ast.Expr)
		walk = func(e ast.Expr) {
			switch y := e.(type) {
			case *ast.ParenExpr:
				walk(y.X)
			case *ast.SelectorExpr:
				walk(y.X)
				sel := t.info.Selections[y]
				if sel == nil || sel.Kind() != types.FieldVal {
					bad("assignment through %s", nodeString(t.p.Fset, l))
				}
				pp, _ := t.fieldPath(t.info.TypeOf(y.X), sel.Index())
				path += pp
			}
		}
		walk(l)
		if _, ok := leanIntType(t.info.TypeOf(l)); !ok {
			bad("assignment of non-scalar field %s", nodeString(t.p.Fset, l))
		}
		return fmt.Sprintf("let %s := { %s with %s := %s }\n", t.recvName, t.recvName, strings.TrimPrefix(path, "."), rhs)
	}
	bad("assignment target %T", lhs)
	return ""
}

var opAssign = map[token.Token]token.Token{token.ADD_ASSIGN: token.ADD, token.SUB_ASSIGN: token.SUB, token.MUL_ASSIGN: token.MUL,
	token.AND_ASSIGN: token.AND, token.OR_ASSIGN: token.OR, token.XOR_ASSIGN: token.XOR, token.SHL_ASSIGN: token.SHL,
	token.SHR_ASSIGN: token.SHR, token.AND_NOT_ASSIGN: token.AND_NOT, token.QUO_ASSIGN: token.QUO, token.REM_ASSIGN: token.REM}

// block translates stmts followed by continuation k (k == nil means: falling off the end = bare return).
func (t *ptr) block(stmts []ast.Stmt, k func() string) string {
	if len(stmts) == 0 {
		if k != nil {
			return k()
		}
		return t.ret(&ast.ReturnStmt{})
	}
	s := stmts[0]
	rest := func() string { return t.block(stmts[1:], k) }
	switch x := s.(type) {
	case *ast.ReturnStmt:
		return t.ret(x)
	case *ast.AssignStmt:
		if len(x.Lhs) > 1 && len(x.Lhs) == len(x.Rhs) && (x.Tok == token.DEFINE || x.Tok == token.ASSIGN) {
			// parallel assignment: all right-hand sides are evaluated first
			out := ""
			var tmps []string
			for i, r := range x.Rhs {
				tmp := fmt.Sprintf("par_%d_", i)
				tmps = append(tmps, tmp)
				out += fmt.Sprintf("let %s := %s\n", tmp, t.expr(r))
			}
			for i, l := range x.Lhs {
				if id, ok := l.(*ast.Ident); ok && id.Name == "_" {
					continue
				}
				out += t.assignTo(l, tmps[i])
			}
			return out + rest()
		}
		if len(x.Lhs) != 1 || len(x.Rhs) != 1 {
			bad("multi-assignment")
		}
		if x.Tok == token.DEFINE || x.Tok == token.ASSIGN {
			return t.assignTo(x.Lhs[0], t.expr(x.Rhs[0])) + rest()
		}
		op, ok := opAssign[x.Tok]
		if !ok {
			bad("assignment operator %s", x.Tok)
		}
		be := &ast.BinaryExpr{X: x.Lhs[0], Op: op, Y: x.Rhs[0]}
		return t.assignTo(x.Lhs[0], t.binary(be, t.info.TypeOf(x.Lhs[0]))) + rest()
	case *ast.IncDecStmt:
		lt := t.leanType(t.info.TypeOf(x.X))
		op := "+"
		if x.Tok == token.DEC {
			op = "-"
		}
		return t.assignTo(x.X, fmt.Sprintf("(%s %s (1 : %s))", t.expr(x.X), op, lt)) + rest()
	case *ast.DeclStmt:
		gd, ok := x.Decl.(*ast.GenDecl)
		if ok && gd.Tok == token.CONST {
			// local constants are folded into their uses by the type checker
			return rest()
		}
		if !ok || gd.Tok != token.VAR {
			bad("declaration")
		}
		out := ""
		for _, sp := range gd.Specs {
			vs := sp.(*ast.ValueSpec)
			for i, n := range vs.Names {
				lt := t.leanType(t.info.TypeOf(n))
				if len(vs.Values) > i {
					out += fmt.Sprintf("let %s : %s := %s\n", lname(n.Name), lt, t.expr(vs.Values[i]))
				} else if lt == "Bool" {
					out += fmt.Sprintf("let %s : Bool := false\n", lname(n.Name))
				} else if _, isInt := leanIntType(t.info.TypeOf(n)); isInt {
					out += fmt.Sprintf("let %s : %s := 0\n", lname(n.Name), lt)
				} else {
					bad("var of struct type")
				}
			}
		}
		return out + rest()
	case *ast.IfStmt:
		if x.Init != nil {
			bad("if with init")
		}
		var elseList []ast.Stmt
		if x.Else != nil {
			eb, ok := x.Else.(*ast.BlockStmt)
			if !ok {
				bad("else-if")
			}
			elseList = eb.List
		}
		c := t.cond(x.Cond)
		thenRet, elseRet := endsInReturn(x.Body.List), endsInReturn(elseList)
		if thenRet && elseRet {
			return fmt.Sprintf("if %s then\n%s\nelse\n%s", c, indent(t.block(x.Body.List, nil)), indent(t.block(elseList, nil)))
		}
		if thenRet && !containsReturn(&ast.BlockStmt{List: elseList}) {
			return fmt.Sprintf("if %s then\n%s\nelse\n%s", c, indent(t.block(x.Body.List, nil)), indent(t.block(elseList, rest)))
		}
		if containsReturn(x.Body) || containsReturn(&ast.BlockStmt{List: elseList}) {
			bad("return inside a partially returning if")
		}
		vars := map[string]bool{}
		t.assigned(x.Body.List, vars)
		t.assigned(elseList, vars)
		var names []string
		for v := range vars {
			names = append(names, v)
		}
		sort.Strings(names)
		if len(names) == 0 {
			return rest()
		}
		tuple := names[0]
		if len(names) > 1 {
			tuple = "(" + strings.Join(names, ", ") + ")"
		}
		kk := func() string { return tuple }
		return fmt.Sprintf("let %s := if %s then\n%s\nelse\n%s\n%s", tuple, c, indent(t.block(x.Body.List, kk)), indent(t.block(elseList, kk)), rest())
	case *ast.ExprStmt:
		// a call of another method of the same type on the receiver, for its effect on the receiver: c.setFlag(ofs)
		if c, ok := x.X.(*ast.CallExpr); ok {
			if se, ok := c.Fun.(*ast.SelectorExpr); ok {
				if id, ok := se.X.(*ast.Ident); ok && t.recvObj != nil && t.info.ObjectOf(id) == t.recvObj {
					if m := t.methodOnDemand(t.recvType, se.Sel.Name); m != nil && m.mutates && m.nres == 0 {
						var args []string
						for _, a := range c.Args {
							args = append(args, t.expr(a))
						}
						t.mutates = true
						return fmt.Sprintf("let %s := (%s.%s %s %s)\n", t.recvName, t.structLean(t.recvType), lname(se.Sel.Name), t.recvName, strings.Join(args, " ")) + rest()
					}
				}
			}
		}
		bad("statement %T %s", s, nodeString(t.p.Fset, s))
	}
	bad("statement %T", s)
	return ""
}

type methodInfo struct {
	mutates bool
	nres    int
}

// structLean: Lean name of the struct projection of a Go type name of this package
func (t *ptr) structLean(goName string) string { return goName }

// methodOnDemand makes sure method recv.name is translated (from pureList earlier, or now) and returns its shape.
func (t *ptr) methodOnDemand(recv, name string) *methodInfo {
	key := recv + "." + name
	if mi, ok := t.methods[key]; ok {
		return mi
	}
	if t.depth > 4 {
		return nil
	}
	fd := findFunc(t.p, recv, name)
	if fd == nil || fd.Body == nil {
		return nil
	}
	saved := *t
	t.depth++
	d, err := t.translate(fd, pureSpec{t.p.Types.Name(), recv, name})
	mi := &methodInfo{mutates: t.mutates}
	if fd.Type.Results != nil {
		mi.nres = fd.Type.Results.NumFields()
	}
	extra, structs, known, methods := t.extra, t.structs, t.known, t.methods
	*t = saved
	t.extra, t.structs, t.known, t.methods = extra, structs, known, methods
	if err != nil {
		return nil
	}
	t.extra = append(t.extra, d)
	t.methods[key] = mi
	rep.Translated = append(rep.Translated, t.p.Types.Name()+"."+key+" (on demand)")
	return mi
}

func indent(s string) string {
	lines := strings.Split(strings.TrimRight(s, "\n"), "\n")
	for i := range lines {
		lines[i] = "  " + lines[i]
	}
	return strings.Join(lines, "\n")
}

func findFunc(p *packages.Package, recv, name string) *ast.FuncDecl {
	for _, f := range p.Syntax {
		for _, d := range f.Decls {
			fd, ok := d.(*ast.FuncDecl)
			if !ok || fd.Name.Name != name {
				continue
			}
			if recv == "" && fd.Recv == nil {
				return fd
			}
			if recv != "" && fd.Recv != nil && len(fd.Recv.List) == 1 {
				ty := fd.Recv.List[0].Type
				if st, ok := ty.(*ast.StarExpr); ok {
					ty = st.X
				}
				if id, ok := ty.(*ast.Ident); ok && id.Name == recv {
					return fd
				}
			}
		}
	}
	return nil
}

// onDemand translates the plain function `name` of the current package while another function is being translated;
// the caller's translation state is saved and restored. On success the definition is queued in t.extra.
func (t *ptr) onDemand(name string) {
	if t.depth > 4 {
		return
	}
	fd := findFunc(t.p, "", name)
	if fd == nil || fd.Body == nil {
		return
	}
	saved := *t
	t.depth++
	d, err := t.translate(fd, pureSpec{t.p.Types.Name(), "", name})
	extra, structs, known := t.extra, t.structs, t.known
	*t = saved
	t.extra, t.structs, t.known = extra, structs, known
	if err == nil {
		t.extra = append(t.extra, d)
		t.known[name] = true
		rep.Translated = append(rep.Translated, t.p.Types.Name()+"."+name+" (on demand)")
	}
}

func (t *ptr) translate(fd *ast.FuncDecl, sp pureSpec) (def string, err error) {
	defer func() {
		if r := recover(); r != nil {
			if u, ok := r.(unsupported); ok {
				err = fmt.Errorf("%s", u.msg)
				return
			}
			panic(r)
		}
	}()
	t.recvObj, t.recvName, t.recvType, t.mutates, t.results = nil, "", "", false, nil
	var params []string
	if fd.Recv != nil {
		r := fd.Recv.List[0]
		if len(r.Names) == 1 {
			t.recvObj = t.info.Defs[r.Names[0]]
			t.recvName = lname(r.Names[0].Name)
		} else {
			t.recvName = "self"
		}
		t.recvType = sp.recv
		sn, ok := t.structName(t.info.TypeOf(r.Type))
		if !ok {
			bad("receiver type")
		}
		params = append(params, fmt.Sprintf("(%s : %s)", t.recvName, sn))
		// does the body write a receiver field?
		ast.Inspect(fd.Body, func(n ast.Node) bool {
			var lhs []ast.Expr
			switch a := n.(type) {
			case *ast.AssignStmt:
				lhs = a.Lhs
			case *ast.IncDecStmt:
				lhs = []ast.Expr{a.X}
			case *ast.ExprStmt:
				// recv.helper(...) called for its effect on the receiver
				if c, ok := a.X.(*ast.CallExpr); ok {
					if se, ok := c.Fun.(*ast.SelectorExpr); ok {
						if id, ok := se.X.(*ast.Ident); ok && t.recvObj != nil && t.info.ObjectOf(id) == t.recvObj {
							t.mutates = true
						}
					}
				}
			}
			for _, l := range lhs {
				if se, ok := l.(*ast.SelectorExpr); ok {
					if id, ok := rootIdent(se.X); ok && t.recvObj != nil && t.info.ObjectOf(id) == t.recvObj {
						t.mutates = true
					}
				}
			}
			return true
		})
	}
	for _, f := range fd.Type.Params.List {
		lt := t.leanType(t.info.TypeOf(f.Type))
		for _, n := range f.Names {
			params = append(params, fmt.Sprintf("(%s : %s)", lname(n.Name), lt))
		}
	}
	var resTypes []string
	pre := ""
	if fd.Type.Results != nil {
		for _, f := range fd.Type.Results.List {
			lt := t.leanType(t.info.TypeOf(f.Type))
			if len(f.Names) == 0 {
				resTypes = append(resTypes, lt)
			}
			for _, n := range f.Names {
				resTypes = append(resTypes, lt)
				t.results = append(t.results, t.info.Defs[n].(*types.Var))
				if lt == "Bool" {
					pre += fmt.Sprintf("let %s : Bool := false\n", lname(n.Name))
				} else {
					pre += fmt.Sprintf("let %s : %s := 0\n", lname(n.Name), lt)
				}
			}
		}
	}
	if t.mutates {
		resTypes = append(resTypes, t.recvType)
	}
	rt := "Unit"
	if len(resTypes) > 0 {
		rt = strings.Join(resTypes, " × ")
	}
	body := pre + t.block(fd.Body.List, nil)
	name := lname(sp.name)
	if sp.recv != "" {
		name = sp.recv + "." + lname(sp.name)
	}
	return fmt.Sprintf("def %s %s : %s :=\n%s\n", name, strings.Join(params, " "), rt, indent(body)), nil
}

func genPure(pk map[string]*packages.Package) string {
	var sb strings.Builder
	sb.WriteString("-- GENERATED by ofvextract from /repo; do not edit.\n-- Transliteration of straight-line integer helpers (Go int = Int64, uintN = UIntN, wrap-around arithmetic).\nimport OFV.Go.Ints\nnamespace OFV.Gen\nopen OFV\n")
	// phase 1: translate, package by package (a later package may register structs in an earlier one)
	allPtr = map[string]*ptr{}
	pdefs := map[string][]string{}
	for _, pn := range pkgNames {
		p := pk[pn]
		t := &ptr{p: p, info: p.TypesInfo, known: map[string]bool{}, structs: map[string]*types.Struct{}, methods: map[string]*methodInfo{},
			nested: map[string]map[string]string{}}
		allPtr[pn] = t
		if os.Getenv("OFVEXTRACT_PROBE") != "" {
			probeAll(t)
		}
		var defs []string
		for _, sp := range pureList {
			if sp.pkg != pn {
				continue
			}
			key := sp.pkg + "." + sp.name
			if sp.recv != "" {
				key = sp.pkg + "." + sp.recv + "." + sp.name
			}
			if sp.recv == "" && t.known[sp.name] {
				// already emitted on demand, ahead of an earlier caller
				rep.Translated = append(rep.Translated, key)
				continue
			}
			if _, done := t.methods[sp.recv+"."+sp.name]; sp.recv != "" && done {
				// a method already emitted on demand, ahead of an earlier caller
				rep.Translated = append(rep.Translated, key)
				continue
			}
			fd := findFunc(p, sp.recv, sp.name)
			if fd == nil {
				rep.Opaque[key] = "function not found"
				defs = append(defs, fmt.Sprintf("-- opaque_changed %s: function not found\n", key))
				continue
			}
			d, err := t.translate(fd, sp)
			if err != nil {
				rep.Opaque[key] = err.Error()
				defs = append(defs, fmt.Sprintf("-- opaque_changed %s: %s\n", key, err.Error()))
				t.extra = nil
				continue
			}
			if sp.recv == "" {
				t.known[sp.name] = true
			} else {
				nres := 0
				if fd.Type.Results != nil {
					nres = fd.Type.Results.NumFields()
				}
				t.methods[sp.recv+"."+sp.name] = &methodInfo{mutates: t.mutates, nres: nres}
			}
			rep.Translated = append(rep.Translated, key)
			defs = append(defs, t.extra...)
			t.extra = nil
			defs = append(defs, d)
		}
		pdefs[pn] = defs
	}
	// phase 2: emit
	for _, pn := range pkgNames {
		t, defs := allPtr[pn], pdefs[pn]
		if len(defs) == 0 && len(t.structs) == 0 {
			continue
		}
		fmt.Fprintf(&sb, "\nnamespace %s\n\n", pn)
		var names []string
		for n := range t.structs {
			names = append(names, n)
		}
		sort.Strings(names)
		// a struct that carries another struct of this package comes after it
		var order []string
		state := map[string]int{}
		var visit func(n string)
		visit = func(n string) {
			if state[n] != 0 {
				return // done, or a cycle (cannot be emitted; Lean will reject the file and the tie is reported broken)
			}
			state[n] = 1
			var fs []string
			for f := range t.nested[n] {
				fs = append(fs, f)
			}
			sort.Strings(fs)
			for _, f := range fs {
				if dep := t.nested[n][f]; !strings.Contains(dep, ".") {
					if _, ok := t.structs[dep]; ok {
						visit(dep)
					}
				}
			}
			state[n] = 2
			order = append(order, n)
		}
		for _, n := range names {
			visit(n)
		}
		for _, n := range order {
			st := t.structs[n]
			fmt.Fprintf(&sb, "/-- scalar projection of Go struct %s.%s -/\nstructure %s where\n", pn, n, n)
			cnt := 0
			for i := 0; i < st.NumFields(); i++ {
				f := st.Field(i)
				lt, ok := leanIntType(f.Type())
				if !ok {
					if nt, used := t.nested[n][f.Name()]; used {
						// a struct-valued (or pointer-to-struct) field that translated code goes through; a pointer is
						// taken to be non-nil
						fmt.Fprintf(&sb, "  %s : %s := {}\n", lname(f.Name()), nt)
						cnt++
					}
					continue
				}
				if lt == "Bool" {
					fmt.Fprintf(&sb, "  %s : Bool := false\n", lname(f.Name()))
				} else {
					fmt.Fprintf(&sb, "  %s : %s := 0\n", lname(f.Name()), lt)
				}
				cnt++
			}
			if cnt == 0 {
				sb.WriteString("  unit_ : Unit := ()\n")
			}
			sb.WriteString("deriving DecidableEq, Repr\n\n")
		}
		for _, d := range defs {
			sb.WriteString(d)
			sb.WriteString("\n")
		}
		fmt.Fprintf(&sb, "end %s\n", pn)
	}
	sb.WriteString("\nend OFV.Gen\n")
	return sb.String()
}

// probeAll (developer aid, OFVEXTRACT_PROBE=1): tries every function of the package and lists on stderr the ones inside
// the translated subset; the translation state is discarded.
func probeAll(t *ptr) {
	for _, f := range t.p.Syntax {
		if strings.HasSuffix(t.p.Fset.Position(f.Pos()).Filename, "_test.go") {
			continue
		}
		for _, d := range f.Decls {
			fd, ok := d.(*ast.FuncDecl)
			if !ok || fd.Body == nil {
				continue
			}
			recv := ""
			if fd.Recv != nil && len(fd.Recv.List) == 1 {
				ty := fd.Recv.List[0].Type
				if st, ok := ty.(*ast.StarExpr); ok {
					ty = st.X
				}
				if id, ok := ty.(*ast.Ident); ok {
					recv = id.Name
				} else {
					continue
				}
			}
			pt := &ptr{p: t.p, info: t.info, known: map[string]bool{}, structs: map[string]*types.Struct{}, methods: map[string]*methodInfo{},
				nested: map[string]map[string]string{}}
			nTr := len(rep.Translated)
			_, err := pt.translate(fd, pureSpec{t.p.Types.Name(), recv, fd.Name.Name})
			rep.Translated = rep.Translated[:nTr]
			if err == nil {
				fmt.Fprintf(os.Stderr, "PROBE ok %s %s %s\n", t.p.Types.Name(), recv, fd.Name.Name)
			} else {
				fmt.Fprintf(os.Stderr, "PROBE no %s %s %s: %s\n", t.p.Types.Name(), recv, fd.Name.Name, err)
			}
		}
	}
}
