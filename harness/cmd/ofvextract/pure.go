package main

import (
	"fmt"
	"go/ast"
	"go/constant"
	"go/token"
	"go/types"
	"os"
	"sort"
	"strings"

	"golang.org/x/tools/go/packages"
)

// pureSpec lists the functions translated into Gen/Pure.lean. recv == "" for plain functions.
type pureSpec struct{ pkg, recv, name string }

var pureList = []pureSpec{
	{"openflow13", "", "encodeOfsNbitsStartEnd"},
	{"openflow13", "", "encodeOfsNbits"},
	{"openflow13", "", "decodeOfs"},
	{"openflow13", "", "decodeNbits"},
	{"openflow13", "", "NewNXRange"},
	{"openflow13", "", "NewNXRangeByOfsNBits"},
	{"openflow13", "NXRange", "ToUint32Mask"},
	{"openflow13", "NXRange", "ToOfsBits"},
	{"openflow13", "NXRange", "GetOfs"},
	{"openflow13", "NXRange", "GetNbits"},
	{"openflow13", "", "NewCTStates"},
	{"openflow13", "CTStates", "SetNew"}, {"openflow13", "CTStates", "UnsetNew"},
	{"openflow13", "CTStates", "SetEst"}, {"openflow13", "CTStates", "UnsetEst"},
	{"openflow13", "CTStates", "SetRel"}, {"openflow13", "CTStates", "UnsetRel"},
	{"openflow13", "CTStates", "SetRpl"}, {"openflow13", "CTStates", "UnsetRpl"},
	{"openflow13", "CTStates", "SetInv"}, {"openflow13", "CTStates", "UnsetInv"},
	{"openflow13", "CTStates", "SetTrk"}, {"openflow13", "CTStates", "UnsetTrk"},
	{"openflow13", "CTStates", "SetSNAT"}, {"openflow13", "CTStates", "UnsetSNAT"},
	{"openflow13", "CTStates", "SetDNAT"}, {"openflow13", "CTStates", "UnsetDNAT"},
	{"openflow13", "MatchField", "MarshalHeader"},
	{"ofbase", "Decoder", "SkipAlign"},
	{"ofbase", "Decoder", "Skip"},
	{"ofbase", "Decoder", "Offset"},
	{"ofbase", "Decoder", "BaseOffset"},
	{"protocol", "Option", "Len"},
	{"protocol", "HopByHopHeader", "Len"},
	{"protocol", "RoutingHeader", "Len"},
	{"protocol", "FragmentHeader", "Len"},
	{"protocol", "ARP", "Len"},
	{"protocol", "IGMPv1or2", "Len"},
	{"protocol", "IGMPv3Query", "Len"},
	{"protocol", "IGMPv3GroupRecord", "Len"},
	// widened subset (round T1b): constant / field-sum Len() of the fixed-size kinds, stored-length Len() of the Nicira actions,
	// learn-spec header constructors; struct-valued fields and promoted fields are followed (see fieldPath)
	{"common", "Header", "Len"}, {"common", "HelloElemHeader", "Len"},
	{"openflow13", "ActionHeader", "Len"}, {"openflow13", "ActionOutput", "Len"}, {"openflow13", "ActionSetqueue", "Len"},
	{"openflow13", "ActionGroup", "Len"}, {"openflow13", "ActionMplsTtl", "Len"}, {"openflow13", "ActionDecNwTtl", "Len"},
	{"openflow13", "ActionNwTtl", "Len"}, {"openflow13", "ActionPush", "Len"}, {"openflow13", "ActionPopVlan", "Len"},
	{"openflow13", "ActionPopMpls", "Len"}, {"openflow13", "BundleControl", "Len"}, {"openflow13", "InstrHeader", "Len"},
	{"openflow13", "InstrGotoTable", "Len"}, {"openflow13", "InstrWriteMetadata", "Len"}, {"openflow13", "InstrMeter", "Len"},
	{"openflow13", "InPortField", "Len"}, {"openflow13", "EthDstField", "Len"}, {"openflow13", "EthSrcField", "Len"},
	{"openflow13", "EthTypeField", "Len"}, {"openflow13", "VlanIdField", "Len"}, {"openflow13", "MplsLabelField", "Len"},
	{"openflow13", "MplsBosField", "Len"}, {"openflow13", "Ipv4SrcField", "Len"}, {"openflow13", "Ipv4DstField", "Len"},
	{"openflow13", "Ipv6SrcField", "Len"}, {"openflow13", "Ipv6DstField", "Len"}, {"openflow13", "IPv6FlowLabelField", "Len"},
	{"openflow13", "IpProtoField", "Len"}, {"openflow13", "IpDscpField", "Len"}, {"openflow13", "TunnelIdField", "Len"},
	{"openflow13", "MetadataField", "Len"}, {"openflow13", "PortField", "Len"}, {"openflow13", "TcpFlagsField", "Len"},
	{"openflow13", "ArpOperField", "Len"}, {"openflow13", "TunnelIpv4SrcField", "Len"}, {"openflow13", "TunnelIpv4DstField", "Len"},
	{"openflow13", "ArpXHaField", "Len"}, {"openflow13", "ArpXPaField", "Len"}, {"openflow13", "ActsetOutputField", "Len"},
	{"openflow13", "IcmpTypeField", "Len"}, {"openflow13", "IcmpCodeField", "Len"}, {"openflow13", "DescStats", "Len"},
	{"openflow13", "AggregateStats", "Len"}, {"openflow13", "TableStats", "Len"}, {"openflow13", "PortStatsRequest", "Len"},
	{"openflow13", "PortStats", "Len"}, {"openflow13", "QueueStatsRequest", "Len"}, {"openflow13", "QueueStats", "Len"},
	{"openflow13", "NXActionHeader", "Len"}, {"openflow13", "NXActionConjunction", "Len"}, {"openflow13", "NXActionRegLoad", "Len"},
	{"openflow13", "NXActionRegMove", "Len"}, {"openflow13", "NXActionResubmit", "Len"}, {"openflow13", "NXActionResubmitTable", "Len"},
	{"openflow13", "NXActionCTNAT", "Len"}, {"openflow13", "NXActionOutputReg", "Len"}, {"openflow13", "NXActionCTClear", "Len"},
	{"openflow13", "NXActionDecTTL", "Len"}, {"openflow13", "NXActionDecTTLCntIDs", "Len"}, {"openflow13", "NXLearnSpecHeader", "Len"},
	{"openflow13", "NXLearnSpecField", "Len"}, {"openflow13", "NXLearnSpec", "Len"}, {"openflow13", "NXActionController", "Len"},
	{"openflow13", "Uint16Message", "Len"}, {"openflow13", "Uint32Message", "Len"}, {"openflow13", "ByteArrayField", "Len"},
	{"openflow13", "CTLabel", "Len"}, {"openflow13", "ControllerID", "Len"}, {"openflow13", "TLVTableMap", "Len"},
	{"openflow13", "SwitchConfig", "Len"},
	{"openflow13", "", "NewLearnHeaderMatchFromValue"},
	{"openflow13", "", "NewLearnHeaderMatchFromField"},
	{"openflow13", "", "NewLearnHeaderLoadFromValue"},
	{"openflow13", "", "NewLearnHeaderLoadFromField"},
	{"openflow13", "", "NewLearnHeaderOutputFromField"},
	{"protocol", "VLAN", "Len"},
	// straight-line encoders (round T1c): the byte-builder idiom, see encStmt and OFV/Go/Buf.lean; Props/C03d.lean proves the hand
	// model equal to each of these. Also inside the subset (OFVEXTRACT_PROBE=1 lists them) but not yet tied by a theorem: InstrGotoTable,
	// the stats records, NXActionRegLoad/RegMove/OutputReg/Controller, NXLearnSpecField, ByteArrayField, SwitchConfig, PortMod.
	// protocol.VLAN is tied by Props/C09c.lean.
	{"common", "Header", "MarshalBinary"}, {"common", "HelloElemHeader", "MarshalBinary"},
	{"openflow13", "ActionHeader", "MarshalBinary"}, {"openflow13", "ActionOutput", "MarshalBinary"}, {"openflow13", "ActionSetqueue", "MarshalBinary"},
	{"openflow13", "ActionGroup", "MarshalBinary"}, {"openflow13", "ActionMplsTtl", "MarshalBinary"}, {"openflow13", "ActionDecNwTtl", "MarshalBinary"},
	{"openflow13", "ActionNwTtl", "MarshalBinary"}, {"openflow13", "ActionPush", "MarshalBinary"}, {"openflow13", "ActionPopVlan", "MarshalBinary"},
	{"openflow13", "ActionPopMpls", "MarshalBinary"}, {"openflow13", "BundleControl", "MarshalBinary"}, {"openflow13", "InstrHeader", "MarshalBinary"},
	{"openflow13", "InstrMeter", "MarshalBinary"}, {"openflow13", "InPortField", "MarshalBinary"}, {"openflow13", "EthTypeField", "MarshalBinary"},
	{"openflow13", "VlanIdField", "MarshalBinary"}, {"openflow13", "MplsLabelField", "MarshalBinary"}, {"openflow13", "MplsBosField", "MarshalBinary"},
	{"openflow13", "IPv6FlowLabelField", "MarshalBinary"}, {"openflow13", "IpProtoField", "MarshalBinary"}, {"openflow13", "IpDscpField", "MarshalBinary"},
	{"openflow13", "TunnelIdField", "MarshalBinary"}, {"openflow13", "MetadataField", "MarshalBinary"}, {"openflow13", "PortField", "MarshalBinary"},
	{"openflow13", "TcpFlagsField", "MarshalBinary"}, {"openflow13", "ArpOperField", "MarshalBinary"}, {"openflow13", "ActsetOutputField", "MarshalBinary"},
	{"openflow13", "IcmpTypeField", "MarshalBinary"}, {"openflow13", "IcmpCodeField", "MarshalBinary"}, {"openflow13", "Uint16Message", "MarshalBinary"},
	{"openflow13", "Uint32Message", "MarshalBinary"}, {"openflow13", "NXActionHeader", "MarshalBinary"}, {"openflow13", "NXActionConjunction", "MarshalBinary"},
	{"openflow13", "ControllerID", "MarshalBinary"}, {"openflow13", "TLVTableMap", "MarshalBinary"},
	{"openflow13", "InstrGotoTable", "MarshalBinary"}, {"openflow13", "InstrWriteMetadata", "MarshalBinary"},
	{"openflow13", "NXActionCTClear", "MarshalBinary"}, {"openflow13", "NXActionDecTTL", "MarshalBinary"}, {"openflow13", "NXActionResubmit", "MarshalBinary"},
	{"openflow13", "NXActionResubmitTable", "MarshalBinary"},
	{"openflow13", "EthDstField", "MarshalBinary"},
	{"openflow13", "EthSrcField", "MarshalBinary"}, {"openflow13", "Ipv6SrcField", "MarshalBinary"}, {"openflow13", "Ipv6DstField", "MarshalBinary"},
	{"openflow13", "ArpXHaField", "MarshalBinary"},
	{"protocol", "VLAN", "MarshalBinary"},
}

type unsupported struct{ msg string }

func bad(format string, a ...interface{}) { panic(unsupported{fmt.Sprintf(format, a...)}) }

type ptr struct {
	p        *packages.Package
	info     *types.Info
	recvObj  types.Object // receiver variable, if any
	recvName string
	recvType string
	mutates  bool
	results  []*types.Var // named results
	resType  string
	known    map[string]bool // translated function names in this package (plain functions)
	structs  map[string]*types.Struct
	extra    []string // helper definitions translated on demand, to be emitted before the definition in progress
	depth    int
	methods  map[string]*methodInfo       // methods already translated: Type.name -> shape
	nested   map[string]map[string]string // struct name -> struct-valued fields that translated code reads -> Lean type
	enc      bool                         // translating a straight-line encoder: func (r *T) MarshalBinary() ([]byte, error)
	cursors  map[string]bool              // encoder mode: local ints used as write cursors (Nat)
	fresh    map[string]bool              // encoder mode: byte locals whose last assignment was make (cap = len)
	bytesRes string                       // encoder mode: name of the named []byte result ("" if unnamed)
}

func isBytesType(ty types.Type) bool {
	var el types.Type
	switch u := ty.Underlying().(type) {
	case *types.Slice:
		el = u.Elem()
	case *types.Array:
		el = u.Elem()
	default:
		return false
	}
	b, ok := el.Underlying().(*types.Basic)
	return ok && b.Kind() == types.Uint8
}

func isErrorType(ty types.Type) bool {
	n, ok := ty.(*types.Named)
	return ok && n.Obj().Pkg() == nil && n.Obj().Name() == "error"
}

// allPtr: translation state of the packages processed so far (pkgNames order), by package name. A struct or method of an
// EARLIER package can be referred to from a later one (common.Header inside the openflow13 messages).
var allPtr = map[string]*ptr{}

// owner returns the translation state that owns the named struct type ty (after dereferencing one pointer) and the
// struct's bare name; ok is false when ty is not a named struct of this package or of an earlier library package.
func (t *ptr) owner(ty types.Type) (*ptr, string, *types.Struct, bool) {
	if p, ok := ty.(*types.Pointer); ok {
		ty = p.Elem()
	}
	n, ok := ty.(*types.Named)
	if !ok {
		return nil, "", nil, false
	}
	st, ok := n.Underlying().(*types.Struct)
	if !ok || n.Obj().Pkg() == nil {
		return nil, "", nil, false
	}
	if n.Obj().Pkg() == t.p.Types {
		return t, n.Obj().Name(), st, true
	}
	if o, ok := allPtr[n.Obj().Pkg().Name()]; ok && o != t && o.p.Types.Path() == n.Obj().Pkg().Path() {
		return o, n.Obj().Name(), st, true
	}
	return nil, "", nil, false
}

// fieldPath follows a selection index path from struct type ty (promoted fields go through embedded structs; a pointer
// on the way is taken to be non-nil) and returns the Lean projection path ".A.B" and the type of the last field. Every
// struct-valued field on the way is recorded so that the projection of its owner carries it.
func (t *ptr) fieldPath(ty types.Type, index []int) (string, types.Type) {
	path := ""
	cur := ty
	for _, ix := range index {
		o, name, st, ok := t.owner(cur)
		if !ok {
			bad("selector through %s", cur)
		}
		o.structs[name] = st
		f := st.Field(ix)
		if isBytesType(f.Type()) {
			if o.nested[name] == nil {
				o.nested[name] = map[string]string{}
			}
			o.nested[name][f.Name()] = "List UInt8"
		} else if _, isInt := leanIntType(f.Type()); !isInt {
			ln, ok := o.structName(f.Type())
			if !ok {
				bad("field %s of non-scalar type %s", f.Name(), f.Type())
			}
			if o.nested[name] == nil {
				o.nested[name] = map[string]string{}
			}
			o.nested[name][f.Name()] = ln
		}
		path += "." + lname(f.Name())
		cur = f.Type()
	}
	return path, cur
}

// rootIdent returns the identifier at the bottom of a chain of field selectors (a.B.C -> a).
func rootIdent(e ast.Expr) (*ast.Ident, bool) {
	for {
		switch x := e.(type) {
		case *ast.Ident:
			return x, true
		case *ast.SelectorExpr:
			e = x.X
		case *ast.ParenExpr:
			e = x.X
		default:
			return nil, false
		}
	}
}

func leanIntType(t types.Type) (string, bool) {
	b, ok := t.Underlying().(*types.Basic)
	if !ok {
		return "", false
	}
	switch b.Kind() {
	case types.Uint8:
		return "UInt8", true
	case types.Uint16:
		return "UInt16", true
	case types.Uint32:
		return "UInt32", true
	case types.Uint64, types.Uint, types.Uintptr:
		return "UInt64", true
	case types.Int, types.Int64:
		return "Int64", true
	case types.Bool:
		return "Bool", true
	case types.UntypedInt:
		return "Int64", true
	case types.UntypedBool:
		return "Bool", true
	}
	return "", false
}

func width(lt string) string {
	switch lt {
	case "UInt8":
		return "8"
	case "UInt16":
		return "16"
	case "UInt32":
		return "32"
	case "UInt64":
		return "64"
	}
	return ""
}

// structName returns the generated structure name for *T or T where T is a named struct of this package.
func (t *ptr) structName(ty types.Type) (string, bool) {
	o, name, st, ok := t.owner(ty)
	if !ok {
		return "", false
	}
	o.structs[name] = st
	if o != t {
		return o.p.Types.Name() + "." + name, true
	}
	return name, true
}

func (t *ptr) leanType(ty types.Type) string {
	if s, ok := leanIntType(ty); ok {
		return s
	}
	if s, ok := t.structName(ty); ok {
		return s
	}
	bad("type %s outside subset", ty)
	return ""
}

func constLit(v constant.Value, lt string) string {
	switch lt {
	case "Bool":
		if constant.BoolVal(v) {
			return "true"
		}
		return "false"
	case "Int64":
		if constant.Sign(v) < 0 {
			return fmt.Sprintf("(%s : Int64)", v.ExactString())
		}
	}
	return fmt.Sprintf("(%s : %s)", v.ExactString(), lt)
}

func (t *ptr) expr(e ast.Expr) string {
	tv := t.info.Types[e]
	if tv.Value != nil && (tv.Value.Kind() == constant.Int || tv.Value.Kind() == constant.Bool) {
		lt, ok := leanIntType(tv.Type)
		if !ok {
			bad("constant of type %s", tv.Type)
		}
		return constLit(tv.Value, lt)
	}
	switch x := e.(type) {
	case *ast.ParenExpr:
		return "(" + t.expr(x.X) + ")"
	case *ast.Ident:
		obj := t.info.Uses[x]
		if obj == nil {
			obj = t.info.Defs[x]
		}
		if _, ok := obj.(*types.Var); !ok {
			bad("identifier %s is not a variable", x.Name)
		}
		if obj.Parent() == t.p.Types.Scope() {
			bad("package-level variable %s", x.Name)
		}
		if t.cursors[x.Name] {
			bad("cursor %s used as a value", x.Name)
		}
		return lname(x.Name)
	case *ast.SelectorExpr:
		// receiver or struct-valued local . field
		sel := t.info.Selections[x]
		if sel == nil || sel.Kind() != types.FieldVal {
			bad("selector %s", nodeString(t.p.Fset, x))
		}
		if _, ok := t.structName(t.info.TypeOf(x.X)); !ok {
			bad("selector base type %s", t.info.TypeOf(x.X))
		}
		path, ft := t.fieldPath(t.info.TypeOf(x.X), sel.Index())
		if _, ok := leanIntType(ft); !ok && !isBytesType(ft) {
			if _, ok := t.structName(ft); !ok {
				bad("field %s of non-scalar type %s", x.Sel.Name, sel.Type())
			}
		}
		return t.expr(x.X) + path
	case *ast.UnaryExpr:
		lt := t.leanType(tv.Type)
		switch x.Op {
		case token.XOR:
			return "(~~~ " + t.expr(x.X) + ")"
		case token.SUB:
			return "(0 - " + t.expr(x.X) + ")"
		case token.NOT:
			return "(! " + t.expr(x.X) + ")"
		case token.AND:
			if cl, ok := x.X.(*ast.CompositeLit); ok {
				return t.composite(cl)
			}
		}
		bad("unary %s (%s)", x.Op, lt)
	case *ast.BinaryExpr:
		return t.binary(x, tv.Type)
	case *ast.CallExpr:
		return t.call(x)
	case *ast.CompositeLit:
		return t.composite(x)
	}
	bad("expression %T %s", e, nodeString(t.p.Fset, e))
	return ""
}

func (t *ptr) composite(cl *ast.CompositeLit) string {
	sn, ok := t.structName(t.info.TypeOf(cl))
	if !ok {
		bad("composite literal of %s", t.info.TypeOf(cl))
	}
	var parts []string
	for _, el := range cl.Elts {
		kv, ok := el.(*ast.KeyValueExpr)
		if !ok {
			bad("positional composite literal")
		}
		parts = append(parts, fmt.Sprintf("%s := %s", lname(kv.Key.(*ast.Ident).Name), t.expr(kv.Value)))
	}
	return fmt.Sprintf("({ %s } : %s)", strings.Join(parts, ", "), sn)
}

func (t *ptr) shiftCount(e ast.Expr) string {
	tv := t.info.Types[e]
	if tv.Value != nil {
		if constant.Sign(tv.Value) < 0 {
			bad("negative shift count")
		}
		return tv.Value.ExactString()
	}
	lt := t.leanType(tv.Type)
	if lt == "Int64" {
		return "(Go.cntI64 " + t.expr(e) + ")"
	}
	return "(" + t.expr(e) + ").toNat"
}

func (t *ptr) binary(x *ast.BinaryExpr, ty types.Type) string {
	switch x.Op {
	case token.LAND, token.LOR, token.EQL, token.NEQ, token.LSS, token.LEQ, token.GTR, token.GEQ:
		return "(decide " + t.cond(x) + ")"
	}
	lt := t.leanType(ty)
	a := t.expr(x.X)
	switch x.Op {
	case token.SHL, token.SHR:
		w := width(lt)
		if x.Op == token.SHL {
			if lt == "Int64" {
				return fmt.Sprintf("(Go.shlI64 %s %s)", a, t.shiftCount(x.Y))
			}
			if w == "" {
				bad("shift of %s", lt)
			}
			return fmt.Sprintf("(Go.shl%s %s %s)", w, a, t.shiftCount(x.Y))
		}
		if w == "" {
			bad("right shift of %s", lt)
		}
		return fmt.Sprintf("(Go.shr%s %s %s)", w, a, t.shiftCount(x.Y))
	}
	b := t.expr(x.Y)
	op := ""
	switch x.Op {
	case token.ADD:
		op = "+"
	case token.SUB:
		op = "-"
	case token.MUL:
		op = "*"
	case token.QUO:
		// divisor must be a non-zero constant (Go would panic on zero)
		if tv := t.info.Types[x.Y]; tv.Value == nil || constant.Sign(tv.Value) == 0 {
			bad("division by non-constant")
		}
		op = "/"
	case token.REM:
		if tv := t.info.Types[x.Y]; tv.Value == nil || constant.Sign(tv.Value) == 0 {
			bad("remainder by non-constant")
		}
		op = "%"
	case token.AND:
		op = "&&&"
	case token.OR:
		op = "|||"
	case token.XOR:
		op = "^^^"
	case token.AND_NOT:
		return fmt.Sprintf("(%s &&& ~~~ %s)", a, b)
	default:
		bad("operator %s", x.Op)
	}
	return fmt.Sprintf("(%s %s %s)", a, op, b)
}

// cond translates a boolean expression to a decidable Prop.
func (t *ptr) cond(e ast.Expr) string {
	switch x := e.(type) {
	case *ast.ParenExpr:
		return "(" + t.cond(x.X) + ")"
	case *ast.UnaryExpr:
		if x.Op == token.NOT {
			return "(¬ " + t.cond(x.X) + ")"
		}
	case *ast.BinaryExpr:
		switch x.Op {
		case token.LAND:
			return "(" + t.cond(x.X) + " ∧ " + t.cond(x.Y) + ")"
		case token.LOR:
			return "(" + t.cond(x.X) + " ∨ " + t.cond(x.Y) + ")"
		case token.EQL, token.NEQ, token.LSS, token.LEQ, token.GTR, token.GEQ:
			// both operands have the same type after go/types conversion
			op := map[token.Token]string{token.EQL: "=", token.NEQ: "≠", token.LSS: "<", token.LEQ: "≤", token.GTR: ">", token.GEQ: "≥"}[x.Op]
			return "(" + t.expr(x.X) + " " + op + " " + t.expr(x.Y) + ")"
		}
	}
	return "(" + t.expr(e) + " = true)"
}

func (t *ptr) call(c *ast.CallExpr) string {
	// conversion?
	if tv, ok := t.info.Types[c.Fun]; ok && tv.IsType() {
		if len(c.Args) != 1 {
			bad("conversion arity")
		}
		to, ok := leanIntType(tv.Type)
		if !ok || to == "Bool" {
			bad("conversion to %s", tv.Type)
		}
		from := t.leanType(t.info.TypeOf(c.Args[0]))
		a := t.expr(c.Args[0])
		if from == to {
			return a
		}
		if from == "Bool" {
			bad("conversion from bool")
		}
		// everything goes through 64 bits: truncation and two's-complement reinterpretation as in Go
		via := a
		switch from {
		case "Int64":
			via = a + ".toUInt64"
		case "UInt64":
		default:
			via = a + ".toUInt64"
		}
		switch to {
		case "UInt64":
			return "(" + via + ")"
		case "Int64":
			return "(" + via + ").toInt64"
		default:
			return "(" + via + ").to" + to
		}
	}
	if se, ok := c.Fun.(*ast.SelectorExpr); ok {
		if sel := t.info.Selections[se]; sel != nil && sel.Kind() == types.MethodVal {
			if sn, ok := t.structName(t.info.TypeOf(se.X)); ok && len(sel.Index()) == 1 {
				o, bare, _, _ := t.owner(t.info.TypeOf(se.X))
				var m *methodInfo
				if o == t {
					m = t.methodOnDemand(bare, se.Sel.Name)
				} else {
					m = o.methods[bare+"."+se.Sel.Name] // a method of an earlier package: only if already translated
				}
				if m != nil && !m.mutates && m.nres == 1 && !m.enc {
					var args []string
					for _, a := range c.Args {
						args = append(args, t.expr(a))
					}
					return "(" + sn + "." + lname(se.Sel.Name) + " " + t.expr(se.X) + " " + strings.Join(args, " ") + ")"
				}
			}
		}
	}
	switch f := c.Fun.(type) {
	case *ast.Ident:
		if f.Name == "new" && len(c.Args) == 1 {
			if sn, ok := t.structName(t.info.TypeOf(c.Args[0])); ok {
				return "({} : " + sn + ")"
			}
		}
		if obj, ok := t.info.Uses[f].(*types.Func); ok && obj.Pkg() == t.p.Types && !t.known[f.Name] {
			// a helper of the same package that is not in pureList (e.g. one introduced by a refactoring): translate
			// it on demand, ahead of its caller
			t.onDemand(f.Name)
		}
		if obj, ok := t.info.Uses[f].(*types.Func); ok && obj.Pkg() == t.p.Types && t.known[f.Name] {
			var args []string
			for _, a := range c.Args {
				args = append(args, t.expr(a))
			}
			return "(" + lname(f.Name) + " " + strings.Join(args, " ") + ")"
		}
	}
	bad("call %s", nodeString(t.p.Fset, c.Fun))
	return ""
}

// ---- statements, continuation style ------------------------------------------------------------

func (t *ptr) result(vals []string) string {
	var parts []string
	parts = append(parts, vals...)
	if t.mutates {
		parts = append(parts, t.recvName)
	}
	switch len(parts) {
	case 0:
		return "()"
	case 1:
		return parts[0]
	}
	return "(" + strings.Join(parts, ", ") + ")"
}

func (t *ptr) ret(r *ast.ReturnStmt) string {
	if t.enc {
		name := t.bytesRes
		if len(r.Results) == 2 {
			id, ok := r.Results[0].(*ast.Ident)
			if !ok || !isBytesType(t.info.TypeOf(id)) {
				bad("encoder returns %s", nodeString(t.p.Fset, r.Results[0]))
			}
			// the error result is nil: an encoder in the subset only takes errors from encoders in the subset
			switch e := r.Results[1].(type) {
			case *ast.Ident:
				if e.Name != "nil" && e.Name != "err" {
					bad("encoder returns error %s", e.Name)
				}
			default:
				bad("encoder returns error %s", nodeString(t.p.Fset, e))
			}
			name = id.Name
		} else if len(r.Results) != 0 || name == "" {
			bad("encoder return shape")
		}
		if t.mutates {
			return "pure (" + lname(name) + ", " + t.recvName + ")"
		}
		return "pure " + lname(name)
	}
	if len(r.Results) == 0 {
		var vals []string
		for _, v := range t.results {
			vals = append(vals, lname(v.Name()))
		}
		return t.result(vals)
	}
	var vals []string
	for _, e := range r.Results {
		vals = append(vals, t.expr(e))
	}
	return t.result(vals)
}

func endsInReturn(stmts []ast.Stmt) bool {
	if len(stmts) == 0 {
		return false
	}
	switch s := stmts[len(stmts)-1].(type) {
	case *ast.ReturnStmt:
		return true
	case *ast.IfStmt:
		if s.Else == nil {
			return false
		}
		eb, ok := s.Else.(*ast.BlockStmt)
		return ok && endsInReturn(s.Body.List) && endsInReturn(eb.List)
	}
	return false
}

func containsReturn(n ast.Node) bool {
	found := false
	ast.Inspect(n, func(m ast.Node) bool {
		if _, ok := m.(*ast.ReturnStmt); ok {
			found = true
		}
		return !found
	})
	return found
}

// assigned collects names (in Lean form) assigned (not declared) in stmts; receiver-field writes yield the receiver.
func (t *ptr) assigned(stmts []ast.Stmt, out map[string]bool) {
	declared := map[string]bool{}
	var walk func(list []ast.Stmt)
	walk = func(list []ast.Stmt) {
		for _, s := range list {
			switch x := s.(type) {
			case *ast.AssignStmt:
				for _, l := range x.Lhs {
					switch lh := l.(type) {
					case *ast.Ident:
						if x.Tok == token.DEFINE {
							declared[lh.Name] = true
						} else if !declared[lh.Name] {
							out[lname(lh.Name)] = true
						}
					case *ast.SelectorExpr:
						if id, ok := rootIdent(lh.X); ok {
							out[lname(id.Name)] = true
						}
					}
				}
			case *ast.IncDecStmt:
				if id, ok := x.X.(*ast.Ident); ok && !declared[id.Name] {
					out[lname(id.Name)] = true
				}
				if se, ok := x.X.(*ast.SelectorExpr); ok {
					if id, ok := rootIdent(se.X); ok {
						out[lname(id.Name)] = true
					}
				}
			case *ast.DeclStmt:
				if gd, ok := x.Decl.(*ast.GenDecl); ok {
					for _, sp := range gd.Specs {
						if vs, ok := sp.(*ast.ValueSpec); ok {
							for _, n := range vs.Names {
								declared[n.Name] = true
							}
						}
					}
				}
			case *ast.IfStmt:
				walk(x.Body.List)
				if eb, ok := x.Else.(*ast.BlockStmt); ok {
					walk(eb.List)
				}
			}
		}
	}
	walk(stmts)
}

func (t *ptr) assignTo(lhs ast.Expr, rhs string) string {
	switch l := lhs.(type) {
	case *ast.Ident:
		if obj := t.info.ObjectOf(l); obj != nil && obj.Parent() == t.p.Types.Scope() {
			bad("assignment to package-level %s", l.Name)
		}
		return fmt.Sprintf("let %s := %s\n", lname(l.Name), rhs)
	case *ast.SelectorExpr:
		id, ok := rootIdent(l.X)
		if !ok || t.recvObj == nil || t.info.ObjectOf(id) != t.recvObj {
			bad("assignment through %s", nodeString(t.p.Fset, l))
		}
		// the whole path from the receiver: a.B.C = v  /  a promoted field  ->  { a with B.C := v }
		path := ""
		var walk func(e ast.Expr)
		walk = func(e ast.Expr) {
			switch y := e.(type) {
			case *ast.ParenExpr:
				walk(y.X)
			case *ast.SelectorExpr:
				walk(y.X)
				sel := t.info.Selections[y]
				if sel == nil || sel.Kind() != types.FieldVal {
					bad("assignment through %s", nodeString(t.p.Fset, l))
				}
				pp, _ := t.fieldPath(t.info.TypeOf(y.X), sel.Index())
				path += pp
			}
		}
		walk(l)
		if _, ok := leanIntType(t.info.TypeOf(l)); !ok {
			bad("assignment of non-scalar field %s", nodeString(t.p.Fset, l))
		}
		return fmt.Sprintf("let %s := { %s with %s := %s }\n", t.recvName, t.recvName, strings.TrimPrefix(path, "."), rhs)
	}
	bad("assignment target %T", lhs)
	return ""
}

var opAssign = map[token.Token]token.Token{token.ADD_ASSIGN: token.ADD, token.SUB_ASSIGN: token.SUB, token.MUL_ASSIGN: token.MUL,
	token.AND_ASSIGN: token.AND, token.OR_ASSIGN: token.OR, token.XOR_ASSIGN: token.XOR, token.SHL_ASSIGN: token.SHL,
	token.SHR_ASSIGN: token.SHR, token.AND_NOT_ASSIGN: token.AND_NOT, token.QUO_ASSIGN: token.QUO, token.REM_ASSIGN: token.REM}

// block translates stmts followed by continuation k (k == nil means: falling off the end = bare return).
func (t *ptr) block(stmts []ast.Stmt, k func() string) string {
	if len(stmts) == 0 {
		if k != nil {
			return k()
		}
		return t.ret(&ast.ReturnStmt{})
	}
	s := stmts[0]
	rest := func() string { return t.block(stmts[1:], k) }
	if t.enc {
		if out, ok := t.encStmt(s); ok {
			return out + rest()
		}
	}
	switch x := s.(type) {
	case *ast.ReturnStmt:
		return t.ret(x)
	case *ast.AssignStmt:
		if len(x.Lhs) > 1 && len(x.Lhs) == len(x.Rhs) && (x.Tok == token.DEFINE || x.Tok == token.ASSIGN) {
			// parallel assignment: all right-hand sides are evaluated first
			out := ""
			var tmps []string
			for i, r := range x.Rhs {
				tmp := fmt.Sprintf("par_%d_", i)
				tmps = append(tmps, tmp)
				out += fmt.Sprintf("let %s := %s\n", tmp, t.expr(r))
			}
			for i, l := range x.Lhs {
				if id, ok := l.(*ast.Ident); ok && id.Name == "_" {
					continue
				}
				out += t.assignTo(l, tmps[i])
			}
			return out + rest()
		}
		if len(x.Lhs) != 1 || len(x.Rhs) != 1 {
			bad("multi-assignment")
		}
		if x.Tok == token.DEFINE || x.Tok == token.ASSIGN {
			return t.assignTo(x.Lhs[0], t.expr(x.Rhs[0])) + rest()
		}
		op, ok := opAssign[x.Tok]
		if !ok {
			bad("assignment operator %s", x.Tok)
		}
		be := &ast.BinaryExpr{X: x.Lhs[0], Op: op, Y: x.Rhs[0]}
		return t.assignTo(x.Lhs[0], t.binary(be, t.info.TypeOf(x.Lhs[0]))) + rest()
	case *ast.IncDecStmt:
		lt := t.leanType(t.info.TypeOf(x.X))
		op := "+"
		if x.Tok == token.DEC {
			op = "-"
		}
		return t.assignTo(x.X, fmt.Sprintf("(%s %s (1 : %s))", t.expr(x.X), op, lt)) + rest()
	case *ast.DeclStmt:
		gd, ok := x.Decl.(*ast.GenDecl)
		if ok && gd.Tok == token.CONST {
			// local constants are folded into their uses by the type checker
			return rest()
		}
		if !ok || gd.Tok != token.VAR {
			bad("declaration")
		}
		out := ""
		for _, sp := range gd.Specs {
			vs := sp.(*ast.ValueSpec)
			for i, n := range vs.Names {
				lt := t.leanType(t.info.TypeOf(n))
				if len(vs.Values) > i {
					out += fmt.Sprintf("let %s : %s := %s\n", lname(n.Name), lt, t.expr(vs.Values[i]))
				} else if lt == "Bool" {
					out += fmt.Sprintf("let %s : Bool := false\n", lname(n.Name))
				} else if _, isInt := leanIntType(t.info.TypeOf(n)); isInt {
					out += fmt.Sprintf("let %s : %s := 0\n", lname(n.Name), lt)
				} else {
					bad("var of struct type")
				}
			}
		}
		return out + rest()
	case *ast.IfStmt:
		if x.Init != nil {
			bad("if with init")
		}
		var elseList []ast.Stmt
		if x.Else != nil {
			eb, ok := x.Else.(*ast.BlockStmt)
			if !ok {
				bad("else-if")
			}
			elseList = eb.List
		}
		c := t.cond(x.Cond)
		thenRet, elseRet := endsInReturn(x.Body.List), endsInReturn(elseList)
		if thenRet && elseRet {
			return fmt.Sprintf("if %s then\n%s\nelse\n%s", c, indent(t.block(x.Body.List, nil)), indent(t.block(elseList, nil)))
		}
		if thenRet && !containsReturn(&ast.BlockStmt{List: elseList}) {
			return fmt.Sprintf("if %s then\n%s\nelse\n%s", c, indent(t.block(x.Body.List, nil)), indent(t.block(elseList, rest)))
		}
		if containsReturn(x.Body) || containsReturn(&ast.BlockStmt{List: elseList}) {
			bad("return inside a partially returning if")
		}
		vars := map[string]bool{}
		t.assigned(x.Body.List, vars)
		t.assigned(elseList, vars)
		var names []string
		for v := range vars {
			names = append(names, v)
		}
		sort.Strings(names)
		if len(names) == 0 {
			return rest()
		}
		tuple := names[0]
		if len(names) > 1 {
			tuple = "(" + strings.Join(names, ", ") + ")"
		}
		kk := func() string { return tuple }
		return fmt.Sprintf("let %s := if %s then\n%s\nelse\n%s\n%s", tuple, c, indent(t.block(x.Body.List, kk)), indent(t.block(elseList, kk)), rest())
	case *ast.ExprStmt:
		// a call of another method of the same type on the receiver, for its effect on the receiver: c.setFlag(ofs)
		if c, ok := x.X.(*ast.CallExpr); ok {
			if se, ok := c.Fun.(*ast.SelectorExpr); ok {
				if id, ok := se.X.(*ast.Ident); ok && t.recvObj != nil && t.info.ObjectOf(id) == t.recvObj {
					if m := t.methodOnDemand(t.recvType, se.Sel.Name); m != nil && m.mutates && m.nres == 0 {
						var args []string
						for _, a := range c.Args {
							args = append(args, t.expr(a))
						}
						t.mutates = true
						return fmt.Sprintf("let %s := (%s.%s %s %s)\n", t.recvName, t.structLean(t.recvType), lname(se.Sel.Name), t.recvName, strings.Join(args, " ")) + rest()
					}
				}
			}
		}
		bad("statement %T %s", s, nodeString(t.p.Fset, s))
	}
	bad("statement %T", s)
	return ""
}

type methodInfo struct {
	mutates bool
	nres    int
	enc     bool
}

// structLean: Lean name of the struct projection of a Go type name of this package
func (t *ptr) structLean(goName string) string { return goName }

// methodOnDemand makes sure method recv.name is translated (from pureList earlier, or now) and returns its shape.
func (t *ptr) methodOnDemand(recv, name string) *methodInfo {
	key := recv + "." + name
	if mi, ok := t.methods[key]; ok {
		return mi
	}
	if t.depth > 4 {
		return nil
	}
	fd := findFunc(t.p, recv, name)
	if fd == nil || fd.Body == nil {
		return nil
	}
	saved := *t
	t.depth++
	d, err := t.translate(fd, pureSpec{t.p.Types.Name(), recv, name})
	mi := &methodInfo{mutates: t.mutates, enc: t.enc}
	if fd.Type.Results != nil {
		mi.nres = fd.Type.Results.NumFields()
	}
	extra, structs, known, methods := t.extra, t.structs, t.known, t.methods
	*t = saved
	t.extra, t.structs, t.known, t.methods = extra, structs, known, methods
	if err != nil {
		return nil
	}
	t.extra = append(t.extra, d)
	t.methods[key] = mi
	rep.Translated = append(rep.Translated, t.p.Types.Name()+"."+key+" (on demand)")
	return mi
}

func indent(s string) string {
	lines := strings.Split(strings.TrimRight(s, "\n"), "\n")
	for i := range lines {
		lines[i] = "  " + lines[i]
	}
	return strings.Join(lines, "\n")
}

func findFunc(p *packages.Package, recv, name string) *ast.FuncDecl {
	for _, f := range p.Syntax {
		for _, d := range f.Decls {
			fd, ok := d.(*ast.FuncDecl)
			if !ok || fd.Name.Name != name {
				continue
			}
			if recv == "" && fd.Recv == nil {
				return fd
			}
			if recv != "" && fd.Recv != nil && len(fd.Recv.List) == 1 {
				ty := fd.Recv.List[0].Type
				if st, ok := ty.(*ast.StarExpr); ok {
					ty = st.X
				}
				if id, ok := ty.(*ast.Ident); ok && id.Name == recv {
					return fd
				}
			}
		}
	}
	return nil
}

// onDemand translates the plain function `name` of the current package while another function is being translated;
// the caller's translation state is saved and restored. On success the definition is queued in t.extra.
func (t *ptr) onDemand(name string) {
	if t.depth > 4 {
		return
	}
	fd := findFunc(t.p, "", name)
	if fd == nil || fd.Body == nil {
		return
	}
	saved := *t
	t.depth++
	d, err := t.translate(fd, pureSpec{t.p.Types.Name(), "", name})
	extra, structs, known := t.extra, t.structs, t.known
	*t = saved
	t.extra, t.structs, t.known = extra, structs, known
	if err == nil {
		t.extra = append(t.extra, d)
		t.known[name] = true
		rep.Translated = append(rep.Translated, t.p.Types.Name()+"."+name+" (on demand)")
	}
}

func (t *ptr) translate(fd *ast.FuncDecl, sp pureSpec) (def string, err error) {
	defer func() {
		if r := recover(); r != nil {
			if u, ok := r.(unsupported); ok {
				err = fmt.Errorf("%s", u.msg)
				return
			}
			panic(r)
		}
	}()
	t.recvObj, t.recvName, t.recvType, t.mutates, t.results = nil, "", "", false, nil
	t.enc, t.cursors, t.fresh, t.bytesRes = false, map[string]bool{}, map[string]bool{}, ""
	if rs := fd.Type.Results; fd.Recv != nil && fd.Type.Params.NumFields() == 0 && rs != nil && rs.NumFields() == 2 {
		var tys []types.Type
		var names []string
		for _, f := range rs.List {
			k := len(f.Names)
			if k == 0 {
				k = 1
				names = append(names, "")
			}
			for i := 0; i < k; i++ {
				tys = append(tys, t.info.TypeOf(f.Type))
			}
			for _, n := range f.Names {
				names = append(names, n.Name)
			}
		}
		if len(tys) == 2 && isBytesType(tys[0]) && isErrorType(tys[1]) {
			t.enc = true
			t.bytesRes = names[0]
		}
	}
	var params []string
	if fd.Recv != nil {
		r := fd.Recv.List[0]
		if len(r.Names) == 1 {
			t.recvObj = t.info.Defs[r.Names[0]]
			t.recvName = lname(r.Names[0].Name)
		} else {
			t.recvName = "self"
		}
		t.recvType = sp.recv
		sn, ok := t.structName(t.info.TypeOf(r.Type))
		if !ok {
			bad("receiver type")
		}
		params = append(params, fmt.Sprintf("(%s : %s)", t.recvName, sn))
		// does the body write a receiver field?
		ast.Inspect(fd.Body, func(n ast.Node) bool {
			var lhs []ast.Expr
			switch a := n.(type) {
			case *ast.AssignStmt:
				lhs = a.Lhs
			case *ast.IncDecStmt:
				lhs = []ast.Expr{a.X}
			case *ast.ExprStmt:
				// recv.helper(...) called for its effect on the receiver
				if c, ok := a.X.(*ast.CallExpr); ok {
					if se, ok := c.Fun.(*ast.SelectorExpr); ok {
						if id, ok := se.X.(*ast.Ident); ok && t.recvObj != nil && t.info.ObjectOf(id) == t.recvObj {
							t.mutates = true
						}
					}
				}
			}
			for _, l := range lhs {
				if se, ok := l.(*ast.SelectorExpr); ok {
					if id, ok := rootIdent(se.X); ok && t.recvObj != nil && t.info.ObjectOf(id) == t.recvObj {
						t.mutates = true
					}
				}
			}
			return true
		})
	}
	for _, f := range fd.Type.Params.List {
		lt := t.leanType(t.info.TypeOf(f.Type))
		for _, n := range f.Names {
			params = append(params, fmt.Sprintf("(%s : %s)", lname(n.Name), lt))
		}
	}
	var resTypes []string
	pre := ""
	if t.enc {
		rt := "(List UInt8)"
		if t.mutates {
			rt = "(List UInt8 × " + t.recvType + ")"
		}
		pre := ""
		if t.bytesRes != "" {
			pre = fmt.Sprintf("let %s : List UInt8 := []\n", lname(t.bytesRes))
		}
		body := "do\n" + pre + t.block(fd.Body.List, nil)
		return fmt.Sprintf("def %s.%s %s : Go.Res %s :=\n%s\n", sp.recv, lname(sp.name), strings.Join(params, " "), rt, indent(body)), nil
	}
	if fd.Type.Results != nil {
		for _, f := range fd.Type.Results.List {
			lt := t.leanType(t.info.TypeOf(f.Type))
			if len(f.Names) == 0 {
				resTypes = append(resTypes, lt)
			}
			for _, n := range f.Names {
				resTypes = append(resTypes, lt)
				t.results = append(t.results, t.info.Defs[n].(*types.Var))
				if lt == "Bool" {
					pre += fmt.Sprintf("let %s : Bool := false\n", lname(n.Name))
				} else {
					pre += fmt.Sprintf("let %s : %s := 0\n", lname(n.Name), lt)
				}
			}
		}
	}
	if t.mutates {
		resTypes = append(resTypes, t.recvType)
	}
	rt := "Unit"
	if len(resTypes) > 0 {
		rt = strings.Join(resTypes, " × ")
	}
	body := pre + t.block(fd.Body.List, nil)
	name := lname(sp.name)
	if sp.recv != "" {
		name = sp.recv + "." + lname(sp.name)
	}
	return fmt.Sprintf("def %s %s : %s :=\n%s\n", name, strings.Join(params, " "), rt, indent(body)), nil
}

// ---- straight-line encoders (byte-builder idiom) ------------------------------------------------

// natExpr: a non-negative integer expression (buffer size, offset, cursor increment) as a Lean Nat.
func (t *ptr) natExpr(e ast.Expr) string {
	tv := t.info.Types[e]
	if tv.Value != nil && tv.Value.Kind() == constant.Int {
		if constant.Sign(tv.Value) < 0 {
			bad("negative size/offset")
		}
		return tv.Value.ExactString()
	}
	switch x := e.(type) {
	case *ast.ParenExpr:
		return t.natExpr(x.X)
	case *ast.Ident:
		if t.cursors[x.Name] {
			return lname(x.Name)
		}
	case *ast.BinaryExpr:
		if x.Op == token.ADD {
			return "(" + t.natExpr(x.X) + " + " + t.natExpr(x.Y) + ")"
		}
	case *ast.CallExpr:
		if id, ok := x.Fun.(*ast.Ident); ok && id.Name == "len" && len(x.Args) == 1 {
			if _, isB := t.info.Uses[id].(*types.Builtin); isB {
				return "(" + t.bytesExpr(x.Args[0]) + ").length"
			}
		}
		if ftv, ok := t.info.Types[x.Fun]; ok && ftv.IsType() && len(x.Args) == 1 {
			// int(u) of an unsigned value: exact
			if lt, ok := leanIntType(t.info.TypeOf(x.Args[0])); ok && width(lt) != "" {
				if to, ok := leanIntType(ftv.Type); ok && (to == "Int64" || to == "UInt64") && width(lt) != "64" {
					return t.natExpr(x.Args[0])
				}
			}
		}
	}
	if lt, ok := leanIntType(tv.Type); ok && width(lt) != "" {
		return "(" + t.expr(e) + ").toNat"
	}
	bad("size/offset expression %s", nodeString(t.p.Fset, e))
	return ""
}

// bytesExpr: a []byte value that is read: a local, a byte field of a struct, or one of those re-sliced from 0 (x[0:], x[:]).
func (t *ptr) bytesExpr(e ast.Expr) string {
	switch x := e.(type) {
	case *ast.ParenExpr:
		return t.bytesExpr(x.X)
	case *ast.SliceExpr:
		if x.High == nil && x.Max == nil && isBytesType(t.info.TypeOf(x.X)) {
			if x.Low == nil {
				return t.bytesExpr(x.X)
			}
			if v := t.info.Types[x.Low].Value; v != nil && constant.Sign(v) == 0 {
				return t.bytesExpr(x.X)
			}
		}
	case *ast.Ident:
		if v, ok := t.info.ObjectOf(x).(*types.Var); ok && isBytesType(v.Type()) && v.Parent() != t.p.Types.Scope() {
			return lname(x.Name)
		}
	case *ast.SelectorExpr:
		if isBytesType(t.info.TypeOf(x)) {
			return t.expr(x)
		}
	}
	bad("byte-slice expression %s", nodeString(t.p.Fset, e))
	return ""
}

// target: the destination of a write: x, x[lo:], x[lo:hi], x[:hi] with x a local buffer.
func (t *ptr) target(e ast.Expr) (name, lo, hi string) {
	lo = "0"
	if se, ok := e.(*ast.SliceExpr); ok {
		if se.Max != nil {
			bad("3-index slice")
		}
		if se.Low != nil {
			lo = t.natExpr(se.Low)
		}
		if se.High != nil {
			hi = t.natExpr(se.High)
		}
		e = se.X
	}
	id, ok := e.(*ast.Ident)
	if !ok {
		bad("write target %s", nodeString(t.p.Fset, e))
	}
	v, ok := t.info.ObjectOf(id).(*types.Var)
	if !ok || !isBytesType(v.Type()) || v.Parent() == t.p.Types.Scope() {
		bad("write target %s", id.Name)
	}
	if _, isSlice := v.Type().Underlying().(*types.Slice); !isSlice {
		bad("write target %s is an array", id.Name)
	}
	if hi != "" && !t.fresh[id.Name] {
		bad("%s[lo:hi] of a buffer whose capacity is unknown", id.Name)
	}
	return lname(id.Name), lo, hi
}

func builtinCall(info *types.Info, c *ast.CallExpr, name string) bool {
	id, ok := c.Fun.(*ast.Ident)
	if !ok || id.Name != name {
		return false
	}
	_, isB := info.Uses[id].(*types.Builtin)
	return isB
}

// encStmt translates one statement of the byte-builder idiom; ok=false hands the statement to the general translator.
func (t *ptr) encStmt(s ast.Stmt) (string, bool) {
	isErrIdent := func(e ast.Expr) bool {
		id, ok := e.(*ast.Ident)
		if !ok {
			return false
		}
		if id.Name == "_" {
			return true
		}
		o := t.info.ObjectOf(id)
		return o != nil && isErrorType(o.Type())
	}
	switch x := s.(type) {
	case *ast.IfStmt:
		// if err != nil { return … }: err only ever comes from an encoder of the subset, which returns nil
		if be, ok := x.Cond.(*ast.BinaryExpr); ok && x.Init == nil && x.Else == nil && be.Op == token.NEQ && isErrIdent(be.X) {
			if id, ok := be.Y.(*ast.Ident); ok && id.Name == "nil" && len(x.Body.List) == 1 {
				if _, ok := x.Body.List[0].(*ast.ReturnStmt); ok {
					return "", true
				}
			}
		}
		bad("if inside an encoder")
	case *ast.DeclStmt:
		gd, ok := x.Decl.(*ast.GenDecl)
		if ok && gd.Tok == token.VAR && len(gd.Specs) == 1 {
			vs := gd.Specs[0].(*ast.ValueSpec)
			if len(vs.Names) == 1 && len(vs.Values) == 0 && isBytesType(t.info.TypeOf(vs.Names[0])) {
				t.fresh[vs.Names[0].Name] = false
				return fmt.Sprintf("let %s : List UInt8 := []\n", lname(vs.Names[0].Name)), true
			}
		}
	case *ast.IncDecStmt:
		if id, ok := x.X.(*ast.Ident); ok && t.cursors[id.Name] && x.Tok == token.INC {
			return fmt.Sprintf("let %s := %s + 1\n", lname(id.Name), lname(id.Name)), true
		}
	case *ast.ExprStmt:
		c, ok := x.X.(*ast.CallExpr)
		if !ok {
			return "", false
		}
		if builtinCall(t.info, c, "copy") && len(c.Args) == 2 {
			name, lo, hi := t.target(c.Args[0])
			src := t.bytesExpr(c.Args[1])
			if hi != "" {
				return fmt.Sprintf("let %s ← Go.Buf.copyIn %s %s %s %s\n", name, name, lo, hi, src), true
			}
			return fmt.Sprintf("let %s ← Go.Buf.copy %s %s %s\n", name, name, lo, src), true
		}
		if se, ok := c.Fun.(*ast.SelectorExpr); ok && len(c.Args) == 2 {
			if fn, ok := t.info.Uses[se.Sel].(*types.Func); ok && fn.Pkg() != nil && fn.Pkg().Path() == "encoding/binary" {
				if in, ok := se.X.(*ast.SelectorExpr); ok && in.Sel.Name == "BigEndian" {
					be := map[string]string{"PutUint16": "be16", "PutUint32": "be32", "PutUint64": "be64"}[se.Sel.Name]
					if be == "" {
						bad("binary.BigEndian.%s", se.Sel.Name)
					}
					name, lo, hi := t.target(c.Args[0])
					val := t.expr(c.Args[1])
					if hi != "" {
						return fmt.Sprintf("let %s ← Go.Buf.putIn %s %s %s (%s %s)\n", name, name, lo, hi, be, val), true
					}
					return fmt.Sprintf("let %s ← Go.Buf.put %s %s (%s %s)\n", name, name, lo, be, val), true
				}
			}
		}
	case *ast.AssignStmt:
		// x, err = r.Embedded.MarshalBinary()
		if len(x.Lhs) == 2 && len(x.Rhs) == 1 && (x.Tok == token.ASSIGN || x.Tok == token.DEFINE) && isErrIdent(x.Lhs[1]) {
			id, ok := x.Lhs[0].(*ast.Ident)
			c, ok2 := x.Rhs[0].(*ast.CallExpr)
			if ok && ok2 && isBytesType(t.info.TypeOf(id)) {
				if se, ok := c.Fun.(*ast.SelectorExpr); ok && len(c.Args) == 0 {
					if sel := t.info.Selections[se]; sel != nil && sel.Kind() == types.MethodVal && len(sel.Index()) == 1 {
						if sn, ok := t.structName(t.info.TypeOf(se.X)); ok {
							o, bare, _, _ := t.owner(t.info.TypeOf(se.X))
							var m *methodInfo
							if o == t {
								savedEnc, savedCur, savedFresh, savedRes := t.enc, t.cursors, t.fresh, t.bytesRes
								m = t.methodOnDemand(bare, se.Sel.Name)
								t.enc, t.cursors, t.fresh, t.bytesRes = savedEnc, savedCur, savedFresh, savedRes
							} else {
								m = o.methods[bare+"."+se.Sel.Name]
							}
							if m == nil || !m.enc || m.mutates {
								bad("call %s (not a translated non-mutating encoder)", nodeString(t.p.Fset, c.Fun))
							}
							t.fresh[id.Name] = false
							return fmt.Sprintf("let %s ← (%s.%s %s)\n", lname(id.Name), sn, lname(se.Sel.Name), t.expr(se.X)), true
						}
					}
				}
			}
			bad("two-valued assignment %s", nodeString(t.p.Fset, x))
		}
		if len(x.Lhs) != 1 || len(x.Rhs) != 1 {
			return "", false
		}
		// x[i] = v
		if ix, ok := x.Lhs[0].(*ast.IndexExpr); ok && x.Tok == token.ASSIGN {
			name, _, _ := t.target(ix.X)
			return fmt.Sprintf("let %s ← Go.Buf.set %s %s %s\n", name, name, t.natExpr(ix.Index), t.expr(x.Rhs[0])), true
		}
		id, ok := x.Lhs[0].(*ast.Ident)
		if !ok {
			return "", false
		}
		obj, _ := t.info.ObjectOf(id).(*types.Var)
		if obj == nil || obj.Parent() == t.p.Types.Scope() {
			return "", false
		}
		if isBytesType(obj.Type()) {
			if x.Tok != token.ASSIGN && x.Tok != token.DEFINE {
				bad("operator assignment to a buffer")
			}
			c, ok := x.Rhs[0].(*ast.CallExpr)
			if !ok {
				bad("buffer assigned from %s", nodeString(t.p.Fset, x.Rhs[0]))
			}
			if builtinCall(t.info, c, "make") && (len(c.Args) == 2 || len(c.Args) == 3) {
				if len(c.Args) == 3 {
					bad("make with capacity")
				}
				t.fresh[id.Name] = true
				return fmt.Sprintf("let %s := Go.Buf.make %s\n", lname(id.Name), t.natExpr(c.Args[1])), true
			}
			if builtinCall(t.info, c, "append") && len(c.Args) >= 2 {
				base := t.bytesExpr(c.Args[0])
				t.fresh[id.Name] = false
				if c.Ellipsis.IsValid() {
					if len(c.Args) != 2 {
						bad("append shape")
					}
					return fmt.Sprintf("let %s := %s ++ %s\n", lname(id.Name), base, t.bytesExpr(c.Args[1])), true
				}
				var els []string
				for _, a := range c.Args[1:] {
					els = append(els, t.expr(a))
				}
				return fmt.Sprintf("let %s := %s ++ [%s]\n", lname(id.Name), base, strings.Join(els, ", ")), true
			}
			bad("buffer assigned from %s", nodeString(t.p.Fset, x.Rhs[0]))
		}
		// cursors: every local of Go type int
		if b, ok := obj.Type().Underlying().(*types.Basic); ok && b.Kind() == types.Int {
			switch x.Tok {
			case token.DEFINE:
				t.cursors[id.Name] = true
				return fmt.Sprintf("let %s : Nat := %s\n", lname(id.Name), t.natExpr(x.Rhs[0])), true
			case token.ADD_ASSIGN:
				if t.cursors[id.Name] {
					return fmt.Sprintf("let %s := %s + %s\n", lname(id.Name), lname(id.Name), t.natExpr(x.Rhs[0])), true
				}
			}
			bad("cursor statement %s", nodeString(t.p.Fset, x))
		}
	}
	return "", false
}

func genPure(pk map[string]*packages.Package) string {
	var sb strings.Builder
	sb.WriteString("-- GENERATED by ofvextract from /repo; do not edit.\n-- Transliteration of straight-line integer helpers (Go int = Int64, uintN = UIntN, wrap-around arithmetic).\nimport OFV.Go.Ints\nimport OFV.Go.Buf\nnamespace OFV.Gen\nopen OFV\n")
	// phase 1: translate, package by package (a later package may register structs in an earlier one)
	allPtr = map[string]*ptr{}
	pdefs := map[string][]string{}
	for _, pn := range pkgNames {
		p := pk[pn]
		t := &ptr{p: p, info: p.TypesInfo, known: map[string]bool{}, structs: map[string]*types.Struct{}, methods: map[string]*methodInfo{},
			nested: map[string]map[string]string{}}
		allPtr[pn] = t
		if os.Getenv("OFVEXTRACT_PROBE") != "" {
			probeAll(t)
		}
		var defs []string
		for _, sp := range pureList {
			if sp.pkg != pn {
				continue
			}
			key := sp.pkg + "." + sp.name
			if sp.recv != "" {
				key = sp.pkg + "." + sp.recv + "." + sp.name
			}
			if sp.recv == "" && t.known[sp.name] {
				// already emitted on demand, ahead of an earlier caller
				rep.Translated = append(rep.Translated, key)
				continue
			}
			if _, done := t.methods[sp.recv+"."+sp.name]; sp.recv != "" && done {
				// a method already emitted on demand, ahead of an earlier caller
				rep.Translated = append(rep.Translated, key)
				continue
			}
			fd := findFunc(p, sp.recv, sp.name)
			if fd == nil {
				rep.Opaque[key] = "function not found"
				defs = append(defs, fmt.Sprintf("-- opaque_changed %s: function not found\n", key))
				continue
			}
			d, err := t.translate(fd, sp)
			if err != nil {
				rep.Opaque[key] = err.Error()
				defs = append(defs, fmt.Sprintf("-- opaque_changed %s: %s\n", key, err.Error()))
				t.extra = nil
				continue
			}
			if sp.recv == "" {
				t.known[sp.name] = true
			} else {
				nres := 0
				if fd.Type.Results != nil {
					nres = fd.Type.Results.NumFields()
				}
				t.methods[sp.recv+"."+sp.name] = &methodInfo{mutates: t.mutates, nres: nres, enc: t.enc}
			}
			rep.Translated = append(rep.Translated, key)
			defs = append(defs, t.extra...)
			t.extra = nil
			defs = append(defs, d)
		}
		pdefs[pn] = defs
	}
	// phase 2: emit
	for _, pn := range pkgNames {
		t, defs := allPtr[pn], pdefs[pn]
		if len(defs) == 0 && len(t.structs) == 0 {
			continue
		}
		fmt.Fprintf(&sb, "\nnamespace %s\n\n", pn)
		var names []string
		for n := range t.structs {
			names = append(names, n)
		}
		sort.Strings(names)
		// a struct that carries another struct of this package comes after it
		var order []string
		state := map[string]int{}
		var visit func(n string)
		visit = func(n string) {
			if state[n] != 0 {
				return // done, or a cycle (cannot be emitted; Lean will reject the file and the tie is reported broken)
			}
			state[n] = 1
			var fs []string
			for f := range t.nested[n] {
				fs = append(fs, f)
			}
			sort.Strings(fs)
			for _, f := range fs {
				if dep := t.nested[n][f]; !strings.Contains(dep, ".") {
					if _, ok := t.structs[dep]; ok {
						visit(dep)
					}
				}
			}
			state[n] = 2
			order = append(order, n)
		}
		for _, n := range names {
			visit(n)
		}
		for _, n := range order {
			st := t.structs[n]
			fmt.Fprintf(&sb, "/-- scalar projection of Go struct %s.%s -/\nstructure %s where\n", pn, n, n)
			cnt := 0
			for i := 0; i < st.NumFields(); i++ {
				f := st.Field(i)
				lt, ok := leanIntType(f.Type())
				if !ok {
					if nt, used := t.nested[n][f.Name()]; used {
						// a struct-valued (or pointer-to-struct) field that translated code goes through; a pointer is
						// taken to be non-nil
						if strings.HasPrefix(nt, "List ") {
							fmt.Fprintf(&sb, "  %s : %s := []\n", lname(f.Name()), nt)
						} else {
							fmt.Fprintf(&sb, "  %s : %s := {}\n", lname(f.Name()), nt)
						}
						cnt++
					}
					continue
				}
				if lt == "Bool" {
					fmt.Fprintf(&sb, "  %s : Bool := false\n", lname(f.Name()))
				} else {
					fmt.Fprintf(&sb, "  %s : %s := 0\n", lname(f.Name()), lt)
				}
				cnt++
			}
			if cnt == 0 {
				sb.WriteString("  unit_ : Unit := ()\n")
			}
			sb.WriteString("deriving DecidableEq, Repr\n\n")
		}
		for _, d := range defs {
			sb.WriteString(d)
			sb.WriteString("\n")
		}
		fmt.Fprintf(&sb, "end %s\n", pn)
	}
	sb.WriteString("\nend OFV.Gen\n")
	return sb.String()
}

// probeAll (developer aid, OFVEXTRACT_PROBE=1): tries every function of the package and lists on stderr the ones inside
// the translated subset; the translation state is discarded.
func probeAll(t *ptr) {
	for _, f := range t.p.Syntax {
		if strings.HasSuffix(t.p.Fset.Position(f.Pos()).Filename, "_test.go") {
			continue
		}
		for _, d := range f.Decls {
			fd, ok := d.(*ast.FuncDecl)
			if !ok || fd.Body == nil {
				continue
			}
			recv := ""
			if fd.Recv != nil && len(fd.Recv.List) == 1 {
				ty := fd.Recv.List[0].Type
				if st, ok := ty.(*ast.StarExpr); ok {
					ty = st.X
				}
				if id, ok := ty.(*ast.Ident); ok {
					recv = id.Name
				} else {
					continue
				}
			}
			pt := &ptr{p: t.p, info: t.info, known: map[string]bool{}, structs: map[string]*types.Struct{}, methods: map[string]*methodInfo{},
				nested: map[string]map[string]string{}}
			nTr := len(rep.Translated)
			_, err := pt.translate(fd, pureSpec{t.p.Types.Name(), recv, fd.Name.Name})
			rep.Translated = rep.Translated[:nTr]
			if err == nil {
				fmt.Fprintf(os.Stderr, "PROBE ok %s %s %s\n", t.p.Types.Name(), recv, fd.Name.Name)
			} else {
				fmt.Fprintf(os.Stderr, "PROBE no %s %s %s: %s\n", t.p.Types.Name(), recv, fd.Name.Name, err)
			}
		}
	}
}
