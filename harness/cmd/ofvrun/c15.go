package main

import (
	"encoding/hex"
	"fmt"
	"os"
	"regexp"
	"runtime"
	"strings"
	"sync"
	"sync/atomic"

	of "github.com/contiv/libOpenflow/openflow13"
)

func b2i(b bool) int {
	if b {
		return 1
	}
	return 0
}

func showHdr(h *of.MatchField) string {
	return fmt.Sprintf("%d %d %d %d", h.Class, h.Field, b2i(h.HasMask), h.Length)
}

// namesFrom extracts quoted names ("NXM_…"/"OXM_…") from a Lean table file.
func namesFrom(path string) []string {
	b, err := os.ReadFile(path)
	if err != nil {
		return nil
	}
	re := regexp.MustCompile(`\("([A-Z0-9_]+)",`)
	var out []string
	for _, m := range re.FindAllStringSubmatch(string(b), -1) {
		out = append(out, m[1])
	}
	return out
}

func mixCase(s string, c *Ctx) string {
	b := []byte(strings.ToLower(s))
	for i := range b {
		if c.rng.Intn(2) == 0 && b[i] >= 'a' && b[i] <= 'z' {
			b[i] -= 32
		}
	}
	return string(b)
}

func init() {
	runners["find"] = func(a []string) string {
		h, err := of.FindFieldHeaderByName(a[0], a[1] == "1")
		if err != nil {
			return "err"
		}
		return showHdr(h)
	}
	// parsenoise <seed>: the process parses traffic of every switch-side kind (incl. TLV-table replies mapping every
	// tun_metadata index with assorted option lengths, bundle replies, flow-stats with every field kind); the registry
	// sweep that follows in the family must give what it gave before
	runners["parsenoise"] = func(a []string) string {
		g := &swGen{r: newRand(int64(atoi(a[0])))}
		n := 0
		for k := 0; k < swKinds; k++ {
			for i := 0; i < 6; i++ {
				fr, _ := g.message(k)
				func() {
					defer func() { recover() }()
					of.Parse(fr)
				}()
				n++
			}
		}
		for ix := 0; ix < 8; ix++ {
			for _, ol := range []int{4, 8, 64, 124, 128} {
				b := nb().u32(0x2320, 26).u32(256).u16(8).z(10).u16(0x0102).u8(ix, ol).u16(ix).z(2).b
				fr := nb().u8(4, 4).u16(8 + len(b)).u32(uint32(ix)).raw(b).b
				func() {
					defer func() { recover() }()
					of.Parse(fr)
				}()
				n++
			}
		}
		return fmt.Sprintf("ok %d", n)
	}
	runners["findmut"] = func(a []string) string {
		m := a[1] == "1"
		h1, err := of.FindFieldHeaderByName(a[0], m)
		if err != nil {
			return "err"
		}
		h2, _ := of.FindFieldHeaderByName(a[0], m)
		// overwrite the first result completely, concurrently with a further lookup
		var wg sync.WaitGroup
		wg.Add(2)
		var h3 *of.MatchField
		go func() {
			defer wg.Done()
			h1.Class, h1.Field, h1.Length, h1.HasMask = 0xdead, 0x7f, 0xee, !m
			h1.Value, h1.Mask = &of.Uint32Message{}, &of.Uint32Message{}
		}()
		go func() {
			defer wg.Done()
			h3, _ = of.FindFieldHeaderByName(a[0], m)
		}()
		wg.Wait()
		return showHdr(h2) + " | " + showHdr(h3)
	}
	runners["hdr"] = func(a []string) string {
		data, _ := hex.DecodeString(a[0])
		if a[0] == "-" {
			data = nil
		}
		var h of.MatchField
		if err := h.UnmarshalHeader(data); err != nil {
			return "err"
		}
		return fmt.Sprintf("%s %08x", showHdr(&h), h.MarshalHeader())
	}
	// hdr2 <w1> <w2>: the same receiver unpacks w1, then w2 (a receiver that held another header before): the result
	// must be w2's fields and pack back to w2
	runners["hdr2"] = func(a []string) string {
		d1, _ := hex.DecodeString(a[0])
		d2, _ := hex.DecodeString(a[1])
		var h of.MatchField
		if err := h.UnmarshalHeader(d1); err != nil {
			return "err1"
		}
		if err := h.UnmarshalHeader(d2); err != nil {
			return "err"
		}
		return fmt.Sprintf("%s %08x", showHdr(&h), h.MarshalHeader())
	}
	runners["pack"] = func(a []string) string {
		h := of.MatchField{Class: uint16(atoi(a[0])), Field: uint8(atoi(a[1])), HasMask: a[2] == "1", Length: uint8(atoi(a[3]))}
		return fmt.Sprintf("%08x", h.MarshalHeader())
	}
	runners["hdrsweep"] = func(a []string) string {
		// every one of the 2^32 header words: unpack, pack, compare (all cores)
		nw := runtime.NumCPU()
		var bad atomic.Int64
		bad.Store(-1)
		var wg sync.WaitGroup
		for w := 0; w < nw; w++ {
			wg.Add(1)
			go func(w int) {
				defer wg.Done()
				var buf [4]byte
				for x := uint64(w); x < 1<<32; x += uint64(nw) {
					v := uint32(x)
					buf[0], buf[1], buf[2], buf[3] = byte(v>>24), byte(v>>16), byte(v>>8), byte(v)
					var h of.MatchField
					if h.UnmarshalHeader(buf[:]) != nil || h.MarshalHeader() != v ||
						h.Class != uint16(v>>16) || h.Field != uint8(v>>9&0x7f) || h.HasMask != (v>>8&1 == 1) || h.Length != uint8(v) {
						bad.CompareAndSwap(-1, int64(v))
						return
					}
				}
			}(w)
		}
		wg.Wait()
		if b := bad.Load(); b >= 0 {
			return fmt.Sprintf("bad-word-%08x", b)
		}
		return "ok"
	}
	families["C15"] = func(c *Ctx) {
		seen := map[string]bool{}
		var names []string
		for _, p := range []string{verifRoot() + "/lean/OFV/Spec/Oxm.lean", verifRoot() + "/lean/OFV/Gen/Registry.lean"} {
			for _, n := range namesFrom(p) {
				if !seen[n] {
					seen[n] = true
					names = append(names, n)
				}
			}
		}
		// the registry before, and again after the process has parsed a peer's traffic (no decoder leaves state in it)
		for pass := 0; pass < 2; pass++ {
			if pass == 1 {
				c.run("parsenoise", c.rng.Intn(100000))
			}
			for _, n := range names {
				for _, m := range []int{0, 1} {
					c.run("find", n, m)
				}
			}
		}
		for _, n := range names {
			for _, m := range []int{0, 1} {
				c.run("find", n, m)
				c.run("find", strings.ToLower(n), m)
				c.run("find", mixCase(n, c), m)
				c.run("findmut", n, m)
				// near misses
				c.run("find", n+"_", m)
				c.run("find", n[:len(n)-1], m)
				c.run("find", strings.Replace(n, "_", "", 1), m)
			}
		}
		for _, n := range []string{"x", "NXM", "OXM_OF_", "NXM_NX_REG16", "NXM_NX_XXREG4", "OXM_OF_PBB_UCA", "nxm_nx_reg-1", "NXM_NX_REG0 "} {
			c.run("find", strings.ReplaceAll(n, " ", "%"), 0)
			c.run("find", strings.ReplaceAll(n, " ", "%"), 1)
		}
		// header words: boundary bytes in every position, then random
		edge := []byte{0, 1, 2, 0x7f, 0x80, 0xfe, 0xff}
		for _, a := range edge {
			for _, b := range edge {
				for _, d := range edge {
					for _, e := range edge {
						c.run("hdr", hex.EncodeToString([]byte{a, b, d, e}))
					}
				}
			}
		}
		for i := 0; i < 256; i++ { // every value of the packed byte
			c.run("hdr", hex.EncodeToString([]byte{0x80, 0x00, byte(i), 4}))
			c.run("pack", 0x8000, i>>1, i&1, 4)
			c.run("pack", c.rng.Intn(65536), i, c.rng.Intn(2), c.rng.Intn(256)) // includes field ≥ 128 (correspondence only)
		}
		n := 20000
		if c.thorough() {
			n = 400000
		}
		for i := 0; i < n; i++ {
			w := c.rng.Uint32()
			c.run("hdr", fmt.Sprintf("%08x", w))
			c.run("pack", w>>16, w>>9&0x7f, w>>8&1, w&0xff)
		}
		// a receiver that already held a header: every combination of mask bits, then random pairs
		for _, w1 := range []uint32{0x80000004, 0x80000108, 0x0001d704, 0xffffffff, 0} {
			for _, w2 := range []uint32{0x80000004, 0x80000108, 0x0001d604, 0x0001d708, 0xffffffff, 0, 0x80007e00} {
				c.run("hdr2", fmt.Sprintf("%08x", w1), fmt.Sprintf("%08x", w2))
			}
		}
		for i := 0; i < n/10; i++ {
			c.run("hdr2", fmt.Sprintf("%08x", c.rng.Uint32()), fmt.Sprintf("%08x", c.rng.Uint32()))
		}
		for _, s := range []string{"-", "00", "8000", "800006", "80000604ff", "8000060412345678"} {
			c.run("hdr", s)
		}
		if c.thorough() {
			c.run("hdrsweep")
		}
	}
}

var rowRe = regexp.MustCompile(`\("([A-Z0-9_]+)", *[0-9x]+, *[0-9]+, *([0-9]+)\)`)

func readFile(p string) (string, error) {
	b, err := os.ReadFile(p)
	return string(b), err
}
