// ofvrun generates the cases of one op family, runs each on the real library (in-process, under recover)
// and writes the trace  "<case> => <implementation output>"  that ofvdriver replays on the Lean model.
package main

import (
	"bufio"
	"flag"
	"fmt"
	"math/rand"
	"os"
	"sort"
	"strings"
)

type Ctx struct {
	w     *bufio.Writer
	rng   *rand.Rand
	tier  string
	n     int
	stats map[string]int
	queue []string                       // case lines waiting for execution (isolated families)
	iso   bool                           // run cases in worker subprocesses (panic/spin/oom isolation)
	only  map[string]bool                // keep only these ops (nil: all)
	sink  func(op string, toks []string) // when set, cases are handed to sink instead of being executed
}

func (c *Ctx) thorough() bool { return c.tier == "thorough" }

// emit writes one trace line; out must be a single line.
func (c *Ctx) emit(cs string, out string) {
	fmt.Fprintf(c.w, "%s => %s\n", cs, out)
	c.n++
	op := cs
	if i := strings.IndexByte(cs, ' '); i >= 0 {
		op = cs[:i]
	}
	c.stats[op]++
}

// guard runs f, mapping a panic to the observation "panic".
func guard(f func() string) (out string) {
	defer func() {
		if r := recover(); r != nil {
			out = "panic"
		}
	}()
	return f()
}

var families = map[string]func(*Ctx){}

func newRand(seed int64) *rand.Rand { return rand.New(rand.NewSource(seed)) }

func main() {
	fam := flag.String("family", "", "op family (property id)")
	tier := flag.String("tier", "quick", "quick|thorough")
	seed := flag.Int64("seed", 1, "PRNG seed")
	out := flag.String("out", "", "trace file")
	replay := flag.String("replay", "", "re-run the cases of a replay/corpus file instead of generating")
	worker := flag.Bool("worker", false, "internal: execute case lines from stdin, one result line each")
	ops := flag.String("ops", "", "comma-separated op names to keep (default: all)")
	flag.Parse()
	if *worker {
		workerMain()
		return
	}
	f, ok := families[*fam]
	if !ok {
		var names []string
		for k := range families {
			names = append(names, k)
		}
		sort.Strings(names)
		fmt.Fprintln(os.Stderr, "unknown family; have", names)
		os.Exit(2)
	}
	of, err := os.Create(*out)
	if err != nil {
		fmt.Fprintln(os.Stderr, err)
		os.Exit(2)
	}
	ctx := &Ctx{w: bufio.NewWriterSize(of, 1<<20), rng: rand.New(rand.NewSource(*seed)), tier: *tier, stats: map[string]int{}, iso: isolated[*fam]}
	if *ops != "" {
		ctx.only = map[string]bool{}
		for _, o := range strings.Split(*ops, ",") {
			ctx.only[o] = true
		}
	}
	if *replay != "" {
		replayFile(ctx, *fam, *replay)
	} else {
		f(ctx)
	}
	if len(ctx.queue) > 0 {
		runPool(ctx)
	}
	ctx.w.Flush()
	of.Close()
	var ks []string
	for k := range ctx.stats {
		ks = append(ks, k)
	}
	sort.Strings(ks)
	fmt.Printf("cases=%d", ctx.n)
	for _, k := range ks {
		fmt.Printf(" %s=%d", k, ctx.stats[k])
	}
	fmt.Println()
}

// runners maps an op name to the function executing one case line (used by replay).
var runners = map[string]func(args []string) string{}

func replayFile(c *Ctx, fam, path string) {
	f, err := os.Open(path)
	if err != nil {
		fmt.Fprintln(os.Stderr, err)
		os.Exit(2)
	}
	defer f.Close()
	sc := bufio.NewScanner(f)
	sc.Buffer(make([]byte, 1<<20), 1<<26)
	for sc.Scan() {
		line := strings.TrimSpace(sc.Text())
		if line == "" || strings.HasPrefix(line, "#") {
			continue
		}
		if i := strings.Index(line, " => "); i >= 0 {
			line = line[:i]
		}
		if c.iso {
			c.queue = append(c.queue, line)
			continue
		}
		c.emit(line, execLine(line))
	}
}

// run executes a case through its runner and emits it (queued when the family is isolated).
func (c *Ctx) run(op string, args ...interface{}) {
	var toks []string
	for _, a := range args {
		toks = append(toks, fmt.Sprint(a))
	}
	line := op + " " + strings.Join(toks, " ")
	if c.sink != nil {
		c.sink(op, toks)
		return
	}
	if c.only != nil && !c.only[op] {
		return
	}
	if c.iso {
		c.queue = append(c.queue, line)
		return
	}
	c.emit(line, execLine(line))
}

// execLine runs one case line in this process.
func execLine(line string) string {
	toks := strings.Fields(line)
	r, ok := runners[toks[0]]
	if !ok {
		return "norunner"
	}
	out := guard(func() string { return r(toks[1:]) })
	if out == "" {
		out = "-"
	}
	return strings.ReplaceAll(out, "\n", " ")
}

// verifRoot: where the verification tree lives (the harness reads the regenerated registry and the spec table from it)
func verifRoot() string {
	if v := os.Getenv("VERIF_ROOT"); v != "" {
		return v
	}
	return "/verif"
}
