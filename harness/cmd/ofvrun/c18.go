package main

import (
	"encoding/hex"
	"strings"

	of "github.com/contiv/libOpenflow/openflow13"
)

func ctApply(s *of.CTStates, set bool, flag byte) {
	switch {
	case set && flag == '0':
		s.SetNew()
	case !set && flag == '0':
		s.UnsetNew()
	case set && flag == '1':
		s.SetEst()
	case !set && flag == '1':
		s.UnsetEst()
	case set && flag == '2':
		s.SetRel()
	case !set && flag == '2':
		s.UnsetRel()
	case set && flag == '3':
		s.SetRpl()
	case !set && flag == '3':
		s.UnsetRpl()
	case set && flag == '4':
		s.SetInv()
	case !set && flag == '4':
		s.UnsetInv()
	case set && flag == '5':
		s.SetTrk()
	case !set && flag == '5':
		s.UnsetTrk()
	case set && flag == '6':
		s.SetSNAT()
	case !set && flag == '6':
		s.UnsetSNAT()
	case set && flag == '7':
		s.SetDNAT()
	case !set && flag == '7':
		s.UnsetDNAT()
	default:
		panic("bad ct op")
	}
}

func init() {
	runners["ct"] = func(a []string) string {
		s := of.NewCTStates()
		if a[0] != "." {
			for i := 0; i+1 < len(a[0]); i += 2 {
				ctApply(s, a[0][i] == '+', a[0][i+1])
			}
		}
		f := of.NewCTStateMatchField(s)
		b, err := f.MarshalBinary()
		if err != nil {
			return "err"
		}
		return hex.EncodeToString(b)
	}
	families["C18"] = func(c *Ctx) {
		ops := []string{}
		for i := 0; i < 8; i++ {
			ops = append(ops, "+"+string(rune('0'+i)), "-"+string(rune('0'+i)))
		}
		c.run("ct", ".")
		// from each of the 3^8 = 6561 abstract states (canonical history) apply each of the 16 operations
		for st := 0; st < 6561; st++ {
			var sb strings.Builder
			x := st
			for i := 0; i < 8; i++ {
				switch x % 3 {
				case 1:
					sb.WriteString("+" + string(rune('0'+i)))
				case 2:
					sb.WriteString("-" + string(rune('0'+i)))
				}
				x /= 3
			}
			base := sb.String()
			if base != "" {
				c.run("ct", base)
			}
			for _, o := range ops {
				c.run("ct", base+o)
			}
		}
		// all call sequences up to length 4 from a fresh builder
		var rec func(prefix string, d int)
		rec = func(prefix string, d int) {
			if prefix != "" {
				c.run("ct", prefix)
			}
			if d == 0 {
				return
			}
			for _, o := range ops {
				rec(prefix+o, d-1)
			}
		}
		rec("", 4)
		// long random histories
		n := 2000
		if c.thorough() {
			n = 100000
		}
		for i := 0; i < n; i++ {
			l := 5 + c.rng.Intn(60)
			var sb strings.Builder
			for j := 0; j < l; j++ {
				sb.WriteString(ops[c.rng.Intn(16)])
			}
			c.run("ct", sb.String())
		}
	}
}
