package main

import (
	"encoding/hex"
	"fmt"
	"strconv"
	"strings"

	"github.com/contiv/libOpenflow/ofbase"
)

func unhex(s string) []byte {
	if s == "-" || s == "." {
		return nil
	}
	b, err := hex.DecodeString(s)
	if err != nil {
		panic(err)
	}
	return b
}

func hx(b []byte) string {
	if len(b) == 0 {
		return "-"
	}
	return hex.EncodeToString(b)
}

func u64(s string) uint64 { v, _ := strconv.ParseUint(s, 10, 64); return v }

var brtRun func(a []string, shared bool) string

func encScript(script string) (*ofbase.Encoder, []string) { return encScriptShared(script, false) }

// encScriptShared: with shared = true every raw write hands the encoder a sub-slice of ONE caller-owned array holding
// all raw chunks back to back (each chunk's spare capacity is the next chunks), and that array is overwritten once the
// script is done: what was written must not depend on the caller's memory afterwards
func encScriptShared(script string, shared bool) (*ofbase.Encoder, []string) {
	e := ofbase.NewEncoder()
	var toks []string
	if script != "." {
		toks = strings.Split(script, ",")
	}
	var pool []byte
	if shared {
		for _, t := range toks {
			if p := strings.Split(t, ":"); p[0] == "r" {
				pool = append(pool, unhex(p[1])...)
			}
		}
		pool = append(pool, 0xc1, 0xc2, 0xc3, 0xc4, 0xc5, 0xc6, 0xc7, 0xc8) // spare room behind the last chunk
		defer func() {
			for i := range pool {
				pool[i] = 0xee
			}
		}()
	}
	off := 0
	for _, t := range toks {
		p := strings.Split(t, ":")
		switch p[0] {
		case "a":
			e.SkipAlign()
		case "b":
			e.PutUint8(uint8(u64(p[1])))
		case "h":
			e.PutUint16(uint16(u64(p[1])))
		case "w":
			e.PutUint32(uint32(u64(p[1])))
		case "q":
			e.PutUint64(u64(p[1]))
		case "x":
			e.PutUint128(ofbase.Uint128{Hi: u64(p[1]), Lo: u64(p[2])})
		case "r":
			if shared {
				n := len(unhex(p[1]))
				e.Write(pool[off : off+n])
				off += n
			} else {
				e.Write(unhex(p[1]))
			}
		}
	}
	return e, toks
}

// backing builds a slice of length ln over a backing array holding all of bs (cap = len(bs)).
func backing(bs []byte, ln int) []byte {
	arr := make([]byte, len(bs))
	copy(arr, bs)
	return arr[:ln]
}

func init() {
	runners["benc"] = func(a []string) string {
		e, _ := encScript(a[0])
		return hx(e.Bytes())
	}
	runners["brta"] = func(a []string) string { return brtRun(a, true) }
	runners["brt"] = func(a []string) string { return brtRun(a, false) }
	brtRun = func(a []string, shared bool) string {
		e, toks := encScriptShared(a[0], shared)
		n := len(e.Bytes())
		buf := append(append([]byte{}, e.Bytes()...), unhex(a[1])...)
		_ = n
		d := ofbase.NewDecoder(buf)
		for i, t := range toks {
			p := strings.Split(t, ":")
			ok := true
			switch p[0] {
			case "a":
				d.SkipAlign()
			case "b":
				ok = d.ReadUint8() == uint8(u64(p[1]))
			case "h":
				ok = d.ReadUint16() == uint16(u64(p[1]))
			case "w":
				ok = d.ReadUint32() == uint32(u64(p[1]))
			case "q":
				ok = d.ReadUint64() == u64(p[1])
			case "x":
				v := d.ReadUint128()
				ok = v.Hi == u64(p[1]) && v.Lo == u64(p[2])
			case "r":
				want := unhex(p[1])
				ok = hx(d.Read(len(want))) == hx(want)
			}
			if !ok {
				return fmt.Sprintf("bad %d", i)
			}
		}
		return fmt.Sprintf("ok %d", d.Offset())
	}
	runners["bdec"] = func(a []string) (res string) {
		var out []string
		defer func() {
			if r := recover(); r != nil {
				out = append(out, "panic")
				res = strings.Join(out, " ")
			}
		}()
		stack := []*ofbase.Decoder{ofbase.NewDecoder(backing(unhex(a[0]), atoi(a[1])))}
		if a[2] != "." {
			for _, t := range strings.Split(a[2], ",") {
				d := stack[len(stack)-1]
				p := strings.Split(t, ":")
				switch p[0] {
				case "b":
					out = append(out, fmt.Sprint(d.ReadByte()))
				case "h":
					out = append(out, fmt.Sprint(d.ReadUint16()))
				case "w":
					out = append(out, fmt.Sprint(d.ReadUint32()))
				case "q":
					out = append(out, fmt.Sprint(d.ReadUint64()))
				case "x":
					v := d.ReadUint128()
					out = append(out, fmt.Sprintf("%d:%d", v.Hi, v.Lo))
				case "r":
					out = append(out, hx(d.Read(atoi(p[1]))))
				case "a":
					d.SkipAlign()
					out = append(out, fmt.Sprintf("@%d", d.Offset()))
				case "s":
					d.Skip(atoi(p[1]))
					out = append(out, fmt.Sprintf("@%d", d.Offset()))
				case "sl":
					c := d.SliceDecoder(atoi(p[1]), atoi(p[2]))
					stack = append(stack, c)
					out = append(out, fmt.Sprintf("[%d", c.BaseOffset()))
				case "len":
					out = append(out, fmt.Sprintf("L%d", d.Length()))
				case "hd":
					var h ofbase.Header
					if err := h.Decode(d); err != nil {
						out = append(out, "err")
					} else {
						out = append(out, fmt.Sprintf("H%d.%d.%d.%d", h.Version, h.Type, h.Length, h.Xid))
					}
				case "up":
					if len(stack) < 2 {
						panic("up")
					}
					stack = stack[:len(stack)-1]
					out = append(out, fmt.Sprintf("]@%d", stack[len(stack)-1].Offset()))
				}
			}
		}
		out = append(out, fmt.Sprintf("@%d", stack[len(stack)-1].Offset()))
		return strings.Join(out, " ")
	}
	runners["balign"] = func(a []string) string {
		base, off := atoi(a[0]), atoi(a[1])
		root := ofbase.NewDecoder(make([]byte, base+off+64))
		root.Skip(base)
		c := root.SliceDecoder(off+16, 0)
		c.Skip(off)
		c.SkipAlign()
		return fmt.Sprintf("%d %d", c.Offset(), c.BaseOffset())
	}
	// balignn o0 o1 .. ok: nested SliceDecoders, each advanced by the next offset; SkipAlign on the innermost
	runners["balignn"] = func(a []string) string {
		total := 0
		for _, x := range a {
			total += atoi(x)
		}
		d := ofbase.NewDecoder(make([]byte, total+64))
		d.Skip(atoi(a[0]))
		remaining := total - atoi(a[0])
		for _, x := range a[1:] {
			d = d.SliceDecoder(remaining+32, 0)
			d.Skip(atoi(x))
			remaining -= atoi(x)
		}
		d.SkipAlign()
		return fmt.Sprintf("%d %d", d.Offset(), d.BaseOffset())
	}
	runners["bhdr"] = func(a []string) string {
		d := ofbase.NewDecoder(backing(unhex(a[0]), atoi(a[1])))
		var h ofbase.Header
		if err := h.Decode(d); err != nil {
			return "err"
		}
		return fmt.Sprintf("%d %d %d %d @%d", h.Version, h.Type, h.Length, h.Xid, d.Offset())
	}
	families["C19"] = func(c *Ctx) {
		rv := func(k string) string {
			edge := func(max uint64) uint64 {
				switch c.rng.Intn(6) {
				case 0:
					return 0
				case 1:
					return 1
				case 2:
					return max
				case 3:
					return max - 1
				}
				return c.rng.Uint64() & max
			}
			switch k {
			case "b":
				return fmt.Sprintf("b:%d", edge(0xff))
			case "h":
				return fmt.Sprintf("h:%d", edge(0xffff))
			case "w":
				return fmt.Sprintf("w:%d", edge(0xffffffff))
			case "q":
				return fmt.Sprintf("q:%d", edge(^uint64(0)))
			case "x":
				return fmt.Sprintf("x:%d:%d", edge(^uint64(0)), edge(^uint64(0)))
			case "r":
				n := c.rng.Intn(20)
				b := make([]byte, n)
				c.rng.Read(b)
				if n == 0 {
					return "r:-"
				}
				return "r:" + hex.EncodeToString(b)
			}
			return "a"
		}
		kinds := []string{"b", "h", "w", "q", "x", "r", "a"}
		c.run("benc", ".")
		c.run("brt", ".", "-")
		// every pair and triple of kinds (alignment after every residue), then random sequences
		for _, k1 := range kinds {
			c.run("brt", rv(k1), "-")
			for _, k2 := range kinds {
				s := rv(k1) + "," + rv(k2)
				c.run("benc", s)
				c.run("brt", s, "ffee")
				for _, k3 := range kinds {
					c.run("brt", s+","+rv(k3), "-")
				}
			}
		}
		for pad := 0; pad < 24; pad++ { // alignment skip after every length mod 8
			s := ""
			for i := 0; i < pad; i++ {
				s += "b:1,"
			}
			c.run("benc", s+"a")
			c.run("brt", s+"a,h:513", "-")
		}
		n := 4000
		if c.thorough() {
			n = 200000
		}
		for i := 0; i < n; i++ {
			l := 1 + c.rng.Intn(12)
			var ts []string
			for j := 0; j < l; j++ {
				ts = append(ts, rv(kinds[c.rng.Intn(len(kinds))]))
			}
			s := strings.Join(ts, ",")
			if i%4 == 0 {
				c.run("benc", s)
			}
			tl := "-"
			if i%3 == 0 {
				tl = "a1b2c3"
			}
			c.run("brt", s, tl)
		}
		// alignment: every (base, offset) pair 0..40
		for b := 0; b <= 40; b++ {
			for o := 0; o <= 40; o++ {
				c.run("balign", b, o)
			}
		}
		// nested slicing: every (o0, o1, o2) mod 8 at depth 2, random chains up to depth 5
		for o0 := 0; o0 < 8; o0++ {
			for o1 := 0; o1 < 8; o1++ {
				for o2 := 0; o2 < 8; o2++ {
					c.run("balignn", o0, o1+8*c.rng.Intn(3), o2)
				}
			}
		}
		for i := 0; i < 400; i++ {
			n := 2 + c.rng.Intn(5)
			var as []interface{}
			for k := 0; k < n; k++ {
				as = append(as, c.rng.Intn(23))
			}
			c.run("balignn", as...)
		}
		// header decode: all short inputs 0..7 (and with spare capacity), exact and long
		full := "0405001011223344aabbccddeeff0011"
		for ln := 0; ln <= 16; ln++ {
			c.run("bhdr", hx(unhex(full)[:ln]), ln)
			c.run("bhdr", full, ln) // cap 16 > len
		}
		for i := 0; i < 300; i++ {
			b := make([]byte, 8+c.rng.Intn(8))
			c.rng.Read(b)
			c.run("bhdr", hx(b), c.rng.Intn(len(b)+1))
		}
		// raw decoder scripts incl. short buffers, spare capacity, nested slicing up to depth 4
		// raw writes from ONE caller-owned array (the first write on an empty encoder included), overwritten afterwards
		for i := 0; i < 400; i++ {
			var ts []string
			for j := 1 + c.rng.Intn(6); j > 0; j-- {
				k := []string{"r", "r", "r", "h", "w", "b", "q"}[c.rng.Intn(7)]
				if len(ts) == 0 && c.rng.Intn(3) > 0 {
					k = "r"
				}
				if k == "r" {
					n := 1 + c.rng.Intn(12)
					b := make([]byte, n)
					c.rng.Read(b)
					ts = append(ts, "r:"+hx(b))
				} else {
					ts = append(ts, rv(k))
				}
			}
			c.run("brta", strings.Join(ts, ","), "-")
		}
		// a header (or the remaining length) asked for when the position is at, near or PAST the end of the data: the
		// data is consumed entirely, an alignment skip / a skip moves past the end, then Length() and Header.Decode
		for n := 0; n <= 40; n++ {
			b := make([]byte, n)
			c.rng.Read(b)
			for _, tailOps := range []string{"len,hd", "a,len,hd", "s:3,len,hd", "a,hd,len", "s:9,a,len,hd,hd"} {
				s := tailOps
				if n > 0 {
					s = fmt.Sprintf("r:%d,%s", n, tailOps)
				}
				c.run("bdec", hx(b), n, s)
				if n >= 9 {
					c.run("bdec", hx(b), n, fmt.Sprintf("r:%d,%s", n-9, tailOps)) // a whole header is left: it decodes
					c.run("bdec", hx(b), n, fmt.Sprintf("sl:%d:0,r:%d,%s", n-2, n-2, tailOps))
				}
			}
		}
		rops := []string{"b", "h", "w", "q", "x", "r:3", "r:0", "a", "s:1", "s:5", "sl:8:0", "sl:12:4", "sl:6:2", "sl:20:0", "up", "len", "hd"}
		m := 6000
		if c.thorough() {
			m = 200000
		}
		for i := 0; i < m; i++ {
			capn := c.rng.Intn(48)
			b := make([]byte, capn)
			c.rng.Read(b)
			ln := capn
			if c.rng.Intn(3) == 0 && capn > 0 {
				ln = c.rng.Intn(capn + 1)
			}
			l := 1 + c.rng.Intn(8)
			var ts []string
			depth := 0
			for j := 0; j < l; j++ {
				t := rops[c.rng.Intn(len(rops))]
				if strings.HasPrefix(t, "sl") {
					if depth >= 4 {
						continue
					}
					depth++
				}
				if t == "up" {
					if depth == 0 {
						continue
					}
					depth--
				}
				ts = append(ts, t)
			}
			s := "."
			if len(ts) > 0 {
				s = strings.Join(ts, ",")
			}
			c.run("bdec", hx(b), ln, s)
		}
	}
}
