package main

// Maximal frames: 65535-byte multipart flow-stats replies whose records tile the frame so that the decoder's cursor
// arrives at 65535 / 65536 / just beyond (the last record is cut where the decoder stops reading: its size counts match
// padding the decoder never touches).  A cursor kept in 16 bits wraps to 0 there and the frame is decoded again from its
// start; the "polyglot" variants make that second pass well-formed too (the frame's first bytes read as a record whose
// match image is hidden in the first real record's counters), which is what turns the wrap into an endless loop.

import "encoding/binary"

func maxFlowStatsFrame(version byte, polyglot bool, firstExtra int) []byte {
	rec := func(pkts, bytes_ uint64, extra int) []byte {
		b := make([]byte, 56+extra)
		binary.BigEndian.PutUint16(b[0:], uint16(56+extra)) // length
		b[2] = 1                                            // table
		binary.BigEndian.PutUint32(b[4:], 10)
		binary.BigEndian.PutUint16(b[12:], 100)
		binary.BigEndian.PutUint64(b[24:], 0x1122334455667788)
		binary.BigEndian.PutUint64(b[32:], pkts)
		binary.BigEndian.PutUint64(b[40:], bytes_)
		binary.BigEndian.PutUint16(b[48:], 1) // match type OXM
		binary.BigEndian.PutUint16(b[50:], 4) // empty match, padded to 8
		if extra >= 8 {                       // one goto-table instruction
			binary.BigEndian.PutUint16(b[56:], 1)
			binary.BigEndian.PutUint16(b[58:], 8)
			b[60] = 2
		}
		return b
	}
	f := make([]byte, 0, 65600)
	f = append(f, version, 19, 0xff, 0xff, 0, 0, 0, 7)
	f = append(f, 0, 1, 0, 0, 0, 0, 0, 0)
	pk, by := uint64(1000), uint64(64000)
	if polyglot {
		// read from offset 0 the frame is a record of length (version,19); its match starts at byte 48 = the first real
		// record's packet counter: type 1, length 24, eth_type and vlan_vid TLVs, then the real (empty) match reads as reg0 = 0
		pk, by = 0x0001001880000a02, 0x080080000c021001
	}
	f = append(f, rec(pk, by, firstExtra)...)
	for len(f)+56 <= 65536+48 && len(f) < 65535 {
		f = append(f, rec(7, 448, 0)...)
	}
	return f[:65535]
}

func init() {
	ofGens = append(ofGens, func(c *Ctx) {
		for _, v := range []byte{4, 0} {
			for _, poly := range []bool{false, true} {
				for _, extra := range []int{0, 8} {
					c.decCase("parse", "", maxFlowStatsFrame(v, poly, extra), 0)
				}
			}
		}
		c.decCase("parse", "", maxFlowStatsFrame(4, false, 0), 24)
	})
}
