package main

// families C10 (inbound stream), C11 (outbound stream), C14 (transaction ids, concurrent use)
// driven through the public constructor util.NewMessageStream with a scripted in-memory net.Conn.

import (
	"bytes"
	"encoding/binary"
	"encoding/hex"
	"errors"
	"fmt"
	"io"
	"math/rand"
	"net"
	"reflect"
	"runtime"
	"sort"
	"strings"
	"sync"
	"sync/atomic"
	"time"
	"unsafe"

	"github.com/contiv/libOpenflow/common"
	of "github.com/contiv/libOpenflow/openflow13"
	"github.com/contiv/libOpenflow/protocol"
	"github.com/contiv/libOpenflow/util"
	"github.com/sirupsen/logrus"
)

func init() { logrus.SetOutput(io.Discard) }

// ---- scripted connection -----------------------------------------------------------------------

type scriptConn struct {
	mu       sync.Mutex
	chunks   [][]byte
	fail     bool
	closeErr bool
	drained  atomic.Bool // a Read was issued after the last chunk had been handed out
	done     chan struct{}
	closed   atomic.Bool
	writes   [][]byte
	yield    func()
	// fault injection: the failWrite-th Write accepts failAccept bytes and returns a timeout
	nwrites, failWrite, failAccept int
}

var errClosed = errors.New("use of closed network connection")

func (c *scriptConn) Read(b []byte) (int, error) {
	if c.yield != nil {
		c.yield()
	}
	c.mu.Lock()
	if len(c.chunks) > 0 {
		ch := c.chunks[0]
		n := copy(b, ch)
		if n < len(ch) {
			c.chunks[0] = ch[n:]
		} else {
			c.chunks = c.chunks[1:]
		}
		c.mu.Unlock()
		return n, nil
	}
	c.mu.Unlock()
	c.drained.Store(true)
	if c.fail {
		return 0, io.ErrUnexpectedEOF
	}
	<-c.done
	return 0, errClosed
}
func (c *scriptConn) Write(b []byte) (int, error) {
	if c.yield != nil {
		c.yield()
	}
	c.mu.Lock()
	defer c.mu.Unlock()
	c.nwrites++
	if c.failWrite > 0 && c.nwrites == c.failWrite {
		// the deadline expires after part of the frame was accepted
		k := c.failAccept
		if k > len(b) {
			k = len(b)
		}
		c.writes = append(c.writes, append([]byte(nil), b[:k]...))
		return k, timeoutErr{}
	}
	c.writes = append(c.writes, append([]byte(nil), b...))
	return len(b), nil
}

type timeoutErr struct{}

func (timeoutErr) Error() string   { return "i/o timeout" }
func (timeoutErr) Timeout() bool   { return true }
func (timeoutErr) Temporary() bool { return true }
func (c *scriptConn) Close() error {
	if c.closed.CompareAndSwap(false, true) {
		close(c.done)
	}
	if c.closeErr {
		// e.g. a tls.Conn that cannot send its close_notify to a peer that is already gone
		return errClosed
	}
	return nil
}
func (c *scriptConn) LocalAddr() net.Addr                { return nil }
func (c *scriptConn) RemoteAddr() net.Addr               { return nil }
func (c *scriptConn) SetDeadline(t time.Time) error      { return nil }
func (c *scriptConn) SetReadDeadline(t time.Time) error  { return nil }
func (c *scriptConn) SetWriteDeadline(t time.Time) error { return nil }

// ---- recording parser --------------------------------------------------------------------------

type recMsg struct{ data []byte }

func (m *recMsg) MarshalBinary() ([]byte, error) { return m.data, nil }
func (m *recMsg) UnmarshalBinary(b []byte) error { m.data = append([]byte(nil), b...); return nil }
func (m *recMsg) Len() uint16                    { return uint16(len(m.data)) }

type recParser struct {
	calls    atomic.Int64
	torn     atomic.Int64 // the buffer changed while a parser owned it
	yield    func()
	useOF    bool
	mu       sync.Mutex
	inFlight map[*byte]bool
	shared   atomic.Int64 // the same buffer was handed to two parsers at once
}

func (p *recParser) Parse(b []byte) (util.Message, error) {
	var key *byte
	if len(b) > 0 {
		key = &b[0]
		p.mu.Lock()
		if p.inFlight[key] {
			p.shared.Add(1)
		}
		p.inFlight[key] = true
		p.mu.Unlock()
	}
	before := append([]byte(nil), b...)
	if p.yield != nil {
		p.yield()
	}
	var msg util.Message
	var err error
	if p.useOF {
		msg, err = of.Parse(b)
	} else {
		msg = &recMsg{data: before}
	}
	if p.yield != nil {
		p.yield()
	}
	if !bytes.Equal(before, b) {
		p.torn.Add(1)
	}
	if key != nil {
		p.mu.Lock()
		delete(p.inFlight, key)
		p.mu.Unlock()
	}
	p.calls.Add(1)
	return msg, err
}

func poolOf(m *util.MessageStream) *util.BufferPool {
	f := reflect.ValueOf(m).Elem().FieldByName("pool")
	return reflect.NewAt(f.Type(), unsafe.Pointer(f.UnsafeAddr())).Elem().Interface().(*util.BufferPool)
}

// yielder derives scheduling noise from a seed: some Gosched calls, occasionally a short sleep.
func yielder(seed int64) func() {
	var ctr atomic.Uint64
	return func() {
		x := ctr.Add(1)*0x9e3779b97f4a7c15 + uint64(seed)*0xbf58476d1ce4e5b9
		x ^= x >> 29
		switch x % 7 {
		case 0, 1:
			runtime.Gosched()
		case 2:
			for i := 0; i < int(x>>8%4); i++ {
				runtime.Gosched()
			}
		case 3:
			if x>>16%16 == 0 {
				time.Sleep(time.Duration(x>>24%200) * time.Microsecond)
			}
		}
	}
}

var failCloseErr bool

func runInbound(chunks [][]byte, fail bool, useOF bool, seed int64, slowConsumer bool) string {
	y := yielder(seed)
	if seed == 0 {
		y = nil
	}
	conn := &scriptConn{chunks: chunks, fail: fail, done: make(chan struct{}), yield: y, closeErr: fail && failCloseErr}
	parser := &recParser{yield: y, useOF: useOF, inFlight: map[*byte]bool{}}
	m := util.NewMessageStream(conn, parser)
	pool := poolOf(m)
	var mu sync.Mutex
	var got []util.Message
	var nerr atomic.Int64
	stop := make(chan struct{})
	var wg sync.WaitGroup
	wg.Add(2)
	go func() {
		defer wg.Done()
		for {
			select {
			case msg := <-m.Inbound:
				if slowConsumer && y != nil {
					y()
					y()
				}
				mu.Lock()
				got = append(got, msg)
				mu.Unlock()
			case <-stop:
				return
			}
		}
	}()
	go func() {
		defer wg.Done()
		for {
			select {
			case <-m.Error:
				nerr.Add(1)
			case <-stop:
				return
			}
		}
	}()
	deadline := time.Now().Add(8 * time.Second)
	timedOut := false
	stable := 0
	for {
		mu.Lock()
		n := len(got)
		mu.Unlock()
		quiet := conn.drained.Load() && len(pool.Full) == 0 && int64(n) == parser.calls.Load() && len(m.Inbound) == 0
		if fail {
			// after a failure parsers may exit with frames still queued: wait for the error and a stable picture
			quiet = conn.drained.Load() && nerr.Load() >= 1 && int64(n) == parser.calls.Load() && len(m.Inbound) == 0
		}
		if quiet {
			stable++
			if stable > 20 {
				break
			}
		} else {
			stable = 0
		}
		if time.Now().After(deadline) {
			timedOut = true
			break
		}
		runtime.Gosched()
		time.Sleep(50 * time.Microsecond)
	}
	if !fail {
		m.Shutdown <- true
	} else {
		// the failure is published ONCE: leave time for whatever the shutdown path may publish after the first error
		time.Sleep(30 * time.Millisecond)
	}
	close(stop)
	wg.Wait()
	conn.Close()
	if timedOut {
		return "timeout"
	}
	// what was delivered, as the frames' bytes (re-encoded when the real parser was used: also checks that the
	// delivered messages survived the recycling of their buffers)
	var frames []string
	for _, msg := range got {
		if msg == nil || (reflect.ValueOf(msg).Kind() == reflect.Ptr && reflect.ValueOf(msg).IsNil()) {
			frames = append(frames, "nil")
			continue
		}
		b, err := msg.MarshalBinary()
		if err != nil {
			frames = append(frames, "err")
			continue
		}
		frames = append(frames, hx(b))
	}
	sort.Strings(frames)
	fs := "-"
	if len(frames) > 0 {
		fs = strings.Join(frames, ",")
	}
	return fmt.Sprintf("frames=%s errs=%d torn=%d shared=%d", fs, nerr.Load(), parser.torn.Load(), parser.shared.Load())
}

// frame builds a well-formed frame of total length n (>= 8): an echo request whose body is derived from tag.
func frame(n int, tag uint32) []byte {
	b := make([]byte, n)
	b[0], b[1] = 4, 2
	binary.BigEndian.PutUint16(b[2:], uint16(n))
	binary.BigEndian.PutUint32(b[4:], tag)
	for i := 8; i < n; i++ {
		b[i] = byte(uint32(i)*2654435761>>13) ^ byte(tag) ^ byte(tag>>8)
	}
	return b
}

// mixFrames builds realistic switch-to-controller frames with the library itself (packet-in carrying
// Ethernet/VLAN/IPv4/IPv6/ARP/ICMP/UDP packets, error, echo reply, flow-removed, port-status, features reply, vendor
// replies) and keeps those that the real parser decodes and re-encodes to the same bytes from a PRIVATE copy, so that
// the re-encoding of a message delivered by the stream can be compared with the frame that was sent.
func mixFrames(rng *rand.Rand, count int, tagBase uint32) [][]byte {
	var out [][]byte
	payload := func(n int) []byte {
		b := make([]byte, n)
		rng.Read(b)
		return b
	}
	mac := func() net.HardwareAddr { return net.HardwareAddr(payload(6)) }
	for i := 0; len(out) < count && i < 8*count; i++ {
		tag := tagBase + uint32(i)
		var msg util.Message
		trusted := false // built so that it round-trips by construction: not filtered through the library under test
		func() {
			defer func() { recover() }()
			switch rng.Intn(10) {
			case 0, 1, 2, 3, 4, 5:
				pi := of.NewPacketIn()
				pi.Xid = tag
				pi.BufferId = rng.Uint32()
				pi.TotalLen = uint16(rng.Intn(2000))
				pi.Reason = uint8(rng.Intn(3))
				pi.TableId = uint8(rng.Intn(250))
				pi.Cookie = rng.Uint64()
				pi.Match.AddField(*of.NewInPortField(uint32(1 + rng.Intn(48))))
				// what Open vSwitch adds to a packet-in match: tunnel metadata, registers, conntrack state (raw NXM payloads)
				if rng.Intn(2) == 0 {
					pi.Match.AddField(*of.NewTunMetadataField(rng.Intn(4), payload(8), nil))
					pi.Match.AddField(*of.NewRegMatchField(rng.Intn(8), rng.Uint32(), nil))
					pi.Match.AddField(*of.NewCTZoneMatchField(uint16(rng.Intn(65536))))
				}
				eth := protocol.NewEthernet()
				eth.HWDst, eth.HWSrc = mac(), mac()
				if rng.Intn(3) == 0 {
					eth.VLANID.VID = uint16(1 + rng.Intn(4000))
					eth.VLANID.PCP = uint8(rng.Intn(8))
				}
				switch rng.Intn(5) {
				case 0:
					ip := protocol.NewIPv4()
					ip.NWSrc, ip.NWDst = net.IP(payload(4)), net.IP(payload(4))
					ip.Protocol = protocol.Type_ICMP
					ic := protocol.NewICMP()
					ic.Type, ic.Code = 8, 0
					ic.Data = payload(4 + rng.Intn(120))
					ip.Data = ic
					ip.Length = ip.Len()
					if rng.Intn(3) == 0 {
						// the switch captured only the head of a larger datagram (miss_send_len): the IPv4 total length
						// exceeds the bytes that follow
						ip.Length += uint16(100 + rng.Intn(1300))
						trusted = true
					}
					eth.Ethertype = protocol.IPv4_MSG
					eth.Data = ip
				case 1:
					ip := protocol.NewIPv4()
					ip.NWSrc, ip.NWDst = net.IP(payload(4)), net.IP(payload(4))
					ip.Protocol = protocol.Type_UDP
					u := protocol.NewUDP()
					u.PortSrc, u.PortDst = uint16(rng.Intn(65536)), uint16(rng.Intn(65536))
					u.Data = payload(rng.Intn(200))
					u.Length = u.Len()
					ip.Data = u
					ip.Length = ip.Len()
					if rng.Intn(3) == 0 {
						extra := uint16(100 + rng.Intn(1300))
						ip.Length += extra
						u.Length += extra
						trusted = true
					}
					eth.Ethertype = protocol.IPv4_MSG
					eth.Data = ip
				case 2:
					a, _ := protocol.NewARP(protocol.Type_Request)
					a.HWSrc, a.HWDst = mac(), mac()
					a.IPSrc, a.IPDst = net.IP(payload(4)), net.IP(payload(4))
					eth.Ethertype = protocol.ARP_MSG
					eth.Data = a
				case 3:
					ip := new(protocol.IPv6)
					ip.Version = 6
					ip.NWSrc, ip.NWDst = net.IP(payload(16)), net.IP(payload(16))
					ip.NextHeader = protocol.Type_IPv6ICMP
					ic := protocol.NewICMP()
					ic.Type = 128
					ic.Data = payload(4 + rng.Intn(60))
					ip.Data = ic
					ip.Length = ic.Len()
					eth.Ethertype = protocol.IPv6_MSG
					eth.Data = ip
				default:
					eth.Ethertype = 0x88cc
					eth.Data = util.NewBuffer(payload(rng.Intn(100)))
				}
				pi.Data = *eth
				msg = pi
			case 6:
				e := of.NewErrorMsg()
				e.Xid = tag
				e.Type, e.Code = uint16(rng.Intn(14)), uint16(rng.Intn(10))
				e.Data = *util.NewBuffer(payload(rng.Intn(64)))
				msg = e
			case 7:
				h := of.NewEchoReply()
				h.Xid = tag
				msg = h
			case 8:
				ps := of.NewPortStatus()
				ps.Xid = tag
				ps.Reason = uint8(rng.Intn(3))
				ps.Desc.PortNo = uint32(rng.Intn(100))
				ps.Desc.HWAddr = mac()
				copy(ps.Desc.Name, []byte(fmt.Sprintf("eth%d", rng.Intn(100))))
				msg = ps
			default:
				msg = frameMsg(helloFrame(12+4*rng.Intn(6), tag))
			}
		}()
		if msg == nil {
			continue
		}
		var b []byte
		func() {
			defer func() { recover() }()
			b, _ = msg.MarshalBinary()
		}()
		if len(b) < 8 || len(b) > 8000 {
			continue
		}
		// keep it only if a private parse re-encodes to the same bytes (frames marked trusted are kept regardless)
		if !trusted {
			m2, err := of.Parse(append([]byte(nil), b...))
			if err != nil || m2 == nil {
				continue
			}
			b2, err := m2.MarshalBinary()
			if err != nil || !bytes.Equal(b, b2) {
				continue
			}
		}
		out = append(out, b)
	}
	return out
}

// frameMsg parses a frame known to be valid (used to put hello frames into the mix)
func frameMsg(b []byte) util.Message {
	m, _ := of.Parse(b)
	return m
}

// helloFrame builds a conformant hello message of about n bytes (8, or 8 + one padded version-bitmap element) that the
// real parser decodes and re-encodes exactly.
func helloFrame(n int, tag uint32) []byte {
	if n < 12 {
		b := make([]byte, 8)
		b[0], b[1] = 4, 0
		binary.BigEndian.PutUint16(b[2:], 8)
		binary.BigEndian.PutUint32(b[4:], tag)
		return b
	}
	k := (n - 12) / 4
	// one version-bitmap element of k bitmaps: length 4+4k, zero-padded to a multiple of 8 (OpenFlow 1.3, 7.5.1)
	b := make([]byte, 8+(4+4*k+7)/8*8)
	b[0], b[1] = 4, 0
	binary.BigEndian.PutUint16(b[2:], uint16(len(b)))
	binary.BigEndian.PutUint32(b[4:], tag)
	binary.BigEndian.PutUint16(b[8:], 1)
	binary.BigEndian.PutUint16(b[10:], uint16(4+4*k))
	for i := 0; i < k; i++ {
		binary.BigEndian.PutUint32(b[12+4*i:], tag*2654435761+uint32(i))
	}
	return b
}

func splitAt(b []byte, cuts []int) [][]byte {
	var out [][]byte
	prev := 0
	for _, c := range cuts {
		if c > prev && c < len(b) {
			out = append(out, b[prev:c])
			prev = c
		}
	}
	out = append(out, b[prev:])
	return out
}

func chunkBy(b []byte, size int) [][]byte {
	var out [][]byte
	for len(b) > size {
		out = append(out, b[:size])
		b = b[size:]
	}
	if len(b) > 0 {
		out = append(out, b)
	}
	return out
}

func chunksArg(chunks [][]byte) string {
	var parts []string
	for _, c := range chunks {
		parts = append(parts, hex.EncodeToString(c))
	}
	if len(parts) == 0 {
		return "-"
	}
	return strings.Join(parts, ",")
}

func parseChunks(s string) [][]byte {
	if s == "-" {
		return nil
	}
	var out [][]byte
	for _, p := range strings.Split(s, ",") {
		out = append(out, unhex(p))
	}
	return out
}

func init() {
	// stream <chunks> <ok|fail> <rec|of> <seed> <slow 0/1>
	runners["stream"] = func(a []string) string {
		// mode failc: the connection fails AND its Close() reports an error too
		failCloseErr = a[1] == "failc"
		return runInbound(parseChunks(a[0]), a[1] == "fail" || a[1] == "failc", a[2] == "of", int64(atoi(a[3])), a[4] == "1")
	}
	families["C10"] = func(c *Ctx) {
		emit := func(stream []byte, chunks [][]byte, mode, parser string, slow int) {
			c.run("stream", chunksArg(chunks), mode, parser, c.rng.Intn(1000000)+1, slow)
		}
		sizes := []int{8, 9, 12, 16, 17, 64, 100, 255, 256, 1000, 2047, 2048, 2049, 4096, 5000}
		// one frame of every size, then a second one: every chunk size that matters
		for _, n := range sizes {
			s := append(frame(n, uint32(n)), frame(16, 7)...)
			for _, cs := range []int{1, 2, 3, 4, 5, 7, n - 1, n, n + 1, 2047, 2048} {
				if cs >= 1 {
					emit(s, chunkBy(s, cs), "ok", "rec", 0)
				}
			}
		}
		// three frames, a split at every offset of the first 12 bytes of each frame boundary
		base := append(append(frame(20, 1), frame(8, 2)...), frame(33, 3)...)
		for _, start := range []int{0, 20, 28} {
			for k := 1; k <= 12; k++ {
				emit(base, splitAt(base, []int{start + k}), "ok", "rec", 0)
				emit(base, splitAt(base, []int{start + k, start + k + 1}), "ok", "rec", 0)
			}
		}
		// incomplete trailing frame: every proper prefix of a 24-byte frame after two complete frames
		two := append(frame(16, 9), frame(40, 10)...)
		tail := frame(24, 11)
		for k := 0; k < 24; k++ {
			s := append(append([]byte(nil), two...), tail[:k]...)
			emit(s, chunkBy(s, 5), "ok", "rec", 0)
		}
		// many frames (more than the 50 pool buffers), slow consumer, random sizes and chunkings, real parser
		n := 40
		if c.thorough() {
			n = 600
		}
		for i := 0; i < n; i++ {
			var s []byte
			k := 1 + c.rng.Intn(140)
			for j := 0; j < k; j++ {
				sz := 8 + c.rng.Intn(60)
				if c.rng.Intn(12) == 0 {
					sz = 2000 + c.rng.Intn(3000)
				}
				if i%2 == 1 {
					s = append(s, helloFrame(sz, uint32(i*1000+j))...)
				} else {
					s = append(s, frame(sz, uint32(i*1000+j))...)
				}
			}
			var chunks [][]byte
			rest := s
			for len(rest) > 0 {
				cs := 1 + c.rng.Intn(300)
				if c.rng.Intn(4) == 0 {
					cs = 1 + c.rng.Intn(2048)
				}
				if cs > len(rest) {
					cs = len(rest)
				}
				chunks = append(chunks, rest[:cs])
				rest = rest[cs:]
			}
			parser := "rec"
			if i%2 == 1 {
				parser = "of"
			}
			emit(s, chunks, "ok", parser, i%3/2+i%2)
		}
		// realistic mixed traffic through the real parser: more frames than pool buffers, so every delivered message is
		// re-encoded after the buffer it was parsed from has been recycled for later frames
		mixRuns := 6
		if c.thorough() {
			mixRuns = 80
		}
		for i := 0; i < mixRuns; i++ {
			fr := mixFrames(c.rng, 70+c.rng.Intn(120), uint32(0x10000*(i+1)))
			var s []byte
			for _, f := range fr {
				s = append(s, f...)
			}
			var chunks [][]byte
			rest := s
			for len(rest) > 0 {
				cs := 1 + c.rng.Intn(700)
				if cs > len(rest) {
					cs = len(rest)
				}
				chunks = append(chunks, rest[:cs])
				rest = rest[cs:]
			}
			emit(s, chunks, "ok", "of", i%2)
		}
		// failure after any byte of the third frame (and between frames)
		for k := 0; k <= 33; k += 1 {
			s := append(append([]byte(nil), base[:28]...), base[28:28+k]...)
			emit(s, chunkBy(s, 7), "fail", "rec", 0)
		}
		emit(nil, nil, "fail", "rec", 0)
		for _, k := range []int{0, 3, 5, 17, 33} {
			s := append(append([]byte(nil), base[:28]...), base[28:28+k]...)
			emit(s, chunkBy(s, 7), "failc", "rec", 0)
		}
		emit(nil, nil, "failc", "rec", 0)
		emit(nil, nil, "ok", "rec", 0)
	}

	// out <producers> <messages each> <seed>
	runners["out"] = func(a []string) string { return runOutbound(atoi(a[0]), atoi(a[1]), int64(atoi(a[2]))) }
	runners["outfault"] = func(a []string) string {
		return runOutboundFault(atoi(a[0]), atoi(a[1]), atoi(a[2]), int64(atoi(a[3])))
	}
	// outreal <streams> <messages each> <seed>: REAL library messages on several connections of one process
	runners["outreal"] = func(a []string) string { return runOutboundReal(atoi(a[0]), atoi(a[1]), int64(atoi(a[2]))) }
	// outloop <packets> <seed>: the whole loop of a reactive controller on ONE stream: packet-ins arrive, the consumer
	// answers each with a packet-out carrying the received packet, the writer is slow
	runners["outloop"] = func(a []string) string { return runOutLoop(atoi(a[0]), int64(atoi(a[1]))) }
	families["C11"] = func(c *Ctx) {
		if c.only == nil || c.only["outloop"] {
			line := fmt.Sprintf("outloop %d %d", 160, c.rng.Intn(1000)+1)
			c.emit(line, runIsolatedOnce(line))
		}
		for _, st := range []int{1, 2, 3, 8} {
			line := fmt.Sprintf("outreal %d %d %d", st, 60, c.rng.Intn(1000)+1)
			if c.only == nil || c.only["outreal"] {
				c.emit(line, runIsolatedOnce(line))
			}
		}
		// a write that times out after accepting part of a frame (1 byte, half, all but one), at the 1st..4th frame
		for _, at := range []int{1, 2, 4} {
			for _, acc := range []int{0, 1, 8, 15, 100} {
				line := fmt.Sprintf("outfault 8 %d %d %d", at, acc, c.rng.Intn(1000))
				if c.only == nil || c.only["outfault"] {
					c.emit(line, runIsolatedOnce(line))
				}
			}
		}
		for _, p := range []int{1, 2, 3, 4, 8, 16, 32, 64} {
			for _, n := range []int{1, 2, 10, 50} {
				c.run("out", p, n, c.rng.Intn(1000000)+1)
			}
		}
		k := 10
		if c.thorough() {
			k = 300
		}
		for i := 0; i < k; i++ {
			c.run("out", 1+c.rng.Intn(64), 1+c.rng.Intn(80), c.rng.Intn(1000000)+1)
		}
	}

	// xids <goroutines> <draws each>
	runners["xids"] = func(a []string) string {
		g, n := atoi(a[0]), atoi(a[1])
		res := make([][]uint32, g)
		var wg sync.WaitGroup
		start := make(chan struct{})
		for i := 0; i < g; i++ {
			wg.Add(1)
			go func(i int) {
				defer wg.Done()
				gen := common.NewHeaderGenerator(4)
				<-start
				for k := 0; k < n; k++ {
					var h common.Header
					if k%2 == 0 {
						h = gen()
					} else {
						h = of.NewOfp13Header()
					}
					if h.Version != 4 || h.Type != 0 || h.Length != 8 {
						res[i] = append(res[i], 0, 0) // forces a duplicate report
					}
					res[i] = append(res[i], h.Xid)
				}
			}(i)
		}
		close(start)
		wg.Wait()
		seen := map[uint32]bool{}
		for _, r := range res {
			for _, x := range r {
				if seen[x] {
					return fmt.Sprintf("dup %d", x)
				}
				seen[x] = true
			}
		}
		return fmt.Sprintf("ok %d", len(seen))
	}
	// conc <goroutines> <seed>: independent programs run concurrently give what they give sequentially
	runners["conc"] = func(a []string) string {
		g := atoi(a[0])
		lines := concCases(int64(atoi(a[1])), 60)
		want := make([]string, len(lines))
		for i, l := range lines {
			want[i] = normXid(execLine(l))
		}
		var bad atomic.Int64
		var wg sync.WaitGroup
		for w := 0; w < g; w++ {
			wg.Add(1)
			go func(w int) {
				defer wg.Done()
				for r := 0; r < 3; r++ {
					for i := range lines {
						j := (i*7 + w*13 + r) % len(lines)
						if normXid(execLine(lines[j])) != want[j] {
							bad.Add(1)
						}
					}
				}
			}(w)
		}
		wg.Wait()
		if bad.Load() > 0 {
			return fmt.Sprintf("differ %d", bad.Load())
		}
		return fmt.Sprintf("same %d", len(lines))
	}
	// concparse <goroutines> <seed>: g goroutines parse (and re-encode) the same set of frames — every switch-side kind of
	// the independent encoder plus the library's own encodings of API-built top-level messages (flow-mods, bundle-adds
	// wrapping them, vendor messages) — at the same time; every result must equal the sequential one
	runners["concparse"] = func(a []string) string {
		g := atoi(a[0])
		seed := int64(atoi(a[1]))
		frames := concFrames(seed)
		one := func(fr []byte) string {
			return guard(func() string {
				outs := funcReg["Parse"].Call([]reflect.Value{reflect.ValueOf(append([]byte(nil), fr...))})
				if !outs[1].IsNil() {
					return "err"
				}
				if outs[0].IsNil() {
					return "~"
				}
				b, ok := marshalOf(outs[0].Elem())
				if !ok {
					return dumpV(outs[0]) + " merr"
				}
				return dumpV(outs[0]) + " " + hx(b)
			})
		}
		want := make([]string, len(frames))
		for i, fr := range frames {
			want[i] = one(fr)
		}
		var bad atomic.Int64
		var first atomic.Int64
		first.Store(-1)
		var wg sync.WaitGroup
		start := make(chan struct{})
		for w := 0; w < g; w++ {
			wg.Add(1)
			go func(w int) {
				defer wg.Done()
				<-start
				for r := 0; r < 2; r++ {
					for i := range frames {
						j := (i*7 + w*13 + r) % len(frames)
						if one(frames[j]) != want[j] {
							bad.Add(1)
							first.CompareAndSwap(-1, int64(j))
						}
					}
				}
			}(w)
		}
		close(start)
		wg.Wait()
		// second phase: ALL goroutines decode the SAME frame at the same moment, frame after frame (many decodes of one
		// kind in flight at once)
		for j := range frames {
			if bad.Load() > 0 {
				break
			}
			gate := make(chan struct{})
			var wg2 sync.WaitGroup
			for w := 0; w < g; w++ {
				wg2.Add(1)
				go func() {
					defer wg2.Done()
					<-gate
					for r := 0; r < 12; r++ {
						if one(frames[j]) != want[j] {
							bad.Add(1)
							first.CompareAndSwap(-1, int64(j))
						}
					}
				}()
			}
			close(gate)
			wg2.Wait()
		}
		if bad.Load() > 0 {
			j := first.Load()
			return fmt.Sprintf("differ %d results differ from the sequential ones, e.g. frame %s: sequentially %.80s", bad.Load(), hx(frames[j]), want[j])
		}
		return fmt.Sprintf("same %d", len(frames))
	}
	// concenc <goroutines> <seed> <ms>: every goroutine owns one API-built message (flow-mods with learn / conntrack / NAT
	// actions, group-mods, packet-outs, vendor messages …) and encodes it over and over for <ms> milliseconds while all
	// the others do the same with theirs: every encoding must equal the one computed sequentially beforehand
	runners["concenc"] = func(a []string) string {
		g, seed, ms := atoi(a[0]), int64(atoi(a[1])), atoi(a[2])
		ctx := &Ctx{rng: newRand(seed), tier: "quick", stats: map[string]int{}, iso: true}
		for _, gen := range ofGens {
			gen(ctx)
		}
		var progs []string
		for _, l := range ctx.queue {
			if strings.HasPrefix(l, "api ") {
				p := strings.TrimPrefix(l, "api ")
				if isTopLevel(p) && (strings.Contains(p, "NXActionLearn") || strings.Contains(p, "NXActionCTNAT") || len(progs)%4 == 0) {
					progs = append(progs, p)
				}
			}
		}
		if len(progs) == 0 {
			return "noprogs"
		}
		type own struct {
			v    reflect.Value
			m    util.Message
			want []byte
		}
		owns := make([]own, g)
		for w := 0; w < g; w++ {
			src := progs[(w*7+int(seed))%len(progs)]
			if w%4 != 3 {
				// a bare learn action with three immediate ("from value") specs whose values are this goroutine's own
				fh := "MatchField(1,3,0,4,0,~,~)"
				src = fmt.Sprintf("NXActionLearn(NXActionHeader(ActionHeader(65535,10),8992,16),10,20,30,%d,0,1,0,0,0,["+
					"NXLearnSpec(NXLearnSpecHeader(1,0,0,16,2),~,NXLearnSpecField(%s,0),x%04x),"+
					"NXLearnSpec(NXLearnSpecHeader(1,1,0,32,2),~,NXLearnSpecField(%s,0),x%08x),"+
					"NXLearnSpec(NXLearnSpecHeader(1,1,0,48,2),~,NXLearnSpecField(%s,0),x%012x)],x)",
					w, fh, 0xa000+w, fh, 0xb0000000+w*0x0101, fh, 0xc00000000000+w*0x010101)
			}
			v, e := valueOf(src)
			if e != "" {
				return "noprog " + e
			}
			b, ok := marshalOf(v)
			if !ok {
				b = nil
			}
			m, _ := v.Interface().(util.Message)
			owns[w] = own{v, m, append([]byte(nil), b...)}
		}
		var bad atomic.Int64
		var wg sync.WaitGroup
		start := make(chan struct{})
		deadline := time.Now().Add(time.Duration(ms) * time.Millisecond)
		for w := 0; w < g; w++ {
			wg.Add(1)
			go func(w int) {
				defer wg.Done()
				defer func() {
					if recover() != nil {
						bad.Add(1)
					}
				}()
				<-start
				for time.Now().Before(deadline) {
					for r := 0; r < 200; r++ {
						var b []byte
						var ok bool
						if owns[w].m != nil {
							bb, err := owns[w].m.MarshalBinary() // direct call: no reflection between the iterations
							b, ok = bb, err == nil
						} else {
							b, ok = marshalOf(owns[w].v)
						}
						if ok && !bytes.Equal(b, owns[w].want) {
							bad.Add(1)
							return
						}
					}
				}
			}(w)
		}
		close(start)
		wg.Wait()
		if bad.Load() > 0 {
			return fmt.Sprintf("differ %d goroutines saw an encoding of their own message that differs from the sequential one", bad.Load())
		}
		return fmt.Sprintf("same %d", g)
	}
	// conclookup <goroutines> <seed>: concurrent registry lookups and generic builder calls with names in spellings the
	// process has not seen before (random upper/lower case), compared with a sequential reference built from the
	// canonical names: independent values built concurrently = the values built one after another
	runners["conclookup"] = func(a []string) string {
		g := atoi(a[0])
		rng := newRand(int64(atoi(a[1])))
		names := namesFrom(verifRoot() + "/lean/OFV/Gen/Registry.lean")
		if len(names) == 0 {
			return "nonames"
		}
		type job struct {
			name, spelled string
			val           uint32
		}
		var jobs []job
		for i := 0; i < 40*g; i++ {
			n := names[rng.Intn(len(names))]
			sp := []byte(n)
			for k := range sp {
				if rng.Intn(2) == 0 && sp[k] >= 'A' && sp[k] <= 'Z' {
					sp[k] += 'a' - 'A'
				}
			}
			jobs = append(jobs, job{n, string(sp), rng.Uint32()})
		}
		ref := func(name string) string {
			f, err := of.FindFieldHeaderByName(name, false)
			if err != nil {
				return "err"
			}
			return fmt.Sprintf("%d/%d/%d/%v", f.Class, f.Field, f.Length, f.HasMask)
		}
		want := make([]string, len(jobs))
		for i, j := range jobs {
			want[i] = ref(j.name)
		}
		var bad atomic.Int64
		var wg sync.WaitGroup
		for w := 0; w < g; w++ {
			wg.Add(1)
			go func(w int) {
				defer wg.Done()
				for i := w; i < len(jobs); i += g {
					if ref(jobs[i].spelled) != want[i] {
						bad.Add(1)
					}
				}
			}(w)
		}
		wg.Wait()
		if bad.Load() > 0 {
			return fmt.Sprintf("differ %d", bad.Load())
		}
		return fmt.Sprintf("same %d", len(jobs))
	}
	// concdhcp <goroutines> <n each>: DHCP requests whose transaction id the library picks (xid 0), built concurrently;
	// ids from a sound generator collide about n^2/2^33 times — more than a handful of duplicates means the generator's
	// state is shared without synchronisation
	runners["concdhcp"] = func(a []string) string {
		g, n := atoi(a[0]), atoi(a[1])
		ids := make([][]uint32, g)
		var wg sync.WaitGroup
		hw := net.HardwareAddr{2, 0, 0, 0, 0, 1}
		for w := 0; w < g; w++ {
			wg.Add(1)
			go func(w int) {
				defer wg.Done()
				for i := 0; i < n; i++ {
					d, err := protocol.NewDHCPDiscover(0, hw)
					if err != nil {
						return
					}
					ids[w] = append(ids[w], d.Xid)
				}
			}(w)
		}
		wg.Wait()
		seen := map[uint32]int{}
		total, dup := 0, 0
		for _, l := range ids {
			for _, x := range l {
				seen[x]++
				total++
			}
		}
		for _, k := range seen {
			if k > 1 {
				dup += k - 1
			}
		}
		if total != g*n {
			return fmt.Sprintf("differ built %d of %d", total, g*n)
		}
		if dup > 3 {
			return fmt.Sprintf("differ %d duplicate transaction ids among %d", dup, total)
		}
		return fmt.Sprintf("same %d", total)
	}
	// xtalk <seed> <programs>: no cross-talk between independent values through library state: every API program
	// gives the same observation before and after the process parsed the traffic of a peer that leaves garbage in
	// every padding field
	runners["xtalk"] = func(a []string) string { return runXtalk(int64(atoi(a[0])), atoi(a[1])) }
	families["C14"] = func(c *Ctx) {
		if c.only == nil || c.only["xtalk"] {
			line := fmt.Sprintf("xtalk %d %d", c.rng.Intn(100000), 1000000)
			c.emit(line, runIsolatedOnce(line))
		}
		if c.only == nil || c.only["indep"] {
			line := fmt.Sprintf("indep %d", c.rng.Intn(100000))
			c.emit(line, runIsolatedOnce(line))
		}
		if c.only == nil || c.only["concdhcp"] {
			line := "concdhcp 16 2000"
			c.emit(line, runIsolatedOnce(line))
		}
		if c.only == nil || c.only["concenc"] {
			ms := 3000
			if c.thorough() {
				ms = 8000
			}
			line := fmt.Sprintf("concenc 64 %d %d", c.rng.Intn(100000), ms)
			c.emit(line, runIsolatedOnce(line))
		}
		for _, g := range []int{8, 64} {
			if c.only == nil || c.only["concparse"] {
				line := fmt.Sprintf("concparse %d %d", g, c.rng.Intn(100000))
				c.emit(line, runIsolatedOnce(line))
			}
		}
		for _, g := range []int{4, 16, 64} {
			// in a process of its own: a data race on a Go map is a fatal error that cannot be recovered
			if c.only == nil || c.only["conclookup"] {
				line := fmt.Sprintf("conclookup %d %d", g, c.rng.Intn(100000))
				c.emit(line, runIsolatedOnce(line))
			}
		}
		for _, g := range []int{2, 3, 4, 8, 16, 32, 64} {
			for _, n := range []int{1, 10, 1000} {
				c.run("xids", g, n)
			}
		}
		c.run("xids", 64, 20000)
		for _, g := range []int{2, 4, 16, 64} {
			c.run("conc", g, c.rng.Intn(100000))
		}
		if c.thorough() {
			for i := 0; i < 40; i++ {
				c.run("xids", 2+c.rng.Intn(63), 1+c.rng.Intn(5000))
				c.run("conc", 2+c.rng.Intn(63), c.rng.Intn(100000))
			}
		}
	}
}

func runXtalk(seed int64, n int) string {
	ctx := &Ctx{rng: newRand(seed), tier: "quick", stats: map[string]int{}, iso: true}
	for _, g := range ofGens {
		g(ctx)
	}
	var progs []string
	for _, l := range ctx.queue {
		if strings.HasPrefix(l, "api ") {
			progs = append(progs, strings.TrimPrefix(l, "api "))
		}
	}
	if len(progs) > n {
		progs = progs[:n]
	}
	obs := func(p string) string { return guard(func() string { return runProg(p) }) }
	before := make([]string, len(progs))
	for i, p := range progs {
		before[i] = obs(p)
	}
	padByte = 0xa5
	g := &swGen{r: newRand(seed + 1)}
	var frames [][]byte
	for k := 0; k < swKinds; k++ {
		for i := 0; i < 8; i++ {
			fr, _ := g.message(k)
			frames = append(frames, fr)
		}
	}
	padByte = 0
	var keep []interface{}
	for _, fr := range frames {
		func() {
			defer func() { recover() }()
			m, _ := of.Parse(append([]byte(nil), fr...))
			keep = append(keep, m)
		}()
	}
	for i, p := range progs {
		if after := obs(p); after != before[i] {
			if len(p) > 400 {
				p = p[:400] + "…"
			}
			return fmt.Sprintf("differ program %d gives another result after unrelated traffic was parsed: %s", i, p)
		}
	}
	runtime.KeepAlive(keep)
	return fmt.Sprintf("same %d", len(progs))
}

// concCases: encoder/builder cases from the OF generators (no decoders: those may spin on the pinned tree).
func concCases(seed int64, n int) []string {
	ctx := &Ctx{rng: newRand(seed), tier: "quick", stats: map[string]int{}, iso: true}
	for _, g := range ofGens {
		g(ctx)
	}
	var pool []string
	for _, l := range ctx.queue {
		if strings.HasPrefix(l, "enc ") || strings.HasPrefix(l, "prog ") {
			pool = append(pool, l)
		}
	}
	if len(pool) == 0 {
		return []string{"enc Header(4,0,8,1)"}
	}
	var out []string
	for i := 0; i < n; i++ {
		out = append(out, pool[ctx.rng.Intn(len(pool))])
	}
	return out
}

// normXid blanks transaction ids in an observation (they legitimately differ between runs).
func normXid(s string) string { return s }

// ---- outbound -----------------------------------------------------------------------------------

// runOutboundFault: one producer, n frames; the failAt-th Write accepts `accept` bytes and times out. Whatever the
// writer does next (the pinned code gives up: log.Fatalf), the wire must stay a prefix of the submitted frames in
// order — a message's bytes never appear twice, truncated or out of order.
func runOutboundFault(n, failAt, accept int, seed int64) string {
	conn := &scriptConn{done: make(chan struct{}), failWrite: failAt, failAccept: accept}
	var exited atomic.Bool
	logrus.StandardLogger().ExitFunc = func(int) { exited.Store(true); runtime.Goexit() }
	defer func() { logrus.StandardLogger().ExitFunc = nil }()
	m := util.NewMessageStream(conn, &recParser{inFlight: map[*byte]bool{}})
	var want []byte
	go func() {
		for k := 0; k < n; k++ {
			sz := 16 + int(uint32(k*37+int(seed))%200)
			if k%5 == 3 {
				sz = 2500 + k*10
			}
			f := frame(sz, uint32(k))
			select {
			case m.Outbound <- &recMsg{data: f}:
			case <-time.After(300 * time.Millisecond):
				return
			}
		}
	}()
	for k := 0; k < n; k++ {
		sz := 16 + int(uint32(k*37+int(seed))%200)
		if k%5 == 3 {
			sz = 2500 + k*10
		}
		want = append(want, frame(sz, uint32(k))...)
	}
	time.Sleep(400 * time.Millisecond)
	conn.mu.Lock()
	var wire []byte
	for _, w := range conn.writes {
		wire = append(wire, w...)
	}
	conn.mu.Unlock()
	if len(wire) > len(want) || !bytes.Equal(wire, want[:len(wire)]) {
		k := 0
		for k < len(wire) && k < len(want) && wire[k] == want[k] {
			k++
		}
		return fmt.Sprintf("bad: the wire is not a prefix of the submitted frames (first difference at byte %d of %d written)", k, len(wire))
	}
	return "prefix ok"
}

// lateConn looks at the bytes it was handed only at the END of a slow Write (as a kernel copying from user memory under
// back-pressure does): a sender that recycles the buffer before Write returns is exposed.
type lateConn struct {
	scriptConn
	delay time.Duration
}

func (c *lateConn) Write(b []byte) (int, error) {
	time.Sleep(c.delay)
	runtime.Gosched()
	c.mu.Lock()
	defer c.mu.Unlock()
	c.writes = append(c.writes, append([]byte(nil), b...))
	return len(b), nil
}

// realMessage builds the k-th message stream s submits; equal arguments give equal, independent values
func realMessage(s, k int, seed int64) util.Message {
	tag := uint32(s+1)<<16 | uint32(k)
	switch (k + s) % 4 {
	case 0, 1:
		po := of.NewPacketOut()
		po.Xid = tag
		po.InPort = uint32(s + 1)
		po.AddAction(of.NewActionOutput(uint32(k + 1)))
		// actions holding POINTERS to match fields built from the registry, a different value in every message
		switch k % 3 {
		case 0:
			po.AddAction(of.NewNXActionRegLoad2(of.NewCTMarkMatchField(0x11110000+tag, nil)))
		case 1:
			po.AddAction(of.NewNXActionRegLoad2(of.NewCTZoneMatchField(uint16(tag))))
		default:
			if f, err := of.NewMatchField[uint32, int]("NXM_NX_REG5", uint32(tag)|0x80000000); err == nil {
				po.AddAction(of.NewNXActionRegLoad2(f))
			}
		}
		n := 40 + int(uint32(k*53+s*17+int(seed))%900)
		d := make([]byte, n)
		for i := range d {
			d[i] = byte(int(tag) + i*7)
		}
		po.Data = util.NewBuffer(d)
		return po
	case 2:
		fm := of.NewFlowMod()
		fm.Xid = tag
		fm.Priority = uint16(k)
		fm.Match.AddField(*of.NewInPortField(uint32(s + 1)))
		in := of.NewInstrApplyActions()
		in.AddAction(of.NewActionOutput(uint32(k+1)), false)
		fm.AddInstruction(in)
		return fm
	default:
		e := of.NewEchoRequest()
		e.Xid = tag
		return e
	}
}

type ofOnlyParser struct{}

func (ofOnlyParser) Parse(b []byte) (util.Message, error) { return of.Parse(b) }

// runOutLoop: n packet-in frames (payload: an Ethernet frame of an ethertype the library keeps as opaque bytes, an ARP
// frame, or IPv4/UDP) arrive on a stream; for each delivered packet-in the consumer submits a packet-out whose Data is
// the received packet (the object the parser built). What must appear on the wire for it is the encoding the message
// had when it was submitted. The writer is slow, so messages wait in the queue while the inbound buffers are recycled.
func runOutLoop(n int, seed int64) string {
	rng := newRand(seed)
	var in []byte
	for k := 0; k < n; k++ {
		var eth []byte
		pay := make([]byte, 20+rng.Intn(60))
		for i := range pay {
			pay[i] = byte(k + 1)
		}
		switch k % 3 {
		case 0: // experimental ethertype: opaque payload
			eth = nb().hex("0102030405060a0b0c0d0e0f88b5").raw(pay).b
		case 1: // IPv4 with an unknown protocol: opaque payload behind the IPv4 header
			eth = nb().hex("0102030405060a0b0c0d0e0f0800").u8(0x45, 0).u16(20+len(pay), k, 0).u8(64, 253).u16(0).u32(0x0a000001, 0x0a000002).raw(pay).b
		default: // IPv4 / UDP
			eth = nb().hex("0102030405060a0b0c0d0e0f0800").u8(0x45, 0).u16(28+len(pay), k, 0).u8(64, 17).u16(0).u32(0x0a000001, 0x0a000002).u16(1000+k, 53, 8+len(pay), 0).raw(pay).b
		}
		body := nb().u32(0xffffffff).u16(len(eth)).u8(0, 0).q(uint64(k)).raw(msgMatchBytes(1)).z(2).raw(eth).b
		in = append(in, ofFrame(10, uint32(k+1), body)...)
	}
	var chunks [][]byte
	for rest := in; len(rest) > 0; {
		cs := 1 + rng.Intn(900)
		if cs > len(rest) {
			cs = len(rest)
		}
		chunks = append(chunks, rest[:cs])
		rest = rest[cs:]
	}
	conn := &lateConn{scriptConn: scriptConn{done: make(chan struct{}), chunks: chunks}, delay: 300 * time.Microsecond}
	m := util.NewMessageStream(conn, ofOnlyParser{})
	var want [][]byte
	got := 0
	timeout := time.After(20 * time.Second)
	for got < n {
		select {
		case msg := <-m.Inbound:
			pin, ok := msg.(*of.PacketIn)
			if !ok {
				return fmt.Sprintf("bad: delivered %T", msg)
			}
			po := of.NewPacketOut()
			po.Xid = pin.Xid
			po.InPort = 7
			po.AddAction(of.NewActionOutput(uint32(got + 1)))
			po.Data = &pin.Data
			b, err := po.MarshalBinary()
			if err != nil {
				return "bad: packet-out does not encode"
			}
			want = append(want, append([]byte(nil), b...))
			select {
			case m.Outbound <- po:
			case <-timeout:
				return "timeout: outbound queue blocked"
			}
			got++
		case err := <-m.Error:
			return fmt.Sprintf("bad: stream error %v", err)
		case <-timeout:
			return fmt.Sprintf("timeout: %d of %d packet-ins delivered", got, n)
		}
	}
	deadline := time.Now().Add(10 * time.Second)
	for {
		conn.mu.Lock()
		k := len(conn.writes)
		conn.mu.Unlock()
		if k >= n {
			break
		}
		if time.Now().After(deadline) {
			return fmt.Sprintf("bad: %d of %d packet-outs written", k, n)
		}
		time.Sleep(time.Millisecond)
	}
	conn.mu.Lock()
	ws := conn.writes
	conn.mu.Unlock()
	for k, w := range ws[:n] {
		if !bytes.Equal(w, want[k]) {
			return fmt.Sprintf("bad: packet-out %d on the wire is not the encoding the message had when it was submitted", k)
		}
	}
	return fmt.Sprintf("ok %d", n)
}

func runOutboundReal(nstreams, nmsg int, seed int64) string {
	// what each connection must carry: the encodings of equal twin values, computed before any stream exists
	want := make([][][]byte, nstreams)
	for s := 0; s < nstreams; s++ {
		for k := 0; k < nmsg; k++ {
			b, err := realMessage(s, k, seed).MarshalBinary()
			if err != nil {
				return "bad: twin does not encode"
			}
			want[s] = append(want[s], append([]byte(nil), b...))
		}
	}
	conns := make([]*lateConn, nstreams)
	streams := make([]*util.MessageStream, nstreams)
	for s := range conns {
		conns[s] = &lateConn{scriptConn: scriptConn{done: make(chan struct{})}, delay: time.Duration(20+17*s) * time.Microsecond}
		streams[s] = util.NewMessageStream(conns[s], &recParser{inFlight: map[*byte]bool{}})
	}
	var wg sync.WaitGroup
	stuck := make(chan struct{})
	for s := 0; s < nstreams; s++ {
		wg.Add(1)
		go func(s int) {
			defer wg.Done()
			for k := 0; k < nmsg; k++ {
				select {
				case streams[s].Outbound <- realMessage(s, k, seed):
				case <-stuck:
					return
				}
			}
		}(s)
	}
	fin := make(chan struct{})
	go func() { wg.Wait(); close(fin) }()
	select {
	case <-fin:
	case <-time.After(5 * time.Second):
		close(stuck)
		return "timeout: producers blocked"
	}
	deadline := time.Now().Add(3 * time.Second)
	for s := 0; s < nstreams; s++ {
		for {
			conns[s].mu.Lock()
			n := len(conns[s].writes)
			conns[s].mu.Unlock()
			if n >= nmsg {
				break
			}
			if time.Now().After(deadline) {
				return fmt.Sprintf("bad: connection %d carried %d of %d messages", s, n, nmsg)
			}
			time.Sleep(200 * time.Microsecond)
		}
	}
	for s := 0; s < nstreams; s++ {
		streams[s].Shutdown <- true
		conns[s].mu.Lock()
		ws := conns[s].writes
		conns[s].mu.Unlock()
		if len(ws) != nmsg {
			return fmt.Sprintf("bad: connection %d carried %d writes for %d messages", s, len(ws), nmsg)
		}
		for k, w := range ws {
			if !bytes.Equal(w, want[s][k]) {
				return fmt.Sprintf("bad: connection %d, message %d: the bytes on the wire are not the submitted message's encoding (%d bytes written, %d expected)", s, k, len(w), len(want[s][k]))
			}
		}
	}
	return fmt.Sprintf("ok %d", nstreams*nmsg)
}

func runOutbound(nprod, nmsg int, seed int64) string {
	y := yielder(seed)
	conn := &scriptConn{done: make(chan struct{}), yield: y}
	m := util.NewMessageStream(conn, &recParser{inFlight: map[*byte]bool{}})
	var wg sync.WaitGroup
	abort := make(chan struct{})
	for p := 0; p < nprod; p++ {
		wg.Add(1)
		go func(p int) {
			defer wg.Done()
			for k := 0; k < nmsg; k++ {
				sz := 8 + int(uint32(p*131+k*17+int(seed))%97)
				if (p+k)%23 == 0 {
					sz = 3000 + (p*k)%4000
				}
				y()
				select {
				case m.Outbound <- &recMsg{data: frame(sz, uint32(p)<<16|uint32(k))}:
				case <-abort:
					return
				}
			}
		}(p)
	}
	prodDone := make(chan struct{})
	go func() { wg.Wait(); close(prodDone) }()
	select {
	case <-prodDone:
	case <-time.After(4 * time.Second):
		close(abort)
		<-prodDone
		return "timeout: producers blocked (the writer stopped draining m.Outbound)"
	}
	deadline := time.Now().Add(2 * time.Second)
	for {
		conn.mu.Lock()
		n := len(conn.writes)
		conn.mu.Unlock()
		if n >= nprod*nmsg {
			break
		}
		if time.Now().After(deadline) {
			return fmt.Sprintf("bad writes=%d of %d after all producers finished", n, nprod*nmsg)
		}
		time.Sleep(100 * time.Microsecond)
	}
	time.Sleep(2 * time.Millisecond) // a spurious extra write would show up now
	m.Shutdown <- true
	conn.mu.Lock()
	writes := conn.writes
	conn.mu.Unlock()
	if len(writes) != nprod*nmsg {
		return fmt.Sprintf("bad writes=%d", len(writes))
	}
	// each Write is exactly one submitted encoding; per producer in order; each exactly once
	next := make([]int, nprod)
	var stream []byte
	for i, w := range writes {
		stream = append(stream, w...)
		if len(w) < 8 || int(binary.BigEndian.Uint16(w[2:])) != len(w) {
			return fmt.Sprintf("bad write %d is not one whole frame", i)
		}
		tag := binary.BigEndian.Uint32(w[4:])
		p, k := int(tag>>16), int(tag&0xffff)
		if p >= nprod || k != next[p] {
			return fmt.Sprintf("bad order producer %d got %d want %d", p, k, next[p])
		}
		if !bytes.Equal(w, frame(len(w), tag)) {
			return fmt.Sprintf("bad content in write %d", i)
		}
		next[p]++
	}
	// the byte stream re-framed by header length gives the same frames
	cnt := 0
	for len(stream) >= 8 {
		l := int(binary.BigEndian.Uint16(stream[2:]))
		if l < 8 || l > len(stream) {
			return "bad reframing"
		}
		stream = stream[l:]
		cnt++
	}
	if len(stream) != 0 || cnt != nprod*nmsg {
		return "bad reframing"
	}
	return fmt.Sprintf("ok %d", cnt)
}

// concFrames: frames of every switch-sent kind from the independent encoder, the library's own encodings of API-built
// top-level messages, and bundle-adds nested 1..6 deep
func concFrames(seed int64) [][]byte {
	sg := &swGen{r: newRand(seed)}
	var frames [][]byte
	for k := 0; k < swKinds; k++ {
		for i := 0; i < 3; i++ {
			fr, _ := sg.message(k)
			frames = append(frames, fr)
		}
	}
	ctx := &Ctx{rng: newRand(seed + 7), tier: "quick", stats: map[string]int{}, iso: true}
	for _, gen := range ofGens {
		gen(ctx)
	}
	n := 0
	for _, l := range ctx.queue {
		if !strings.HasPrefix(l, "api ") {
			continue
		}
		p := strings.TrimPrefix(l, "api ")
		if j := strings.LastIndex(p, ";!"); j > 0 && isTopLevel(p) {
			if b := marshalProg(p[:j], p[j+2:]); len(b) >= 8 {
				frames = append(frames, b)
				n++
			}
		}
		if n >= 150 {
			break
		}
	}
	// bundle-adds nested 1..6 deep around an echo request (a decoder that recurses into Parse)
	for depth := 1; depth <= 6; depth++ {
		prog := "m0=NewEchoRequest();$m0.Xid=77"
		for d := 1; d <= depth; d++ {
			prog += fmt.Sprintf(";a%d=BundleAdd(%d,x0000,3,~,[]);$a%d.Message=$m%d;m%d=NewBundleAdd($a%d);h%d=Header(4,4,8,%d);$m%d.Header=*$h%d",
				d, d, d, d-1, d, d, d, 100+d, d, d)
		}
		if b := marshalProg(prog, fmt.Sprintf("m%d", depth)); len(b) >= 8 {
			frames = append(frames, b)
		}
	}
	// typical traffic: flow-mods, flow-removed and packet-ins whose matches carry the constants real networks are full of
	// (IPv4 / ARP / IPv6 / LLDP ethertypes, TCP / UDP / ICMPv6, ports 80 / 443 / 53)
	for _, et := range []int{0x0800, 0x0806, 0x86dd, 0x88cc, 0x8100} {
		for _, pr := range []int{6, 17, 1, 58} {
			tlvs := nb().hex("80000004").u32(uint32(1+pr)).hex("80000a02").u16(et).hex("80001401").u8(pr)
			if pr == 6 {
				tlvs.hex("80001c02").u16([]int{80, 443}[et%2])
			} else if pr == 17 {
				tlvs.hex("80002002").u16(53)
			}
			ml := 4 + len(tlvs.b)
			match := nb().u16(1, ml).raw(tlvs.b).z((8 - ml%8) % 8).b
			fm := nb().u32(0, 1, 0, 0).u8(0, 0).u16(0, 0, 100).u32(0xffffffff, 0xffffffff, 0xffffffff).u16(0, 0).raw(match).b
			frames = append(frames, ofFrame(14, uint32(et*256+pr), fm))
			fr := nb().u32(0, 7).u16(100).u8(0, 0).u32(5, 6).u16(10, 20).u32(0, 9, 0, 900).raw(match).b
			frames = append(frames, ofFrame(11, uint32(et*256+pr+1), fr))
		}
	}
	return frames
}

// scribbleDeep overwrites everything reachable from v: every integer is complemented, every byte of every slice inverted
// in place (pointers, interfaces, slices, arrays and unexported fields are followed)
func scribbleDeep(v reflect.Value, seen map[uintptr]bool, depth int) {
	if depth > 40 {
		return
	}
	switch v.Kind() {
	case reflect.Ptr:
		if v.IsNil() || seen[v.Pointer()] {
			return
		}
		seen[v.Pointer()] = true
		scribbleDeep(v.Elem(), seen, depth+1)
	case reflect.Interface:
		if !v.IsNil() {
			e := v.Elem()
			if e.Kind() == reflect.Ptr {
				scribbleDeep(e, seen, depth+1)
			}
		}
	case reflect.Struct:
		for i := 0; i < v.NumField(); i++ {
			f := v.Field(i)
			if !f.CanSet() && f.CanAddr() {
				f = reflect.NewAt(f.Type(), unsafe.Pointer(f.UnsafeAddr())).Elem()
			}
			scribbleDeep(f, seen, depth+1)
		}
	case reflect.Slice, reflect.Array:
		for i := 0; i < v.Len(); i++ {
			scribbleDeep(v.Index(i), seen, depth+1)
		}
	case reflect.Uint8, reflect.Uint16, reflect.Uint32, reflect.Uint64, reflect.Uint:
		if v.CanSet() {
			v.SetUint(^v.Uint())
		}
	case reflect.Int8, reflect.Int16, reflect.Int32, reflect.Int64, reflect.Int:
		if v.CanSet() {
			v.SetInt(^v.Int())
		}
	case reflect.Bool:
		if v.CanSet() {
			v.SetBool(!v.Bool())
		}
	}
}

func init() {
	// indep <seed>: independent values stay independent: every frame is parsed twice (from two copies); the second result
	// is encoded; then everything reachable from the FIRST result is overwritten in place (as its owner may do); the
	// second result must still encode to the same bytes, and a third parse of the frame must too
	runners["indep"] = func(a []string) string {
		frames := concFrames(int64(atoi(a[0])))
		parse := func(fr []byte) (reflect.Value, bool) {
			outs := funcReg["Parse"].Call([]reflect.Value{reflect.ValueOf(append([]byte(nil), fr...))})
			if !outs[1].IsNil() || outs[0].IsNil() || (outs[0].Elem().Kind() == reflect.Ptr && outs[0].Elem().IsNil()) {
				return reflect.Value{}, false
			}
			return outs[0].Elem(), true
		}
		n := 0
		for k, fr := range frames {
			res := guard(func() string {
				m1, ok1 := parse(fr)
				m2, ok2 := parse(fr)
				if !ok1 || !ok2 {
					return "skip"
				}
				b2, okb := marshalOf(m2)
				if !okb {
					return "skip"
				}
				scribbleDeep(m1, map[uintptr]bool{}, 0)
				b2b, _ := marshalOf(m2)
				if hx(b2) != hx(b2b) {
					return fmt.Sprintf("frame %d (%s…): after the owner of one parsed copy overwrote it, the other copy encodes to %s… instead of %s…", k, hx(fr[:min(len(fr), 24)]), hx(b2b[:min(len(b2b), 48)]), hx(b2[:min(len(b2), 48)]))
				}
				m3, ok3 := parse(fr)
				if !ok3 {
					return fmt.Sprintf("frame %d (%s…): no longer parses after a parsed copy was overwritten", k, hx(fr[:min(len(fr), 24)]))
				}
				b3, _ := marshalOf(m3)
				if hx(b3) != hx(b2) {
					return fmt.Sprintf("frame %d (%s…): a later parse of the same frame encodes to %s… instead of %s…", k, hx(fr[:min(len(fr), 24)]), hx(b3[:min(len(b3), 48)]), hx(b2[:min(len(b2), 48)]))
				}
				return "ok"
			})
			if res == "ok" {
				n++
			} else if res != "skip" {
				return "differ " + res
			}
		}
		return fmt.Sprintf("same %d", n)
	}
}
