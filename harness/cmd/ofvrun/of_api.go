package main

// generator of VALID API histories ("api" op): every argument within the range its field admits, children
// finished before they are added, every variable used once.  The property oracles (C01 framing, C02 grammar walk,
// C03 field decode, C06 sizes) are evaluated on the implementation's observation of these programs.

import (
	"fmt"
	"strings"
)

type apiGen struct {
	c    *Ctx
	n    int
	stmt []string
}

func (g *apiGen) v() string { g.n++; return fmt.Sprintf("v%d", g.n) }

func (g *apiGen) add(format string, a ...interface{}) { g.stmt = append(g.stmt, fmt.Sprintf(format, a...)) }

func (g *apiGen) emit(obs string) {
	g.c.run("api", strings.Join(g.stmt, ";")+";!"+obs)
	g.stmt = nil
}

func (g *apiGen) edge(max uint64) uint64 {
	switch g.c.rng.Intn(7) {
	case 0:
		return 0
	case 1:
		return 1
	case 2:
		return max
	case 3:
		return max - 1
	case 4:
		return 0x1122334455667788 & max
	}
	return g.c.rng.Uint64() & max
}

func (g *apiGen) bytes(n int) string {
	b := make([]byte, n)
	switch g.c.rng.Intn(4) {
	case 0:
		for i := range b {
			b[i] = byte(0x11 * (i + 1))
		}
	case 1:
		for i := range b {
			b[i] = 0xff
		}
	default:
		g.c.rng.Read(b)
	}
	return "x" + hx(b)[0:2*n]
}

func (g *apiGen) maybe(s string) string {
	if g.c.rng.Intn(2) == 0 {
		return "~"
	}
	return s
}

// one match field through its constructor, with in-range arguments; returns the variable name
func (g *apiGen) field() string {
	v := g.v()
	r := g.c.rng
	u := func(max uint64) string { return fmt.Sprint(g.edge(max)) }
	switch r.Intn(40) {
	case 0:
		g.add("%s=NewInPortField(%s)", v, u(0xffffffff))
	case 1:
		g.add("%s=NewEthDstField(%s,%s)", v, g.bytes(6), g.maybe(g.bytes(6)))
	case 2:
		g.add("%s=NewEthSrcField(%s,%s)", v, g.bytes(6), g.maybe(g.bytes(6)))
	case 3:
		g.add("%s=NewEthTypeField(%s)", v, u(0xffff))
	case 4:
		g.add("%s=NewVlanIdField(%s,%s)", v, u(0xfff), g.maybe(u(0x1fff)))
	case 5:
		g.add("%s=NewMplsLabelField(%s)", v, u(0xfffff))
	case 6:
		g.add("%s=NewMplsBosField(%s)", v, u(1))
	case 7:
		g.add("%s=NewIpv4SrcField(%s,%s)", v, g.bytes(4), g.maybe(g.bytes(4)))
	case 8:
		g.add("%s=NewIpv4DstField(%s,%s)", v, g.bytes(4), g.maybe(g.bytes(4)))
	case 9:
		g.add("%s=NewIpv6SrcField(%s,%s)", v, g.bytes(16), g.maybe(g.bytes(16)))
	case 10:
		g.add("%s=NewIpv6DstField(%s,%s)", v, g.bytes(16), g.maybe(g.bytes(16)))
	case 11:
		g.add("%s=NewIPV6FlowLabelField(%s,%s)", v, u(0xfffff), g.maybe(u(0xfffff)))
	case 12:
		g.add("%s=NewIpProtoField(%s)", v, u(0xff))
	case 13:
		g.add("%s=NewIpDscpField(%s)", v, u(0x3f))
	case 14:
		g.add("%s=NewTunnelIdField(%s)", v, u(^uint64(0)))
	case 15:
		g.add("%s=NewMetadataField(%s,%s)", v, u(^uint64(0)), g.maybe(u(^uint64(0))))
	case 16:
		g.add("%s=NewTcpSrcField(%s)", v, u(0xffff))
	case 17:
		g.add("%s=NewTcpDstField(%s)", v, u(0xffff))
	case 18:
		g.add("%s=NewUdpSrcField(%s)", v, u(0xffff))
	case 19:
		g.add("%s=NewUdpDstField(%s)", v, u(0xffff))
	case 20:
		g.add("%s=NewTcpFlagsField(%s,%s)", v, u(0xfff), g.maybe(u(0xfff)))
	case 21:
		g.add("%s=NewArpOperField(%s)", v, u(0xffff))
	case 22:
		g.add("%s=NewTunnelIpv4SrcField(%s,%s)", v, g.bytes(4), g.maybe(g.bytes(4)))
	case 23:
		g.add("%s=NewTunnelIpv4DstField(%s,%s)", v, g.bytes(4), g.maybe(g.bytes(4)))
	case 24:
		g.add("%s=NewSctpDstField(%s)", v, u(0xffff))
	case 25:
		g.add("%s=NewSctpSrcField(%s)", v, u(0xffff))
	case 26:
		g.add("%s=NewArpThaField(%s)", v, g.bytes(6))
	case 27:
		g.add("%s=NewArpShaField(%s)", v, g.bytes(6))
	case 28:
		g.add("%s=NewArpTpaField(%s)", v, g.bytes(4))
	case 29:
		g.add("%s=NewArpSpaField(%s)", v, g.bytes(4))
	case 30:
		g.add("%s=NewActsetOutputField(%s)", v, u(0xffffffff))
	case 31:
		g.add("%s=NewIcmpCodeField(%s)", v, u(0xff))
	case 32:
		g.add("%s=NewIcmpTypeField(%s)", v, u(0xff))
	case 33:
		// register with an optional bit range
		if r.Intn(2) == 0 {
			g.add("%s=NewRegMatchField(%d,%s,~)", v, r.Intn(16), u(0xffffffff))
		} else {
			s := r.Intn(32)
			e := s + r.Intn(32-s)
			rg := g.v()
			g.add("%s=NewNXRange(%d,%d)", rg, s, e)
			val := (g.edge(0xffffffff) << uint(s)) & (((1 << uint(e-s+1)) - 1) << uint(s))
			g.add("%s=NewRegMatchField(%d,%d,$%s)", v, r.Intn(16), val, rg)
		}
	case 34:
		n := 4 * (1 + r.Intn(31))
		if r.Intn(2) == 0 {
			g.add("%s=NewTunMetadataField(%d,%s,x)", v, r.Intn(8), g.bytes(n))
		} else {
			g.add("%s=NewTunMetadataField(%d,%s,%s)", v, r.Intn(8), g.bytes(n), g.bytes(n))
		}
	case 35:
		st := g.v()
		g.add("%s=NewCTStates()", st)
		names := []string{"New", "Est", "Rel", "Rpl", "Inv", "Trk", "SNAT", "DNAT"}
		for k := r.Intn(5); k > 0; k-- {
			pre := "Set"
			if r.Intn(2) == 0 {
				pre = "Unset"
			}
			g.add("$%s.%s%s()", st, pre, names[r.Intn(8)])
		}
		g.add("%s=NewCTStateMatchField($%s)", v, st)
	case 36:
		g.add("%s=NewCTZoneMatchField(%s)", v, u(0xffff))
	case 37:
		g.add("%s=NewCTMarkMatchField(%s,%s)", v, u(0xffffffff), g.maybe(u(0xffffffff)))
	case 38:
		g.add("%s=NewCTLabelMatchField(%s,%s)", v, g.bytes(16), g.maybe(g.bytes(16)))
	default:
		g.add("%s=NewConjIDMatchField(%s)", v, u(0xffffffff))
	}
	return v
}

// a match with n fields
func (g *apiGen) match(n int) string {
	m := g.v()
	g.add("%s=NewMatch()", m)
	for i := 0; i < n; i++ {
		f := g.field()
		g.add("$%s.AddField(*$%s)", m, f)
	}
	return m
}

var apiGens []func(g *apiGen)

func init() {
	ofGens = append(ofGens, func(c *Ctx) {
		g := &apiGen{c: c}
		rounds := 40
		if c.thorough() {
			rounds = 1500
		}
		for i := 0; i < rounds; i++ {
			f := g.field()
			g.emit(f)
			for _, n := range []int{0, 1, 2, 3, 7} {
				m := g.match(n)
				g.emit(m)
			}
			for _, ag := range apiGens {
				ag(g)
			}
		}
		// a match with many fields, up to the size limit
		m := g.match(200 + c.rng.Intn(200))
		g.emit(m)
	})
}
