package main

// generator of VALID API histories ("api" op): every argument within the range its field admits, children
// finished before they are added, every variable used once.  The property oracles (C01 framing, C02 grammar walk,
// C03 field decode, C06 sizes) are evaluated on the implementation's observation of these programs.

import (
	"fmt"
	"strings"
)

type apiGen struct {
	c    *Ctx
	n    int
	stmt []string
}

func (g *apiGen) v() string { g.n++; return fmt.Sprintf("v%d", g.n) }

func (g *apiGen) add(format string, a ...interface{}) {
	g.stmt = append(g.stmt, fmt.Sprintf(format, a...))
}

func (g *apiGen) emit(obs string) {
	g.c.run("api", strings.Join(g.stmt, ";")+";!"+obs)
	g.stmt = nil
}

func (g *apiGen) emitAs(op, obs string) {
	g.c.run(op, strings.Join(g.stmt, ";")+";!"+obs)
	g.stmt = nil
}

// values real traffic is full of (a cache, an interning table or a fast path keyed on them is invisible to uniformly
// random values): ethertypes, well-known ports, IP protocol numbers
var wellKnown16 = []uint64{0x0800, 0x0806, 0x86dd, 0x88cc, 0x8100, 0x8847, 53, 67, 68, 80, 443, 6653}
var wellKnown8 = []uint64{1, 2, 6, 17, 47, 58, 132}

func wellKnownFor(max uint64, pick func(int) int) (uint64, bool) {
	switch max {
	case 0xffff:
		return wellKnown16[pick(len(wellKnown16))], true
	case 0xff:
		return wellKnown8[pick(len(wellKnown8))], true
	}
	return 0, false
}

func (g *apiGen) edge(max uint64) uint64 {
	if g.c.rng.Intn(4) == 0 {
		if v, ok := wellKnownFor(max, g.c.rng.Intn); ok {
			return v
		}
	}
	switch g.c.rng.Intn(7) {
	case 0:
		return 0
	case 1:
		return 1
	case 2:
		return max
	case 3:
		return max - 1
	case 4:
		return 0x1122334455667788 & max
	}
	return g.c.rng.Uint64() & max
}

func (g *apiGen) bytes(n int) string {
	b := make([]byte, n)
	switch g.c.rng.Intn(4) {
	case 0:
		for i := range b {
			b[i] = byte(0x11 * (i + 1))
		}
	case 1:
		for i := range b {
			b[i] = 0xff
		}
	default:
		g.c.rng.Read(b)
	}
	return "x" + hx(b)[0:2*n]
}

func (g *apiGen) maybe(s string) string {
	if g.c.rng.Intn(2) == 0 {
		return "~"
	}
	return s
}

// one match field through its constructor, with in-range arguments; returns the variable name
func (g *apiGen) field() string {
	v := g.v()
	r := g.c.rng
	u := func(max uint64) string { return fmt.Sprint(g.edge(max)) }
	// a sub-width field: mostly values of the field's own width, now and then any value its Go type can hold (the
	// constructor takes the whole container; what it does with the excess must still leave the message framed)
	uw := func(valid, container uint64) string {
		if r.Intn(6) == 0 {
			return fmt.Sprint(g.edge(container))
		}
		return fmt.Sprint(g.edge(valid))
	}
	switch r.Intn(40) {
	case 0:
		g.add("%s=NewInPortField(%s)", v, u(0xffffffff))
	case 1:
		g.add("%s=NewEthDstField(%s,%s)", v, g.bytes(6), g.maybe(g.bytes(6)))
	case 2:
		g.add("%s=NewEthSrcField(%s,%s)", v, g.bytes(6), g.maybe(g.bytes(6)))
	case 3:
		g.add("%s=NewEthTypeField(%s)", v, u(0xffff))
	case 4:
		g.add("%s=NewVlanIdField(%s,%s)", v, u(0xfff), g.maybe(u(0x1fff)))
	case 5:
		g.add("%s=NewMplsLabelField(%s)", v, uw(0xfffff, 0xffffffff))
	case 6:
		g.add("%s=NewMplsBosField(%s)", v, uw(1, 0xff))
	case 7:
		g.add("%s=NewIpv4SrcField(%s,%s)", v, g.bytes(4), g.maybe(g.bytes(4)))
	case 8:
		g.add("%s=NewIpv4DstField(%s,%s)", v, g.bytes(4), g.maybe(g.bytes(4)))
	case 9:
		g.add("%s=NewIpv6SrcField(%s,%s)", v, g.bytes(16), g.maybe(g.bytes(16)))
	case 10:
		g.add("%s=NewIpv6DstField(%s,%s)", v, g.bytes(16), g.maybe(g.bytes(16)))
	case 11:
		g.add("%s=NewIPV6FlowLabelField(%s,%s)", v, u(0xfffff), g.maybe(u(0xfffff)))
	case 12:
		g.add("%s=NewIpProtoField(%s)", v, u(0xff))
	case 13:
		g.add("%s=NewIpDscpField(%s)", v, uw(0x3f, 0xff))
	case 14:
		g.add("%s=NewTunnelIdField(%s)", v, u(^uint64(0)))
	case 15:
		g.add("%s=NewMetadataField(%s,%s)", v, u(^uint64(0)), g.maybe(u(^uint64(0))))
	case 16:
		g.add("%s=NewTcpSrcField(%s)", v, u(0xffff))
	case 17:
		g.add("%s=NewTcpDstField(%s)", v, u(0xffff))
	case 18:
		g.add("%s=NewUdpSrcField(%s)", v, u(0xffff))
	case 19:
		g.add("%s=NewUdpDstField(%s)", v, u(0xffff))
	case 20:
		g.add("%s=NewTcpFlagsField(%s,%s)", v, u(0xfff), g.maybe(u(0xfff)))
	case 21:
		g.add("%s=NewArpOperField(%s)", v, u(0xffff))
	case 22:
		g.add("%s=NewTunnelIpv4SrcField(%s,%s)", v, g.bytes(4), g.maybe(g.bytes(4)))
	case 23:
		g.add("%s=NewTunnelIpv4DstField(%s,%s)", v, g.bytes(4), g.maybe(g.bytes(4)))
	case 24:
		g.add("%s=NewSctpDstField(%s)", v, u(0xffff))
	case 25:
		g.add("%s=NewSctpSrcField(%s)", v, u(0xffff))
	case 26:
		g.add("%s=NewArpThaField(%s)", v, g.bytes(6))
	case 27:
		g.add("%s=NewArpShaField(%s)", v, g.bytes(6))
	case 28:
		g.add("%s=NewArpTpaField(%s)", v, g.bytes(4))
	case 29:
		g.add("%s=NewArpSpaField(%s)", v, g.bytes(4))
	case 30:
		g.add("%s=NewActsetOutputField(%s)", v, u(0xffffffff))
	case 31:
		g.add("%s=NewIcmpCodeField(%s)", v, u(0xff))
	case 32:
		g.add("%s=NewIcmpTypeField(%s)", v, u(0xff))
	case 33:
		// register with an optional bit range
		if r.Intn(2) == 0 {
			g.add("%s=NewRegMatchField(%d,%s,~)", v, r.Intn(16), u(0xffffffff))
		} else {
			s := r.Intn(32)
			e := s + r.Intn(32-s)
			rg := g.v()
			g.add("%s=NewNXRange(%d,%d)", rg, s, e)
			val := (g.edge(0xffffffff) << uint(s)) & (((1 << uint(e-s+1)) - 1) << uint(s))
			g.add("%s=NewRegMatchField(%d,%d,$%s)", v, r.Intn(16), val, rg)
		}
	case 34:
		n := 4 * (1 + r.Intn(31))
		if r.Intn(2) == 0 {
			g.add("%s=NewTunMetadataField(%d,%s,x)", v, r.Intn(8), g.bytes(n))
		} else {
			g.add("%s=NewTunMetadataField(%d,%s,%s)", v, r.Intn(8), g.bytes(n), g.bytes(n))
		}
	case 35:
		st := g.v()
		g.add("%s=NewCTStates()", st)
		names := []string{"New", "Est", "Rel", "Rpl", "Inv", "Trk", "SNAT", "DNAT"}
		for k := r.Intn(5); k > 0; k-- {
			pre := "Set"
			if r.Intn(2) == 0 {
				pre = "Unset"
			}
			g.add("$%s.%s%s()", st, pre, names[r.Intn(8)])
		}
		g.add("%s=NewCTStateMatchField($%s)", v, st)
	case 36:
		g.add("%s=NewCTZoneMatchField(%s)", v, u(0xffff))
	case 37:
		g.add("%s=NewCTMarkMatchField(%s,%s)", v, u(0xffffffff), g.maybe(u(0xffffffff)))
	case 38:
		g.add("%s=NewCTLabelMatchField(%s,%s)", v, g.bytes(16), g.maybe(g.bytes(16)))
	default:
		g.add("%s=NewConjIDMatchField(%s)", v, u(0xffffffff))
	}
	return v
}

// a match with n fields
func (g *apiGen) match(n int) string {
	m := g.v()
	g.add("%s=NewMatch()", m)
	for i := 0; i < n; i++ {
		f := g.field()
		g.add("$%s.AddField(*$%s)", m, f)
	}
	return m
}

var apiGens []func(g *apiGen)

func init() {
	ofGens = append(ofGens, func(c *Ctx) {
		g := &apiGen{c: c}
		rounds := 40
		if c.thorough() {
			rounds = 1500
		}
		for i := 0; i < rounds; i++ {
			f := g.field()
			g.emit(f)
			for _, n := range []int{0, 1, 2, 3, 7} {
				m := g.match(n)
				g.emit(m)
			}
			for _, ag := range apiGens {
				ag(g)
			}
		}
		// a match with many fields, up to the size limit
		m := g.match(200 + c.rng.Intn(200))
		g.emit(m)
	})
}

// ---- actions, instructions, buckets, messages ---------------------------------------------------

// a register / simple field usable as src/dst of Nicira actions
func (g *apiGen) regField() string {
	v := g.v()
	g.add("%s=NewRegMatchField(%d,%d,~)", v, g.c.rng.Intn(16), g.edge(0xffffffff))
	return v
}

// one action (depth bounds conntrack nesting); returns the variable
func (g *apiGen) action(depth int) string {
	v := g.v()
	r := g.c.rng
	u := func(max uint64) string { return fmt.Sprint(g.edge(max)) }
	k := r.Intn(29)
	if depth <= 0 && k == 20 {
		k = 0
	}
	switch k {
	case 0:
		g.add("%s=NewActionOutput(%s)", v, u(0xffffffff))
	case 1:
		g.add("%s=NewActionSetQueue(%s)", v, u(0xffffffff))
	case 2:
		g.add("%s=NewActionGroup(%s)", v, u(0xffffffff))
	case 3:
		g.add("%s=NewActionDecNwTtl()", v)
	case 4:
		g.add("%s=NewActionPushVlan(%s)", v, u(0xffff))
	case 5:
		g.add("%s=NewActionPushMpls(%s)", v, u(0xffff))
	case 6:
		g.add("%s=NewActionPopVlan()", v)
	case 7:
		g.add("%s=NewActionPopMpls(%s)", v, u(0xffff))
	case 8:
		f := g.field()
		g.add("%s=NewActionSetField(*$%s)", v, f)
	case 9:
		g.add("%s=NewNXActionConjunction(%s,%s,%s)", v, u(0xff), u(0xff), u(0xffffffff))
	case 10:
		f := g.regField()
		s := r.Intn(32)
		n := 1 + r.Intn(32-s)
		g.add("%s=NewNXActionRegLoad(%d,$%s,%d)", v, s<<6|(n-1), f, g.edge((1<<uint(n))-1))
	case 11:
		a, b := g.regField(), g.regField()
		g.add("%s=NewNXActionRegMove(%d,%d,%d,$%s,$%s)", v, 1+r.Intn(32), r.Intn(16), r.Intn(16), a, b)
	case 12:
		g.add("%s=NewNXActionResubmit(%s)", v, u(0xffff))
	case 13:
		g.add("%s=NewNXActionResubmitTableAction(%s,%s)", v, u(0xffff), u(0xff))
	case 14:
		g.add("%s=NewNXActionResubmitTableCT(%s,%s)", v, u(0xffff), u(0xff))
	case 15:
		g.add("%s=NewNXActionResubmitTableCTNoInPort(%s)", v, u(0xff))
	case 16:
		// NAT: each range setter at most once, any subset
		g.add("%s=NewNXActionCTNAT()", v)
		if r.Intn(2) == 0 {
			g.add("$%s.SetSNAT()", v)
		} else {
			g.add("$%s.SetDNAT()", v)
		}
		if r.Intn(3) == 0 {
			g.add("$%s.SetPersistent()", v)
		}
		switch r.Intn(3) {
		case 0:
			g.add("$%s.SetProtoHash()", v)
		case 1:
			g.add("$%s.SetRandom()", v)
		}
		if r.Intn(2) == 0 {
			if r.Intn(2) == 0 {
				g.add("$%s.SetRangeIPv4Min(%s)", v, g.bytes(4))
			}
			if r.Intn(2) == 0 {
				g.add("$%s.SetRangeIPv4Max(%s)", v, g.bytes(4))
			}
		} else {
			if r.Intn(2) == 0 {
				g.add("$%s.SetRangeIPv6Min(%s)", v, g.bytes(16))
			}
			if r.Intn(2) == 0 {
				g.add("$%s.SetRangeIPv6Max(%s)", v, g.bytes(16))
			}
		}
		if r.Intn(2) == 0 {
			g.add("$%s.SetRangeProtoMin(%s)", v, u(0xffff))
		}
		if r.Intn(2) == 0 {
			g.add("$%s.SetRangeProtoMax(%s)", v, u(0xffff))
		}
		// a range corrected afterwards (the same setter called again), possibly after the size was asked for in between:
		// the last value is the one supplied, and the action's size is that of the ranges present
		if r.Intn(3) == 0 {
			if r.Intn(2) == 0 {
				g.add("zz%s=$%s.Len()", v, v)
			}
			switch r.Intn(4) {
			case 0:
				g.add("$%s.SetRangeIPv4Min(%s)", v, g.bytes(4))
				g.add("$%s.SetRangeIPv4Min(%s)", v, g.bytes(4))
			case 1:
				g.add("$%s.SetRangeIPv6Max(%s)", v, g.bytes(16))
				g.add("$%s.SetRangeIPv6Max(%s)", v, g.bytes(16))
			case 2:
				g.add("$%s.SetRangeProtoMin(%s)", v, u(0xffff))
				g.add("$%s.SetRangeProtoMin(%s)", v, u(0xffff))
			default:
				g.add("$%s.SetRangeProtoMax(%s)", v, u(0xffff))
			}
		}
	case 17:
		f := g.regField()
		g.add("%s=NewOutputFromField($%s,%d)", v, f, r.Intn(32)<<6|31)
	case 18:
		f := g.regField()
		g.add("%s=NewOutputFromFieldWithMaxLen($%s,%d,%s)", v, f, 31, u(0xffff))
	case 19:
		g.add("%s=NewNXActionCTClear()", v)
	case 20:
		// conntrack with nested actions
		g.add("%s=NewNXActionConnTrack()", v)
		if r.Intn(2) == 0 {
			g.add("$%s.Commit()", v)
		}
		if r.Intn(3) == 0 {
			g.add("$%s.Force()", v)
		}
		if r.Intn(2) == 0 {
			g.add("$%s.Table(%s)", v, u(0xff))
		}
		// the zone is set once, or re-set (the last setter wins: immediate after range, range after immediate)
		for k := 1 + r.Intn(5)/3; k > 0; k-- {
			if r.Intn(2) == 0 {
				g.add("$%s.ZoneImm(%s)", v, u(0xffff))
			} else {
				f := g.regField()
				rg := g.v()
				s := r.Intn(17)
				g.add("%s=NewNXRange(%d,%d)", rg, s, s+15)
				g.add("$%s.ZoneRange($%s,$%s)", v, f, rg)
			}
		}
		for n := r.Intn(4); n > 0; n-- {
			a := g.action(depth - 1)
			g.add("$%s.AddAction($%s)", v, a)
		}
	case 21:
		g.add("%s=NewNXActionDecTTL()", v)
	case 22:
		n := r.Intn(6)
		ids := ""
		for i := 0; i < n; i++ {
			ids += "," + u(0xffff)
		}
		g.add("%s=NewNXActionDecTTLCntIDs(%d%s)", v, n, ids)
	case 23:
		g.add("%s=NewNXActionNote()", v)
		g.add("$%s.Note=%s", v, g.bytes(6+8*r.Intn(4)))
	case 24:
		f := g.field()
		g.add("%s=NewNXActionRegLoad2($%s)", v, f)
	case 25:
		g.add("%s=NewNXActionController(%s)", v, u(0xffff))
		g.add("$%s.MaxLen=%s", v, u(0xffff))
		g.add("$%s.Reason=%s", v, u(0xff))
	case 26:
		g.add("%s=NewActionMplsTtl(%s)", v, u(0xff))
	case 27:
		g.add("%s=NewActionNwTtl(%s)", v, u(0xff))
	default:
		// learn action with flow-mod specs (documented literal: there is no adder for specs)
		g.add("%s=%s", v, g.learnTerm())
	}
	return v
}

// VendorHeader.Header is a named field: replace the header (type 4, xid drawn from the process-wide counter)
func (g *apiGen) vendorXid(v string) {
	h := g.v()
	g.add("%s=Header(4,4,8,%d)", h, g.edge(0xffffffff))
	g.add("$%s.Header=*$%s", v, h)
}

func (g *apiGen) fieldHdrTerm() string {
	return fmt.Sprintf("MatchField(1,%d,0,4,0,~,~)", g.c.rng.Intn(16))
}

// NXActionLearn as the tests build it: NewNXActionLearn()'s header plus fields and specs
func (g *apiGen) learnTerm() string {
	r := g.c.rng
	var specs []string
	for n := r.Intn(4); n > 0; n-- {
		nbits := 1 + r.Intn(32)
		switch r.Intn(5) {
		case 0: // match from value
			specs = append(specs, fmt.Sprintf("NXLearnSpec(NXLearnSpecHeader(1,0,0,%d,2),~,NXLearnSpecField(%s,%d),%s)", nbits, g.fieldHdrTerm(), r.Intn(16), g.bytes(2*((nbits+15)/16))))
		case 1: // match from field
			specs = append(specs, fmt.Sprintf("NXLearnSpec(NXLearnSpecHeader(0,0,0,%d,2),NXLearnSpecField(%s,%d),NXLearnSpecField(%s,%d),x)", nbits, g.fieldHdrTerm(), r.Intn(16), g.fieldHdrTerm(), r.Intn(16)))
		case 2: // load from value
			specs = append(specs, fmt.Sprintf("NXLearnSpec(NXLearnSpecHeader(1,1,0,%d,2),~,NXLearnSpecField(%s,%d),%s)", nbits, g.fieldHdrTerm(), r.Intn(16), g.bytes(2*((nbits+15)/16))))
		case 3: // load from field
			specs = append(specs, fmt.Sprintf("NXLearnSpec(NXLearnSpecHeader(0,1,0,%d,2),NXLearnSpecField(%s,%d),NXLearnSpecField(%s,%d),x)", nbits, g.fieldHdrTerm(), r.Intn(16), g.fieldHdrTerm(), r.Intn(16)))
		default: // output from field
			specs = append(specs, fmt.Sprintf("NXLearnSpec(NXLearnSpecHeader(0,0,1,%d,2),NXLearnSpecField(%s,%d),~,x)", nbits, g.fieldHdrTerm(), r.Intn(16)))
		}
	}
	return fmt.Sprintf("NXActionLearn(NXActionHeader(ActionHeader(65535,10),8992,16),%d,%d,%d,%d,%d,%d,0,%d,%d,[%s],x)",
		g.edge(0xffff), g.edge(0xffff), g.edge(0xffff), g.edge(^uint64(0)), g.edge(7), g.edge(0xff), g.edge(0xffff), g.edge(0xffff), strings.Join(specs, ","))
}

func (g *apiGen) instr() string {
	v := g.v()
	r := g.c.rng
	switch r.Intn(5) {
	case 4:
		g.add("%s=NewInstrMeter(%d)", v, g.edge(0xffffffff))
	case 0:
		g.add("%s=NewInstrGotoTable(%d)", v, g.edge(0xff))
	case 1:
		g.add("%s=NewInstrWriteMetadata(%d,%d)", v, g.edge(^uint64(0)), g.edge(^uint64(0)))
	default:
		if r.Intn(2) == 0 {
			g.add("%s=NewInstrApplyActions()", v)
		} else {
			g.add("%s=NewInstrWriteActions()", v)
		}
		for n := []int{0, 1, 2, 3, 7}[r.Intn(5)]; n > 0; n-- {
			a := g.action(2)
			g.add("$%s.AddAction($%s,%d)", v, a, r.Intn(2))
		}
	}
	return v
}

func (g *apiGen) bucket() string {
	v := g.v()
	g.add("%s=NewBucket()", v)
	g.add("$%s.Weight=%d", v, g.edge(0xffff))
	g.add("$%s.WatchPort=%d", v, g.edge(0xffffffff))
	g.add("$%s.WatchGroup=%d", v, g.edge(0xffffffff))
	for n := []int{0, 1, 2, 3}[g.c.rng.Intn(4)]; n > 0; n-- {
		a := g.action(1)
		g.add("$%s.AddAction($%s)", v, a)
	}
	return v
}

func (g *apiGen) flowMod(cmd int) string {
	v := g.v()
	r := g.c.rng
	g.add("%s=NewFlowMod()", v)
	g.add("$%s.Xid=%d", v, g.edge(0xffffffff))
	g.add("$%s.Command=%d", v, cmd)
	g.add("$%s.Cookie=%d", v, g.edge(^uint64(0)))
	g.add("$%s.CookieMask=%d", v, g.edge(^uint64(0)))
	g.add("$%s.TableId=%d", v, g.edge(0xff))
	g.add("$%s.IdleTimeout=%d", v, g.edge(0xffff))
	g.add("$%s.HardTimeout=%d", v, g.edge(0xffff))
	g.add("$%s.Priority=%d", v, g.edge(0xffff))
	g.add("$%s.BufferId=%d", v, g.edge(0xffffffff))
	g.add("$%s.OutPort=%d", v, g.edge(0xffffffff))
	g.add("$%s.OutGroup=%d", v, g.edge(0xffffffff))
	g.add("$%s.Flags=%d", v, g.edge(0x1f))
	m := g.match([]int{0, 1, 2, 3, 7}[r.Intn(5)])
	g.add("$%s.Match=*$%s", v, m)
	for n := []int{0, 1, 2, 3}[r.Intn(4)]; n > 0; n-- {
		i := g.instr()
		g.add("$%s.AddInstruction($%s)", v, i)
	}
	return v
}

func (g *apiGen) groupMod(cmd int) string {
	v := g.v()
	g.add("%s=NewGroupMod()", v)
	g.add("$%s.Xid=%d", v, g.edge(0xffffffff))
	g.add("$%s.Command=%d", v, cmd)
	g.add("$%s.Type=%d", v, g.c.rng.Intn(4))
	g.add("$%s.GroupId=%d", v, g.edge(0xffffffff))
	for n := []int{0, 1, 2, 3}[g.c.rng.Intn(4)]; n > 0; n-- {
		b := g.bucket()
		g.add("$%s.AddBucket(*$%s)", v, b)
	}
	return v
}

func (g *apiGen) packetOut() string {
	v := g.v()
	g.add("%s=NewPacketOut()", v)
	g.add("$%s.Xid=%d", v, g.edge(0xffffffff))
	g.add("$%s.BufferId=%d", v, g.edge(0xffffffff))
	g.add("$%s.InPort=%d", v, g.edge(0xffffffff))
	for n := []int{0, 1, 2, 3, 7}[g.c.rng.Intn(5)]; n > 0; n-- {
		a := g.action(2)
		g.add("$%s.AddAction($%s)", v, a)
	}
	g.add("$%s.SetData(%s)", v, g.bytes(g.c.rng.Intn(80)))
	return v
}

// any controller-originated message except bundle-add; returns the variable
func (g *apiGen) message() string {
	r := g.c.rng
	if r.Intn(8) == 0 {
		// an unrelated earlier message: the greeting sent to a peer that speaks another protocol version
		g.add("%s=NewHello(%d)", g.v(), []int{1, 2, 3, 5, 6}[r.Intn(5)])
	}
	v := g.v()
	switch r.Intn(14) {
	case 0:
		g.add("%s=NewHello(4)", v)
		g.add("$%s.Xid=%d", v, g.edge(0xffffffff))
	case 1:
		g.add("%s=NewEchoRequest()", v)
		g.add("$%s.Xid=%d", v, g.edge(0xffffffff))
	case 2:
		g.add("%s=NewEchoReply()", v)
		g.add("$%s.Xid=%d", v, g.edge(0xffffffff))
	case 3:
		g.add("%s=NewFeaturesRequest()", v)
		g.add("$%s.Xid=%d", v, g.edge(0xffffffff))
	case 4:
		g.add("%s=NewConfigRequest()", v)
		g.add("$%s.Xid=%d", v, g.edge(0xffffffff))
	case 5:
		g.add("%s=NewSetConfig()", v)
		g.add("$%s.Xid=%d", v, g.edge(0xffffffff))
		g.add("$%s.Flags=%d", v, g.edge(3))
		g.add("$%s.MissSendLen=%d", v, g.edge(0xffff))
	case 6:
		return g.flowMod(r.Intn(5))
	case 7:
		return g.groupMod(r.Intn(3))
	case 8:
		return g.packetOut()
	case 9:
		g.add("%s=NewPortMod(%d)", v, g.edge(0xffff))
		g.add("$%s.Xid=%d", v, g.edge(0xffffffff))
		g.add("$%s.HWAddr=%s", v, g.bytes(6))
		g.add("$%s.Config=%d", v, g.edge(0xffffffff))
		g.add("$%s.Mask=%d", v, g.edge(0xffffffff))
		g.add("$%s.Advertise=%d", v, g.edge(0xffffffff))
	case 10:
		// multipart request (documented literal: no constructor) with a constructor-built body
		b := g.v()
		ty := 0
		switch r.Intn(5) {
		case 0:
			ty = 1
			g.add("%s=NewFlowStatsRequest()", b)
		case 1:
			ty = 2
			g.add("%s=NewAggregateStatsRequest()", b)
		case 2:
			ty = 4
			g.add("%s=NewPortStatsRequest()", b)
			g.add("$%s.PortNo=%d", b, g.edge(0xffff))
		case 3:
			ty = 5
			g.add("%s=NewQueueStatsRequest()", b)
			g.add("$%s.PortNo=%d", b, g.edge(0xffff))
			g.add("$%s.QueueId=%d", b, g.edge(0xffffffff))
		default:
			// body-less requests (desc, table): an empty buffer as body
			ty = []int{0, 3}[r.Intn(2)]
			g.add("%s=u.NewBuffer(x)", b)
		}
		if ty == 1 || ty == 2 {
			g.add("$%s.TableId=%d", b, g.edge(0xff))
			g.add("$%s.OutPort=%d", b, g.edge(0xffffffff))
			g.add("$%s.OutGroup=%d", b, g.edge(0xffffffff))
			g.add("$%s.Cookie=%d", b, g.edge(^uint64(0)))
			g.add("$%s.CookieMask=%d", b, g.edge(^uint64(0)))
			m := g.match(r.Intn(4))
			g.add("$%s.Match=*$%s", b, m)
		}
		g.add("%s=MultipartRequest(Header(4,18,16,%d),%d,0,x00000000,~)", v, g.edge(0xffffffff), ty)
		if b != "" {
			g.add("$%s.Body=$%s", v, b)
		}
	case 11:
		g.add("%s=NewSetControllerID(%d)", v, g.edge(0xffff))
		g.vendorXid(v)
	case 12:
		var maps []string
		for n := r.Intn(4); n > 0; n-- {
			maps = append(maps, fmt.Sprintf("TLVTableMap(%d,%d,%d,%d,x0000)", g.edge(0xffff), g.edge(0xff), 4*(1+r.Intn(31)), g.edge(63)))
		}
		t := g.v()
		g.add("%s=NewTLVTableMod(%d,[%s])", t, r.Intn(3), strings.Join(maps, ","))
		g.add("%s=NewTLVTableModMessage($%s)", v, t)
		g.vendorXid(v)
	default:
		if r.Intn(2) == 0 {
			g.add("%s=NewTLVTableRequest()", v)
			g.vendorXid(v)
		} else {
			c := g.v()
			g.add("%s=BundleControl(%d,%d,%d)", c, g.edge(0xffffffff), r.Intn(8), r.Intn(4))
			g.add("%s=NewBundleControl($%s)", v, c)
			g.vendorXid(v)
		}
	}
	return v
}

// ---- histories with a particular shape -----------------------------------------------------------

// sameNameFields: several unmasked fields of one name are built BEFORE any of them is encoded and are held by pointer
// (reg_load2 actions) or copied by value (match, set-field); every one must keep the value it was given.
func (g *apiGen) sameNameFields() string {
	r := g.c.rng
	ctor := func(v string, k int, idx int) {
		switch k {
		case 0:
			g.add("%s=NewRegMatchField(%d,%d,~)", v, idx, g.edge(0xffffffff))
		case 1:
			g.add("%s=NewCTMarkMatchField(%d,~)", v, g.edge(0xffffffff))
		case 2:
			g.add("%s=NewConjIDMatchField(%d)", v, g.edge(0xffffffff))
		default:
			g.add("%s=NewCTZoneMatchField(%d)", v, g.edge(0xffff))
		}
	}
	k, idx := r.Intn(4), r.Intn(16)
	n := 2 + r.Intn(3)
	var fs []string
	for i := 0; i < n; i++ {
		f := g.v()
		ctor(f, k, idx)
		fs = append(fs, f)
	}
	// now use them: reg_load2 actions spread over instructions / buckets / a packet-out
	var acts []string
	for _, f := range fs {
		a := g.v()
		g.add("%s=NewNXActionRegLoad2($%s)", a, f)
		acts = append(acts, a)
	}
	switch r.Intn(3) {
	case 0:
		fm := g.v()
		g.add("%s=NewFlowMod()", fm)
		g.add("$%s.Xid=%d", fm, g.edge(0xffffffff))
		m := g.match(1)
		g.add("$%s.Match=*$%s", fm, m)
		in := g.v()
		g.add("%s=NewInstrApplyActions()", in)
		for i, a := range acts {
			g.add("$%s.AddAction($%s,0)", in, a)
			if i == 0 && r.Intn(2) == 0 {
				x := g.v()
				g.add("%s=NewNXActionResubmitTableAction(65528,%d)", x, r.Intn(250))
				g.add("$%s.AddAction($%s,0)", in, x)
			}
		}
		g.add("$%s.AddInstruction($%s)", fm, in)
		return fm
	case 1:
		gm := g.v()
		g.add("%s=NewGroupMod()", gm)
		g.add("$%s.Xid=%d", gm, g.edge(0xffffffff))
		g.add("$%s.GroupId=%d", gm, g.edge(0xffffff00))
		for _, a := range acts {
			b := g.v()
			g.add("%s=NewBucket()", b)
			g.add("$%s.AddAction($%s)", b, a)
			g.add("$%s.AddBucket(*$%s)", gm, b)
		}
		return gm
	default:
		po := g.v()
		g.add("%s=NewPacketOut()", po)
		g.add("$%s.Xid=%d", po, g.edge(0xffffffff))
		for _, a := range acts {
			g.add("$%s.AddAction($%s)", po, a)
		}
		g.add("$%s.SetData(%s)", po, g.bytes(14+r.Intn(30)))
		return po
	}
}

// lateGrowth: a valid history in which a container receives its child FIRST and the child is completed afterwards
// through its own adders / setters (top-down construction).  Everything is held by pointer, so the final message
// contains the completed children.  Observed with op "apix": property oracles on the implementation only (the Lean
// interpreter of API programs has value semantics and does not model this aliasing).
func (g *apiGen) lateGrowth() string {
	r := g.c.rng
	fm := g.v()
	g.add("%s=NewFlowMod()", fm)
	g.add("$%s.Xid=%d", fm, g.edge(0xffffffff))
	g.add("$%s.Command=%d", fm, []int{0, 1, 2}[r.Intn(3)])
	m := g.match(r.Intn(3))
	g.add("$%s.Match=*$%s", fm, m)
	for k := 1 + r.Intn(2); k > 0; k-- {
		in := g.v()
		if r.Intn(2) == 0 {
			g.add("%s=NewInstrApplyActions()", in)
		} else {
			g.add("%s=NewInstrWriteActions()", in)
		}
		if r.Intn(2) == 0 {
			g.add("$%s.AddInstruction($%s)", fm, in) // attached while still empty
			in = in + "!"
		}
		name := strings.TrimSuffix(in, "!")
		for n := 1 + r.Intn(3); n > 0; n-- {
			switch r.Intn(3) {
			case 0:
				ct := g.v()
				g.add("%s=NewNXActionConnTrack()", ct)
				g.add("$%s.Commit()", ct)
				g.add("$%s.AddAction($%s,0)", name, ct) // attached first
				for j := 1 + r.Intn(3); j > 0; j-- {
					a := g.action(0)
					g.add("$%s.AddAction($%s)", ct, a)
				}
			case 1:
				ct := g.v()
				g.add("%s=NewNXActionConnTrack()", ct)
				nat := g.v()
				g.add("%s=NewNXActionCTNAT()", nat)
				g.add("$%s.SetSNAT()", nat)
				g.add("$%s.AddAction($%s)", ct, nat)
				g.add("$%s.AddAction($%s,0)", name, ct)
				g.add("$%s.SetRangeIPv4Min(%s)", nat, g.bytes(4))
				if r.Intn(2) == 0 {
					g.add("$%s.SetRangeIPv4Max(%s)", nat, g.bytes(4))
				}
				if r.Intn(2) == 0 {
					g.add("$%s.SetRangeProtoMin(%d)", nat, g.edge(0xffff))
				}
			default:
				a := g.action(1)
				g.add("$%s.AddAction($%s,0)", name, a)
			}
		}
		if !strings.HasSuffix(in, "!") {
			g.add("$%s.AddInstruction($%s)", fm, name)
		}
	}
	return fm
}

// growLater attaches a growable action to `owner` with the statement `attach` (a format with one %s for the action
// variable) FIRST and completes it afterwards through its own adders / setters
func (g *apiGen) growLater(attach string) {
	r := g.c.rng
	switch r.Intn(3) {
	case 0:
		ct := g.v()
		g.add("%s=NewNXActionConnTrack()", ct)
		g.add("$%s.Commit()", ct)
		g.add(attach, ct)
		for j := 1 + r.Intn(3); j > 0; j-- {
			a := g.action(0)
			g.add("$%s.AddAction($%s)", ct, a)
		}
	case 1:
		ct := g.v()
		g.add("%s=NewNXActionConnTrack()", ct)
		nat := g.v()
		g.add("%s=NewNXActionCTNAT()", nat)
		g.add("$%s.SetSNAT()", nat)
		g.add("$%s.AddAction($%s)", ct, nat)
		g.add(attach, ct)
		g.add("$%s.SetRangeIPv4Min(%s)", nat, g.bytes(4))
		if r.Intn(2) == 0 {
			g.add("$%s.SetRangeIPv4Max(%s)", nat, g.bytes(4))
		}
	default:
		a := g.action(1)
		g.add(attach, a)
	}
}

// lateGrowthPacketOut / lateGrowthGroupMod: the same top-down construction for a packet-out (actions, then data) and
// for a group-mod whose buckets receive their actions before those are complete (the bucket is added by value last,
// as the API requires; its actions are shared pointers)
func (g *apiGen) lateGrowthPacketOut() string {
	po := g.v()
	g.add("%s=NewPacketOut()", po)
	g.add("$%s.Xid=%d", po, g.edge(0xffffffff))
	g.add("$%s.InPort=%d", po, g.edge(0xffffff00))
	for n := 1 + g.c.rng.Intn(3); n > 0; n-- {
		g.growLater("$" + po + ".AddAction($%s)")
	}
	g.add("$%s.SetData(%s)", po, g.bytes(16+g.c.rng.Intn(48)))
	return po
}

func (g *apiGen) lateGrowthGroupMod() string {
	gm := g.v()
	g.add("%s=NewGroupMod()", gm)
	g.add("$%s.Xid=%d", gm, g.edge(0xffffffff))
	g.add("$%s.Command=%d", gm, g.c.rng.Intn(2))
	g.add("$%s.GroupId=%d", gm, g.edge(0xffffff00))
	for k := 1 + g.c.rng.Intn(2); k > 0; k-- {
		b := g.v()
		g.add("%s=NewBucket()", b)
		for n := 1 + g.c.rng.Intn(2); n > 0; n-- {
			g.growLater("$" + b + ".AddAction($%s)")
		}
		g.add("$%s.AddBucket(*$%s)", gm, b)
	}
	return gm
}

// ctStateFlowMod: an ADD flow-mod matching on ct_state built by a random sequence (2..6 calls, repetition allowed, any
// order) of the 16 "+flag" / "-flag" builder methods
func (g *apiGen) ctStateFlowMod() string {
	r := g.c.rng
	st := g.v()
	g.add("%s=NewCTStates()", st)
	names := []string{"New", "Est", "Rel", "Rpl", "Inv", "Trk", "SNAT", "DNAT"}
	for k := 2 + r.Intn(5); k > 0; k-- {
		pre := "Set"
		if r.Intn(2) == 0 {
			pre = "Unset"
		}
		g.add("$%s.%s%s()", st, pre, names[r.Intn(8)])
	}
	f := g.v()
	g.add("%s=NewCTStateMatchField($%s)", f, st)
	mt := g.v()
	g.add("%s=NewMatch()", mt)
	g.add("$%s.AddField(*$%s)", mt, f)
	fm := g.v()
	g.add("%s=NewFlowMod()", fm)
	g.add("$%s.Xid=%d", fm, g.edge(0xffffffff))
	g.add("$%s.Command=0", fm)
	g.add("$%s.Match=*$%s", fm, mt)
	return fm
}

// helloElements: a hello with 1..3 version-bitmap elements of 0..4 bitmaps each (elements with an even number of bitmaps
// are padded on the wire; the stored Length is whatever the application left there)
func (g *apiGen) helloElements() string {
	r := g.c.rng
	v := g.v()
	g.add("%s=NewHello(4)", v)
	g.add("$%s.Xid=%d", v, g.edge(0xffffffff))
	var els []string
	for n := 1 + r.Intn(3); n > 0; n-- {
		var bms []string
		k := r.Intn(5)
		for j := 0; j < k; j++ {
			bms = append(bms, fmt.Sprint(g.edge(0xffffffff)))
		}
		els = append(els, fmt.Sprintf("HelloElemVersionBitmap(HelloElemHeader(1,%d),[%s])", 4+4*k, strings.Join(bms, ",")))
	}
	g.add("$%s.Elements=[%s]", v, strings.Join(els, ","))
	return v
}

// learnFlowMod: an ADD flow-mod whose apply-actions instruction holds a learn action with immediate ("from value") specs
func (g *apiGen) learnFlowMod() string {
	la := g.v()
	g.add("%s=%s", la, g.learnTerm())
	in := g.v()
	g.add("%s=NewInstrApplyActions()", in)
	g.add("$%s.AddAction($%s,0)", in, la)
	fm := g.v()
	g.add("%s=NewFlowMod()", fm)
	g.add("$%s.Xid=%d", fm, g.edge(0xffffffff))
	g.add("$%s.Command=0", fm)
	m := g.match(1)
	g.add("$%s.Match=*$%s", fm, m)
	g.add("$%s.AddInstruction($%s)", fm, in)
	return fm
}

// bundleAddSwallow: a bundle-add with properties around a message whose own decoder reads to the end of what it is
// given (error message with data, packet-in, hello): the embedded message must stop at its own length
func (g *apiGen) bundleAddSwallow() (string, bool) {
	r := g.c.rng
	m := g.v()
	kind := r.Intn(3)
	switch kind {
	case 0:
		g.add("%s=NewErrorMsg()", m)
		g.add("$%s.Xid=%d", m, g.edge(0xffffffff))
		g.add("$%s.Type=%d", m, r.Intn(14))
		g.add("$%s.Code=%d", m, r.Intn(16))
		d := g.v()
		g.add("%s=u.Buffer(%s)", d, g.bytes(1+r.Intn(40)))
		g.add("$%s.Data=*$%s", m, d)
	case 1:
		g.add("%s=NewHello(4)", m)
		g.add("$%s.Xid=%d", m, g.edge(0xffffffff))
	default:
		g.add("%s=NewPacketIn()", m)
		g.add("$%s.Xid=%d", m, g.edge(0xffffffff))
		g.add("$%s.BufferId=%d", m, g.edge(0xffffffff))
		g.add("$%s.TotalLen=%d", m, g.edge(0xffff))
		g.add("$%s.Reason=%d", m, r.Intn(3))
		g.add("$%s.TableId=%d", m, g.edge(0xfe))
		g.add("$%s.Cookie=%d", m, g.edge(^uint64(0)))
	}
	ba := g.v()
	props := []string{}
	for k := 1 + r.Intn(2); k > 0; k-- {
		props = append(props, fmt.Sprintf("BundlePropertyExperimenter(65535,0,%d,%d,x)", g.edge(0xffffffff), g.edge(0xffffffff)))
	}
	g.add("%s=BundleAdd(%d,x0000,%d,~,[%s])", ba, g.edge(0xffffffff), r.Intn(4), strings.Join(props, ","))
	g.add("$%s.Message=$%s", ba, m)
	v := g.v()
	g.add("%s=NewBundleAdd($%s)", v, ba)
	g.vendorXid(v)
	return v, kind == 1
}

// sharedArgs: ONE caller-owned byte slice (an address) is handed to two field constructors of the same match, once
// exact and once under a mask that does not cover all of its bits: encoding one field must not change what the other
// field, built from the same slice, encodes to (nor the caller's slice)
func (g *apiGen) sharedArgs() string {
	r := g.c.rng
	b := g.v()
	f1, f2 := g.v(), g.v()
	switch r.Intn(3) {
	case 0:
		g.add("%s=x0a01%02x%02x", b, 1+r.Intn(255), 1+r.Intn(255))
		mask := []string{"xffffff00", "xffff0000", "xff000000", "xfffffff0"}[r.Intn(4)]
		if r.Intn(2) == 0 {
			g.add("%s=NewIpv4DstField($%s,~)", f1, b)
			g.add("%s=NewIpv4SrcField($%s,%s)", f2, b, mask)
		} else {
			g.add("%s=NewIpv4SrcField($%s,~)", f1, b)
			g.add("%s=NewIpv4DstField($%s,%s)", f2, b, mask)
		}
	case 1:
		g.add("%s=x0a0b0c%02x%02x%02x", b, 1+r.Intn(255), 1+r.Intn(255), 1+r.Intn(255))
		g.add("%s=NewEthDstField($%s,~)", f1, b)
		g.add("%s=NewEthSrcField($%s,xffffff000000)", f2, b)
	default:
		g.add("%s=x20010db8%s", b, strings.Repeat("5a", 12))
		g.add("%s=NewIpv6DstField($%s,~)", f1, b)
		g.add("%s=NewIpv6SrcField($%s,xffffffffffffffff0000000000000000)", f2, b)
	}
	mt := g.v()
	g.add("%s=NewMatch()", mt)
	g.add("$%s.AddField(*$%s)", mt, f1)
	g.add("$%s.AddField(*$%s)", mt, f2)
	fm := g.v()
	g.add("%s=NewFlowMod()", fm)
	g.add("$%s.Xid=%d", fm, g.edge(0xffffffff))
	g.add("$%s.Command=0", fm)
	g.add("$%s.Match=*$%s", fm, mt)
	return fm
}

// ctSetterOrder: an ADD flow-mod whose single apply-actions instruction holds one conntrack action configured by a random
// sequence (with repetition, in any order) of its builder methods: whatever the order, the LAST call of each kind decides
func (g *apiGen) ctSetterOrder() string {
	r := g.c.rng
	ct := g.v()
	g.add("%s=NewNXActionConnTrack()", ct)
	for k := 2 + r.Intn(5); k > 0; k-- {
		switch r.Intn(6) {
		case 0:
			g.add("$%s.Commit()", ct)
		case 1:
			g.add("$%s.Force()", ct)
		case 2:
			g.add("$%s.Table(%d)", ct, g.edge(0xff))
		case 3, 4:
			g.add("$%s.ZoneImm(%d)", ct, g.edge(0xffff))
		default:
			f := g.regField()
			rg := g.v()
			s := r.Intn(17)
			g.add("%s=NewNXRange(%d,%d)", rg, s, s+15)
			g.add("$%s.ZoneRange($%s,$%s)", ct, f, rg)
		}
	}
	in := g.v()
	g.add("%s=NewInstrApplyActions()", in)
	g.add("$%s.AddAction($%s,0)", in, ct)
	fm := g.v()
	g.add("%s=NewFlowMod()", fm)
	g.add("$%s.Xid=%d", fm, g.edge(0xffffffff))
	g.add("$%s.Command=0", fm)
	m := g.match(1)
	g.add("$%s.Match=*$%s", fm, m)
	g.add("$%s.AddInstruction($%s)", fm, in)
	return fm
}

func init() {
	apiGens = append(apiGens, func(g *apiGen) {
		// single elements
		a := g.action(3)
		g.emit(a)
		i := g.instr()
		g.emit(i)
		b := g.bucket()
		g.emit(b)
		// every flow-mod and group-mod command
		for cmd := 0; cmd < 5; cmd++ {
			f := g.flowMod(cmd)
			g.emit(f)
		}
		for cmd := 0; cmd < 3; cmd++ {
			gm := g.groupMod(cmd)
			g.emit(gm)
		}
		for k := 0; k < 6; k++ {
			m := g.message()
			g.emit(m)
		}
		sn := g.sameNameFields()
		g.emit(sn)
		cs := g.ctSetterOrder()
		g.emit(cs)
		sa := g.sharedArgs()
		g.emit(sa)
		for k := 0; k < 3; k++ {
			cf := g.ctStateFlowMod()
			g.emit(cf)
		}
		hl := g.helloElements()
		g.emit(hl)
		lf := g.learnFlowMod()
		g.emit(lf)
		// (error messages / packet-ins are not controller-originated: round trip only, no grammar oracle)
		bs, ctl := g.bundleAddSwallow()
		if ctl {
			g.emit(bs)
		} else {
			g.emitAs("rtparse", bs)
		}
		lg := g.lateGrowth()
		g.emitAs("apix", lg)
		lp := g.lateGrowthPacketOut()
		g.emitAs("apix", lp)
		lgm := g.lateGrowthGroupMod()
		g.emitAs("apix", lgm)
		// bundle-add wrapping any other message
		m := g.message()
		ba := g.v()
		// properties as NewBundlePropertyExperimenter() leaves them, ids set (the payload has no setter)
		props := []string{}
		for k := g.c.rng.Intn(3); k > 0; k-- {
			props = append(props, fmt.Sprintf("BundlePropertyExperimenter(65535,0,%d,%d,x)", g.edge(0xffffffff), g.edge(0xffffffff)))
		}
		g.add("%s=BundleAdd(%d,x0000,%d,~,[%s])", ba, g.edge(0xffffffff), g.c.rng.Intn(4), strings.Join(props, ","))
		g.add("$%s.Message=$%s", ba, m)
		v := g.v()
		g.add("%s=NewBundleAdd($%s)", v, ba)
		g.vendorXid(v)
		g.emit(v)
	})
}
