package main

// family OF: generic enc/dec/prog cases for all kinds; generators live in of_*.go files,
// each registering itself in ofGens.

import (
	"encoding/hex"
	"fmt"
	"reflect"
)

var ofGens []func(*Ctx)

func init() {
	isolated["OF"] = true
	families["OF"] = func(c *Ctx) {
		for _, g := range ofGens {
			g(c)
		}
	}
}

// marshalTerm builds the value described by term and returns its encoding (nil if it fails or panics).
func marshalTerm(term string) (out []byte) {
	defer func() {
		if r := recover(); r != nil {
			out = nil
		}
	}()
	p := buildObj(term, env{})
	m := p.MethodByName("MarshalBinary")
	if !m.IsValid() {
		return nil
	}
	res := m.Call(nil)
	if !res[1].IsNil() {
		return nil
	}
	return res[0].Bytes()
}

// marshalProg runs an API program (without its final "!v") and returns the encoding of variable v.
func marshalProg(prog, v string) (out []byte) {
	defer func() {
		if r := recover(); r != nil {
			out = nil
		}
	}()
	s := runProg(prog + ";!" + v)
	// observation "L1 hex L2 dump"
	var l1, l2 int
	var hx, dump string
	if n, _ := fmt.Sscanf(s, "%d %s %d %s", &l1, &hx, &l2, &dump); n < 2 {
		return nil
	}
	if hx == "-" {
		return []byte{}
	}
	b, err := hex.DecodeString(hx)
	if err != nil {
		return nil
	}
	return b
}

// variants of a byte string for decoder cases: the string itself, every truncation (all offsets up to 96 bytes,
// then every 8th), every byte among the first 48 set to 0 / 1 / 0xff / +1 / -1, and two random corruptions.
func (c *Ctx) variants(b []byte) [][]byte {
	out := [][]byte{b}
	for i := 0; i < len(b); i++ {
		if i < 96 || i%8 == 0 {
			out = append(out, b[:i])
		}
	}
	for i := 0; i < len(b) && i < 48; i++ {
		for _, v := range []byte{0, 1, 0xff, b[i] + 1, b[i] - 1} {
			if v != b[i] {
				m := append([]byte(nil), b...)
				m[i] = v
				out = append(out, m)
			}
		}
	}
	for k := 0; k < 2 && len(b) > 0; k++ {
		m := append([]byte(nil), b...)
		m[c.rng.Intn(len(m))] = byte(c.rng.Intn(256))
		m[c.rng.Intn(len(m))] ^= 1 << uint(c.rng.Intn(8))
		out = append(out, m)
	}
	return out
}

// decCases emits "<op> <target> <hex> <len>" for every variant of b, each twice: exact capacity, and embedded in a
// larger backing array with a junk tail (Go slicing up to cap).  op is "dec" (target = kind), "decc" (target = ctor)
// or "parse" (target ignored).
func (c *Ctx) decCases(op, target string, b []byte) {
	for _, v := range c.variants(b) {
		c.decCase(op, target, v, 0)
		c.decCase(op, target, v, 24)
	}
}

func (c *Ctx) decCase(op, target string, v []byte, spare int) {
	back := append([]byte(nil), v...)
	for i := 0; i < spare; i++ {
		back = append(back, 0xa0+byte(i))
	}
	if op == "parse" {
		c.run("parse", hx(back), len(v))
	} else {
		c.run(op, target, hx(back), len(v))
	}
}

// encDec: observe a literal value and feed its encoding (if any) to the decoder of the same kind.
func (c *Ctx) encDec(kind, term string) {
	c.run("enc", term)
	if b := marshalTerm(term); b != nil {
		c.decCases("dec", kind, b)
	}
}

var _ = reflect.TypeOf
