package main

// generator for openflow13/instruction.go (InstrHeader, InstrGotoTable, InstrWriteMetadata, InstrActions, InstrMeter,
// DecodeInstr), group.go (GroupMod, Bucket) and flowmod.go (FlowMod, FlowRemoved).
// Child kinds are restricted to ActionOutput / ActionGroup / ActionPopVlan / ActionHeader and to matches made of
// InPortField / EthDstField.

import (
	"fmt"
	"strings"
)

var igU8 = []uint64{0, 1, 0xff, 0xfe, 0x11}
var igU16 = []uint64{0, 1, 0xffff, 0xfffe, 0x1122}
var igU32 = []uint64{0, 1, 0xffffffff, 0xfffffffe, 0x11223344}
var igU64 = []uint64{0, 1, 0xffffffffffffffff, 0xfffffffffffffffe, 0x1122334455667788}

// igAction: the k-th action of a fixed rotation over the child kinds (term, encoded length)
func igAction(k int) (string, int) {
	switch k % 8 {
	case 0:
		return fmt.Sprintf("ActionOutput(ActionHeader(0,16),%d,%d,x000000000000)", igU32[(k/8)%5], igU16[(k/8+1)%5]), 16
	case 1:
		return fmt.Sprintf("ActionGroup(ActionHeader(22,8),%d)", igU32[(k/8+4)%5]), 8
	case 2:
		return "ActionPopVlan(ActionHeader(18,8),x)", 8
	case 3:
		return "ActionHeader(11,4)", 4
	case 4:
		return fmt.Sprintf("ActionOutput(ActionHeader(0,%d),%d,%d,x)", igU16[(k/8)%5], igU32[(k/8+2)%5], igU16[(k/8+4)%5]), 16
	case 5:
		return "ActionHeader(16,4)", 4
	case 6:
		return "ActionPopVlan(ActionHeader(18,8),x00000000)", 8
	default:
		return []string{"ActionHeader(27,4)", "ActionHeader(12,4)"}[(k/8)%2], 4
	}
}

// igActions: list term of n actions starting the rotation at off, and their total encoded length
func igActions(n, off int) (string, int) {
	var parts []string
	total := 0
	for i := 0; i < n; i++ {
		t, l := igAction(off + i)
		parts = append(parts, t)
		total += l
	}
	return "[" + strings.Join(parts, ",") + "]", total
}

func igPad(k int, alloc string) string {
	if k%2 == 0 {
		return alloc
	}
	return "x"
}

// igInstr: the k-th instruction of a rotation over the instruction kinds (term, encoded length)
func igInstr(k int) (string, int) {
	switch k % 6 {
	case 0:
		return fmt.Sprintf("InstrGotoTable(InstrHeader(1,8),%d,%s)", igU8[(k/6)%5], igPad(k/6, "x000000")), 8
	case 1:
		as, l := igActions((k/6)%4+1, k)
		return fmt.Sprintf("InstrActions(InstrHeader(4,%d),x00000000,%s)", 8+l, as), 8 + l
	case 2:
		return fmt.Sprintf("InstrWriteMetadata(InstrHeader(2,24),%s,%d,%d)", igPad(k/6, "x00000000"), igU64[(k/6)%5], igU64[(k/6+2)%5]), 24
	case 3:
		as, l := igActions((k/6)%3, k+3)
		return fmt.Sprintf("InstrActions(InstrHeader(3,%d),x,%s)", 8+l, as), 8 + l
	case 4:
		return "InstrActions(InstrHeader(5,8),x00000000,[])", 8
	default:
		return fmt.Sprintf("InstrMeter(InstrHeader(6,8),%d)", igU32[(k/6)%5]), 4
	}
}

func igInstrs(n, off int) (string, int) {
	var parts []string
	total := 0
	for i := 0; i < n; i++ {
		t, l := igInstr(off + i)
		parts = append(parts, t)
		total += l
	}
	return "[" + strings.Join(parts, ",") + "]", total
}

const (
	igInPort  = "MatchField(32768,0,0,4,0,InPortField(7),~)"
	igInPort2 = "MatchField(32768,0,0,4,0,InPortField(4294967295),~)"
	igEthDst  = "MatchField(32768,3,0,6,0,EthDstField(x112233445566),~)"
	igEthDstM = "MatchField(32768,3,1,12,0,EthDstField(x112233445566),EthDstField(xffffff000000))"
)

type igMatch struct {
	term string
	n    int // encoded length
}

var igMatches = []igMatch{
	{"Match(1,4,[])", 8},
	{"Match(1,12,[" + igInPort + "])", 16},
	{"Match(1,14,[" + igEthDst + "])", 16},
	{"Match(1,20,[" + igEthDstM + "])", 24},
	{"Match(1,22,[" + igInPort2 + "," + igEthDst + "])", 24},
	{"Match(1,38,[" + igInPort + "," + igEthDstM + "," + igEthDst + "])", 40},
	// cached Length wrong: too small (the decoder stops early but Len() of the result is computed from the fields)
	{"Match(1,4,[" + igInPort + "])", 16},
	// type 0, length exactly at the end of the padded area
	{"Match(0,16,[" + igInPort + "])", 16},
}

// igBucket: bucket term with n actions; right = cached Length consistent with the content
func igBucket(k, n int, right bool) (string, int) {
	as, l := igActions(n, k)
	ln := (16 + l + 7) / 8 * 8
	cached := ln
	if !right {
		cached = []int{0, 16, 65535, ln + 8, 8}[k%5]
	}
	return fmt.Sprintf("Bucket(%d,%d,%d,%d,%s,%s)", cached, igU16[k%5], igU32[(k+1)%5], igU32[(k+2)%5], igPad(k, "x00000000"), as), 16 + l
}

func igBuckets(n, off int) (string, int) {
	var parts []string
	total := 0
	for i := 0; i < n; i++ {
		t, l := igBucket(off+i, []int{0, 1, 2, 3, 7, 1, 2}[(off+i)%7], (off+i)%4 != 3)
		parts = append(parts, t)
		total += l
	}
	return "[" + strings.Join(parts, ",") + "]", total
}

type igCtx struct {
	c *Ctx
}

// ed: observe a literal value; feed its encoding to the decoder — all variants when full (or in the thorough tier),
// otherwise the encoding itself, a few truncations, exact and spare capacity
func (g igCtx) ed(kind, term string, full bool) {
	c := g.c
	if full || c.thorough() {
		c.encDec(kind, term)
		return
	}
	c.run("enc", term)
	if b := marshalTerm(term); b != nil {
		g.light(kind, b)
	}
}

func (g igCtx) light(kind string, b []byte) { g.lightOp("dec", kind, b) }

func (g igCtx) lightOp(op, target string, b []byte) {
	c := g.c
	c.decCase(op, target, b, 0)
	c.decCase(op, target, b, 24)
	for _, cut := range []int{1, 2, len(b) / 2, 4, 9} {
		if cut > 0 && cut <= len(b) {
			c.decCase(op, target, b[:len(b)-cut], cut%2*24)
		}
	}
}

// hostile: a hand-made frame — itself with exact and spare capacity and every truncation beyond the first `from`
// bytes (the generic variants are used for the first frames of each kind only: they mutate the first 48 bytes)
func (g igCtx) hostile(kind string, b []byte, full bool, from int) {
	c := g.c
	if full || c.thorough() {
		c.decCases("dec", kind, b)
		return
	}
	c.decCase("dec", kind, b, 0)
	c.decCase("dec", kind, b, 24)
	for i := from; i < len(b); i++ {
		c.decCase("dec", kind, b[:i], i%2*24)
	}
}

// tail: mutations of the bytes in [from,to) (the generic variants only touch the first 48 bytes)
func (g igCtx) tail(kind string, b []byte, from, to int) {
	c := g.c
	if to > len(b) {
		to = len(b)
	}
	for i := from; i < to; i++ {
		for j, v := range []byte{0, 1, 0xff, b[i] + 1, b[i] - 1} {
			if v != b[i] {
				m := append([]byte(nil), b...)
				m[i] = v
				c.decCase("dec", kind, m, (i+j)%2*24)
			}
		}
	}
}

func (g igCtx) flowMod(hl, xid uint64, k int, cmd uint64, pad string, match string, instrs string) string {
	return fmt.Sprintf("FlowMod(Header(4,14,%d,%d),%d,%d,%d,%d,%d,%d,%d,%d,%d,%d,%d,%s,%s,%s)", hl, xid,
		igU64[k%5], igU64[(k+1)%5], igU8[(k+2)%5], cmd, igU16[(k+3)%5], igU16[(k+4)%5], igU16[k%5],
		igU32[(k+1)%5], igU32[(k+2)%5], igU32[(k+3)%5], igU16[(k+2)%5], pad, match, instrs)
}

func (g igCtx) flowRemoved(k int, match string) string {
	return fmt.Sprintf("FlowRemoved(Header(4,11,%d,%d),%d,%d,%d,%d,%d,%d,%d,%d,%d,%d,%s)", igU16[(k+1)%5], igU32[k%5],
		igU64[k%5], igU16[(k+1)%5], igU8[(k+2)%5], igU8[(k+3)%5], igU32[(k+4)%5], igU32[k%5], igU16[(k+2)%5],
		igU16[(k+3)%5], igU64[(k+1)%5], igU64[(k+4)%5], match)
}

// prog: run an API program observing v, then decode what it marshals
func (g igCtx) prog(kind, src, v string, full bool) {
	c := g.c
	c.run("prog", src+";!"+v)
	if kind == "" {
		return
	}
	if b := marshalProg(src, v); b != nil {
		if full || c.thorough() {
			c.decCases("dec", kind, b)
		} else {
			g.light(kind, b)
		}
	}
}

func init() {
	ofGens = append(ofGens, func(c *Ctx) {
		g := igCtx{c}
		counts := []int{0, 1, 2, 3, 7}

		// ---------------- InstrHeader
		for i, t := range []string{"InstrHeader(0,0)", "InstrHeader(1,8)", "InstrHeader(65535,65535)", "InstrHeader(65534,1)",
			"InstrHeader(4386,13124)", "InstrHeader(6,4)"} {
			g.ed("InstrHeader", t, i < 3)
		}
		for _, s := range []string{"", "00", "0001", "000100", "0001000800", "00010008000000", "0001000800000000"} {
			c.decCases("dec", "InstrHeader", unhex(s))
		}

		// ---------------- InstrGotoTable
		k := 0
		for _, tid := range igU8 {
			for _, pad := range []string{"x000000", "x"} {
				g.ed("InstrGotoTable", fmt.Sprintf("InstrGotoTable(InstrHeader(1,8),%d,%s)", tid, pad), k%4 == 0)
				k++
			}
		}
		// pads of the wrong size / with content (only b[3] can receive pad[0]), cached length and type wrong
		for i, t := range []string{
			"InstrGotoTable(InstrHeader(1,8),7,x010203)", "InstrGotoTable(InstrHeader(1,8),7,xaa)",
			"InstrGotoTable(InstrHeader(1,8),7,x0102030405)", "InstrGotoTable(InstrHeader(1,0),1,x000000)",
			"InstrGotoTable(InstrHeader(1,65535),2,x000000)", "InstrGotoTable(InstrHeader(0,8),3,x)",
			"InstrGotoTable(InstrHeader(65535,9),254,x000000)", "InstrGotoTable(InstrHeader(4386,13124),85,x)",
		} {
			g.ed("InstrGotoTable", t, i%3 == 0)
		}
		for _, s := range []string{"", "0001", "00010008", "0001000805", "000100080500", "00010008050000", "0001000805010203", "000100080501020304"} {
			c.decCases("dec", "InstrGotoTable", unhex(s))
		}

		// ---------------- InstrWriteMetadata
		k = 0
		for i, md := range igU64 {
			for _, pad := range []string{"x00000000", "x"} {
				g.ed("InstrWriteMetadata", fmt.Sprintf("InstrWriteMetadata(InstrHeader(2,24),%s,%d,%d)", pad, md, igU64[(i+k)%5]), k == 0 || k == 5)
				k++
			}
		}
		for i, t := range []string{
			"InstrWriteMetadata(InstrHeader(2,24),x01020304,1,2)", "InstrWriteMetadata(InstrHeader(2,24),x0102,1,2)",
			// a long pad is copied over the whole 20-byte tail before the two words overwrite it
			"InstrWriteMetadata(InstrHeader(2,24),x0102030405060708090a0b0c0d0e0f101112131415161718,1229782938247303441,2459565876494606882)",
			"InstrWriteMetadata(InstrHeader(2,0),x00000000,3,4)", "InstrWriteMetadata(InstrHeader(2,65535),x,3,4)",
			"InstrWriteMetadata(InstrHeader(0,24),x00000000,5,6)", "InstrWriteMetadata(InstrHeader(65535,23),x,5,6)",
		} {
			g.ed("InstrWriteMetadata", t, i == 2)
		}
		for _, s := range []string{"", "00020018", "0002001800000000", "000200180000000011223344556677", "00020018000000001122334455667788aabbccddeeff00",
			"00020018a1a2a3a41122334455667788aabbccddeeff0011"} {
			c.decCases("dec", "InstrWriteMetadata", unhex(s))
		}

		// ---------------- InstrActions: 3 types × 0,1,2,3,7 actions × mixed kinds, pads, cached length right / wrong
		k = 0
		for _, ty := range []int{3, 4, 5} {
			for _, n := range counts {
				as, l := igActions(n, k)
				g.ed("InstrActions", fmt.Sprintf("InstrActions(InstrHeader(%d,%d),%s,%s)", ty, 8+l, igPad(k, "x00000000"), as), k%3 == 0)
				// cached length wrong
				wrong := []int{0, 8, 65535, 8 + l + 8, 7, 8 + l - 4, 9}[k%7]
				g.ed("InstrActions", fmt.Sprintf("InstrActions(InstrHeader(%d,%d),%s,%s)", ty, wrong, igPad(k+1, "x00000000"), as), k%5 == 1)
				k++
			}
		}
		for off := 0; off < 8; off++ {
			// every child kind alone and in front of another one
			as, l := igActions(1, off)
			g.ed("InstrActions", fmt.Sprintf("InstrActions(InstrHeader(4,%d),x00000000,%s)", 8+l, as), true)
			as, l = igActions(2, off)
			g.ed("InstrActions", fmt.Sprintf("InstrActions(InstrHeader(3,%d),x,%s)", 8+l, as), false)
		}
		for _, t := range []string{
			"InstrActions(InstrHeader(4,8),x01020304,[])", "InstrActions(InstrHeader(4,8),x0102,[])", "InstrActions(InstrHeader(4,8),x010203040506,[])",
			"InstrActions(InstrHeader(0,8),x,[])", "InstrActions(InstrHeader(65535,65535),x00000000,[])",
			"InstrActions(InstrHeader(4,16),x00000000,[ActionGroup(ActionHeader(22,0),1)])",
			"InstrActions(InstrHeader(4,16),x00000000,[ActionGroup(ActionHeader(22,65535),1)])",
			"InstrActions(InstrHeader(4,24),x00000000,[ActionOutput(ActionHeader(0,16),1,2,x010203040506)])",
			"InstrActions(InstrHeader(4,24),x00000000,[ActionOutput(ActionHeader(0,16),1,2,x0102030405060708)])",
			"InstrActions(InstrHeader(4,24),x00000000,[ActionOutput(ActionHeader(0,16),1,2,x0102)])",
		} {
			g.ed("InstrActions", t, false)
		}
		// nil action: Len() dereferences it
		c.run("enc", "InstrActions(InstrHeader(4,8),x00000000,[~])")
		c.run("enc", "InstrActions(InstrHeader(4,16),x00000000,[ActionGroup(ActionHeader(22,8),1),~])")
		// hostile frames: length field 0 / 1 / max, action of unknown type, action length 0, truncated action,
		// length field beyond the data (runs off the end), experimenter action
		for _, s := range []string{
			"", "0004", "00040008", "0004000800000000", "0004000000000000" + "0016000800000001", "0004000100000000" + "0016000800000001",
			"0004ffff00000000" + "0016000800000001", "0004001000000000" + "0016000800000001", "0004001000000000" + "0016000000000001",
			"0004001000000000" + "00160008000000", "0004001000000000" + "0063000800000001", "0004001000000000" + "ffff000800002320",
			"0004001200000000" + "ffff000a000023210001", "0004001200000000" + "ffff000a000000010001", "0004001800000000" + "0000001000000001ffe5000000000000",
			"0004001800000000" + "0000001000000001ffe50000000000", "0004000c00000000" + "000b0004", "0004000c00000000" + "000b00",
			"0004001000000000" + "000b0004" + "00100004", "0004001000000000" + "000c0004" + "001b0004", "0004000900000000" + "0012000800000000",
			"0004001000000000" + "0012000800000000", "0004001000000000" + "00120008", "0004001000000000" + "001200",
			"0004002000000000" + "0016000800000001" + "0016000800000002" + "0016000800000003",
			"0004001800000000" + "0016000800000001" + "0016000800000002" + "0016000800000003",
		} {
			c.decCases("dec", "InstrActions", unhex(s))
		}

		// ---------------- InstrMeter (Len / MarshalBinary / UnmarshalBinary are the embedded header's)
		for i, t := range []string{"InstrMeter(InstrHeader(6,8),0)", "InstrMeter(InstrHeader(6,8),1)", "InstrMeter(InstrHeader(6,8),4294967295)",
			"InstrMeter(InstrHeader(6,4),287454020)", "InstrMeter(InstrHeader(0,0),4294967294)", "InstrMeter(InstrHeader(65535,65535),7)"} {
			g.ed("InstrMeter", t, i%2 == 0)
		}
		for _, s := range []string{"", "0006", "00060008", "0006000800000001", "000600080000", "0006000400000001"} {
			c.decCases("dec", "InstrMeter", unhex(s))
		}

		// ---------------- DecodeInstr: valid encodings and hostile inputs
		fnDec := func(b []byte) {
			h := "x"
			if len(b) > 0 {
				h = "x" + hx(b)
			}
			c.run("fn", "DecodeInstr", h)
		}
		for kk := 0; kk < 36; kk++ {
			t, _ := igInstr(kk)
			if b := marshalTerm(t); b != nil {
				fnDec(b)
				if kk < 12 {
					for i := 0; i < len(b); i++ {
						fnDec(b[:i]) // truncated
					}
					for i := 0; i < len(b) && i < 12; i++ {
						for _, v := range []byte{0, 1, 0xff, b[i] + 1, b[i] - 1} {
							if v != b[i] {
								m := append([]byte(nil), b...)
								m[i] = v
								fnDec(m)
							}
						}
					}
				}
			}
		}
		for _, s := range []string{
			"", "00", "0000", "00000008", "0000000800000000", "0007000800000000", "0100000800000000", "ffff000800000000", "ffff0008000023200000000000000000",
			"ffff", "fffe000800000000", "0001", "000100", "00010008", "0001000805", "00010008050000", "0001000005000000", "0001000105000000", "0001ffff05000000",
			"0002", "00020018", "0002001800000000", "00020018000000001122334455667788", "00020018000000001122334455667788aabbccddeeff00",
			"0002000000000000112233445566778899aabbccddeeff00", "0002ffff00000000112233445566778899aabbccddeeff00",
			"0003", "00030008", "0003000800000000", "0003000000000000", "0003000100000000", "0003ffff00000000", "0003001000000000", "000300100000000000160008",
			"0003001000000000001600080000", "00030010000000000016000800000001", "00030010000000000016000000000001", "00030010000000000063000800000001",
			"0003001800000000" + "0016000800000001" + "0012000800000000", "0005001000000000" + "0016000800000001", "0005000800000000" + "0016000800000001",
			"0004001000000000" + "ffff000800002320", "0004001800000000" + "0000001000000001ffe5000000000000", "0004001800000000" + "0000001000000001ffe50000000000",
			"0004ffff00000000" + "0016000800000001" + "000b0004" + "000b0004",
			"0006", "00060004", "0006000800000001", "000600040000", "0006000000000000", "0006ffff",
		} {
			fnDec(unhex(s))
		}

		// ---------------- Bucket
		k = 0
		for _, n := range counts {
			for _, right := range []bool{true, false} {
				t, _ := igBucket(k, n, right)
				g.ed("Bucket", t, k%3 == 0)
				k++
			}
		}
		for off := 0; off < 8; off++ {
			t, _ := igBucket(off+100, 1, true)
			g.ed("Bucket", t, off%2 == 0)
		}
		for i, w := range igU16 {
			g.ed("Bucket", fmt.Sprintf("Bucket(16,%d,%d,%d,%s,[])", w, igU32[i], igU32[(i+3)%5], igPad(i, "x01020304")), i == 4)
		}
		c.run("enc", "Bucket(16,0,0,0,x00000000,[~])")
		c.run("enc", "Bucket(16,0,0,0,x00000000,[ActionPopVlan(ActionHeader(18,8),x),~])")
		for _, s := range []string{
			"", "0010", "00100000", "0010000000000001", "001000000000000100000002", "00100000000000010000000200", "00100000000000010000000200000000",
			"00000000ffffffffffffffff00000000", "00010000ffffffffffffffff00000000", "ffff0000ffffffffffffffff00000000", "00110000ffffffffffffffff00000000",
			"00180001000000010000000200000000" + "0016000800000001", "00180001000000010000000200000000" + "0016000000000001", "00180001000000010000000200000000" + "00160008000000",
			"00180001000000010000000200000000" + "0063000800000001", "00180001000000010000000200000000" + "ffff000800002320", "00180001000000010000000200000000" + "000b0004",
			"00180001000000010000000200000000" + "000b0004" + "00100004", "00200001000000010000000200000000" + "0000001000000001ffe5000000000000",
			"00200001000000010000000200000000" + "0000001000000001ffe50000000000", "00140001000000010000000200000000" + "0016000800000001",
			"00280001000000010000000200000000" + "0016000800000001" + "0012000800000000",
		} {
			c.decCases("dec", "Bucket", unhex(s))
		}

		// ---------------- GroupMod: every command (and unknown ones) × 0,1,2,3,7 buckets × mixed children
		k = 0
		for _, cmd := range []uint64{0, 1, 2, 3, 65535} {
			for _, n := range counts {
				bs, l := igBuckets(n, k)
				hl := []int{16 + l, 8, 0, 65535, 16 + l + 8}[k%5] // cached Header.Length (overwritten by MarshalBinary)
				t := fmt.Sprintf("GroupMod(Header(4,15,%d,%d),%d,%d,%d,%d,%s)", hl, igU32[k%5], cmd, igU8[(k+1)%5], igU8[(k+2)%5], igU32[(k+3)%5], bs)
				full := k%4 == 1
				g.ed("GroupMod", t, full)
				if b := marshalTerm(t); b != nil && (k%3 == 0 || c.thorough()) {
					g.tail("GroupMod", b, 48, 112)
				}
				k++
			}
		}
		for i, ty := range []uint64{0, 1, 2, 3, 4, 255} {
			bs, _ := igBuckets(1, i)
			g.ed("GroupMod", fmt.Sprintf("GroupMod(Header(%d,%d,8,%d),%d,%d,0,%d,%s)", igU8[i%5], igU8[(i+1)%5], i, i%3, ty, igU32[i%5], bs), false)
		}
		// buckets whose cached Length is consistent, so that the encoding decodes back bucket by bucket
		for _, n := range counts {
			var parts []string
			for i := 0; i < n; i++ {
				t, _ := igBucket(8*i+[]int{0, 1, 2, 4, 6}[i%5], i%3, true)
				parts = append(parts, t)
			}
			g.ed("GroupMod", fmt.Sprintf("GroupMod(Header(4,15,8,%d),%d,1,0,%d,[%s])", 40+n, n%3, 100+n, strings.Join(parts, ",")), n == 3)
		}
		c.run("enc", "GroupMod(Header(4,15,8,1),0,0,0,1,[Bucket(16,0,0,0,x,[~])])")
		c.run("enc", "GroupMod(Header(4,15,8,1),2,0,0,1,[Bucket(16,0,0,0,x,[~])])")
		for i, s := range []string{
			"", "040f", "040f0010", "040f001000000001", "040f00100000000100", "040f0010000000010000", "040f001000000001000001", "040f00100000000100000100", "040f001000000001000001000000",
			"040f0010000000010000010000000005", "040f0000000000010002010000000005", "040f0001000000010000010000000005", "040fffff000000010000010000000005",
			"040f0020000000010000010000000005" + "00100000ffffffffffffffff00000000", "040f0020000000010000010000000005" + "00000000ffffffffffffffff00000000",
			"040f0020000000010000010000000005" + "ffff0000ffffffffffffffff00000000", "040f0020000000010000010000000005" + "00100000ffffffffffffffff000000",
			"040f0011000000010000010000000005" + "00100000ffffffffffffffff00000000", "040f0021000000010000010000000005" + "00100000ffffffffffffffff00000000",
			"040f0028000000010000010000000005" + "00180000ffffffffffffffff00000000" + "0016000800000001",
			"040f0028000000010000010000000005" + "00180000ffffffffffffffff00000000" + "0063000800000001",
			"040f0028000000010000010000000005" + "00180000ffffffffffffffff00000000" + "00160008000000",
			"040f0028000000010000010000000005" + "00180000ffffffffffffffff00000000" + "ffff000800002320",
			"040f0024000000010000010000000005" + "00180000ffffffffffffffff00000000" + "000b0004",
			"040f0038000000010002010000000005" + "00180000ffffffffffffffff00000000" + "0016000800000001" + "00100000ffffffffffffffff00000000",
		} {
			g.hostile("GroupMod", unhex(s), i < 14 || i == 19, 12)
		}

		// ---------------- FlowMod: all 5 commands (and unknown ones) × 0,1,2,3,7 instructions × mixed kinds × matches
		k = 0
		for _, cmd := range []uint64{0, 1, 2, 3, 4, 5, 255} {
			for _, n := range counts {
				is, l := igInstrs(n, k)
				m := igMatches[k%len(igMatches)]
				hl := []int{48 + m.n + l, 8, 0, 65535, 48 + m.n}[k%5]
				t := g.flowMod(uint64(hl), igU32[k%5], k, cmd, igPad(k, "x0000"), m.term, is)
				g.ed("FlowMod", t, k%5 == 2)
				if b := marshalTerm(t); b != nil && (k%3 == 0 || c.thorough()) {
					// the match type/length and the instruction area
					g.tail("FlowMod", b, 48, 52)
					g.tail("FlowMod", b, 48+m.n, 48+m.n+72)
				}
				k++
			}
		}
		// every instruction kind alone / in front of another one, with every match
		for off := 0; off < 12; off++ {
			is, _ := igInstrs(1+off%2, off)
			m := igMatches[off%len(igMatches)]
			g.ed("FlowMod", g.flowMod(8, 1, off, uint64(off%5), "x", m.term, is), off%4 == 0)
		}
		c.run("enc", g.flowMod(8, 1, 0, 0, "x", "Match(1,4,[])", "[~]"))
		c.run("enc", g.flowMod(8, 1, 0, 3, "x", "Match(1,4,[])", "[~]"))
		c.run("enc", g.flowMod(8, 1, 0, 0, "x0102", "Match(1,4,[])", "[InstrGotoTable(InstrHeader(1,8),1,x),~]"))
		c.run("enc", g.flowMod(8, 1, 0, 0, "x", "Match(1,12,[MatchField(32768,0,0,4,0,~,~)])", "[]"))
		c.run("enc", g.flowMod(8, 1, 0, 0, "x", "Match(1,12,[MatchField(32768,0,0,4,5,InPortField(9),~)])", "[]"))
		c.run("enc", g.flowMod(8, 1, 0, 0, "x", "Match(1,12,[MatchField(32768,0,1,4,0,InPortField(9),~)])", "[]"))
		// hostile frames
		fmFixed := "1122334455667788" + "8877665544332211" + "05" + "00" + "000a" + "0014" + "03e8" + "ffffffff" + "00000007" + "00000009" + "0001" + "0000"
		for i, s := range []string{
			"", "040e", "040e0038", "040e003800000001", "040e003800000001" + fmFixed[:20], "040e003800000001" + fmFixed,
			"040e003800000001" + fmFixed + "00010004", "040e003800000001" + fmFixed + "0001000400000000",
			"040e004000000001" + fmFixed + "0001000400000000" + "0001000805000000",
			"040e004000000001" + fmFixed + "0001000400000000" + "0000000805000000", // unknown instruction type 0
			"040e004000000001" + fmFixed + "0001000400000000" + "ffff000805000000", // experimenter instruction
			"040e004000000001" + fmFixed + "0001000400000000" + "0007000805000000",
			"040e004000000001" + fmFixed + "0001000400000000" + "00010008050000",
			"040e004000000001" + fmFixed + "0001000400000000" + "000100",
			"040e004000000001" + fmFixed + "0001000400000000" + "00",
			"040e003c00000001" + fmFixed + "0001000400000000" + "00060004",
			"040e004000000001" + fmFixed + "0001000400000000" + "0006000800000001",
			"040e004400000001" + fmFixed + "0001000400000000" + "00060004" + "0001000805000000",
			"040e004800000001" + fmFixed + "0001000400000000" + "0004001000000000" + "0016000800000001",
			"040e004800000001" + fmFixed + "0001000400000000" + "0004000000000000" + "0016000800000001",
			"040e004800000001" + fmFixed + "0001000400000000" + "0004ffff00000000" + "0016000800000001",
			"040e004800000001" + fmFixed + "0001000400000000" + "0004001000000000" + "0016000000000001",
			"040e004800000001" + fmFixed + "0001000400000000" + "0004001000000000" + "0063000800000001",
			"040e005000000001" + fmFixed + "0001000400000000" + "00020018000000001122334455667788aabbccddeeff0011",
			"040e005000000001" + fmFixed + "0001000400000000" + "00020018000000001122334455667788aabbccddeeff00",
			"040e000000000001" + fmFixed + "0001000400000000" + "0001000805000000",
			"040effff00000001" + fmFixed + "0001000400000000" + "0001000805000000",
			"040e003900000001" + fmFixed + "0001000400000000" + "0001000805000000",
			"040e004800000001" + fmFixed + "0001000c80000004000000070000000000" + "0001000805000000",
			"040e004800000001" + fmFixed + "0001000480000004000000070000000000" + "0001000805000000", // match length too small: the rest of the match is read as instructions
			"040e004800000001" + fmFixed + "0001000000000000" + "0001000805000000",
			"040e004800000001" + fmFixed + "0001ffff80000004000000070000000000" + "0001000805000000",
		} {
			g.hostile("FlowMod", unhex(s), i == 8 || i == 18, 44)
		}

		// ---------------- FlowRemoved
		for i, m := range igMatches {
			g.ed("FlowRemoved", g.flowRemoved(i, m.term), i%3 == 0)
		}
		for i := 0; i < 5; i++ {
			g.ed("FlowRemoved", g.flowRemoved(i+8, igMatches[i%2].term), false)
		}
		c.run("enc", g.flowRemoved(1, "Match(1,12,[MatchField(32768,0,0,4,0,~,~)])"))
		frFixed := "1122334455667788" + "03e8" + "02" + "05" + "0000000a" + "0000000b" + "000c" + "000d" + "00000000000000ff" + "000000000000ffff"
		for i, s := range []string{
			"", "040b", "040b0038", "040b003800000001", "040b003800000001" + frFixed[:30], "040b003800000001" + frFixed,
			"040b003800000001" + frFixed + "0001", "040b003800000001" + frFixed + "00010004", "040b003800000001" + frFixed + "0001000400000000",
			"040b004000000001" + frFixed + "0001000c800000040000000700000000", "040b004000000001" + frFixed + "0001000c8000000400000007",
			"040b004000000001" + frFixed + "0001000c80000004000000", "040b004000000001" + frFixed + "0001000080000004000000070000000000",
			"040b004000000001" + frFixed + "0001ffff80000004000000070000000000",
		} {
			g.hostile("FlowRemoved", unhex(s), i == 9, 44)
		}

		// ---------------- API programs: every constructor and adder
		for _, tid := range []uint64{0, 1, 255, 254, 17, 256, 300} {
			g.prog("InstrGotoTable", fmt.Sprintf("i=NewInstrGotoTable(%d)", tid), "i", tid == 17)
		}
		for i, md := range igU64 {
			g.prog("InstrWriteMetadata", fmt.Sprintf("i=NewInstrWriteMetadata(%d,%d)", md, igU64[(i+2)%5]), "i", i == 4)
		}
		g.prog("InstrActions", "i=NewInstrWriteActions()", "i", true)
		g.prog("InstrActions", "i=NewInstrApplyActions()", "i", true)
		g.prog("Bucket", "b=NewBucket()", "b", true)
		g.prog("GroupMod", "g=NewGroupMod();$g.Xid=7", "g", true)
		g.prog("FlowMod", "f=NewFlowMod();$f.Xid=7", "f", true)
		g.prog("FlowRemoved", "r=NewFlowRemoved();$r.Xid=7", "r", true)
		g.prog("FlowRemoved", "r=NewFlowRemoved();$r.Xid=4294967295;$r.Cookie=1311768467463790320;$r.Priority=1000;$r.Reason=2;$r.TableId=5;"+
			"$r.DurationSec=10;$r.DurationNSec=11;$r.IdleTimeout=12;$r.HardTimeout=13;$r.PacketCount=255;$r.ByteCount=65535;"+
			"m=Match(1,12,["+igInPort+"]);$r.Match=*$m", "r", false)

		// action statements: constructors of the action area and literal terms
		actStmt := func(name string, kk int) string {
			switch kk % 5 {
			case 0:
				return fmt.Sprintf("%s=NewActionOutput(%d)", name, igU32[(kk/5)%5])
			case 1:
				return fmt.Sprintf("%s=NewActionGroup(%d)", name, igU32[(kk/5+1)%5])
			case 2:
				return fmt.Sprintf("%s=NewActionPopVlan()", name)
			default:
				t, _ := igAction(kk)
				return name + "=" + t
			}
		}
		// InstrActions.AddAction: append, prepend, several adds
		k = 0
		for _, ctor := range []string{"NewInstrApplyActions", "NewInstrWriteActions"} {
			for _, n := range counts {
				for _, mode := range []int{0, 1, 2} { // append only, prepend only, alternating
					if n == 0 && mode > 0 {
						continue
					}
					st := []string{"i=" + ctor + "()"}
					for j := 0; j < n; j++ {
						pre := 0
						if mode == 1 || (mode == 2 && j%2 == 1) {
							pre = 1
						}
						st = append(st, actStmt(fmt.Sprintf("a%d", j), k+j), fmt.Sprintf("$i.AddAction($a%d,%d)", j, pre))
					}
					g.prog("InstrActions", strings.Join(st, ";"), "i", k%7 == 3)
					k++
				}
			}
		}
		c.run("prog", "i=NewInstrApplyActions();$i.AddAction(~,0);!i")
		c.run("prog", "i=NewInstrApplyActions();a=NewActionPopVlan();$i.AddAction($a,0);$i.AddAction(~,1);!i")
		// AddAction on a literal with a stale cached length / existing actions
		c.run("prog", "i=InstrActions(InstrHeader(4,999),x,[ActionHeader(11,4)]);a=NewActionGroup(3);$i.AddAction($a,1);!i")
		c.run("prog", "i=InstrActions(InstrHeader(5,8),x00000000,[]);a=ActionHeader(12,4);$i.AddAction($a,0);!i")
		// not supported on the other instructions
		c.run("prog", "i=NewInstrGotoTable(1);a=NewActionPopVlan();$i.AddAction($a,0);!i")
		c.run("prog", "i=NewInstrWriteMetadata(1,2);a=NewActionGroup(1);$i.AddAction($a,1);!i")
		c.run("prog", "i=InstrMeter(InstrHeader(6,8),1);a=NewActionOutput(1);$i.AddAction($a,0);!i")
		c.run("prog", "i=NewInstrGotoTable(1);$i.AddAction(~,0);!i")

		// Bucket.AddAction (Length is only recomputed by MarshalBinary), setters
		k = 0
		for _, n := range counts {
			st := []string{"b=NewBucket()"}
			if n%2 == 1 {
				st = append(st, fmt.Sprintf("$b.Weight=%d", igU16[n%5]), fmt.Sprintf("$b.WatchPort=%d", igU32[n%5]), fmt.Sprintf("$b.WatchGroup=%d", igU32[(n+1)%5]))
			}
			for j := 0; j < n; j++ {
				st = append(st, actStmt(fmt.Sprintf("a%d", j), k+j+n), fmt.Sprintf("$b.AddAction($a%d)", j))
			}
			g.prog("Bucket", strings.Join(st, ";"), "b", n == 2)
			k += 3
		}
		c.run("prog", "b=NewBucket();$b.AddAction(~);!b")
		c.run("prog", "b=NewBucket();$b.Length=99;a=ActionHeader(11,4);$b.AddAction($a);!b")

		// GroupMod.AddBucket with every command, setters
		k = 0
		for _, cmd := range []uint64{0, 1, 2} {
			for _, n := range counts {
				st := []string{"g=NewGroupMod()", "$g.Xid=7", fmt.Sprintf("$g.Command=%d", cmd), fmt.Sprintf("$g.Type=%d", k%4), fmt.Sprintf("$g.GroupId=%d", igU32[k%5])}
				for j := 0; j < n; j++ {
					bn := fmt.Sprintf("b%d", j)
					st = append(st, bn+"=NewBucket()")
					for q := 0; q < (j+k)%3; q++ {
						an := fmt.Sprintf("a%d_%d", j, q)
						st = append(st, actStmt(an, k+j+q), fmt.Sprintf("$%s.AddAction($%s)", bn, an))
					}
					st = append(st, fmt.Sprintf("$g.AddBucket(*$%s)", bn))
				}
				g.prog("GroupMod", strings.Join(st, ";"), "g", k%5 == 2)
				k++
			}
		}
		c.run("prog", "g=NewGroupMod();$g.Xid=7;$g.AddBucket(Bucket(16,1,2,3,x,[]));$g.AddBucket(Bucket(0,0,0,0,x00000000,[ActionHeader(11,4)]));!g")
		c.run("prog", "g=NewGroupMod();$g.Xid=0;$g.Command=65535;$g.pad=9;b=NewBucket();$g.AddBucket(*$b);!g")

		// FlowMod.AddInstruction with every command, setters, instructions built through their own adders
		instrStmts := func(name string, kk int) []string {
			switch kk % 5 {
			case 0:
				return []string{fmt.Sprintf("%s=NewInstrGotoTable(%d)", name, igU8[(kk/5)%5])}
			case 1:
				st := []string{name + "=NewInstrApplyActions()"}
				for q := 0; q < (kk/5)%3+1; q++ {
					an := fmt.Sprintf("%sa%d", name, q)
					st = append(st, actStmt(an, kk+q), fmt.Sprintf("$%s.AddAction($%s,%d)", name, an, q%2))
				}
				return st
			case 2:
				return []string{fmt.Sprintf("%s=NewInstrWriteMetadata(%d,%d)", name, igU64[(kk/5)%5], igU64[(kk/5+1)%5])}
			case 3:
				st := []string{name + "=NewInstrWriteActions()"}
				for q := 0; q < (kk/5)%2; q++ {
					an := fmt.Sprintf("%sa%d", name, q)
					st = append(st, actStmt(an, kk+q+1), fmt.Sprintf("$%s.AddAction($%s,1)", name, an))
				}
				return st
			default:
				t, _ := igInstr(kk)
				return []string{name + "=" + t}
			}
		}
		k = 0
		for _, cmd := range []uint64{0, 1, 2, 3, 4} {
			for _, n := range counts {
				st := []string{"f=NewFlowMod()", "$f.Xid=7", fmt.Sprintf("$f.Command=%d", cmd)}
				if k%2 == 1 {
					st = append(st, fmt.Sprintf("$f.Cookie=%d", igU64[k%5]), fmt.Sprintf("$f.CookieMask=%d", igU64[(k+1)%5]), fmt.Sprintf("$f.TableId=%d", igU8[k%5]),
						fmt.Sprintf("$f.IdleTimeout=%d", igU16[k%5]), fmt.Sprintf("$f.HardTimeout=%d", igU16[(k+1)%5]), fmt.Sprintf("$f.Priority=%d", igU16[(k+2)%5]),
						fmt.Sprintf("$f.BufferId=%d", igU32[k%5]), fmt.Sprintf("$f.OutPort=%d", igU32[(k+1)%5]), fmt.Sprintf("$f.OutGroup=%d", igU32[(k+2)%5]),
						fmt.Sprintf("$f.Flags=%d", igU16[(k+3)%5]))
				}
				if k%3 != 0 {
					st = append(st, "m="+igMatches[k%6].term, "$f.Match=*$m")
				}
				for j := 0; j < n; j++ {
					in := fmt.Sprintf("i%d", j)
					st = append(st, instrStmts(in, k+j)...)
					st = append(st, fmt.Sprintf("$f.AddInstruction($%s)", in))
				}
				g.prog("FlowMod", strings.Join(st, ";"), "f", k%6 == 1)
				k++
			}
		}
		c.run("prog", "f=NewFlowMod();$f.Xid=7;$f.AddInstruction(~);!f")
		c.run("prog", "f=NewFlowMod();$f.Xid=7;$f.Command=4;$f.AddInstruction(~);!f")
		c.run("prog", "f=NewFlowMod();$f.Xid=7;$f.pad=x0102;$f.OutPort=1;$f.OutGroup=2;!f")

		// ---------------- UnmarshalBinary into receivers that are not fresh: allocated pads of every size, existing children
		for _, recv := range []string{"i=NewInstrGotoTable(1)", "i=InstrGotoTable(InstrHeader(1,8),7,x0102030405)", "i=InstrGotoTable(InstrHeader(1,8),7,xaa)",
			"i=InstrGotoTable(InstrHeader(1,8),7,xaabb)", "i=InstrGotoTable(InstrHeader(9,9),7,x)"} {
			for _, d := range []string{"x00010008050a0b0c", "x00010008050a0b", "x0001000805", "x00010008", "x000100", "x", "x0002ffff050a0b0c0d0e"} {
				c.run("prog", recv+";$i.UnmarshalBinary("+d+");!i")
			}
		}
		for _, recv := range []string{"i=NewInstrWriteMetadata(1,2)", "i=InstrWriteMetadata(InstrHeader(2,24),x0102,1,2)", "i=InstrWriteMetadata(InstrHeader(2,24),x010203040506,1,2)",
			"i=InstrWriteMetadata(InstrHeader(9,9),x,1,2)"} {
			for _, d := range []string{"x00020018a1a2a3a41122334455667788aabbccddeeff0011", "x00020018a1a2a3a41122334455667788aabbccddeeff00", "x00020018a1a2a3a41122334455667788",
				"x00020018a1a2a3", "x0002", "x"} {
				c.run("prog", recv+";$i.UnmarshalBinary("+d+");!i")
			}
		}
		for _, d := range []string{"x0003001000000000" + "0016000800000001", "x0003000800000000", "x0003001000000000" + "00160008000000", "x0003001000000000" + "0063000800000001", "x000300"} {
			c.run("prog", "i=NewInstrApplyActions();a=NewActionPopVlan();$i.AddAction($a,0);$i.UnmarshalBinary("+d+");!i")
			c.run("prog", "i=InstrActions(InstrHeader(4,12),x0102,[ActionHeader(11,4)]);$i.UnmarshalBinary("+d+");!i")
		}
		for _, d := range []string{"x00180001000000020000000300000000" + "0016000800000001", "x00100001000000020000000300000000", "x001800010000000200000003000000000016000800", "x0018"} {
			c.run("prog", "b=NewBucket();a=NewActionPopVlan();$b.AddAction($a);$b.UnmarshalBinary("+d+");!b")
		}
		c.run("prog", "i=InstrMeter(InstrHeader(6,8),5);$i.UnmarshalBinary(x00060004);!i")
		c.run("prog", "i=InstrMeter(InstrHeader(6,8),5);$i.UnmarshalBinary(x0006000400000001);!i")
		c.run("prog", "i=InstrHeader(6,8);$i.UnmarshalBinary(x00010002);!i")
		c.run("prog", "i=InstrHeader(6,8);$i.UnmarshalBinary(x0001000203);!i")
		// receivers made by the zero-argument constructors (what Parse uses for FlowMod / FlowRemoved)
		for kk, t := range []string{"InstrActions(InstrHeader(3,8),x,[])", "InstrActions(InstrHeader(4,32),x,[ActionGroup(ActionHeader(22,8),1),ActionOutput(ActionHeader(0,16),2,3,x)])"} {
			if b := marshalTerm(t); b != nil {
				g.lightOp("decc", "NewInstrWriteActions", b)
				g.lightOp("decc", "NewInstrApplyActions", b)
				_ = kk
			}
		}
		for kk := 0; kk < 4; kk++ {
			t, _ := igBucket(kk*3, kk, true)
			if b := marshalTerm(t); b != nil {
				g.lightOp("decc", "NewBucket", b)
			}
			bs, _ := igBuckets(kk, kk)
			if b := marshalTerm(fmt.Sprintf("GroupMod(Header(4,15,8,%d),%d,1,0,9,%s)", kk, kk%3, bs)); b != nil {
				g.lightOp("decc", "NewGroupMod", b)
			}
			is, _ := igInstrs(kk, kk)
			if b := marshalTerm(g.flowMod(8, 1, kk, uint64(kk), "x", igMatches[kk+1].term, is)); b != nil {
				if kk == 2 {
					c.decCases("decc", "NewFlowMod", b)
				} else {
					g.lightOp("decc", "NewFlowMod", b)
				}
			}
			if b := marshalTerm(g.flowRemoved(kk, igMatches[kk+2].term)); b != nil {
				if kk == 1 {
					c.decCases("decc", "NewFlowRemoved", b)
				} else {
					g.lightOp("decc", "NewFlowRemoved", b)
				}
			}
		}

		// ---------------- spinning decoders: a child whose Len() wraps to 0 (uint16) never advances the parent's cursor
		{
			out := "0000001000000001ffe5000000000000"
			// bucket with 4095 output actions: Len() = (16 + 65520) mod 65536 = 0
			gm := "040fffff00000001" + "0000010000000005" + "ffff0000ffffffffffffffff00000000" + strings.Repeat(out, 4095)
			c.decCase("dec", "GroupMod", unhex(gm), 0)
			// apply-actions instruction with 65528 bytes of actions: Len() = (8 + 65528) mod 65536 = 0
			fm := "040effff00000001" + fmFixed + "0001000400000000" + "0004ffff00000000" + strings.Repeat(out, 4095) + "0016000800000001"
			c.decCase("dec", "FlowMod", unhex(fm), 0)
			if c.thorough() {
				c.decCase("dec", "GroupMod", unhex(gm), 24)
				c.decCase("dec", "FlowMod", unhex(fm), 24)
				// one byte less: the last action is truncated instead
				c.decCase("dec", "GroupMod", unhex(gm[:len(gm)-2]), 0)
				c.decCase("dec", "FlowMod", unhex(fm[:len(fm)-2]), 0)
			}
		}

		// ---------------- near-65535-byte shapes (thorough tier only)
		if c.thorough() {
			big := func(kind, term string) {
				c.run("enc", term)
				if b := marshalTerm(term); b != nil {
					c.decCase("dec", kind, b, 0)
					c.decCase("dec", kind, b[:len(b)-1], 24)
				}
			}
			for _, n := range []int{4095, 4096} {
				as := "[" + strings.Repeat("ActionOutput(ActionHeader(0,16),1,2,x),", n-1) + "ActionOutput(ActionHeader(0,16),3,4,x)]"
				big("InstrActions", fmt.Sprintf("InstrActions(InstrHeader(4,%d),x00000000,%s)", (8+16*n)%65536, as))
				big("Bucket", fmt.Sprintf("Bucket(%d,0,1,2,x,%s)", (16+16*n)%65536, as))
			}
			for _, n := range []int{8191, 8192} {
				as := "[" + strings.Repeat("ActionGroup(ActionHeader(22,8),1),", n-1) + "ActionHeader(11,4)]"
				big("InstrActions", fmt.Sprintf("InstrActions(InstrHeader(3,%d),x,%s)", (8+8*n-4)%65536, as))
				big("Bucket", fmt.Sprintf("Bucket(%d,0,1,2,x,%s)", (16+8*n)%65536, as))
			}
			// group mod / flow mod whose total crosses 65535
			for _, n := range []int{2046, 2047, 2048} {
				bs := "[" + strings.Repeat("Bucket(32,1,2,3,x,[ActionOutput(ActionHeader(0,16),1,2,x)]),", n-1) + "Bucket(16,0,0,0,x,[])]"
				for _, cmd := range []int{0, 2} {
					big("GroupMod", fmt.Sprintf("GroupMod(Header(4,15,8,1),%d,0,0,1,%s)", cmd, bs))
				}
			}
			for _, n := range []int{2728, 2729, 2730} {
				is := "[" + strings.Repeat("InstrWriteMetadata(InstrHeader(2,24),x,1,2),", n-1) + "InstrGotoTable(InstrHeader(1,8),1,x)]"
				for _, cmd := range []uint64{0, 3} {
					big("FlowMod", g.flowMod(8, 1, 0, cmd, "x", "Match(1,4,[])", is))
				}
			}
		}
	})
}
