package main

// generator for openflow13/action.go and openflow13/nx_action.go

import (
	"encoding/binary"
	"fmt"
	"strings"
)

// actionMFFilter: while the Lean side only has a stand-in for match.go (Uint32Message / Uint16Message / EthDstField
// values), decoder variants of SetField / RegLoad2 whose mutated OXM class/field selects another value type are
// dropped.  Set it to false once the full MatchField model is linked.
const actionMFFilter = false

// ---- terms ---------------------------------------------------------------------------------------

func aAH(ty, ln int) string { return fmt.Sprintf("ActionHeader(%d,%d)", ty, ln) }

// NXActionHeader(ActionHeader(0xffff,ln),0x2320,subtype)
func aNXH(ln, sub int) string {
	return fmt.Sprintf("NXActionHeader(ActionHeader(65535,%d),8992,%d)", ln, sub)
}

const (
	mfReg0      = "MatchField(1,0,0,4,0,Uint32Message(305419896),~)"
	mfReg3Mask  = "MatchField(1,3,1,8,0,Uint32Message(2864434397),Uint32Message(4294901760))"
	mfEthDst    = "MatchField(32768,3,0,6,0,EthDstField(x0a0b0c0d0e0f),~)"
	mfEthDstM   = "MatchField(32768,3,1,12,0,EthDstField(x0a0b0c0d0e0f),EthDstField(xffffff000000))"
	mfCtZone    = "MatchField(1,106,0,2,0,Uint16Message(4660),~)"
	mfCtMark    = "MatchField(1,107,0,4,0,Uint32Message(4294967295),~)"
	mfHdrReg5   = "MatchField(1,5,0,4,0,~,~)" // header-only fields, as the header decoders leave them
	mfHdrEthSrc = "MatchField(32768,4,0,6,0,~,~)"
	mfHdrMax    = "MatchField(65535,127,1,255,0,~,~)"
	mfHdrZero   = "MatchField(0,0,0,0,0,~,~)"
	mfExpID     = "MatchField(1,0,0,4,7,Uint32Message(1),~)" // ExperimenterID != 0: Len grows by 4, nothing is written for it
	mfShortEth  = "MatchField(32768,3,0,6,0,EthDstField(x0a0b),~)"
	mfLongEth   = "MatchField(32768,3,0,6,0,EthDstField(x0102030405060708),~)"
	mfNilVal    = "MatchField(1,0,0,4,0,~,~)"
	mfNilMask   = "MatchField(1,0,1,8,0,Uint32Message(1),~)"
)

var mfFull = []string{mfReg0, mfReg3Mask, mfEthDst, mfEthDstM, mfCtZone, mfCtMark, mfExpID, mfShortEth, mfLongEth}
var mfHdrs = []string{mfHdrReg5, mfHdrEthSrc, mfHdrMax, mfHdrZero, mfReg0}

// is the OXM TLV starting at b[off:] one the stand-in MatchField model decodes faithfully?
func mfOK(b []byte, off int) bool {
	if !actionMFFilter || len(b) < off+3 {
		return true
	}
	cls := binary.BigEndian.Uint16(b[off:])
	fld := int(b[off+2] >> 1)
	switch cls {
	case 0x8000:
		if fld == 3 || fld == 33 {
			return true
		}
		return fld == 1 || fld == 7 || fld == 9 || fld == 35 || fld == 37 || fld == 39 || (fld >= 40 && fld != 42)
	case 1:
		return !((fld >= 17 && fld <= 25 && fld != 24) || fld == 27 || fld == 31 || fld == 32 || (fld >= 40 && fld <= 47) ||
			(fld >= 108 && fld <= 114) || (fld >= 119 && fld <= 125))
	case 0xffff:
		if len(b) < off+8 || binary.BigEndian.Uint32(b[off+4:]) != 0x4f4e4600 {
			return true
		}
		return fld != 42 && fld != 43
	}
	return true
}

// encDec, except that huge encodings (a cached Length near 65535) are only decoded whole and at a few cut points
func (c *Ctx) aEncDec(kind, term string) {
	b := marshalTerm(term)
	if len(b) <= 512 {
		c.encDec(kind, term)
		return
	}
	c.run("enc", term)
	for _, i := range []int{len(b), len(b) - 1, 4096, 40, 24, 16} {
		c.decCase("dec", kind, b[:i], 0)
	}
}

// encDec with the MatchField filter applied to the TLV at offset off of every variant
func (c *Ctx) encDecMF(kind, term string, off int) {
	c.run("enc", term)
	if b := marshalTerm(term); b != nil {
		for _, v := range c.variants(b) {
			if mfOK(v, off) {
				c.decCase("dec", kind, v, 0)
				c.decCase("dec", kind, v, 24)
			}
		}
	}
}

// exact encoding and every truncation only (no byte mutations): for containers whose nested actions carry OXM TLVs
// and for encodings whose mutations mostly spin
func (c *Ctx) decTrunc(kind string, b []byte) {
	for i := 0; i <= len(b); i++ {
		if i < 64 || i%4 == 0 || i == len(b) {
			c.decCase("dec", kind, b[:i], 0)
			c.decCase("dec", kind, b[:i], 24)
		}
	}
}

func (c *Ctx) encTrunc(kind, term string) {
	c.run("enc", term)
	if b := marshalTerm(term); b != nil {
		c.decTrunc(kind, b)
	}
}

// byte-slice argument term ("x" alone is the empty slice)
func aX(b []byte) string { return fmt.Sprintf("x%x", b) }

func aList(xs []string) string { return "[" + strings.Join(xs, ",") + "]" }

var aU16 = []uint64{0, 1, 0xffff, 0xfffe, 0x1122}
var aU32 = []uint64{0, 1, 0xffffffff, 0xfffffffe, 0x11223344}
var aU8 = []uint64{0, 1, 0xff, 0xfe, 0x12}
var aPads = func(n int) []string {
	return []string{"x", "x" + strings.Repeat("00", n), "x" + strings.Repeat("ab", n), "x" + strings.Repeat("cd", n+2), "x01"}
}

func init() {
	ofGens = append(ofGens, genActionPlain, genActionNX, genActionNest, genActionAPI, genActionDecode)
}

// ---- action.go ------------------------------------------------------------------------------------

func genActionPlain(c *Ctx) {
	for i, ty := range []int{0, 11, 12, 16, 27, 65535, 1} {
		c.aEncDec("ActionHeader", aAH(ty, int(aU16[i%5])))
	}
	for i, p := range aU32 {
		for j, pad := range aPads(6) {
			if i == j || i == 0 || j == 1 {
				c.aEncDec("ActionOutput", fmt.Sprintf("ActionOutput(%s,%d,%d,%s)", aAH(0, 16), p, aU16[(i+j)%5], pad))
			}
		}
	}
	c.aEncDec("ActionOutput", fmt.Sprintf("ActionOutput(%s,4294967293,65509,x000000000000)", aAH(7, 0)))
	for i, q := range aU32 {
		c.aEncDec("ActionSetqueue", fmt.Sprintf("ActionSetqueue(%s,%d)", aAH(21, []int{8, 0, 65535, 16, 7}[i]), q))
		c.aEncDec("ActionGroup", fmt.Sprintf("ActionGroup(%s,%d)", aAH(22, []int{8, 0, 65535, 16, 7}[i]), q))
	}
	for i, t := range aU8 {
		pad := aPads(3)[i]
		c.aEncDec("ActionMplsTtl", fmt.Sprintf("ActionMplsTtl(%s,%d,%s)", aAH(15, 8), t, pad))
		c.aEncDec("ActionNwTtl", fmt.Sprintf("ActionNwTtl(%s,%d,%s)", aAH(23, []int{8, 4, 0, 65535, 1}[i]), t, pad))
	}
	for i, pad := range aPads(4) {
		c.aEncDec("ActionDecNwTtl", fmt.Sprintf("ActionDecNwTtl(%s,%s)", aAH(24, []int{8, 0, 65535, 4, 9}[i]), pad))
		c.aEncDec("ActionPopVlan", fmt.Sprintf("ActionPopVlan(%s,%s)", aAH(18, []int{8, 0, 65535, 4, 9}[i]), pad))
	}
	for i, et := range []uint64{0x8100, 0x88a8, 0x8847, 0, 0xffff, 1, 0x1122} {
		pad := aPads(2)[i%5]
		c.aEncDec("ActionPush", fmt.Sprintf("ActionPush(%s,%d,%s)", aAH([]int{17, 19, 26}[i%3], 8), et, pad))
		c.aEncDec("ActionPopMpls", fmt.Sprintf("ActionPopMpls(%s,%d,%s)", aAH(20, 8), et, pad))
	}
	for i, f := range mfFull {
		c.encDecMF("ActionSetField", fmt.Sprintf("ActionSetField(%s,%s)", aAH(25, []int{16, 24, 0, 65535, 8}[i%5]), f), 4)
	}
	for _, f := range []string{mfNilVal, mfNilMask, mfHdrMax} {
		c.run("enc", fmt.Sprintf("ActionSetField(%s,%s)", aAH(25, 16), f))
	}
}

// ---- nx_action.go: the flat kinds ---------------------------------------------------------------------

// enc of the three nil shapes of the embedded *NXActionHeader (all but Len()-without-dereference kinds panic)
func (c *Ctx) nilHeaders(format string) {
	c.run("enc", fmt.Sprintf(format, "~"))
	c.run("enc", fmt.Sprintf(format, "NXActionHeader(~,8992,1)"))
}

func genActionNX(c *Ctx) {
	for i, st := range []int{1, 34, 35, 0, 65535} {
		c.aEncDec("NXActionHeader", fmt.Sprintf("NXActionHeader(%s,%d,%d)", aAH(65535, int(aU16[i])), aU32[i], st))
	}
	c.aEncDec("NXActionHeader", "NXActionHeader(ActionHeader(65535,10),8992,34)")
	c.run("enc", "NXActionHeader(~,8992,34)")

	// cached Length right, too small (encoder overruns its buffer), too large, odd
	lens := func(right int) []int { return []int{right, right + 8, right - 1, right + 1, 10, 9, 0, 65535} }
	for i, l := range lens(16) {
		c.aEncDec("NXActionConjunction", fmt.Sprintf("NXActionConjunction(%s,%d,%d,%d)", aNXH(l, 34), aU8[i%5], aU8[(i+1)%5], aU32[i%5]))
		c.aEncDec("NXActionResubmit", fmt.Sprintf("NXActionResubmit(%s,%d,%d,x%s)", aNXH(l, 1), aU16[i%5], aU8[i%5], []string{"000000", "010203"}[i%2]))
		c.aEncDec("NXActionResubmitTable", fmt.Sprintf("NXActionResubmitTable(%s,%d,%d,x%s,%d)", aNXH(l, []int{14, 44}[i%2]), aU16[i%5], aU8[(i+2)%5], []string{"000000", "010203"}[i%2], i%2))
		c.aEncDec("NXActionCTClear", fmt.Sprintf("NXActionCTClear(%s,x%s)", aNXH(l, 43), []string{"00000000", "01020304"}[i%2]))
		c.aEncDec("NXActionDecTTL", fmt.Sprintf("NXActionDecTTL(%s,%d,x%s)", aNXH(l, 18), aU16[i%5], []string{"00000000", "01020304"}[i%2]))
		c.aEncDec("NXActionController", fmt.Sprintf("NXActionController(%s,%d,%d,%d,%d)", aNXH(l, 20), aU16[i%5], aU16[(i+1)%5], aU8[i%5], i%2))
	}
	for i, l := range lens(24) {
		c.aEncDec("NXActionRegLoad", fmt.Sprintf("NXActionRegLoad(%s,%d,%s,%d)", aNXH(l, 7), aU16[i%5], mfHdrs[i%5], []uint64{0, 1, 0xffffffffffffffff, 0x1122334455667788}[i%4]))
		c.aEncDec("NXActionRegMove", fmt.Sprintf("NXActionRegMove(%s,%d,%d,%d,%s,%s)", aNXH(l, 6), aU16[i%5], aU16[(i+1)%5], aU16[(i+2)%5], mfHdrs[i%5], mfHdrs[(i+1)%5]))
		c.aEncDec("NXActionOutputReg", fmt.Sprintf("NXActionOutputReg(%s,%d,%s,%d,x%s)", aNXH(l, []int{15, 32}[i%2]), aU16[i%5], mfHdrs[i%5], aU16[(i+3)%5], []string{"000000000000", "010203040506"}[i%2]))
	}
	c.run("enc", "NXActionRegLoad("+aNXH(24, 7)+",5,~,1)")
	c.run("enc", "NXActionRegMove("+aNXH(24, 6)+",5,0,0,~,"+mfReg0+")")
	c.run("enc", "NXActionRegMove("+aNXH(24, 6)+",5,0,0,"+mfReg0+",~)")
	c.run("enc", "NXActionOutputReg("+aNXH(24, 15)+",5,~,1,x000000000000)")
	c.nilHeaders("NXActionConjunction(%s,1,2,3)")
	c.nilHeaders("NXActionResubmit(%s,1,2,x000000)")
	c.nilHeaders("NXActionResubmitTable(%s,1,2,x000000,0)")
	c.nilHeaders("NXActionCTClear(%s,x00000000)")
	c.nilHeaders("NXActionDecTTL(%s,1,x00000000)")
	c.nilHeaders("NXActionController(%s,1,2,3,0)")
	c.nilHeaders("NXActionRegLoad(%s,1," + mfReg0 + ",3)")
	c.nilHeaders("NXActionRegMove(%s,1,2,3," + mfReg0 + "," + mfReg0 + ")")
	c.nilHeaders("NXActionOutputReg(%s,1," + mfReg0 + ",3,x000000000000)")
	c.nilHeaders("NXActionDecTTLCntIDs(%s,1,x00000000,[1])")
	c.nilHeaders("NXActionNote(%s,x0102)")
	c.nilHeaders("NXActionRegLoad2(%s," + mfReg0 + ",x)")
	c.nilHeaders("NXActionLearn(%s,1,2,3,4,5,6,0,7,8,[],x)")
	c.nilHeaders("NXActionCTNAT(%s,x0000,1,0,x,x,x,x,~,~)")
	c.nilHeaders("NXActionConnTrack(%s,0,0,0,255,x,0,[])")

	// DecTTLCntIDs: id lists of 0,1,2,3,7; Length as the constructor computes it (unpadded), padded, too small
	ids := func(n int) string {
		var xs []string
		for i := 0; i < n; i++ {
			xs = append(xs, fmt.Sprint(aU16[i%5]))
		}
		return aList(xs)
	}
	for _, n := range []int{0, 1, 2, 3, 7} {
		for _, l := range []int{16 + 2*n, (16 + 2*n + 7) / 8 * 8, 16 + 2*n - 1, 16} {
			c.aEncDec("NXActionDecTTLCntIDs", fmt.Sprintf("NXActionDecTTLCntIDs(%s,%d,x00000000,%s)", aNXH(l, 21), n, ids(n)))
		}
		c.aEncDec("NXActionDecTTLCntIDs", fmt.Sprintf("NXActionDecTTLCntIDs(%s,%d,x01020304,%s)", aNXH(40, 21), n+1, ids(n)))
	}
	c.aEncDec("NXActionDecTTLCntIDs", fmt.Sprintf("NXActionDecTTLCntIDs(%s,65535,x00000000,[1,2])", aNXH(24, 21)))

	// Note: lengths around the 8-byte rounding; cached Length wrong
	for _, n := range []int{0, 1, 5, 6, 7, 13, 14, 15, 30, 100} {
		note := "x"
		for i := 0; i < n; i++ {
			note += fmt.Sprintf("%02x", (i*7+1)&0xff)
		}
		c.aEncDec("NXActionNote", fmt.Sprintf("NXActionNote(%s,%s)", aNXH([]int{10, 16, 0, 65535}[n%4], 8), note))
	}

	// RegLoad2
	for i, f := range mfFull {
		c.encDecMF("NXActionRegLoad2", fmt.Sprintf("NXActionRegLoad2(%s,%s,%s)", aNXH([]int{10, 16, 24, 0, 65535}[i%5], 33), f, []string{"x", "x0000"}[i%2]), 10)
	}
	for _, f := range []string{"~", mfNilVal, mfNilMask} {
		c.run("enc", fmt.Sprintf("NXActionRegLoad2(%s,%s,x)", aNXH(10, 33), f))
	}

	// CTNAT: every range combination, right / unrounded / wrong Length
	v4 := []string{"x", "x0a000001", "x00000000000000000000ffffc0a80102", "x010203", "x20010db8000000000000000000000001"}
	v6 := []string{"x", "x20010db8000000000000000000000001", "x0a000002", "x0102030405", "x00000000000000000000ffff0a0b0c0d"}
	pp := []string{"~", "0", "80", "65535"}
	k := 0
	for rp := 0; rp < 64; rp++ {
		pick := func(bit int, xs []string) string {
			if rp&bit != 0 {
				k++
				return xs[1+k%(len(xs)-1)]
			}
			return xs[0]
		}
		a, b, d, e, f, g := pick(1, v4), pick(2, v4), pick(4, v6), pick(8, v6), pick(16, pp), pick(32, pp)
		n := 16
		for i, bit := range []int{1, 2, 4, 8, 16, 32} {
			if rp&bit != 0 {
				n += []int{4, 4, 16, 16, 2, 2}[i]
			}
		}
		term := fmt.Sprintf("NXActionCTNAT(%s,%s,%d,%d,%s,%s,%s,%s,%s,%s)", aNXH(n, 36), []string{"x0000", "x"}[rp%2], aU16[rp%5], rp, a, b, d, e, f, g)
		if rp%4 == 1 || rp == 63 || rp == 0 || rp == 48 {
			c.aEncDec("NXActionCTNAT", term)
		} else {
			c.encTrunc("NXActionCTNAT", term)
		}
		// rangePresent disagreeing with the fields that are set
		c.run("enc", fmt.Sprintf("NXActionCTNAT(%s,x0000,3,%d,%s,%s,%s,%s,%s,%s)", aNXH(16, 36), rp^21, a, b, d, e, f, g))
	}
	for _, l := range []int{0, 1, 7, 8, 9, 15, 17, 65528, 65529, 65535} {
		c.aEncDec("NXActionCTNAT", fmt.Sprintf("NXActionCTNAT(%s,x0000,1,1,x0a000001,x,x,x,~,~)", aNXH(l, 36)))
	}

	// learn spec pieces
	for _, sd := range [][3]int{{0, 0, 0}, {1, 0, 0}, {0, 1, 0}, {1, 1, 0}, {0, 0, 1}, {1, 1, 1}, {1, 0, 1}} {
		for i, nb := range []int{0, 1, 16, 17, 2047, 2048, 65535, 48} {
			c.aEncDec("NXLearnSpecHeader", fmt.Sprintf("NXLearnSpecHeader(%d,%d,%d,%d,%d)", sd[0], sd[1], sd[2], nb, []int{2, 2, 2, 3, 2, 8, 2, 2}[i]))
		}
	}
	c.run("enc", "NXLearnSpecHeader(1,0,0,16,0)")
	c.run("enc", "NXLearnSpecHeader(1,0,0,16,1)")
	for i, f := range mfHdrs {
		c.aEncDec("NXLearnSpecField", fmt.Sprintf("NXLearnSpecField(%s,%d)", f, aU16[i]))
	}
	c.run("enc", "NXLearnSpecField(~,3)")
	for _, s := range learnSpecs {
		c.aEncDec("NXLearnSpec", s)
	}
	for _, s := range []string{
		"NXLearnSpec(~,~,~,x)",
		"NXLearnSpec(NXLearnSpecHeader(0,0,0,16,2),~,NXLearnSpecField(" + mfHdrReg5 + ",0),x)",
		"NXLearnSpec(NXLearnSpecHeader(0,0,0,16,2),NXLearnSpecField(" + mfHdrReg5 + ",0),~,x)",
		"NXLearnSpec(NXLearnSpecHeader(1,0,0,16,2),~,NXLearnSpecField(" + mfHdrReg5 + ",0),x)",                 // SrcValue nil, 2 bytes wanted
		"NXLearnSpec(NXLearnSpecHeader(1,0,0,80,2),~,NXLearnSpecField(" + mfHdrReg5 + ",0),x0102030405060708)", // 10 wanted, 8 there (cap 8)
		"NXLearnSpec(NXLearnSpecHeader(1,0,0,16,0),~,NXLearnSpecField(" + mfHdrReg5 + ",0),x0102)",
		"NXLearnSpec(NXLearnSpecHeader(0,0,1,16,2),NXLearnSpecField(~,0),~,x)",
	} {
		c.run("enc", s)
	}
}

// learn specs (SrcValue lengths are exactly what the header asks for, or a full size class: the harness builds byte
// slices with append, whose spare capacity `s.SrcValue[:n]` would otherwise expose)
var learnSpecs = []string{
	"NXLearnSpec(NXLearnSpecHeader(0,0,0,16,2),NXLearnSpecField(" + mfHdrReg5 + ",0),NXLearnSpecField(" + mfHdrEthSrc + ",16),x)",
	"NXLearnSpec(NXLearnSpecHeader(1,0,0,16,2),~,NXLearnSpecField(" + mfHdrReg5 + ",3),x0800)",
	"NXLearnSpec(NXLearnSpecHeader(0,1,0,32,2),NXLearnSpecField(" + mfHdrMax + ",65535),NXLearnSpecField(" + mfHdrZero + ",1),x)",
	"NXLearnSpec(NXLearnSpecHeader(1,1,0,48,2),~,NXLearnSpecField(" + mfHdrReg5 + ",0),x0a0b0c0d0e0f)",
	"NXLearnSpec(NXLearnSpecHeader(0,0,1,16,2),NXLearnSpecField(" + mfHdrReg5 + ",0),~,x)",
	"NXLearnSpec(NXLearnSpecHeader(1,0,0,0,2),~,NXLearnSpecField(" + mfHdrReg5 + ",9),x)",
	"NXLearnSpec(NXLearnSpecHeader(1,1,0,17,2),~,NXLearnSpecField(" + mfHdrEthSrc + ",2),x01020304)",
	"NXLearnSpec(NXLearnSpecHeader(1,0,0,64,2),~,NXLearnSpecField(" + mfHdrReg5 + ",0),x0102030405060708)",
	"NXLearnSpec(NXLearnSpecHeader(1,0,1,16,2),~,~,x0102)",
	"NXLearnSpec(NXLearnSpecHeader(0,0,0,16,2),NXLearnSpecField(" + mfHdrReg5 + ",0),NXLearnSpecField(" + mfHdrEthSrc + ",16),x0102)",
}

// ---- nested containers: conntrack and learn ---------------------------------------------------------------

func aLen(term string) int { return len(marshalTerm(term)) }

// NXActionConnTrack term whose Length covers its children (+delta)
func aCT(flags, zoneSrc, zoneOfs, recirc uint64, pad string, alg uint64, kids []string, delta int) string {
	l := 24
	for _, k := range kids {
		l += aLen(k)
	}
	return fmt.Sprintf("NXActionConnTrack(%s,%d,%d,%d,%d,%s,%d,%s)", aNXH(l+delta, 35), flags, zoneSrc, zoneOfs, recirc, pad, alg, aList(kids))
}

// one valid term per Action kind (children for containers, inputs for DecodeAction)
func aKids() []string {
	return []string{
		"ActionOutput(" + aAH(0, 16) + ",4294967293,65535,x000000000000)",
		aAH(11, 4), aAH(12, 4), aAH(16, 4), aAH(27, 4),
		"ActionMplsTtl(" + aAH(15, 8) + ",64,x000000)",
		"ActionNwTtl(" + aAH(23, 8) + ",64,x000000)",
		"ActionPush(" + aAH(17, 8) + ",33024,x0000)",
		"ActionPush(" + aAH(19, 8) + ",34887,x)",
		"ActionPush(" + aAH(26, 8) + ",35047,x)",
		"ActionPopVlan(" + aAH(18, 8) + ",x00000000)",
		"ActionPopMpls(" + aAH(20, 8) + ",2048,x0000)",
		"ActionSetqueue(" + aAH(21, 8) + ",287454020)",
		"ActionGroup(" + aAH(22, 8) + ",287454020)",
		"ActionDecNwTtl(" + aAH(24, 8) + ",x00000000)",
		"ActionSetField(" + aAH(25, 16) + "," + mfReg0 + ")",
		"ActionSetField(" + aAH(25, 16) + "," + mfEthDst + ")",
		"NXActionConjunction(" + aNXH(16, 34) + ",2,3,287454020)",
		"NXActionRegLoad(" + aNXH(24, 7) + ",31," + mfHdrReg5 + ",1311768467463790320)",
		"NXActionRegMove(" + aNXH(24, 6) + ",32,0,16," + mfHdrReg5 + "," + mfHdrEthSrc + ")",
		"NXActionResubmit(" + aNXH(16, 1) + ",65528,255,x000000)",
		"NXActionResubmitTable(" + aNXH(16, 14) + ",65528,10,x000000,0)",
		"NXActionResubmitTable(" + aNXH(16, 44) + ",65528,11,x000000,1)",
		"NXActionCTNAT(" + aNXH(16, 36) + ",x0000,1,0,x,x,x,x,~,~)",
		"NXActionCTNAT(" + aNXH(32, 36) + ",x0000,9,51,x0a000001,x0a0000ff,x,x,1000,2000)",
		"NXActionOutputReg(" + aNXH(24, 15) + ",31," + mfHdrReg5 + ",65535,x000000000000)",
		"NXActionOutputReg(" + aNXH(24, 32) + ",31," + mfHdrReg5 + ",128,x000000000000)",
		"NXActionCTClear(" + aNXH(16, 43) + ",x00000000)",
		"NXActionDecTTL(" + aNXH(16, 18) + ",0,x00000000)",
		"NXActionDecTTLCntIDs(" + aNXH(24, 21) + ",4,x00000000,[1,2,3,4])",
		"NXActionDecTTLCntIDs(" + aNXH(18, 21) + ",1,x00000000,[7])",
		"NXActionLearn(" + aNXH(32, 16) + ",10,20,30,1311768467463790320,3,5,0,6,7,[],x)",
		"NXActionLearn(" + aNXH(48, 16) + ",10,20,30,1,3,5,0,6,7," + aList(learnSpecs[:2]) + ",x)",
		"NXActionNote(" + aNXH(16, 8) + ",x010203040506)",
		"NXActionNote(" + aNXH(24, 8) + ",x0102030405060708)",
		"NXActionRegLoad2(" + aNXH(24, 33) + "," + mfReg3Mask + ",x)",
		"NXActionRegLoad2(" + aNXH(16, 33) + "," + mfCtZone + ",x)",
		"NXActionController(" + aNXH(16, 20) + ",128,7,1,0)",
		"NXActionConnTrack(" + aNXH(24, 35) + ",1,0,5,255,x000000,0,[])",
	}
}

func hasMF(term string) bool {
	return strings.Contains(term, "ActionSetField") || strings.Contains(term, "NXActionRegLoad2")
}

func genActionNest(c *Ctx) {
	kids := aKids()
	// scalar edges, pads, no children; cached Length right and wrong
	for i := 0; i < 5; i++ {
		for _, d := range []int{0, 8, -1, -24, 65535 - 24} {
			if i == 0 || d == 0 {
				c.aEncDec("NXActionConnTrack", aCT(aU16[i], aU32[i], aU16[(i+1)%5], aU8[i], aPads(3)[i], aU16[(i+2)%5], nil, d))
			}
		}
	}
	// every kind alone inside a conntrack action (no mutations: they mostly turn lengths to 0 and spin)
	for _, k := range kids {
		c.encTrunc("NXActionConnTrack", aCT(1, 0, 5, 10, "x000000", 0, []string{k}, 0))
	}
	// lists of 2,3,7 of mixed kinds; with mutations when the first 48 bytes hold only constant-length children
	plain := []string{kids[0], kids[7], kids[13], kids[10], kids[14], kids[11], kids[1]}
	for _, n := range []int{1, 2, 3, 7} {
		c.aEncDec("NXActionConnTrack", aCT(3, 65540, 15, 255, "x", 21, plain[:n], 0))
	}
	c.aEncDec("NXActionConnTrack", aCT(1, 0, 5, 10, "x000000", 0, []string{kids[0], kids[13], kids[17], kids[35]}, 0))
	for s := 0; s+3 <= len(kids); s += 3 {
		c.encTrunc("NXActionConnTrack", aCT(1, 0, 5, 10, "x000000", 0, kids[s:s+3], 0))
	}
	for s := 0; s+7 <= len(kids); s += 7 {
		c.encTrunc("NXActionConnTrack", aCT(0, 1, 2, 3, "x", 4, kids[s:s+7], 0))
	}
	// Length not covering / exceeding the children
	for _, d := range []int{-16, -8, -1, 1, 8, 16} {
		c.encTrunc("NXActionConnTrack", aCT(1, 0, 5, 10, "x000000", 0, []string{kids[0], kids[17]}, d))
	}
	// conntrack inside conntrack, depth 2 and 3, with siblings
	in1 := aCT(1, 0, 1, 1, "x000000", 0, []string{kids[0]}, 0)
	in2 := aCT(2, 0, 2, 2, "x", 0, []string{in1, kids[23]}, 0)
	in3 := aCT(3, 0, 3, 3, "x000000", 0, []string{kids[17], in2, kids[13]}, 0)
	c.aEncDec("NXActionConnTrack", aCT(1, 0, 9, 9, "x000000", 0, []string{in1}, 0))
	c.encTrunc("NXActionConnTrack", in2)
	c.encTrunc("NXActionConnTrack", in3)
	c.encTrunc("NXActionConnTrack", aCT(0, 0, 0, 0, "x", 0, []string{in3, in1}, 0))
	// inner Length lying (the inner decoder overwrites it with the offset it reached)
	c.encTrunc("NXActionConnTrack", aCT(0, 0, 0, 0, "x", 0, []string{aCT(1, 0, 1, 1, "x000000", 0, []string{kids[0]}, -8), kids[13]}, 0))
	// nil child, child of a kind that is not an Action, nil-header child
	c.run("enc", aCT(0, 0, 0, 0, "x", 0, nil, 0)[:0]+"NXActionConnTrack("+aNXH(40, 35)+",0,0,0,0,x,0,[~])")
	c.run("enc", "NXActionConnTrack("+aNXH(40, 35)+",0,0,0,0,x,0,["+kids[0]+",~])")
	c.run("enc", "NXActionConnTrack("+aNXH(40, 35)+",0,0,0,0,x,0,[NXActionConjunction(~,1,2,3)])")
	c.run("enc", "NXActionConnTrack("+aNXH(40, 35)+",0,0,0,0,x,0,[NXActionLearn("+aNXH(32, 16)+",0,0,0,0,0,0,0,0,0,[~],x)])")
	// buffer too small for the children: child 1 overruns (panic) before child 2 is even marshalled
	c.run("enc", "NXActionConnTrack("+aNXH(24, 35)+",0,0,0,0,x,0,["+kids[0]+"])")
	c.run("enc", "NXActionConnTrack("+aNXH(32, 35)+",0,0,0,0,x,0,["+kids[0]+"])")
	c.run("enc", "NXActionConnTrack("+aNXH(20, 35)+",0,0,0,0,x,0,[])")

	// learn: 0,1,2,3,7 specs
	for _, n := range []int{0, 1, 2, 3, 7} {
		specs := aList(learnSpecs[:n])
		t := fmt.Sprintf("NXActionLearn(%s,%d,%d,%d,%d,%d,%d,%d,%d,%d,%s,%s)", aNXH([]int{10, 32, 0, 65535, 48}[n%5], 16),
			aU16[n%5], aU16[(n+1)%5], aU16[(n+2)%5], []uint64{0, 1, 0xffffffffffffffff, 0x1122334455667788}[n%4], aU16[(n+3)%5], aU8[n%5], n%2, aU16[(n+4)%5], aU16[n%5], specs, []string{"x", "x0000"}[n%2])
		c.aEncDec("NXActionLearn", t)
	}
	for s := 0; s+3 <= len(learnSpecs); s += 2 {
		c.aEncDec("NXActionLearn", fmt.Sprintf("NXActionLearn(%s,1,2,3,4,5,6,0,7,8,%s,x)", aNXH(10, 16), aList(learnSpecs[s:s+3])))
	}
	c.run("enc", "NXActionLearn("+aNXH(10, 16)+",1,2,3,4,5,6,0,7,8,[~],x)")
	c.run("enc", "NXActionLearn("+aNXH(10, 16)+",1,2,3,4,5,6,0,7,8,[NXLearnSpec(~,~,~,x)],x)")
}

// ---- constructors and methods ---------------------------------------------------------------------------------

func genActionAPI(c *Ctx) {
	p := func(format string, a ...interface{}) { c.run("prog", fmt.Sprintf(format, a...)) }
	for _, v := range aU32 {
		p("a=NewActionOutput(%d);!a", v)
		p("a=NewActionSetQueue(%d);!a", v)
		p("a=NewActionGroup(%d);!a", v)
	}
	for _, v := range aU16 {
		p("a=NewActionPushVlan(%d);!a", v)
		p("a=NewActionPushMpls(%d);!a", v)
		p("a=NewActionPopMpls(%d);!a", v)
		p("a=NewNxActionHeader(%d);!a", v)
		p("a=NewNXActionResubmit(%d);!a", v)
		p("a=NewNXActionController(%d);!a", v)
		p("a=NewLearnHeaderMatchFromValue(%d);!a", v)
		p("a=NewLearnHeaderMatchFromField(%d);!a", v)
		p("a=NewLearnHeaderLoadFromValue(%d);!a", v)
		p("a=NewLearnHeaderLoadFromField(%d);!a", v)
		p("a=NewLearnHeaderOutputFromField(%d);!a", v)
		p("a=NewNXActionResubmitTableAction(%d,%d);!a", v, v&0xff)
		p("a=NewNXActionResubmitTableCT(%d,%d);!a", v, (v>>8)&0xff)
		p("a=NewNXActionResubmitTableCTNoInPort(%d);!a", v&0xff)
		p("a=NewNXActionConjunction(%d,%d,%d);!a", v&0xff, (v>>8)&0xff, v*65537)
	}
	p("a=NewActionDecNwTtl();!a")
	p("a=NewActionPopVlan();!a")
	p("a=NewNXActionConnTrack();!a")
	p("a=NewNXActionCTNAT();!a")
	p("a=NewNXActionCTClear();!a")
	p("a=NewNXActionDecTTL();!a")
	p("a=NewNXActionLearn();!a")
	p("a=NewNXActionNote();!a")
	for _, f := range append(append([]string{}, mfFull...), mfNilVal, mfNilMask) {
		p("a=NewActionSetField(%s);!a", f)
		p("a=NewNXActionRegLoad2(%s);!a", f)
	}
	p("a=NewNXActionRegLoad2(~);!a")
	for i, f := range append(append([]string{}, mfHdrs...), "~") {
		p("a=NewNXActionRegLoad(%d,%s,%d);!a", aU16[i%5], f, []uint64{0, 1, 0xffffffffffffffff, 0x1122334455667788}[i%4])
		p("a=NewNXActionRegMove(%d,%d,%d,%s,%s);!a", aU16[i%5], aU16[(i+1)%5], aU16[(i+2)%5], f, mfHdrs[(i+1)%5])
		p("a=NewNXActionRegMove(1,2,3,%s,%s);!a", mfHdrs[(i+1)%5], f)
		p("a=NewOutputFromField(%s,%d);!a", f, aU16[i%5])
		p("a=NewOutputFromFieldWithMaxLen(%s,%d,%d);!a", f, aU16[i%5], aU16[(i+1)%5])
	}
	for _, ids := range []string{"", ",1", ",1,2", ",0,65535,4660", ",1,2,3,4,5,6,7"} {
		p("a=NewNXActionDecTTLCntIDs(%d%s);!a", strings.Count(ids, ","), ids)
		p("a=NewNXActionDecTTLCntIDs(65535%s);!a", ids)
	}
	// fields filled in after construction, as the library's users do
	p("a=NewNXActionNote();$a.Note=x0102030405;!a")
	p("a=NewNXActionNote();$a.Note=x;!a")
	p("a=NewNXActionLearn();$a.IdleTimeout=10;$a.TableID=3;$a.Cookie=1311768467463790320;!a")
	p("h=NewLearnHeaderMatchFromValue(16);d=NXLearnSpecField(%s,0);s=NXLearnSpec(~,~,~,x0800);$s.Header=$h;$s.DstField=$d;!s", mfHdrReg5)
	p("h=NewLearnHeaderLoadFromField(32);f=NXLearnSpecField(%s,0);d=NXLearnSpecField(%s,0);s=NXLearnSpec(~,~,~,x);$s.Header=$h;$s.SrcField=$f;$s.DstField=$d;!s", mfHdrReg5, mfHdrEthSrc)
	p("h=NewLearnHeaderOutputFromField(16);f=NXLearnSpecField(%s,0);s=NXLearnSpec(~,~,~,x);$s.Header=$h;$s.SrcField=$f;!s", mfHdrReg5)
	p("a=NewNXActionController(5);$a.MaxLen=128;$a.Reason=2;!a")
	p("a=NewNXActionResubmit(5);$a.TableID=7;!a") // MarshalBinary stores 255 in the receiver and writes nothing
	// Header() / NXHeader()
	p("a=NewActionOutput(3);h=$a.Header();!h")
	p("a=NewNXActionLearn();h=$a.Header();!h")
	p("a=NewNXActionLearn();h=$a.NXHeader();!h")
	p("a=NewNXActionConnTrack();h=$a.Header();!h")
	p("a=NewNxActionHeader(7);h=$a.Header();!h")
	p("a=NXActionConjunction(~,1,2,3);h=$a.Header();!h")
	// IsCT, observed through a bool field of another value
	for _, ctor := range []string{"NewNXActionResubmitTableAction(1,2)", "NewNXActionResubmitTableCT(1,2)", "NewNXActionResubmitTableCTNoInPort(9)"} {
		p("r=%s;b=$r.IsCT();q=NewNXActionResubmitTableAction(3,4);$q.withCT=$b;!q", ctor)
	}

	// conntrack builders
	p("c=NewNXActionConnTrack();r=$c.Commit();!r")
	p("c=NewNXActionConnTrack();r=$c.Force();!r")
	p("c=NewNXActionConnTrack();r=$c.Commit();s=$r.Force();t=$s.Commit();!t")
	for _, v := range aU8 {
		p("c=NewNXActionConnTrack();r=$c.Table(%d);!r", v)
	}
	for _, v := range aU16 {
		p("c=NewNXActionConnTrack();r=$c.ZoneImm(%d);!r", v)
		p("c=NewNXActionConnTrack();$c.ZoneSrc=7;r=$c.ZoneImm(%d);s=$r.Table(4);t=$s.Commit();!t", v)
	}
	for i, f := range mfHdrs {
		for _, rg := range []string{"NXRange(0,15)", "NXRange(16,31)", "NXRange(0,0)", "NXRange(31,0)", "NXRange(1023,1024)", "NXRange(65535,65536)"} {
			if i == 0 || rg == "NXRange(0,15)" {
				p("c=NewNXActionConnTrack();r=$c.ZoneRange(%s,%s);!r", f, rg)
			}
		}
	}
	p("c=NewNXActionConnTrack();r=$c.ZoneRange(~,NXRange(0,15));!r")
	p("c=NewNXActionConnTrack();r=$c.ZoneRange(%s,~);!r", mfHdrReg5)
	p("c=NXActionConnTrack(~,0,0,0,0,x,0,[]);r=$c.Commit();s=$r.Table(3);!s")
	p("c=NXActionConnTrack(~,0,0,0,0,x,0,[]);r=$c.AddAction();!r")
	p("c=NXActionConnTrack(~,0,0,0,0,x,0,[]);a=NewActionOutput(1);r=$c.AddAction($a);!r")

	// AddAction sequences: 0,1,2,3,7 actions of mixed kinds, in one call and one by one; nested conntrack built by API
	ctors := []string{"NewActionOutput(3)", "NewNXActionCTNAT()", "NewActionSetField(" + mfCtMark + ")", "NewNXActionRegLoad2(" + mfReg3Mask + ")",
		"NewNXActionResubmitTableCT(65528,40)", "NewActionPopVlan()", "NewNXActionController(9)", "NewNXActionCTClear()", "NewNXActionLearn()",
		"NewNXActionNote()", "NewNXActionDecTTLCntIDs(1,9)", "NewActionGroup(8)", "NewNXActionConjunction(1,2,3)", "NewNXActionDecTTL()"}
	var ctProgs []string
	for _, n := range []int{0, 1, 2, 3, 7} {
		for _, start := range []int{0, 5, 9} {
			var decl, args, single []string
			for i := 0; i < n; i++ {
				v := fmt.Sprintf("a%d", i)
				decl = append(decl, v+"="+ctors[(start+i)%len(ctors)])
				args = append(args, "$"+v)
				single = append(single, "$c.AddAction($"+v+")")
			}
			pre := strings.Join(append([]string{"c=NewNXActionConnTrack()"}, decl...), ";")
			ctProgs = append(ctProgs, pre+";$c.AddAction("+strings.Join(args, ",")+")")
			if n > 1 {
				ctProgs = append(ctProgs, pre+";"+strings.Join(single, ";"))
			}
		}
	}
	// a NAT action whose unrounded length (18) is rounded by the Len() call inside AddAction
	ctProgs = append(ctProgs, "c=NewNXActionConnTrack();n=NewNXActionCTNAT();$n.SetSNAT();$n.SetRangeProtoMin(80);$n.SetRangeProtoMax(90);$c.AddAction($n)")
	ctProgs = append(ctProgs, "c=NewNXActionConnTrack();n=NewNXActionCTNAT();$n.SetDNAT();$n.SetRangeIPv4Min(x0a000001);$n.SetRangeProtoMin(80);$n.SetRangeProtoMax(90);$c.Commit();$c.ZoneImm(7);$c.Table(9);$c.AddAction($n)")
	// depth 2 and 3
	ctProgs = append(ctProgs, "i=NewNXActionConnTrack();o=NewActionOutput(1);$i.AddAction($o);c=NewNXActionConnTrack();$c.AddAction($i)")
	ctProgs = append(ctProgs, "j=NewNXActionConnTrack();o=NewActionOutput(1);$j.AddAction($o);i=NewNXActionConnTrack();g=NewActionGroup(2);$i.AddAction($j,$g);c=NewNXActionConnTrack();$c.Force();$c.AddAction($i)")
	for _, pr := range ctProgs {
		c.run("prog", pr+";!c")
		if b := marshalProg(pr, "c"); b != nil && !strings.Contains(pr, "SetField") && !strings.Contains(pr, "RegLoad2") && len(b) > 24 {
			c.decTrunc("NXActionConnTrack", b)
			c.run("fn", "DecodeAction", aX(b))
		}
	}
	p("c=NewNXActionConnTrack();r=$c.AddAction(~);!r")
	p("c=NewNXActionConnTrack();a=NewActionOutput(1);r=$c.AddAction($a,~);!r")
	p("c=NewNXActionConnTrack();a=NXActionConjunction(~,1,2,3);r=$c.AddAction($a);!r")

	// CTNAT: every subset of the setters, each at most once, in declaration order; a few in reverse order
	setters := []string{"SetSNAT()", "SetDNAT()", "SetProtoHash()", "SetRandom()", "SetPersistent()",
		"SetRangeIPv4Min(x0a000001)", "SetRangeIPv4Max(x00000000000000000000ffff0a0000ff)", "SetRangeIPv6Min(x20010db8000000000000000000000001)",
		"SetRangeIPv6Max(x20010db80000000000000000000000ff)", "SetRangeProtoMin(1000)", "SetRangeProtoMax(65535)"}
	for m := 0; m < 1<<len(setters); m++ {
		st := []string{"c=NewNXActionCTNAT()"}
		for i, s := range setters {
			if m&(1<<i) != 0 {
				st = append(st, "$c."+s)
			}
		}
		pr := strings.Join(st, ";")
		c.run("prog", pr+";!c")
		if m%97 == 0 || m == 1<<len(setters)-1 {
			var rev []string
			for i := len(st) - 1; i > 0; i-- {
				rev = append(rev, st[i])
			}
			c.run("prog", strings.Join(append([]string{st[0]}, rev...), ";")+";!c")
			if b := marshalProg(pr, "c"); b != nil {
				c.decTrunc("NXActionCTNAT", b)
			}
		}
	}
	// edge arguments of the range setters: nil IP, 3-byte IP, IPv4 where IPv6 is expected and vice versa, nil ports
	for _, s := range []string{"SetRangeIPv4Min(x)", "SetRangeIPv4Max(x010203)", "SetRangeIPv4Min(x20010db8000000000000000000000001)", "SetRangeIPv6Min(x0a000001)",
		"SetRangeIPv6Max(x)", "SetRangeIPv6Max(x0102030405)", "SetRangeProtoMin(~)", "SetRangeProtoMax(~)", "SetRangeProtoMin(0)"} {
		p("c=NewNXActionCTNAT();$c.%s;!c", s)
		p("c=NewNXActionCTNAT();$c.SetRangeProtoMin(1);$c.SetRangeProtoMax(2);$c.%s;!c", s)
	}
	p("c=NewNXActionCTNAT();$c.SetRangeProtoMin(~);$c.SetRangeProtoMax(5);!c")
	p("c=NewNXActionCTNAT();$c.SetDNAT();$c.SetSNAT();!c")
	p("c=NewNXActionCTNAT();$c.SetRandom();$c.SetProtoHash();!c")
	p("c=NXActionCTNAT(~,x,0,0,x,x,x,x,~,~);$c.SetSNAT();$c.SetPersistent();!c")
	p("c=NXActionCTNAT(~,x,0,0,x,x,x,x,~,~);$c.SetRangeIPv4Min(x0a000001);!c")
}

// ---- DecodeAction / DecodeNxAction -----------------------------------------------------------------------------

func genActionDecode(c *Ctx) {
	fnDec := func(b []byte) { c.run("fn", "DecodeAction", aX(b)) }
	// every kind: the valid encoding, every truncation, every variant (filtered for OXM TLVs the stand-in lacks)
	for _, k := range aKids() {
		b := marshalTerm(k)
		if b == nil {
			continue
		}
		isCT := strings.HasPrefix(k, "NXActionConnTrack")
		off := -1
		if strings.HasPrefix(k, "ActionSetField") {
			off = 4
		} else if strings.HasPrefix(k, "NXActionRegLoad2") {
			off = 10
		}
		for _, v := range c.variants(b) {
			if isCT && len(v) == len(b) && string(v) != string(b) {
				continue
			}
			if off >= 0 && !mfOK(v, off) {
				continue
			}
			fnDec(v)
		}
	}
	// nested containers through the dispatcher
	kids := aKids()
	in1 := aCT(1, 0, 1, 1, "x000000", 0, []string{kids[0]}, 0)
	in2 := aCT(2, 0, 2, 2, "x", 0, []string{in1, kids[23]}, 0)
	in3 := aCT(3, 0, 3, 3, "x000000", 0, []string{kids[17], in2, kids[13]}, 0)
	for _, t := range []string{in1, in2, in3, aCT(0, 0, 0, 0, "x", 0, kids[:7], 0), aCT(0, 0, 0, 0, "x", 0, kids[17:24], 0), aCT(0, 0, 0, 0, "x", 0, kids[24:31], 0)} {
		b := marshalTerm(t)
		for i := 0; i <= len(b); i += 1 + i/40 {
			fnDec(b[:i])
		}
		fnDec(b)
	}
	// hostile inputs
	be16 := func(v int) string { return fmt.Sprintf("%04x", v&0xffff) }
	nx := func(ln, vendor, sub int, rest string) string {
		return "ffff" + be16(ln) + fmt.Sprintf("%08x", vendor) + be16(sub) + rest
	}
	var hostile []string
	for t := 0; t <= 30; t++ { // every standard type incl. the unknown ones, short and long bodies
		for _, body := range []string{"", "0008", "000800000000", "0010" + "000000010100000000000000", "0000", "ffff0102030405060708090a0b0c"} {
			hostile = append(hostile, be16(t)+body)
		}
	}
	hostile = append(hostile, "", "00", "19", "ff", "ffff", "fffe0008", "8000000800000000", "0100000800000000")
	for sub := 0; sub <= 50; sub++ { // every NX subtype incl. the ones DecodeNxAction leaves nil
		hostile = append(hostile, nx(16, 0x2320, sub, "000000000000"), nx(24, 0x2320, sub, "0000000000000000000000000000"))
	}
	for _, vendor := range []int{0, 0x2321, 0x2320 << 8, 0x4f4e4600, 0xffffffff} {
		hostile = append(hostile, nx(16, vendor, 34, "010200000003"))
	}
	for _, sub := range []int{34, 1, 14, 44, 43, 18, 21, 7, 6, 15, 32, 20, 8, 16, 33, 36, 35} {
		for _, ln := range []int{0, 1, 9, 10, 11, 15, 17, 0xffff, 0x8000} {
			hostile = append(hostile, nx(ln, 0x2320, sub, "0102030405060708090a0b0c0d0e0f101112131415161718191a1b1c1d1e"))
		}
		hostile = append(hostile, nx(16, 0x2320, sub, ""), nx(16, 0x2320, sub, "01")[:18], nx(16, 0x2320, sub, "0102")[:22])
	}
	// Note with Length < 10, == 10; learn with a trailing fragment < 8, spec running past the end; cnt_ids with too many controllers
	hostile = append(hostile, nx(8, 0x2320, 8, "000000000000"), nx(10, 0x2320, 8, ""), nx(12, 0x2320, 8, "0102"),
		nx(40, 0x2320, 16, "000a0014001e00000000000000010003050000060007"+"2010"+"0800"+"00010a04"),
		nx(40, 0x2320, 16, "000a0014001e00000000000000010003050000060007"+"2010"+"0800"+"00010a040003"),
		nx(48, 0x2320, 16, "000a0014001e00000000000000010003050000060007"+"27ff"+"0800000000000000000000000000"),
		nx(24, 0x2320, 21, "ffff0000000000010002"), nx(24, 0x2320, 21, "00050000000000010002000300040005")[:48],
		// NAT: range bits asking for more than is there; Length 17 rounded up to 24 beyond the data
		nx(16, 0x2320, 36, "00000001003f"), nx(24, 0x2320, 36, "00000001003f0a0000010a0000ff"), nx(17, 0x2320, 36, "000000010000"),
		nx(24, 0x2320, 36, "0000000100300050005a0000"), nx(24, 0x2320, 36, "000000010020005a00000000"))
	hostile = append(hostile,
		"ffff0018000023200015ffff0000000000010002000300040005",                                                 // cnt_ids: 65535 controllers announced
		"ffff00100000232000060020000000100001",                                                                 // reg_move: 18 bytes, Length 16
		"0019001080000204000000010000000000",                                                                   // set_field with an OXM field the decoder rejects
		"ffff002000002320002300010000000000050000000000000017000840000000",                                     // ct[set_nw_ttl]: Len() 4 for an 8-byte action
		"ffff002000002320002300010000000000050000000000000018000800000000",                                     // ct[dec_nw_ttl]
		"ffff003000002320002300010000000000050000000000000000001000000001010000000000000000150008112233445566") // ct[output,set_queue]+2
	for _, h := range hostile {
		fnDec(unhex(h))
	}
	// conntrack with hostile nested actions: unknown type, foreign vendor, unknown subtype, truncated child, SetQueue not last, child length lies
	ct := func(ln int, kidsHex string) string {
		return nx(ln, 0x2320, 35, "0001"+"00000000"+"0005"+"0a"+"000000"+"0000"+kidsHex)
	}
	out := "0000001000000001ffff000000000000"
	nested := []string{
		ct(32, "0063000800000000"), ct(40, nx(16, 0x2321, 34, "010200000003")), ct(40, nx(16, 0x2320, 2, "010200000003")),
		ct(40, out[:20]), ct(40, out), ct(48, "0015000811223344"+out), ct(48, out+"0015000811223344"), ct(32, "0015000811223344"),
		ct(56, out+nx(16, 0x2320, 34, "010200000003")), ct(40, out+nx(16, 0x2320, 34, "010200000003")), ct(41, out+nx(16, 0x2320, 34, "010200000003")),
		ct(28, "000b0004"), ct(32, "000b0004000c0004"), ct(30, "000b0004000c0004"), ct(26, "000b0004"),
		ct(24, ""), ct(23, ""), ct(10, ""), ct(0, ""), ct(25, "00"), ct(26, "0000"),
	}
	// spinning representatives: a nested action whose Len() is 0 (Length field 0) — the loop never advances
	nested = append(nested, ct(40, nx(0, 0x2320, 34, "010200000003")), ct(40, nx(0, 0x2320, 43, "000000000000")),
		ct(64, out+ct(40, nx(0, 0x2320, 14, "000100000000"))))
	for _, h := range nested {
		b := unhex(h)
		fnDec(b)
		c.decCase("dec", "NXActionConnTrack", b, 0)
		c.decCase("dec", "NXActionConnTrack", b, 24)
	}
	// DecodeNxAction directly
	for sub := 0; sub <= 50; sub++ {
		c.run("fn", "DecodeNxAction", "x"+nx(16, 0x2320, sub, ""))
	}
	for _, h := range []string{"", "ffff", "ffff001000002320", "ffff00100000232000", "ffff0010000023200023ff", "0000000000000000ffff"} {
		c.run("fn", "DecodeNxAction", "x"+h)
	}
	// receivers made by the zero-argument constructors: fields the decoders do not assign keep the constructor's values
	for _, k := range aKids() {
		ctor := map[string]string{"ActionDecNwTtl": "NewActionDecNwTtl", "ActionPopVlan": "NewActionPopVlan", "NXActionConnTrack": "NewNXActionConnTrack",
			"NXActionCTNAT": "NewNXActionCTNAT", "NXActionCTClear": "NewNXActionCTClear", "NXActionDecTTL": "NewNXActionDecTTL",
			"NXActionLearn": "NewNXActionLearn", "NXActionNote": "NewNXActionNote"}[k[:strings.Index(k, "(")]]
		if b := marshalTerm(k); ctor != "" && b != nil {
			c.decCase("decc", ctor, b, 0)
			c.decCase("decc", ctor, b, 24)
			c.decCase("decc", ctor, b[:len(b)-1], 0)
			c.decCase("decc", ctor, b[:min(9, len(b))], 24)
		}
	}
	if b := marshalTerm(aCT(1, 2, 3, 4, "x010203", 5, aKids()[:3], 0)); b != nil {
		c.decCase("decc", "NewNXActionConnTrack", b, 0)
	}
	// per-kind decoders on the hostile NX frames (the dispatcher only reaches each with its own subtype)
	for _, kind := range []string{"NXActionConjunction", "NXActionResubmit", "NXActionResubmitTable", "NXActionCTClear", "NXActionDecTTL",
		"NXActionDecTTLCntIDs", "NXActionRegLoad", "NXActionRegMove", "NXActionOutputReg", "NXActionController", "NXActionNote", "NXActionLearn",
		"NXActionCTNAT", "NXActionConnTrack", "NXActionHeader"} {
		for _, ln := range []int{0, 9, 10, 16, 24, 32, 0xffff} {
			b := unhex(nx(ln, 0x2320, 1, "0102030405060708090a0b0c0d0e0f101112131415161718191a1b1c1d1e"))
			c.decCase("dec", kind, b, 0)
			c.decCase("dec", kind, b[:20], 24)
		}
	}
	for _, kind := range []string{"ActionHeader", "ActionOutput", "ActionSetqueue", "ActionGroup", "ActionMplsTtl", "ActionNwTtl", "ActionDecNwTtl",
		"ActionPush", "ActionPopVlan", "ActionPopMpls", "NXLearnSpecHeader", "NXLearnSpecField", "NXLearnSpec"} {
		c.decCases("dec", kind, unhex("0011000881000000"))
		c.decCase("dec", kind, nil, 0)
		c.decCase("dec", kind, nil, 24)
	}
}

// random corruptions of valid encodings through the dispatcher (quick: a few hundred; thorough: many)
func init() {
	ofGens = append(ofGens, func(c *Ctx) {
		rounds := 12
		if c.thorough() {
			rounds = 400
		}
		for _, k := range aKids() {
			b := marshalTerm(k)
			if b == nil {
				continue
			}
			isCT := strings.HasPrefix(k, "NXActionConnTrack")
			off := -1
			if strings.HasPrefix(k, "ActionSetField") {
				off = 4
			} else if strings.HasPrefix(k, "NXActionRegLoad2") {
				off = 10
			}
			kind := k[:strings.Index(k, "(")]
			for r := 0; r < rounds; r++ {
				m := append([]byte(nil), b...)
				for j := 0; j <= r%3; j++ {
					i := c.rng.Intn(len(m))
					if isCT && i >= 24 {
						i = c.rng.Intn(24) // nested length fields set to 0 spin; those classes have hand-made representatives
					}
					switch c.rng.Intn(3) {
					case 0:
						m[i] = byte(c.rng.Intn(256))
					case 1:
						m[i] ^= 1 << uint(c.rng.Intn(8))
					default:
						m[i] = []byte{0, 1, 0x7f, 0x80, 0xff}[c.rng.Intn(5)]
					}
				}
				m = m[:len(m)-c.rng.Intn(3)*c.rng.Intn(2)]
				if off >= 0 && !mfOK(m, off) {
					continue
				}
				c.run("fn", "DecodeAction", aX(m))
				c.decCase("dec", kind, m, 8*c.rng.Intn(2))
			}
		}
	})
}
