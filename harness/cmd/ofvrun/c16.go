package main

import (
	"fmt"
	"strconv"

	of "github.com/contiv/libOpenflow/openflow13"
)

func atoi(s string) int { v, _ := strconv.Atoi(s); return v }

func init() {
	runners["mask"] = func(a []string) string {
		return fmt.Sprintf("%08x", of.NewNXRange(atoi(a[0]), atoi(a[1])).ToUint32Mask())
	}
	runners["maskon"] = func(a []string) string {
		return fmt.Sprintf("%08x", of.NewNXRangeByOfsNBits(atoi(a[0]), atoi(a[1])).ToUint32Mask())
	}
	runners["ofsnbits"] = func(a []string) string {
		w := of.VerifEncodeOfsNbits(uint16(atoi(a[0])), uint16(atoi(a[1])))
		return fmt.Sprintf("%04x %d %d", w, of.VerifDecodeOfs(w), of.VerifDecodeNbits(w))
	}
	runners["startend"] = func(a []string) string {
		return fmt.Sprintf("%04x", of.VerifEncodeOfsNbitsStartEnd(uint16(atoi(a[0])), uint16(atoi(a[1]))))
	}
	runners["range"] = func(a []string) string {
		r := of.NewNXRange(atoi(a[0]), atoi(a[1]))
		return fmt.Sprintf("%04x %d %d", r.ToOfsBits(), r.GetOfs(), r.GetNbits())
	}
	families["C16"] = func(c *Ctx) {
		// exhaustive: all 528 in-domain ranges, by (first,last) and by (offset,width); plus the surrounding
		// out-of-domain band (correspondence only, no oracle)
		for s := -2; s <= 34; s++ {
			for e := -2; e <= 34; e++ {
				c.run("mask", s, e)
				c.run("maskon", s, e-s+1)
			}
		}
		// exhaustive: all 1024 x 64 (offset,width) pairs, plus width 0 and 65 (out of domain)
		for o := 0; o < 1024; o++ {
			for n := 0; n <= 65; n++ {
				c.run("ofsnbits", o, n)
			}
		}
		// (first,last) form: all offsets < 1024 with every width 1..64
		for s := 0; s < 1024; s++ {
			for w := 1; w <= 64; w++ {
				c.run("startend", s, s+w-1)
			}
		}
		for s := 0; s < 1024; s += 1 {
			for _, w := range []int{1, 2, 31, 32, 63, 64} {
				if s+w-1 < 1024 {
					c.run("range", s, s+w-1)
				}
			}
		}
		for i := 0; i < 2000; i++ {
			c.run("range", c.rng.Intn(70000)-100, c.rng.Intn(70000)-100)
			c.run("ofsnbits", c.rng.Intn(65536), c.rng.Intn(65536))
			c.run("startend", c.rng.Intn(65536), c.rng.Intn(65536))
		}
	}
}
