package main

// family C17: the generic match-field builder NewMatchField[Int, Mask]

import (
	"encoding/hex"
	"fmt"
	"math/big"
	"reflect"
	"strconv"

	of "github.com/contiv/libOpenflow/openflow13"
)

func ints(a []string) []int {
	var out []int
	for _, s := range a {
		v, _ := strconv.Atoi(s)
		out = append(out, v)
	}
	return out
}

func nmfResult(f *of.MatchField, err error) string {
	if err != nil {
		return "err"
	}
	b, e := f.MarshalBinary()
	if e != nil {
		return "marshalerr"
	}
	return dumpV(reflect.ValueOf(f)) + " " + hex.EncodeToString(b)
}

func init() {
	isolated["C17"] = true
	// nmf <name> <kind> <value> <mask>…      kind: u64 i64 u8 u16 u32 i8 i16 i32 int bytes big
	runners["nmf"] = func(a []string) string {
		name, kind, val := a[0], a[1], a[2]
		m := ints(a[3:])
		switch kind {
		case "u64":
			v, _ := strconv.ParseUint(val, 10, 64)
			return nmfResult(of.NewMatchField(name, v, m...))
		case "u32":
			v, _ := strconv.ParseUint(val, 10, 64)
			return nmfResult(of.NewMatchField(name, uint32(v), m...))
		case "u16":
			v, _ := strconv.ParseUint(val, 10, 64)
			return nmfResult(of.NewMatchField(name, uint16(v), m...))
		case "u8":
			v, _ := strconv.ParseUint(val, 10, 64)
			return nmfResult(of.NewMatchField(name, uint8(v), m...))
		case "i64":
			v, _ := strconv.ParseInt(val, 10, 64)
			return nmfResult(of.NewMatchField(name, v, m...))
		case "int":
			v, _ := strconv.ParseInt(val, 10, 64)
			return nmfResult(of.NewMatchField(name, int(v), m...))
		case "i32":
			v, _ := strconv.ParseInt(val, 10, 64)
			return nmfResult(of.NewMatchField(name, int32(v), m...))
		case "i16":
			v, _ := strconv.ParseInt(val, 10, 64)
			return nmfResult(of.NewMatchField(name, int16(v), m...))
		case "i8":
			v, _ := strconv.ParseInt(val, 10, 64)
			return nmfResult(of.NewMatchField(name, int8(v), m...))
		case "bytes":
			b := unhex(val)
			keep := append([]byte(nil), b...)
			r := nmfResult(of.NewMatchField(name, b, m...))
			return r + " arg=" + hx(b) + fmt.Sprint(" same=", hx(b) == hx(keep))
		case "big":
			v, _ := new(big.Int).SetString(val, 10)
			r := nmfResult(of.NewMatchField(name, v, m...))
			return r + " arg=" + v.String()
		}
		return "badkind"
	}
	// regcmp <idx> <value> <start> <width>: generic builder vs the dedicated register constructor
	runners["regcmp"] = func(a []string) string {
		idx, v, s, w := atoi(a[0]), uint32(u64(a[1])), atoi(a[2]), atoi(a[3])
		f1, err := of.NewMatchField(fmt.Sprintf("NXM_NX_REG%d", idx), v, s, w)
		if err != nil {
			return "err"
		}
		f2 := of.NewRegMatchField(idx, v<<uint(s), of.NewNXRange(s, s+w-1))
		b1, _ := f1.MarshalBinary()
		b2, _ := f2.MarshalBinary()
		if hex.EncodeToString(b1) == hex.EncodeToString(b2) {
			return "same " + hex.EncodeToString(b1)
		}
		return "differ " + hex.EncodeToString(b1) + " " + hex.EncodeToString(b2)
	}
	// nmf2 <name> <v1> <v2> [<ofs> <width>]: build with v1, encode; build the same field name with v2 (and through the
	// dedicated no-mask constructors where they exist); encode the FIRST field again
	runners["nmf2"] = func(a []string) string {
		v1, _ := strconv.ParseUint(a[1], 10, 64)
		v2, _ := strconv.ParseUint(a[2], 10, 64)
		m := ints(a[3:])
		f1, err := of.NewMatchField(a[0], v1, m...)
		if err != nil {
			return "err"
		}
		b1, _ := f1.MarshalBinary()
		h1 := hex.EncodeToString(b1)
		f2, err := of.NewMatchField(a[0], v2, m...)
		if err != nil {
			return "err"
		}
		b2, _ := f2.MarshalBinary()
		// further no-mask builds of well-known fields through the dedicated constructors
		of.NewRegMatchField(3, uint32(v2), nil)
		of.NewCTZoneMatchField(uint16(v2))
		of.NewConjIDMatchField(uint32(v2))
		of.NewCTMarkMatchField(uint32(v2), nil)
		b1b, _ := f1.MarshalBinary()
		if hex.EncodeToString(b1b) != h1 {
			return "changed " + h1 + " -> " + hex.EncodeToString(b1b)
		}
		return "same " + h1 + " " + hex.EncodeToString(b2)
	}
	// nmfseq <name> <bigvalue>: build from a caller-owned *big.Int and a caller-owned []byte; then make UNRELATED builds of
	// other fields with arguments of every kind (plain integer, []byte, *big.Int); the caller's first arguments must still
	// hold what they held, and the first fields must still encode to what they encoded to (arguments are left unmodified,
	// also by what the library does later)
	runners["nmfseq"] = func(a []string) string {
		v, _ := new(big.Int).SetString(a[1], 10)
		nom := []int{}
		keep := v.String()
		f1, err := of.NewMatchField(a[0], v, nom...)
		if err != nil {
			return "err"
		}
		b1, _ := f1.MarshalBinary()
		h1 := hex.EncodeToString(b1)
		bs := append([]byte(nil), b1[4:]...)
		keepbs := hx(bs)
		f1b, errb := of.NewMatchField(a[0], bs, nom...)
		var h1b string
		if errb == nil {
			x, _ := f1b.MarshalBinary()
			h1b = hex.EncodeToString(x)
		}
		for round := 0; round < 3; round++ {
			of.NewMatchField("NXM_NX_REG0", uint32(5+round), nom...)
			of.NewMatchField("NXM_NX_REG1", []byte{0, 0, 0, byte(7 + round)}, nom...)
			of.NewMatchField("NXM_NX_XXREG0", big.NewInt(int64(9+round)), nom...)
			of.NewMatchField("NXM_NX_REG2", int(3), 4, 8)
			of.NewMatchField("NXM_NX_CT_MARK", uint64(11), 0, 16)
		}
		if v.String() != keep {
			return "changed big argument " + keep + " -> " + v.String()
		}
		if hx(bs) != keepbs {
			return "changed bytes argument " + keepbs + " -> " + hx(bs)
		}
		x, _ := f1.MarshalBinary()
		if hex.EncodeToString(x) != h1 {
			return "changed field " + h1 + " -> " + hex.EncodeToString(x)
		}
		if errb == nil {
			y, _ := f1b.MarshalBinary()
			if hex.EncodeToString(y) != h1b {
				return "changed field(bytes) " + h1b + " -> " + hex.EncodeToString(y)
			}
		}
		return "kept " + h1
	}
	families["C17"] = func(c *Ctx) {
		names := namesFrom(verifRoot() + "/lean/OFV/Gen/Registry.lean")
		loadSpecWidths()
		for _, n := range names {
			if L := specWidth[n]; L > 0 {
				one := new(big.Int).Lsh(big.NewInt(1), uint(8*L))
				c.run("nmfseq", n, new(big.Int).Sub(one, big.NewInt(2)).String())
				c.run("nmfseq", n, new(big.Int).Rand(c.rng, one).String())
			}
		}
		for _, n := range names {
			c.run("nmf2", n, 1, 2)
			c.run("nmf2", n, 0, 255, 0, 8)
		}
		for _, n := range []string{"NXM_NX_REG3", "NXM_NX_CT_ZONE", "NXM_NX_CONJ_ID", "NXM_NX_CT_MARK"} {
			c.run("nmf2", n, 17, 34)
		}
		width := func(n string) int { return specWidth[n] }
		vals := func(w int) []string {
			one := new(big.Int).Lsh(big.NewInt(1), uint(w))
			max := new(big.Int).Sub(one, big.NewInt(1))
			r := new(big.Int).Rand(c.rng, one)
			return []string{"0", "1", max.String(), r.String()}
		}
		// every window of a 32-bit register, exhaustively (reg0), with spanning values; and the register comparison
		for s := 0; s < 32; s++ {
			for w := 1; s+w <= 32; w++ {
				for _, v := range vals(w) {
					c.run("nmf", "NXM_NX_REG0", "u64", v, s, w)
				}
				c.run("regcmp", c.rng.Intn(16), c.rng.Intn(1<<uint(min(w, 31))), s, w)
				// in-place form on reg0, every window: one stray bit below and one above the window
				if s > 0 {
					c.run("nmf", "NXM_NX_REG0", "u64", fmt.Sprint((uint64(1)<<uint(s))|uint64(1)<<uint(c.rng.Intn(s))), s, w, 0)
				}
				if s+w < 32 {
					c.run("nmf", "NXM_NX_REG0", "u64", fmt.Sprint((uint64(1)<<uint(s))|uint64(1)<<uint(s+w)), s, w, 0)
				}
				c.run("nmf", "NXM_NX_REG0", "u64", fmt.Sprint(uint64(1)<<uint(s+w-1)), s, w, 0)
				c.run("nmf", "NXM_NX_REG"+fmt.Sprint(c.rng.Intn(16)), "u32", vals(w)[3], s, w)
			}
		}
		// every registered field: no mask, sampled windows, no-shift form, every calling convention
		for _, n := range names {
			L := width(n)
			if L == 0 {
				continue
			}
			bits := 8 * L
			for _, v := range vals(bits) {
				c.run("nmf", n, "big", v)
			}
			c.run("nmf", n, "bytes", hx(make([]byte, L)))
			full := make([]byte, L)
			for i := range full {
				full[i] = 0xff
			}
			c.run("nmf", n, "bytes", hx(full))
			for k := 0; k < 12; k++ {
				s := c.rng.Intn(bits)
				w := 1 + c.rng.Intn(bits-s)
				if k == 0 {
					s, w = 0, bits
				}
				if k == 1 {
					s, w = bits-1, 1
				}
				vs := vals(w)
				c.run("nmf", n, "big", vs[3], s, w)
				c.run("nmf", n, "big", vs[2], s, w, 1)
				// value already in place
				inplace := new(big.Int)
				inplace.SetString(vs[3], 10)
				inplace.Lsh(inplace, uint(s))
				c.run("nmf", n, "big", inplace.String(), s, w, 0)
				// value in place but with a bit below / above its window: not representable
				if s > 0 {
					low := new(big.Int).SetBit(new(big.Int).Set(inplace), c.rng.Intn(s), 1)
					c.run("nmf", n, "big", low.String(), s, w, 0)
					c.run("nmf", n, "big", new(big.Int).Lsh(big.NewInt(1), uint(s-1)).String(), s, w, 0)
				}
				if s+w < bits {
					high := new(big.Int).SetBit(new(big.Int).Set(inplace), s+w+c.rng.Intn(bits-s-w), 1)
					c.run("nmf", n, "big", high.String(), s, w, 2)
				}
				c.run("nmf", n, "big", vs[3], s) // one-argument form
			}
			// not representable: too wide, window beyond the field, value wider than the window, negative, > 3 args
			over := new(big.Int).Lsh(big.NewInt(1), uint(bits))
			c.run("nmf", n, "big", over.String())
			c.run("nmf", n, "big", over.String(), 0, bits)
			c.run("nmf", n, "big", "1", bits, 1)
			c.run("nmf", n, "big", "1", 1, bits)
			c.run("nmf", n, "big", "3", 0, 1)
			c.run("nmf", n, "big", "-1")
			c.run("nmf", n, "big", "-1", 0, 8)
			c.run("nmf", n, "i64", "-5")
			c.run("nmf", n, "i64", "5", -1, 4)
			c.run("nmf", n, "i64", "5", 0, -4)
			c.run("nmf", n, "i64", "5", 0, 4, -1)
			c.run("nmf", n, "i64", "1", 0, 1, 1, 1)
			c.run("nmf", n, "i64", "1", 1<<40, 1)
			c.run("nmf", n, "i64", "1", 0, 1<<40)
			c.run("nmf", n, "u64", "18446744073709551615")
			c.run("nmf", n, "u8", "255", 0, 8)
			c.run("nmf", n, "i8", "127")
			c.run("nmf", n, "i16", "-32768")
			c.run("nmf", n, "u16", "65535", 0, 16, 2)
			c.run("nmf", n, "int", "7", 3, 3)
			c.run("nmf", n, "i32", "7", 0, 3, 0)
		}
		c.run("nmf", "NO_SUCH_FIELD", "u64", "1")
		c.run("nmf", "nxm_nx_reg3", "u64", "1", 4, 4)
	}
}

var specWidth = map[string]int{}

// loadSpecWidths reads (name, class, field, width) rows of the regenerated registry (widths only steer generation).
func loadSpecWidths() {
	for _, p := range []string{verifRoot() + "/lean/OFV/Gen/Registry.lean"} {
		b, err := readFile(p)
		if err != nil {
			continue
		}
		for _, m := range rowRe.FindAllStringSubmatch(b, -1) {
			w, _ := strconv.Atoi(m[2])
			specWidth[m[1]] = w
		}
	}
}
