package main

// embed <prog…;!v>: "a container's encoding consists of its own header followed by the complete, unmodified encodings
// of its children in order" (C06), decided on the implementation alone: the value is encoded; then every direct child
// that is itself a message (has Len and MarshalBinary) is encoded on its own, and its bytes must occur in the parent's
// bytes, in field / list order, without overlap; recursively for the children.
// Children the encoders legitimately leave out: the instructions of a delete flow-mod and the buckets of a delete
// group-mod; field references (see childMessages).  Output: "ok <n children checked>" or "FAIL <path>: <detail>".

import (
	"bytes"
	"fmt"
	"reflect"
	"sort"
	"strings"
)

func init() {
	runners["embed"] = func(a []string) string {
		p, e := valueOf(strings.Join(a, ""))
		if e != "" {
			return e
		}
		n := 0
		if msg := embedCheck(p, "v", &n, 0); msg != "" {
			return "FAIL " + msg
		}
		return fmt.Sprintf("ok %d", n)
	}
}

// repvia <prog…;!v>: "encoding via an enclosing container does not change a later encoding of the same value" (C13),
// decided on the implementation alone: the program is run; every variable other than the observed one that holds a
// message (a child built on its own and attached to something later) is sized and encoded, then the observed value is
// sized and encoded twice, then every child again: each child's size and bytes must be what they were.
func init() {
	runners["repvia"] = func(a []string) string {
		src := strings.Join(a, "")
		i := strings.LastIndex(src, ";!")
		if i < 0 {
			return "noprog"
		}
		vars := env{}
		if out := runStmts(src[:i], vars); out != "" {
			return out
		}
		top, ok := vars[src[i+2:]]
		if !ok {
			return "novar"
		}
		type snap struct {
			name string
			v    reflect.Value
			l    string
			b    string
		}
		var kids []snap
		var names []string
		for n := range vars {
			names = append(names, n)
		}
		sort.Strings(names)
		for _, n := range names {
			v := vars[n]
			if n == src[i+2:] || v.Kind() != reflect.Ptr || v.IsNil() || v.Elem().Kind() != reflect.Struct || !isMessage(v) {
				continue
			}
			b, ok := marshalOf(v)
			if !ok {
				continue
			}
			kids = append(kids, snap{n, v, callLen(v), hx(b)})
		}
		if top.Kind() == reflect.Ptr && isMessage(top) {
			callLen(top)
			marshalOf(top)
			marshalOf(top)
		}
		for _, k := range kids {
			b, ok := marshalOf(k.v)
			if !ok {
				return "FAIL " + k.name + " no longer encodes after the container was encoded"
			}
			if l := callLen(k.v); l != k.l || hx(b) != k.b {
				return fmt.Sprintf("FAIL %s: before the container was encoded size %s bytes %s, afterwards size %s bytes %s", k.name, k.l, k.b, l, hx(b))
			}
		}
		return fmt.Sprintf("ok %d", len(kids))
	}
}

func isMessage(v reflect.Value) bool {
	return v.MethodByName("MarshalBinary").IsValid() && v.MethodByName("Len").IsValid()
}

// childMessages lists the direct children of struct pointer p that are messages, in declaration order.
func childMessages(p reflect.Value) (kids []reflect.Value, names []string) {
	s := p.Elem()
	t := s.Type()
	skip := map[string]bool{}
	switch typeName(t) {
	case "FlowMod":
		if c := s.FieldByName("Command").Uint(); c == 3 || c == 4 {
			skip["Instructions"] = true
		}
	case "GroupMod":
		if c := s.FieldByName("Command").Uint(); c == 2 {
			skip["Buckets"] = true
		}
	case "p.Ethernet":
		// the 802.1Q tag is a struct field, present in every value; it is on the wire only when the frame is tagged
		// (VLAN id 0 = untagged for this library: known finding D37 covers the priority-tagged frame)
		if vl := s.FieldByName("VLANID"); vl.IsValid() && vl.FieldByName("VID").Uint() == 0 {
			skip["VLANID"] = true
		}
	}
	add := func(v reflect.Value, name string) {
		switch v.Kind() {
		case reflect.Interface:
			if v.IsNil() {
				return
			}
			v = v.Elem()
		}
		switch v.Kind() {
		case reflect.Ptr:
			if v.IsNil() || v.Elem().Kind() != reflect.Struct {
				return
			}
		case reflect.Struct:
			if !v.CanAddr() {
				return
			}
			v = v.Addr()
		default:
			return
		}
		if v.Elem().Type() == bytesBufferType {
			return
		}
		// a *MatchField held by a register action or a learn spec is a field REFERENCE (only its 4-byte header word is
		// written); it is a child to embed only in a match, a set-field action and reg_load2
		if typeName(v.Elem().Type()) == "MatchField" {
			switch typeName(t) {
			case "Match", "ActionSetField", "NXActionRegLoad2":
			default:
				return
			}
		}
		if isMessage(v) {
			kids = append(kids, v)
			names = append(names, name)
		}
	}
	for i := 0; i < s.NumField(); i++ {
		fn := t.Field(i).Name
		if skip[fn] {
			continue
		}
		f := open(s.Field(i))
		switch f.Kind() {
		case reflect.Slice:
			if f.Type().Elem().Kind() == reflect.Uint8 {
				continue
			}
			for j := 0; j < f.Len(); j++ {
				add(f.Index(j), fmt.Sprintf("%s[%d]", fn, j))
			}
		default:
			add(f, fn)
		}
	}
	return
}

func embedCheck(p reflect.Value, path string, n *int, depth int) string {
	if depth > 12 || p.Kind() != reflect.Ptr || p.IsNil() || p.Elem().Kind() != reflect.Struct {
		return ""
	}
	b, ok := marshalOf(p)
	if !ok {
		return ""
	}
	b = append([]byte(nil), b...)
	kids, names := childMessages(p)
	cursor := 0
	// IPv6 extension headers are written in the order of the next-header chain, not in field order
	unordered := typeName(p.Elem().Type()) == "p.IPv6"
	for i, k := range kids {
		if unordered {
			cursor = 0
		}
		kb, ok := marshalOf(k)
		if !ok {
			continue
		}
		kb = append([]byte(nil), kb...)
		*n++
		if len(kb) > 0 {
			j := bytes.Index(b[cursor:], kb)
			if j < 0 {
				return fmt.Sprintf("%s.%s: the %d bytes %s of the child do not occur (after offset %d) in the parent's %d bytes %s",
					path, names[i], len(kb), hx(kb), cursor, len(b), hx(b))
			}
			cursor += j + len(kb)
		}
		if msg := embedCheck(k, path+"."+names[i], n, depth+1); msg != "" {
			return msg
		}
	}
	return ""
}
