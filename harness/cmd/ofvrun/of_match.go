package main

// generator for openflow13/match.go, openflow13/nx_match.go and the parts of nx_util.go they use:
// Match, MatchField, every payload kind, every constructor, Match.AddField, CTStates.*, NXRange.*,
// FindFieldHeaderByName, DecodeMatchField.

import (
	"fmt"
	"strings"
)

// one row of the dispatch tables of DecodeMatchField: class, field, payload kind ("" = no payload / nil)
type mfRow struct {
	cls   int
	field int
	kind  string
}

const (
	clsBasic = 0x8000
	clsNxm1  = 1
	clsExp   = 0xffff
	onfID    = 0x4f4e4600
)

var mfRows = []mfRow{
	{clsBasic, 0, "InPortField"}, {clsBasic, 1, ""}, {clsBasic, 2, "MetadataField"}, {clsBasic, 3, "EthDstField"},
	{clsBasic, 4, "EthSrcField"}, {clsBasic, 5, "EthTypeField"}, {clsBasic, 6, "VlanIdField"}, {clsBasic, 7, ""},
	{clsBasic, 8, "IpDscpField"}, {clsBasic, 9, ""}, {clsBasic, 10, "IpProtoField"}, {clsBasic, 11, "Ipv4SrcField"},
	{clsBasic, 12, "Ipv4DstField"}, {clsBasic, 13, "PortField"}, {clsBasic, 14, "PortField"}, {clsBasic, 15, "PortField"},
	{clsBasic, 16, "PortField"}, {clsBasic, 17, "PortField"}, {clsBasic, 18, "PortField"}, {clsBasic, 19, "IcmpTypeField"},
	{clsBasic, 20, "IcmpCodeField"}, {clsBasic, 21, "ArpOperField"}, {clsBasic, 22, "ArpXPaField"}, {clsBasic, 23, "ArpXPaField"},
	{clsBasic, 24, "ArpXHaField"}, {clsBasic, 25, "ArpXHaField"}, {clsBasic, 26, "Ipv6SrcField"}, {clsBasic, 27, "Ipv6DstField"},
	{clsBasic, 28, "IPv6FlowLabelField"}, {clsBasic, 29, "IcmpTypeField"}, {clsBasic, 30, "IcmpCodeField"},
	{clsBasic, 31, "Ipv6DstField"}, {clsBasic, 32, "EthSrcField"}, {clsBasic, 33, "EthDstField"}, {clsBasic, 34, "MplsLabelField"},
	{clsBasic, 35, ""}, {clsBasic, 36, "MplsBosField"}, {clsBasic, 37, ""}, {clsBasic, 38, "TunnelIdField"}, {clsBasic, 39, ""},
	{clsBasic, 41, ""}, {clsBasic, 42, "TcpFlagsField"}, {clsBasic, 43, ""},

	{clsNxm1, 0, "Uint32Message"}, {clsNxm1, 1, "Uint32Message"}, {clsNxm1, 7, "Uint32Message"}, {clsNxm1, 15, "Uint32Message"},
	{clsNxm1, 16, ""}, {clsNxm1, 17, "ArpXHaField"}, {clsNxm1, 18, "ArpXHaField"}, {clsNxm1, 19, "Ipv6SrcField"},
	{clsNxm1, 20, "Ipv6DstField"}, {clsNxm1, 21, "IcmpTypeField"}, {clsNxm1, 22, "IcmpCodeField"}, {clsNxm1, 23, "Ipv6DstField"},
	{clsNxm1, 24, "EthDstField"}, {clsNxm1, 25, "EthSrcField"}, {clsNxm1, 26, ""}, {clsNxm1, 27, "IPv6FlowLabelField"},
	{clsNxm1, 28, ""}, {clsNxm1, 29, ""}, {clsNxm1, 30, ""}, {clsNxm1, 31, "TunnelIpv4SrcField"}, {clsNxm1, 32, "TunnelIpv4DstField"},
	{clsNxm1, 33, "Uint32Message"}, {clsNxm1, 34, ""}, {clsNxm1, 35, ""}, {clsNxm1, 36, ""}, {clsNxm1, 37, "Uint32Message"},
	{clsNxm1, 38, ""}, {clsNxm1, 39, ""}, {clsNxm1, 40, "ByteArrayField"}, {clsNxm1, 41, "ByteArrayField"}, {clsNxm1, 47, "ByteArrayField"},
	{clsNxm1, 48, ""}, {clsNxm1, 104, ""}, {clsNxm1, 105, "Uint32Message"}, {clsNxm1, 106, "Uint16Message"}, {clsNxm1, 107, "Uint32Message"},
	{clsNxm1, 108, "CTLabel"}, {clsNxm1, 109, "Ipv6SrcField"}, {clsNxm1, 110, "Ipv6DstField"}, {clsNxm1, 111, "ByteArrayField"},
	{clsNxm1, 114, "ByteArrayField"}, {clsNxm1, 115, ""}, {clsNxm1, 119, "IpProtoField"}, {clsNxm1, 120, "Ipv4SrcField"},
	{clsNxm1, 121, "Ipv4DstField"}, {clsNxm1, 122, "Ipv6SrcField"}, {clsNxm1, 123, "Ipv6DstField"}, {clsNxm1, 124, "PortField"},
	{clsNxm1, 125, "PortField"}, {clsNxm1, 126, ""},

	{clsExp, 42, "TcpFlagsField"}, {clsExp, 43, "ActsetOutputField"}, {clsExp, 0, ""},
}

// payload kinds and their literal edge values
var (
	kindsU8   = []string{"MplsBosField", "IpProtoField", "IpDscpField", "IcmpTypeField", "IcmpCodeField"}
	kindsU16  = []string{"EthTypeField", "VlanIdField", "PortField", "TcpFlagsField", "ArpOperField", "Uint16Message"}
	kindsU32  = []string{"InPortField", "MplsLabelField", "IPv6FlowLabelField", "ActsetOutputField", "Uint32Message"}
	kindsU64  = []string{"TunnelIdField", "MetadataField"}
	kindsMac  = []string{"EthDstField", "EthSrcField", "ArpXHaField"}
	kindsIP4  = []string{"Ipv4SrcField", "Ipv4DstField", "TunnelIpv4SrcField", "TunnelIpv4DstField", "ArpXPaField"}
	kindsIP6  = []string{"Ipv6SrcField", "Ipv6DstField"}
	valsU8    = []string{"0", "1", "255", "254", "17"}
	valsU16   = []string{"0", "1", "65535", "65534", "4386"}
	valsU32   = []string{"0", "1", "4294967295", "4294967294", "287454020"}
	valsU64   = []string{"0", "1", "18446744073709551615", "18446744073709551614", "1234605616436508552"}
	valsMac   = []string{"x0a0b0c0d0e0f", "x", "xffffffffffff", "x010203", "x0102030405060708", "x000000000000"}
	valsIP4   = []string{"x0a000001", "x", "x00000000000000000000ffff0a000002", "xffffff00", "x20010db8000000000000000000000001", "x0a00000102", "x00000000000000000000fffe0a000002", "x0000000000000000000000ff0a000002"}
	valsIP6   = []string{"x20010db8000000000000000000000001", "x", "xffffffffffffffff0000000000000000", "x0a000001", "x20010db800000000000000000000000155667788", "x00000000000000000000ffff0a000002"}
	valsLabel = []string{"x00000000000000000000000000000000", "x0102030405060708090a0b0c0d0e0f10", "xffffffffffffffffffffffffffffffff"}
)

func seqBytes(n int) string {
	var sb strings.Builder
	sb.WriteString("x")
	for i := 0; i < n; i++ {
		fmt.Fprintf(&sb, "%02x", byte(i+1))
	}
	return sb.String()
}

func inList(xs []string, k string) bool {
	for _, x := range xs {
		if x == k {
			return true
		}
	}
	return false
}

// payload terms of one kind
func payloadTerms(kind string) []string {
	wrap := func(vals []string) []string {
		var out []string
		for _, v := range vals {
			out = append(out, kind+"("+v+")")
		}
		return out
	}
	switch {
	case inList(kindsU8, kind):
		return wrap(valsU8)
	case inList(kindsU16, kind):
		return wrap(valsU16)
	case inList(kindsU32, kind):
		return wrap(valsU32)
	case inList(kindsU64, kind):
		return wrap(valsU64)
	case inList(kindsMac, kind):
		return wrap(valsMac)
	case inList(kindsIP4, kind):
		return wrap(valsIP4)
	case inList(kindsIP6, kind):
		return wrap(valsIP6)
	case kind == "CTLabel":
		return wrap(valsLabel)
	case kind == "ByteArrayField":
		return []string{
			"ByteArrayField(x0102030405060708,8)", "ByteArrayField(x,0)", "ByteArrayField(x0102,8)", "ByteArrayField(x0102030405060708,4)",
			"ByteArrayField(" + seqBytes(16) + ",16)", "ByteArrayField(" + seqBytes(124) + ",124)", "ByteArrayField(x01,255)", "ByteArrayField(x,1)",
		}
	}
	panic("payloadTerms: " + kind)
}

func payloadLen(kind string, term string) int {
	switch {
	case inList(kindsU8, kind):
		return 1
	case inList(kindsU16, kind):
		return 2
	case kind == "IPv6FlowLabelField":
		return 3
	case inList(kindsU32, kind), inList(kindsIP4, kind):
		return 4
	case inList(kindsU64, kind):
		return 8
	case inList(kindsMac, kind):
		return 6
	case inList(kindsIP6, kind), kind == "CTLabel":
		return 16
	case kind == "ByteArrayField":
		var n int
		i := strings.LastIndex(term, ",")
		fmt.Sscanf(term[i+1:], "%d", &n)
		return n
	}
	panic("payloadLen: " + kind)
}

var allPayloadKinds = func() []string {
	var out []string
	for _, ks := range [][]string{kindsU8, kindsU16, kindsU32, kindsU64, kindsMac, kindsIP4, kindsIP6, {"CTLabel", "ByteArrayField"}} {
		out = append(out, ks...)
	}
	return out
}()

func mfTerm(cls, field, hasMask, length int, eid uint32, val, mask string) string {
	return fmt.Sprintf("MatchField(%d,%d,%d,%d,%d,%s,%s)", cls, field, hasMask, length, eid, val, mask)
}

func init() {
	ofGens = append(ofGens, genMatch)
}

func genMatch(c *Ctx) {
	// ---- every payload kind on its own -------------------------------------------------------------------------
	for _, k := range allPayloadKinds {
		for _, t := range payloadTerms(k) {
			c.encDec(k, t)
		}
	}
	// ByteArrayField: the decoder takes the expected length from the RECEIVER; ArpXHaField copies into the receiver's slice
	for _, p := range []string{
		"b=ByteArrayField(x,4);$b.UnmarshalBinary(x0102030405);!b",
		"b=ByteArrayField(x0909,4);$b.UnmarshalBinary(x010203);!b",
		"b=ByteArrayField(x0909,0);$b.UnmarshalBinary(x);!b",
		"b=ByteArrayField(x,255);$b.UnmarshalBinary(" + seqBytes(255) + ");!b",
		"b=ByteArrayField(x,255);$b.UnmarshalBinary(" + seqBytes(254) + ");!b",
		"a=ArpXHaField(x000000000000);$a.UnmarshalBinary(x0102030405060708);!a",
		"a=ArpXHaField(x0000);$a.UnmarshalBinary(x0102030405060708);!a",
		"a=ArpXHaField(x0000000000000000);$a.UnmarshalBinary(x010203040506);!a",
		"a=ArpXHaField(x);$a.UnmarshalBinary(x010203040506);!a",
		"a=ArpXHaField(x000000000000);$a.UnmarshalBinary(x0102030405);!a",
	} {
		c.run("prog", p)
	}

	// ---- MatchField: every payload kind as Value and Mask, every dispatch row ------------------------------------
	seen := map[string]bool{}
	var sampleFields []string // one valid field term per row, reused for Match values
	for ri, r := range mfRows {
		if r.kind == "" {
			continue
		}
		ts := payloadTerms(r.kind)
		first := !seen[r.kind]
		seen[r.kind] = true
		for i, v := range ts {
			m := ts[(i+1)%len(ts)]
			l := payloadLen(r.kind, v)
			lm := payloadLen(r.kind, m)
			plain := mfTerm(r.cls, r.field, 0, l, 0, v, "~")
			masked := mfTerm(r.cls, r.field, 1, (l+lm)&0xff, 0, v, m)
			if i == 0 {
				sampleFields = append(sampleFields, plain, masked)
			}
			if (first && i < 2) || c.thorough() {
				// the representative row of a kind: all variants of the encodings
				c.encDec("MatchField", plain)
				c.encDec("MatchField", masked)
			} else if i < 2 || first {
				c.run("enc", plain)
				c.run("enc", masked)
				for _, t := range []string{plain, masked} {
					if b := marshalTerm(t); b != nil {
						c.decCase("dec", "MatchField", b, 0)
						c.decCase("dec", "MatchField", b, 24)
						c.decCase("dec", "MatchField", b[:len(b)-1], 0)
						c.decCase("dec", "MatchField", b[:len(b)-1], 24)
					}
				}
			}
			if i == 0 {
				// inconsistent flag / mask combinations, experimenter id counted by Len but never written
				c.run("enc", mfTerm(r.cls, r.field, 1, l, 0, v, "~"))
				c.run("enc", mfTerm(r.cls, r.field, 0, l, 0, v, m))
				c.run("enc", mfTerm(r.cls, r.field, 0, l, 0, "~", m))
				c.run("enc", mfTerm(r.cls, r.field, 0, l, onfID, v, "~"))
				c.run("enc", mfTerm(r.cls, r.field, 1, 2*l, onfID, v, m))
				c.run("enc", mfTerm(r.cls, r.field, 1, 2*l, 1, v, m))
				if r.cls == clsExp {
					// what the library itself writes for an experimenter field cannot be read back (the id is missing)
					c.encDec("MatchField", mfTerm(r.cls, r.field, 0, l+4, onfID, v, "~"))
					c.encDec("MatchField", mfTerm(r.cls, r.field, 1, 2*l+4, onfID, v, m))
				}
				if ri%5 == 0 {
					c.encDec("MatchField", mfTerm(r.cls, r.field, 1, 255, 4294967295, v, m))
				}
			}
		}
	}
	// value and mask of different kinds, header fields at their edges
	for i, k := range allPayloadKinds {
		k2 := allPayloadKinds[(i+7)%len(allPayloadKinds)]
		v := payloadTerms(k)[0]
		m := payloadTerms(k2)[0]
		c.run("enc", mfTerm(65535, 127, 1, 255, 0, v, m))
		c.run("enc", mfTerm(0, 128, 1, 0, 0, v, m))
		c.run("enc", mfTerm(65534, 255, 0, 1, 7, v, m))
	}
	c.run("enc", mfTerm(clsBasic, 0, 0, 4, 0, "~", "~"))
	c.run("enc", mfTerm(clsBasic, 0, 1, 4, 0, "~", "~"))
	// experimenter class: valid wire forms made by hand (the encoder cannot produce them)
	for _, s := range []string{
		"ffff54064f4e46001234", "ffff55084f4e46001234ff00", "ffff56084f4e4600fffffff8", "ffff570c4f4e4600000000010000ffff",
		"ffff54064f4e46011234", "ffff540600000000", "ffff5406", "ffff54064f4e46", "ffff00064f4e46001234", "ffff58064f4e46001234", "fffffe064f4e46001234",
		"ffff54064f4e460012", "ffff55084f4e46001234ff", "ffff56084f4e4600ffffff",
	} {
		c.decCases("dec", "MatchField", unhex(s))
	}
	// hostile field encodings: rows without payload, unknown classes, lengths 0 / huge, truncated
	for _, r := range mfRows {
		if r.kind != "" {
			continue
		}
		for hm := 0; hm < 2; hm++ {
			b := []byte{byte(r.cls >> 8), byte(r.cls), byte(r.field<<1 | hm), 4, 0x4f, 0x4e, 0x46, 0x00, 1, 2, 3, 4, 5, 6, 7, 8}
			c.decCase("dec", "MatchField", b, 0)
			c.decCase("dec", "MatchField", b[:4], 0)
			c.decCase("dec", "MatchField", b[:4], 24)
		}
	}
	for _, s := range []string{
		"", "80", "8000", "800000", "80000004", "8000000400", "800000040000", "80000004000000", "00000004000000010203", "00020004000000010203",
		"80010004000000010203", "7fff0004000000010203", "fffe0004000000010203",
		"0001500000", "00015000", "000150ff" + strings.Repeat("ab", 255), "000151ff" + strings.Repeat("ab", 254), "000151fe" + strings.Repeat("ab", 254),
		"000151fe" + strings.Repeat("ab", 253), "00015101ab", "00015100", "0001de10" + strings.Repeat("cd", 16), "0001df20" + strings.Repeat("cd", 32),
		"0001df21" + strings.Repeat("cd", 33), "0001df1f" + strings.Repeat("cd", 31), "0001d810" + strings.Repeat("11", 16), "0001d920" + strings.Repeat("11", 20),
		"80003006010203040506", "8000310c0102030405060708090a0b0c", "00012206010203040506", "0001230c0102030405060708090a0b0c",
		"80003804aabbccdd", "80003908aabbccdd11223344", "80003803aabbcc", "80003906aabbcc112233",
	} {
		c.decCases("dec", "MatchField", unhex(s))
	}
	// decoding INTO an existing field: Mask and ExperimenterID of the receiver survive
	for _, p := range []string{
		"f=NewEthDstField(x010203040506,xffffffffffff);$f.UnmarshalBinary(x8000000400000007);!f",
		"f=MatchField(32768,0,0,4,1330529792,InPortField(1),~);$f.UnmarshalBinary(x80000a020800);!f",
		"f=NewInPortField(1);$f.UnmarshalBinary(xffff54064f4e46001234);!f",
		"f=NewInPortField(1);$f.UnmarshalBinary(xffff540600000000);!f",
		"f=NewInPortField(1);$f.UnmarshalBinary(x800002);!f",
	} {
		c.run("prog", p)
	}

	// ---- Match: 0,1,2,3,7 fields in mixed kinds ------------------------------------------------------------------
	pick := func(start, n, step int) string {
		var fs []string
		for i := 0; i < n; i++ {
			fs = append(fs, sampleFields[(start+i*step)%len(sampleFields)])
		}
		return "[" + strings.Join(fs, ",") + "]"
	}
	mi := 0
	for _, n := range []int{0, 1, 2, 3, 7} {
		for rep := 0; rep < 4; rep++ {
			fs := pick(mi*5+rep, n, 3+2*rep)
			mi++
			// the length Match.AddField would have accumulated: header + fields, without the padding
			ln := 4
			if t := marshalProgLen(fs); t > 0 {
				ln = t
			}
			c.encDec("Match", fmt.Sprintf("Match(1,%d,%s)", ln, fs))
			if rep == 0 {
				c.encDec("Match", fmt.Sprintf("Match(1,4,%s)", fs))
				c.run("enc", fmt.Sprintf("Match(0,65535,%s)", fs))
				c.run("enc", fmt.Sprintf("Match(65535,0,%s)", fs))
			}
			if n == 0 {
				break
			}
		}
	}
	// every sample field inside a match, seven at a time
	for i := 0; i < len(sampleFields); i += 7 {
		fs := pick(i, 7, 1)
		t := fmt.Sprintf("Match(1,%d,%s)", marshalProgLen(fs), fs)
		c.run("enc", t)
		if b := marshalTerm(t); b != nil {
			c.decCase("dec", "Match", b, 0)
			c.decCase("dec", "Match", b, 24)
		}
	}
	// many fields (uint16 length arithmetic), a field that cannot be encoded
	c.run("enc", "Match(1,4,"+pick(0, 40, 1)+")")
	c.run("enc", "Match(1,4,["+mfTerm(clsBasic, 0, 0, 4, 0, "~", "~")+"])")
	c.run("enc", "Match(1,4,["+sampleFields[0]+","+mfTerm(clsBasic, 0, 1, 4, 0, "InPortField(1)", "~")+"])")
	{
		// Len() is uint16: 127 fields of 518 bytes wrap it around
		big := "ByteArrayField(" + seqBytes(255) + ",255)"
		var fs []string
		for i := 0; i < 128; i++ {
			fs = append(fs, mfTerm(clsNxm1, 40, 1, 254, 1, big, big))
		}
		ns := []int{127}
		if c.thorough() {
			ns = []int{126, 127, 128}
		}
		for _, n := range ns {
			c.run("enc", "Match(1,4,["+strings.Join(fs[:n], ",")+"])")
		}
	}
	// hostile matches: length field 0 / 1 / 4 / beyond the data / huge, bad inner fields, trailing bytes
	for _, s := range []string{
		"", "00", "0001", "000100", "00010000", "00010001", "00010004", "00010004" + "00000000", "00010005" + "00000000", "00010008" + "80000004" + "00000001",
		"0001000c" + "80000004" + "00000001" + "00000000", "00010010" + "80000004" + "00000001", "0001ffff" + "80000004" + "00000001", "00010009" + "80000004" + "00000001",
		"00010008" + "00000004" + "00000001", "00010008" + "80000204" + "00000001", "0001000e" + "ffff5406" + "4f4e4600" + "1234" + "0000",
		"0001000e" + "ffff5406" + "4f4e4601" + "1234" + "0000", "00010010" + "80000004" + "00000001" + "80000204" + "00000001",
		"0001000a" + "80000a02" + "0800" + "000000000000", "00010016" + "80000a02" + "0800" + "80000604" + "0a000001" + "80001602" + "0050" + "0000",
		"0001000c" + "00014004" + "01020304", "00010008" + "00014000", "0001000c" + "00002004" + "0a000001",
		// a flow label (Len() = 3, four bytes on the wire) followed by another field: the cursor is off by one
		"00010014" + "80003804" + "00012345" + "80000004" + "00000001", "0001000c" + "80003804" + "00012345", "0001000b" + "80003804" + "00012345",
		"00010014" + "00013604" + "00012345" + "80000004" + "00000001",
	} {
		c.decCases("dec", "Match", unhex(s))
	}
	// decoding INTO an existing match appends
	c.run("prog", "m=NewMatch();f=NewInPortField(3);$m.AddField(*$f);$m.UnmarshalBinary(x0001000a80000a0208000000);!m")
	c.run("prog", "m=NewMatch();f=NewInPortField(3);$m.AddField(*$f);$m.UnmarshalBinary(x0001000a80000204080000000000);!m")

	// ---- constructors ---------------------------------------------------------------------------------------------
	ctor := func(call string) {
		c.run("prog", "v="+call+";!v")
		if b := marshalProg("v="+call, "v"); b != nil && len(b) > 0 {
			c.decCase("dec", "MatchField", b, 0)
			c.decCase("dec", "MatchField", b, 24)
		}
	}
	c.run("prog", "v=NewMatch();!v")
	for _, f := range []string{"NewInPortField", "NewMplsLabelField", "NewActsetOutputField"} {
		for _, v := range append(valsU32, "4294967296", "18446744073709551615") {
			ctor(f + "(" + v + ")")
		}
	}
	for _, f := range []string{"NewEthTypeField", "NewTcpSrcField", "NewTcpDstField", "NewUdpSrcField", "NewUdpDstField", "NewSctpSrcField", "NewSctpDstField", "NewArpOperField"} {
		for _, v := range valsU16 {
			ctor(f + "(" + v + ")")
		}
	}
	for _, v := range valsU16 {
		c.run("prog", "v=NewPortField("+v+");!v")
	}
	for _, f := range []string{"NewMplsBosField", "NewIpProtoField", "NewIpDscpField", "NewIcmpCodeField", "NewIcmpTypeField"} {
		for _, v := range valsU8 {
			ctor(f + "(" + v + ")")
		}
	}
	for _, v := range valsU64 {
		ctor("NewTunnelIdField(" + v + ")")
		for _, m := range []string{"~", "0", "18446744073709551615", "1234605616436508552"} {
			ctor("NewMetadataField(" + v + "," + m + ")")
		}
	}
	for _, v := range append(valsU16, "4095", "4096", "8191") {
		for _, m := range []string{"~", "0", "65535", "4095", "4386"} {
			ctor("NewVlanIdField(" + v + "," + m + ")")
			ctor("NewTcpFlagsField(" + v + "," + m + ")")
		}
	}
	for _, v := range valsU32 {
		for _, m := range []string{"~", "0", "4294967295", "1048575"} {
			ctor("NewIPV6FlowLabelField(" + v + "," + m + ")")
		}
	}
	for _, f := range []string{"NewEthDstField", "NewEthSrcField"} {
		for _, v := range valsMac {
			for _, m := range []string{"~", "x", "xffffffffffff", "xff00", "x0102030405060708"} {
				ctor(f + "(" + v + "," + m + ")")
			}
		}
	}
	for _, f := range []string{"NewArpThaField", "NewArpShaField"} {
		for _, v := range valsMac {
			ctor(f + "(" + v + ")")
		}
	}
	for _, f := range []string{"NewIpv4SrcField", "NewIpv4DstField", "NewTunnelIpv4SrcField", "NewTunnelIpv4DstField"} {
		for _, v := range valsIP4 {
			for _, m := range []string{"~", "x", "xffffff00", "x00000000000000000000ffffffff0000", "xffffffffffffffffffffffffffffff00", "xff"} {
				ctor(f + "(" + v + "," + m + ")")
			}
		}
	}
	for _, f := range []string{"NewArpTpaField", "NewArpSpaField"} {
		for _, v := range valsIP4 {
			ctor(f + "(" + v + ")")
		}
	}
	for _, f := range []string{"NewIpv6SrcField", "NewIpv6DstField"} {
		for _, v := range valsIP6 {
			for _, m := range []string{"~", "x", "xffffffffffffffff0000000000000000", "xffffff00", "x" + strings.Repeat("ff", 20)} {
				ctor(f + "(" + v + "," + m + ")")
			}
		}
	}
	// nx_match.go
	for _, idx := range []string{"0", "1", "7", "9", "10", "15", "16", "17", "100", "18446744073709551615"} {
		for _, rng := range []string{"~", "NXRange(0,31)", "NXRange(4,7)", "NXRange(0,0)", "NXRange(31,31)", "NXRange(16,47)", "NXRange(5,4)", "NXRange(40,50)"} {
			ctor("NewRegMatchField(" + idx + ",305419896," + rng + ")")
		}
	}
	for _, d := range valsU32 {
		ctor("NewRegMatchField(3," + d + ",~)")
		ctor("NewRegMatchField(3," + d + ",NXRange(8,15))")
		ctor("NewConjIDMatchField(" + d + ")")
		for _, m := range []string{"~", "0", "4294967295", "65280"} {
			ctor("NewCTMarkMatchField(" + d + "," + m + ")")
		}
	}
	for _, idx := range []string{"0", "1", "7", "8", "18446744073709551615"} {
		for _, d := range []string{"x", "x01020304", seqBytes(8), seqBytes(124), seqBytes(128), seqBytes(255), seqBytes(256), seqBytes(300)} {
			for _, m := range []string{"x", "xffffffff", "xff", seqBytes(124), seqBytes(128), seqBytes(200)} {
				if (len(d) > 100 || len(m) > 100) && idx != "0" && idx != "8" {
					continue
				}
				ctor("NewTunMetadataField(" + idx + "," + d + "," + m + ")")
			}
		}
	}
	for _, z := range valsU16 {
		ctor("NewCTZoneMatchField(" + z + ")")
	}
	for _, l := range []string{"x", "x01", valsLabel[0], valsLabel[1], valsLabel[2], "x0102030405060708090a0b0c0d0e0f101112"} {
		for _, m := range []string{"~", "x", valsLabel[2], "xff00"} {
			ctor("NewCTLabelMatchField(" + l + "," + m + ")")
		}
	}
	for _, f := range []string{"NewNxARPShaMatchField", "NewNxARPThaMatchField"} {
		for _, v := range valsMac {
			for _, m := range []string{"x", "xffffffffffff", "xff00", "x0102030405060708"} {
				ctor(f + "(" + v + "," + m + ")")
			}
		}
	}
	for _, f := range []string{"NewNxARPSpaMatchField", "NewNxARPTpaMatchField"} {
		for _, v := range valsIP4 {
			for _, m := range []string{"x", "xffffff00", "x00000000000000000000ffffffff0000", "xff"} {
				ctor(f + "(" + v + "," + m + ")")
			}
		}
	}
	// CTStates: every setter alone, pairs, a long history; a nil state
	setters := []string{"SetNew", "UnsetNew", "SetEst", "UnsetEst", "SetRel", "UnsetRel", "SetRpl", "UnsetRpl", "SetInv", "UnsetInv", "SetTrk", "UnsetTrk", "SetSNAT", "UnsetSNAT", "SetDNAT", "UnsetDNAT"}
	c.run("prog", "s=NewCTStates();f=NewCTStateMatchField($s);!f")
	c.run("prog", "f=NewCTStateMatchField(~);!f")
	c.run("prog", "f=NewCTStateMatchField(CTStates(4294967295,0));!f")
	c.run("prog", "f=NewCTStateMatchField(CTStates(287454020,4294967294));!f")
	for i, a := range setters {
		c.run("prog", "s=NewCTStates();$s."+a+"();f=NewCTStateMatchField($s);!f")
		c.run("prog", "s=CTStates(4294967295,0);$s."+a+"();f=NewCTStateMatchField($s);!f")
		for j, b := range setters {
			if (i+j)%3 == 0 || c.thorough() {
				c.run("prog", "s=NewCTStates();$s."+a+"();$s."+b+"();f=NewCTStateMatchField($s);!f")
			}
		}
	}
	for k := 0; k < 40; k++ {
		p := "s=NewCTStates()"
		for i := 0; i < 3+c.rng.Intn(12); i++ {
			p += ";$s." + setters[c.rng.Intn(len(setters))] + "()"
		}
		c.run("prog", p+";f=NewCTStateMatchField($s);!f")
	}
	// NXRange: constructors and every reader (results observed through a field constructor)
	type rg struct{ a, b string }
	rgs := []rg{{"0", "31"}, {"0", "0"}, {"4", "7"}, {"31", "31"}, {"16", "47"}, {"5", "4"}, {"0", "63"}, {"40", "50"}, {"1023", "1023"}, {"0", "65535"},
		{"65535", "65536"}, {"70000", "70010"}, {"3", "18446744073709551615"}, {"18446744073709551615", "3"}, {"32", "32"}, {"0", "32"}, {"1", "32"}}
	for _, r := range rgs {
		for _, mk := range []string{"NewNXRange", "NewNXRangeByOfsNBits"} {
			pre := "r=" + mk + "(" + r.a + "," + r.b + ")"
			c.run("prog", pre+";m=$r.ToUint32Mask();f=NewInPortField($m);!f")
			c.run("prog", pre+";m=$r.ToOfsBits();f=NewEthTypeField($m);!f")
			c.run("prog", pre+";m=$r.GetOfs();f=NewEthTypeField($m);!f")
			c.run("prog", pre+";m=$r.GetNbits();f=NewEthTypeField($m);!f")
			c.run("prog", pre+";f=NewRegMatchField(2,4660,$r);!f")
		}
	}
	for _, r := range []rg{{"0", "31"}, {"4", "7"}, {"5", "4"}, {"0", "0"}, {"16", "16"}, {"100", "200"}} {
		c.run("fn", "NewNXRange", r.a, r.b)
		if r.b != "0" {
			c.run("fn", "NewNXRangeByOfsNBits", r.a, r.b)
		}
	}
	c.run("fn", "NewCTStates")
	// MatchField.MarshalHeader / UnmarshalHeader / GetOXMName
	for i, t := range sampleFields {
		if i%3 != 0 && !c.thorough() {
			continue
		}
		c.run("prog", "f="+t+";h=$f.MarshalHeader();g=NewInPortField($h);!g")
		c.run("prog", "f="+t+";n=$f.GetOXMName();g=NewArpShaField($n);!g")
		c.run("prog", "f="+t+";$f.UnmarshalHeader(x80000c0c);!f")
	}
	for _, t := range []string{mfTerm(65535, 255, 1, 255, 0, "InPortField(1)", "~"), mfTerm(65535, 127, 0, 254, 7, "InPortField(1)", "~"), mfTerm(32768, 128, 1, 0, 0, "InPortField(1)", "~")} {
		c.run("prog", "f="+t+";h=$f.MarshalHeader();g=NewInPortField($h);!g")
	}
	for _, d := range []string{"x", "x80", "x8000", "x800006", "x80000604", "x8000070c", "xffffffff", "xfffffe00", "x00010004aabbccdd", "x7fff0180"} {
		c.run("prog", "f=NewInPortField(1);$f.UnmarshalHeader("+d+");!f")
		c.run("prog", "f=NewEthDstField(x010203040506,xffffffffffff);$f.UnmarshalHeader("+d+");!f")
	}
	c.run("prog", "f=NewInPortField(1);n=$f.GetOXMName();g=NewArpShaField($n);!g")
	c.run("prog", "f=NewEthTypeField(1);n=$f.GetOXMName();g=NewArpShaField($n);!g")

	// ---- Match.AddField programs ---------------------------------------------------------------------------------
	calls := []string{
		"NewEthDstField(x0a0b0c0d0e0f,x)", "NewEthDstField(x0a0b0c0d0e0f,~)", "NewInPortField(7)", "NewEthTypeField(2048)", "NewIpv4SrcField(x0a000001,xffffff00)",
		"NewIpv4DstField(x00000000000000000000ffff0a000002,~)", "NewIpProtoField(6)", "NewTcpDstField(80)", "NewIpv6SrcField(x20010db8000000000000000000000001,~)",
		"NewIPV6FlowLabelField(74565,~)", "NewIPV6FlowLabelField(74565,1048575)", "NewVlanIdField(100,4095)", "NewMetadataField(1,18446744073709551615)",
		"NewTunnelIdField(5)", "NewRegMatchField(1,255,NXRange(0,7))", "NewCTZoneMatchField(9)", "NewTunMetadataField(0,x01020304,xffffffff)",
		"NewCTLabelMatchField(x0102030405060708090a0b0c0d0e0f10,~)", "NewNxARPShaMatchField(x010203040506,x)", "NewNxARPSpaMatchField(x0a000001,xffffffff)",
		"NewArpShaField(x010203040506)", "NewArpTpaField(x0a000001)", "NewTcpFlagsField(2,2)", "NewActsetOutputField(3)", "NewConjIDMatchField(77)",
		"NewTunMetadataField(1," + seqBytes(124) + "," + seqBytes(124) + ")", "NewMplsBosField(1)", "NewUdpSrcField(53)", "NewIcmpTypeField(8)",
	}
	for _, n := range []int{1, 2, 3, 7} {
		for rep := 0; rep < 6; rep++ {
			p := "m=NewMatch()"
			for i := 0; i < n; i++ {
				call := calls[(rep*7+i*(rep+1))%len(calls)]
				p += fmt.Sprintf(";f%d=%s;$m.AddField(*$f%d)", i, call, i)
			}
			c.run("prog", p+";!m")
			if b := marshalProg(p, "m"); b != nil {
				if rep < 2 {
					c.decCases("dec", "Match", b)
				} else {
					c.decCase("dec", "Match", b, 0)
					c.decCase("dec", "Match", b, 24)
				}
			}
		}
	}
	for _, call := range calls {
		p := "m=NewMatch();f=" + call + ";$m.AddField(*$f)"
		c.run("prog", p+";!m")
		if b := marshalProg(p, "m"); b != nil {
			c.decCase("dec", "Match", b, 0)
			c.decCase("dec", "Match", b, 24)
		}
	}
	c.run("prog", "m=NewMatch();$m.AddField("+mfTerm(clsBasic, 0, 0, 4, 0, "~", "~")+");!m")
	c.run("prog", "m=NewMatch();$m.AddField("+mfTerm(clsBasic, 0, 0, 4, 7, "InPortField(1)", "~")+");!m")
	c.run("prog", "m=Match(1,65530,[]);f=NewIpv6SrcField(x,x);$m.AddField(*$f);!m")
	c.run("prog", "m=Match(0,0,[]);f=NewInPortField(1);$m.AddField(*$f);g=NewInPortField(2);$m.AddField(*$g);!m")

	// ---- FindFieldHeaderByName -----------------------------------------------------------------------------------
	for _, nm := range registryNames {
		c.run("fn", "FindFieldHeaderByName", "x"+fmt.Sprintf("%x", nm), 0)
		c.run("fn", "FindFieldHeaderByName", "x"+fmt.Sprintf("%x", nm), 1)
	}
	for _, nm := range []string{"nxm_nx_reg0", "Nxm_Nx_Tun_Metadata7", "oxm_of_in_port", "", "NXM_NX_REG16", "NXM_NX_REG", " NXM_NX_REG0", "NXM_NX_REG0 ", "OXM_OF_PBB_UCA", "nxm_of_arp_spa", "NXM-NX-REG0", "in_port",
		"oxm_of_tcp_\xc5\xbfrc", "nxm_nx_\xc4\xb1pv6_src", "NXM_NX_REG0\xff", "NXM_NX_REG0\xc5", "NXM_NX_R\xc3\x89G0", "oxm_of_\xc4\xb1pv6_\xc5\xbfrc", "\xe0\xc5\xbfxm", "OXM_OF_IN_PORT\x00", "\xe2\x84\xaa"} {
		c.run("fn", "FindFieldHeaderByName", "x"+fmt.Sprintf("%x", nm), 0)
		c.run("fn", "FindFieldHeaderByName", "x"+fmt.Sprintf("%x", nm), 1)
	}

	// ---- DecodeMatchField: the whole dispatch ---------------------------------------------------------------------
	data32 := seqBytes(32)
	for _, cls := range []int{clsBasic, clsNxm1, clsExp, 0, 2, 0x8001, 0xfffe} {
		maxField := 128
		if cls != clsBasic && cls != clsNxm1 && cls != clsExp {
			maxField = 4
		}
		for f := 0; f < maxField; f++ {
			for hm := 0; hm < 2; hm++ {
				c.run("fn", "DecodeMatchField", cls, f, 16, hm, data32)
				if hm == 0 {
					c.run("fn", "DecodeMatchField", cls, f, 0, hm, "x")
				}
			}
		}
	}
	for _, f := range []int{40, 47, 111, 114} {
		for _, l := range []int{0, 1, 2, 31, 32, 33, 64, 65, 255} {
			for hm := 0; hm < 2; hm++ {
				c.run("fn", "DecodeMatchField", clsNxm1, f, l, hm, data32)
			}
		}
	}
	for _, r := range mfRows {
		if r.kind == "" {
			continue
		}
		for _, n := range []int{1, 2, 3, 4, 5, 6, 7, 8, 15, 16, 17} {
			c.run("fn", "DecodeMatchField", r.cls, r.field, n, 0, seqBytes(n))
		}
	}

	// ---- NewMulitiRegMatch (only inputs with ONE distinct Field: the result order of the Go map is random otherwise) ---
	reg := func(field, hm int, val, mask string) string {
		return mfTerm(clsNxm1, field, hm, 8, 0, val, mask)
	}
	u32 := func(v uint32) string { return fmt.Sprintf("Uint32Message(%d)", v) }
	c.run("fn", "NewMulitiRegMatch")
	c.run("fn", "NewMulitiRegMatch", reg(1, 1, u32(0xff), u32(0xff)))
	c.run("fn", "NewMulitiRegMatch", reg(1, 0, u32(5), "~"))
	c.run("fn", "NewMulitiRegMatch", "~")
	for _, a := range [][4]uint32{{0xff, 0xff, 0xab00, 0xff00}, {0xab00, 0xff00, 0xff, 0xff}, {0x1, 0xf0, 0x2, 0xf}, {0x2, 0xf, 0x1, 0xf0}, {0xa, 0xf0, 0xb, 0xf00}, {1, 0, 2, 0},
		{1, 0, 2, 0x80000000}, {3, 0x80000000, 1, 1}, {0xffffffff, 0xffff0000, 0xffffffff, 0xffff}, {7, 0x100, 9, 0x100}} {
		c.run("fn", "NewMulitiRegMatch", reg(2, 1, u32(a[0]), u32(a[1])), reg(2, 1, u32(a[2]), u32(a[3])))
		c.run("fn", "NewMulitiRegMatch", reg(2, 0, u32(a[0]), u32(a[1])), reg(2, 1, u32(a[2]), u32(a[3])), reg(2, 0, u32(a[2]), u32(a[1])))
	}
	c.run("fn", "NewMulitiRegMatch", reg(2, 1, u32(1), u32(1)), reg(2, 0, u32(2), "~"))
	c.run("fn", "NewMulitiRegMatch", reg(2, 0, u32(1), "~"), reg(2, 1, u32(2), u32(2)))
	c.run("fn", "NewMulitiRegMatch", reg(2, 1, u32(1), u32(1)), reg(2, 1, "Uint16Message(2)", u32(2)))
	c.run("fn", "NewMulitiRegMatch", reg(2, 1, u32(1), u32(1)), reg(2, 1, u32(2), "Uint16Message(2)"))
	c.run("fn", "NewMulitiRegMatch", reg(2, 1, u32(1), u32(1)), "~")
}

// marshalProgLen: 4 + Σ Len() of the fields in the list term (what Match.AddField would have accumulated)
func marshalProgLen(fields string) int {
	inner := strings.TrimSuffix(strings.TrimPrefix(fields, "["), "]")
	if inner == "" {
		return 4
	}
	n := 4
	for _, f := range splitArgs(inner) {
		fb := marshalTerm(f)
		if fb == nil {
			return 0
		}
		n += len(fb)
	}
	return n & 0xffff
}

var registryNames = []string{
	"NXM_OF_IN_PORT", "NXM_OF_ETH_DST", "NXM_OF_ETH_SRC", "NXM_OF_ETH_TYPE", "NXM_OF_VLAN_TCI", "NXM_OF_IP_TOS", "NXM_OF_IP_PROTO", "NXM_OF_IP_SRC",
	"NXM_OF_IP_DST", "NXM_OF_TCP_SRC", "NXM_OF_TCP_DST", "NXM_OF_UDP_SRC", "NXM_OF_UDP_DST", "NXM_OF_ICMP_TYPE", "NXM_OF_ICMP_CODE", "NXM_OF_ARP_OP",
	"NXM_OF_ARP_SPA", "NXM_OF_ARP_TPA",
	"NXM_NX_REG0", "NXM_NX_REG1", "NXM_NX_REG2", "NXM_NX_REG3", "NXM_NX_REG4", "NXM_NX_REG5", "NXM_NX_REG6", "NXM_NX_REG7", "NXM_NX_REG8", "NXM_NX_REG9",
	"NXM_NX_REG10", "NXM_NX_REG11", "NXM_NX_REG12", "NXM_NX_REG13", "NXM_NX_REG14", "NXM_NX_REG15", "NXM_NX_TUN_ID", "NXM_NX_ARP_SHA", "NXM_NX_ARP_THA",
	"NXM_NX_IPV6_SRC", "NXM_NX_IPV6_DST", "NXM_NX_ICMPV6_TYPE", "NXM_NX_ICMPV6_CODE", "NXM_NX_ND_TARGET", "NXM_NX_ND_SLL", "NXM_NX_ND_TLL", "NXM_NX_IP_FRAG",
	"NXM_NX_IPV6_LABEL", "NXM_NX_IP_ECN", "NXM_NX_IP_TTL", "NXM_NX_MPLS_TTL", "NXM_NX_TUN_IPV4_SRC", "NXM_NX_TUN_IPV4_DST", "NXM_NX_PKT_MARK", "NXM_NX_TCP_FLAGS",
	"NXM_NX_CONJ_ID", "NXM_NX_TUN_GBP_ID", "NXM_NX_TUN_GBP_FLAGS", "NXM_NX_TUN_FLAGS", "NXM_NX_CT_STATE", "NXM_NX_CT_ZONE", "NXM_NX_CT_MARK", "NXM_NX_CT_LABEL",
	"NXM_NX_TUN_IPV6_SRC", "NXM_NX_TUN_IPV6_DST", "NXM_NX_CT_NW_PROTO", "NXM_NX_CT_NW_SRC", "NXM_NX_CT_NW_DST", "NXM_NX_CT_IPV6_SRC", "NXM_NX_CT_IPV6_DST",
	"NXM_NX_CT_TP_SRC", "NXM_NX_CT_TP_DST", "NXM_NX_TUN_METADATA0", "NXM_NX_TUN_METADATA1", "NXM_NX_TUN_METADATA2", "NXM_NX_TUN_METADATA3", "NXM_NX_TUN_METADATA4",
	"NXM_NX_TUN_METADATA5", "NXM_NX_TUN_METADATA6", "NXM_NX_TUN_METADATA7", "NXM_NX_XXREG0", "NXM_NX_XXREG1", "NXM_NX_XXREG2", "NXM_NX_XXREG3",
	"OXM_OF_IN_PORT", "OXM_OF_IN_PHY_PORT", "OXM_OF_METADATA", "OXM_OF_ETH_DST", "OXM_OF_ETH_SRC", "OXM_OF_ETH_TYPE", "OXM_OF_VLAN_VID", "OXM_OF_VLAN_PCP",
	"OXM_OF_IP_DSCP", "OXM_OF_IP_ECN", "OXM_OF_IP_PROTO", "OXM_OF_IPV4_SRC", "OXM_OF_IPV4_DST", "OXM_OF_TCP_SRC", "OXM_OF_TCP_DST", "OXM_OF_UDP_SRC", "OXM_OF_UDP_DST",
	"OXM_OF_SCTP_SRC", "OXM_OF_SCTP_DST", "OXM_OF_ICMPV4_TYPE", "OXM_OF_ICMPV4_CODE", "OXM_OF_ARP_OP", "OXM_OF_ARP_SPA", "OXM_OF_ARP_TPA", "OXM_OF_ARP_SHA",
	"OXM_OF_ARP_THA", "OXM_OF_IPV6_SRC", "OXM_OF_IPV6_DST", "OXM_OF_IPV6_FLABEL", "OXM_OF_ICMPV6_TYPE", "OXM_OF_ICMPV6_CODE", "OXM_OF_IPV6_ND_TARGET",
	"OXM_OF_IPV6_ND_SLL", "OXM_OF_IPV6_ND_TLL", "OXM_OF_MPLS_LABEL", "OXM_OF_MPLS_TC", "OXM_OF_MPLS_BOS", "OXM_OF_PBB_ISID", "OXM_OF_TUNNEL_ID", "OXM_OF_IPV6_EXTHDR",
}
