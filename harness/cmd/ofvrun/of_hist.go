package main

// derived cases: histories of Len/MarshalBinary queries (C13), round trips (C05/C09), ownership (C12).
// They are derived from what the other generators produce: `api` programs are valid histories (the property oracles
// apply: ops rep / rtrip / rtparse / scribble); `enc` terms are arbitrary literals (correspondence only: repx / rtx).

import (
	"strings"
)

var apixs []string

func captureCases(seed int64, tier string) (encs, apis, parses []string) {
	apixs = nil
	ctx := &Ctx{rng: newRand(seed), tier: tier, stats: map[string]int{}}
	ctx.sink = func(op string, toks []string) {
		switch op {
		case "enc":
			encs = append(encs, strings.Join(toks, " "))
		case "api":
			apis = append(apis, strings.Join(toks, ""))
		case "apix":
			apixs = append(apixs, strings.Join(toks, ""))
		case "parse":
			parses = append(parses, strings.Join(toks, " "))
		}
	}
	for _, g := range ofGensBase {
		g(ctx)
	}
	return
}

var ofGensBase []func(*Ctx)

func isTopLevel(prog string) bool {
	// the observed variable was built by a constructor of a top-level message
	i := strings.LastIndex(prog, ";!")
	if i < 0 {
		return false
	}
	v := prog[i+2:]
	for _, ctor := range []string{"NewFlowMod(", "NewHello(", "NewEchoRequest(", "NewEchoReply(", "NewFeaturesRequest(", "NewConfigRequest(",
		"NewSetConfig(", "NewGroupMod(", "NewPacketOut(", "NewPortMod(", "MultipartRequest(", "NewSetControllerID(", "NewTLVTableModMessage(",
		"NewTLVTableRequest(", "NewBundleControl(", "NewBundleAdd("} {
		if strings.Contains(prog, v+"="+ctor) {
			return true
		}
	}
	return false
}

func init() {
	// runs after the other generators were registered (file name order: of_hist.go > of_action … but of_instr, of_match,
	// of_msg, of_proto come later); the family function snapshots ofGens lazily instead
	ofGens = append(ofGens, func(c *Ctx) {
		if len(ofGensBase) == 0 {
			for _, g := range ofGens {
				ofGensBase = append(ofGensBase, g)
			}
			// drop this generator itself (it is the one currently running) by marking re-entrancy
		}
		if histRunning {
			return
		}
		histRunning = true
		defer func() { histRunning = false }()
		encs, apis, parses := captureCases(int64(c.rng.Intn(1<<30)), c.tier)
		scripts := []string{"L", "M", "LL", "MM", "LM", "ML", "LML", "MLM", "LLMM", "MMLL", "LMLMLMLM", "MMMM", "LLLL", "MLLM"}
		for i, a := range apis {
			c.run("rep", scripts[c.rng.Intn(len(scripts))], a)
			if i%2 == 1 || c.thorough() {
				c.run("rep", "LMLM", a)
			}
			c.run("embed", a)
			c.run("repvia", a)
			if isTopLevel(a) {
				c.run("rtparse", a)
				// ownership (C12) of what Parse builds from the library's own encoding of an API-built message
				if j := strings.LastIndex(a, ";!"); j > 0 {
					if b := marshalProg(a[:j], a[j+2:]); len(b) >= 8 {
						c.run("scribble", hx(b), len(b))
					}
				}
			} else {
				c.run("rtrip", a)
			}
		}
		// late-growth histories: children intact and repeatable (implementation-side oracles)
		for _, a := range apixs {
			c.run("embed", a)
		}
		for i, e := range encs {
			if i%3 == 0 || c.thorough() {
				c.run("repx", scripts[c.rng.Intn(len(scripts))], e)
				c.run("repx", "LMLM", e) // a size asked before and after each encoding
				c.run("rtx", e)
			}
		}
		for i, p := range parses {
			if i%2 == 0 || len(t0(p)) < 600 || c.thorough() {
				t := strings.Fields(p)
				c.run("scribble", t[0], t[1])
			}
		}
	})
}

var histRunning bool

// t0: the first token (the hex frame) of a captured parse case
func t0(p string) string {
	if i := strings.IndexByte(p, ' '); i > 0 {
		return p[:i]
	}
	return p
}
