package main

// generator for the top-level messages and Parse:
//   openflow13.go (Parse, PacketOut, PacketIn, SwitchConfig, ErrorMsg, SwitchFeatures, VendorHeader, constructors),
//   port.go (PhyPort, PortMod), multipart.go (MultipartRequest/Reply and the stats bodies, PortStatus),
//   nxt_message.go (ControllerID, TLVTable*), bundles.go (BundleControl, BundlePropertyExperimenter, BundleAdd, VendorError)
// Child kinds are restricted to: Match with InPortField / EthDstField, ActionOutput / ActionHeader, InstrActions /
// InstrGotoTable, u.Buffer, p.Ethernet with a raw u.Buffer payload.

import (
	"encoding/binary"
	"fmt"
	"strings"
)

// ---- byte builder for hand-encoded (switch-originated) frames ----------------------------------------

type msgBB struct{ b []byte }

func (x *msgBB) u8(vs ...int) *msgBB {
	for _, v := range vs {
		x.b = append(x.b, byte(v))
	}
	return x
}
func (x *msgBB) u16(vs ...int) *msgBB {
	for _, v := range vs {
		x.b = append(x.b, byte(v>>8), byte(v))
	}
	return x
}
func (x *msgBB) u32(vs ...uint32) *msgBB {
	for _, v := range vs {
		x.b = binary.BigEndian.AppendUint32(x.b, v)
	}
	return x
}
func (x *msgBB) q(vs ...uint64) *msgBB {
	for _, v := range vs {
		x.b = binary.BigEndian.AppendUint64(x.b, v)
	}
	return x
}
func (x *msgBB) raw(b []byte) *msgBB { x.b = append(x.b, b...); return x }
func (x *msgBB) hex(s string) *msgBB { x.b = append(x.b, unhex(s)...); return x }
// padByte is what z writes; 0 except while the cross-talk op builds frames of a peer that does not clear its padding
var padByte byte

func (x *msgBB) z(n int) *msgBB {
	for i := 0; i < n; i++ {
		x.b = append(x.b, padByte)
	}
	return x
}

// seq appends n byte-distinct values starting at s
func (x *msgBB) seq(s, n int) *msgBB {
	for i := 0; i < n; i++ {
		x.b = append(x.b, byte(s+i))
	}
	return x
}

func nb() *msgBB { return &msgBB{} }

// ofFrame prepends an OpenFlow 1.3 header whose length field is correct.
func ofFrame(typ int, xid uint32, body []byte) []byte {
	return nb().u8(4, typ).u16(8 + len(body)).u32(xid).raw(body).b
}

// ofFrameL: explicit length field
func ofFrameL(typ, length int, xid uint32, body []byte) []byte {
	return nb().u8(4, typ).u16(length).u32(xid).raw(body).b
}

// ---- terms of the child kinds ---------------------------------------------------------------------------------

func msgHdr(typ, length int, xid uint32) string {
	return fmt.Sprintf("Header(4,%d,%d,%d)", typ, length, xid)
}

func msgActOut(port uint32, maxLen int) string {
	return fmt.Sprintf("ActionOutput(ActionHeader(0,16),%d,%d,x000000000000)", port, maxLen)
}

func msgActs(n int) string {
	var xs []string
	for i := 0; i < n; i++ {
		switch i % 3 {
		case 0:
			xs = append(xs, msgActOut(uint32(i+1), 256))
		case 1:
			xs = append(xs, msgActOut(0xfffffffd, 0xffff))
		default:
			xs = append(xs, "ActionOutput(ActionHeader(0,16),287454020,4660,x)") // nil pad
		}
	}
	return "[" + strings.Join(xs, ",") + "]"
}

const (
	msgFInPort  = "MatchField(32768,0,0,4,0,InPortField(7),~)"
	msgFInPort2 = "MatchField(32768,0,0,4,0,InPortField(4294967293),~)"
	msgFEthDst  = "MatchField(32768,3,0,6,0,EthDstField(x0a0b0c0d0e0f),~)"
	msgFEthDstM = "MatchField(32768,3,1,12,0,EthDstField(x0a0b0c0d0e0f),EthDstField(xffffff000000))"
)

// msgMatch(k): k = 0 empty, 1 in_port, 2 in_port+eth_dst, 3 masked eth_dst, 4 three fields
func msgMatch(k int) string {
	switch k {
	case 0:
		return "Match(1,4,[])"
	case 1:
		return "Match(1,12,[" + msgFInPort + "])"
	case 2:
		return "Match(1,22,[" + msgFInPort + "," + msgFEthDst + "])"
	case 3:
		return "Match(1,20,[" + msgFEthDstM + "])"
	default:
		return "Match(1,30,[" + msgFInPort2 + "," + msgFEthDst + "," + msgFInPort + "])"
	}
}

// hand-encoded ofp_match, padded to 8
func msgMatchBytes(k int) []byte {
	x := nb()
	switch k {
	case 0:
		x.u16(1, 4).z(4)
	case 1:
		x.u16(1, 12).hex("80000004").u32(7).z(4)
	case 2:
		x.u16(1, 22).hex("80000004").u32(7).hex("80000606").hex("0a0b0c0d0e0f").z(2)
	case 3:
		x.u16(1, 20).hex("8000070c").hex("0a0b0c0d0e0f").hex("ffffff000000").z(4)
	default:
		x.u16(1, 30).hex("80000004").u32(0xfffffffd).hex("80000606").hex("0a0b0c0d0e0f").hex("80000004").u32(7).z(2)
	}
	return x.b
}

func msgInstrs(n int) string {
	var xs []string
	for i := 0; i < n; i++ {
		switch i % 3 {
		case 0:
			xs = append(xs, fmt.Sprintf("InstrActions(InstrHeader(4,%d),x00000000,%s)", 8+16*(i%2+1), msgActs(i%2+1)))
		case 1:
			xs = append(xs, "InstrGotoTable(InstrHeader(1,8),5,x000000)")
		default:
			xs = append(xs, "InstrActions(InstrHeader(3,8),x00000000,[])")
		}
	}
	return "[" + strings.Join(xs, ",") + "]"
}

func msgInstrBytes(n int) []byte {
	x := nb()
	for i := 0; i < n; i++ {
		switch i % 3 {
		case 0:
			k := i%2 + 1
			x.u16(4, 8+16*k).z(4)
			for j := 0; j < k; j++ {
				x.u16(0, 16).u32(uint32(j + 1)).u16(256).z(6)
			}
		case 1:
			x.u16(1, 8).u8(5).z(3)
		default:
			x.u16(3, 8).z(4)
		}
	}
	return x.b
}

// pktImages: Ethernet frames that exercise every payload decoder reachable from a packet-in: tagged / untagged,
// IPv4 (ICMP, UDP, options + other protocol), ARP, IPv6 (ICMPv6, UDP, hop-by-hop, routing, fragment and a chain of the
// three), unknown ethertype.
func pktImages() [][]byte {
	eth := func(vlan bool, etype int) *msgBB {
		x := nb().hex("ffffffffffff").hex("0a0b0c0d0e0f")
		if vlan {
			x.u16(0x8100, 3<<13|100)
		}
		return x.u16(etype)
	}
	ip4 := func(ihl, proto int, payload []byte, opts string) []byte {
		return nb().u8(4<<4|ihl, 0x2e).u16(4*ihl+len(payload), 0x1234, 0x4000).u8(64, proto).u16(0xabcd).hex("0a000001").hex("0a000002").hex(opts).raw(payload).b
	}
	icmp := nb().u8(8, 0).u16(0x1111).hex("000100020a0b0c0d0e0f1011").b
	udp := func(n int) []byte { return nb().u16(1000, 2000, 8+n, 0x2222).raw(protoSeqBytes(n, 0x30)).b }
	ip6 := func(nh int, payload []byte) []byte {
		return nb().hex("6abcdef0").u16(len(payload)).u8(nh, 63).hex("20010db8000000000000000000000001").hex("20010db8000000000000000000000002").raw(payload).b
	}
	hbh := func(nh int) []byte { return nb().u8(nh, 0).hex("010400000000").b }
	rt := func(nh int) []byte {
		return nb().u8(nh, 2, 0, 1).hex("00000000").hex("20010db80000000000000000000000aa").b
	}
	frag := func(nh int) []byte { return nb().u8(nh, 0).u16(185<<3 | 1).u32(0xcafebabe).b }
	cat := func(bs ...[]byte) []byte {
		var o []byte
		for _, b := range bs {
			o = append(o, b...)
		}
		return o
	}
	icmp6 := nb().u8(128, 0).u16(0x3333).hex("00010002aabbccdd").b
	var out [][]byte
	out = append(out,
		eth(false, 0x0800).raw(ip4(5, 1, icmp, "")).b,
		eth(true, 0x0800).raw(ip4(5, 17, udp(12), "")).b,
		eth(false, 0x0800).raw(ip4(6, 2, nb().hex("1164ee9b00000000").b, "94040000")).b,
		eth(false, 0x0806).hex("0001080006040001").hex("0a0b0c0d0e0f").hex("0a000001").hex("000000000000").hex("0a000002").b,
		eth(false, 0x86dd).raw(ip6(58, icmp6)).b,
		eth(true, 0x86dd).raw(ip6(17, udp(5))).b,
		eth(false, 0x86dd).raw(ip6(0, cat(hbh(17), udp(3)))).b,
		eth(false, 0x86dd).raw(ip6(43, cat(rt(58), icmp6))).b,
		eth(false, 0x86dd).raw(ip6(44, cat(frag(17), udp(9)))).b,
		eth(true, 0x86dd).raw(ip6(0, cat(hbh(43), rt(44), frag(17), udp(7)))).b,
		eth(false, 0x88cc).hex("0207040a0b0c0d0e0f0403020001060200780000").b,
	)
	// hop-by-hop headers of 264 bytes whose first option has data length 253 / 254 / 255 (option sizes 255 / 256 / 257:
	// an option size computed in 8 bits would be 255 / 0 / 1)
	for _, ol := range []int{253, 254, 255} {
		h := nb().u8(17, 32).u8(1, ol).raw(protoSeqBytes(ol, 0x40))
		rest := 264 - len(h.b)
		if rest >= 2 {
			h.u8(1, rest-2).z(rest - 2)
		} else {
			h.z(rest)
		}
		out = append(out, eth(false, 0x86dd).raw(ip6(0, cat(h.b, udp(4)))).b)
	}
	return out
}

func msgEth(vlan bool, payload string) string {
	v := "p.VLAN(0,0,0,0)"
	if vlan {
		v = "p.VLAN(33024,5,1,291)"
	}
	return fmt.Sprintf("p.Ethernet(0,x010203040506,x0708090a0b0c,%s,34997,u.Buffer(x%s))", v, payload)
}

func msgEthBytes(vlan bool, payload string) []byte {
	x := nb().hex("010203040506").hex("0708090a0b0c")
	if vlan {
		x.u16(0x8100, 5<<13|1<<12|291)
	}
	return x.u16(34997).hex(payload).b
}

func msgPhyPort(i int) string {
	return fmt.Sprintf("PhyPort(%d,x00000000,x0a0b0c0d0e%02x,x0000,x%s,1,2,3,4,5,6,%d,4294967295)",
		i, i, hx(append([]byte(fmt.Sprintf("eth%d", i)), make([]byte, 12)...)), 1000*i)
}

func msgPhyPortBytes(i int) []byte {
	return nb().u32(uint32(i)).z(4).hex("0a0b0c0d0e").u8(i).z(2).raw([]byte(fmt.Sprintf("eth%d", i))).z(12).
		u32(1, 2, 3, 4, 5, 6, uint32(1000*i), 0xffffffff).b
}

// ---- lighter variant set for long encodings -----------------------------------------------------------------------

// msgZeroType counts the parse variants whose type byte was mutated to 0 (Hello: the element loop spins on junk);
// only a few representatives of that class are kept.
var msgZeroType int

func (c *Ctx) msgEmit(op, target string, orig, v []byte, spare int) {
	if op == "parse" && len(orig) > 1 && orig[1] != 0 && len(v) > 8 && v[1] == 0 {
		msgZeroType++
		if msgZeroType > 6 {
			return
		}
	}
	c.decCase(op, target, v, spare)
}

// decLite: like decCases but sub-sampled: truncations (all below 24, then every 8th) with exact and spare capacity;
// per byte below `mut` the values 0xff and +1 (also 0 for the first 8) with alternating capacity; one random corruption.
func (c *Ctx) decLite(op, target string, b []byte, mut int) {
	if c.thorough() {
		c.decCases(op, target, b)
		return
	}
	c.msgEmit(op, target, b, b, 0)
	c.msgEmit(op, target, b, b, 24)
	for i := 0; i < len(b); i++ {
		if i < 24 || i%8 == 0 {
			c.msgEmit(op, target, b, b[:i], 0)
			c.msgEmit(op, target, b, b[:i], 24)
		}
	}
	k := 0
	for i := 0; i < len(b) && i < mut; i++ {
		vals := []byte{0xff, b[i] + 1}
		if i < 8 {
			vals = append(vals, 0)
		}
		for _, v := range vals {
			if v != b[i] {
				m := append([]byte(nil), b...)
				m[i] = v
				c.msgEmit(op, target, b, m, 24*(k%2))
				k++
			}
		}
	}
	if len(b) > 0 {
		m := append([]byte(nil), b...)
		m[c.rng.Intn(len(m))] = byte(c.rng.Intn(256))
		c.msgEmit(op, target, b, m, 24)
	}
}

// decFull: every variant (decCases) for short encodings, except the surplus of type-0 parse variants
func (c *Ctx) decFull(op, target string, b []byte) {
	for _, v := range c.variants(b) {
		c.msgEmit(op, target, b, v, 0)
		c.msgEmit(op, target, b, v, 24)
	}
}

// decFew: the string, a handful of truncations, exact and spare capacity
func (c *Ctx) decFew(op, target string, b []byte) {
	ls := map[int]bool{len(b): true, 0: true, 1: true, 2: true, 4: true, 7: true, 8: true, 9: true, 15: true, 16: true,
		17: true, 24: true, len(b) - 1: true, len(b) / 2: true}
	if c.thorough() {
		for _, l := range []int{3, 12, 32, 40, 48, 56, 64, len(b) - 2, len(b) - 4, len(b) - 8} {
			ls[l] = true
		}
	}
	for l := 0; l <= len(b); l++ {
		if ls[l] {
			c.decCase(op, target, b[:l], 0)
			c.decCase(op, target, b[:l], 24)
		}
	}
}

// encDecLite: enc + decLite
func (c *Ctx) encDecLite(kind, term string, mut int) {
	c.run("enc", term)
	if b := marshalTerm(term); b != nil {
		c.decLite("dec", kind, b, mut)
	}
}

func init() {
	ofGens = append(ofGens, func(c *Ctx) {
		genMsgKinds(c)
		genMsgStats(c)
		genMsgVendor(c)
		genMsgProgs(c)
		genMsgParse(c)
	})
}

// ---- openflow13.go / port.go kinds ---------------------------------------------------------------------------------

func genMsgKinds(c *Ctx) {
	// SwitchConfig
	c.encDec("SwitchConfig", "SwitchConfig(Header(4,9,12,7),3,65535)")
	c.run("enc", "SwitchConfig(Header(4,8,0,4294967295),0,0)")
	c.run("enc", "SwitchConfig(Header(255,9,65535,1),65535,1)")
	c.run("enc", "SwitchConfig(Header(1,0,1,287454020),4660,22136)")
	c.decFew("decc", "NewSetConfig", unhex("0409000c00000007000100ff"))

	// ErrorMsg (Header.Length is never updated) / VendorError (embedded *ErrorMsg may be nil)
	c.encDec("ErrorMsg", "ErrorMsg(Header(4,1,12,7),1,2,u.Buffer(x))")
	c.encDecLite("ErrorMsg", "ErrorMsg(Header(4,1,0,7),65535,65534,u.Buffer(x0405000800000001))", 16)
	c.run("enc", "ErrorMsg(Header(4,1,99,7),0,1,u.Buffer(x"+strings.Repeat("ab", 70)+"))")
	c.decFew("decc", "NewErrorMsg", unhex("0401001000000007000500010102030405060708"))
	c.encDec("VendorError", "VendorError(ErrorMsg(Header(4,1,16,7),65535,2308,u.Buffer(x)),1330529792)")
	c.encDecLite("VendorError", "VendorError(ErrorMsg(Header(4,1,0,9),65535,1,u.Buffer(x0102030405)),4294967295)", 20)
	c.run("enc", "VendorError(ErrorMsg(Header(4,1,16,7),3,4,u.Buffer(xff)),0)")
	c.run("enc", "VendorError(~,5)")
	c.decFew("decc", "NewBundleError", unhex("04010014000000ffffff09044f4e460001020304"))

	// PhyPort: constructor sizes, nil pads, odd sizes
	c.encDecLite("PhyPort", msgPhyPort(1), 48)
	c.run("enc", msgPhyPort(255))
	c.run("enc", "PhyPort(4294967295,x,x,x,x,0,0,0,0,0,0,0,0)")
	c.run("enc", "PhyPort(1,x01020304,x0a0b0c0d0e0f,x0506,x65746831,4294967295,4294967294,1,2,3,4,5,6)")
	c.run("enc", "PhyPort(1,x0102030405060708,x0a0b0c,x050607,x"+strings.Repeat("41", 20)+",9,8,7,6,5,4,3,2)")
	c.run("enc", "PhyPort(1,x,x0a0b0c0d0e0f0102,x,x,1,2,3,4,5,6,7,8)")
	c.decLite("decc", "NewPhyPort", msgPhyPortBytes(3), 40)
	c.decFew("dec", "PhyPort", msgPhyPortBytes(4))

	// PortMod (constructor does not draw a header)
	c.encDecLite("PortMod", "PortMod(Header(4,16,40,7),3,x00000000,x0a0b0c0d0e0f,x0000,1,2,3,x00000000)", 40)
	c.run("enc", "PortMod(Header(0,16,0,0),4294967295,x,x,x,4294967295,0,1,x)")
	c.run("enc", "PortMod(Header(4,16,40,7),3,x0102030405,x0a0b0c0d0e0f1011,x2122,1,2,3,x3132333435)")
	c.run("enc", "PortMod(Header(4,16,40,7),3,x01,x0a0b,x21,287454020,1432778632,2578103244,x31)")
	for _, p := range []uint64{0, 1, 65535, 4294967295, 4294967296, 1 << 40} {
		c.run("prog", fmt.Sprintf("m=NewPortMod(%d);$m.Xid=7;!m", p))
	}
	c.run("prog", "m=NewPortMod(3);$m.Xid=7;$m.Config=1;$m.Mask=1;$m.Advertise=4294967295;$m.HWAddr=x0a0b0c0d0e0f;!m")

	// SwitchFeatures: DPID counted but not written, ports appended
	for _, n := range []int{0, 1, 2, 3, 7} {
		var ps []string
		for i := 0; i < n; i++ {
			ps = append(ps, msgPhyPort(i+1))
		}
		t := fmt.Sprintf("SwitchFeatures(Header(4,6,0,7),x0102030405060708,256,254,1,x0000,79,4294967295,[%s])", strings.Join(ps, ","))
		if n == 1 {
			c.encDecLite("SwitchFeatures", t, 40)
		} else {
			c.run("enc", t)
		}
	}
	c.encDecLite("SwitchFeatures", "SwitchFeatures(Header(4,6,32,7),x,1,2,3,x,4,5,[])", 24)
	c.run("enc", "SwitchFeatures(Header(4,6,32,7),x0102,1,2,3,x0a0b0c,4,5,[PhyPort(1,x,x,x,x,0,0,0,0,0,0,0,0)])")

	// PacketIn: the encoder writes the cookie over buffer id / total len / reason / table id
	for k := 0; k < 5; k++ {
		t := fmt.Sprintf("PacketIn(Header(4,10,0,7),%d,%d,%d,%d,%d,%s,x%s,%s)", []uint32{4294967295, 0, 1, 287454020, 4294967294}[k],
			[]int{0, 1, 65535, 4660, 60}[k], k%3, []int{0, 1, 255, 254, 17}[k],
			[]uint64{0, 1, 0xffffffffffffffff, 0x1122334455667788, 0xfffffffffffffffe}[k], msgMatch(k), []string{"", "0000", "0102", "01", "010203"}[k],
			msgEth(k%2 == 1, strings.Repeat("c5", k*3)))
		if k == 2 {
			c.encDecLite("PacketIn", t, 48)
		} else {
			c.run("enc", t)
		}
	}
	c.decLite("decc", "NewPacketIn", ofFrame(10, 7, nb().u32(9).u16(60).u8(1, 2).q(3).raw(msgMatchBytes(2)).hex("0102").raw(msgEthBytes(true, "c1c2c3")).b), 48)
	// packet-in frames carrying real packets: every payload decoder, through Parse (and, derived from these, the
	// ownership check that overwrites the input buffer afterwards)
	for i, pk := range pktImages() {
		fr := ofFrame(10, uint32(100+i), nb().u32(uint32(i)).u16(len(pk)).u8(i%3, i).q(uint64(i)*0x0101010101010101).raw(msgMatchBytes(i%4)).z(2).raw(pk).b)
		c.decLite("parse", "", fr, 8)
		c.decFew("dec", "p.Ethernet", pk)
	}
	c.decLite("decc", "NewFeaturesReply", ofFrame(6, 7, append(nb().hex("0000010203040506").u32(256).u8(254, 0).hex("0102").u32(0x4f, 0).b, msgPhyPortBytes(1)...)), 40)
	c.run("enc", "PacketIn(Header(4,10,0,7),1,2,3,4,5,Match(1,4,[]),x,p.Ethernet(0,x,x,p.VLAN(0,0,0,0),0,~))")
	c.run("enc", "PacketIn(Header(4,10,0,7),1,2,3,4,5,Match(1,4,[]),x,p.Ethernet(0,x01,x0203,p.VLAN(33024,7,1,4095),2,u.Buffer(x0a)))")

	// PacketOut: 0,1,2,3,7 actions, with/without data, nil data, nil action, stale ActionsLen
	for _, n := range []int{0, 1, 2, 3, 7} {
		t := fmt.Sprintf("PacketOut(Header(4,13,0,7),4294967295,%d,%d,x000000000000,%s,u.Buffer(x%s))", []uint32{4294967295, 1, 4294967293}[n%3],
			16*n, msgActs(n), strings.Repeat("e7", n*2))
		if n == 2 {
			c.encDecLite("PacketOut", t, 48)
		} else {
			c.run("enc", t)
			if b := marshalTerm(t); b != nil {
				c.decFew("dec", "PacketOut", b)
			}
		}
	}
	c.run("enc", "PacketOut(Header(4,13,0,7),1,2,3,x,[],~)")
	c.run("enc", "PacketOut(Header(4,13,0,7),1,2,65535,x0102,[~],u.Buffer(x))")
	c.run("enc", "PacketOut(Header(4,13,0,7),1,2,0,x,[ActionHeader(11,4),ActionHeader(12,8)],u.Buffer(x01))")
	c.run("enc", "PacketOut(Header(4,13,0,7),1,2,0,x,[],"+msgEth(false, "0102")+")")
	c.run("enc", "PacketOut(Header(4,13,0,7),1,2,0,x,[],Header(4,2,8,1))")
	c.run("enc", "PacketOut(Header(4,13,0,7),1,2,0,x,[],PacketOut(Header(4,13,0,8),1,2,0,x,[],u.Buffer(x0102)))")
	// decoder loop `for n < n+ActionsLen`: zero length, running off the end, action that cannot be decoded
	po := nb().u32(0xffffffff, 1).u16(0).z(6).b
	c.decFew("dec", "PacketOut", ofFrame(13, 7, po))
	c.decFew("decc", "NewPacketOut", ofFrame(13, 7, append(nb().u32(0xffffffff, 1).u16(16).z(6).b, unhex("00000010000000010100000000000000"+"0102")...)))
	c.decFew("dec", "PacketOut", ofFrame(13, 7, append(nb().u32(0xffffffff, 1).u16(65535).z(6).b, unhex("00000010000000010100000000000000")...)))
	c.decFew("dec", "PacketOut", ofFrame(13, 7, append(nb().u32(0xffffffff, 1).u16(8).z(6).b, unhex("000b0004"+"0063000800000000")...)))
	c.decFew("dec", "PacketOut", ofFrame(13, 7, append(nb().u32(0xffffffff, 1).u16(65528).z(6).b, unhex("000b0004000c0004")...)))
}

// ---- multipart.go ---------------------------------------------------------------------------------------------------

func msgFlowStats(i int) string {
	return fmt.Sprintf("FlowStats(%d,%d,0,%d,%d,%d,%d,%d,%d,x00000000,%d,%d,%d,%s,%s)", 0, i, 10*i, 1000*i, 100+i, i, 2*i, i%2, uint64(i)<<40|7,
		uint64(i)*1000, uint64(i)*64000, msgMatch(i%5), msgInstrs(i%4))
}

// hand-encoded ofp_flow_stats with a correct length
func msgFlowStatsBytes(i int) []byte {
	m := msgMatchBytes(i % 5)
	ins := msgInstrBytes(i % 4)
	return nb().u16(48+len(m)+len(ins)).u8(i, 0).u32(uint32(10*i), uint32(1000*i)).u16(100+i, i, 2*i, i%2).z(4).
		q(uint64(i)<<40|7, uint64(i)*1000, uint64(i)*64000).raw(m).raw(ins).b
}

func genMsgStats(c *Ctx) {
	// DescStats (1056 bytes): constructor sizes, nil, short and over-long strings
	d256 := func(s string) string { return hx(append([]byte(s), make([]byte, 256-len(s))...)) }
	desc := fmt.Sprintf("DescStats(x%s,x%s,x%s,x%s,x%s)", d256("Nicira, Inc."), d256("Open vSwitch"), d256("2.9.0"),
		hx(append([]byte("None"), make([]byte, 28)...)), d256("dp"))
	c.run("enc", desc)
	if b := marshalTerm(desc); b != nil {
		c.decFew("dec", "DescStats", b)
		c.decFew("decc", "NewDescStats", b)
		c.decCase("decc", "NewDescStats", b[:300], 0)
		c.decCase("decc", "NewDescStats", b[:800], 24)
		c.decCase("decc", "NewDescStats", b[:1055], 0)
	}
	c.run("enc", "DescStats(x,x,x,x,x)")
	c.run("enc", "DescStats(x0102,x03,x,x0405,x06)")
	c.run("enc", "DescStats(x"+strings.Repeat("11", 600)+",x"+strings.Repeat("22", 400)+",x33,x,x"+strings.Repeat("44", 100)+")")
	c.run("enc", "DescStats(x"+strings.Repeat("11", 1056)+",x22,x,x,x)")
	c.run("enc", "DescStats(x"+strings.Repeat("11", 1057)+",x,x,x,x)")
	c.run("enc", "DescStats(x"+strings.Repeat("11", 1056)+",x,x,x,x01)")

	// FlowStatsRequest / AggregateStatsRequest
	for k := 0; k < 5; k++ {
		for _, kind := range []string{"FlowStatsRequest", "AggregateStatsRequest"} {
			t := fmt.Sprintf("%s(%d,x%s,%d,%d,x%s,%d,%d,%s)", kind, []int{0, 255, 1, 254, 17}[k], []string{"000000", "", "010203", "01", "0102030405"}[k],
				[]uint32{4294967295, 0, 1, 287454020, 4294967294}[k], []uint32{4294967295, 1, 0, 1432778632, 7}[k],
				[]string{"00000000", "", "01020304", "0102", "010203040506"}[k],
				[]uint64{0, 1, 0xffffffffffffffff, 0x1122334455667788, 0xfffffffffffffffe}[k], []uint64{0, 0xffffffffffffffff, 1, 0x8877665544332211, 2}[k], msgMatch(k))
			if k == 2 || k == 3 {
				c.encDecLite(kind, t, 48)
			} else {
				c.run("enc", t)
			}
		}
	}
	// a Match that fails after one good field: the error is returned (flow) or dropped (aggregate), the partial match stays
	bad := append(nb().u8(5).z(3).u32(1, 2).z(4).q(3, 4).b, nb().u16(1, 20).hex("80000004").u32(7).hex("80000204").u32(9).z(4).b...)
	for _, kind := range []string{"FlowStatsRequest", "AggregateStatsRequest"} {
		c.decFew("dec", kind, bad)
		c.decFew("decc", "New"+kind, bad)
		c.decFew("decc", "New"+kind, append(nb().u8(5).hex("010203").u32(1, 2).hex("04050607").q(3, 4).b, msgMatchBytes(2)...))
	}

	// FlowStats
	for i := 0; i < 8; i++ {
		t := msgFlowStats(i)
		if i == 3 || i == 6 {
			c.encDecLite("FlowStats", t, 48)
		} else {
			c.run("enc", t)
		}
	}
	c.run("enc", "FlowStats(65535,255,255,4294967295,4294967294,65535,65534,1,2,x,18446744073709551615,1,2,Match(1,4,[]),[])")
	c.run("enc", "FlowStats(1,2,3,4,5,6,7,8,9,x0102030405,10,11,12,Match(1,4,[]),[])")
	c.run("enc", "FlowStats(1,2,3,4,5,6,7,8,9,x0102,10,11,12,Match(1,4,[]),[~])")
	for i := 0; i < 6; i++ {
		if i%2 == 1 {
			c.decLite("dec", "FlowStats", msgFlowStatsBytes(i), 20)
		} else {
			c.decFew("dec", "FlowStats", msgFlowStatsBytes(i))
		}
	}
	c.decLite("decc", "NewFlowStats", msgFlowStatsBytes(5), 56)
	// length field beyond / below the content, failing match followed by instructions
	fs := msgFlowStatsBytes(2)
	for _, l := range []int{0, 1, 47, 48, 56, 57, len(fs) - 1, len(fs) + 1, len(fs) + 8, 65535} {
		m := append([]byte(nil), fs...)
		binary.BigEndian.PutUint16(m, uint16(l))
		c.decCase("dec", "FlowStats", m, 0)
		c.decCase("dec", "FlowStats", m, 24)
	}
	// the match fails at its second field (in_phy_port); Match.Len() then counts one field only, so the instruction
	// loop starts right behind the failing field's header
	badFs := nb().u16(72).u8(1, 0).u32(1, 2).u16(3, 4, 5, 6).z(4).q(7, 8, 9).u16(1, 20).hex("80000004").u32(7).hex("80000204").
		u16(1, 8).u8(5).z(3).b
	c.decFew("dec", "FlowStats", badFs)
	c.decCase("dec", "FlowStats", badFs, 0)

	// AggregateStats, TableStats, PortStatsRequest, PortStats, QueueStatsRequest, QueueStats
	c.encDec("AggregateStats", "AggregateStats(1311768467463790320,18446744073709551615,4294967295,x00000000)")
	c.run("enc", "AggregateStats(0,1,2,x)")
	c.run("enc", "AggregateStats(0,1,2,x0102030405)")
	c.run("enc", "AggregateStats(0,1,2,x01)")
	c.decFew("decc", "NewAggregateStats", nb().q(1, 2).u32(3).hex("0a0b0c0d").b)

	name32 := hx(append([]byte("classifier"), make([]byte, 22)...))
	c.encDecLite("TableStats", "TableStats(254,x000000,x"+name32+",4194303,1000000,42,1311768467463790320,18446744073709551615)", 48)
	c.run("enc", "TableStats(1,x,x,2,3,4,5,6)")
	c.run("enc", "TableStats(1,x0102,x"+strings.Repeat("41", 40)+",2,3,4,5,6)")
	c.run("enc", "TableStats(1,x,x"+strings.Repeat("41", 63)+",2,3,4,5,6)")
	c.run("enc", "TableStats(1,x010203,x"+strings.Repeat("41", 33)+",2,3,4,5,6)")
	if b := marshalTerm("TableStats(254,x010203,x" + name32 + ",4194303,1000000,42,1311768467463790320,18446744073709551615)"); b != nil {
		c.decLite("decc", "NewTableStats", b, 8)
	}

	c.encDec("PortStatsRequest", "PortStatsRequest(65535,x000000000000)")
	c.run("enc", "PortStatsRequest(1,x)")
	c.run("enc", "PortStatsRequest(1,x01020304050607)")
	c.run("enc", "PortStatsRequest(4660,x0102)")
	c.decFew("decc", "NewPortStatsRequest", unhex("00070102030405060708"))

	ctr := "1,2,3,4,5,6,7,8,9,10,1311768467463790320,18446744073709551615"
	c.encDecLite("PortStats", "PortStats(65534,x000000000000,"+ctr+")", 24)
	c.run("enc", "PortStats(1,x,"+ctr+")")
	c.run("enc", "PortStats(1,x0102030405060708,"+ctr+")")
	c.run("enc", "PortStats(1,x01,"+ctr+")")
	if b := marshalTerm("PortStats(65534,x010203040506," + ctr + ")"); b != nil {
		c.decLite("decc", "NewPortStats", b, 12)
	}

	c.encDec("QueueStatsRequest", "QueueStatsRequest(65535,x0000,4294967295)")
	c.run("enc", "QueueStatsRequest(1,x,2)")
	c.run("enc", "QueueStatsRequest(1,x010203,287454020)")
	c.run("enc", "QueueStatsRequest(1,x0102030405060708,2)")
	c.decFew("decc", "NewQueueStatsRequest", unhex("000701020000000908"))

	c.encDecLite("QueueStats", "QueueStats(65535,x0000,4294967295,1311768467463790320,18446744073709551615,1)", 40)
	c.run("enc", "QueueStats(1,x,2,3,4,5)")
	c.run("enc", "QueueStats(1,x010203,2,3,4,5)")

	// PortStatus
	c.encDecLite("PortStatus", "PortStatus(Header(4,12,80,7),2,x00000000000000,"+msgPhyPort(2)+")", 32)
	c.run("enc", "PortStatus(Header(4,12,0,7),255,x,PhyPort(1,x,x,x,x,0,0,0,0,0,0,0,0))")
	c.run("enc", "PortStatus(Header(4,12,0,7),1,x0102030405060708,"+msgPhyPort(1)+")")
	c.run("enc", "PortStatus(Header(4,12,0,7),1,x01,"+msgPhyPort(1)+")")
	c.decLite("decc", "NewPortStatus", ofFrame(12, 7, append(nb().u8(1).seq(1, 7).b, msgPhyPortBytes(2)...)), 20)

	// MultipartRequest with every body kind (and bodies that are not request bodies)
	bodies := []struct {
		ty   int
		body string
	}{
		{1, "FlowStatsRequest(255,x000000,4294967295,4294967295,x00000000,0,0," + msgMatch(2) + ")"},
		{2, "AggregateStatsRequest(255,x000000,4294967295,4294967295,x00000000,1,2," + msgMatch(1) + ")"},
		{4, "PortStatsRequest(65535,x000000000000)"},
		{5, "QueueStatsRequest(65535,x0000,4294967295)"},
		{0, "u.Buffer(x)"},
		{3, "u.Buffer(x)"},
		{13, "u.Buffer(x)"},
		{65535, "u.Buffer(x0000232000000001)"},
		{0, desc},
		{1, msgFlowStats(1)},
		{3, "TableStats(1,x000000,x" + name32 + ",2,3,4,5,6)"},
		{12, "Header(4,2,8,1)"},
	}
	for i, b := range bodies {
		t := fmt.Sprintf("MultipartRequest(Header(4,18,0,%d),%d,%d,x00000000,%s)", 100+i, b.ty, i%2, b.body)
		if i < 5 {
			c.encDecLite("MultipartRequest", t, 20)
		} else {
			c.run("enc", t)
			if bs := marshalTerm(t); bs != nil && len(bs) < 200 {
				c.decFew("dec", "MultipartRequest", bs)
			}
		}
	}
	c.run("enc", "MultipartRequest(Header(4,18,0,7),1,0,x,~)")
	c.run("enc", "MultipartRequest(Header(4,18,0,7),1,0,x0102030405,u.Buffer(x01))")
	for ty := 0; ty <= 16; ty++ {
		c.decCase("dec", "MultipartRequest", ofFrame(18, 7, nb().u16(ty, 0).z(4).seq(1, 8).b), 0)
	}
	c.decCase("dec", "MultipartRequest", ofFrame(18, 7, nb().u16(65535, 0).z(4).seq(1, 8).b), 24)

	// MultipartReply: 0,1,2,3,7 records of every kind, mixed kinds, nil record
	recs := map[string]func(i int) string{
		"AggregateStats": func(i int) string { return fmt.Sprintf("AggregateStats(%d,%d,%d,x00000000)", i, 2*i, 3*i) },
		"TableStats":     func(i int) string { return fmt.Sprintf("TableStats(%d,x000000,x%s,1,2,%d,4,5)", i, name32, i) },
		"PortStats":      func(i int) string { return fmt.Sprintf("PortStats(%d,x000000000000,%s)", i, ctr) },
		"QueueStats":     func(i int) string { return fmt.Sprintf("QueueStats(%d,x0000,%d,3,4,5)", i, i) },
		"FlowStats":      msgFlowStats,
	}
	tys := map[string]int{"AggregateStats": 2, "TableStats": 3, "PortStats": 4, "QueueStats": 5, "FlowStats": 1}
	for _, kind := range []string{"AggregateStats", "TableStats", "PortStats", "QueueStats", "FlowStats"} {
		for _, n := range []int{0, 1, 2, 3, 7} {
			var rs []string
			for i := 0; i < n; i++ {
				rs = append(rs, recs[kind](i+1))
			}
			t := fmt.Sprintf("MultipartReply(Header(4,19,0,7),%d,%d,x00000000,[%s])", tys[kind], n%2, strings.Join(rs, ","))
			c.run("enc", t)
			if b := marshalTerm(t); b != nil && n <= 2 {
				if n == 2 {
					c.decLite("dec", "MultipartReply", b, 20)
				} else {
					c.decFew("dec", "MultipartReply", b)
				}
			}
		}
	}
	c.run("enc", "MultipartReply(Header(4,19,0,7),0,0,x,["+desc+"])")
	c.run("enc", "MultipartReply(Header(4,19,0,7),1,0,x00000000,["+msgFlowStats(1)+",AggregateStats(1,2,3,x),~])")
	c.run("enc", "MultipartReply(Header(4,19,0,7),1,0,x00000000,[~,"+msgFlowStats(1)+"])")
	c.run("enc", "MultipartReply(Header(4,19,0,7),65535,1,x0102,[u.Buffer(x0102),Header(1,2,3,4)])")
}

// ---- nxt_message.go / bundles.go ------------------------------------------------------------------------------------

func msgTlvMaps(n int) string {
	var xs []string
	for i := 0; i < n; i++ {
		xs = append(xs, fmt.Sprintf("TLVTableMap(%d,%d,%d,%d,x0000)", []int{65535, 258, 0, 1}[i%4], []int{128, 255, 0, 1}[i%4], 4*(i+1)%256, i))
	}
	return "[" + strings.Join(xs, ",") + "]"
}

// every message kind a BundleAdd (or a vendor header) can carry, as literal terms with correct Header.Length
func msgWrappable() []string {
	return []string{
		"Header(4,2,8,11)",
		"Hello(Header(4,0,16,12),[HelloElemVersionBitmap(HelloElemHeader(1,8),[16])])",
		"ErrorMsg(Header(4,1,14,13),1,2,u.Buffer(x0102))",
		"VendorError(ErrorMsg(Header(4,1,18,14),65535,2308,u.Buffer(x0102)),1330529792)",
		"SwitchConfig(Header(4,9,12,15),1,128)",
		"SwitchConfig(Header(4,8,12,15),1,128)",
		"SwitchFeatures(Header(4,6,32,16),x0102030405060708,256,254,0,x0000,79,0,[])",
		"PacketIn(Header(4,10,0,17),1,2,1,0,5," + msgMatch(1) + ",x0000," + msgEth(false, "0102") + ")",
		"PacketOut(Header(4,13,0,18),4294967295,1,16,x000000000000," + msgActs(1) + ",u.Buffer(x0102))",
		"FlowMod(Header(4,14,0,19),1,2,3,0,4,5,6,4294967295,4294967295,4294967295,1,x0000," + msgMatch(2) + "," + msgInstrs(2) + ")",
		"FlowMod(Header(4,14,0,19),1,2,3,3,4,5,6,4294967295,4294967295,4294967295,1,x," + msgMatch(0) + ",[])",
		"FlowRemoved(Header(4,11,0,20),1,2,3,4,5,6,7,8,9,10," + msgMatch(1) + ")",
		"PortStatus(Header(4,12,0,21),1,x00000000000000," + msgPhyPort(1) + ")",
		"PortMod(Header(4,16,40,22),3,x00000000,x0a0b0c0d0e0f,x0000,1,2,3,x00000000)",
		"MultipartRequest(Header(4,18,0,23),4,0,x00000000,PortStatsRequest(1,x000000000000))",
		"MultipartRequest(Header(4,18,0,23),0,0,x00000000,u.Buffer(x))",
		"MultipartReply(Header(4,19,0,24),2,0,x00000000,[AggregateStats(1,2,3,x00000000)])",
		"MultipartReply(Header(4,19,0,24),5,0,x00000000,[QueueStats(1,x0000,2,3,4,5),QueueStats(2,x0000,3,4,5,6)])",
		"VendorHeader(Header(4,4,16,25),8992,25,~)",
		"VendorHeader(Header(4,4,24,26),8992,20,ControllerID(x000000000000,5))",
		"VendorHeader(Header(4,4,24,27),1330529792,2300,BundleControl(1,4,3))",
		"VendorHeader(Header(4,4,32,28),1330529792,2301,BundleAdd(9,x0000,1,Header(4,20,8,29),[]))",
		"Header(4,99,8,30)",
		"u.Buffer(x0403000800000001)",
	}
}

func genMsgVendor(c *Ctx) {
	c.encDec("ControllerID", "ControllerID(x000000000000,65535)")
	c.run("enc", "ControllerID(x010203040506,4660)")
	c.run("enc", "ControllerID(x000000000000,0)")

	c.encDec("TLVTableMap", "TLVTableMap(65535,128,4,1,x0000)")
	c.run("enc", "TLVTableMap(258,255,124,65535,x0102)")
	c.run("enc", "TLVTableMap(0,0,0,0,x0000)")

	for _, n := range []int{0, 1, 2, 3, 7} {
		tm := fmt.Sprintf("TLVTableMod(%d,x000000000000,%s)", []int{0, 1, 2, 65535, 4660}[n%5], msgTlvMaps(n))
		tr := fmt.Sprintf("TLVTableReply(%d,%d,x00000000000000000000,%s)", []uint32{0, 256, 4294967295, 287454020}[n%4], []int{0, 64, 65535, 4660}[n%4], msgTlvMaps(n))
		if n == 2 {
			c.encDecLite("TLVTableMod", tm, 24)
			c.encDecLite("TLVTableReply", tr, 32)
		} else {
			c.run("enc", tm)
			c.run("enc", tr)
			if n < 2 {
				c.decFew("dec", "TLVTableMod", marshalTerm(tm))
				c.decFew("dec", "TLVTableReply", marshalTerm(tr))
			}
		}
	}
	c.run("enc", "TLVTableMod(1,x010203040506,[~])")
	c.run("enc", "TLVTableMod(1,x000000000000,[TLVTableMap(1,2,3,4,x0000),~])")
	c.run("enc", "TLVTableReply(1,2,x0102030405060708090a,[~])")
	c.decFew("dec", "TLVTableReply", nb().u32(1).u16(2).seq(1, 10).u16(0xffff).u8(1, 4).u16(0).z(2).b)

	c.encDec("BundleControl", "BundleControl(4294967295,5,3)")
	c.run("enc", "BundleControl(0,0,0)")
	c.run("enc", "BundleControl(287454020,65535,65534)")

	// BundlePropertyExperimenter: the encoder writes into an empty slice
	c.run("enc", "BundlePropertyExperimenter(65535,12,8992,1,x)")
	c.run("enc", "BundlePropertyExperimenter(65535,16,8992,1,x01020304)")
	for _, l := range []int{0, 1, 11, 12, 13, 16, 20, 24, 65535} {
		c.decFew("dec", "BundlePropertyExperimenter", nb().u16(0xffff, l).u32(8992, 1).seq(1, 8).b)
	}
	c.decFew("decc", "NewBundlePropertyExperimenter", nb().u16(0xffff, 24).u32(8992, 1).seq(1, 8).b)
	for _, t := range []string{"BundlePropertyExperimenter(65535,0,8992,1,x)", "BundlePropertyExperimenter(65535,0,8992,1,x0102030405)",
		"BundlePropertyExperimenter(65535,12,8992,1,x01020304)"} {
		c.encDec("BundlePropertyExperimenter", t)
	}
	// bundle-add carrying properties with payload (only a decoder can set the payload)
	for _, pl := range []string{"x", "x01", "x0102030405060708", "x" + strings.Repeat("ab", 40)} {
		t := fmt.Sprintf("VendorHeader(Header(4,4,0,9),1330529792,2301,BundleAdd(7,x0000,1,Header(4,20,8,3),[BundlePropertyExperimenter(65535,0,8992,1,%s),BundlePropertyExperimenter(65535,0,1,2,x)]))", pl)
		c.run("enc", t)
		if b := marshalTerm(t); b != nil {
			c.decFew("dec", "VendorHeader", b)
			c.decLite("parse", "", b, 4)
		}
	}

	// VendorHeader with every payload kind
	payloads := []string{"~", "ControllerID(x000000000000,5)", "TLVTableMod(1,x000000000000," + msgTlvMaps(2) + ")",
		"TLVTableReply(256,64,x00000000000000000000," + msgTlvMaps(1) + ")", "BundleControl(1,4,3)",
		"BundleAdd(1,x0000,3,Header(4,20,8,9),[])", "u.Buffer(x0102030405)", "Header(4,2,8,1)"}
	ets := []uint32{25, 20, 24, 26, 2300, 2301, 12, 4294967295}
	for i, p := range payloads {
		vendor := uint32(8992)
		if i == 4 || i == 5 {
			vendor = 1330529792
		}
		t := fmt.Sprintf("VendorHeader(Header(4,4,0,%d),%d,%d,%s)", 50+i, vendor, ets[i], p)
		c.encDecLite("VendorHeader", t, 24)
	}
	c.decLite("decc", "NewTLVTableRequest", ofFrame(4, 7, nb().u32(8992, 20).z(6).u16(5).b), 16)
	// payload kind that does not match the experimenter type; length field shorter / longer than the payload
	c.run("enc", "VendorHeader(Header(1,2,3,4),0,20,BundleControl(1,2,3))")
	for _, et := range []uint32{0, 12, 19, 20, 21, 24, 25, 26, 27, 2299, 2300, 2301, 2302, 4294967295} {
		for _, l := range []int{0, 15, 16, 17, 24, 32, 40, 48, 65535} {
			body := nb().u32(8992, et).u32(1).u16(0, 3).u8(4, 20).u16(8).u32(9).seq(1, 8).b
			c.decCase("dec", "VendorHeader", ofFrameL(4, l, 7, body), 0)
			if l >= 40 {
				c.decCase("dec", "VendorHeader", ofFrameL(4, l, 7, body), 24)
			}
		}
	}

	// BundleAdd wrapping every message kind (those Parse does not dispatch make the decoder dereference nil)
	for i, m := range msgWrappable() {
		t := fmt.Sprintf("BundleAdd(%d,x0000,%d,%s,[])", i+1, i%4, m)
		c.run("enc", t)
		b := marshalTerm(t)
		if b == nil {
			continue
		}
		if i%6 == 0 {
			c.decLite("dec", "BundleAdd", b, 20)
		} else {
			c.decFew("dec", "BundleAdd", b)
		}
		// followed by properties: short, exact, with payload, declared length beyond the data
		for _, p := range []string{"ffff000c0000232000000001", "ffff00100000232000000001a1a2a3a4", "ffff00200000232000000001a1a2a3a4",
			"ffff000c0000232000000001" + "ffff000c0000232000000002", "ffff000c00002320", "ffff00ff0000232000000001" + "ffff000c0000232000000002"} {
			c.decCase("dec", "BundleAdd", append(append([]byte(nil), b...), unhex(p)...), 0)
		}
		v := fmt.Sprintf("VendorHeader(Header(4,4,0,%d),1330529792,2301,%s)", 70+i, t)
		c.run("enc", v)
		if vb := marshalTerm(v); vb != nil && i%2 == 0 {
			c.decFew("dec", "VendorHeader", vb)
		}
	}
	c.run("enc", "BundleAdd(1,x0102,3,~,[])")
	c.run("enc", "BundleAdd(1,x0000,3,Header(4,2,8,1),[BundlePropertyExperimenter(65535,12,8992,1,x)])")
	c.run("enc", "BundleAdd(1,x0000,3,~,[BundlePropertyExperimenter(65535,12,8992,1,x)])")
	// nesting: bundle add inside bundle add inside …
	inner := "Header(4,21,8,1)"
	for d := 0; d < 4; d++ {
		inner = fmt.Sprintf("VendorHeader(Header(4,4,0,%d),1330529792,2301,BundleAdd(%d,x0000,0,%s,[]))", d, d, inner)
		c.run("enc", inner)
		if b := marshalTerm(inner); b != nil {
			c.decFew("dec", "VendorHeader", b)
		}
	}
}

// ---- constructors and methods ---------------------------------------------------------------------------------------

func genMsgProgs(c *Ctx) {
	for _, f := range []string{"NewEchoRequest", "NewEchoReply", "NewFeaturesRequest", "NewConfigRequest", "NewSetConfig", "NewFeaturesReply",
		"NewPacketIn", "NewPortStatus", "NewBundleError"} {
		c.run("prog", "m="+f+"();$m.Xid=7;!m")
		c.run("prog", "m="+f+"();$m.Xid=4294967295;!m")
	}
	c.run("prog", "m=NewPacketOut();$m.Xid=7;!m") // Data is nil: Len panics
	c.run("prog", "m=NewErrorMsg();$m.Xid=7;!m")
	c.run("prog", "m=NewErrorMsg();$m.Xid=9;$m.Type=1;$m.Code=2;d=u.NewBuffer(x0102030405);$m.Data=*$d;!m")
	c.run("prog", "m=NewBundleError();$m.Xid=7;!m")
	c.run("prog", "m=NewPortStatus();$m.Xid=7;$m.Reason=2;!m")
	c.run("prog", "m=NewFlowRemoved();$m.Xid=7;$m.Cookie=5;$m.Priority=100;$m.Reason=1;!m")
	for _, f := range []string{"NewPhyPort", "NewDescStats", "NewFlowStatsRequest", "NewFlowStats", "NewAggregateStatsRequest",
		"NewAggregateStats", "NewTableStats", "NewPortStatsRequest", "NewPortStats", "NewQueueStatsRequest", "NewBundlePropertyExperimenter"} {
		c.run("prog", "m="+f+"();!m")
	}
	// setters on constructor-built values
	c.run("prog", "m=NewSetConfig();$m.Xid=7;$m.Flags=3;$m.MissSendLen=65535;!m")
	c.run("prog", "m=NewErrorMsg();$m.Xid=7;$m.Type=65535;$m.Code=9;!m")
	c.run("prog", "m=NewFeaturesReply();$m.Xid=7;$m.Buffers=256;$m.NumTables=254;$m.Capabilities=79;$m.DPID=x0102030405060708;!m")
	c.run("prog", "m=NewPacketIn();$m.Xid=7;$m.BufferId=1;$m.TotalLen=2;$m.Reason=1;$m.TableId=3;$m.Cookie=1311768467463790320;!m")
	c.run("prog", "m=NewFlowStatsRequest();$m.TableId=255;$m.Cookie=5;$m.CookieMask=18446744073709551615;!m")
	c.run("prog", "m=NewAggregateStatsRequest();$m.TableId=255;$m.OutPort=4294967295;$m.OutGroup=4294967295;!m")
	c.run("prog", "m=NewPortStatsRequest();$m.PortNo=65535;!m")
	c.run("prog", "m=NewQueueStatsRequest();$m.PortNo=1;$m.QueueId=4294967295;!m")
	c.run("prog", "m=NewPhyPort();$m.PortNo=1;$m.HWAddr=x0a0b0c0d0e0f;$m.Name=x65746831000000000000000000000000;$m.MaxSpeed=4294967295;!m")
	c.run("prog", "m=NewPortStatus();$m.Xid=7;$m.Reason=2;!m")
	c.run("prog", "m=NewBundleError();$m.Xid=7;$m.Code=2308;!m")
	c.run("prog", "m=NewBundlePropertyExperimenter();$m.Length=12;$m.ExperimenterID=8992;!m")

	// PacketOut: SetData, AddAction with 0,1,2,3,7 actions, GetData
	for _, n := range []int{0, 1, 2, 3, 7} {
		p := "m=NewPacketOut();$m.Xid=7;$m.SetData(x" + strings.Repeat("d1", n+1) + ")"
		for i := 0; i < n; i++ {
			p += fmt.Sprintf(";a%d=%s;$m.AddAction($a%d)", i, msgActOut(uint32(i+1), 128*i), i)
		}
		c.run("prog", p+";!m")
		c.run("prog", p+";$m.InPort=5;$m.BufferId=17;!m")
		if b := marshalProg(p, "m"); b != nil {
			c.decFew("dec", "PacketOut", b)
			c.decLite("parse", "", b, 4)
		}
	}
	c.run("prog", "m=NewPacketOut();$m.Xid=7;a=NewActionOutput(3);$m.AddAction($a);$m.SetData(x);!m")
	c.run("prog", "m=NewPacketOut();$m.Xid=7;a=ActionHeader(11,4);$m.AddAction($a);b=ActionHeader(12,4);$m.AddAction($b);$m.SetData(x0102);!m")
	c.run("prog", "m=NewPacketOut();$m.Xid=7;$m.AddAction(~);$m.SetData(x0102);!m")
	c.run("prog", "m=NewPacketOut();$m.Xid=7;$m.ActionsLen=65530;a="+msgActOut(1, 2)+";$m.AddAction($a);$m.SetData(x0102);!m")
	c.run("prog", "m=NewPacketOut();$m.Xid=7;$m.SetData(x0102);$m.SetData(x030405);!m")
	c.run("prog", "m=PacketOut(Header(0,0,0,0),0,0,0,x,[],~);a="+msgActOut(1, 2)+";$m.AddAction($a);$m.SetData(x01);!m")
	c.run("prog", "m=PacketOut(Header(4,13,0,7),0,0,65535,x,[],~);a="+msgActOut(1, 2)+";$m.AddAction($a);$m.SetData(x01);!m")
	c.run("prog", "m=PacketOut(Header(4,13,0,7),0,0,0,x,[],"+msgEth(false, "0a")+");d=$m.GetData();q=NewPacketOut();$q.Xid=9;$q.SetData($d);!q")
	c.run("prog", "m=NewPacketOut();$m.Xid=7;$m.SetData(x"+strings.Repeat("ab", 1500)+");!m")
	c.run("prog", "m=NewPacketOut();$m.SetData(x0a0b0c);d=$m.GetData();q=NewPacketOut();$q.Xid=9;$q.SetData($d);!q")
	c.run("prog", "m=NewPacketOut();d=$m.GetData();q=NewPacketOut();$q.Xid=9;$q.SetData($d);!q")
	c.run("prog", "m=NewPacketIn();d=$m.GetData();q=NewPacketOut();$q.Xid=9;$q.SetData($d);!q")
	c.run("prog", "m=PacketIn(Header(4,10,0,7),1,2,3,4,5,Match(1,4,[]),x,"+msgEth(true, "0a0b")+");d=$m.GetData();q=NewPacketOut();$q.Xid=9;$q.SetData($d);!q")

	// vendor / TLV / bundle constructors (VendorHeader.Header is a named field: replace it as a whole)
	vh := func(p string) string { return "h=Header(4,4,8,7);" + p + ";$m.Header=$h;!m" }
	for _, t := range []uint64{0, 12, 20, 25, 4294967295, 4294967296 + 5} {
		c.run("prog", vh(fmt.Sprintf("m=NewNXTVendorHeader(%d)", t)))
	}
	for _, id := range []int{0, 1, 65535, 65536 + 7} {
		c.run("prog", vh(fmt.Sprintf("m=NewSetControllerID(%d)", id)))
	}
	c.run("prog", vh("m=NewTLVTableRequest()"))
	for _, n := range []int{0, 1, 2, 3, 7} {
		c.run("prog", fmt.Sprintf("t=NewTLVTableMod(%d,%s);!t", n, msgTlvMaps(n)))
		c.run("prog", vh(fmt.Sprintf("t=NewTLVTableMod(%d,%s);m=NewTLVTableModMessage($t)", 65535-n, msgTlvMaps(n))))
	}
	for _, t := range []string{"BundleControl(1,0,3)", "BundleControl(4294967295,65535,65535)", "BundleControl(0,4,0)"} {
		c.run("prog", vh("c="+t+";m=NewBundleControl($c)"))
	}
	for i, w := range msgWrappable() {
		c.run("prog", vh(fmt.Sprintf("a=BundleAdd(%d,x0000,3,%s,[]);m=NewBundleAdd($a)", i, w)))
	}
	c.run("prog", vh("f=NewFlowMod();$f.Xid=9;a=BundleAdd(5,x0000,3,~,[]);$a.Message=$f;m=NewBundleAdd($a)"))
	c.run("prog", vh("f=NewPacketOut();$f.Xid=9;$f.SetData(x0102);a=BundleAdd(5,x0000,3,~,[]);$a.Message=$f;m=NewBundleAdd($a)"))
	c.run("prog", vh("a=BundleAdd(5,x0000,3,Header(4,20,8,1),[BundlePropertyExperimenter(65535,0,0,0,x)]);m=NewBundleAdd($a)"))
	for _, code := range []int{0, 2299, 2300, 2301, 2308, 2315, 2316, 65535} {
		c.run("prog", fmt.Sprintf("ParseBundleError(%d);m=NewEchoRequest();$m.Xid=7;!m", code))
	}
	c.run("fn", "ParseBundleError", 2300)
	c.run("fn", "Parse", "x0402000800000007")
	c.run("fn", "Parse", "x04")
	c.run("fn", "Parse", "x0463000800000007")

	// multipart requests the way applications build them
	c.run("prog", "m=MultipartRequest(Header(4,18,0,7),1,0,x00000000,~);b=NewFlowStatsRequest();$m.Body=$b;!m")
	c.run("prog", "m=MultipartRequest(Header(4,18,0,7),2,0,x00000000,~);b=NewAggregateStatsRequest();$m.Body=$b;!m")
	c.run("prog", "m=MultipartRequest(Header(4,18,0,7),4,0,x00000000,~);b=NewPortStatsRequest();$b.PortNo=3;$m.Body=$b;!m")
	c.run("prog", "m=MultipartRequest(Header(4,18,0,7),5,1,x00000000,~);b=NewQueueStatsRequest();$b.QueueId=3;$m.Body=$b;!m")
	c.run("prog", "m=MultipartRequest(Header(4,18,0,7),0,0,x00000000,~);b=NewDescStats();$m.Body=$b;!m")
	c.run("prog", "m=MultipartRequest(Header(4,18,0,7),3,0,x00000000,~);b=NewTableStats();$m.Body=$b;!m")
	c.run("prog", "m=MultipartRequest(Header(4,18,0,7),1,0,x00000000,~);b=NewFlowStats();$m.Body=$b;!m")
	c.run("prog", "m=MultipartRequest(Header(4,18,0,7),4,0,x00000000,~);b=NewPortStats();$m.Body=$b;!m")
	c.run("prog", "m=MultipartRequest(Header(4,18,0,7),2,0,x00000000,~);b=NewAggregateStats();$m.Body=$b;!m")
}

// msgDeepCTFlowMod: a flow-mod whose apply-actions instruction holds one conntrack action nested `depth` levels deep
// (the innermost level holds an output action)
func msgDeepCTFlowMod(depth int) []byte {
	inner := nb().u16(0, 16).u32(7).u16(0xffff).z(6).b
	for i := 0; i < depth; i++ {
		inner = nb().u16(0xffff, 24+len(inner)).u32(0x2320).u16(35, i&1).u32(0).u16(0).u8(0xff).z(3).u16(0).raw(inner).b
	}
	instr := nb().u16(4, 8+len(inner)).z(4).raw(inner).b
	body := nb().q(1, 0).u8(0, 0).u16(0, 0, 100).u32(0xffffffff, 0xffffffff, 0xffffffff).u16(0).z(2).u16(1, 4).z(4).raw(instr).b
	return ofFrame(14, 7, body)
}

// ---- Parse ----------------------------------------------------------------------------------------------------------------

func genMsgParse(c *Ctx) {
	// controller-originated frames, produced by the library's own encoders
	small := []string{"m=NewEchoRequest();$m.Xid=7", "m=NewEchoReply();$m.Xid=7", "m=NewFeaturesRequest();$m.Xid=7", "m=NewConfigRequest();$m.Xid=7",
		"m=Header(4,20,8,7)", "m=Header(4,21,8,7)"}
	for _, p := range small {
		if b := marshalProg(p, "m"); b != nil {
			c.decFull("parse", "", b)
		}
	}
	if b := marshalProg("m=NewSetConfig();$m.Xid=7;$m.MissSendLen=128", "m"); b != nil {
		c.decFull("parse", "", b)
	}
	for i, w := range msgWrappable() {
		b := marshalTerm(w)
		if b == nil || len(b) < 8 {
			continue
		}
		if i == 0 {
			continue // plain header: above
		}
		mut := 24
		if strings.HasPrefix(w, "FlowMod") || strings.HasPrefix(w, "PacketIn") || strings.HasPrefix(w, "FlowRemoved") {
			mut = 72
		}
		if i%3 == 1 || mut == 72 {
			c.decLite("parse", "", b, mut)
		} else {
			c.decFew("parse", "", b)
		}
	}
	for _, p := range []string{"m=NewSetControllerID(5)", "m=NewTLVTableRequest()", "t=NewTLVTableMod(1," + msgTlvMaps(2) + ");m=NewTLVTableModMessage($t)",
		"c=BundleControl(1,0,3);m=NewBundleControl($c)", "f=NewFlowMod();$f.Xid=9;a=BundleAdd(5,x0000,3,~,[]);$a.Message=$f;m=NewBundleAdd($a)",
		"f=NewEchoRequest();$f.Xid=9;a=BundleAdd(5,x0000,3,~,[]);$a.Message=$f;m=NewBundleAdd($a)"} {
		if b := marshalProg("h=Header(4,4,8,7);"+p+";$m.Header=$h", "m"); b != nil {
			c.decLite("parse", "", b, 24)
		}
	}
	// multipart requests of every body kind
	for _, ty := range []int{1, 2, 4, 5} {
		body := map[int]string{1: "NewFlowStatsRequest()", 2: "NewAggregateStatsRequest()", 4: "NewPortStatsRequest()", 5: "NewQueueStatsRequest()"}[ty]
		if b := marshalProg(fmt.Sprintf("m=MultipartRequest(Header(4,18,0,7),%d,0,x00000000,~);b=%s;$m.Body=$b", ty, body), "m"); b != nil {
			c.decLite("parse", "", b, 16)
		}
	}
	for _, ty := range []int{0, 3, 6, 7, 8, 13, 65535} {
		c.decFew("parse", "", ofFrame(18, 7, nb().u16(ty, 0).z(4).b))
	}

	// conntrack actions nested to depth d inside an apply-actions instruction of a flow-mod (every level re-sizes the
	// levels below it: the cost must stay polynomial in the depth)
	depths := []int{9, 10, 11, 33, 40, 64, 200}
	if c.thorough() {
		depths = append(depths, 400, 700) // (deeper frames decode in time quadratic in the depth: too close to the worker's time budget on a loaded machine)
	}
	for _, d := range depths {
		fr := msgDeepCTFlowMod(d)
		c.decCase("parse", "", fr, 0)
		c.decCase("parse", "", fr[:len(fr)-1], 0)
		c.decCase("parse", "", fr, 24)
	}

	// bundle-add (ONF experimenter 2301) around an echo request, followed by properties of every type class: the
	// experimenter property (0xffff) and property types the library does not know (a parser must skip or reject them)
	for _, pt := range []int{0, 1, 2, 0x7fff, 0xfffe, 0xffff} {
		for _, pl := range []int{8, 12, 16, 24} {
			for _, nprop := range []int{1, 2} {
				x := nb().u32(0x4f4e4600, 2301, 100).u16(0, 1).u8(4, 2).u16(8).u32(0x12)
				for k := 0; k < nprop; k++ {
					x.u16(pt, pl).seq(0x40+k, pl-4)
					x.z((8 - pl%8) % 8)
				}
				c.decCase("parse", "", ofFrame(4, 0x11, x.b), 0)
			}
		}
	}
	// packet-in carrying ARP with hardware / protocol address lengths other than 6 / 4 (EUI-64, InfiniBand, IPv6-sized)
	for _, hl := range []int{0, 2, 6, 8, 20} {
		for _, pl := range []int{4, 16} {
			arp := nb().u16(1, 0x0800).u8(hl, pl).u16(1).seq(0x10, hl).seq(0x30, pl).seq(0x50, hl).seq(0x70, pl).b
			eth := nb().hex("ffffffffffff0a0b0c0d0e0f0806").raw(arp).b
			body := nb().u32(0xffffffff).u16(len(eth)).u8(0, 0).q(0).raw(msgMatchBytes(1)).z(2).raw(eth).b
			c.decCase("parse", "", ofFrame(10, 7, body), 0)
			c.decCase("parse", "", ofFrame(10, 7, body), 24)
		}
	}
	// packet-in carrying IPv6 with EVERY next-header value, directly and after a hop-by-hop header, with and without
	// bytes after the last header
	for nh := 0; nh < 256; nh++ {
		for variant := 0; variant < 4; variant++ {
			if !c.thorough() && variant >= 2 && nh%16 != 11 {
				continue
			}
			var after []byte
			if variant%2 == 1 {
				after = unhex("8000123401020304")
			}
			first := nh
			var chain []byte
			if variant >= 2 {
				first = 0
				chain = nb().u8(nh, 0).hex("010400000000").b
			}
			ip := nb().u8(0x60, 0, 0, 0).u16(len(chain)+len(after)).u8(first, 64).seq(0x20, 16).seq(0x40, 16).raw(chain).raw(after).b
			eth := nb().hex("0102030405060a0b0c0d0e0f86dd").raw(ip).b
			body := nb().u32(0xffffffff).u16(len(eth)).u8(0, 0).q(0).raw(msgMatchBytes(1)).z(2).raw(eth).b
			c.decCase("parse", "", ofFrame(10, 7, body), 0)
		}
	}

	// switch-originated frames, hand-encoded per OpenFlow 1.3
	c.decFull("parse", "", ofFrame(0, 7, unhex("0001000800000010")))               // hello + version bitmap
	c.decFew("parse", "", ofFrame(0, 7, nil))                                      // bare hello
	c.decFew("parse", "", ofFrame(0, 7, unhex("0001000c0000001000000001")))        // two bitmaps
	c.decFull("parse", "", ofFrame(1, 7, unhex("00010002"+"0405000800000001")))    // error: bad request
	c.decFew("parse", "", ofFrame(1, 7, unhex("00050001")))                        // error without data
	c.decFull("parse", "", ofFrame(1, 7, unhex("ffff0904"+"4f4e4600"+"040e0008"))) // experimenter error (bundle)
	c.decFew("parse", "", ofFrame(1, 7, unhex("ffff0904"+"4f4e")))                 // truncated experimenter error
	c.decFew("parse", "", ofFrame(3, 7, unhex("0102030405")))                      // echo reply with payload
	c.decFull("parse", "", ofFrame(8, 7, nb().u16(1, 128).b))                      // get-config reply
	c.decFull("parse", "", ofFrame(21, 7, nil))                                    // barrier reply
	feat := nb().hex("0000010203040506").u32(256).u8(254, 0).z(2).u32(0x4f, 0).b
	c.decLite("parse", "", ofFrame(6, 7, feat), 32) // features reply (1.3: no ports)
	for n := 1; n <= 3; n++ {                       // 1.0-style trailing ports
		f := append([]byte(nil), feat...)
		for i := 0; i < n; i++ {
			f = append(f, msgPhyPortBytes(i+1)...)
		}
		c.decFew("parse", "", ofFrame(6, 7, f))
		c.decCase("parse", "", ofFrame(6, 7, f[:len(f)-1]), 0)
		c.decCase("parse", "", ofFrame(6, 7, f[:len(f)-1]), 24)
	}
	for k := 0; k < 5; k++ { // packet-in
		body := nb().u32(uint32(k)).u16(60+k).u8(k%3, k).q(uint64(k) << 33).raw(msgMatchBytes(k)).z(2).raw(msgEthBytes(k%2 == 1, strings.Repeat("c5", 4*k))).b
		switch k {
		case 2:
			c.decLite("parse", "", ofFrame(10, 7, body), 64)
		case 3:
			c.decLite("parse", "", ofFrame(10, 7, body), 44)
		default:
			c.decFew("parse", "", ofFrame(10, 7, body))
		}
	}
	c.decFew("parse", "", ofFrame(10, 7, nb().u32(1).u16(60).u8(0, 0).q(0).raw(msgMatchBytes(1)).z(2).hex("0102030405060708090a0b0c").b)) // short ethernet
	for k := 0; k < 5; k++ {                                                                                                              // flow-removed
		body := nb().q(uint64(k)+1).u16(100+k).u8(k%4, k).u32(10, 20).u16(30, 40).q(50, 60).raw(msgMatchBytes(k)).b
		switch k {
		case 1:
			c.decLite("parse", "", ofFrame(11, 7, body), 72)
		case 4:
			c.decLite("parse", "", ofFrame(11, 7, body), 60)
		default:
			c.decFew("parse", "", ofFrame(11, 7, body))
		}
	}
	for r := 0; r < 3; r++ { // port-status
		body := append(nb().u8(r).z(7).b, msgPhyPortBytes(r+1)...)
		if r == 0 {
			c.decLite("parse", "", ofFrame(12, 7, body), 48)
		} else {
			c.decLite("parse", "", ofFrame(12, 7, body), 24)
		}
	}
	// flow mod as a switch would echo it (inside errors / bundles): hand-encoded
	fm := nb().q(1, 2).u8(3, 0).u16(4, 5, 6).u32(0xffffffff, 0xffffffff, 0xffffffff).u16(1).z(2).raw(msgMatchBytes(2)).raw(msgInstrBytes(3)).b
	c.decLite("parse", "", ofFrame(14, 7, fm), 80)
	c.decFew("parse", "", ofFrameL(14, 8+len(fm)+16, 7, fm))
	c.decFew("parse", "", ofFrameL(14, 56, 7, fm))

	// multipart replies of every type with 0,1,2,3 records
	mp := func(ty, flags int, recs ...[]byte) []byte {
		x := nb().u16(ty, flags).z(4)
		for _, r := range recs {
			x.raw(r)
		}
		return ofFrame(19, 7, x.b)
	}
	descB := nb().raw(append([]byte("Nicira, Inc."), make([]byte, 244)...)).raw(append([]byte("Open vSwitch"), make([]byte, 244)...)).
		raw(append([]byte("2.9.0"), make([]byte, 251)...)).raw(append([]byte("None"), make([]byte, 28)...)).raw(append([]byte("br0"), make([]byte, 253)...)).b
	c.decFew("parse", "", mp(0, 0))
	c.decLite("parse", "", mp(0, 0, descB), 16)
	c.decFew("parse", "", mp(0, 1, descB, descB))
	agg := func(i int) []byte { return nb().q(uint64(i)*100, uint64(i)*6400).u32(uint32(i)).z(4).b }
	tbl13 := func(i int) []byte { return nb().u8(i).z(3).u32(uint32(10*i)).q(uint64(i)*1000, uint64(i)*900).b }
	tbl10 := func(i int) []byte {
		return nb().u8(i).z(3).raw(append([]byte("classifier"), make([]byte, 22)...)).u32(0x3fffff, 1000000, uint32(i)).q(uint64(i)*1000, uint64(i)*900).b
	}
	port13 := func(i int) []byte {
		return nb().u32(uint32(i)).z(4).q(1, 2, 3, 4, 5, 6, 7, 8, 9, 10, 11, 12).u32(100, 200).b
	}
	port10 := func(i int) []byte { return nb().u16(i).z(6).q(1, 2, 3, 4, 5, 6, 7, 8, 9, 10, 11, 12).b }
	queue13 := func(i int) []byte { return nb().u32(uint32(i), uint32(i+1)).q(100, 200, 300).u32(10, 20).b }
	queue10 := func(i int) []byte { return nb().u16(i).z(2).u32(uint32(i+1)).q(100, 200, 300).b }
	kinds := []struct {
		ty  int
		rec func(int) []byte
	}{{2, agg}, {3, tbl13}, {3, tbl10}, {4, port13}, {4, port10}, {5, queue13}, {5, queue10}, {1, msgFlowStatsBytes}}
	for _, k := range kinds {
		for n := 0; n <= 3; n++ {
			var rs [][]byte
			for i := 0; i < n; i++ {
				rs = append(rs, k.rec(i+1))
			}
			f := mp(k.ty, n%2, rs...)
			switch {
			case n == 1 && k.ty != 1:
				c.decLite("parse", "", f, 20)
			case n == 2 && k.ty == 1:
				c.decLite("parse", "", f, 72)
			default:
				c.decFew("parse", "", f)
			}
		}
	}
	// a failing flow-stats record followed by a good one: only the last record's error counts
	badFs := nb().u16(72).u8(1, 0).u32(1, 2).u16(3, 4, 5, 6).z(4).q(7, 8, 9).u16(1, 20).hex("80000004").u32(7).hex("80000204").
		u16(1, 8).u8(5).z(3).b
	c.decFew("parse", "", mp(1, 0, badFs, msgFlowStatsBytes(1)))
	c.decFew("parse", "", mp(1, 0, msgFlowStatsBytes(1), badFs))
	c.decFew("parse", "", mp(1, 0, badFs))
	// multipart types the reply decoder does not know, with and without a body; header length field 0 / 16 / max
	for _, ty := range []int{6, 7, 8, 9, 10, 11, 12, 13, 14, 65535} {
		c.decCase("parse", "", mp(ty, 0), 0)
		c.decCase("parse", "", mp(ty, 0, agg(1)), 0)
	}
	for _, ty := range []int{0, 1, 2, 3, 4, 5} {
		for _, l := range []int{0, 15, 16, 17, 40, 65535} {
			f := mp(ty, 0, agg(1), agg(2))
			binary.BigEndian.PutUint16(f[2:], uint16(l))
			c.decCase("parse", "", f, 0)
			c.decCase("parse", "", f, 24)
		}
	}

	// vendor replies: TLV table reply, bundle control reply, unknown experimenter types
	vnd := func(vendor, et uint32, payload []byte) []byte {
		return ofFrame(4, 7, nb().u32(vendor, et).raw(payload).b)
	}
	tlvReply := nb().u32(256).u16(64).z(10).u16(0xffff).u8(0, 4).u16(0).z(2).u16(0x0102).u8(0x80, 8).u16(1).z(2).b
	c.decFull("parse", "", vnd(8992, 26, tlvReply[:16]))
	c.decLite("parse", "", vnd(8992, 26, tlvReply), 40)
	c.decFull("parse", "", vnd(0x4f4e4600, 2300, nb().u32(1).u16(1, 3).b))
	c.decFew("parse", "", vnd(8992, 20, nb().z(6).u16(5).b))
	c.decFew("parse", "", vnd(8992, 24, nb().u16(1).z(6).u16(0xffff).u8(0, 4).u16(0).z(2).b))
	c.decFew("parse", "", vnd(8992, 25, nil))
	c.decFew("parse", "", vnd(8992, 12, unhex("00000002")))
	c.decFew("parse", "", vnd(8992, 29, unhex("0000000000010000")))
	// bundle add carrying each hand-encoded switch frame, and frames of types Parse skips
	for _, inner := range [][]byte{ofFrame(2, 9, nil), ofFrame(0, 9, unhex("0001000800000010")), ofFrame(1, 9, unhex("00010002")), ofFrame(8, 9, nb().u16(1, 128).b),
		ofFrame(6, 9, feat), ofFrame(14, 9, fm), ofFrame(13, 9, nb().u32(0xffffffff, 1).u16(0).z(6).b), ofFrame(15, 9, unhex("0000010000000001")),
		ofFrame(16, 9, make([]byte, 32)), ofFrame(17, 9, make([]byte, 8)), ofFrame(22, 9, make([]byte, 8)), ofFrame(99, 9, nil),
		vnd(0x4f4e4600, 2300, nb().u32(1).u16(1, 3).b), vnd(0x4f4e4600, 2301, append(nb().u32(2).z(2).u16(0).b, ofFrame(3, 10, nil)...)),
		mp(2, 0, agg(1)), ofFrame(18, 9, nb().u16(4, 0).z(4).z(8).b)} {
		f := vnd(0x4f4e4600, 2301, append(nb().u32(1).z(2).u16(3).b, inner...))
		c.decFew("parse", "", f)
		c.decCase("parse", "", vnd(0x4f4e4600, 2301, append(append(nb().u32(1).z(2).u16(3).b, inner...), unhex("ffff000c0000232000000001")...)), 0)
	}

	// hostile frames: every type byte with short bodies, length field actual / 0 / 1 / max
	for t := 0; t <= 40; t++ {
		for bi, bl := range []int{0, 4, 8, 24, 64} {
			if t == 0 && bl > 4 {
				continue // hello with junk elements spins; representatives are in the header generator
			}
			body := nb().seq(16*bi+1, bl).b
			for li, l := range []int{8 + bl, 0, 1, 65535} {
				f := ofFrameL(t, l, 7, body)
				c.decCase("parse", "", f, 24*((t+bi+li)%2))
			}
		}
		// zero body (all fields 0) of 16 and 72 bytes
		if t != 0 {
			c.decCase("parse", "", ofFrame(t, 7, make([]byte, 16)), 0)
			c.decCase("parse", "", ofFrame(t, 7, make([]byte, 72)), 24)
		}
	}
	for _, v := range []int{0, 1, 3, 5, 255} { // other versions: Parse never looks at the version
		c.decCase("parse", "", nb().u8(v, 2).u16(8).u32(7).b, 0)
		c.decCase("parse", "", nb().u8(v, 99).u16(8).u32(7).b, 0)
	}
	c.decCase("parse", "", nil, 0)
	c.decCase("parse", "", []byte{4}, 0)
	c.decCase("parse", "", []byte{4}, 24)
	c.decCase("parse", "", []byte{4, 2}, 0)
	c.decCase("parse", "", []byte{4, 2, 0}, 24)
}
