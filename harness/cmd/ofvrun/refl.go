package main

// Generic, reflection-driven access to the library's values:
//   dumpV  : any value  -> canonical text term        (see lean/OFV/Model/V.lean for the syntax)
//   build  : text term  -> value of a requested type  (unexported fields are written through unsafe)
// so that no per-kind code is needed in the harness.

import (
	"bytes"
	"encoding/hex"
	"fmt"
	"reflect"
	"strconv"
	"strings"
	"unsafe"

	"github.com/contiv/libOpenflow/util"
)

var pkgPrefix = map[string]string{
	"github.com/contiv/libOpenflow/openflow13": "",
	"github.com/contiv/libOpenflow/common":     "",
	"github.com/contiv/libOpenflow/protocol":   "p.",
	"github.com/contiv/libOpenflow/util":       "u.",
	"github.com/contiv/libOpenflow/ofbase":     "b.",
}

func typeName(t reflect.Type) string {
	if p, ok := pkgPrefix[t.PkgPath()]; ok {
		return p + t.Name()
	}
	if t.PkgPath() == "" {
		return t.String()
	}
	return t.PkgPath() + "." + t.Name()
}

var bufferType = reflect.TypeOf(util.Buffer{})
var bytesBufferType = reflect.TypeOf(bytes.Buffer{})

func addressable(v reflect.Value) reflect.Value {
	if v.CanAddr() {
		return v
	}
	n := reflect.New(v.Type()).Elem()
	n.Set(v)
	return n
}

// open returns a readable/settable view of a (possibly unexported) field.
func open(f reflect.Value) reflect.Value {
	if f.CanSet() {
		return f
	}
	if f.CanAddr() {
		return reflect.NewAt(f.Type(), unsafe.Pointer(f.UnsafeAddr())).Elem()
	}
	return f
}

func dumpV(v reflect.Value) string {
	if !v.IsValid() {
		return "~"
	}
	switch v.Kind() {
	case reflect.Ptr, reflect.Interface:
		if v.IsNil() {
			return "~"
		}
		return dumpV(v.Elem())
	case reflect.Struct:
		v = addressable(v)
		if v.Type() == bufferType || v.Type() == bytesBufferType {
			var b []byte
			if v.Type() == bufferType {
				b = v.Addr().Interface().(*util.Buffer).Bytes()
			} else {
				b = v.Addr().Interface().(*bytes.Buffer).Bytes()
			}
			return typeName(v.Type()) + "(x" + hex.EncodeToString(b) + ")"
		}
		var parts []string
		for i := 0; i < v.NumField(); i++ {
			parts = append(parts, dumpV(open(v.Field(i))))
		}
		return typeName(v.Type()) + "(" + strings.Join(parts, ",") + ")"
	case reflect.Slice:
		if v.Type().Elem().Kind() == reflect.Uint8 {
			return "x" + hex.EncodeToString(v.Bytes())
		}
		var parts []string
		for i := 0; i < v.Len(); i++ {
			parts = append(parts, dumpV(v.Index(i)))
		}
		return "[" + strings.Join(parts, ",") + "]"
	case reflect.Array:
		if v.Type().Elem().Kind() == reflect.Uint8 {
			b := make([]byte, v.Len())
			for i := range b {
				b[i] = byte(v.Index(i).Uint())
			}
			return "x" + hex.EncodeToString(b)
		}
		var parts []string
		for i := 0; i < v.Len(); i++ {
			parts = append(parts, dumpV(v.Index(i)))
		}
		return "[" + strings.Join(parts, ",") + "]"
	case reflect.Uint8, reflect.Uint16, reflect.Uint32, reflect.Uint64, reflect.Uint, reflect.Uintptr:
		return strconv.FormatUint(v.Uint(), 10)
	case reflect.Int8, reflect.Int16, reflect.Int32, reflect.Int64, reflect.Int:
		if v.Int() < 0 {
			return "?neg" // negative ints are outside the text syntax; no message struct holds one
		}
		return strconv.FormatInt(v.Int(), 10)
	case reflect.Bool:
		if v.Bool() {
			return "1"
		}
		return "0"
	case reflect.String:
		return "x" + hex.EncodeToString([]byte(v.String()))
	}
	return "?" + v.Kind().String()
}

// ---- term parser -----------------------------------------------------------------------------

type term struct {
	kind  byte // 'n' num, 'x' bytes, 'l' list, 'o' obj, '~' nil, '$' variable, '*' deref variable
	num   uint64
	bytes []byte
	name  string
	elts  []*term
}

type tparser struct {
	s string
	i int
}

func isIdent(c byte) bool {
	return c == '_' || c == '.' || (c >= '0' && c <= '9') || (c >= 'a' && c <= 'z') || (c >= 'A' && c <= 'Z')
}

func isHex(c byte) bool {
	return (c >= '0' && c <= '9') || (c >= 'a' && c <= 'f') || (c >= 'A' && c <= 'F')
}

func (p *tparser) parse() *term {
	if p.i >= len(p.s) {
		panic("term: unexpected end")
	}
	c := p.s[p.i]
	switch {
	case c == '~':
		p.i++
		return &term{kind: '~'}
	case c == '$' || c == '*':
		p.i++
		if c == '*' {
			p.i++ // "*$v"
		}
		j := p.i
		for p.i < len(p.s) && isIdent(p.s[p.i]) {
			p.i++
		}
		return &term{kind: c, name: p.s[j:p.i]}
	case c == '[':
		p.i++
		t := &term{kind: 'l'}
		if p.s[p.i] == ']' {
			p.i++
			return t
		}
		t.elts = p.seq(']')
		return t
	case c == 'x':
		p.i++
		j := p.i
		for p.i < len(p.s) && isHex(p.s[p.i]) {
			p.i++
		}
		b, err := hex.DecodeString(p.s[j:p.i])
		if err != nil {
			panic("term: bad hex")
		}
		return &term{kind: 'x', bytes: b}
	case c >= '0' && c <= '9':
		j := p.i
		for p.i < len(p.s) && p.s[p.i] >= '0' && p.s[p.i] <= '9' {
			p.i++
		}
		n, err := strconv.ParseUint(p.s[j:p.i], 10, 64)
		if err != nil {
			panic("term: bad number")
		}
		return &term{kind: 'n', num: n}
	case (c >= 'a' && c <= 'z') || (c >= 'A' && c <= 'Z'):
		j := p.i
		for p.i < len(p.s) && isIdent(p.s[p.i]) {
			p.i++
		}
		t := &term{kind: 'o', name: p.s[j:p.i]}
		if p.i >= len(p.s) || p.s[p.i] != '(' {
			panic("term: expected ( after " + t.name)
		}
		p.i++
		if p.s[p.i] == ')' {
			p.i++
			return t
		}
		t.elts = p.seq(')')
		return t
	}
	panic(fmt.Sprintf("term: unexpected %q at %d", c, p.i))
}

func (p *tparser) seq(close byte) []*term {
	var out []*term
	for {
		out = append(out, p.parse())
		if p.i >= len(p.s) {
			panic("term: unterminated")
		}
		c := p.s[p.i]
		p.i++
		if c == close {
			return out
		}
		if c != ',' {
			panic("term: expected , or close")
		}
	}
}

func parseTerm(s string) *term {
	p := &tparser{s: s}
	t := p.parse()
	if p.i != len(s) {
		panic("term: trailing input")
	}
	return t
}

// ---- builder ------------------------------------------------------------------------------------

type env map[string]reflect.Value

func build(t *term, ty reflect.Type, vars env) reflect.Value {
	if t.kind == '$' || t.kind == '*' {
		v, ok := vars[t.name]
		if !ok {
			panic("unknown variable " + t.name)
		}
		if t.kind == '*' && v.Kind() == reflect.Ptr {
			v = v.Elem()
		}
		// adapt pointer/value to the requested type
		if v.Type() != ty {
			if ty.Kind() == reflect.Interface && v.Type().Implements(ty) {
				return v
			}
			if v.Kind() == reflect.Ptr && v.Elem().Type() == ty {
				return v.Elem()
			}
			if v.Type().ConvertibleTo(ty) {
				return v.Convert(ty)
			}
		}
		return v
	}
	switch ty.Kind() {
	case reflect.Ptr:
		if t.kind == '~' {
			return reflect.Zero(ty)
		}
		p := reflect.New(ty.Elem())
		p.Elem().Set(build(t, ty.Elem(), vars))
		return p
	case reflect.Interface:
		if t.kind == '~' {
			return reflect.Zero(ty)
		}
		if t.kind != 'o' {
			panic("interface field needs an object term")
		}
		ct, ok := typeReg[t.name]
		if !ok {
			panic("unknown type " + t.name)
		}
		p := build(t, reflect.PtrTo(ct), vars)
		if p.Type().Implements(ty) {
			return p
		}
		if ct.Implements(ty) {
			return p.Elem()
		}
		panic(t.name + " does not implement " + ty.String())
	case reflect.Struct:
		v := reflect.New(ty).Elem()
		if ty == bufferType || ty == bytesBufferType {
			var b []byte
			if t.kind == 'o' && len(t.elts) == 1 {
				b = t.elts[0].bytes
			} else if t.kind == 'x' {
				b = t.bytes
			}
			cp := append([]byte(nil), b...)
			if ty == bufferType {
				v.Set(reflect.ValueOf(*util.NewBuffer(cp)))
			} else {
				v.Set(reflect.ValueOf(*bytes.NewBuffer(cp)))
			}
			return v
		}
		if t.kind != 'o' {
			panic("struct needs an object term, have " + string(t.kind))
		}
		if len(t.elts) != ty.NumField() {
			panic(fmt.Sprintf("%s: %d fields given, %d expected", ty.Name(), len(t.elts), ty.NumField()))
		}
		for i := 0; i < ty.NumField(); i++ {
			open(v.Field(i)).Set(build(t.elts[i], ty.Field(i).Type, vars))
		}
		return v
	case reflect.Slice:
		if ty.Elem().Kind() == reflect.Uint8 {
			if t.kind != 'x' {
				panic("byte slice needs x…")
			}
			if len(t.bytes) == 0 {
				return reflect.Zero(ty)
			}
			return reflect.ValueOf(append([]byte(nil), t.bytes...)).Convert(ty)
		}
		if t.kind != 'l' {
			panic("slice needs a list term")
		}
		s := reflect.MakeSlice(ty, 0, len(t.elts))
		for _, e := range t.elts {
			s = reflect.Append(s, build(e, ty.Elem(), vars))
		}
		return s
	case reflect.Array:
		v := reflect.New(ty).Elem()
		if ty.Elem().Kind() == reflect.Uint8 {
			for i := 0; i < ty.Len() && i < len(t.bytes); i++ {
				v.Index(i).SetUint(uint64(t.bytes[i]))
			}
			return v
		}
		for i := 0; i < ty.Len() && i < len(t.elts); i++ {
			v.Index(i).Set(build(t.elts[i], ty.Elem(), vars))
		}
		return v
	case reflect.Uint8, reflect.Uint16, reflect.Uint32, reflect.Uint64, reflect.Uint:
		v := reflect.New(ty).Elem()
		v.SetUint(t.num)
		return v
	case reflect.Int8, reflect.Int16, reflect.Int32, reflect.Int64, reflect.Int:
		v := reflect.New(ty).Elem()
		v.SetInt(int64(t.num))
		return v
	case reflect.Bool:
		v := reflect.New(ty).Elem()
		v.SetBool(t.num != 0)
		return v
	case reflect.String:
		v := reflect.New(ty).Elem()
		v.SetString(string(t.bytes))
		return v
	}
	panic("cannot build " + ty.String())
}

// buildObj builds a pointer to the struct named by the term.
func buildObj(s string, vars env) reflect.Value {
	t := parseTerm(s)
	if t.kind == '$' {
		return vars[t.name]
	}
	if t.kind == 'x' {
		// a caller-owned byte slice (later statements hand the SAME slice on by `$name`)
		return reflect.ValueOf(append([]byte(nil), t.bytes...))
	}
	if t.kind != 'o' {
		panic("object term expected")
	}
	ct, ok := typeReg[t.name]
	if !ok {
		panic("unknown type " + t.name)
	}
	return build(t, reflect.PtrTo(ct), vars)
}

// ---- observations -------------------------------------------------------------------------------

var errorType = reflect.TypeOf((*error)(nil)).Elem()

func callLen(p reflect.Value) string {
	m := p.MethodByName("Len")
	if !m.IsValid() {
		return "-"
	}
	out := m.Call(nil)
	return strconv.FormatUint(out[0].Uint(), 10)
}

// observe: Len, MarshalBinary, Len, dump  ->  "L1 hex L2 dump"   (or "L1 err")
func observe(p reflect.Value) string {
	l1 := callLen(p)
	m := p.MethodByName("MarshalBinary")
	if !m.IsValid() {
		return l1 + " nomarshal"
	}
	out := m.Call(nil)
	if !out[1].IsNil() {
		return l1 + " err"
	}
	l2 := callLen(p)
	return l1 + " " + hx(out[0].Bytes()) + " " + l2 + " " + dumpV(p)
}
