package main

// generator for protocol/*.go and util/util.go (area "proto"):
//   Ethernet, VLAN, ARP, IPv4, IPv6 + extension headers, ICMP, TCP, UDP, IGMP, DHCP, LLDP, util.Buffer
//
// Besides the generic ops this file registers (additively, from its own init):
//   typeReg["p.dhcpoption"]   the unexported option type, so that DHCP literals with options can be built
//   specials["obs.Dump"]      x=obs.Dump($v)     -> *util.Buffer holding the reflection dump text of $v
//   specials["obs.Read"]      x=obs.Read($v,n)   -> *util.Buffer holding be32(k) ++ b after  b := make([]byte,n); k,_ := v.Read(b)
// DHCP / LLDP / the TLVs have no MarshalBinary ("nomarshal" for enc / !v), so their state and the results of their
// Read/Write methods are observed through these two helpers.

import (
	"encoding/binary"
	"encoding/hex"
	"fmt"
	"os"
	"reflect"
	"strings"

	protocol "github.com/contiv/libOpenflow/protocol"
	util "github.com/contiv/libOpenflow/util"
)

func init() {
	typeReg["p.dhcpoption"] = reflect.TypeOf(protocol.DHCPNewOption(0, nil)).Elem()
	specials["obs.Dump"] = func(args []string, vars env) (reflect.Value, bool) {
		v := build(parseTerm(args[0]), reflect.TypeOf((*interface{})(nil)).Elem(), vars)
		return reflect.ValueOf(util.NewBuffer([]byte(dumpV(v)))), false
	}
	specials["obs.Read"] = func(args []string, vars env) (reflect.Value, bool) {
		v := build(parseTerm(args[0]), reflect.TypeOf((*interface{})(nil)).Elem(), vars)
		n := atoi(args[1])
		b := make([]byte, n)
		out := v.MethodByName("Read").Call([]reflect.Value{reflect.ValueOf(b)})
		if !out[1].IsNil() {
			return reflect.Value{}, true
		}
		res := make([]byte, 4, 4+n)
		binary.BigEndian.PutUint32(res, uint32(out[0].Int()))
		return reflect.ValueOf(util.NewBuffer(append(res, b...))), false
	}
	if os.Getenv("OFV_ONLY") == "proto" { // development aid: run this generator alone
		ofGens = nil
	}
	ofGens = append(ofGens, genProto)
}

// ---- term builders ----------------------------------------------------------------------------------

func xs(b []byte) string { return "x" + hex.EncodeToString(b) }

func protoSeqBytes(n int, start byte) []byte {
	b := make([]byte, n)
	for i := range b {
		b[i] = start + byte(i)
	}
	return b
}

func tList(es []string) string { return "[" + strings.Join(es, ",") + "]" }

func tBuf(b []byte) string { return "u.Buffer(" + xs(b) + ")" }
func tVLAN(tpid, pcp, dei, vid int) string {
	return fmt.Sprintf("p.VLAN(%d,%d,%d,%d)", tpid, pcp, dei, vid)
}
func tEth(del int, dst, src []byte, vlan string, et int, data string) string {
	return fmt.Sprintf("p.Ethernet(%d,%s,%s,%s,%d,%s)", del, xs(dst), xs(src), vlan, et, data)
}
func tARP(ht, pt, hl, pl, op int, hs, ips, hd, ipd []byte) string {
	return fmt.Sprintf("p.ARP(%d,%d,%d,%d,%d,%s,%s,%s,%s)", ht, pt, hl, pl, op, xs(hs), xs(ips), xs(hd), xs(ipd))
}

type ip4 struct {
	ver, ihl, dscp, ecn, length, id, flags, frag, ttl, proto, csum int
	src, dst, opts                                                 []byte
	data                                                           string
}

func (p ip4) term() string {
	return fmt.Sprintf("p.IPv4(%d,%d,%d,%d,%d,%d,%d,%d,%d,%d,%d,%s,%s,%s,%s)", p.ver, p.ihl, p.dscp, p.ecn, p.length, p.id,
		p.flags, p.frag, p.ttl, p.proto, p.csum, xs(p.src), xs(p.dst), tBuf(p.opts), p.data)
}
func baseIP4() ip4 {
	return ip4{ver: 4, ihl: 5, dscp: 10, ecn: 1, length: 28, id: 0x1234, flags: 2, frag: 0x0123, ttl: 64, proto: 17, csum: 0xabcd,
		src: []byte{10, 0, 0, 1}, dst: []byte{10, 0, 0, 2}, data: "~"}
}

type ip6 struct {
	ver, tc     int
	fl          uint32
	length      int
	nh, hl      int
	src, dst    []byte
	hbh, rt, fr string
	data        string
}

func (p ip6) term() string {
	return fmt.Sprintf("p.IPv6(%d,%d,%d,%d,%d,%d,%s,%s,%s,%s,%s,%s)", p.ver, p.tc, p.fl, p.length, p.nh, p.hl, xs(p.src), xs(p.dst),
		p.hbh, p.rt, p.fr, p.data)
}
func baseIP6() ip6 {
	return ip6{ver: 6, tc: 0xa5, fl: 0x12345, length: 8, nh: 17, hl: 64, src: protoSeqBytes(16, 0x20), dst: protoSeqBytes(16, 0x40),
		hbh: "~", rt: "~", fr: "~", data: tUDP(1, 2, 8, 3, nil)}
}
func tOpt(ty, ln int, data []byte) string { return fmt.Sprintf("p.Option(%d,%d,%s)", ty, ln, xs(data)) }
func tHbh(nh, hel int, opts []string) string {
	return fmt.Sprintf("p.HopByHopHeader(%d,%d,%s)", nh, hel, tList(opts))
}
func tRt(nh, hel, ty, seg int, data string) string {
	return fmt.Sprintf("p.RoutingHeader(%d,%d,%d,%d,%s)", nh, hel, ty, seg, data)
}
func tFrag(nh, res, off, more int, id uint32) string {
	return fmt.Sprintf("p.FragmentHeader(%d,%d,%d,%d,%d)", nh, res, off, more, id)
}
func tICMP(ty, code, cs int, data []byte) string {
	return fmt.Sprintf("p.ICMP(%d,%d,%d,%s)", ty, code, cs, xs(data))
}
func tUDP(ps, pd, ln, cs int, data []byte) string {
	return fmt.Sprintf("p.UDP(%d,%d,%d,%d,%s)", ps, pd, ln, cs, xs(data))
}
func tTCP(ps, pd int, sq, ak uint32, hl, code, win, cs, urg int, data []byte) string {
	return fmt.Sprintf("p.TCP(%d,%d,%d,%d,%d,%d,%d,%d,%d,%s)", ps, pd, sq, ak, hl, code, win, cs, urg, xs(data))
}
func tIGMP12(ty, mrt, cs int, g []byte) string {
	return fmt.Sprintf("p.IGMPv1or2(%d,%d,%d,%s)", ty, mrt, cs, xs(g))
}
func ipTerms(ips [][]byte) string {
	var es []string
	for _, ip := range ips {
		es = append(es, xs(ip))
	}
	return tList(es)
}
func tV3Q(ty, mrt, cs int, g []byte, rsv, s, qrv, it, ns int, srcs [][]byte) string {
	return fmt.Sprintf("p.IGMPv3Query(%d,%d,%d,%s,%d,%d,%d,%d,%d,%s)", ty, mrt, cs, xs(g), rsv, s, qrv, it, ns, ipTerms(srcs))
}
func tGR(ty, aux, ns int, mc []byte, srcs [][]byte, auxd []uint32) string {
	var es []string
	for _, a := range auxd {
		es = append(es, fmt.Sprint(a))
	}
	return fmt.Sprintf("p.IGMPv3GroupRecord(%d,%d,%d,%s,%s,%s)", ty, aux, ns, xs(mc), ipTerms(srcs), tList(es))
}
func tRep(ty, r1, cs, r2, ng int, recs []string) string {
	return fmt.Sprintf("p.IGMPv3MembershipReport(%d,%d,%d,%d,%d,%s)", ty, r1, cs, r2, ng, tList(recs))
}
func tDOpt(tag int, data []byte) string { return fmt.Sprintf("p.dhcpoption(%d,%s)", tag, xs(data)) }

type dhcp struct {
	op, ht, hl, ho     int
	xid                uint32
	secs, flags        int
	cip, yip, sip, gip []byte
	hw                 []byte
	sname, file        []byte
	opts               []string
}

func (d dhcp) term() string {
	sn := make([]byte, 64)
	copy(sn, d.sname)
	fl := make([]byte, 128)
	copy(fl, d.file)
	return fmt.Sprintf("p.DHCP(%d,%d,%d,%d,%d,%d,%d,%s,%s,%s,%s,%s,%s,%s,%s)", d.op, d.ht, d.hl, d.ho, d.xid, d.secs, d.flags,
		xs(d.cip), xs(d.yip), xs(d.sip), xs(d.gip), xs(d.hw), xs(sn), xs(fl), tList(d.opts))
}
func baseDHCP() dhcp {
	return dhcp{op: 1, ht: 1, hl: 6, ho: 2, xid: 0x11223344, secs: 0x0506, flags: 0x8000, cip: []byte{1, 2, 3, 4}, yip: []byte{5, 6, 7, 8},
		sip: []byte{9, 10, 11, 12}, gip: []byte{13, 14, 15, 16}, hw: protoSeqBytes(6, 0xa0), sname: []byte("srv"), file: []byte("boot")}
}

// wire form of a DHCP header (240 bytes) followed by opts
func dhcpWire(hl byte, magic uint32, opts []byte) []byte {
	b := make([]byte, 240)
	b[0], b[1], b[2], b[3] = 2, 1, hl, 7
	binary.BigEndian.PutUint32(b[4:], 0xcafebabe)
	binary.BigEndian.PutUint16(b[8:], 0x0102)
	binary.BigEndian.PutUint16(b[10:], 0x8000)
	copy(b[12:], protoSeqBytes(16, 0x10))
	copy(b[28:], protoSeqBytes(16, 0xb0))
	copy(b[44:], protoSeqBytes(64, 0x01))
	copy(b[108:], protoSeqBytes(128, 0x41))
	binary.BigEndian.PutUint32(b[236:], magic)
	return append(b, opts...)
}

func tChassis(kind string, ty, ln, st int, data []byte) string {
	return fmt.Sprintf("p.%s(%d,%d,%d,%s)", kind, ty, ln, st, xs(data))
}
func tTTL(ty, ln, secs int) string { return fmt.Sprintf("p.TTLTLV(%d,%d,%d)", ty, ln, secs) }

// interesting values of a field of `bits` significant bits stored in a Go integer of `width` bits
func fieldSample(bits, width uint) []int {
	set := map[int]bool{}
	var out []int
	add := func(v int) {
		if v >= 0 && uint64(v) < (uint64(1)<<width) && !set[v] {
			set[v] = true
			out = append(out, v)
		}
	}
	for i := uint(0); i <= bits; i++ {
		add(1<<i - 1)
		add(1 << i)
		add(1<<i + 1)
	}
	add(1<<bits - 2)
	add(1<<width - 1)
	add(1<<width - 2)
	add(0x5a5a5a5a & (1<<bits - 1))
	return out
}

func allUpTo(n int) []int {
	out := make([]int, n)
	for i := range out {
		out[i] = i
	}
	return out
}

// encD: observe the value, and decode its encoding with exact and spare capacity (3 cases instead of encDec's hundreds)
func (c *Ctx) encD(kind, term string) {
	c.run("enc", term)
	if b := marshalTerm(term); b != nil {
		c.decCase("dec", kind, b, 0)
		c.decCase("dec", kind, b, 24)
	}
}

// variantsP: the string itself and every truncation (each with exact and with spare capacity), and every byte among
// the first 48 set to 0 / 0xff / +1 (exact capacity) — about half of c.variants, to keep the quick tier small
func (c *Ctx) decCasesP(op, target string, b []byte) {
	c.decCase(op, target, b, 0)
	c.decCase(op, target, b, 24)
	for i := 0; i < len(b); i++ {
		if i < 96 || i%8 == 0 {
			c.decCase(op, target, b[:i], 0)
			c.decCase(op, target, b[:i], 24)
		}
	}
	for i := 0; i < len(b) && i < 48; i++ {
		for _, v := range []byte{0, 0xff, b[i] + 1} {
			if v != b[i] {
				m := append([]byte(nil), b...)
				m[i] = v
				c.decCase(op, target, m, 0)
			}
		}
	}
}

func (c *Ctx) encDecP(kind, term string) {
	if c.thorough() {
		c.encDec(kind, term)
		return
	}
	c.run("enc", term)
	if b := marshalTerm(term); b != nil {
		c.decCasesP("dec", kind, b)
	}
}

// dec2: a hand-made input with exact and spare capacity
func (c *Ctx) dec2(kind string, b []byte) {
	c.decCase("dec", kind, b, 0)
	c.decCase("dec", kind, b, 24)
}

func cat(bs ...[]byte) []byte {
	var out []byte
	for _, b := range bs {
		out = append(out, b...)
	}
	return out
}

func be16b(v int) []byte { return []byte{byte(v >> 8), byte(v)} }

var counts = []int{0, 1, 2, 3, 7}

func genProto(c *Ctx) {
	genBufferVLAN(c)
	genLeaves(c)
	genIGMP(c)
	genExtHeaders(c)
	genIPv4(c)
	genIPv6(c)
	genEthernet(c)
	genDHCP(c)
	genLLDP(c)
	genCtors(c)
	genRandomProto(c)
}

// ---- util.Buffer, VLAN ------------------------------------------------------------------------------

func genBufferVLAN(c *Ctx) {
	for _, n := range []int{0, 1, 3, 40} {
		c.encDecP("u.Buffer", tBuf(protoSeqBytes(n, 1)))
	}
	c.run("prog", "b=u.NewBuffer(x);!b")
	c.run("prog", "b=u.NewBuffer(x0102030405);!b")
	c.run("prog", "b=u.NewBuffer(x0102);$b.UnmarshalBinary(x0a0b0c);!b")
	c.run("prog", "b=u.NewBuffer(x0102);$b.UnmarshalBinary(x);!b")

	// VLAN: TCI = PCP(3) DEI(1) VID(12), packed with '+'
	c.encDecP("p.VLAN", tVLAN(0x8100, 5, 1, 0x0abc))
	c.encDecP("p.VLAN", tVLAN(0, 0, 0, 0))
	c.encDecP("p.VLAN", tVLAN(0xffff, 7, 1, 0x0fff))
	for _, o := range []int{0, 1} { // others at 0 / at max
		for _, pcp := range append(allUpTo(8), 8, 9, 15, 16, 0x80, 0xfe, 0xff) {
			c.encD("p.VLAN", tVLAN(0x8100, pcp, o, o*0x0fff))
		}
		for _, dei := range []int{0, 1, 2, 3, 7, 8, 15, 16, 0x80, 0xfe, 0xff} {
			c.encD("p.VLAN", tVLAN(0x8100, o*7, dei, o*0x0fff))
		}
		vids := fieldSample(12, 16)
		if c.thorough() {
			vids = allUpTo(4096)
		} else {
			for i := 0; i < 16; i++ {
				vids = append(vids, c.rng.Intn(4096))
			}
		}
		for _, vid := range vids {
			c.encD("p.VLAN", tVLAN(0x88a8, o*7, o, vid))
		}
	}
	// decoder: every value of each TCI lane with the others at 0 and at 1s
	for _, o := range []int{0, 0xffff} {
		for pcp := 0; pcp < 8; pcp++ {
			c.dec2("p.VLAN", cat(be16b(0x8100), be16b(pcp<<13|o&0x1fff)))
		}
		for dei := 0; dei < 2; dei++ {
			c.dec2("p.VLAN", cat(be16b(0x8100), be16b(dei<<12|o&0xefff)))
		}
		for _, vid := range fieldSample(12, 12) {
			c.dec2("p.VLAN", cat(be16b(0x8100), be16b(vid|o&0xf000)))
		}
	}
	c.run("prog", "v=p.NewVLAN();!v")
	c.run("prog", "v=p.NewVLAN();$v.VID=77;$v.PCP=3;!v")
	c.run("prog", "v=p.NewVLAN();$v.UnmarshalBinary(x81002005);!v")
	c.run("prog", "v=p.NewVLAN();$v.UnmarshalBinary(x810020);!v")
}

// ---- ARP, ICMP, TCP, UDP ----------------------------------------------------------------------------

var mapped4 = append(append(make([]byte, 10), 0xff, 0xff), 192, 168, 1, 9)

func ipVariants() [][]byte {
	return [][]byte{
		{10, 0, 0, 1}, mapped4, protoSeqBytes(16, 0x20), nil, {1, 2, 3}, {1, 2, 3, 4, 5}, protoSeqBytes(20, 1),
		append(append(make([]byte, 10), 0xff, 0xfe), 1, 2, 3, 4), append(append([]byte{0, 0, 0, 0, 0, 0, 0, 0, 0, 1}, 0xff, 0xff), 1, 2, 3, 4),
	}
}

func genLeaves(c *Ctx) {
	mac1, mac2 := protoSeqBytes(6, 0x11), protoSeqBytes(6, 0x21)
	// ARP
	c.encDecP("p.ARP", tARP(1, 0x800, 6, 4, 1, mac1, []byte{10, 0, 0, 1}, mac2, []byte{10, 0, 0, 2}))
	c.encDecP("p.ARP", tARP(0xffff, 0xfffe, 6, 4, 0xfffd, mac1, mapped4, mac2, mapped4))
	c.encDecP("p.ARP", tARP(1, 0x800, 0, 0, 2, nil, nil, nil, nil))
	for _, ip := range ipVariants() {
		c.encD("p.ARP", tARP(1, 0x800, 6, 4, 1, mac1, ip, mac2, ip))
		c.encD("p.ARP", tARP(1, 0x800, 6, 16, 1, mac1, ip, mac2, []byte{1, 2, 3, 4}))
	}
	lens := []int{0, 1, 5, 6, 7, 63, 64, 127, 128, 129, 254, 255}
	for _, hl := range lens {
		for _, pl := range []int{0, 1, 4, 16, 64, 128, 255} {
			// stored addresses shorter / longer than the length fields; uint8 sum wraps
			c.run("enc", tARP(1, 0x800, hl, pl, 1, mac1, []byte{10, 0, 0, 1}, mac2, []byte{10, 0, 0, 2}))
		}
	}
	c.encD("p.ARP", tARP(1, 0x800, 8, 4, 1, protoSeqBytes(8, 1), []byte{10, 0, 0, 1}, protoSeqBytes(3, 1), []byte{10, 0, 0, 2}))
	// hostile ARP frames: HWLength / ProtoLength 0, 1, max, wrap-around, with short and long tails
	for _, hl := range []int{0, 1, 5, 6, 7, 127, 128, 255} {
		for _, pl := range []int{0, 1, 3, 4, 5, 128, 255} {
			hdr := cat(be16b(1), be16b(0x800), []byte{byte(hl), byte(pl)}, be16b(2))
			need := 2*hl + 2*pl
			for _, tail := range []int{0, need - 1, need, need + 3} {
				if tail >= 0 && tail <= 1100 {
					c.dec2("p.ARP", cat(hdr, protoSeqBytes(tail, 0x30)))
				}
			}
		}
	}
	c.run("prog", "a=p.NewARP(1);!a")
	c.run("prog", "a=p.NewARP(2);$a.IPSrc=x0a000001;$a.HWDst=xffffffffffff;!a")
	c.run("prog", "a=p.NewARP(0);!a")
	c.run("prog", "a=p.NewARP(3);!a")
	c.run("prog", "a=p.NewARP(2);$a.UnmarshalBinary(x0001080002010001aabbccdd);!a")

	// ICMP
	for _, n := range counts {
		if n == 0 || n == 3 {
			c.encDecP("p.ICMP", tICMP(8, 0, 0xf7ff, protoSeqBytes(n, 0x61)))
		} else {
			c.encD("p.ICMP", tICMP(8, 0, 0xf7ff, protoSeqBytes(n, 0x61)))
		}
	}
	c.encD("p.ICMP", tICMP(255, 254, 0xffff, protoSeqBytes(64, 0)))
	c.encD("p.ICMP", tICMP(0, 1, 1, protoSeqBytes(1500, 0)))
	c.run("prog", "i=p.NewICMP();!i")
	c.run("prog", "i=p.NewICMP();$i.UnmarshalBinary(x0800f7ff0102);$i.UnmarshalBinary(x00000000);!i")

	// UDP
	for _, n := range counts {
		if n == 0 || n == 3 {
			c.encDecP("p.UDP", tUDP(53, 0x1122, 8+n, 0xfffe, protoSeqBytes(n, 0x41)))
		} else {
			c.encD("p.UDP", tUDP(53, 0x1122, 8+n, 0xfffe, protoSeqBytes(n, 0x41)))
		}
	}
	c.encD("p.UDP", tUDP(65535, 0, 0, 65535, protoSeqBytes(100, 0)))
	c.run("prog", "u=p.NewUDP();!u")
	// UnmarshalBinary APPENDS to an existing payload
	c.run("prog", "u=p.NewUDP();$u.UnmarshalBinary(x0001000200090000aa);$u.UnmarshalBinary(x000300040009ffffbbcc);!u")
	c.run("prog", "u=p.UDP(1,2,3,4,x010203);$u.UnmarshalBinary(x0001000200090000);!u")

	// TCP: byte 12 = HdrLen<<4 & 0xf0, byte 13 = Code & 0x3f — every value of both fields
	for _, n := range []int{0, 3} {
		c.encDecP("p.TCP", tTCP(80, 0x1234, 0x01020304, 0xa1a2a3a4, 5, 0x12, 0x2000, 0xbeef, 7, protoSeqBytes(n, 0x71)))
	}
	c.encD("p.TCP", tTCP(65535, 65534, 0xffffffff, 0xfffffffe, 15, 63, 65535, 65535, 65535, protoSeqBytes(40, 0)))
	for v := 0; v < 256; v++ {
		c.run("enc", tTCP(1, 2, 3, 4, v, 255-v, 5, 6, 7, nil))
		c.run("enc", tTCP(1, 2, 3, 4, 255, v, 5, 6, 7, nil))
		hdr := cat(be16b(1), be16b(2), []byte{0, 0, 0, 3, 0, 0, 0, 4})
		c.decCase("dec", "p.TCP", cat(hdr, []byte{byte(v), 0}, be16b(5), be16b(6), be16b(7)), 0)
		c.decCase("dec", "p.TCP", cat(hdr, []byte{0xff, byte(v)}, be16b(5), be16b(6), be16b(7), []byte{9}), 0)
	}
	c.run("prog", "t=p.NewTCP();!t")
	// a 20-byte segment leaves the previous payload in place
	c.run("prog", "t=p.NewTCP();$t.UnmarshalBinary(x0001000200000003000000045012200000000000aabb);$t.UnmarshalBinary(x0009000200000003000000045012200000000000);!t")
}

// ---- IGMP -------------------------------------------------------------------------------------------

func srcList(n int) [][]byte {
	all := ipVariants()
	var out [][]byte
	for i := 0; i < n; i++ {
		if i < 2 {
			out = append(out, []byte{10, 1, byte(i), 9})
		} else {
			out = append(out, all[(i-2)%len(all)])
		}
	}
	return out
}

func genIGMP(c *Ctx) {
	grp := []byte{224, 0, 0, 22}
	// v1/v2
	for _, ty := range []int{0x11, 0x12, 0x16, 0x17, 0, 255} {
		c.encD("p.IGMPv1or2", tIGMP12(ty, 100, 0xfa04, grp))
	}
	c.encDecP("p.IGMPv1or2", tIGMP12(0x16, 255, 0xffff, grp))
	for _, ip := range ipVariants() {
		c.encD("p.IGMPv1or2", tIGMP12(0x11, 1, 2, ip))
	}
	// v3 query: byte 8 = S(bit 3) | QRV&7 — every value
	for _, n := range counts {
		if n == 0 || n == 2 {
			c.encDecP("p.IGMPv3Query", tV3Q(0x11, 100, 0xec9a, grp, 0, 1, 2, 125, n, srcList(n)))
		} else {
			c.encD("p.IGMPv3Query", tV3Q(0x11, 100, 0xec9a, grp, 0, 1, 2, 125, n, srcList(n)))
		}
	}
	for v := 0; v < 256; v++ {
		c.run("enc", tV3Q(0x11, 1, 2, grp, v, 0, v, 3, 0, nil))
		c.run("enc", tV3Q(0x11, 1, 2, grp, 255-v, 1, v, 3, 0, nil))
		c.decCase("dec", "p.IGMPv3Query", cat([]byte{0x11, 1, 0, 2}, grp, []byte{byte(v), 3, 0, 0}), 0)
	}
	// NumberOfSources disagreeing with the list, wrap-around of 12+4N
	for _, ns := range []int{0, 1, 2, 3, 4, 7, 8, 255, 256, 16380, 16381, 16382, 16383, 16384, 32768, 65535} {
		for _, n := range []int{0, 1, 3} {
			c.run("enc", tV3Q(0x11, 100, 0, grp, 0, 0, 0, 0, ns, srcList(n)))
		}
		for _, tail := range []int{0, 4, 8, 40} {
			c.dec2("p.IGMPv3Query", cat([]byte{0x11, 100, 0, 0}, grp, []byte{0x0a, 125}, be16b(ns), protoSeqBytes(tail, 0x50)))
		}
	}
	for _, ip := range ipVariants() {
		c.run("enc", tV3Q(0x11, 100, 0, ip, 0, 0, 0, 0, 2, [][]byte{ip, {1, 2, 3, 4}}))
	}
	c.run("prog", "q=p.IGMPv3Query(17,0,0,x,0,0,0,0,0,[x01010101]);$q.UnmarshalBinary(x11640000e00000160a7d0001c0a80001);!q")

	// group record
	for _, n := range counts {
		for _, a := range []int{0, 1, 3} {
			aux := make([]uint32, a)
			for i := range aux {
				aux[i] = 0x01020304 * uint32(i+1)
			}
			term := tGR(1+n%6, a, n, grp, srcList(n), aux)
			if (a == 0 && n == 0) || (n == 2 && a == 1) {
				c.encDecP("p.IGMPv3GroupRecord", term)
			} else {
				c.encD("p.IGMPv3GroupRecord", term)
			}
		}
	}
	for _, ns := range []int{0, 1, 2, 7, 16381, 16382, 16383, 65535} {
		for _, aux := range []int{0, 1, 2, 255} {
			c.run("enc", tGR(4, aux, ns, grp, srcList(2), []uint32{7}))
			for _, tail := range []int{0, 4, 8, 16} {
				c.dec2("p.IGMPv3GroupRecord", cat([]byte{4, byte(aux)}, be16b(ns), grp, protoSeqBytes(tail, 0x60)))
			}
		}
	}
	// 8 + 4*aux + 4*ns wrapping to a small value
	c.run("enc", tGR(4, 255, 16127, grp, srcList(1), nil))
	c.run("enc", tGR(4, 254, 16128, grp, srcList(1), nil))
	c.dec2("p.IGMPv3GroupRecord", cat([]byte{4, 255}, be16b(16127), grp, protoSeqBytes(32, 0x60)))
	c.dec2("p.IGMPv3GroupRecord", cat([]byte{4, 254}, be16b(16128), grp, protoSeqBytes(32, 0x60)))
	for _, ip := range ipVariants() {
		c.run("enc", tGR(1, 0, 2, ip, [][]byte{ip, {1, 2, 3, 4}}, nil))
	}

	// membership report
	rec := func(i int) string { return tGR(1+i%6, 0, i%3, []byte{224, 0, 1, byte(i)}, srcList(i%3), nil) }
	for _, n := range counts {
		var recs []string
		for i := 0; i < n; i++ {
			recs = append(recs, rec(i))
		}
		if n == 0 || n == 3 {
			c.encDecP("p.IGMPv3MembershipReport", tRep(0x22, 0, 0xf9fc, 0, n, recs))
		} else {
			c.encD("p.IGMPv3MembershipReport", tRep(0x22, 0, 0xf9fc, 0, n, recs))
		}
		c.run("enc", tRep(0x22, 0xaa, 1, 0xbbcc, 0, recs)) // reserved fields are not written; count disagrees
		c.run("enc", tRep(0x22, 0, 1, 0, 65535, recs))
	}
	// records whose cached counts disagree with their lists inside a report
	c.run("enc", tRep(0x22, 0, 0, 0, 2, []string{tGR(1, 0, 3, grp, srcList(1), nil), tGR(2, 1, 0, grp, nil, nil)}))
	c.run("enc", tRep(0x22, 0, 0, 0, 2, []string{tGR(1, 0, 0, grp, srcList(2), nil), tGR(2, 0, 1, grp, srcList(1), []uint32{5})}))
	c.run("enc", tRep(0x22, 0, 0, 0, 1, []string{tGR(1, 0, 16382, grp, srcList(2), nil)}))
	r8 := cat([]byte{1, 0, 0, 0}, grp)
	r12 := cat([]byte{2, 0, 0, 1}, grp, []byte{10, 0, 0, 1})
	for _, ng := range []int{0, 1, 2, 3, 255, 256, 65535} {
		for _, body := range [][]byte{nil, r8, cat(r8, r12), cat(r12, r8, r8), cat(r8, []byte{1, 2, 3}), cat([]byte{3, 1, 0, 0}, grp, []byte{1, 2, 3, 4}, r8)} {
			c.dec2("p.IGMPv3MembershipReport", cat([]byte{0x22, 0xee}, be16b(0x1234), be16b(0xdddd), be16b(ng), body))
		}
	}
	c.run("prog", "r=p.NewIGMPv3Report([]);$r.UnmarshalBinary(x2200000000000001"+hex.EncodeToString(r8)+");$r.UnmarshalBinary(x2200000000000001"+hex.EncodeToString(r12)+");!r")
	// a record of exactly 65536 bytes (16382 sources): its 16-bit size is 0. A report announcing 65535 groups but
	// holding only that record must fail fast on the missing second record; decoding must stay proportional to the
	// input (a cursor that advances by the wrapped size would decode the same 64 KiB 65535 times)
	big := cat([]byte{1, 0}, be16b(16382), grp, protoSeqBytes(4*16382, 7))
	c.dec2("p.IGMPv3MembershipReport", cat([]byte{0x22, 0}, be16b(0), be16b(0), be16b(65535), big))
	c.dec2("p.IGMPv3MembershipReport", cat([]byte{0x22, 0}, be16b(0), be16b(0), be16b(2), big, r8))
}

// ---- IPv6 extension headers -------------------------------------------------------------------------

func optsOfLen(k int) ([]string, []byte) {
	// k options: PadN of growing size
	var ts []string
	var bs []byte
	for i := 0; i < k; i++ {
		d := protoSeqBytes(i+1, byte(0x10*(i+1)))
		ts = append(ts, tOpt(1+i, len(d), d))
		bs = append(bs, byte(1+i), byte(len(d)))
		bs = append(bs, d...)
	}
	return ts, bs
}

func genExtHeaders(c *Ctx) {
	// Option: Len = uint8(Length+2)
	c.encDecP("p.Option", tOpt(1, 4, []byte{1, 2, 3, 4}))
	c.encDecP("p.Option", tOpt(0, 0, nil))
	for _, ln := range []int{0, 1, 2, 3, 127, 128, 252, 253, 254, 255} {
		c.run("enc", tOpt(5, ln, protoSeqBytes(ln, 1)))
		c.run("enc", tOpt(5, ln, []byte{9}))
		c.run("enc", tOpt(5, ln, protoSeqBytes(300, 1)))
		for _, tail := range []int{0, 1, ln - 1, ln, ln + 1, 300} {
			if tail >= 0 {
				c.dec2("p.Option", cat([]byte{5, byte(ln)}, protoSeqBytes(tail, 0x70)))
			}
		}
	}
	c.dec2("p.Option", nil)
	c.dec2("p.Option", []byte{1})

	// HopByHop
	for _, k := range []int{0, 1, 2, 3} {
		ts, bs := optsOfLen(k)
		hel := (2 + len(bs) + 7) / 8
		if hel > 0 {
			hel--
		}
		c.encDecP("p.HopByHopHeader", tHbh(17, hel, ts))
		c.run("enc", tHbh(17, 0, ts))   // options overflowing the declared size
		c.run("enc", tHbh(17, 255, ts)) // size 0
		c.run("enc", tHbh(17, 254, ts))
	}
	c.run("enc", tHbh(17, 1, []string{"~"}))
	c.run("enc", tHbh(17, 1, []string{tOpt(1, 254, nil)}))
	c.run("enc", tHbh(17, 1, []string{tOpt(1, 255, nil), tOpt(2, 1, []byte{7})}))
	c.run("enc", tHbh(17, 63, []string{tOpt(1, 250, protoSeqBytes(250, 0)), tOpt(2, 250, protoSeqBytes(250, 1))}))
	for _, hel := range []int{0, 1, 2, 127, 254, 255} {
		for _, first := range [][]byte{{1, 4, 0, 0, 0, 0}, {0, 0, 1, 2, 0, 0}, {1, 5, 0, 0, 0, 0}, {1, 3, 0, 0, 0, 0}, {1, 253, 0, 0, 0, 0}, {1, 255, 0, 0, 0, 0}} {
			for _, total := range []int{2, 7, 8, 16, 8 * (hel + 1) % 2048, 8*(hel+1)%2048 + 5} {
				if total < 2 {
					continue
				}
				b := make([]byte, total)
				b[0], b[1] = 58, byte(hel)
				copy(b[2:], first)
				c.dec2("p.HopByHopHeader", b)
			}
		}
	}
	// option length 254: Option.Len() == 0, the option loop never advances (spin) — one representative each
	spin := make([]byte, 8*40)
	spin[0], spin[1], spin[2], spin[3] = 58, 39, 1, 254
	c.decCase("dec", "p.HopByHopHeader", spin, 0)
	// option length 255: Option.Len() == 1
	l255 := make([]byte, 8*40)
	l255[0], l255[1], l255[2], l255[3] = 58, 39, 1, 255
	c.decCase("dec", "p.HopByHopHeader", l255, 0)
	c.dec2("p.HopByHopHeader", nil)
	c.dec2("p.HopByHopHeader", []byte{0})
	c.run("prog", "h=p.NewHopByHopHeader();!h")
	c.run("prog", "h=p.NewHopByHopHeader();$h.UnmarshalBinary(x3a00010401020304);$h.UnmarshalBinary(x1100010000010000);!h")

	// Routing
	for _, n := range []int{0, 4, 12, 20} {
		hel := (4 + n + 7) / 8
		if hel > 0 {
			hel--
		}
		c.encDecP("p.RoutingHeader", tRt(6, hel, 2, 1, tBuf(protoSeqBytes(n, 0x31))))
	}
	// routing headers whose data fills 256 bytes and more exactly (type-0 / segment routing with 16+ addresses)
	// (self-consistent values: HEL matches the data, so the children-intact check applies to them)
	for _, hel := range []int{0, 2, 30, 31, 32, 33, 62, 63, 64, 100, 254, 255} {
		rt := tRt(17, hel, 0, hel/2, tBuf(protoSeqBytes(8*(hel+1)-4, 0x11)))
		c.encDecP("p.RoutingHeader", rt)
		c.run("embed", rt)
		q := baseIP6()
		q.nh, q.rt, q.length = 43, rt, 8*(hel+1)+8
		c.run("enc", q.term())
		c.run("embed", q.term())
		// hop-by-hop header of the same size: one PadN option per 256 bytes, then Pad1 bytes
		var opts []string
		rem := 8*(hel+1) - 2
		for rem >= 2 {
			l := rem - 2
			if l > 255 {
				l = 255
			}
			opts = append(opts, tOpt(1, l, protoSeqBytes(l, 0x51)))
			rem -= 2 + l
		}
		for ; rem > 0; rem-- {
			opts = append(opts, tOpt(0, 0, nil))
		}
		hb := tHbh(17, hel, opts)
		c.run("enc", hb)
		c.run("embed", hb)
		q = baseIP6()
		q.nh, q.hbh, q.length = 0, hb, 8*(hel+1)+8
		c.run("embed", q.term())
	}
	c.run("enc", tRt(6, 0, 0, 0, "~"))
	c.run("enc", tRt(6, 255, 0, 0, tBuf(nil)))
	c.run("enc", tRt(6, 254, 3, 4, tBuf(protoSeqBytes(5, 1))))
	c.run("enc", tRt(6, 0, 3, 4, tBuf(protoSeqBytes(50, 1))))
	for _, hel := range []int{0, 1, 2, 127, 254, 255} {
		for _, total := range []int{2, 3, 4, 7, 8, 9, 16, 24, 8 * (hel + 1) % 2048, 8*(hel+1)%2048 + 5} {
			if total < 2 {
				continue
			}
			b := protoSeqBytes(total, 0x80)
			b[0], b[1] = 44, byte(hel)
			c.dec2("p.RoutingHeader", b)
		}
	}
	c.dec2("p.RoutingHeader", nil)
	c.dec2("p.RoutingHeader", []byte{1})
	c.run("prog", "h=p.NewRoutingHeader();!h")

	// Fragment: FragmentOffset(13) Res(2) M(1)
	c.encDecP("p.FragmentHeader", tFrag(17, 0, 0x1abc, 1, 0xdeadbeef))
	c.encDecP("p.FragmentHeader", tFrag(0, 255, 0, 0, 0))
	for _, m := range []int{0, 1} {
		offs := fieldSample(13, 16)
		for i := 0; i < 24; i++ {
			offs = append(offs, c.rng.Intn(8192))
		}
		for _, off := range offs {
			c.encD("p.FragmentHeader", tFrag(6, 7, off, m, 0x01020304))
		}
	}
	for _, o := range []int{0, 0xffff} {
		for _, off := range fieldSample(13, 13) {
			c.decCase("dec", "p.FragmentHeader", cat([]byte{6, 7}, be16b(off<<3|o&7), []byte{1, 2, 3, 4}), 0)
		}
		for low := 0; low < 8; low++ {
			c.decCase("dec", "p.FragmentHeader", cat([]byte{6, 7}, be16b(low|o&0xfff8), []byte{1, 2, 3, 4}), 0)
		}
	}
	c.run("prog", "h=p.NewFragmentHeader();!h")
}

// ---- payload catalogue ------------------------------------------------------------------------------

type payload struct {
	name  string
	et    int // matching ethertype (0 = none)
	proto int // matching IP protocol (-1 = none)
	term  string
}

func payloads() []payload {
	grp := []byte{224, 0, 0, 22}
	ip := baseIP4()
	ip.data = tUDP(68, 67, 12, 0, []byte{1, 2, 3, 4})
	ip6 := baseIP6()
	return []payload{
		{"nil", 0, -1, "~"},
		{"buffer", 0x9999, 99, tBuf(protoSeqBytes(5, 0xd0))},
		{"buffer0", 0x9999, 99, tBuf(nil)},
		{"arp", 0x0806, -1, tARP(1, 0x800, 6, 4, 1, protoSeqBytes(6, 1), []byte{10, 0, 0, 1}, protoSeqBytes(6, 7), []byte{10, 0, 0, 2})},
		{"ipv4", 0x0800, 4, ip.term()},
		{"ipv6", 0x86dd, 41, ip6.term()},
		{"icmp", 0, 1, tICMP(8, 0, 0x1234, []byte{1, 2, 3})},
		{"tcp", 0, 6, tTCP(80, 81, 1, 2, 5, 2, 3, 4, 5, []byte{9, 9})},
		{"udp", 0, 17, tUDP(1, 2, 10, 3, []byte{7, 7})},
		{"igmp12", 0, 2, tIGMP12(0x16, 0, 1, grp)},
		{"igmp3q", 0, 2, tV3Q(0x11, 1, 2, grp, 0, 1, 2, 3, 1, srcList(1))},
		{"igmp3gr", 0, -1, tGR(1, 0, 1, grp, srcList(1), nil)},
		{"igmp3r", 0, 2, tRep(0x22, 0, 0, 0, 1, []string{tGR(1, 0, 1, grp, srcList(1), nil)})},
		{"vlan", 0x8100, -1, tVLAN(0x8100, 1, 0, 9)},
		{"option", 0, -1, tOpt(1, 2, []byte{1, 2})},
		{"hbh", 0, 0, tHbh(17, 0, []string{tOpt(1, 4, []byte{1, 2, 3, 4})})},
		{"routing", 0, 43, tRt(17, 0, 1, 2, tBuf([]byte{1, 2, 3, 4}))},
		{"fragment", 0, 44, tFrag(17, 0, 5, 1, 77)},
		{"ethernet", 0x6558, 97, tEth(0, protoSeqBytes(6, 1), protoSeqBytes(6, 2), tVLAN(0, 0, 0, 0), 0x1111, tBuf([]byte{0xee}))},
		// IPv4 with IHL 0 inside a container: Len() repairs it there too
		{"ipv4-ihl0", 0x0800, 4, ip4{ver: 4, ttl: 1, proto: 17, src: []byte{1, 1, 1, 1}, dst: []byte{2, 2, 2, 2}, data: "~"}.term()},
	}
}

// ---- IPv4 -------------------------------------------------------------------------------------------

func ip4Wire(b0, b1 byte, flg int, proto byte, opts, body []byte) []byte {
	h := cat([]byte{b0, b1}, be16b(20+len(opts)+len(body)), be16b(0x1234), be16b(flg), []byte{64, proto}, be16b(0xabcd),
		[]byte{10, 0, 0, 1, 10, 0, 0, 2})
	return cat(h, opts, body)
}

func genIPv4(c *Ctx) {
	udp := tUDP(68, 67, 12, 0x1111, []byte{1, 2, 3, 4})
	icmp := tICMP(8, 0, 0x2222, []byte{5, 6})
	tcp := tTCP(80, 81, 1, 2, 5, 2, 3, 4, 5, []byte{9, 9})
	// protocols 1, 6, 17, other — full variant sets
	for _, pp := range []struct {
		proto int
		data  string
	}{{1, icmp}, {6, tcp}, {17, udp}, {89, tBuf(protoSeqBytes(6, 0xc0))}} {
		p := baseIP4()
		p.proto, p.data = pp.proto, pp.data
		c.encDecP("p.IPv4", p.term())
	}
	// every payload kind, matching and non-matching protocol number
	for _, pl := range payloads() {
		p := baseIP4()
		p.data = pl.term
		if pl.proto >= 0 {
			p.proto = pl.proto
		} else {
			p.proto = 253
		}
		c.encD("p.IPv4", p.term())
		p.proto = 17
		p.ihl = 0
		c.encD("p.IPv4", p.term())
	}
	// options 0..40 bytes, IHL consistent / too small / too large
	for _, ol := range []int{0, 1, 4, 8, 39, 40, 41, 44} {
		for _, ihl := range []int{0, 5, 5 + (ol+3)/4, 15} {
			p := baseIP4()
			p.opts, p.ihl, p.data = protoSeqBytes(ol, 0x90), ihl, udp
			if ihl == 5+(ol+3)/4 && ol == 4 {
				c.encDecP("p.IPv4", p.term())
			} else {
				c.encD("p.IPv4", p.term())
			}
			p.data = "~"
			c.run("enc", p.term())
		}
	}
	// version/IHL byte: every value of both nibbles, and IHL beyond 4 bits (IHL*4 wraps in uint8)
	for ver := 0; ver < 16; ver++ {
		for ihl := 0; ihl < 16; ihl++ {
			p := baseIP4()
			p.ver, p.ihl, p.data = ver, ihl, udp
			c.run("enc", p.term())
		}
	}
	for _, v := range []int{16, 17, 31, 32, 63, 64, 65, 66, 68, 69, 127, 128, 129, 133, 192, 193, 254, 255} {
		for _, d := range []string{"~", udp, tBuf(protoSeqBytes(30, 1))} {
			p := baseIP4()
			p.ihl, p.data = v, d
			c.run("enc", p.term())
			p = baseIP4()
			p.ver, p.data = v, d
			c.run("enc", p.term())
		}
	}
	// DSCP/ECN byte: every value of each field with the other at 0 / max, and beyond their widths
	for v := 0; v < 256; v++ {
		p := baseIP4()
		p.dscp, p.ecn = v, 0
		c.run("enc", p.term())
		p.dscp, p.ecn = v, 3
		c.run("enc", p.term())
		if v < 64 || v%16 == 15 {
			p.dscp, p.ecn = 0, v
			c.run("enc", p.term())
			p.dscp, p.ecn = 63, v
			c.run("enc", p.term())
		}
	}
	// flags(3)/fragment offset(13)
	for _, o := range []int{0, 1} {
		for _, fl := range append(allUpTo(8), 8, 9, 0x7fff, 0x8000, 0xffff) {
			p := baseIP4()
			p.flags, p.frag = fl, o*0x1fff
			c.run("enc", p.term())
		}
		for _, fr := range fieldSample(13, 16) {
			p := baseIP4()
			p.flags, p.frag = o*7, fr
			c.run("enc", p.term())
		}
	}
	// address forms
	for _, ip := range ipVariants() {
		p := baseIP4()
		p.src, p.dst = ip, []byte{1, 2, 3, 4}
		c.run("enc", p.term())
		p.src, p.dst = []byte{1, 2, 3, 4}, ip
		c.run("enc", p.term())
	}
	// decoder: every first byte (IHL < 5 panics on data[20:IHL*4]) and every second byte; 60 bytes available
	body := protoSeqBytes(48, 0xc0)
	for v := 0; v < 256; v++ {
		c.decCase("dec", "p.IPv4", ip4Wire(byte(v), 0, 0x4000, 17, nil, body), 0)
		c.decCase("dec", "p.IPv4", ip4Wire(0x45, byte(v), 0x4000, 6, nil, body[:4]), 0)
	}
	// IHL against the available bytes: exact, one short (reaching into spare capacity), none
	for ihl := 0; ihl < 16; ihl++ {
		for _, avail := range []int{20, 4*ihl - 1, 4 * ihl, 4*ihl + 1, 4*ihl + 8, 60} {
			if avail < 20 {
				continue
			}
			protos := []byte{17}
			if ihl == 5 || ihl == 6 {
				protos = []byte{1, 17, 6}
			}
			for _, proto := range protos {
				b := ip4Wire(byte(0x40|ihl), 0, 0, proto, nil, protoSeqBytes(avail-20, 0x50))
				c.dec2("p.IPv4", b)
			}
		}
	}
	for _, o := range []int{0, 0xffff} {
		for fl := 0; fl < 8; fl++ {
			c.decCase("dec", "p.IPv4", ip4Wire(0x45, 0, fl<<13|o&0x1fff, 99, nil, nil), 0)
		}
		for _, fr := range fieldSample(13, 13) {
			c.decCase("dec", "p.IPv4", ip4Wire(0x45, 0, fr|o&0xe000, 99, nil, nil), 0)
		}
	}
	c.run("prog", "i=p.NewIPv4();!i")
	c.run("prog", "i=p.NewIPv4();u=p.UDP(1,2,8,0,x);$i.Version=4;$i.Protocol=17;$i.Data=$u;!i")
	// the receiver's Options buffer is reset, Data replaced
	c.run("prog", "i=p.IPv4(4,6,0,0,0,0,0,0,0,17,0,x01010101,x02020202,u.Buffer(xaabbccdd),p.UDP(9,9,9,9,x09));$i.UnmarshalBinary(x"+
		hex.EncodeToString(ip4Wire(0x45, 0, 0, 17, nil, []byte{0, 1, 0, 2, 0, 9, 0, 0, 0x77}))+");!i")
}

// ---- IPv6 -------------------------------------------------------------------------------------------

func ip6Wire(w0 uint32, nh byte, body []byte) []byte {
	h := make([]byte, 8)
	binary.BigEndian.PutUint32(h, w0)
	binary.BigEndian.PutUint16(h[4:], uint16(len(body)))
	h[6], h[7] = nh, 64
	return cat(h, protoSeqBytes(16, 0x20), protoSeqBytes(16, 0x40), body)
}
func hbhWire(next, hel byte, opts []byte) []byte {
	b := make([]byte, 8*(int(hel)+1))
	b[0], b[1] = next, hel
	copy(b[2:], opts)
	return b
}
func rtWire(next, hel byte) []byte {
	b := protoSeqBytes(8*(int(hel)+1), 0x30)
	b[0], b[1] = next, hel
	return b
}
func frWire(next byte) []byte { return []byte{next, 0, 0x12, 0x39, 1, 2, 3, 4} }

var extTypes = []int{0, 43, 44}

// all chains of at most n extension header types
func chains(n int) [][]int {
	out := [][]int{{}}
	prev := [][]int{{}}
	for i := 0; i < n; i++ {
		var next [][]int
		for _, p := range prev {
			for _, t := range extTypes {
				next = append(next, append(append([]int{}, p...), t))
			}
		}
		out = append(out, next...)
		prev = next
	}
	return out
}

func genIPv6(c *Ctx) {
	udp := tUDP(68, 67, 12, 0x1111, []byte{1, 2, 3, 4})
	finals := []struct {
		nh   int
		data string
		wire []byte
	}{
		{17, udp, []byte{0, 68, 0, 67, 0, 12, 0x11, 0x11, 1, 2, 3, 4}},
		{58, tICMP(128, 0, 0x2222, []byte{5, 6}), []byte{128, 0, 0x22, 0x22, 5, 6}},
		{6, tBuf(protoSeqBytes(6, 0xc0)), protoSeqBytes(6, 0xc0)},
	}
	for i, f := range finals {
		p := baseIP6()
		p.nh, p.data = f.nh, f.data
		if i == 0 {
			c.encDecP("p.IPv6", p.term())
		} else {
			c.encD("p.IPv6", p.term())
		}
	}
	for _, pl := range payloads() {
		p := baseIP6()
		p.data = pl.term
		p.nh = 59
		if pl.proto > 0 && pl.proto != 43 && pl.proto != 44 {
			p.nh = pl.proto
		}
		c.encD("p.IPv6", p.term())
	}
	// every chain of up to 3 extension headers: as a value (the struct holds one header per type, so a repeated type
	// refers to itself) and on the wire (the decoder overwrites a repeated type)
	for ci, ch := range chains(3) {
		f := finals[ci%len(finals)]
		nextOf := map[int]int{}
		for i, t := range ch {
			if i+1 < len(ch) {
				nextOf[t] = ch[i+1]
			} else {
				nextOf[t] = f.nh
			}
		}
		p := baseIP6()
		p.data = f.data
		p.nh = f.nh
		if len(ch) > 0 {
			p.nh = ch[0]
		}
		nopt := ci % 4
		ots, obs := optsOfLen(nopt)
		hel := (2 + len(obs) + 7) / 8
		if hel > 0 {
			hel--
		}
		if nx, ok := nextOf[0]; ok {
			p.hbh = tHbh(nx, hel, ots)
		}
		if nx, ok := nextOf[43]; ok {
			p.rt = tRt(nx, 1, 0, 2, tBuf(protoSeqBytes(12, 0x31)))
		}
		if nx, ok := nextOf[44]; ok {
			p.fr = tFrag(nx, 0, 0x123, 1, 0x0a0b0c0d)
		}
		if (len(ch) == 1) || ci == 17 {
			c.encDecP("p.IPv6", p.term())
		} else {
			c.encD("p.IPv6", p.term())
		}
		// headers present but not referenced by the chain are counted by Len() yet not written
		q := p
		q.nh = f.nh
		c.run("enc", q.term())
		// wire form
		var body []byte
		for i, t := range ch {
			nx := byte(f.nh)
			if i+1 < len(ch) {
				nx = byte(ch[i+1])
			}
			switch t {
			case 0:
				body = append(body, hbhWire(nx, byte(hel), obs)...)
			case 43:
				body = append(body, rtWire(nx, byte(i))...)
			case 44:
				body = append(body, frWire(nx)...)
			}
		}
		first := byte(f.nh)
		if len(ch) > 0 {
			first = byte(ch[0])
		}
		w := ip6Wire(0x6a512345, first, cat(body, f.wire))
		c.dec2("p.IPv6", w)
		c.dec2("p.IPv6", w[:len(w)-len(f.wire)])
		if len(w) > 48 {
			c.dec2("p.IPv6", w[:44])
		}
	}
	// nil extension header referenced by the chain, nil payload
	for _, nh := range extTypes {
		p := baseIP6()
		p.nh = nh
		c.run("enc", p.term())
	}
	p := baseIP6()
	p.data = "~"
	c.run("enc", p.term())
	// self-referencing headers, size-0 headers
	p = baseIP6()
	p.nh, p.hbh = 0, tHbh(17, 255, nil)
	c.run("enc", p.term())
	p = baseIP6()
	p.nh, p.rt = 43, tRt(17, 255, 0, 0, tBuf(nil))
	c.run("enc", p.term())
	p = baseIP6()
	p.nh, p.rt = 43, tRt(17, 0, 0, 0, "~")
	c.run("enc", p.term())
	// first word: Version(4) TrafficClass(8) FlowLabel(20); FlowLabel is a uint32 whose bits 20..23 spill into the class
	for _, o := range []int{0, 1} {
		for ver := 0; ver < 16; ver++ {
			p := baseIP6()
			p.ver, p.tc, p.fl = ver, o*255, uint32(o)*0xfffff
			c.encD("p.IPv6", p.term())
		}
		for _, ver := range []int{16, 17, 128, 255} {
			p := baseIP6()
			p.ver, p.tc, p.fl = ver, o*255, uint32(o)*0xfffff
			c.run("enc", p.term())
		}
		for tc := 0; tc < 256; tc++ {
			p := baseIP6()
			p.ver, p.tc, p.fl = o*15, tc, uint32(o)*0xfffff
			c.run("enc", p.term())
		}
		for _, fl := range fieldSample(20, 32) {
			p := baseIP6()
			p.ver, p.tc, p.fl = o*15, o*255, uint32(fl)
			c.encD("p.IPv6", p.term())
		}
		for _, fl := range []uint32{0x100000, 0x200000, 0x800000, 0xf00000, 0x1000000, 0xffffffff, 0xfff00000} {
			p := baseIP6()
			p.ver, p.tc, p.fl = 6, o*255, fl
			c.run("enc", p.term())
		}
	}
	for _, o := range []uint32{0, 0xffffffff} {
		for ver := uint32(0); ver < 16; ver++ {
			c.decCase("dec", "p.IPv6", ip6Wire(ver<<28|o&0x0fffffff, 59, nil), 0)
		}
		for tc := uint32(0); tc < 256; tc++ {
			c.decCase("dec", "p.IPv6", ip6Wire(tc<<20|o&0xf00fffff, 59, nil), 0)
		}
		for _, fl := range fieldSample(20, 20) {
			c.decCase("dec", "p.IPv6", ip6Wire(uint32(fl)|o&0xfff00000, 59, nil), 0)
		}
	}
	// address lengths
	for _, ip := range ipVariants() {
		p := baseIP6()
		p.src = ip
		c.run("enc", p.term())
		p = baseIP6()
		p.dst = ip
		c.run("enc", p.term())
	}
	// hostile: HEL 0, 1, max (size 0) in each header type; option lengths; truncated headers
	for _, hel := range []byte{0, 1, 2, 31, 254, 255} {
		for _, tail := range []int{0, 1, 2, 8, 16, 300} {
			for _, nx := range []byte{17, 0, 43, 44} {
				b := protoSeqBytes(tail, 0)
				if tail > 0 {
					b[0] = nx
				}
				if tail > 1 {
					b[1] = hel
				}
				for i := 2; i < tail; i++ {
					b[i] = 0 // Pad1 options
				}
				if hel == 255 && nx == 0 && tail > 2 {
					continue // spins: representatives below
				}
				c.decCase("dec", "p.IPv6", ip6Wire(0x60000000, 0, b), 0)
				c.decCase("dec", "p.IPv6", ip6Wire(0x60000000, 43, b), 0)
			}
		}
	}
	// HEL = 255 ⇒ size 0: a hop-by-hop header naming itself as next header is parsed forever
	c.decCase("dec", "p.IPv6", ip6Wire(0x60000000, 0, []byte{0, 255, 0, 0, 0, 0, 0, 0}), 0)
	c.decCase("dec", "p.IPv6", ip6Wire(0x60000000, 0, []byte{0, 255}), 24)
	// … followed by routing (panics on data[4:0]), fragment, or a payload at the same offset
	c.dec2("p.IPv6", ip6Wire(0x60000000, 0, []byte{43, 255, 0, 0, 0, 0, 0, 0}))
	c.dec2("p.IPv6", ip6Wire(0x60000000, 0, []byte{44, 255, 0, 0, 0, 0, 0, 0, 17, 0, 0, 0, 0, 0, 0, 0}))
	c.dec2("p.IPv6", ip6Wire(0x60000000, 0, []byte{17, 255, 0, 0, 0, 0, 0, 0}))
	c.dec2("p.IPv6", ip6Wire(0x60000000, 0, []byte{58, 255, 0, 0}))
	// option length 254 inside a hop-by-hop header of an IPv6 packet: spin
	big := make([]byte, 320)
	big[0], big[1], big[2], big[3] = 17, 39, 1, 254
	c.decCase("dec", "p.IPv6", ip6Wire(0x60000000, 0, big), 0)
	big2 := append([]byte{}, big...)
	big2[3] = 255
	c.decCase("dec", "p.IPv6", ip6Wire(0x60000000, 0, big2), 0)
	for _, ol := range []byte{0, 1, 3, 4, 5, 100, 253} {
		c.dec2("p.IPv6", ip6Wire(0x60000000, 0, cat([]byte{17, 0, 1, ol, 9, 9, 9, 9}, protoSeqBytes(8, 1))))
	}
	// the receiver's extension headers survive when the new packet has none
	c.run("prog", "i=p.IPv6(6,0,0,0,0,0,x,x,p.HopByHopHeader(17,0,[]),~,p.FragmentHeader(17,0,0,0,1),~);$i.UnmarshalBinary(x"+
		hex.EncodeToString(ip6Wire(0x60000000, 59, []byte{1, 2}))+");!i")
}

// ---- Ethernet ---------------------------------------------------------------------------------------

func genEthernet(c *Ctx) {
	dst, src := protoSeqBytes(6, 0xd1), protoSeqBytes(6, 0x51)
	vlans := []string{tVLAN(0x8100, 0, 0, 0), tVLAN(0x8100, 3, 1, 5), tVLAN(0x8100, 7, 1, 0), tVLAN(0x88a8, 0, 0, 4095), tVLAN(0, 0, 0, 1)}
	for _, pl := range payloads() {
		for vi, vl := range vlans {
			et := pl.et
			if et == 0 {
				et = 0x88b5
			}
			term := tEth(0, dst, src, vl, et, pl.term)
			full := (vi == 1 && (pl.name == "ipv4" || pl.name == "arp")) || (vi == 0 && (pl.name == "ipv6" || pl.name == "buffer"))
			if full {
				c.encDecP("p.Ethernet", term)
			} else {
				c.encD("p.Ethernet", term)
			}
		}
		// payload not matching the ethertype
		c.encD("p.Ethernet", tEth(1, dst, src, vlans[0], 0x0800, pl.term))
		c.encD("p.Ethernet", tEth(255, dst, src, vlans[1], 0x86dd, pl.term))
		c.encD("p.Ethernet", tEth(0, dst, src, vlans[0], 0x0806, pl.term))
		c.encD("p.Ethernet", tEth(0, dst, src, vlans[0], 0x8100, pl.term))
	}
	// address lengths other than 6
	for _, n := range []int{0, 1, 5, 7, 8, 14, 20} {
		c.encD("p.Ethernet", tEth(0, protoSeqBytes(n, 1), src, vlans[0], 0x0800, "~"))
		c.encD("p.Ethernet", tEth(0, dst, protoSeqBytes(n, 1), vlans[1], 0x0800, tBuf([]byte{1, 2, 3})))
		c.encD("p.Ethernet", tEth(0, protoSeqBytes(n, 1), protoSeqBytes(n, 0x80), vlans[0], 0x0800, tBuf(protoSeqBytes(30, 3))))
	}
	// VID lane against the tag-presence test; PCP/DEI without VID are dropped
	for _, vid := range []int{0, 1, 2, 0x0fff, 0x1000, 0x2000, 0xf000, 0xffff} {
		for _, pcp := range []int{0, 1, 7, 8} {
			c.encD("p.Ethernet", tEth(0, dst, src, tVLAN(0x8100, pcp, 1, vid), 0x0806, tBuf([]byte{0xaa, 0xbb})))
		}
	}
	// hostile frames: VLAN ethertype with short tails, double tags, tag with VID 0
	hdr := cat(dst, src)
	for _, tail := range [][]byte{
		be16b(0x8100), cat(be16b(0x8100), []byte{0}), cat(be16b(0x8100), be16b(5)), cat(be16b(0x8100), be16b(5), []byte{8}),
		cat(be16b(0x8100), be16b(5), be16b(0x0800)), cat(be16b(0x8100), be16b(0), be16b(0x9999), []byte{1, 2}),
		cat(be16b(0x8100), be16b(0xe005), be16b(0x8100), be16b(6), be16b(0x9999)),
		cat(be16b(0x8100), be16b(5), be16b(0x0806), []byte{0, 1, 8, 0, 6, 4, 0, 1}),
		cat(be16b(0x0800)), cat(be16b(0x86dd)), cat(be16b(0x0806)), cat(be16b(0x0806), []byte{0, 1, 8, 0, 1, 1, 0, 1, 9, 8, 7, 6}),
		cat(be16b(0x88cc), []byte{2, 7, 4, 1, 2, 3, 4, 5, 6}),
	} {
		c.dec2("p.Ethernet", cat(hdr, tail))
	}
	c.run("prog", "e=p.NewEthernet();!e")
	c.run("prog", "e=p.NewEthernet();a=p.NewARP(1);$e.Ethertype=2054;$e.Data=$a;!e")
	c.run("prog", "e=p.NewEthernet();i=p.NewIPv4();v=p.VLAN(33024,2,0,100);$e.VLANID=*$v;$e.Data=$i;!e")
	// Delimiter is kept, everything else replaced
	c.run("prog", "e=p.Ethernet(9,x0102,x03,p.VLAN(1,2,3,4),5,u.Buffer(xff));$e.UnmarshalBinary(x"+hex.EncodeToString(cat(hdr, be16b(0x9999), []byte{1}))+");!e")
}

// ---- DHCP -------------------------------------------------------------------------------------------

// dumpProg: run stmts, then observe variable v through obs.Dump
func (c *Ctx) dumpProg(stmts, v string) {
	c.run("prog", stmts+";zz=obs.Dump($"+v+");!zz")
}

func genDHCP(c *Ctx) {
	// option helpers
	for _, tag := range []int{0, 1, 53, 61, 254, 255} {
		for _, n := range []int{0, 1, 2, 4, 252, 253, 254, 255, 300} {
			d := xs(protoSeqBytes(n, 1))
			c.run("fn", "p.DHCPNewOption", tag, d)
			c.run("fn", "p.DHCPMarshalOption", tDOpt(tag, protoSeqBytes(n, 1)))
			c.run("fn", "p.DHCPWriteOption", "u.Buffer(x0102)", tDOpt(tag, protoSeqBytes(n, 1)))
			c.run("fn", "p.DHCPStringOption", tag, d)
			c.dumpProg(fmt.Sprintf("o=p.DHCPNewOption(%d,%s);n=$o.Len()", tag, d), "n")
		}
		c.dumpProg(fmt.Sprintf("o=p.DHCPNewOption(%d,x0a0b);n=$o.OptionType()", tag), "n")
		c.dumpProg(fmt.Sprintf("o=p.DHCPStringOption(%d,x68690a);n=$o.Bytes()", tag), "n")
		c.run("prog", fmt.Sprintf("o=p.DHCPNewOption(%d,x0a0b0c);b=p.DHCPMarshalOption($o);x=u.NewBuffer($b);!x", tag))
	}
	for _, ip := range ipVariants() {
		c.run("fn", "p.DHCPIP4Option", 54, xs(ip))
	}
	all := ipVariants()
	for _, n := range counts {
		c.run("fn", "p.DHCPIP4sOption", 6, ipTerms(srcList(n)))
		if n > 0 {
			c.run("fn", "p.DHCPIP4sOption", 6, ipTerms(append(srcList(n-1), mapped4)))
		}
	}
	for i := range all {
		c.run("fn", "p.DHCPIP4sOption", 3, ipTerms([][]byte{{1, 2, 3, 4}, all[i], {5, 6, 7, 8}}))
	}
	// DHCPParseOptions through fn: only inputs whose options end within the slice (the harness' argument slice has
	// spare capacity of unknown size; overrunning options are exercised through DHCP.Write below, where cap == len)
	for _, in := range [][]byte{
		nil, {0}, {255}, {0, 0, 0}, {53, 1, 1}, {53, 1, 1, 255}, {53, 1, 1, 255, 61, 1, 9}, {0, 53, 1, 2, 0, 255, 0}, {53, 0}, {53, 0, 54, 0, 255},
		{61, 6, 1, 2, 3, 4, 5, 6, 55, 3, 1, 3, 6}, {53}, {53, 1, 1, 61}, {1, 4, 255, 255, 255, 0, 255}, {12, 2, 255, 0},
		cat([]byte{43, 253}, protoSeqBytes(253, 1), []byte{255}), cat([]byte{43, 255}, protoSeqBytes(255, 1)),
	} {
		c.run("fn", "p.DHCPParseOptions", xs(in))
	}
	// constructors
	for _, xid := range []uint32{1, 5, 0x11223344, 0xffffffff} {
		for _, op := range []int{0, 1, 2, 8, 255} {
			for _, ht := range []int{0, 1, 2, 255} {
				if xid == 5 || (op == 1 && ht <= 1) {
					c.run("fn", "p.NewDHCP", xid, op, ht)
				}
			}
		}
	}
	for _, f := range []string{"p.NewDHCPDiscover", "p.NewDHCPOffer", "p.NewDHCPRequest", "p.NewDHCPAck", "p.NewDHCPNak"} {
		for _, n := range []int{0, 1, 6, 8, 16, 17, 20, 255, 256, 300} {
			c.run("fn", f, 7, xs(protoSeqBytes(n, 0x31)))
			if n == 6 || n == 17 || n == 256 {
				c.dumpProg(fmt.Sprintf("d=%s(9,%s);n=$d.Len()", f, xs(protoSeqBytes(n, 0x31))), "n")
				c.run("prog", fmt.Sprintf("d=%s(9,%s);r=obs.Read($d,600);!r", f, xs(protoSeqBytes(n, 0x31))))
			}
		}
	}
	// Len / Read of literal values: option counts 0,1,2,3,7; PAD/END anywhere; oversize option; nil option
	optSets := [][]string{
		nil, {tDOpt(53, []byte{1})}, {tDOpt(53, []byte{1}), tDOpt(255, nil)}, {tDOpt(53, []byte{3}), tDOpt(61, protoSeqBytes(7, 1)), tDOpt(55, []byte{1, 3, 6})},
		{tDOpt(0, nil), tDOpt(0, nil), tDOpt(53, []byte{1}), tDOpt(255, nil), tDOpt(12, []byte("host")), tDOpt(0, []byte{1, 2}), tDOpt(255, []byte{9})},
		{tDOpt(255, nil), tDOpt(53, []byte{1})}, {tDOpt(43, protoSeqBytes(253, 0))}, {tDOpt(43, protoSeqBytes(254, 0))}, {tDOpt(53, []byte{1}), tDOpt(43, protoSeqBytes(300, 0)), tDOpt(255, nil)},
		{"~"}, {tDOpt(53, []byte{1}), "~"},
	}
	for _, os := range optSets {
		d := baseDHCP()
		d.opts = os
		t := "d=" + d.term()
		c.dumpProg(t+";n=$d.Len()", "n")
		c.run("prog", t+";r=obs.Read($d,1200);!r")
		c.dumpProg(t+";n=$d.Read(x"+strings.Repeat("00", 300)+")", "n")
	}
	// Read into buffers of every interesting size
	{
		d := baseDHCP()
		d.opts = optSets[3]
		for _, n := range []int{0, 1, 2, 239, 240, 241, 254, 255, 256, 257, 1000} {
			c.run("prog", "d="+d.term()+fmt.Sprintf(";r=obs.Read($d,%d);!r", n))
			c.dumpProg("d="+d.term()+";n=$d.Read(x"+strings.Repeat("ab", n)+")", "n")
		}
	}
	// field widths: addresses that are not 4 bytes are written whole; ClientHWAddr is cut/padded to 16
	for _, ip := range ipVariants() {
		d := baseDHCP()
		d.cip, d.gip = ip, ip
		c.run("prog", "d="+d.term()+";r=obs.Read($d,400);!r")
	}
	for _, n := range []int{0, 1, 6, 15, 16, 17, 32} {
		d := baseDHCP()
		d.hw, d.hl = protoSeqBytes(n, 0xa0), n
		c.run("prog", "d="+d.term()+";r=obs.Read($d,400);!r")
	}
	{
		d := dhcp{op: 255, ht: 254, hl: 253, ho: 252, xid: 0xfffefdfc, secs: 0xfbfa, flags: 0xf9f8, sname: protoSeqBytes(64, 0x80), file: protoSeqBytes(128, 0x40)}
		c.run("prog", "d="+d.term()+";r=obs.Read($d,400);!r")
		c.dumpProg("d="+d.term(), "d")
	}
	// Write: every truncation class, HardwareLen 0,1,6,16,17,255, bad magic, option lengths 0,1,max, overrun (cap == len)
	rcv := "d=p.NewDHCP(5,1,1)"
	wr := func(b []byte) {
		c.dumpProg(rcv+";n=$d.Write("+xs(b)+")", "d")
		c.dumpProg(rcv+";n=$d.Write("+xs(b)+")", "n")
	}
	good := dhcpWire(6, 0x63825363, []byte{53, 1, 1, 61, 7, 1, 1, 2, 3, 4, 5, 6, 255})
	for _, n := range []int{0, 1, 100, 236, 239, 240, 241, 242, 243, 244, 245, 247, 251, 252, 253} {
		wr(good[:n])
	}
	for _, hl := range []int{0, 1, 6, 15, 16, 17, 128, 255} {
		wr(dhcpWire(byte(hl), 0x63825363, []byte{255}))
	}
	// the other fixed header bytes (op, hardware type, hops) crossed with the hardware length: a bound that holds for
	// Ethernet only, or for requests only, must not let another combination through
	for _, ht := range []int{0, 1, 2, 6, 7, 15, 20, 32, 255} {
		for _, hl := range []int{0, 6, 8, 16, 17, 20, 255} {
			for _, op := range []int{1, 2, 0, 255} {
				b := dhcpWire(byte(hl), 0x63825363, []byte{53, 1, 1, 255})
				b[0], b[1] = byte(op), byte(ht)
				wr(b)
			}
		}
	}
	for _, mg := range []uint32{0, 0x63825362, 0x63825463, 0x53638263, 0xffffffff} {
		wr(dhcpWire(6, mg, []byte{53, 1, 1, 255}))
	}
	for _, opts := range [][]byte{
		nil, {0}, {255}, {0, 0, 0, 0, 0, 0, 0}, {53}, {53, 0}, {53, 1}, {53, 1, 1}, {53, 2, 1}, {53, 255, 1, 2, 3}, {0, 53, 1, 5, 0, 255, 1, 2, 3},
		{255, 53, 1, 1}, {53, 1, 1, 54}, {53, 1, 1, 54, 4, 1, 2, 3}, {53, 1, 1, 54, 4, 1, 2, 3, 4}, {53, 1, 1, 54, 4, 1, 2, 3, 4, 0},
		cat([]byte{43, 255}, protoSeqBytes(255, 1)), cat([]byte{43, 255}, protoSeqBytes(254, 1)), cat([]byte{43, 253}, protoSeqBytes(253, 1), []byte{12, 0, 255}),
		{1, 4, 255, 255, 255, 0, 3, 4, 10, 0, 0, 1, 6, 8, 8, 8, 8, 8, 8, 8, 4, 4, 51, 4, 0, 1, 0x51, 0x80, 255},
	} {
		wr(dhcpWire(6, 0x63825363, opts))
	}
	// Write onto a populated receiver; Write then Read round trip
	{
		d := baseDHCP()
		d.opts = optSets[3]
		c.dumpProg("d="+d.term()+";n=$d.Write("+xs(dhcpWire(2, 0x63825363, []byte{53, 1, 5}))+")", "d")
		c.dumpProg("d="+d.term()+";n=$d.Write("+xs(dhcpWire(2, 0x63825363, nil)[:100])+")", "d")
		c.run("prog", rcv+";$d.Write("+xs(good)+");r=obs.Read($d,600);!r")
		c.dumpProg(rcv+";$d.Write("+xs(good)+");n=$d.Len()", "n")
	}
}

// ---- LLDP -------------------------------------------------------------------------------------------

func genLLDP(c *Ctx) {
	for _, kind := range []string{"ChassisTLV", "PortTLV"} {
		// Read: type(7)/length(9) packed with '+'; the fields are uint8 / uint16, so oversize values carry
		for _, o := range []int{0, 1} {
			tys := allUpTo(128)
			tys = append(tys, 128, 129, 200, 255)
			for _, ty := range tys {
				c.run("prog", "t="+tChassis(kind, ty, o*511, 4, []byte{1, 2})+";r=obs.Read($t,8);!r")
			}
			lns := fieldSample(9, 16)
			for _, ln := range lns {
				c.run("prog", "t="+tChassis(kind, o*127, ln, 4, []byte{1, 2})+";r=obs.Read($t,8);!r")
			}
		}
		for _, n := range counts {
			t := "t=" + tChassis(kind, 1, n+1, 4, protoSeqBytes(n, 0x61))
			for _, bl := range []int{0, 1, 2, 3, 4, n + 2, n + 3, n + 4, 40} {
				c.run("prog", t+fmt.Sprintf(";r=obs.Read($t,%d);!r", bl))
			}
			c.dumpProg(t+";n=$t.Read(x"+strings.Repeat("00", n+1)+")", "n")
		}
		// Write: every type/length lane, truncations, length 0, 1, max
		rcv := "t=" + tChassis(kind, 9, 9, 9, []byte{9, 9})
		wrT := func(b []byte) { c.dumpProg(rcv+";n=$t.Write("+xs(b)+")", "t") }
		wr := func(b []byte) {
			wrT(b)
			c.dumpProg(rcv+";n=$t.Write("+xs(b)+")", "n")
		}
		for _, o := range []int{0, 0xffff} {
			for ty := 0; ty < 128; ty++ {
				w := ty<<9 | o&0x1ff
				wrT(cat(be16b(w), protoSeqBytes(1+w&0x1ff, 0x21)))
			}
			for _, ln := range fieldSample(9, 9) {
				w := ln | o&0xfe00
				wrT(cat(be16b(w), protoSeqBytes(1+ln, 0x21)))
			}
		}
		for _, ln := range []int{0, 1, 2, 7, 255, 256, 510, 511} {
			for _, have := range []int{0, 1, ln - 1, ln, ln + 1, ln + 2, ln + 9} {
				if have >= 0 {
					wr(cat(be16b(1<<9|ln), protoSeqBytes(have, 0x41)))
				}
			}
		}
		wr(nil)
		wr([]byte{2})
	}
	// TTL TLV
	for _, o := range []int{0, 1} {
		for _, ty := range []int{0, 1, 3, 63, 64, 126, 127, 128, 255} {
			c.run("prog", "t="+tTTL(ty, o*511, 120)+";r=obs.Read($t,8);!r")
		}
		for _, ln := range fieldSample(9, 16) {
			c.run("prog", "t="+tTTL(o*127, ln, 0xfffe)+";r=obs.Read($t,8);!r")
		}
	}
	for _, bl := range []int{0, 1, 2, 3, 4, 5} {
		c.run("prog", "t="+tTTL(3, 2, 0x1234)+fmt.Sprintf(";r=obs.Read($t,%d);!r", bl))
		c.dumpProg("t="+tTTL(3, 2, 0x1234)+";n=$t.Read(x"+strings.Repeat("00", bl)+")", "n")
	}
	for _, b := range [][]byte{nil, {6}, {6, 2}, {6, 2, 0}, {6, 2, 0, 120}, {6, 2, 0, 120, 9}, {0xff, 0xff, 0xff, 0xff}, {0, 0, 0, 0}, {7, 0xff, 1, 2}} {
		c.dumpProg("t="+tTTL(9, 9, 9)+";n=$t.Write("+xs(b)+")", "t")
		c.dumpProg("t="+tTTL(9, 9, 9)+";n=$t.Write("+xs(b)+")", "n")
	}
	// LLDP: Read writes all three TLVs to the START of b (and reads Chassis twice); Write parses Chassis, Port, Chassis
	lldp := func(cn, pn int) string {
		return "p.LLDP(" + tChassis("ChassisTLV", 1, cn+1, 4, protoSeqBytes(cn, 0xc1)) + "," + tChassis("PortTLV", 2, pn+1, 5, protoSeqBytes(pn, 0xe1)) + "," + tTTL(3, 2, 120) + ")"
	}
	for _, cn := range []int{0, 1, 6} {
		for _, pn := range []int{0, 2, 9} {
			for _, bl := range []int{0, 1, 3, 5, 12, 40} {
				c.run("prog", "l="+lldp(cn, pn)+fmt.Sprintf(";r=obs.Read($l,%d);!r", bl))
			}
			c.dumpProg("l="+lldp(cn, pn)+";n=$l.Read(x"+strings.Repeat("00", 20)+")", "n")
			c.dumpProg("l="+lldp(cn, pn)+";n=$l.Len()", "n")
		}
	}
	ch := []byte{2, 7, 4, 1, 2, 3, 4, 5, 6}
	pt := []byte{4, 3, 5, 0x31, 0x32}
	tt := []byte{6, 2, 0, 120}
	end := []byte{0, 0}
	frames := [][]byte{
		cat(ch, pt, tt, end), cat(ch, pt, tt), cat(ch, pt), ch, cat(ch, pt, ch), cat(ch, pt, []byte{2, 1, 7}), cat(ch, pt, []byte{2, 0, 7}),
		cat(ch, pt, []byte{2}), cat(ch, pt, []byte{2, 9}), cat(ch, pt, []byte{2, 9, 1}), cat(ch, []byte{4}), cat(ch, []byte{4, 3}), cat(ch, []byte{4, 3, 5}),
		ch[:1], ch[:2], ch[:3], ch[:8], nil, cat([]byte{2, 0, 4}, pt, tt), cat([]byte{2, 0, 4}, []byte{4, 0, 5}, []byte{6, 0, 9}),
		cat([]byte{3, 0xff, 4}, protoSeqBytes(511, 0), pt, tt),
	}
	// the same TLVs with the length counted the way this code does (without the subtype byte)
	ch2 := []byte{2, 6, 4, 1, 2, 3, 4, 5, 6}
	pt2 := []byte{4, 2, 5, 0x31, 0x32}
	frames = append(frames, cat(ch2, pt2, tt), cat(ch2, pt2, []byte{6, 1, 0, 120}), cat(ch2, pt2, []byte{6, 1, 0, 120, 0, 0}), cat(ch2, pt2, ch2), cat(ch2, pt2),
		cat(ch2, pt2, []byte{6}), cat(ch2, pt2, []byte{6, 1}), cat(ch2, pt2, []byte{6, 1, 0}), cat(ch2, []byte{4, 0, 5}, []byte{6, 0, 1}), cat(ch2, pt2[:4]), cat(ch2, pt2[:3]))
	zero := "l=p.LLDP(p.ChassisTLV(0,0,0,x),p.PortTLV(0,0,0,x),p.TTLTLV(0,0,0))"
	for _, f := range frames {
		c.dumpProg(zero+";n=$l.Write("+xs(f)+")", "l")
		c.dumpProg(zero+";n=$l.Write("+xs(f)+")", "n")
	}
	c.dumpProg("l="+lldp(1, 2)+";n=$l.Write("+xs(cat(ch, pt, tt))+")", "l")
}

// ---- constructors -----------------------------------------------------------------------------------

func genCtors(c *Ctx) {
	for _, f := range []string{"p.NewEthernet", "p.NewVLAN", "p.NewIPv4", "p.NewICMP", "p.NewUDP", "p.NewTCP", "p.NewHopByHopHeader",
		"p.NewRoutingHeader", "p.NewFragmentHeader"} {
		c.run("fn", f)
		c.run("prog", "v="+f+"();!v")
		for _, n := range []int{0, 1, 2, 3, 4, 7, 8, 12, 13, 14, 18, 19, 20, 39, 40, 44} {
			c.decCase("decc", f, protoSeqBytes(n, 0x45), 0)
			c.decCase("decc", f, protoSeqBytes(n, 0x45), 24)
		}
	}
	for _, opt := range []int{0, 1, 2, 3, 255, 65536 + 1} {
		c.run("fn", "p.NewARP", opt)
	}
	for _, n := range []int{0, 1, 5, 300} {
		c.run("fn", "u.NewBuffer", xs(protoSeqBytes(n, 1)))
	}
	for _, g := range ipVariants() {
		for _, f := range []string{"p.NewIGMPv1Query", "p.NewIGMPv1Report", "p.NewIGMPv2Report", "p.NewIGMPv2Leave"} {
			c.run("fn", f, xs(g))
			c.run("prog", "v="+f+"("+xs(g)+");!v")
		}
		c.run("fn", "p.NewIGMPv2Query", xs(g), 100)
		c.run("prog", "v=p.NewIGMPv2Query("+xs(g)+",255);!v")
		c.dumpProg("v=p.NewIGMPv2Query("+xs(g)+",255);n=$v.GetMessageType()", "n")
	}
	for _, n := range counts {
		c.run("fn", "p.NewIGMPv3Query", "xe0000001", 10, 125, ipTerms(srcList(n)))
		c.run("prog", "v=p.NewIGMPv3Query(xe0000001,255,0,"+ipTerms(srcList(n))+");!v")
		c.run("fn", "p.NewGroupRecord", 1+n, "xe0000002", ipTerms(srcList(n)))
		c.run("prog", "v=p.NewGroupRecord(4,xe0000002,"+ipTerms(srcList(n))+");!v")
		var recs []string
		for i := 0; i < n; i++ {
			recs = append(recs, tGR(1+i, 0, i%3, []byte{224, 0, 1, byte(i)}, srcList(i%3), nil))
		}
		c.run("fn", "p.NewIGMPv3Report", tList(recs))
		c.run("prog", "v=p.NewIGMPv3Report("+tList(recs)+");!v")
	}
	c.dumpProg("v=p.NewIGMPv3Query(xe0000001,1,2,[]);n=$v.GetMessageType()", "n")
	c.dumpProg("v=p.NewIGMPv3Report([]);n=$v.GetMessageType()", "n")
	c.dumpProg("v=p.IGMPv1or2(99,0,0,x);n=$v.GetMessageType()", "n")
}

// ---- random values and random wire mutations --------------------------------------------------------

func (c *Ctx) rnd(max int) int {
	// biased towards the edges
	switch c.rng.Intn(6) {
	case 0:
		return 0
	case 1:
		return max
	case 2:
		return c.rng.Intn(4)
	}
	return c.rng.Intn(max + 1)
}

func (c *Ctx) rndBytes(max int) []byte {
	n := c.rng.Intn(max + 1)
	b := make([]byte, n)
	c.rng.Read(b)
	return b
}

func (c *Ctx) rndIP() []byte {
	all := ipVariants()
	if c.rng.Intn(3) == 0 {
		return c.rndBytes(18)
	}
	return all[c.rng.Intn(len(all))]
}

func (c *Ctx) rndIPs(max int) [][]byte {
	var out [][]byte
	for i := c.rng.Intn(max + 1); i > 0; i-- {
		out = append(out, c.rndIP())
	}
	return out
}

func (c *Ctx) rndLeaf(depth int) (string, string) {
	k := c.rng.Intn(19)
	if depth <= 0 && (k == 1 || k == 2 || k == 3) {
		k = 0
	}
	switch k {
	case 0:
		return "u.Buffer", tBuf(c.rndBytes(12))
	case 1:
		_, d := c.rndLeaf(depth - 1)
		vl := tVLAN(c.rnd(65535), c.rnd(255), c.rnd(255), []int{0, 0, 1, 4095, 4096, c.rnd(65535)}[c.rng.Intn(6)])
		return "p.Ethernet", tEth(c.rnd(255), c.rndBytes(8), c.rndBytes(8), vl, []int{0x800, 0x806, 0x86dd, 0x8100, c.rnd(65535)}[c.rng.Intn(5)], d)
	case 2:
		_, d := c.rndLeaf(depth - 1)
		if c.rng.Intn(5) == 0 {
			d = "~"
		}
		p := ip4{c.rnd(255), []int{0, 5, 6, 15, c.rnd(255)}[c.rng.Intn(5)], c.rnd(255), c.rnd(255), c.rnd(65535), c.rnd(65535), c.rnd(65535), c.rnd(65535),
			c.rnd(255), []int{1, 6, 17, c.rnd(255)}[c.rng.Intn(4)], c.rnd(65535), c.rndIP(), c.rndIP(), c.rndBytes(9), d}
		return "p.IPv4", p.term()
	case 3:
		_, d := c.rndLeaf(depth - 1)
		nhs := []int{0, 43, 44, 17, 58, 6, c.rnd(255)}
		pick := func() int { return nhs[c.rng.Intn(len(nhs))] }
		p := ip6{c.rnd(255), c.rnd(255), uint32(c.rng.Int63n(1 << 32)), c.rnd(65535), pick(), c.rnd(255), c.rndBytes(18), c.rndBytes(18), "~", "~", "~", d}
		if c.rng.Intn(2) == 0 {
			_, p.hbh = c.rndHbh(pick())
		}
		if c.rng.Intn(2) == 0 {
			p.rt = tRt(pick(), c.rng.Intn(3), c.rnd(255), c.rnd(255), tBuf(c.rndBytes(20)))
		}
		if c.rng.Intn(2) == 0 {
			p.fr = tFrag(pick(), c.rnd(255), c.rnd(65535), c.rng.Intn(2), uint32(c.rng.Int63n(1<<32)))
		}
		return "p.IPv6", p.term()
	case 4:
		return "p.ARP", tARP(c.rnd(65535), c.rnd(65535), []int{6, 0, 1, c.rnd(255)}[c.rng.Intn(4)], []int{4, 0, 16, c.rnd(255)}[c.rng.Intn(4)], c.rnd(65535),
			c.rndBytes(8), c.rndIP(), c.rndBytes(8), c.rndIP())
	case 5:
		return "p.ICMP", tICMP(c.rnd(255), c.rnd(255), c.rnd(65535), c.rndBytes(9))
	case 6:
		return "p.TCP", tTCP(c.rnd(65535), c.rnd(65535), uint32(c.rng.Int63n(1<<32)), uint32(c.rng.Int63n(1<<32)), c.rnd(255), c.rnd(255), c.rnd(65535),
			c.rnd(65535), c.rnd(65535), c.rndBytes(9))
	case 7:
		return "p.UDP", tUDP(c.rnd(65535), c.rnd(65535), c.rnd(65535), c.rnd(65535), c.rndBytes(9))
	case 8:
		return "p.IGMPv1or2", tIGMP12(c.rnd(255), c.rnd(255), c.rnd(65535), c.rndIP())
	case 9:
		srcs := c.rndIPs(4)
		ns := len(srcs)
		if c.rng.Intn(3) == 0 {
			ns = c.rnd(6)
		}
		return "p.IGMPv3Query", tV3Q(c.rnd(255), c.rnd(255), c.rnd(65535), c.rndIP(), c.rnd(255), c.rng.Intn(2), c.rnd(255), c.rnd(255), ns, srcs)
	case 10:
		return "p.IGMPv3GroupRecord", c.rndGR()
	case 11:
		var recs []string
		for i := c.rng.Intn(4); i > 0; i-- {
			recs = append(recs, c.rndGR())
		}
		return "p.IGMPv3MembershipReport", tRep(c.rnd(255), c.rnd(255), c.rnd(65535), c.rnd(65535), []int{len(recs), c.rnd(5)}[c.rng.Intn(2)], recs)
	case 12:
		return "p.VLAN", tVLAN(c.rnd(65535), c.rnd(255), c.rnd(255), c.rnd(65535))
	case 13:
		d := c.rndBytes(6)
		return "p.Option", tOpt(c.rnd(255), []int{len(d), c.rnd(255)}[c.rng.Intn(2)], d)
	case 14:
		return c.rndHbh(c.rnd(255))
	case 15:
		return "p.RoutingHeader", tRt(c.rnd(255), []int{0, 1, 2, 255}[c.rng.Intn(4)], c.rnd(255), c.rnd(255), tBuf(c.rndBytes(24)))
	case 16:
		return "p.FragmentHeader", tFrag(c.rnd(255), c.rnd(255), c.rnd(65535), c.rng.Intn(2), uint32(c.rng.Int63n(1<<32)))
	}
	return "u.Buffer", tBuf(c.rndBytes(40))
}

func (c *Ctx) rndGR() string {
	srcs := c.rndIPs(3)
	ns := len(srcs)
	if c.rng.Intn(3) == 0 {
		ns = c.rnd(5)
	}
	var aux []uint32
	for i := c.rng.Intn(3); i > 0; i-- {
		aux = append(aux, c.rng.Uint32())
	}
	return tGR(c.rnd(255), []int{len(aux), c.rnd(3)}[c.rng.Intn(2)], ns, c.rndIP(), srcs, aux)
}

func (c *Ctx) rndHbh(nh int) (string, string) {
	var opts []string
	total := 2
	for i := c.rng.Intn(4); i > 0; i-- {
		d := c.rndBytes(5)
		ln := len(d)
		if c.rng.Intn(6) == 0 {
			ln = c.rnd(255)
		}
		opts = append(opts, tOpt(c.rnd(255), ln, d))
		total += 2 + len(d)
	}
	hel := (total+7)/8 - 1
	if c.rng.Intn(4) == 0 {
		hel = []int{0, 1, 255, 3}[c.rng.Intn(4)]
	}
	return "p.HopByHopHeader", tHbh(nh, hel, opts)
}

func genRandomProto(c *Ctx) {
	n := 900
	if c.thorough() {
		n = 9000
	}
	for i := 0; i < n; i++ {
		kind, term := c.rndLeaf(2)
		c.run("enc", term)
		b := marshalTerm(term)
		if b == nil || len(b) > 400 {
			continue
		}
		// a mutated / truncated copy of the encoding to the decoder of the same kind
		m := append([]byte(nil), b...)
		for k := c.rng.Intn(3); k > 0 && len(m) > 0; k-- {
			j := c.rng.Intn(len(m))
			if j > 8 && c.rng.Intn(2) == 0 {
				j = c.rng.Intn(8)
			}
			switch c.rng.Intn(3) {
			case 0:
				m[j] = byte(c.rng.Intn(256))
			case 1:
				m[j] ^= 1 << uint(c.rng.Intn(8))
			default:
				m[j] = []byte{0, 1, 0xff, 0xfe, 0x80}[c.rng.Intn(5)]
			}
		}
		if c.rng.Intn(3) == 0 {
			m = m[:c.rng.Intn(len(m)+1)]
		}
		// never hand a spinning input to a worker: hop-by-hop option length 254 / header size 0 are covered above
		if kind == "p.IPv6" || kind == "p.HopByHopHeader" || kind == "p.Ethernet" {
			if spins := hasSpinRisk(m); spins {
				continue
			}
		}
		c.decCase("dec", kind, m, []int{0, 24}[c.rng.Intn(2)])
	}
}

// hasSpinRisk: conservative filter for the two non-terminating decoder classes (0xfe / 0xff bytes anywhere past the
// fixed header could be an option length 254 or a HEL 255)
func hasSpinRisk(m []byte) bool {
	for _, x := range m {
		if x == 0xfe || x == 0xff {
			return true
		}
	}
	return false
}
