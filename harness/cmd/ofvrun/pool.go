package main

// Worker pool: cases that may panic deep inside the library are caught by recover in-process, but a case that
// spins (non-terminating decoder loop) or allocates without bound can only be stopped by killing the process.
// The parent hands each case line to a worker subprocess and waits for one result line; after `caseTimeout`
// the worker is killed, the observation is "spin", and a fresh worker takes over.

import (
	"bufio"
	"fmt"
	"io"
	"os"
	"os/exec"
	"runtime"
	"runtime/debug"
	"sync"
	"syscall"
	"time"
)

var isolated = map[string]bool{}

const caseTimeout = 3000 * time.Millisecond

func workerMain() {
	// bound the address space so that an allocation storm kills this worker instead of the machine
	var lim syscall.Rlimit
	lim.Cur, lim.Max = 3<<30, 3<<30
	syscall.Setrlimit(syscall.RLIMIT_AS, &lim)
	debug.SetMemoryLimit(2 << 30)
	in := bufio.NewReaderSize(os.Stdin, 1<<20)
	out := bufio.NewWriter(os.Stdout)
	for {
		line, err := in.ReadString('\n')
		if len(line) > 0 {
			if line[len(line)-1] == '\n' {
				line = line[:len(line)-1]
			}
			fmt.Fprintln(out, execLine(line))
			out.Flush()
		}
		if err != nil {
			return
		}
	}
}

type worker struct {
	cmd *exec.Cmd
	in  io.WriteCloser
	out *bufio.Reader
}

func startWorker() *worker {
	cmd := exec.Command(os.Args[0], "-worker")
	in, _ := cmd.StdinPipe()
	outp, _ := cmd.StdoutPipe()
	cmd.Stderr = nil
	if err := cmd.Start(); err != nil {
		panic(err)
	}
	return &worker{cmd: cmd, in: in, out: bufio.NewReaderSize(outp, 1<<20)}
}

func (w *worker) kill() {
	w.cmd.Process.Kill()
	w.cmd.Wait()
}

func (w *worker) do(line string) (string, bool) {
	type res struct {
		s   string
		err error
	}
	ch := make(chan res, 1)
	go func() {
		if _, err := io.WriteString(w.in, line+"\n"); err != nil {
			ch <- res{"", err}
			return
		}
		s, err := w.out.ReadString('\n')
		ch <- res{s, err}
	}()
	select {
	case r := <-ch:
		if r.err != nil || len(r.s) == 0 {
			return "spin", false // the worker died (out of memory / fatal error): unbounded allocation
		}
		return r.s[:len(r.s)-1], true
	case <-time.After(caseTimeout):
		return "spin", false
	}
}

func runPool(c *Ctx) {
	n := runtime.NumCPU()
	if n > 16 {
		n = 16
	}
	if n > len(c.queue) {
		n = len(c.queue)
	}
	results := make([]string, len(c.queue))
	var next int
	var mu sync.Mutex
	var wg sync.WaitGroup
	for i := 0; i < n; i++ {
		wg.Add(1)
		go func() {
			defer wg.Done()
			w := startWorker()
			defer func() { w.in.Close(); w.kill() }()
			for {
				mu.Lock()
				k := next
				next++
				mu.Unlock()
				if k >= len(c.queue) {
					return
				}
				out, ok := w.do(c.queue[k])
				results[k] = out
				if !ok {
					w.kill()
					w = startWorker()
				}
			}
		}()
	}
	wg.Wait()
	for k, line := range c.queue {
		c.emit(line, results[k])
	}
	c.queue = nil
}

// runIsolatedOnce executes one case line in a fresh worker process (10 s budget): used by non-isolated families for
// the few ops that may bring the whole process down (a fatal "concurrent map writes" cannot be recovered).
func runIsolatedOnce(line string) string {
	cmd := exec.Command(os.Args[0], "-worker")
	in, _ := cmd.StdinPipe()
	outp, _ := cmd.StdoutPipe()
	if err := cmd.Start(); err != nil {
		return "nostart"
	}
	io.WriteString(in, line+"\n")
	in.Close()
	ch := make(chan string, 1)
	go func() {
		s, _ := bufio.NewReaderSize(outp, 1<<20).ReadString('\n')
		ch <- s
	}()
	var s string
	select {
	case s = <-ch:
	case <-time.After(25 * time.Second):
		s = ""
	}
	cmd.Process.Kill()
	cmd.Wait()
	if len(s) == 0 || s[len(s)-1] != '\n' {
		return "crashed"
	}
	return s[:len(s)-1]
}
