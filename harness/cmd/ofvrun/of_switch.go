package main

// C04 — "parsed messages expose exactly what a conforming switch put on the wire".
//
// This file is an INDEPENDENT ENCODER of the messages a switch sends, written from the OpenFlow 1.3 specification
// (and nicira-ext.h / the ONF bundle extension) with the byte builder only — it uses no encoder of the library.
// For each generated message it emits
//
//	sw <hex of the backing array> <len> <expectation>
//
// where the expectation lists every value the encoder wrote, addressed by the Go field that must hold it after
// openflow13.Parse:   Kind;path=value;path=value;…     (no blanks)
//
//	path   = field names / list indices separated by '.', e.g.  Desc.HWAddr   Body.1.Match.Fields.0
//	value  = decimal number | x<hex bytes> | #<n> (length of a list) | oxm:<class>:<field>:<hasmask>:<value hex>:<mask hex>
//	         | ins:<hex>  (the instruction list occupies these bytes: walked by the grammar walker and compared element-wise)
//	         | kind:<Kind>
//
// The implementation's output is the dump of the parsed message; the Lean side resolves every path in that dump
// (field names from the regenerated struct layouts) and compares.

import (
	"fmt"
	"math/rand"
	"net"
	"reflect"
	"strings"

	"github.com/contiv/libOpenflow/protocol"
)

type swExp struct{ items []string }

func (e *swExp) num(path string, v uint64) { e.items = append(e.items, fmt.Sprintf("%s=%d", path, v)) }
func (e *swExp) raw(path string, b []byte) {
	e.items = append(e.items, fmt.Sprintf("%s=x%s", path, hx0(b)))
}
func (e *swExp) count(path string, n int) { e.items = append(e.items, fmt.Sprintf("%s=#%d", path, n)) }
func (e *swExp) kind(path string, k string) {
	e.items = append(e.items, fmt.Sprintf("%s=kind:%s", path, k))
}
func (e *swExp) other(path string, v string) {
	e.items = append(e.items, fmt.Sprintf("%s=%s", path, v))
}
func (e *swExp) String(kind string) string { return kind + ";" + strings.Join(e.items, ";") }

func hx0(b []byte) string { return fmt.Sprintf("%x", b) }

type swGen struct {
	r       *rand.Rand
	prioTag bool // the next Ethernet frame is priority-tagged (VLAN id 0)
	// the frame just generated carries a priority tag
	sawPrioTag bool
}

func (g *swGen) u(max uint64) uint64 {
	if g.r.Intn(4) == 0 {
		if v, ok := wellKnownFor(max, g.r.Intn); ok {
			return v
		}
	}
	switch g.r.Intn(6) {
	case 0:
		return 0
	case 1:
		return max
	case 2:
		return 1
	}
	if max == ^uint64(0) {
		return g.r.Uint64()
	}
	return g.r.Uint64() % (max + 1)
}

func (g *swGen) bytes(n int) []byte {
	b := make([]byte, n)
	g.r.Read(b)
	return b
}

// name: a NUL-padded ASCII string of exactly n bytes
func (g *swGen) name(n int, s string) []byte {
	b := make([]byte, n)
	copy(b, s)
	return b
}

// ---- OXM match (ofp_match type 1): fields in canonical widths ------------------------------------------------------

type oxmDef struct {
	class, field, width int
	maskable            bool
}

var swOxms = []oxmDef{
	{0x8000, 0, 4, false},   // in_port
	{0x8000, 2, 8, true},    // metadata
	{0x8000, 3, 6, true},    // eth_dst
	{0x8000, 4, 6, true},    // eth_src
	{0x8000, 5, 2, false},   // eth_type
	{0x8000, 6, 2, true},    // vlan_vid
	{0x8000, 10, 1, false},  // ip_proto
	{0x8000, 11, 4, true},   // ipv4_src
	{0x8000, 12, 4, true},   // ipv4_dst
	{0x8000, 13, 2, false},  // tcp_src
	{0x8000, 15, 2, false},  // udp_src
	{0x8000, 21, 2, false},  // arp_op
	{0x8000, 26, 16, true},  // ipv6_src
	{0x8000, 38, 8, true},   // tunnel_id
	{0x0001, 0, 4, true},    // NXM_NX_REG0
	{0x0001, 3, 4, true},    // NXM_NX_REG3
	{0x0001, 107, 4, true},  // NXM_NX_CT_MARK
	{0x0001, 105, 4, true},  // NXM_NX_CT_STATE
	{0x0001, 16, 8, true},   // NXM_NX_TUN_ID
	{0x0001, 26, 1, true},   // NXM_NX_IP_FRAG
	{0x0001, 28, 1, false},  // NXM_NX_IP_ECN
	{0x0001, 29, 1, false},  // NXM_NX_IP_TTL
	{0x0001, 34, 2, true},   // NXM_NX_TCP_FLAGS
	{0x0001, 35, 4, true},   // NXM_NX_DP_HASH
	{0x0001, 36, 4, false},  // NXM_NX_RECIRC_ID
	{0x0001, 104, 2, true},  // NXM_NX_TUN_FLAGS
	{0x0001, 106, 2, false}, // NXM_NX_CT_ZONE
	{0x0001, 108, 16, true}, // NXM_NX_CT_LABEL
	{0x0001, 111, 16, true}, // NXM_NX_XXREG0
	{0xffff, 42, 2, true},   // ONF experimenter: tcp_flags (experimenter id 0x4f4e4600 after the OXM header)
	{0xffff, 43, 4, false},  // ONF experimenter: actset_output
}

// match returns the padded ofp_match bytes and records the expectations under prefix (e.g. "Match")
func (g *swGen) match(e *swExp, prefix string, nfields int) []byte {
	body := nb()
	perm := g.r.Perm(len(swOxms))
	e.count(prefix+".Fields", nfields)
	for i := 0; i < nfields; i++ {
		d := swOxms[perm[i%len(perm)]]
		masked := d.maskable && g.r.Intn(2) == 0
		val := g.bytes(d.width)
		var mask []byte
		plen := d.width
		if masked {
			mask = g.bytes(d.width)
			for k := range val {
				val[k] &= mask[k]
			}
			plen *= 2
		}
		hm := 0
		if masked {
			hm = 1
		}
		if d.class == 0xffff {
			// experimenter class: the length covers the 4-byte experimenter id as well
			body.u16(d.class).u8(d.field<<1|hm, 4+plen).u32(0x4f4e4600).raw(val).raw(mask)
		} else {
			body.u16(d.class).u8(d.field<<1|hm, plen).raw(val).raw(mask)
		}
		e.other(fmt.Sprintf("%s.Fields.%d", prefix, i), fmt.Sprintf("oxm:%d:%d:%d:%s:%s", d.class, d.field, hm, hx0(val), hx0(mask)))
	}
	l := 4 + len(body.b)
	e.num(prefix+".Type", 1)
	e.num(prefix+".Length", uint64(l))
	out := nb().u16(1, l).raw(body.b)
	out.z((8 - l%8) % 8)
	return out.b
}

// ---- instructions / actions for flow-stats records (spec encodings) ------------------------------------------------

func (g *swGen) actions(n int) []byte {
	x := nb()
	for i := 0; i < n; i++ {
		switch g.r.Intn(10) {
		case 7: // set_nw_ttl / set_mpls_ttl: ttl and 3 bytes of padding
			x.u16([]int{23, 15}[g.r.Intn(2)], 8).u8(int(g.u(255))).z(3)
		case 8: // header-only actions: copy_ttl_out, copy_ttl_in, dec_mpls_ttl, dec_nw_ttl, pop_vlan, pop_pbb
			x.u16([]int{11, 12, 16, 24, 18, 27}[g.r.Intn(6)], 8).z(4)
		case 9: // pop_mpls / push_mpls / push_pbb
			x.u16([]int{20, 19, 26}[g.r.Intn(3)], 8).u16([]int{0x0800, 0x8847, 0x88e7}[g.r.Intn(3)]).z(2)
		case 5, 6: // set_field: 4-byte action header, one OXM TLV, zero padding to a multiple of 8
			d := swOxms[g.r.Intn(len(swOxms))]
			val := g.bytes(d.width)
			if d.class == 0xffff {
				// experimenter class: the OXM length covers the experimenter id, which follows the header
				l := 4 + 4 + 4 + d.width
				pad := (8 - l%8) % 8
				x.u16(25, l+pad).u16(d.class).u8(d.field<<1, 4+d.width).u32(0x4f4e4600).raw(val).z(pad)
				break
			}
			l := 4 + 4 + d.width
			pad := (8 - l%8) % 8
			x.u16(25, l+pad).u16(d.class).u8(d.field<<1, d.width).raw(val).z(pad)
		case 0: // output
			x.u16(0, 16).u32(uint32(g.u(0xffffff00))).u16(int(g.u(0xffff))).z(6)
		case 1: // group
			x.u16(22, 8).u32(uint32(g.u(0xffffff00)))
		case 2: // push_vlan
			x.u16(17, 8).u16(0x8100).z(2)
		case 3: // set_queue
			x.u16(21, 8).u32(uint32(g.u(0xffffffff)))
		default: // NXAST_RESUBMIT_TABLE
			x.u16(0xffff, 16).u32(0x2320).u16(14, int(g.u(0xfff0))).u8(int(g.u(254))).z(3)
		}
	}
	return x.b
}

func (g *swGen) instructions(n int) []byte {
	x := nb()
	for i := 0; i < n; i++ {
		switch g.r.Intn(6) {
		case 4:
			x.u16(6, 8).u32(uint32(g.u(0xffff0000))) // meter
		case 5:
			x.u16(5, 8).z(4) // clear_actions
		case 0:
			x.u16(1, 8).u8(int(g.u(254))).z(3) // goto_table
		case 1:
			x.u16(2, 24).z(4).q(g.u(^uint64(0)), g.u(^uint64(0))) // write_metadata
		case 2:
			a := g.actions(g.r.Intn(3))
			x.u16(4, 8+len(a)).z(4).raw(a) // apply_actions
		default:
			a := g.actions(1 + g.r.Intn(2))
			x.u16(3, 8+len(a)).z(4).raw(a) // write_actions
		}
	}
	return x.b
}

// ---- ofp_port (64 bytes) -------------------------------------------------------------------------------------------

func (g *swGen) port(e *swExp, prefix string) []byte {
	no := uint32(g.u(0xffffff00))
	hw := g.bytes(6)
	nm := g.name(16, fmt.Sprintf("eth%d", g.r.Intn(1000)))
	vals := make([]uint32, 8)
	x := nb().u32(no).z(4).raw(hw).z(2).raw(nm)
	names := []string{"Config", "State", "Curr", "Advertised", "Supported", "Peer", "CurrSpeed", "MaxSpeed"}
	for i := range vals {
		vals[i] = uint32(g.u(0xffffffff))
		x.u32(vals[i])
		e.num(prefix+"."+names[i], uint64(vals[i]))
	}
	e.num(prefix+".PortNo", uint64(no))
	e.raw(prefix+".HWAddr", hw)
	e.raw(prefix+".Name", nm)
	return x.b
}

// ---- packets for packet-in -----------------------------------------------------------------------------------------

func (g *swGen) packet(e *swExp, prefix string) []byte { return g.packetOf(e, prefix, -1) }

// packetOf: choice < 0 picks the payload kind at random; choice 2 (ARP) is never VLAN-tagged
func (g *swGen) packetOf(e *swExp, prefix string, choice int) []byte {
	dst, src := g.bytes(6), g.bytes(6)
	x := nb().raw(dst).raw(src)
	e.raw(prefix+".HWDst", dst)
	e.raw(prefix+".HWSrc", src)
	if choice < 0 && (g.prioTag || g.r.Intn(3) == 0) {
		pcp, dei, vid := g.r.Intn(8), g.r.Intn(2), 1+g.r.Intn(4094)
		if g.prioTag || g.r.Intn(8) == 0 {
			vid = 0 // priority-tagged frame (802.1p): a tag whose VLAN id is 0
			g.prioTag = false
			g.sawPrioTag = true
		}
		x.u16(0x8100, pcp<<13|dei<<12|vid)
		e.num(prefix+".VLANID.PCP", uint64(pcp))
		e.num(prefix+".VLANID.DEI", uint64(dei))
		e.num(prefix+".VLANID.VID", uint64(vid))
	}
	if choice < 0 {
		choice = g.r.Intn(6)
	}
	switch choice {
	case 0: // IPv4 / ICMP
		data := g.bytes(4 + g.r.Intn(40))
		ty, code, cs := int(g.u(255)), int(g.u(255)), int(g.u(0xffff))
		icmp := nb().u8(ty, code).u16(cs).raw(data).b
		sip, dip := g.bytes(4), g.bytes(4)
		dscp, ecn, ttl, id, ics := g.r.Intn(64), g.r.Intn(4), int(g.u(255)), int(g.u(0xffff)), int(g.u(0xffff))
		flags, frag := g.r.Intn(8), g.r.Intn(8192)
		x.u16(0x0800).u8(0x45, dscp<<2|ecn).u16(20+len(icmp), id, flags<<13|frag).u8(ttl, 1).u16(ics).raw(sip).raw(dip).raw(icmp)
		e.num(prefix+".Ethertype", 0x0800)
		p := prefix + ".Data"
		e.kind(p, "p.IPv4")
		e.num(p+".Version", 4)
		e.num(p+".IHL", 5)
		e.num(p+".DSCP", uint64(dscp))
		e.num(p+".ECN", uint64(ecn))
		e.num(p+".Length", uint64(20+len(icmp)))
		e.num(p+".Id", uint64(id))
		e.num(p+".Flags", uint64(flags))
		e.num(p+".FragmentOffset", uint64(frag))
		e.num(p+".TTL", uint64(ttl))
		e.num(p+".Protocol", 1)
		e.num(p+".Checksum", uint64(ics))
		e.raw(p+".NWSrc", sip)
		e.raw(p+".NWDst", dip)
		e.kind(p+".Data", "p.ICMP")
		e.num(p+".Data.Type", uint64(ty))
		e.num(p+".Data.Code", uint64(code))
		e.num(p+".Data.Checksum", uint64(cs))
		e.raw(p+".Data.Data", data)
	case 1: // IPv4 / UDP
		data := g.bytes(g.r.Intn(60))
		sp, dp, cs := int(g.u(0xffff)), int(g.u(0xffff)), int(g.u(0xffff))
		udp := nb().u16(sp, dp, 8+len(data), cs).raw(data).b
		sip, dip := g.bytes(4), g.bytes(4)
		x.u16(0x0800).u8(0x45, 0).u16(20+len(udp), 7, 0).u8(64, 17).u16(0).raw(sip).raw(dip).raw(udp)
		// link-layer padding behind the datagram (a short datagram in a minimum-size Ethernet frame): the packet-in
		// payload is the whole frame, so these bytes belong to what the switch sent (where the parsed value keeps them
		// is the library's business: only "nothing dropped" is demanded of such frames, see rtw)
		trailer := 0
		if g.r.Intn(3) == 0 {
			trailer = 1 + g.r.Intn(18)
			x.raw(make([]byte, trailer))
		}
		e.num(prefix+".Ethertype", 0x0800)
		p := prefix + ".Data"
		e.kind(p, "p.IPv4")
		e.num(p+".Protocol", 17)
		e.raw(p+".NWSrc", sip)
		e.raw(p+".NWDst", dip)
		e.kind(p+".Data", "p.UDP")
		e.num(p+".Data.PortSrc", uint64(sp))
		e.num(p+".Data.PortDst", uint64(dp))
		e.num(p+".Data.Length", uint64(8+len(data)))
		e.num(p+".Data.Checksum", uint64(cs))
		if trailer == 0 {
			e.raw(p+".Data.Data", data)
		}
	case 2: // ARP
		op := 1 + g.r.Intn(2)
		sha, spa, tha, tpa := g.bytes(6), g.bytes(4), g.bytes(6), g.bytes(4)
		x.u16(0x0806).u16(1, 0x0800).u8(6, 4).u16(op).raw(sha).raw(spa).raw(tha).raw(tpa)
		e.num(prefix+".Ethertype", 0x0806)
		p := prefix + ".Data"
		e.kind(p, "p.ARP")
		e.num(p+".HWType", 1)
		e.num(p+".ProtoType", 0x0800)
		e.num(p+".HWLength", 6)
		e.num(p+".ProtoLength", 4)
		e.num(p+".Operation", uint64(op))
		e.raw(p+".HWSrc", sha)
		e.raw(p+".IPSrc", spa)
		e.raw(p+".HWDst", tha)
		e.raw(p+".IPDst", tpa)
	case 3: // IPv6 [/ hop-by-hop] [/ fragment] / ICMPv6 or UDP
		tc, fl, hl := g.r.Intn(256), g.r.Intn(1<<20), int(g.u(255))
		sip, dip := g.bytes(16), g.bytes(16)
		var chain []byte
		first := -1
		setNext := func(nh int) {
			if first < 0 {
				first = nh
			}
		}
		p := prefix + ".Data"
		e.kind(p, "p.IPv6")
		useHbh, useFrag := g.r.Intn(3) == 0, g.r.Intn(3) == 0
		if g.r.Intn(4) == 0 {
			// extension headers in an arbitrary order, a routing header among them
			return g.ipv6AnyOrder(e, prefix, x, tc, fl, hl, sip, dip)
		}
		last := 58
		if g.r.Intn(2) == 0 {
			last = 17
		}
		nextAfterHbh := last
		if useFrag {
			nextAfterHbh = 44
		}
		if useHbh {
			setNext(0)
			hel, ob := g.hbhOptions(e, p+".HbhHeader")
			chain = append(chain, nb().u8(nextAfterHbh, hel).raw(ob).b...)
			e.num(p+".HbhHeader.NextHeader", uint64(nextAfterHbh))
			e.num(p+".HbhHeader.HEL", uint64(hel))
		}
		if useFrag {
			setNext(44)
			off, more, ident := g.r.Intn(8192), g.r.Intn(2), uint32(g.u(0xffffffff))
			chain = append(chain, nb().u8(last, 0).u16(off<<3|more).u32(ident).b...)
			e.num(p+".FragmentHeader.NextHeader", uint64(last))
			e.num(p+".FragmentHeader.FragmentOffset", uint64(off))
			e.num(p+".FragmentHeader.MoreFragments", uint64(more))
			e.num(p+".FragmentHeader.Identification", uint64(ident))
		}
		setNext(last)
		var pl []byte
		if last == 58 {
			data := g.bytes(4 + g.r.Intn(30))
			ty, cs := 128+g.r.Intn(2), int(g.u(0xffff))
			pl = nb().u8(ty, 0).u16(cs).raw(data).b
			e.kind(p+".Data", "p.ICMP")
			e.num(p+".Data.Type", uint64(ty))
			e.num(p+".Data.Checksum", uint64(cs))
			e.raw(p+".Data.Data", data)
		} else {
			data := g.bytes(g.r.Intn(30))
			sp, dp := int(g.u(0xffff)), int(g.u(0xffff))
			pl = nb().u16(sp, dp, 8+len(data), 0).raw(data).b
			e.kind(p+".Data", "p.UDP")
			e.num(p+".Data.PortSrc", uint64(sp))
			e.num(p+".Data.PortDst", uint64(dp))
			e.raw(p+".Data.Data", data)
		}
		body := append(chain, pl...)
		x.u16(0x86dd).u8(6<<4|tc>>4, (tc&0xf)<<4|fl>>16).u16(fl&0xffff, len(body)).u8(first, hl).raw(sip).raw(dip).raw(body)
		e.num(prefix+".Ethertype", 0x86dd)
		e.num(p+".Version", 6)
		e.num(p+".TrafficClass", uint64(tc))
		e.num(p+".FlowLabel", uint64(fl))
		e.num(p+".Length", uint64(len(body)))
		e.num(p+".NextHeader", uint64(first))
		e.num(p+".HopLimit", uint64(hl))
		e.raw(p+".NWSrc", sip)
		e.raw(p+".NWDst", dip)
	case 5: // IPv4 carrying a protocol the library keeps opaque (TCP with any flag byte, GRE, a short fragment): every
		// payload byte must come back as it is
		proto := []int{6, 6, 47, 132}[g.r.Intn(4)]
		var data []byte
		if proto == 6 && g.r.Intn(2) == 0 {
			// a TCP header with CWR / ECE / NS bits set
			data = nb().u16(int(g.u(0xffff)), int(g.u(0xffff))).u32(uint32(g.u(0xffffffff)), uint32(g.u(0xffffffff))).u8(0x51, 0xc2|g.r.Intn(64)).u16(int(g.u(0xffff)), int(g.u(0xffff)), 0).raw(g.bytes(g.r.Intn(20))).b
		} else {
			data = g.bytes(g.r.Intn(24)) // possibly shorter than a transport header (non-first fragment)
		}
		sip, dip := g.bytes(4), g.bytes(4)
		frag := 0
		if len(data) < 20 {
			frag = 1 + g.r.Intn(8000)
		}
		x.u16(0x0800).u8(0x45, 0).u16(20+len(data), 9, frag).u8(64, proto).u16(0).raw(sip).raw(dip).raw(data)
		e.num(prefix+".Ethertype", 0x0800)
		p := prefix + ".Data"
		e.kind(p, "p.IPv4")
		e.num(p+".Protocol", uint64(proto))
		e.num(p+".FragmentOffset", uint64(frag))
		e.raw(p+".NWSrc", sip)
		e.raw(p+".NWDst", dip)
		e.raw(p+".Data", data)
	default: // unknown ethertype: opaque payload
		data := g.bytes(g.r.Intn(80))
		x.u16(0x88b5).raw(data)
		e.num(prefix+".Ethertype", 0x88b5)
		e.raw(prefix+".Data", data)
	}
	return x.b
}

// hbhOptions: the option bytes of a hop-by-hop header and its Hdr Ext Len. Usually the minimal header (6 option bytes:
// PadN(4) | Pad1, PadN(3) | router alert, Pad1, Pad1); one time in five a long one (256 bytes and more) filled with a
// jumbo-payload option, PadN options of up to 255 bytes and Pad1 bytes.
func (g *swGen) hbhOptions(e *swExp, p string) (int, []byte) {
	type opt struct {
		ty, ln int
		data   []byte
	}
	var opts []opt
	hel := 0
	switch g.r.Intn(5) {
	case 0:
		opts = []opt{{1, 4, make([]byte, 4)}}
	case 1, 2:
		opts = []opt{{0, 0, nil}, {1, 3, make([]byte, 3)}}
	case 3:
		opts = []opt{{5, 2, []byte{0, byte(g.r.Intn(3))}}, {0, 0, nil}, {0, 0, nil}}
	default:
		hel = []int{30, 31, 32, 40, 63, 64}[g.r.Intn(6)]
		rem := 8*(hel+1) - 2
		opts = append(opts, opt{0xc2, 4, g.bytes(4)})
		rem -= 6
		for rem > 0 {
			if rem == 1 || g.r.Intn(5) == 0 {
				opts = append(opts, opt{0, 0, nil})
				rem--
				continue
			}
			l := g.r.Intn(min(rem-1, 256))
			opts = append(opts, opt{1, l, make([]byte, l)})
			rem -= 2 + l
		}
	}
	x := nb()
	for i, o := range opts {
		q := fmt.Sprintf("%s.Options.%d", p, i)
		e.num(q+".Type", uint64(o.ty))
		if o.ty == 0 {
			x.u8(0) // Pad1: a single byte
			continue
		}
		x.u8(o.ty, o.ln).raw(o.data)
		e.num(q+".Length", uint64(o.ln))
		e.raw(q+".Data", o.data)
	}
	e.count(p+".Options", len(opts))
	return hel, x.b
}

// ipv6AnyOrder: hop-by-hop, routing and fragment headers (each at most once) in a random order before the payload
func (g *swGen) ipv6AnyOrder(e *swExp, prefix string, x *msgBB, tc, fl, hl int, sip, dip []byte) []byte {
	p := prefix + ".Data"
	kinds := []int{0, 43, 44}
	g.r.Shuffle(len(kinds), func(i, j int) { kinds[i], kinds[j] = kinds[j], kinds[i] })
	kinds = kinds[:1+g.r.Intn(3)]
	last := []int{58, 17}[g.r.Intn(2)]
	var chain []byte
	for i, k := range kinds {
		next := last
		if i+1 < len(kinds) {
			next = kinds[i+1]
		}
		switch k {
		case 0:
			hel, ob := g.hbhOptions(e, p+".HbhHeader")
			chain = append(chain, nb().u8(next, hel).raw(ob).b...)
			e.num(p+".HbhHeader.NextHeader", uint64(next))
			e.num(p+".HbhHeader.HEL", uint64(hel))
		case 43:
			nseg := 1
			if g.r.Intn(4) == 0 {
				nseg = []int{15, 16, 17, 32}[g.r.Intn(4)] // 16 addresses and more: a header of 256+ bytes
			}
			seg := g.bytes(16 * nseg)
			left := g.r.Intn(2)
			chain = append(chain, nb().u8(next, 2*nseg, 0, left).z(4).raw(seg).b...)
			e.num(p+".RoutingHeader.NextHeader", uint64(next))
			e.num(p+".RoutingHeader.HEL", uint64(2*nseg))
			e.num(p+".RoutingHeader.SegmentsLeft", uint64(left))
			e.raw(p+".RoutingHeader.Data", append(make([]byte, 4), seg...))
		default:
			off, more, ident := g.r.Intn(8192), g.r.Intn(2), uint32(g.u(0xffffffff))
			chain = append(chain, nb().u8(next, 0).u16(off<<3|more).u32(ident).b...)
			e.num(p+".FragmentHeader.NextHeader", uint64(next))
			e.num(p+".FragmentHeader.FragmentOffset", uint64(off))
			e.num(p+".FragmentHeader.MoreFragments", uint64(more))
			e.num(p+".FragmentHeader.Identification", uint64(ident))
		}
	}
	var pl []byte
	if last == 58 {
		data := g.bytes(4 + g.r.Intn(20))
		pl = nb().u8(128, 0).u16(0x1234).raw(data).b
		e.kind(p+".Data", "p.ICMP")
		e.raw(p+".Data.Data", data)
	} else {
		data := g.bytes(g.r.Intn(20))
		sp, dp := int(g.u(0xffff)), int(g.u(0xffff))
		pl = nb().u16(sp, dp, 8+len(data), 0).raw(data).b
		e.kind(p+".Data", "p.UDP")
		e.num(p+".Data.PortSrc", uint64(sp))
		e.num(p+".Data.PortDst", uint64(dp))
		e.raw(p+".Data.Data", data)
	}
	body := append(chain, pl...)
	x.u16(0x86dd).u8(6<<4|tc>>4, (tc&0xf)<<4|fl>>16).u16(fl&0xffff, len(body)).u8(kinds[0], hl).raw(sip).raw(dip).raw(body)
	e.num(prefix+".Ethertype", 0x86dd)
	e.num(p+".Version", 6)
	e.num(p+".TrafficClass", uint64(tc))
	e.num(p+".FlowLabel", uint64(fl))
	e.num(p+".Length", uint64(len(body)))
	e.num(p+".NextHeader", uint64(kinds[0]))
	e.num(p+".HopLimit", uint64(hl))
	e.raw(p+".NWSrc", sip)
	e.raw(p+".NWDst", dip)
	return x.b
}

// ---- the messages --------------------------------------------------------------------------------------------------

func (g *swGen) message(k int) (frame []byte, exp string) {
	e := &swExp{}
	xid := uint32(g.u(0xffffffff))
	hdr := func(ty int, body []byte) []byte {
		e.num("Header.Version", 4)
		e.num("Header.Type", uint64(ty))
		e.num("Header.Length", uint64(8+len(body)))
		e.num("Header.Xid", uint64(xid))
		return nb().u8(4, ty).u16(8 + len(body)).u32(xid).raw(body).b
	}
	// header-only kinds parse to a bare common.Header
	bare := func(ty int) ([]byte, string) {
		e.num("Version", 4)
		e.num("Type", uint64(ty))
		e.num("Length", 8)
		e.num("Xid", uint64(xid))
		return nb().u8(4, ty).u16(8).u32(xid).b, e.String("Header")
	}
	switch k {
	case 0: // hello with a version bitmap element
		nbm := 1 + g.r.Intn(3)
		el := nb().u16(1, 4+4*nbm)
		e.count("Elements", 1)
		e.num("Elements.0.Type", 1)
		e.num("Elements.0.Length", uint64(4+4*nbm))
		e.count("Elements.0.Bitmaps", nbm)
		for i := 0; i < nbm; i++ {
			w := uint32(g.u(0xffffffff))
			el.u32(w)
			e.num(fmt.Sprintf("Elements.0.Bitmaps.%d", i), uint64(w))
		}
		el.z((8 - len(el.b)%8) % 8)
		return hdr(0, el.b), e.String("Hello")
	case 1: // error
		ty, code := g.r.Intn(14), g.r.Intn(16)
		data := g.bytes(g.r.Intn(64))
		e.num("Type", uint64(ty))
		e.num("Code", uint64(code))
		e.raw("Data", data)
		return hdr(1, nb().u16(ty, code).raw(data).b), e.String("ErrorMsg")
	case 2: // experimenter error: type 0xffff, exp_type, experimenter, data
		et := g.r.Intn(3000)
		exper := []uint32{0x4f4e4600, 0x2320}[g.r.Intn(2)]
		data := g.bytes(g.r.Intn(48))
		e.num("Type", 0xffff)
		e.num("Code", uint64(et))
		e.num("ExperimenterID", uint64(exper))
		e.raw("Data", data)
		return hdr(1, nb().u16(0xffff, et).u32(exper).raw(data).b), e.String("VendorError")
	case 3: // echo request / reply without payload
		return bare(2 + g.r.Intn(2))
	case 4: // echo with payload: the arbitrary data must not be dropped
		data := g.bytes(1 + g.r.Intn(32))
		ty := 2 + g.r.Intn(2)
		e.num("Version", 4)
		e.num("Type", uint64(ty))
		e.num("Length", uint64(8+len(data)))
		e.num("Xid", uint64(xid))
		e.raw("Data", data)
		return nb().u8(4, ty).u16(8 + len(data)).u32(xid).raw(data).b, e.String("*")
	case 5: // features reply (OpenFlow 1.3: 32 bytes, no ports)
		dpid := g.bytes(8)
		nbuf, ntab, aux, caps, rsv := uint32(g.u(0xffffffff)), int(g.u(255)), int(g.u(255)), uint32(g.u(0x1ff)), uint32(0)
		e.raw("DPID", dpid)
		e.num("Buffers", uint64(nbuf))
		e.num("NumTables", uint64(ntab))
		e.num("AuxilaryId", uint64(aux))
		e.num("Capabilities", uint64(caps))
		e.num("Actions", uint64(rsv))
		return hdr(6, nb().raw(dpid).u32(nbuf).u8(ntab, aux).z(2).u32(caps, rsv).b), e.String("SwitchFeatures")
	case 6: // get-config reply
		fl, ms := g.r.Intn(4), int(g.u(0xffff))
		e.num("Flags", uint64(fl))
		e.num("MissSendLen", uint64(ms))
		return hdr(8, nb().u16(fl, ms).b), e.String("SwitchConfig")
	case 7: // packet-in
		buf, tl, reason, tab, cookie := uint32(g.u(0xffffffff)), int(g.u(0xffff)), g.r.Intn(3), int(g.u(254)), g.u(^uint64(0))
		e.num("BufferId", uint64(buf))
		e.num("TotalLen", uint64(tl))
		e.num("Reason", uint64(reason))
		e.num("TableId", uint64(tab))
		e.num("Cookie", cookie)
		m := g.match(e, "Match", g.r.Intn(4))
		pk := g.packet(e, "Data")
		return hdr(10, nb().u32(buf).u16(tl).u8(reason, tab).q(cookie).raw(m).z(2).raw(pk).b), e.String("PacketIn")
	case 8: // flow-removed
		cookie, prio, reason, tab := g.u(^uint64(0)), int(g.u(0xffff)), g.r.Intn(4), int(g.u(254))
		ds, dn, it, ht := uint32(g.u(0xffffffff)), uint32(g.u(999999999)), int(g.u(0xffff)), int(g.u(0xffff))
		pc, bc := g.u(^uint64(0)), g.u(^uint64(0))
		e.num("Cookie", cookie)
		e.num("Priority", uint64(prio))
		e.num("Reason", uint64(reason))
		e.num("TableId", uint64(tab))
		e.num("DurationSec", uint64(ds))
		e.num("DurationNSec", uint64(dn))
		e.num("IdleTimeout", uint64(it))
		e.num("HardTimeout", uint64(ht))
		e.num("PacketCount", pc)
		e.num("ByteCount", bc)
		m := g.match(e, "Match", g.r.Intn(5))
		return hdr(11, nb().q(cookie).u16(prio).u8(reason, tab).u32(ds, dn).u16(it, ht).q(pc, bc).raw(m).b), e.String("FlowRemoved")
	case 9: // port-status
		reason := g.r.Intn(3)
		e.num("Reason", uint64(reason))
		p := g.port(e, "Desc")
		return hdr(12, nb().u8(reason).z(7).raw(p).b), e.String("PortStatus")
	case 10: // barrier reply
		return bare(21)
	case 11: // multipart reply: description
		strs := []string{"Nicira, Inc.", "Open vSwitch", "2.17.0", "None", "br-int"}
		names := []string{"MfrDesc", "HWDesc", "SWDesc", "SerialNum", "DPDesc"}
		b := nb().u16(0, 0).z(4)
		e.num("Type", 0)
		e.num("Flags", 0)
		e.count("Body", 1)
		e.kind("Body.0", "DescStats")
		for i, s := range strs {
			n := 256
			if i == 3 {
				n = 32
			}
			f := g.name(n, s)
			b.raw(f)
			e.raw("Body.0."+names[i], f)
		}
		return hdr(19, b.b), e.String("MultipartReply")
	case 12: // multipart reply: flow stats records
		n := g.r.Intn(4)
		fl := g.r.Intn(2)
		b := nb().u16(1, fl).z(4)
		e.num("Type", 1)
		e.num("Flags", uint64(fl))
		e.count("Body", n)
		for i := 0; i < n; i++ {
			p := fmt.Sprintf("Body.%d", i)
			e.kind(p, "FlowStats")
			tab, ds, dn := int(g.u(254)), uint32(g.u(0xffffffff)), uint32(g.u(999999999))
			prio, it, ht, flg := int(g.u(0xffff)), int(g.u(0xffff)), int(g.u(0xffff)), g.r.Intn(32)
			cookie, pc, bc := g.u(^uint64(0)), g.u(^uint64(0)), g.u(^uint64(0))
			sub := &swExp{}
			m := g.match(sub, p+".Match", g.r.Intn(4))
			ins := g.instructions(g.r.Intn(3))
			rec := nb().u16(48+len(m)+len(ins)).u8(tab, 0).u32(ds, dn).u16(prio, it, ht, flg).z(4).q(cookie, pc, bc).raw(m).raw(ins)
			b.raw(rec.b)
			e.num(p+".Length", uint64(len(rec.b)))
			e.num(p+".TableId", uint64(tab))
			e.num(p+".DurationSec", uint64(ds))
			e.num(p+".DurationNSec", uint64(dn))
			e.num(p+".Priority", uint64(prio))
			e.num(p+".IdleTimeout", uint64(it))
			e.num(p+".HardTimeout", uint64(ht))
			e.num(p+".Flags", uint64(flg))
			e.num(p+".Cookie", cookie)
			e.num(p+".PacketCount", pc)
			e.num(p+".ByteCount", bc)
			e.items = append(e.items, sub.items...)
			e.other(p+".Instructions", "ins:"+hx0(ins))
		}
		return hdr(19, b.b), e.String("MultipartReply")
	case 13: // multipart reply: aggregate
		pc, bc, fc := g.u(^uint64(0)), g.u(^uint64(0)), uint32(g.u(0xffffffff))
		e.num("Type", 2)
		e.count("Body", 1)
		e.kind("Body.0", "AggregateStats")
		e.num("Body.0.PacketCount", pc)
		e.num("Body.0.ByteCount", bc)
		e.num("Body.0.FlowCount", uint64(fc))
		return hdr(19, nb().u16(2, 0).z(4).q(pc, bc).u32(fc).z(4).b), e.String("MultipartReply")
	case 14: // multipart reply: table stats (OpenFlow 1.3: 24-byte records)
		n := 1 + g.r.Intn(3)
		b := nb().u16(3, 0).z(4)
		e.num("Type", 3)
		e.count("Body", n)
		for i := 0; i < n; i++ {
			p := fmt.Sprintf("Body.%d", i)
			tab, ac, lc, mc := int(g.u(254)), uint32(g.u(0xffffffff)), g.u(^uint64(0)), g.u(^uint64(0))
			b.u8(tab).z(3).u32(ac).q(lc, mc)
			e.kind(p, "TableStats")
			e.num(p+".TableId", uint64(tab))
			e.num(p+".ActiveCount", uint64(ac))
			e.num(p+".LookupCount", lc)
			e.num(p+".MatchedCount", mc)
		}
		return hdr(19, b.b), e.String("MultipartReply")
	case 15: // multipart reply: port stats (OpenFlow 1.3: 112-byte records)
		n := 1 + g.r.Intn(3)
		b := nb().u16(4, 0).z(4)
		e.num("Type", 4)
		e.count("Body", n)
		names := []string{"RxPackets", "TxPackets", "RxBytes", "TxBytes", "RxDropped", "TxDropped", "RxErrors", "TxErrors", "RxFrameErr", "RxOverErr", "RxCRCErr", "Collisions"}
		for i := 0; i < n; i++ {
			p := fmt.Sprintf("Body.%d", i)
			no := uint32(g.u(0xffffff00))
			b.u32(no).z(4)
			e.kind(p, "PortStats")
			e.num(p+".PortNo", uint64(no))
			for _, nm := range names {
				v := g.u(^uint64(0))
				b.q(v)
				e.num(p+"."+nm, v)
			}
			b.u32(uint32(g.u(0xffffffff)), uint32(g.u(999999999))) // duration_sec, duration_nsec
		}
		return hdr(19, b.b), e.String("MultipartReply")
	case 16: // multipart reply: queue stats (OpenFlow 1.3: 40-byte records)
		n := 1 + g.r.Intn(3)
		b := nb().u16(5, 0).z(4)
		e.num("Type", 5)
		e.count("Body", n)
		for i := 0; i < n; i++ {
			p := fmt.Sprintf("Body.%d", i)
			no, q := uint32(g.u(0xffffff00)), uint32(g.u(0xffffffff))
			tb, tp, te := g.u(^uint64(0)), g.u(^uint64(0)), g.u(^uint64(0))
			b.u32(no, q).q(tb, tp, te).u32(uint32(g.u(0xffffffff)), uint32(g.u(999999999)))
			e.kind(p, "QueueStats")
			e.num(p+".PortNo", uint64(no))
			e.num(p+".QueueId", uint64(q))
			e.num(p+".TxBytes", tb)
			e.num(p+".TxPackets", tp)
			e.num(p+".TxErrors", te)
		}
		return hdr(19, b.b), e.String("MultipartReply")
	case 17: // multipart reply: port descriptions
		n := 1 + g.r.Intn(3)
		b := nb().u16(13, 0).z(4)
		e.num("Type", 13)
		e.count("Body", n)
		for i := 0; i < n; i++ {
			p := fmt.Sprintf("Body.%d", i)
			e.kind(p, "PhyPort")
			b.raw(g.port(e, p))
		}
		return hdr(19, b.b), e.String("MultipartReply")
	case 18: // Nicira TLV table reply
		n := g.r.Intn(4)
		ms, mf := uint32(g.u(0xffffffff)), int(g.u(0xffff))
		b := nb().u32(0x2320, 26).u32(ms).u16(mf).z(10)
		e.num("Vendor", 0x2320)
		e.num("ExperimenterType", 26)
		e.kind("VendorData", "TLVTableReply")
		e.num("VendorData.MaxSpace", uint64(ms))
		e.num("VendorData.MaxFields", uint64(mf))
		e.count("VendorData.TlvMaps", n)
		for i := 0; i < n; i++ {
			oc, ot, ol, ix := int(g.u(0xffff)), int(g.u(255)), 4*(1+g.r.Intn(31)), g.r.Intn(64)
			b.u16(oc).u8(ot, ol).u16(ix).z(2)
			p := fmt.Sprintf("VendorData.TlvMaps.%d", i)
			e.num(p+".OptClass", uint64(oc))
			e.num(p+".OptType", uint64(ot))
			e.num(p+".OptLength", uint64(ol))
			e.num(p+".Index", uint64(ix))
		}
		return hdr(4, b.b), e.String("VendorHeader")
	default: // ONF bundle control reply
		id, ty, fl := uint32(g.u(0xffffffff)), []int{1, 3, 5, 7}[g.r.Intn(4)], g.r.Intn(4)
		e.num("Vendor", 0x4f4e4600)
		e.num("ExperimenterType", 2300)
		e.kind("VendorData", "BundleControl")
		e.num("VendorData.BundleID", uint64(id))
		e.num("VendorData.Type", uint64(ty))
		e.num("VendorData.Flags", uint64(fl))
		return hdr(4, nb().u32(0x4f4e4600, 2300).u32(id).u16(ty, fl).b), e.String("VendorHeader")
	}
}

const swKinds = 20

func init() {
	runners["sw"] = func(a []string) string { return runners["parse"](a[:2]) }
	// loc <hex frame>: frame locality on the implementation: the frame is parsed from two buffers that hold DIFFERENT bytes
	// behind it (what a recycled pool buffer may hold); a conformant frame must give the same message and the same
	// re-encoding both times
	runners["loc"] = func(a []string) string {
		fr := unhex(a[0])
		one := func(fill byte) string {
			back := make([]byte, len(fr)+96)
			copy(back, fr)
			for i := len(fr); i < len(back); i++ {
				back[i] = fill + byte(i%7)
			}
			return guard(func() string {
				outs := funcReg["Parse"].Call([]reflect.Value{reflect.ValueOf(back[:len(fr)])})
				if !outs[1].IsNil() {
					return "err"
				}
				if outs[0].IsNil() || (outs[0].Elem().Kind() == reflect.Ptr && outs[0].Elem().IsNil()) {
					return "nil"
				}
				m := outs[0].Elem()
				b, _ := marshalOf(m)
				return dumpV(m) + " " + hx(b)
			})
		}
		if one(0x00) == one(0xf1) {
			return "local"
		}
		return "nonlocal"
	}
	ofGens = append(ofGens, func(c *Ctx) {
		g := &swGen{r: c.rng}
		per := 12
		if c.thorough() {
			per = 200
		}
		for k := 0; k < swKinds; k++ {
			n := per
			if k == 7 || k == 12 {
				n = 8 * per // packet-in (every payload decoder) and flow-stats replies (matches, instructions, actions)
			}
			for i := 0; i < n; i++ {
				fr, exp := g.message(k)
				spare := 0
				if i%2 == 1 {
					spare = 16 + c.rng.Intn(32)
				}
				back := append([]byte(nil), fr...)
				for j := 0; j < spare; j++ {
					back = append(back, 0xe0+byte(j))
				}
				c.run("sw", hx(back), len(fr), exp)
				if i%2 == 0 {
					c.run("loc", hx(fr))
				}
				// … and the parsed message must round-trip like any value the API built (C05)
				// and its re-encoding must be the frame itself; exceptions: echo with payload (dropped, known finding) and
				// priority-tagged frames (tag lost on re-encoding, known finding) are left to their own oracles
				wire := "w"
				if k == 4 || g.sawPrioTag {
					wire = "-"
				}
				g.sawPrioTag = false
				c.run("rtw", hx(back), len(fr), wire)
			}
		}
	})
}

// ---- C09: stand-alone packet headers written by the independent encoder ---------------------------------------------
//
//	pk <kind> <hex backing> <len> <expectation>     decode with the kind's own decoder, then Len() and MarshalBinary():
//	                                                "<dump> <Len> <hex of the re-encoding>"
//
// Expectations as for `sw`.  All values are in range for their bit width and all length / count fields agree with
// the parts present, so the re-encoding must reproduce the input and Len() must equal the bytes consumed.

func (g *swGen) header(k int) (kind string, b []byte, exp string) {
	e := &swExp{}
	switch k {
	case 0: // VLAN tag: every (pcp, dei) with boundary and random vids — lanes
		pcp, dei, vid := g.r.Intn(8), g.r.Intn(2), []int{0, 1, 4095, 2048, g.r.Intn(4096)}[g.r.Intn(5)]
		e.num("TPID", 0x8100)
		e.num("PCP", uint64(pcp))
		e.num("DEI", uint64(dei))
		e.num("VID", uint64(vid))
		return "p.VLAN", nb().u16(0x8100, pcp<<13|dei<<12|vid).b, e.String("p.VLAN")
	case 1: // TCP: data offset and the 6 code bits
		sp, dp, seq, ack := int(g.u(0xffff)), int(g.u(0xffff)), uint32(g.u(0xffffffff)), uint32(g.u(0xffffffff))
		off, code, win, cs, urg := g.r.Intn(16), g.r.Intn(64), int(g.u(0xffff)), int(g.u(0xffff)), int(g.u(0xffff))
		data := g.bytes(g.r.Intn(40))
		e.num("PortSrc", uint64(sp))
		e.num("PortDst", uint64(dp))
		e.num("SeqNum", uint64(seq))
		e.num("AckNum", uint64(ack))
		e.num("HdrLen", uint64(off))
		e.num("Code", uint64(code))
		e.num("WinSize", uint64(win))
		e.num("Checksum", uint64(cs))
		e.num("UrgFlag", uint64(urg))
		e.raw("Data", data)
		return "p.TCP", nb().u16(sp, dp).u32(seq, ack).u8(off<<4, code).u16(win, cs, urg).raw(data).b, e.String("p.TCP")
	case 2: // IPv6 fragment header: 13-bit offset, M flag
		nh, off, more, id := int(g.u(255)), []int{0, 1, 8191, g.r.Intn(8192)}[g.r.Intn(4)], g.r.Intn(2), uint32(g.u(0xffffffff))
		e.num("NextHeader", uint64(nh))
		e.num("FragmentOffset", uint64(off))
		e.num("MoreFragments", uint64(more))
		e.num("Identification", uint64(id))
		return "p.FragmentHeader", nb().u8(nh, 0).u16(off<<3 | more).u32(id).b, e.String("p.FragmentHeader")
	case 3: // IGMPv3 query: S flag and QRV share a byte with 4 reserved bits
		mrt, cs, s, qrv, qqic := int(g.u(255)), int(g.u(0xffff)), g.r.Intn(2), g.r.Intn(8), int(g.u(255))
		grp := g.bytes(4)
		n := g.r.Intn(4)
		x := nb().u8(0x11, mrt).u16(cs).raw(grp).u8(s<<3|qrv, qqic).u16(n)
		e.num("Type", 0x11)
		e.num("MaxResponseTime", uint64(mrt))
		e.num("Checksum", uint64(cs))
		e.raw("GroupAddress", grp)
		e.num("SuppressRouterProcessing", uint64(s))
		e.num("RobustnessValue", uint64(qrv))
		e.num("IntervalTime", uint64(qqic))
		e.num("NumberOfSources", uint64(n))
		e.count("SourceAddresses", n)
		for i := 0; i < n; i++ {
			a := g.bytes(4)
			x.raw(a)
			e.raw(fmt.Sprintf("SourceAddresses.%d", i), a)
		}
		return "p.IGMPv3Query", x.b, e.String("p.IGMPv3Query")
	case 4: // IGMPv1/v2
		ty, mrt, cs := []int{0x11, 0x12, 0x16, 0x17}[g.r.Intn(4)], int(g.u(255)), int(g.u(0xffff))
		grp := g.bytes(4)
		e.num("Type", uint64(ty))
		e.num("MaxResponseTime", uint64(mrt))
		e.num("Checksum", uint64(cs))
		e.raw("GroupAddress", grp)
		return "p.IGMPv1or2", nb().u8(ty, mrt).u16(cs).raw(grp).b, e.String("p.IGMPv1or2")
	case 5: // IGMPv3 membership report with group records
		cs, ng := int(g.u(0xffff)), g.r.Intn(3)
		x := nb().u8(0x22, 0).u16(cs, 0, ng)
		e.num("Type", 0x22)
		e.num("Checksum", uint64(cs))
		e.num("NumberOfGroups", uint64(ng))
		e.count("GroupRecords", ng)
		for i := 0; i < ng; i++ {
			p := fmt.Sprintf("GroupRecords.%d", i)
			rt, aux, ns := 1+g.r.Intn(6), g.r.Intn(3), g.r.Intn(3)
			mc := g.bytes(4)
			x.u8(rt, aux).u16(ns).raw(mc)
			e.num(p+".Type", uint64(rt))
			e.num(p+".AuxDataLen", uint64(aux))
			e.num(p+".NumberOfSources", uint64(ns))
			e.raw(p+".MulticastAddress", mc)
			e.count(p+".SourceAddresses", ns)
			for j := 0; j < ns; j++ {
				a := g.bytes(4)
				x.raw(a)
				e.raw(fmt.Sprintf("%s.SourceAddresses.%d", p, j), a)
			}
			e.count(p+".AuxData", aux)
			for j := 0; j < aux; j++ {
				w := uint32(g.u(0xffffffff))
				x.u32(w)
				e.num(fmt.Sprintf("%s.AuxData.%d", p, j), uint64(w))
			}
		}
		return "p.IGMPv3MembershipReport", x.b, e.String("p.IGMPv3MembershipReport")
	case 6: // IPv6 routing header
		// headers of 256 bytes and more (HEL >= 31) included: the size must not be computed in 8 bits
		nh, segs, left := int(g.u(255)), []int{0, 1, 2, 15, 16, 20, 127}[g.r.Intn(7)], g.r.Intn(3)
		data := append(make([]byte, 4), g.bytes(16*segs)...)
		e.num("NextHeader", uint64(nh))
		e.num("HEL", uint64(2*segs))
		e.num("RoutingType", 0)
		e.num("SegmentsLeft", uint64(left))
		e.raw("Data", data)
		return "p.RoutingHeader", nb().u8(nh, 2*segs, 0, left).raw(data).b, e.String("p.RoutingHeader")
	case 7: // IPv6 hop-by-hop header with options filling it exactly
		nh := int(g.u(255))
		units := []int{0, 1, 2, 30, 31, 32, 63, 255}[g.r.Intn(8)]
		total := 8 * (units + 1)
		x := nb().u8(nh, units)
		e.num("NextHeader", uint64(nh))
		e.num("HEL", uint64(units))
		rem := total - 2
		i := 0
		for rem > 0 {
			p := fmt.Sprintf("Options.%d", i)
			if rem == 1 || g.r.Intn(6) == 0 { // Pad1: a lone type byte
				x.u8(0)
				e.num(p+".Type", 0)
				rem--
				i++
				continue
			}
			l := g.r.Intn(min(rem-1, 254))
			d := g.bytes(l)
			ty := 1 + g.r.Intn(200)
			x.u8(ty, l).raw(d)
			e.num(p+".Type", uint64(ty))
			e.num(p+".Length", uint64(l))
			e.raw(p+".Data", d)
			rem -= 2 + l
			i++
		}
		e.count("Options", i)
		return "p.HopByHopHeader", x.b, e.String("p.HopByHopHeader")
	case 8: // ICMP
		ty, code, cs := int(g.u(255)), int(g.u(255)), int(g.u(0xffff))
		data := g.bytes(g.r.Intn(50))
		e.num("Type", uint64(ty))
		e.num("Code", uint64(code))
		e.num("Checksum", uint64(cs))
		e.raw("Data", data)
		return "p.ICMP", nb().u8(ty, code).u16(cs).raw(data).b, e.String("p.ICMP")
	case 9: // ARP
		sub := &swExp{}
		pk := g.packetOf(sub, "", 2)
		// strip the Ethernet header: 14 bytes (packetOf(…, 2) never tags)
		for _, it := range sub.items {
			if strings.HasPrefix(it, ".Data.") {
				e.items = append(e.items, strings.TrimPrefix(it, ".Data."))
			}
		}
		return "p.ARP", pk[14:], e.String("p.ARP")
	default: // a whole Ethernet frame (all payload kinds); one in six is priority-tagged
		g.prioTag = g.r.Intn(6) == 0
		pk := g.packetOf(e, "", -1)
		for i, it := range e.items {
			e.items[i] = strings.TrimPrefix(it, ".")
		}
		return "p.Ethernet", pk, e.String("p.Ethernet")
	}
}

const pkKinds = 11

func init() {
	runners["pk"] = func(a []string) string {
		t, ok := typeReg[a[0]]
		if !ok {
			return "notype"
		}
		p := reflect.New(t)
		data := backingOf(a[1], a[2])
		if res := p.MethodByName("UnmarshalBinary").Call([]reflect.Value{reflect.ValueOf(data)}); !res[0].IsNil() {
			return "err"
		}
		l := callLen(p)
		b, ok := marshalOf(p)
		if !ok {
			return dumpV(p) + " " + l + " err"
		}
		return dumpV(p) + " " + l + " " + hx(b)
	}
	// pkrw p.DHCP <hex> <len> <expectations>: a BOOTP/DHCP message written by an independent encoder (RFC 2131 / 2132) is
	// decoded with Write; every fixed field must hold what was written, Len() must be the message's size and Read must
	// reproduce the message (DHCP has Read / Write instead of MarshalBinary / UnmarshalBinary)
	runners["pkrw"] = func(a []string) string {
		t, ok := typeReg[a[0]]
		if !ok {
			return "notype"
		}
		p := reflect.New(t)
		data := backingOf(a[1], a[2])
		if res := p.MethodByName("Write").Call([]reflect.Value{reflect.ValueOf(data)}); !res[1].IsNil() {
			return "err"
		}
		l := callLen(p)
		buf := make([]byte, atoi(l))
		res := p.MethodByName("Read").Call([]reflect.Value{reflect.ValueOf(buf)})
		if !res[1].IsNil() {
			return dumpV(p) + " " + l + " err"
		}
		return dumpV(p) + " " + l + " " + hx(buf[:res[0].Int()])
	}
	ofGens = append(ofGens, func(c *Ctx) {
		g := &swGen{r: c.rng}
		n := 60
		if c.thorough() {
			n = 3000
		}
		for i := 0; i < n; i++ {
			e := &swExp{}
			op, hops, xid, secs, flags := 1+g.r.Intn(2), g.r.Intn(4), uint32(g.u(0xffffffff)), int(g.u(0xffff)), []int{0, 0x8000}[g.r.Intn(2)]
			cip, yip, sip, gip := g.bytes(4), g.bytes(4), g.bytes(4), g.bytes(4)
			mac := g.bytes(6)
			sname, file := g.name(64, "srv"), g.name(128, "boot/pxe")
			x := nb().u8(op, 1, 6, hops).u32(xid).u16(secs, flags).raw(cip).raw(yip).raw(sip).raw(gip).raw(mac).z(10).raw(sname).raw(file).u32(0x63825363)
			// options: message type first, then a mix incl. pad options; the end option closes the list
			nopt := 0
			x.u8(53, 1, 1+g.r.Intn(8))
			nopt++
			for k := g.r.Intn(6); k > 0; k-- {
				switch g.r.Intn(5) {
				case 0:
					x.u8(0) // pad: a lone tag byte
				case 1:
					x.u8(61, 7, 1).raw(mac)
				case 2:
					l := 1 + g.r.Intn(12)
					x.u8(55, l).raw(g.bytes(l))
				case 3:
					x.u8(50, 4).raw(g.bytes(4))
				default:
					l := g.r.Intn(254)
					x.u8(12+g.r.Intn(30), l).raw(g.bytes(l))
				}
				nopt++
			}
			x.u8(255)
			e.num("Operation", uint64(op))
			e.num("HardwareType", 1)
			e.num("HardwareLen", 6)
			e.num("HardwareOpts", uint64(hops))
			e.num("Xid", uint64(xid))
			e.num("Secs", uint64(secs))
			e.num("Flags", uint64(flags))
			e.raw("ClientIP", cip)
			e.raw("YourIP", yip)
			e.raw("ServerIP", sip)
			e.raw("GatewayIP", gip)
			e.raw("ClientHWAddr", mac)
			e.raw("ServerName", sname)
			e.raw("File", file)
			e.count("Options", nopt)
			back := append([]byte(nil), x.b...)
			if i%3 == 2 {
				back = append(back, make([]byte, 1+g.r.Intn(40))...) // BOOTP padding behind the end option
			}
			c.run("pkrw", "p.DHCP", hx(back), len(back), len(x.b), e.String("p.DHCP"))
		}
	})
	// dhcpsz <seed>: a DHCP message built the way an application builds one (NewDHCP, exported fields, options appended to
	// Options — pad and end options anywhere, also options behind an end option, e.g. padding to the BOOTP minimum); the size
	// it reports must be the number of bytes Read produces into a large buffer (C06 on a value only the API builds)
	runners["dhcpsz"] = func(a []string) string {
		r := rand.New(rand.NewSource(int64(atoi(a[0]))))
		d, err := protocol.NewDHCP(uint32(r.Int63()), protocol.DHCPOperation(1+r.Intn(2)), 1)
		if err != nil {
			return "err"
		}
		d.HardwareLen = 6
		d.ClientHWAddr = net.HardwareAddr{2, 0, 0, byte(r.Intn(256)), byte(r.Intn(256)), 1}
		nopt := r.Intn(7)
		for k := 0; k < nopt; k++ {
			switch r.Intn(6) {
			case 0:
				d.Options = append(d.Options, protocol.DHCPNewOption(0, nil))
			case 1:
				d.Options = append(d.Options, protocol.DHCPNewOption(255, nil))
			case 2:
				d.Options = append(d.Options, protocol.DHCPNewOption(53, []byte{byte(1 + r.Intn(8))}))
			default:
				l := r.Intn(20)
				b := make([]byte, l)
				r.Read(b)
				d.Options = append(d.Options, protocol.DHCPNewOption(byte(1+r.Intn(200)), b))
			}
		}
		if r.Intn(3) == 0 { // padding behind the end option up to a round size
			d.Options = append(d.Options, protocol.DHCPNewOption(255, nil))
			for k := 1 + r.Intn(12); k > 0; k-- {
				d.Options = append(d.Options, protocol.DHCPNewOption(0, nil))
			}
		}
		p := reflect.ValueOf(d)
		l := callLen(p)
		buf := make([]byte, 8192)
		n, rerr := d.Read(buf)
		if rerr != nil {
			return dumpV(p) + " " + l + " err"
		}
		return dumpV(p) + " " + l + " " + hx(buf[:n])
	}
	ofGens = append(ofGens, func(c *Ctx) {
		n := 150
		if c.thorough() {
			n = 3000
		}
		for i := 0; i < n; i++ {
			c.run("dhcpsz", c.rng.Intn(1<<30))
		}
	})
	// embedw <kind> <hex backing> <len>: the value decoded from a conformant wire image is self-consistent; its encoding
	// must contain the complete encodings of its children (C06 on packet headers, whose fields applications fill in)
	runners["embedw"] = func(a []string) string {
		t, ok := typeReg[a[0]]
		if !ok {
			return "notype"
		}
		p := reflect.New(t)
		data := backingOf(a[1], a[2])
		if res := p.MethodByName("UnmarshalBinary").Call([]reflect.Value{reflect.ValueOf(data)}); !res[0].IsNil() {
			return "err"
		}
		n := 0
		if msg := embedCheck(p, "v", &n, 0); msg != "" {
			return "FAIL " + msg
		}
		return fmt.Sprintf("ok %d", n)
	}
	ofGens = append(ofGens, func(c *Ctx) {
		g := &swGen{r: c.rng}
		per := 40
		if c.thorough() {
			per = 1500
		}
		for k := 0; k < pkKinds; k++ {
			n := per
			if k == 0 {
				n = 4 * per // VLAN lanes
			}
			for i := 0; i < n; i++ {
				kind, b, exp := g.header(k)
				spare := 0
				if i%3 == 2 {
					spare = 8 + c.rng.Intn(16)
				}
				back := append([]byte(nil), b...)
				for j := 0; j < spare; j++ {
					back = append(back, 0xd0+byte(j))
				}
				c.run("pk", kind, hx(back), len(b), exp)
				c.run("embedw", kind, hx(back), len(b))
			}
		}
	})
}
