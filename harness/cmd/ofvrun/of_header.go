package main

// generator for common/header.go: Header, HelloElemHeader, HelloElemVersionBitmap, Hello

import "fmt"

func init() {
	ofGens = append(ofGens, func(c *Ctx) {
		vals := []uint64{0, 1, 4, 0xff, 0xfe}
		for _, ver := range vals {
			for _, ty := range []uint64{0, 1, 14, 255} {
				c.encDec("Header", fmt.Sprintf("Header(%d,%d,%d,%d)", ver, ty, c.rng.Intn(65536), c.rng.Uint32()))
			}
		}
		c.encDec("Header", "Header(4,0,65535,4294967295)")
		c.encDec("HelloElemHeader", "HelloElemHeader(1,4)")
		c.encDec("HelloElemHeader", "HelloElemHeader(65535,65534)")
		bm := func(n int) string {
			s := "["
			for i := 0; i < n; i++ {
				if i > 0 {
					s += ","
				}
				s += fmt.Sprint([]uint32{18, 0, 1, 0xffffffff, 0x11223344, 7, 0x80000000}[i%7])
			}
			return s + "]"
		}
		for _, n := range []int{0, 1, 2, 3, 7} {
			c.encDec("HelloElemVersionBitmap", fmt.Sprintf("HelloElemVersionBitmap(HelloElemHeader(1,%d),%s)", 4+4*n, bm(n)))
			// cached length deliberately different from the content
			c.encDec("HelloElemVersionBitmap", fmt.Sprintf("HelloElemVersionBitmap(HelloElemHeader(1,%d),%s)", 4, bm(n)))
		}
		for _, n := range []int{0, 1, 2, 3, 7} {
			es := "["
			for i := 0; i < n; i++ {
				if i > 0 {
					es += ","
				}
				k := i % 3
				es += fmt.Sprintf("HelloElemVersionBitmap(HelloElemHeader(1,%d),%s)", 4+4*k, bm(k))
			}
			es += "]"
			c.encDec("Hello", fmt.Sprintf("Hello(Header(4,0,8,%d),%s)", 100+n, es))
		}
		// a nil element, an element of the bare header kind
		c.run("enc", "Hello(Header(4,0,8,1),[~])")
		c.run("enc", "Hello(Header(4,0,8,1),[HelloElemHeader(1,4)])")
		// API
		c.run("prog", "h=NewHello(4);$h.Xid=7;!h")
		c.run("prog", "h=NewHello(1);$h.Xid=4294967295;!h")
		c.run("prog", "h=NewHello(260);$h.Xid=0;!h")
		c.run("prog", "e=NewHelloElemVersionBitmap();!e")
		c.run("prog", "e=NewHelloElemHeader();!e")
		// hostile hello frames: unknown element type, zero/short/huge element length, trailing fragments
		for _, s := range []string{
			"0400001000000001" + "0002000800000012", "0400001000000001" + "0000000800000012", "0400001000000001" + "ffff000800000012",
			"0400000c00000001" + "00010004", "0400000d00000001" + "0001000400", "0400000a00000001" + "0001",
			"0400001800000001" + "0001000800000012" + "0001000800000003", "0400001000000001" + "0001ffff00000012",
		} {
			c.decCases("dec", "Hello", unhex(s))
		}
	})
}
