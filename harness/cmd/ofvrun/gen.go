package main

// Generic ops over the reflection layer.
//   enc <term>                         build the value, observe Len / MarshalBinary / Len / dump
//   dec <Kind> <hex backing> <len>     new(Kind).UnmarshalBinary(backing[:len]); dump and Len (or err)
//   decc <Ctor> <hex backing> <len>    Ctor().UnmarshalBinary(...)      (receiver from a zero-argument constructor)
//   parse <hex backing> <len>          openflow13.Parse
//   fn <Func> <arg>…                   call an exported function; results dumped, separated by " | "
//   prog <stmt>;<stmt>;…;!<var>        straight-line API program, then observe <var>
//        stmt:  v=Func(args)   v=$w.Method(args)   $w.Method(args)   $w.Field=arg   v=term

import (
	"fmt"
	"reflect"
	"strings"
)

func backingOf(hexs, ln string) []byte { return backing(unhex(hexs), atoi(ln)) }

func decodeInto(p reflect.Value, data []byte) string {
	m := p.MethodByName("UnmarshalBinary")
	if !m.IsValid() {
		return "nounmarshal"
	}
	out := m.Call([]reflect.Value{reflect.ValueOf(data)})
	if !out[0].IsNil() {
		return "err"
	}
	return dumpV(p) + " " + callLen(p)
}

func splitArgs(s string) []string {
	// split at top-level commas
	var out []string
	depth, j := 0, 0
	for i := 0; i < len(s); i++ {
		switch s[i] {
		case '(', '[':
			depth++
		case ')', ']':
			depth--
		case ',':
			if depth == 0 {
				out = append(out, s[j:i])
				j = i + 1
			}
		}
	}
	if j < len(s) {
		out = append(out, s[j:])
	}
	return out
}

func callFunc(f reflect.Value, args []string, vars env) []reflect.Value {
	ft := f.Type()
	var in []reflect.Value
	for i, a := range args {
		var pt reflect.Type
		if ft.IsVariadic() && i >= ft.NumIn()-1 {
			pt = ft.In(ft.NumIn() - 1).Elem()
		} else {
			if i >= ft.NumIn() {
				panic("too many arguments")
			}
			pt = ft.In(i)
		}
		in = append(in, build(parseTerm(a), pt, vars))
	}
	if !ft.IsVariadic() && len(in) != ft.NumIn() {
		panic("argument count")
	}
	return f.Call(in)
}

// results -> (value to bind, error?)
func firstResult(outs []reflect.Value) (reflect.Value, bool) {
	var v reflect.Value
	for _, o := range outs {
		if o.Type().Implements(errorType) && o.Type().Kind() == reflect.Interface {
			if !o.IsNil() {
				return v, true
			}
			continue
		}
		if !v.IsValid() {
			v = o
		}
	}
	return v, false
}

func runProg(src string) string {
	vars := env{}
	stmts := strings.Split(src, ";")
	for k, st := range stmts {
		st = strings.TrimSpace(st)
		if st == "" {
			continue
		}
		if st[0] == '!' {
			v, ok := vars[st[1:]]
			if !ok {
				return "novar"
			}
			if v.Kind() != reflect.Ptr {
				a := reflect.New(v.Type())
				a.Elem().Set(v)
				v = a
			}
			return observe(v)
		}
		lhs := ""
		rhs := st
		if i := strings.IndexByte(st, '='); i > 0 && !strings.ContainsAny(st[:i], "($") {
			lhs, rhs = st[:i], st[i+1:]
		}
		var val reflect.Value
		failed := false
		switch {
		case rhs[0] == '$' && strings.Contains(rhs, "=") && !strings.Contains(rhs[:strings.Index(rhs, "=")], "("):
			// $w.Field=arg
			i := strings.Index(rhs, "=")
			path := strings.Split(rhs[1:i], ".")
			v := vars[path[0]]
			for _, f := range path[1:] {
				if v.Kind() == reflect.Ptr {
					v = v.Elem()
				}
				v = open(v.FieldByName(f))
			}
			v.Set(build(parseTerm(rhs[i+1:]), v.Type(), vars))
		case rhs[0] == '$':
			// $w.Method(args)
			i := strings.Index(rhs, "(")
			dot := strings.LastIndex(rhs[:i], ".")
			recv := vars[rhs[1:dot]]
			m := recv.MethodByName(rhs[dot+1 : i])
			if !m.IsValid() {
				return fmt.Sprintf("nomethod@%d", k)
			}
			val, failed = firstResult(callFunc(m, splitArgs(rhs[i+1:len(rhs)-1]), vars))
		default:
			i := strings.Index(rhs, "(")
			if f, ok := funcReg[rhs[:max(i, 0)]]; ok && i > 0 {
				val, failed = firstResult(callFunc(f, splitArgs(rhs[i+1:len(rhs)-1]), vars))
			} else if sp, ok := specials[rhs[:max(i, 0)]]; ok && i > 0 {
				val, failed = sp(splitArgs(rhs[i+1:len(rhs)-1]), vars)
			} else {
				val = buildObj(rhs, vars)
			}
		}
		if failed {
			return fmt.Sprintf("err@%d", k)
		}
		if lhs != "" {
			vars[lhs] = val
		}
	}
	return "noobs"
}

// specials: generic or otherwise unreflectable API entry points, added by hand
var specials = map[string]func(args []string, vars env) (reflect.Value, bool){}

func init() {
	runners["enc"] = func(a []string) string { return observe(buildObj(a[0], env{})) }
	runners["dec"] = func(a []string) string {
		t, ok := typeReg[a[0]]
		if !ok {
			return "notype"
		}
		return decodeInto(reflect.New(t), backingOf(a[1], a[2]))
	}
	runners["decc"] = func(a []string) string {
		f, ok := funcReg[a[0]]
		if !ok {
			return "nofunc"
		}
		out := f.Call(nil)
		return decodeInto(out[0], backingOf(a[1], a[2]))
	}
	runners["fn"] = func(a []string) string {
		f, ok := funcReg[a[0]]
		if !ok {
			return "nofunc"
		}
		outs := callFunc(f, a[1:], env{})
		var parts []string
		for _, o := range outs {
			if o.Type().Kind() == reflect.Interface && o.Type().Implements(errorType) {
				if !o.IsNil() {
					return "err"
				}
				continue
			}
			parts = append(parts, dumpV(o))
		}
		return strings.Join(parts, " | ")
	}
	runners["parse"] = func(a []string) string {
		outs := funcReg["Parse"].Call([]reflect.Value{reflect.ValueOf(backingOf(a[0], a[1]))})
		if !outs[1].IsNil() {
			return "err"
		}
		return dumpV(outs[0])
	}
	runners["prog"] = func(a []string) string { return runProg(strings.Join(a, "")) }
	runners["api"] = func(a []string) string { return runProg(strings.Join(a, "")) }
}
