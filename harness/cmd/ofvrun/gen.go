package main

// Generic ops over the reflection layer.
//   enc <term>                         build the value, observe Len / MarshalBinary / Len / dump
//   dec <Kind> <hex backing> <len>     new(Kind).UnmarshalBinary(backing[:len]); dump and Len (or err)
//   decc <Ctor> <hex backing> <len>    Ctor().UnmarshalBinary(...)      (receiver from a zero-argument constructor)
//   parse <hex backing> <len>          openflow13.Parse
//   fn <Func> <arg>…                   call an exported function; results dumped, separated by " | "
//   prog <stmt>;<stmt>;…;!<var>        straight-line API program, then observe <var>
//        stmt:  v=Func(args)   v=$w.Method(args)   $w.Method(args)   $w.Field=arg   v=term

import (
	"fmt"
	"os"
	"reflect"
	"strings"
)

func backingOf(hexs, ln string) []byte { return backing(unhex(hexs), atoi(ln)) }

func decodeInto(p reflect.Value, data []byte) string {
	m := p.MethodByName("UnmarshalBinary")
	if !m.IsValid() {
		return "nounmarshal"
	}
	out := m.Call([]reflect.Value{reflect.ValueOf(data)})
	if !out[0].IsNil() {
		return "err"
	}
	return dumpV(p) + " " + callLen(p)
}

func splitArgs(s string) []string {
	// split at top-level commas
	var out []string
	depth, j := 0, 0
	for i := 0; i < len(s); i++ {
		switch s[i] {
		case '(', '[':
			depth++
		case ')', ']':
			depth--
		case ',':
			if depth == 0 {
				out = append(out, s[j:i])
				j = i + 1
			}
		}
	}
	if j < len(s) {
		out = append(out, s[j:])
	}
	return out
}

func callFunc(f reflect.Value, args []string, vars env) []reflect.Value {
	ft := f.Type()
	var in []reflect.Value
	for i, a := range args {
		var pt reflect.Type
		if ft.IsVariadic() && i >= ft.NumIn()-1 {
			pt = ft.In(ft.NumIn() - 1).Elem()
		} else {
			if i >= ft.NumIn() {
				panic("too many arguments")
			}
			pt = ft.In(i)
		}
		in = append(in, build(parseTerm(a), pt, vars))
	}
	if !ft.IsVariadic() && len(in) != ft.NumIn() {
		panic("argument count")
	}
	return f.Call(in)
}

// results -> (value to bind, error?)
func firstResult(outs []reflect.Value) (reflect.Value, bool) {
	var v reflect.Value
	for _, o := range outs {
		if o.Type().Implements(errorType) && o.Type().Kind() == reflect.Interface {
			if !o.IsNil() {
				return v, true
			}
			continue
		}
		if !v.IsValid() {
			v = o
		}
	}
	return v, false
}

func runProg(src string) string { return runProgEnv(src, env{}) }

func runProgEnv(src string, vars env) string {
	stmts := strings.Split(src, ";")
	for k, st := range stmts {
		st = strings.TrimSpace(st)
		if st == "" {
			continue
		}
		if st[0] == '!' {
			v, ok := vars[st[1:]]
			if !ok {
				return "novar"
			}
			if v.Kind() != reflect.Ptr {
				a := reflect.New(v.Type())
				a.Elem().Set(v)
				v = a
			}
			return observe(v)
		}
		lhs := ""
		rhs := st
		if i := strings.IndexByte(st, '='); i > 0 && !strings.ContainsAny(st[:i], "($") {
			lhs, rhs = st[:i], st[i+1:]
		}
		var val reflect.Value
		failed := false
		switch {
		case rhs[0] == '$' && strings.Contains(rhs, "=") && !strings.Contains(rhs[:strings.Index(rhs, "=")], "("):
			// $w.Field=arg
			i := strings.Index(rhs, "=")
			path := strings.Split(rhs[1:i], ".")
			v := vars[path[0]]
			for _, f := range path[1:] {
				if v.Kind() == reflect.Ptr {
					v = v.Elem()
				}
				v = open(v.FieldByName(f))
			}
			v.Set(build(parseTerm(rhs[i+1:]), v.Type(), vars))
		case rhs[0] == '$':
			// $w.Method(args)
			i := strings.Index(rhs, "(")
			dot := strings.LastIndex(rhs[:i], ".")
			recv := vars[rhs[1:dot]]
			m := recv.MethodByName(rhs[dot+1 : i])
			if !m.IsValid() {
				return fmt.Sprintf("nomethod@%d", k)
			}
			val, failed = firstResult(callFunc(m, splitArgs(rhs[i+1:len(rhs)-1]), vars))
		default:
			i := strings.Index(rhs, "(")
			if f, ok := funcReg[rhs[:max(i, 0)]]; ok && i > 0 {
				val, failed = firstResult(callFunc(f, splitArgs(rhs[i+1:len(rhs)-1]), vars))
			} else if sp, ok := specials[rhs[:max(i, 0)]]; ok && i > 0 {
				val, failed = sp(splitArgs(rhs[i+1:len(rhs)-1]), vars)
			} else {
				val = buildObj(rhs, vars)
			}
		}
		if failed {
			return fmt.Sprintf("err@%d", k)
		}
		if lhs != "" {
			vars[lhs] = val
		}
	}
	return "noobs"
}

// specials: generic or otherwise unreflectable API entry points, added by hand
var specials = map[string]func(args []string, vars env) (reflect.Value, bool){}

func init() {
	runners["enc"] = func(a []string) string { return observe(buildObj(a[0], env{})) }
	runners["dec"] = func(a []string) string {
		t, ok := typeReg[a[0]]
		if !ok {
			return "notype"
		}
		return decodeInto(reflect.New(t), backingOf(a[1], a[2]))
	}
	runners["decc"] = func(a []string) string {
		f, ok := funcReg[a[0]]
		if !ok {
			return "nofunc"
		}
		out := f.Call(nil)
		return decodeInto(out[0], backingOf(a[1], a[2]))
	}
	runners["fn"] = func(a []string) string {
		f, ok := funcReg[a[0]]
		if !ok {
			return "nofunc"
		}
		outs := callFunc(f, a[1:], env{})
		var parts []string
		for _, o := range outs {
			if o.Type().Kind() == reflect.Interface && o.Type().Implements(errorType) {
				if !o.IsNil() {
					return "err"
				}
				continue
			}
			parts = append(parts, dumpV(o))
		}
		return strings.Join(parts, " | ")
	}
	runners["parse"] = func(a []string) string {
		outs := funcReg["Parse"].Call([]reflect.Value{reflect.ValueOf(backingOf(a[0], a[1]))})
		if !outs[1].IsNil() {
			return "err"
		}
		return dumpV(outs[0])
	}
	runners["prog"] = func(a []string) string { return runProg(strings.Join(a, "")) }
	runners["api"] = func(a []string) string { return runProg(strings.Join(a, "")) }
	runners["apix"] = runners["api"]
}

// ---- history / round-trip / ownership ops -------------------------------------------------------
//   rep <script> <term|prog…;!v>   script over {L,M}: successive Len / MarshalBinary results, then the dump (C13)
//   rtrip <term|prog…;!v>          marshal; decode the bytes (followed by junk, with spare capacity) into a fresh
//                                  value of the same kind; marshal again:  "<hex> | <Len2> <hex2> | <dump2>"  (C05, C09)
//   rtparse <prog…;!v>             the same through openflow13.Parse (top-level messages)
//   scribble <hex backing> <len>   Parse; observe; overwrite the WHOLE backing array; observe again (C12)

func valueOf(src string) (reflect.Value, string) {
	if strings.Contains(src, ";!") {
		i := strings.LastIndex(src, ";!")
		vars := env{}
		if out := runStmts(src[:i], vars); out != "" {
			return reflect.Value{}, out
		}
		v, ok := vars[src[i+2:]]
		if !ok {
			return reflect.Value{}, "novar"
		}
		if v.Kind() != reflect.Ptr {
			a := reflect.New(v.Type())
			a.Elem().Set(v)
			v = a
		}
		return v, ""
	}
	return buildObj(src, env{}), ""
}

// runStmts executes the statements of a program (no observation); "" = ok
func runStmts(src string, vars env) string {
	out := runProgEnv(src+";!__none__", vars)
	if out == "novar" {
		return ""
	}
	return out
}

func marshalOf(p reflect.Value) ([]byte, bool) {
	m := p.MethodByName("MarshalBinary")
	if !m.IsValid() {
		return nil, false
	}
	out := m.Call(nil)
	if !out[1].IsNil() {
		return nil, false
	}
	return out[0].Bytes(), true
}

func init() {
	runners["rep"] = func(a []string) string {
		p, e := valueOf(strings.Join(a[1:], ""))
		if e != "" {
			return e
		}
		var parts []string
		for _, c := range a[0] {
			if c == 'L' {
				parts = append(parts, "L"+callLen(p))
			} else {
				b, ok := marshalOf(p)
				if !ok {
					parts = append(parts, "Merr")
				} else {
					parts = append(parts, "M"+hx(b))
				}
			}
		}
		return strings.Join(parts, ",") + " " + dumpV(p)
	}
	runners["repx"] = runners["rep"]
	var rtOf func(p reflect.Value, viaParse bool) string
	rt := func(src string, viaParse bool) string {
		p, e := valueOf(src)
		if e != "" {
			return e
		}
		return rtOf(p, viaParse)
	}
	// rtw <hex backing> <len>: parse the frame, then round-trip the parsed message
	runners["rtw"] = func(a []string) string {
		outs := funcReg["Parse"].Call([]reflect.Value{reflect.ValueOf(backingOf(a[0], a[1]))})
		if !outs[1].IsNil() {
			return "perr0"
		}
		if outs[0].IsNil() {
			return "pnil0"
		}
		return rtOf(outs[0].Elem(), true)
	}
	rtOf = func(p reflect.Value, viaParse bool) string {
		b1, ok := marshalOf(p)
		if !ok {
			return "err1"
		}
		b1 = append([]byte(nil), b1...)
		// the encoding followed by other bytes, in a larger backing array
		back := append(append([]byte(nil), b1...), 0xde, 0xad, 0xbe, 0xef, 0x01, 0x02, 0x03, 0x04)
		var q reflect.Value
		if viaParse {
			outs := funcReg["Parse"].Call([]reflect.Value{reflect.ValueOf(back[:len(b1)])})
			if !outs[1].IsNil() {
				return hx(b1) + " | perr"
			}
			if outs[0].IsNil() {
				return hx(b1) + " | pnil"
			}
			q = outs[0].Elem()
		} else {
			q = reflect.New(p.Type().Elem())
			data := back[:len(b1)]
			if os.Getenv("OFV_RT_TRAIL") == "1" {
				data = back
			}
			m := q.MethodByName("UnmarshalBinary")
			if !m.IsValid() {
				return hx(b1) + " | nounmarshal"
			}
			if res := m.Call([]reflect.Value{reflect.ValueOf(data)}); !res[0].IsNil() {
				return hx(b1) + " | derr"
			}
		}
		l2 := callLen(q)
		b2, ok := marshalOf(q)
		if !ok {
			return hx(b1) + " | " + l2 + " err2"
		}
		return hx(b1) + " | " + l2 + " " + hx(b2) + " | " + dumpV(q)
	}
	runners["rtrip"] = func(a []string) string { return rt(strings.Join(a, ""), false) }
	runners["rtx"] = runners["rtrip"]
	runners["rtparse"] = func(a []string) string { return rt(strings.Join(a, ""), true) }
	runners["scribble"] = func(a []string) string {
		data := backing(unhex(a[0]), atoi(a[1]))
		back := data[:cap(data)]
		outs := funcReg["Parse"].Call([]reflect.Value{reflect.ValueOf(data)})
		if !outs[1].IsNil() {
			return "err"
		}
		if outs[0].IsNil() {
			return "~"
		}
		msg := outs[0].Elem()
		obs := func() string {
			b, ok := marshalOf(msg)
			s := dumpV(msg)
			if ok {
				s += " " + hx(b)
			} else {
				s += " merr"
			}
			return s
		}
		before := obs()
		for i := range back {
			back[i] = ^back[i]
		}
		after := obs()
		if before == after {
			return "same " + before
		}
		return "changed " + before + " -> " + after
	}
}
